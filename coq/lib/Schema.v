(* Schema.v — the part of encoding/xml's reflection unmarshaller the library
   relies on, as an interpreter over struct-tag schemas, plus the text
   conversions of leaf values (strconv, strings.TrimSpace).

   A schema for a destination of type A is a list of [field A]: the struct tag
   (kind, name space, local name) and the effect of assigning one matched
   attribute / child element / accumulated character data to the destination.
   [unmarshal_struct] is the generic algorithm of Decoder.unmarshal for a
   struct destination:
     - the XMLName tag, when there is one, is checked against the start element;
     - every attribute, in document order, is offered to every attr field whose
       tag matches (local name equal, name space equal when the tag has one);
     - every child element is consumed by the first element field whose tag
       matches, else by the first ",any" field, else skipped;
     - character data directly inside the element is accumulated and assigned
       to the ",chardata" field after the last child;
     - the first failing assignment aborts with that error.
   Results are [res]: a value, an error, a panic, or [Miss] (a case file did
   not supply an oracle entry the model needed — never a legitimate outcome). *)
From Coq Require Import DecimalN DecimalPos DecimalFacts ZArith.
From XV Require Import lib.Bytes lib.Xml.

Inductive res (A : Type) := Ok (a : A) | Err | Panic | Miss.
Arguments Ok {A} a.
Arguments Err {A}.
Arguments Panic {A}.
Arguments Miss {A}.

Definition bind {A B} (r : res A) (f : A -> res B) : res B :=
  match r with Ok a => f a | Err => Err | Panic => Panic | Miss => Miss end.

Definition rmap {A B} (f : A -> B) (r : res A) : res B := bind r (fun a => Ok (f a)).

Definition is_ok {A} (r : res A) : bool := match r with Ok _ => true | _ => false end.
Definition is_panic {A} (r : res A) : bool := match r with Panic => true | _ => false end.

Lemma bind_ok {A B} (a : A) (f : A -> res B) : bind (Ok a) f = f a.
Proof. reflexivity. Qed.

(* ---- leaf text conversions ---- *)

Definition is_space (c : byte) : bool :=
  match c with
  | " " | "009" | "010" | "011" | "012" | "013" => true
  | _ => false
  end%byte.

Fixpoint trim_left (s : bytes) : bytes :=
  match s with
  | c :: r => if is_space c then trim_left r else s
  | [] => []
  end.

Definition trim_space (s : bytes) : bytes := rev (trim_left (rev (trim_left s))).

Fixpoint uint_bytes (d : Decimal.uint) : bytes :=
  match d with
  | Decimal.Nil => []
  | Decimal.D0 d => "0"%byte :: uint_bytes d
  | Decimal.D1 d => "1"%byte :: uint_bytes d
  | Decimal.D2 d => "2"%byte :: uint_bytes d
  | Decimal.D3 d => "3"%byte :: uint_bytes d
  | Decimal.D4 d => "4"%byte :: uint_bytes d
  | Decimal.D5 d => "5"%byte :: uint_bytes d
  | Decimal.D6 d => "6"%byte :: uint_bytes d
  | Decimal.D7 d => "7"%byte :: uint_bytes d
  | Decimal.D8 d => "8"%byte :: uint_bytes d
  | Decimal.D9 d => "9"%byte :: uint_bytes d
  end.

Fixpoint bytes_uint (s : bytes) : option Decimal.uint :=
  match s with
  | [] => Some Decimal.Nil
  | c :: r =>
      match bytes_uint r with
      | None => None
      | Some d =>
          match c with
          | "0" => Some (Decimal.D0 d) | "1" => Some (Decimal.D1 d) | "2" => Some (Decimal.D2 d)
          | "3" => Some (Decimal.D3 d) | "4" => Some (Decimal.D4 d) | "5" => Some (Decimal.D5 d)
          | "6" => Some (Decimal.D6 d) | "7" => Some (Decimal.D7 d) | "8" => Some (Decimal.D8 d)
          | "9" => Some (Decimal.D9 d)
          | _ => None
          end%byte
      end
  end.

(* strconv.FormatUint(n, 10) *)
Definition dec (n : N) : bytes := uint_bytes (N.to_uint n).

(* strconv.ParseUint(s, 10, 64): digits only, at least one, value below 2^64 *)
Definition two64 : N := 18446744073709551616%N.

Definition parse_uint (s : bytes) : option N :=
  match s with
  | [] => None
  | _ => match bytes_uint s with
         | Some d => let n := N.of_uint d in if (n <? two64)%N then Some n else None
         | None => None
         end
  end.

(* strconv.Itoa / FormatInt and ParseInt(s, 10, 64) *)
Definition dec_int (z : Z) : bytes :=
  match z with
  | Z0 => dec 0
  | Zpos p => dec (Npos p)
  | Zneg p => "-"%byte :: dec (Npos p)
  end.

Definition two63 : N := 9223372036854775808%N.

Definition parse_int (s : bytes) : option Z :=
  match s with
  | [] => None
  | c :: r =>
      let '(neg, digits) :=
        if byte_eqb c "-"%byte then (true, r) else if byte_eqb c "+"%byte then (false, r) else (false, s) in
      match digits with
      | [] => None
      | _ => match bytes_uint digits with
             | Some d =>
                 let n := N.of_uint d in
                 if neg then (if (n <=? two63)%N then Some (- Z.of_N n)%Z else None)
                 else (if (n <? two63)%N then Some (Z.of_N n) else None)
             | None => None
             end
      end
  end.

(* strconv.FormatBool / ParseBool *)
Definition fmt_bool (b : bool) : bytes := if b then str "true" else str "false".

Definition parse_bool (s : bytes) : option bool :=
  if existsb (bytes_eqb s) [str "1"; str "t"; str "T"; str "TRUE"; str "true"; str "True"] then Some true
  else if existsb (bytes_eqb s) [str "0"; str "f"; str "F"; str "FALSE"; str "false"; str "False"] then Some false
  else None.

(* encoding/xml copyValue for the destination kinds used by the library *)
Definition copy_uint (s : bytes) : res N :=
  match s with
  | [] => Ok 0%N
  | _ => match parse_uint (trim_space s) with Some n => Ok n | None => Err end
  end.

Definition copy_int (s : bytes) : res Z :=
  match s with
  | [] => Ok 0%Z
  | _ => match parse_int (trim_space s) with Some n => Ok n | None => Err end
  end.

Definition copy_bool (s : bytes) : res bool :=
  match s with
  | [] => Ok false
  | _ => match parse_bool (trim_space s) with Some b => Ok b | None => Err end
  end.

(* ---- facts about the conversions ---- *)

Lemma bytes_uint_bytes d : bytes_uint (uint_bytes d) = Some d.
Proof. induction d; cbn [uint_bytes bytes_uint]; try rewrite IHd; reflexivity. Qed.

Lemma uint_bytes_nil d : uint_bytes d = [] -> d = Decimal.Nil.
Proof. destruct d; cbn; intro H; try discriminate; reflexivity. Qed.

Lemma dec_nonnil n : dec n <> [].
Proof.
  unfold dec. intro H. apply uint_bytes_nil in H. destruct n as [|p]; cbn in H; [discriminate|].
  exact (Unsigned.to_uint_nonnil p H).
Qed.

Lemma parse_uint_dec n : (n < two64)%N -> parse_uint (dec n) = Some n.
Proof.
  intro Hn. unfold parse_uint. destruct (dec n) eqn:E; [exfalso; exact (dec_nonnil n E)|].
  rewrite <- E. unfold dec. rewrite bytes_uint_bytes, DecimalN.Unsigned.of_to.
  apply N.ltb_lt in Hn. rewrite Hn. reflexivity.
Qed.

Definition all_digits (s : bytes) : bool :=
  forallb (fun c => (48 <=? bN c)%N && (bN c <=? 57)%N) s.

Lemma uint_bytes_digits d : all_digits (uint_bytes d) = true.
Proof.
  induction d; cbn [uint_bytes]; [reflexivity| | | | | | | | | |];
    (change (all_digits (?c :: ?r)) with ((48 <=? bN c)%N && (bN c <=? 57)%N && all_digits r);
     rewrite IHd; reflexivity).
Qed.

Lemma trim_left_digits s : all_digits s = true -> trim_left s = s.
Proof.
  destruct s as [|c r]; [reflexivity|]. cbn [all_digits forallb trim_left].
  intro H. apply andb_true_iff in H. destruct H as [H _].
  destruct c; try reflexivity; cbn in H; discriminate.
Qed.

Lemma all_digits_rev s : all_digits (rev s) = all_digits s.
Proof.
  unfold all_digits. induction s as [|c r IH]; [reflexivity|].
  cbn [rev forallb]. rewrite forallb_app, IH. cbn [forallb]. rewrite andb_true_r, andb_comm. reflexivity.
Qed.

Lemma trim_space_digits s : all_digits s = true -> trim_space s = s.
Proof.
  intro H. unfold trim_space. rewrite (trim_left_digits s H).
  rewrite trim_left_digits by (rewrite all_digits_rev; exact H). apply rev_involutive.
Qed.

Lemma copy_uint_dec n : (n < two64)%N -> copy_uint (dec n) = Ok n.
Proof.
  intro Hn. unfold copy_uint. destruct (dec n) eqn:E; [exfalso; exact (dec_nonnil n E)|].
  rewrite <- E. rewrite trim_space_digits by apply uint_bytes_digits.
  rewrite parse_uint_dec by exact Hn. reflexivity.
Qed.

Lemma parse_bool_fmt b : parse_bool (fmt_bool b) = Some b.
Proof. destruct b; reflexivity. Qed.

Lemma copy_bool_fmt b : copy_bool (fmt_bool b) = Ok b.
Proof. destruct b; reflexivity. Qed.

(* ---- the struct interpreter ---- *)

Inductive fkind := KAttr | KElem | KChar | KAny.

Record field (A : Type) := mkfield {
  f_kind : fkind; f_ns : bytes; f_local : bytes;
  f_set : tree -> A -> res A }.
Arguments mkfield {A}.
Arguments f_kind {A}.
Arguments f_ns {A}.
Arguments f_local {A}.
Arguments f_set {A}.

Definition name_match (ns local : bytes) (n : name) : bool :=
  bytes_eqb local (nlocal n) && (is_nil ns || bytes_eqb ns (nspace n)).

(* the text an assignment receives: an attribute value, or the character data
   directly inside a child element *)
Definition payload_text (t : tree) : bytes :=
  match t with Text b => b | Elem _ _ kids => direct_text kids | Misc _ _ => [] end.

Section Interp.
  Context {A : Type}.

  Fixpoint set_attr (fs : list (field A)) (x : attr) (a : A) : res A :=
    match fs with
    | [] => Ok a
    | f :: r =>
        match f_kind f with
        | KAttr => if name_match (f_ns f) (f_local f) (aname x)
                   then bind (f_set f (Text (aval x)) a) (set_attr r x)
                   else set_attr r x a
        | _ => set_attr r x a
        end
    end.

  Fixpoint set_attrs (fs : list (field A)) (xs : list attr) (a : A) : res A :=
    match xs with
    | [] => Ok a
    | x :: r => bind (set_attr fs x a) (set_attrs fs r)
    end.

  Fixpoint find_elem (fs : list (field A)) (n : name) : option (field A) :=
    match fs with
    | [] => None
    | f :: r => match f_kind f with
                | KElem => if name_match (f_ns f) (f_local f) n then Some f else find_elem r n
                | _ => find_elem r n
                end
    end.

  Fixpoint find_kind (k : fkind) (fs : list (field A)) : option (field A) :=
    match fs with
    | [] => None
    | f :: r => match f_kind f, k with
                | KAny, KAny | KChar, KChar => Some f
                | _, _ => find_kind k r
                end
    end.

  Definition set_child (fs : list (field A)) (c : tree) (a : A) : res A :=
    match c with
    | Elem n _ _ =>
        match find_elem fs n with
        | Some f => f_set f c a
        | None => match find_kind KAny fs with Some f => f_set f c a | None => Ok a end
        end
    | _ => Ok a
    end.

  Fixpoint set_children (fs : list (field A)) (kids : list tree) (a : A) : res A :=
    match kids with
    | [] => Ok a
    | c :: r => bind (set_child fs c a) (set_children fs r)
    end.

  Definition set_chardata (fs : list (field A)) (kids : list tree) (a : A) : res A :=
    match find_kind KChar fs with
    | Some f => f_set f (Text (direct_text kids)) a
    | None => Ok a
    end.

  Definition check_xmlname (xn : option name) (n : name) : bool :=
    match xn with
    | None => true
    | Some x => (is_nil (nlocal x) || bytes_eqb (nlocal x) (nlocal n)) &&
                (is_nil (nspace x) || bytes_eqb (nspace x) (nspace n))
    end.

  Definition unmarshal_struct (xn : option name) (fs : list (field A)) (init : A) (t : tree) : res A :=
    match t with
    | Elem n attrs kids =>
        if check_xmlname xn n then
          bind (set_attrs fs attrs init) (fun a =>
          bind (set_children fs kids a) (set_chardata fs kids))
        else Err
    | _ => Err
    end.

  Lemma set_children_app fs k1 k2 a :
    set_children fs (k1 ++ k2) a = bind (set_children fs k1 a) (set_children fs k2).
  Proof.
    revert a; induction k1 as [|c r IH]; intro a; cbn [app set_children]; [reflexivity|].
    destruct (set_child fs c a); cbn [bind]; auto.
  Qed.

  Lemma set_attrs_app fs x1 x2 a :
    set_attrs fs (x1 ++ x2) a = bind (set_attrs fs x1 a) (set_attrs fs x2).
  Proof.
    revert a; induction x1 as [|c r IH]; intro a; cbn [app set_attrs]; [reflexivity|].
    destruct (set_attr fs c a); cbn [bind]; auto.
  Qed.

  (* children that are not elements are invisible to the element fields *)
  Lemma set_children_text fs b r a : set_children fs (Text b :: r) a = set_children fs r a.
  Proof. reflexivity. Qed.
End Interp.

(* field constructors for the destination kinds the library uses *)
Definition f_str {A} (k : fkind) (ns local : bytes) (put : bytes -> A -> A) : field A :=
  mkfield k ns local (fun t a => Ok (put (payload_text t) a)).

Definition f_conv {A B} (k : fkind) (ns local : bytes) (conv : bytes -> res B) (put : B -> A -> A) : field A :=
  mkfield k ns local (fun t a => bind (conv (payload_text t)) (fun b => Ok (put b a))).

(* a destination with its own decoding of the whole child element *)
Definition f_sub {A B} (k : fkind) (ns local : bytes) (dec_ : tree -> res B) (put : B -> A -> A) : field A :=
  mkfield k ns local (fun t a => bind (dec_ t) (fun b => Ok (put b a))).

(* a nested struct destination: the child is decoded *into* the current value *)
Definition f_into {A B} (k : fkind) (ns local : bytes) (get : A -> B) (dec_ : B -> tree -> res B)
           (put : B -> A -> A) : field A :=
  mkfield k ns local (fun t a => bind (dec_ (get a) t) (fun b => Ok (put b a))).
