(* Pack.v — compact byte-string literals for harness-written case files.
   A byte string of n bytes is written as [B n [g1; g2; ...]] where each g is a
   primitive 63-bit integer literal holding up to 7 bytes, big-endian; every
   group is full except possibly the last. Primitive integers are used only
   here (case files evaluated with vm_compute), never in models or theorems:
   elaborating string literals costs ~50 us per character, these ~1 us. *)
From Coq Require Import Uint63 ZArith.
From XV Require Import lib.Bytes.

Definition bit (i : int) (k : int) : bool :=
  negb (Uint63.eqb (Uint63.land (Uint63.lsr i k) 1%uint63) 0%uint63).

Definition byte_of_int (i : int) : byte :=
  Byte.of_bits (bit i 0%uint63, (bit i 1%uint63, (bit i 2%uint63, (bit i 3%uint63,
               (bit i 4%uint63, (bit i 5%uint63, (bit i 6%uint63, bit i 7%uint63))))))).

Definition shift_of (k : nat) : int :=
  match k with
  | 0 => 0 | 1 => 8 | 2 => 16 | 3 => 24 | 4 => 32 | 5 => 40 | _ => 48
  end%uint63.

Fixpoint unpack_group (k : nat) (i : int) : bytes :=
  match k with
  | O => []
  | S k' => byte_of_int (Uint63.lsr i (shift_of k')) :: unpack_group k' i
  end.

Fixpoint B (n : nat) (gs : list int) : bytes :=
  match gs with
  | [] => []
  | g :: rest => unpack_group (Nat.min n 7) g ++ B (n - 7) rest
  end.

Example B_example : B 9 [0x61626364656667; 0x6869]%uint63 = str "abcdefghi".
Proof. vm_compute. reflexivity. Qed.
