(* Bytes.v — byte strings shared by all models.
   bytes := list byte (Coq.Init.Byte.byte, 256 constructors).
   Case files written by the harness carry byte strings as hex [string]s;
   [hex] decodes them, [to_hex] prints them. *)
From Coq Require Export Strings.Byte String Ascii.
From Coq Require Export List Arith NArith Lia Bool.
Export ListNotations.

Definition bytes := list byte.

Definition byte_eqb (a b : byte) : bool := Byte.eqb a b.

Lemma byte_eqb_eq a b : byte_eqb a b = true <-> a = b.
Proof. unfold byte_eqb.
  split.
  - intro H. apply Byte.byte_dec_bl in H. exact H.
  - intro H. apply Byte.byte_dec_lb. exact H.
Qed.

Lemma byte_eqb_refl a : byte_eqb a a = true.
Proof. apply byte_eqb_eq. reflexivity. Qed.

Lemma byte_eqb_neq a b : byte_eqb a b = false <-> a <> b.
Proof.
  split.
  - intros H E. apply byte_eqb_eq in E. congruence.
  - intro H. destruct (byte_eqb a b) eqn:E; [apply byte_eqb_eq in E; contradiction | reflexivity].
Qed.

Definition byte_eq_dec (a b : byte) : {a = b} + {a <> b}.
Proof. destruct (byte_eqb a b) eqn:E.
  - left. apply byte_eqb_eq. exact E.
  - right. apply byte_eqb_neq. exact E.
Defined.

Fixpoint bytes_eqb (a b : bytes) : bool :=
  match a, b with
  | [], [] => true
  | x :: a', y :: b' => byte_eqb x y && bytes_eqb a' b'
  | _, _ => false
  end.

Lemma bytes_eqb_eq a b : bytes_eqb a b = true <-> a = b.
Proof.
  revert b; induction a as [|x a IH]; intros [|y b]; simpl; split; intro H;
    try reflexivity; try discriminate.
  - apply andb_true_iff in H. destruct H as [H1 H2].
    apply byte_eqb_eq in H1. apply IH in H2. congruence.
  - inversion H; subst. rewrite byte_eqb_refl. simpl. apply IH. reflexivity.
Qed.

Definition bN (b : byte) : N := Byte.to_N b.

Definition byte_of_N (n : N) : byte :=
  match Byte.of_N (n mod 256) with Some b => b | None => x00 end.

Lemma byte_of_N_bN b : byte_of_N (bN b) = b.
Proof. destruct b; reflexivity. Qed.

Definition in_bytes (c : byte) (s : bytes) : bool := existsb (byte_eqb c) s.

Lemma in_bytes_In c s : in_bytes c s = true <-> In c s.
Proof.
  unfold in_bytes. rewrite existsb_exists. split.
  - intros [x [Hx E]]. apply byte_eqb_eq in E. subst. exact Hx.
  - intro H. exists c. split; [exact H | apply byte_eqb_refl].
Qed.

(* ---- hex ---- *)

Definition hexdigit (n : N) : byte :=
  match n with
  | 0 => "0" | 1 => "1" | 2 => "2" | 3 => "3" | 4 => "4" | 5 => "5" | 6 => "6" | 7 => "7"
  | 8 => "8" | 9 => "9" | 10 => "a" | 11 => "b" | 12 => "c" | 13 => "d" | 14 => "e" | _ => "f"
  end%N%byte.

Definition hexval (c : byte) : option N :=
  let n := bN c in
  (if (48 <=? n) && (n <=? 57) then Some (n - 48)
  else if (97 <=? n) && (n <=? 102) then Some (n - 87)
  else if (65 <=? n) && (n <=? 70) then Some (n - 55)
  else None)%N.

Fixpoint unhex_bytes (s : bytes) : bytes :=
  match s with
  | a :: b :: rest =>
      match hexval a, hexval b with
      | Some x, Some y => byte_of_N (x * 16 + y)%N :: unhex_bytes rest
      | _, _ => []
      end
  | _ => []
  end.

Definition hex (s : string) : bytes := unhex_bytes (list_byte_of_string s).

Definition to_hex (s : bytes) : string :=
  string_of_list_byte (flat_map (fun b => [hexdigit (bN b / 16)%N; hexdigit (bN b mod 16)%N]) s).

Definition str (s : string) : bytes := list_byte_of_string s.

(* ---- generic list helpers used by several models ---- *)

Fixpoint index_where {A} (p : A -> bool) (l : list A) : option nat :=
  match l with
  | [] => None
  | x :: r => if p x then Some 0 else option_map S (index_where p r)
  end.

Fixpoint is_prefix (p s : bytes) : bool :=
  match p, s with
  | [], _ => true
  | x :: p', y :: s' => byte_eqb x y && is_prefix p' s'
  | _, [] => false
  end.
