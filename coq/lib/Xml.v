(* Xml.v — XML at the level at which the library works: encoding/xml tokens.
   A [tree] is a well-bracketed token sequence; [Text] nodes correspond one to
   one to CharData tokens (they are never merged here), [Misc] to comments,
   processing instructions and directives.

   Two readings of a tree are used:
   * the tokens a hand-written TokenReader yields (element names carry the name
     space only where the code sets it, no xmlns attributes);
   * the tokens an encoding/xml Decoder yields for a document (name spaces
     resolved, xmlns attributes present in the attribute list).
   [wire] models the passage from the first to the second through
   xml.Encoder.EncodeToken and xml.Decoder.Token (validated differentially by
   the harnesses; text is assumed to consist of characters XML can carry). *)
From XV Require Import lib.Bytes.

Record name := mkname { nspace : bytes; nlocal : bytes }.

Definition name_eqb (a b : name) : bool :=
  bytes_eqb (nspace a) (nspace b) && bytes_eqb (nlocal a) (nlocal b).

Lemma name_eqb_eq a b : name_eqb a b = true <-> a = b.
Proof.
  destruct a as [s l], b as [s' l']; unfold name_eqb; cbn.
  rewrite andb_true_iff, !bytes_eqb_eq. split.
  - intros [-> ->]; reflexivity.
  - intros E; inversion E; auto.
Qed.

Record attr := mkattr { aname : name; aval : bytes }.

Inductive tree :=
| Elem (n : name) (attrs : list attr) (kids : list tree)
| Text (b : bytes)
| Misc (k : nat) (b : bytes).

Inductive token :=
| TStart (n : name) (a : list attr)
| TEnd (n : name)
| TChar (b : bytes)
| TMisc (k : nat) (b : bytes).

Definition is_nil {A} (l : list A) : bool := match l with [] => true | _ => false end.

(* local-name element without name space, as most child elements are written *)
Definition ln (local : bytes) : name := mkname [] local.
Definition at_ (local v : bytes) : attr := mkattr (ln local) v.

(* ---- trees and token sequences ---- *)

Fixpoint tokens_of_tree (t : tree) : list token :=
  match t with
  | Elem n a kids => TStart n a :: flat_map tokens_of_tree kids ++ [TEnd n]
  | Text b => [TChar b]
  | Misc k b => [TMisc k b]
  end.

Definition tokens_of_forest (f : list tree) : list token := flat_map tokens_of_tree f.

(* stack discipline of xml.Decoder: every end tag closes the innermost open
   start tag of the same name; the sequence ends with nothing open *)
Fixpoint balanced_from (stk : list name) (l : list token) : bool :=
  match l with
  | [] => is_nil stk
  | TStart n _ :: r => balanced_from (n :: stk) r
  | TEnd n :: r => match stk with
                   | m :: stk' => name_eqb m n && balanced_from stk' r
                   | [] => false
                   end
  | _ :: r => balanced_from stk r
  end.

Definition balanced (l : list token) : bool := balanced_from [] l.

(* fuelled parser, inverse of tokens_of_forest *)
Fixpoint parse_forest (fuel : nat) (l : list token) : option (list tree * list token) :=
  match fuel with
  | O => None
  | S fuel' =>
      match l with
      | [] => Some ([], [])
      | TEnd _ :: _ => Some ([], l)
      | TChar b :: r =>
          match parse_forest fuel' r with Some (f, rest) => Some (Text b :: f, rest) | None => None end
      | TMisc k b :: r =>
          match parse_forest fuel' r with Some (f, rest) => Some (Misc k b :: f, rest) | None => None end
      | TStart n a :: r =>
          match parse_forest fuel' r with
          | Some (kids, TEnd m :: rest) =>
              if name_eqb n m then
                match parse_forest fuel' rest with
                | Some (f, rest') => Some (Elem n a kids :: f, rest')
                | None => None
                end
              else None
          | _ => None
          end
      end
  end.

(* ---- names occurring in a tree ---- *)

Fixpoint elem_names (t : tree) : list name :=
  match t with
  | Elem n a kids => n :: flat_map elem_names kids
  | _ => []
  end.

Fixpoint attr_names (t : tree) : list name :=
  match t with
  | Elem n a kids => map aname a ++ flat_map attr_names kids
  | _ => []
  end.

Definition name_ok (n : name) : bool := negb (is_nil (nlocal n)).

(* every element and attribute name is one of a fixed, non-empty list *)
Definition names_within (els ats : list name) (t : tree) : bool :=
  forallb (fun n => existsb (name_eqb n) els) (elem_names t) &&
  forallb (fun n => existsb (name_eqb n) ats) (attr_names t).

Definition names_nonempty (t : tree) : bool :=
  forallb name_ok (elem_names t) && forallb name_ok (attr_names t).

(* ---- accessors shared by the unmarshalling models ---- *)

Definition is_elem (t : tree) : bool := match t with Elem _ _ _ => true | _ => false end.

(* the character data directly inside an element: what encoding/xml
   accumulates for a string / number / chardata destination *)
Fixpoint direct_text (kids : list tree) : bytes :=
  match kids with
  | [] => []
  | Text b :: r => b ++ direct_text r
  | _ :: r => direct_text r
  end.

Definition elem_text (t : tree) : bytes :=
  match t with Elem _ _ kids => direct_text kids | _ => [] end.

Definition tree_name (t : tree) : name :=
  match t with Elem n _ _ => n | _ => mkname [] [] end.

Definition tree_attrs (t : tree) : list attr :=
  match t with Elem _ a _ => a | _ => [] end.

Definition tree_kids (t : tree) : list tree :=
  match t with Elem _ _ k => k | _ => [] end.

(* first attribute with the given local name, whatever its name space: the
   `for _, attr := range start.Attr { if attr.Name.Local == ... }` idiom *)
Fixpoint attr_local (local : bytes) (a : list attr) : option bytes :=
  match a with
  | [] => None
  | x :: r => if bytes_eqb (nlocal (aname x)) local then Some (aval x) else attr_local local r
  end.

(* ---- the encoder/decoder passage ---- *)

Definition xml_ns : bytes := str "http://www.w3.org/XML/1998/namespace".
Definition xmlns_attr (ns : bytes) : attr := mkattr (mkname [] (str "xmlns")) ns.

Fixpoint merge_text (l : list tree) : list tree :=
  match l with
  | Text a :: r =>
      match merge_text r with
      | Text b :: r' => Text (a ++ b) :: r'
      | r' => Text a :: r'
      end
  | x :: r => x :: merge_text r
  | [] => []
  end.

(* attributes the encoder writes: those without a local name are dropped;
   only the empty and the xml name space are within the model *)
Definition wire_attrs (a : list attr) : list attr :=
  filter (fun x => negb (is_nil (nlocal (aname x)))) a.

Definition attrs_in_model (a : list attr) : bool :=
  forallb (fun x => is_nil (nspace (aname x)) || bytes_eqb (nspace (aname x)) xml_ns) a.

Fixpoint wire (dflt : bytes) (t : tree) : list tree :=
  match t with
  | Elem n a kids =>
      let ns := if is_nil (nspace n) then dflt else nspace n in
      let decl := if is_nil (nspace n) then [] else [xmlns_attr (nspace n)] in
      [Elem (mkname ns (nlocal n)) (decl ++ wire_attrs a) (merge_text (flat_map (wire ns) kids))]
  | Text b => if is_nil b then [] else [Text b]
  | Misc k b => [Misc k b]
  end.

Definition wire1 (t : tree) : tree :=
  match wire [] t with [x] => x | _ => t end.

Fixpoint tree_in_model (t : tree) : bool :=
  match t with
  | Elem n a kids => name_ok n && attrs_in_model a && forallb tree_in_model kids
  | _ => true
  end.

(* ---- facts ---- *)

Lemma balanced_from_app_tree : forall t stk rest,
  balanced_from stk (tokens_of_tree t ++ rest) = balanced_from stk rest.
Proof.
  fix IH 1. intros [n a kids|b|k b] stk rest; cbn [tokens_of_tree app balanced_from]; try reflexivity.
  rewrite <- app_assoc.
  assert (H : forall kids stk' rest', balanced_from stk' (flat_map tokens_of_tree kids ++ rest') = balanced_from stk' rest').
  { induction kids0 as [|k ks IHk]; intros stk' rest'; cbn [flat_map app]; [reflexivity|].
    rewrite <- app_assoc, IH. apply IHk. }
  rewrite H. cbn [app balanced_from].
  assert (E : name_eqb n n = true) by (apply name_eqb_eq; reflexivity).
  rewrite E. reflexivity.
Qed.

Lemma balanced_tree t : balanced (tokens_of_tree t) = true.
Proof.
  unfold balanced. rewrite <- (app_nil_r (tokens_of_tree t)), balanced_from_app_tree. reflexivity.
Qed.

Lemma balanced_forest f : balanced (tokens_of_forest f) = true.
Proof.
  unfold balanced, tokens_of_forest. induction f as [|t f IH]; cbn [flat_map]; [reflexivity|].
  rewrite balanced_from_app_tree. exact IH.
Qed.

Definition closes (rest : list token) : Prop :=
  rest = [] \/ exists m r, rest = TEnd m :: r.

Fixpoint tsize (t : tree) : nat :=
  match t with
  | Elem _ _ kids => S (S (list_sum (map tsize kids)))
  | _ => 1
  end.

Definition fsize (f : list tree) : nat := list_sum (map tsize f).

Lemma tsize_pos t : 1 <= tsize t.
Proof. destruct t; cbn; lia. Qed.

Lemma parse_forest_tokens : forall fuel f rest,
  closes rest -> fsize f < fuel ->
  parse_forest fuel (tokens_of_forest f ++ rest) = Some (f, rest).
Proof.
  induction fuel as [|fuel IH]; intros f rest Hc Hf; [lia|].
  destruct f as [|t f].
  - cbn [tokens_of_forest flat_map app parse_forest].
    destruct Hc as [->|[m [r ->]]]; reflexivity.
  - unfold tokens_of_forest in *. cbn [flat_map].
    assert (Hsz : fsize (t :: f) = tsize t + fsize f) by reflexivity.
    pose proof (tsize_pos t) as Hp.
    assert (Hf' : fsize f < fuel) by lia.
    destruct t as [n a kids|b|k b]; cbn [tokens_of_tree].
    + assert (Hk : fsize kids < fuel).
      { assert (tsize (Elem n a kids) = S (S (fsize kids))) by reflexivity. lia. }
      cbn [app parse_forest].
      replace (((flat_map tokens_of_tree kids ++ [TEnd n]) ++ flat_map tokens_of_tree f) ++ rest)
        with (flat_map tokens_of_tree kids ++ TEnd n :: flat_map tokens_of_tree f ++ rest)
        by (rewrite <- !app_assoc; reflexivity).
      rewrite (IH kids (TEnd n :: flat_map tokens_of_tree f ++ rest)).
      * assert (E : name_eqb n n = true) by (apply name_eqb_eq; reflexivity).
        rewrite E. rewrite (IH f rest Hc Hf'). reflexivity.
      * right. eexists; eexists; reflexivity.
      * exact Hk.
    + cbn [app parse_forest]. rewrite (IH f rest Hc Hf'). reflexivity.
    + cbn [app parse_forest]. rewrite (IH f rest Hc Hf'). reflexivity.
Qed.

(* the token sequence of a tree parses back to that tree: the sequence is
   well-bracketed and determines the tree *)
Lemma parse_tokens_of_tree t :
  parse_forest (S (tsize t)) (tokens_of_tree t) = Some ([t], []).
Proof.
  assert (Hs : fsize [t] < S (tsize t)).
  { assert (fsize [t] = tsize t + 0) by reflexivity. lia. }
  pose proof (parse_forest_tokens (S (tsize t)) [t] [] (or_introl eq_refl) Hs) as H.
  unfold tokens_of_forest in H. cbn [flat_map] in H.
  rewrite !app_nil_r in H. exact H.
Qed.
