(* C14/Properties.v — the property theorems of C14 and nothing else.
   "The multiplexer always picks the most specific registered handler."

   Vocabulary (C14/Proofs.v): a pattern component [comp_matches] an element
   component if it is equal or the wildcard (empty); a pattern [matches] a name
   if both components match (top-level patterns: with at most one wildcard);
   [rank] orders patterns exact > local name only > namespace only > bare
   wildcard; [registered ops t typ p h] says that the options given to mux.New
   contain Handle / IQ / Message / Presence (typ, p, handler h) for table t.

   Readers: the token reader handed to HandleXMPP is a token list plus a
   terminal condition tm : term (C14/Model.v) - it ends with io.EOF or with
   another error (t_err), reported by a separate later call or TOGETHER WITH
   THE LAST TOKEN (t_with), as xml.TokenReader permits and readers built with
   xmlstream.Wrap or stanza.Message.Wrap do.  Every theorem below that mentions
   tm holds for all four.

   One mux, several stanzas: [handle] is the dispatch of a stanza by a mux that is
   in the middle of nothing else.  [handle_gen N] is the same code when handlers
   may, at any point between their calls to Token(), hand another stanza to the
   same mux (hb_nest; N j is the outcome of that other dispatch, None if there is
   no stanza j); [handle_in r ns elems e] instantiates N with the dispatches of
   the stanzas elems themselves, to any depth.  All the dispatches share is the
   mux: the registry and the name space, which nothing changes after New
   (C14_mux_has_no_per_call_state, read from the source). *)
From XV Require Import lib.Bytes gen.Mux C14.Model C14.Proofs C14.Reentry.

(* Every lookup (Handler, IQHandler, MessageHandler, PresenceHandler) returns the
   handler of a registered pattern of the element's own kind and type that
   matches the name and is maximal in the specificity order; it returns the
   default exactly when no registered pattern of that kind and type matches.
   The order of the probes is read from the source (gen/Mux.v). *)
Theorem C14_most_specific : forall ops r t typ e,
  new_mux ops = Some r ->
  match lookup r t typ e with
  | Some h =>
      exists p, registered ops t typ p h /\ matches (bare_of t) p e /\
                forall p' h', registered ops t typ p' h' -> matches (bare_of t) p' e -> rank p' <= rank p
  | None => forall p h, registered ops t typ p h -> ~ matches (bare_of t) p e
  end.
Proof. exact lookup_registered. Qed.
Print Assumptions C14_most_specific.

(* The most specific handler is unique. *)
Theorem C14_choice_is_unique : forall t stz typ bare e h1 h2,
  unique_keys t -> most_specific t stz typ bare e h1 -> most_specific t stz typ bare e h2 -> h1 = h2.
Proof. exact most_specific_unique. Qed.
Print Assumptions C14_choice_is_unique.

(* Top-level dispatch: a matching top-level pattern wins over everything (its
   handler runs once, on the element's own tokens); an element that is not a
   stanza of the mux's namespace and matches nothing is ignored. *)
Theorem C14_top_level_dispatch : forall ops r ns sn attrs toks tm script,
  new_mux ops = Some r -> valid_ids ops ->
  match lookup_top r sn with
  | Some h =>
      handle r ns sn attrs toks tm script =
      let b := fst (next_beh script) in mkout [EvTop h sn (firstn (hb_reads b) toks)] [] (ret_of b)
  | None => stanza_is sn ns = false -> handle r ns sn attrs toks tm script = out_nothing
  end.
Proof. exact thm_top_level. Qed.
Print Assumptions C14_top_level_dispatch.

(* IQs: the handler chosen (by C14_most_specific) for the IQ's type and the name
   of its first payload element - leading whitespace skipped - runs exactly once
   and can read the rest of the IQ's content, never its end tag.  (rest <> []:
   the payload's start element is not the reader's last token, as in every IQ
   that is closed.) *)
Theorem C14_iq_dispatch : forall ops r ns sn attrs toks tm script h n rest hd,
  new_mux ops = Some r -> valid_ids ops ->
  lookup_top r sn = None -> stanza_is sn ns = true -> snd sn = str "iq" ->
  new_iq sn attrs = Some h ->
  drop_ws toks = TStart n :: rest -> rest <> [] ->
  lookup_iq r (h_type h) n = Some hd ->
  handle r ns sn attrs toks tm script =
  let b := fst (next_beh script) in
  mkout [EvIq hd (h_type h) (Some n) (firstn (hb_reads b) (until_close 1 rest))] [] (ret_of b).
Proof. exact thm_iq_dispatch. Qed.
Print Assumptions C14_iq_dispatch.

(* Defaults for IQs, as the property states them: an IQ no handler is chosen for
   (no pattern matches its payload; or it has no payload element at all) runs no
   handler and is answered by exactly one service-unavailable error with swapped
   addresses if it is a get or a set, and by nothing otherwise. *)
Definition C14_defaults_statement : Prop :=
  forall r ns sn attrs toks tm script h, iq_defaults_at r ns sn attrs toks tm script h.

(* Proved for the four IQ types of RFC 6120. *)
Theorem C14_defaults_partial : forall r ns sn attrs toks tm script h,
  In (h_type h) [str "get"; str "set"; str "result"; str "error"] ->
  iq_defaults_at r ns sn attrs toks tm script h.
Proof. exact thm_defaults_partial. Qed.
Print Assumptions C14_defaults_partial.

(* False as stated for the code as it is: an IQ whose type attribute is missing
   (or not one of the four) is answered too (pinned by mux's TestFallback). *)
Theorem C14_defaults_refuted :
  exists r ns sn attrs toks tm script h, ~ iq_defaults_at r ns sn attrs toks tm script h.
Proof. exact thm_defaults_refuted. Qed.
Print Assumptions C14_defaults_refuted.

(* Defaults for messages and presences: the mux never writes anything, and runs
   nothing when no child selects a handler (and, for an empty stanza, there is
   no type wildcard). *)
Theorem C14_defaults_children_write_nothing : forall r ns sn attrs toks tm script k h,
  lookup_top r sn = None -> stanza_is sn ns = true -> snd sn = child_local k -> child_hdr k sn attrs = Some h ->
  o_replies (handle r ns sn attrs toks tm script) = [].
Proof. exact thm_children_defaults. Qed.
Print Assumptions C14_defaults_children_write_nothing.

Theorem C14_defaults_children_unhandled : forall ops r ns sn attrs toks tm script k h rest,
  new_mux ops = Some r -> valid_ids ops ->
  lookup_top r sn = None -> stanza_is sn ns = true -> snd sn = child_local k -> child_hdr k sn attrs = Some h ->
  skip_elem 0 toks = Some rest ->
  (forall n, In n (child_names 0 toks) -> lookup_child r k (h_type h) n = None) ->
  (forall t', toks = TEnd :: t' -> lookup_child r k (h_type h) ([], []) = None) ->
  handle r ns sn attrs toks tm script = out_nothing.
Proof. exact thm_children_unhandled. Qed.
Print Assumptions C14_defaults_children_unhandled.

(* Messages and presences (k): for every token sequence in which the stanza is
   closed, every script of handler behaviours (how many tokens each invoked
   handler reads, whether it fails) and every terminal condition of the reader
   (in particular: the stanza's end element returned together with io.EOF),
   what forChildren does - bufReader offsets, Inner/InnerElement counters, Iter
   with draining, the "buffer has length 2" rule - equals [children_spec]: one
   invocation per element child whose name selects a handler, in document
   order, each given the first (as many as it reads) tokens of the WHOLE stanza
   starting at its start element; an error iff one of them failed. *)
Theorem C14_child_dispatch_replays_whole_stanza : forall ops r ns sn attrs toks tm script k h rest,
  new_mux ops = Some r -> valid_ids ops ->
  lookup_top r sn = None -> stanza_is sn ns = true -> snd sn = child_local k -> child_hdr k sn attrs = Some h ->
  skip_elem 0 toks = Some rest ->
  handle r ns sn attrs toks tm script = children_spec r k sn (h_type h) toks script.
Proof. exact thm_children. Qed.
Print Assumptions C14_child_dispatch_replays_whole_stanza.

(* ... in particular every handler that runs is handed a prefix of the complete
   stanza, from its start element, regardless of what other handlers consumed *)
Theorem C14_every_child_handler_sees_the_stanza_from_its_start :
  forall ops r ns sn attrs toks tm script k h rest e,
  new_mux ops = Some r -> valid_ids ops ->
  lookup_top r sn = None -> stanza_is sn ns = true -> snd sn = child_local k -> child_hdr k sn attrs = Some h ->
  skip_elem 0 toks = Some rest ->
  In e (o_events (handle r ns sn attrs toks tm script)) ->
  exists hd n, e = child_event k hd (h_type h) (firstn n (TStart sn :: toks)).
Proof. exact thm_children_whole_stanza. Qed.
Print Assumptions C14_every_child_handler_sees_the_stanza_from_its_start.

(* ... and the handlers that run are those selected by the element children, in order *)
Theorem C14_child_handlers_are_the_selected_ones : forall ops r ns sn attrs toks tm script k h rest,
  new_mux ops = Some r -> valid_ids ops ->
  lookup_top r sn = None -> stanza_is sn ns = true -> snd sn = child_local k -> child_hdr k sn attrs = Some h ->
  skip_elem 0 toks = Some rest -> (forall t', toks <> TEnd :: t') ->
  map event_hid (o_events (handle r ns sn attrs toks tm script)) = chosen r k (h_type h) (child_names 0 toks).
Proof. exact thm_children_chosen. Qed.
Print Assumptions C14_child_handlers_are_the_selected_ones.

(* Invariant behind the replay: a reader whose buffer is a prefix of the stanza,
   with the underlying reader right behind it, hands out the next k tokens of
   the stanza and keeps the invariant (buffer only grows). *)
Theorem C14_replay_buffer_invariant : forall tm all k b v,
  Inv all b v ->
  exists b', take_n (b_token tm) k b = (firstn k v, b') /\ Inv all b' (skipn k v) /\
             length (b_buf b) <= length (b_buf b').
Proof. exact take_n_b. Qed.
Print Assumptions C14_replay_buffer_invariant.

(* At the end of its buffer bufReader.Token fetches a token from the underlying
   reader, appends it to the buffer and hands it on together with the error
   that came with it - also when that token is the reader's last one and comes
   with io.EOF or another error (fin_err tm [] = Some _ for such readers). *)
Theorem C14_token_with_error_is_buffered : forall tm b x u,
  b_off b = length (b_buf b) -> b_und b = x :: u ->
  b_token tm b = RTok x (fin_err tm u) (mkbr (b_buf b ++ [x]) (S (b_off b)) u).
Proof. exact b_token_fetch. Qed.
Print Assumptions C14_token_with_error_is_buffered.

(* An empty message or presence goes to the type wildcard of its type (and only
   there), which is offered the whole (two-token) stanza. *)
Theorem C14_empty_stanza_to_wildcard : forall ops r ns sn attrs rest tm script k h,
  new_mux ops = Some r -> valid_ids ops ->
  lookup_top r sn = None -> stanza_is sn ns = true -> snd sn = child_local k -> child_hdr k sn attrs = Some h ->
  handle r ns sn attrs (TEnd :: rest) tm script =
  match lookup_child r k (h_type h) ([], []) with
  | None => out_nothing
  | Some hd =>
      let b := fst (next_beh script) in
      mkout [child_event k hd (h_type h) (firstn (hb_reads b) (TStart sn :: TEnd :: rest))] [] (ret_of b)
  end.
Proof. exact thm_empty_stanza. Qed.
Print Assumptions C14_empty_stanza_to_wildcard.

(* ... and that lookup - made with the zero name, not with the stanza's own -
   finds exactly the registered bare type wildcard, for every set of registered
   patterns: a pattern with a name (for instance the stanza element's own local
   name "message" or its name space jabber:client, registered for payloads such
   as body or show) is never chosen for the empty stanza. *)
Theorem C14_empty_stanza_lookup_is_the_bare_wildcard : forall ops r k typ hd,
  new_mux ops = Some r ->
  (lookup_child r k typ ([], []) = Some hd <-> registered ops (child_tbl k) typ ([], []) hd).
Proof. exact wildcard_lookup_registered. Qed.
Print Assumptions C14_empty_stanza_lookup_is_the_bare_wildcard.

(* Registration: a nil handler, a nil func through a Func wrapper, a top-level
   pattern with a stanza name, or a pattern registered twice make mux.New panic;
   any other sequence of options is accepted. *)
Theorem C14_registration_refusals : forall ops,
  (exists op, In op ops /\ (op_h op = HNil \/ op_h op = HNilFunc \/ ~ top_ok op)) \/ ~ NoDup (map op_tbl_key ops) ->
  new_mux ops = None.
Proof. exact new_mux_refuses. Qed.
Print Assumptions C14_registration_refusals.

Theorem C14_registration_accepts : forall ops,
  NoDup (map op_tbl_key ops) -> (forall op, In op ops -> (exists h, op_h op = HOk h) /\ top_ok op) ->
  exists r, new_mux ops = Some r.
Proof. exact new_mux_ok. Qed.
Print Assumptions C14_registration_accepts.

(* Lookups commute with injective renamings of namespaces and local names that
   keep the wildcard: the lookups observe nothing but equalities between names
   and emptiness, so the 2 x 2 name universe of the harness exercises every case
   the functions can distinguish. *)
Theorem C14_renaming_invariance : forall fs fl : bytes -> bytes,
  (forall a b, fs a = fs b -> a = b) -> (forall a b, fl a = fl b -> a = b) -> fs [] = [] -> fl [] = [] ->
  forall r t typ n, lookup (rename_reg fs fl r) t typ (rename fs fl n) = lookup r t typ n.
Proof. exact lookup_rename. Qed.
Print Assumptions C14_renaming_invariance.

(* Dispatch of a stanza does not depend on what else the mux is in the middle of:
   for every N - whatever other dispatches the stanza's handlers start on the same
   mux, at whatever point of their reading, and whatever those do - the handlers
   invoked for this stanza, the tokens each of them obtains, the replies written
   and the result are those of [handle] (strip forgets the records EvNested of
   the other dispatches, nothing else). *)
Theorem C14_dispatch_is_independent_of_other_dispatches : forall N r ns sn attrs toks tm script,
  strip (handle_gen N r ns sn attrs toks tm script) = handle r ns sn attrs toks tm script.
Proof. exact thm_independent. Qed.
Print Assumptions C14_dispatch_is_independent_of_other_dispatches.

(* ... so the clause "every handler chosen for a child is handed the complete
   stanza from its start element" holds for a message or presence on a mux that
   is re-entered by its handlers (or shared with another session whose stanza is
   dispatched while a handler of this one is parked between two reads) *)
Theorem C14_reentrant_child_dispatch_replays_whole_stanza : forall N ops r ns sn attrs toks tm script k h rest,
  new_mux ops = Some r -> valid_ids ops ->
  lookup_top r sn = None -> stanza_is sn ns = true -> snd sn = child_local k -> child_hdr k sn attrs = Some h ->
  skip_elem 0 toks = Some rest ->
  strip (handle_gen N r ns sn attrs toks tm script) = children_spec r k sn (h_type h) toks script.
Proof. exact thm_children_reentrant. Qed.
Print Assumptions C14_reentrant_child_dispatch_replays_whole_stanza.

(* ... and for stanzas dispatched from handlers of stanzas dispatched from
   handlers ...: the dispatch of e and every dispatch nested in it, at any depth,
   is - once the records of the dispatches nested in IT are set aside - the
   dispatch of that stanza alone (all_solo, C14/Reentry.v). *)
Theorem C14_every_dispatch_on_a_shared_mux_is_a_dispatch_alone : forall r ns elems e,
  all_solo r ns elems e (handle_in r ns elems e).
Proof. exact thm_all_solo. Qed.
Print Assumptions C14_every_dispatch_on_a_shared_mux_is_a_dispatch_alone.

(* What ties this to the code: no field of the shared ServeMux is assigned,
   incremented, sliced, appended to or has its address taken by anything but New
   and the options it applies, and forChildren allocates its replay buffer itself
   (make): state of one dispatch does not live on the mux. *)
Theorem C14_mux_has_no_per_call_state :
  servemux_fields_touched_after_new = [] /\ forchildren_buffer_is_local = true.
Proof. exact (conj mux_is_immutable_after_new replay_buffer_is_per_call). Qed.
Print Assumptions C14_mux_has_no_per_call_state.

(* The tables the proofs rely on are the ones in the source today. *)
Theorem C14_tables :
  (top_cascade = [(TblTop, true, true); (TblTop, false, true); (TblTop, true, false)] /\
   iq_cascade = [(TblIq, true, true); (TblIq, false, true); (TblIq, true, false); (TblIq, false, false)] /\
   msg_cascade = [(TblMsg, true, true); (TblMsg, false, true); (TblMsg, true, false); (TblMsg, false, false)] /\
   pres_cascade = [(TblPres, true, true); (TblPres, false, true); (TblPres, true, false); (TblPres, false, false)]) /\
  (reg_handle = (TblTop, true, true, true) /\ reg_iq = (TblIq, true, true, false) /\
   reg_message = (TblMsg, true, true, false) /\ reg_presence = (TblPres, true, true, false)) /\
  (handlefunc_refuses_nil_func = true /\ iqfunc_refuses_nil_func = true /\
   messagefunc_refuses_nil_func = true /\ presencefunc_refuses_nil_func = true) /\
  (iq_stanza = reg_iq_stanza /\ msg_stanza = reg_message_stanza /\ pres_stanza = reg_presence_stanza) /\
  (fallback_silent_types = [str "error"; str "result"] /\ fallback_swaps_addresses = true /\
   fallback_reply_type = str "error" /\ fallback_error_type = str "cancel" /\
   fallback_condition = str "service-unavailable") /\
  (child_lookup_arg_message = NsChild /\ child_lookup_arg_presence = NsChild /\
   wildcard_lookup_arg_message = NsZero /\ wildcard_lookup_arg_presence = NsZero) /\
  bufreader_buffers_token_with_error = true.
Proof.
  exact (conj (conj top_cascade_eq (conj iq_cascade_eq (conj msg_cascade_eq pres_cascade_eq)))
        (conj reg_flags (conj func_guards (conj stanza_keys_agree (conj fallback_tables
        (conj lookup_args bufreader_buffers)))))).
Qed.
Print Assumptions C14_tables.
