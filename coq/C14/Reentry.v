(* C14/Reentry.v — one mux, several stanzas in flight.

   A ServeMux does not change after New; it is shared between sessions, and
   handlers hand stanzas they unwrap back to it.  In the model the mux is the
   registry (and the stanza name space); everything a dispatch works with - the
   replay buffer, the iterator, the readers - is a value of that call
   (gen/Mux.v: forChildren allocates its buffer itself, nothing but New and the
   options writes or aliases a field of the mux).  A handler operation is a call
   to Token() or "dispatch stanza j on the same mux now" (hb_nest), placed
   anywhere between the reads; what the nested dispatches are and do is the
   parameter N : nestf of handle_gen.

   Here: whatever N is, the dispatch of a stanza invokes the same handlers, hands
   each the same tokens, writes the same replies and returns the same result as
   when the mux is in the middle of nothing else ([strip]: forget the records of
   the nested dispatches); and every nested record comes from N. *)
From XV Require Import lib.Bytes gen.Mux C14.Model C14.Proofs.
From Coq Require Import ZifyBool ZifyNat Lia.

(* ------------------------------------------------------------------ *)
(* 1. Tables: per-call state                                            *)
(* ------------------------------------------------------------------ *)

(* no field of the shared ServeMux is assigned, incremented, sliced, appended
   to or has its address taken by anything but New (and the options it applies);
   forChildren allocates its replay buffer itself *)
Lemma mux_is_immutable_after_new : servemux_fields_touched_after_new = [].
Proof. reflexivity. Qed.

Lemma replay_buffer_is_per_call : forchildren_buffer_is_local = true.
Proof. reflexivity. Qed.

(* ------------------------------------------------------------------ *)
(* 2. Reading in two goes is reading                                    *)
(* ------------------------------------------------------------------ *)

(* a reader that has reported its end stays there *)
Definition ended {St : Type} (rdr : St -> rd St) (s : St) : Prop := rdr s = REof s \/ rdr s = RErr s.
Definition sticky {St : Type} (rdr : St -> rd St) : Prop :=
  forall s s', rdr s = REof s' \/ rdr s = RErr s' -> ended rdr s'.

Lemma take_n_ended {St} (rdr : St -> rd St) k s : ended rdr s -> take_n rdr k s = ([], s).
Proof. intros [H|H]; destruct k; cbn [take_n]; try rewrite H; reflexivity. Qed.

Lemma take_n_split {St} (rdr : St -> rd St) : sticky rdr -> forall k1 k2 s,
  take_n rdr (k1 + k2) s =
  let '(g1, s1) := take_n rdr k1 s in let '(g2, s2) := take_n rdr k2 s1 in (g1 ++ g2, s2).
Proof.
  intros HS k1. induction k1 as [|k1 IH]; intros k2 s.
  - cbn [plus take_n app]. destruct (take_n rdr k2 s). reflexivity.
  - cbn [plus take_n]. destruct (rdr s) as [t e s'|s'|s'] eqn:E.
    + rewrite IH. destruct (take_n rdr k1 s') as [g1 s1]. destruct (take_n rdr k2 s1) as [g2 s2]. reflexivity.
    + rewrite (take_n_ended rdr k2 s') by (apply (HS s); left; exact E). reflexivity.
    + rewrite (take_n_ended rdr k2 s') by (apply (HS s); right; exact E). reflexivity.
Qed.

Lemma sticky_u tm : sticky (u_token tm).
Proof.
  intros s s' H. destruct s as [|x u]; cbn [u_token] in H.
  - destruct (t_err tm) eqn:Et; destruct H as [H|H]; inversion H; subst; unfold ended; cbn [u_token]; rewrite Et; auto.
  - destruct H as [H|H]; discriminate.
Qed.

Lemma sticky_inner {St} (base : St -> rd St) outer : sticky base -> sticky (inner_token base outer).
Proof.
  intros HB [c s] [c' s'] H. unfold ended. unfold inner_token in H |- *.
  destruct c as [n|].
  - destruct (base s) as [t e s1|s1|s1] eqn:E.
    + destruct t as [nm| |ws|]; try (destruct H as [H|H]; discriminate).
      destruct n as [|m]; [|destruct H as [H|H]; discriminate].
      destruct outer; destruct H as [H|H]; try discriminate. inversion H. subst. left. reflexivity.
    + assert (EN : ended base s1) by (apply (HB s); left; exact E).
      destruct H as [H|H]; [|discriminate]. inversion H. subst.
      destruct EN as [EN|EN]; rewrite EN; auto.
    + assert (EN : ended base s1) by (apply (HB s); right; exact E).
      destruct H as [H|H]; [discriminate|]. inversion H. subst.
      destruct EN as [EN|EN]; rewrite EN; auto.
  - destruct H as [H|H]; [|discriminate]. inversion H. subst. left. reflexivity.
Qed.

Lemma sticky_iq tm : sticky (iq_reader tm).
Proof. apply sticky_inner. apply sticky_u. Qed.

Lemma sticky_b tm : sticky (b_token tm).
Proof.
  intros b b' H. assert (E : b' = b).
  { unfold b_token in H. destruct (b_off b <? length (b_buf b)); [destruct H as [H|H]; discriminate|].
    destruct (u_token tm (b_und b)) as [x e u|u|u].
    - destruct (bufreader_buffers_token_with_error || _); destruct H as [H|H]; discriminate.
    - destruct H as [H|H]; inversion H; reflexivity.
    - destruct H as [H|H]; inversion H; reflexivity. }
  subst b'. exact H.
Qed.

(* ------------------------------------------------------------------ *)
(* 3. Forgetting the nested dispatches                                  *)
(* ------------------------------------------------------------------ *)

Definition strip (o : outcome) : outcome := mkout (filter own_ev (o_events o)) (o_replies o) (o_ret o).

(* the record of a nested dispatch is what N says *)
Definition nested_rec (N : nestf) (e : event) : Prop :=
  exists j o, N j = Some o /\ e = EvNested j (o_events o) (o_replies o) (o_ret o).

Definition from_N (N : nestf) (evs : list event) : Prop :=
  forall e, In e evs -> own_ev e = false -> nested_rec N e.

Lemma from_N_nil N : from_N N [].
Proof. intros e []. Qed.

Lemma from_N_cons_own N e evs : own_ev e = true -> from_N N evs -> from_N N (e :: evs).
Proof. intros H F e' [E|Hin] Ho; [subst; congruence|exact (F e' Hin Ho)]. Qed.

Lemma from_N_cons_nested N e evs : nested_rec N e -> from_N N evs -> from_N N (e :: evs).
Proof. intros H F e' [E|Hin] Ho; [subst; exact H|exact (F e' Hin Ho)]. Qed.

Lemma from_N_app N a b : from_N N a -> from_N N b -> from_N N (a ++ b).
Proof. intros A B e Hin Ho. apply in_app_iff in Hin. destruct Hin as [H|H]; [exact (A e H Ho)|exact (B e H Ho)]. Qed.

(* a handler's reads with a dispatch nested in between: the same tokens, the
   same reader afterwards, plus at most one nested record *)
Lemma run_reads_strip {St} (N : nestf) (rdr : St -> rd St) b s :
  sticky rdr ->
  exists ne, run_reads N rdr b s = (fst (take_n rdr (hb_reads b) s), snd (take_n rdr (hb_reads b) s), ne) /\
             (ne = [] \/ exists e, ne = [e] /\ own_ev e = false /\ nested_rec N e).
Proof.
  intro HS. unfold run_reads. destruct (hb_nest b) as [[a j]|].
  - destruct (N j) as [o|] eqn:EN.
    + set (k1 := Nat.min a (hb_reads b)).
      replace (take_n rdr (hb_reads b) s) with (take_n rdr (k1 + (hb_reads b - k1)) s) by (f_equal; lia).
      rewrite (take_n_split rdr HS). destruct (take_n rdr k1 s) as [g1 s1].
      destruct (take_n rdr (hb_reads b - k1) s1) as [g2 s2]. cbn [fst snd].
      eexists. split; [reflexivity|]. right. eexists. split; [reflexivity|]. split; [reflexivity|].
      exists j, o. split; [exact EN|reflexivity].
    + destruct (take_n rdr (hb_reads b) s) as [g s']. exists []. split; [reflexivity|left; reflexivity].
  - destruct (take_n rdr (hb_reads b) s) as [g s']. exists []. split; [reflexivity|left; reflexivity].
Qed.

Lemma strip_no_events reps r : strip (mkout [] reps r) = mkout [] reps r.
Proof. reflexivity. Qed.

Lemma run_top_strip N h sn toks tm script :
  strip (run_top N h sn toks tm script) = run_top no_nest h sn toks tm script /\
  from_N N (o_events (run_top N h sn toks tm script)).
Proof.
  unfold run_top. destruct h as [|h]; [split; [reflexivity|apply from_N_nil]|].
  destruct (next_beh script) as [b s'].
  destruct (run_reads_strip N (u_token tm) b toks (sticky_u tm)) as (ne & E & F). rewrite E, run_reads_no_nest.
  destruct (take_n (u_token tm) (hb_reads b) toks) as [g st]. cbn [fst snd].
  destruct F as [F|(e & F & Ho & Hn)]; subst ne.
  - split; [reflexivity|]. apply from_N_cons_own; [reflexivity|apply from_N_nil].
  - split.
    + unfold strip. cbn [o_events o_replies o_ret filter own_ev]. rewrite Ho. reflexivity.
    + apply from_N_cons_own; [reflexivity|]. apply from_N_cons_nested; [exact Hn|apply from_N_nil].
Qed.

Lemma iq_fallback_events sn h : o_events (iq_fallback sn h) = [].
Proof.
  unfold iq_fallback. destruct (in_list _ _); [reflexivity|]. destruct fallback_swaps_addresses; reflexivity.
Qed.

Lemma strip_iq_fallback sn h : strip (iq_fallback sn h) = iq_fallback sn h.
Proof.
  pose proof (iq_fallback_events sn h) as E. destruct (iq_fallback sn h) as [evs reps r]. cbn in E. subst evs. reflexivity.
Qed.

Lemma invoke_iq_strip N r sn h payload tm st script :
  strip (invoke_iq N r sn h payload tm st script) = invoke_iq no_nest r sn h payload tm st script /\
  from_N N (o_events (invoke_iq N r sn h payload tm st script)).
Proof.
  unfold invoke_iq. destruct (lookup_iq r (h_type h) _) as [[|hd]|].
  - split; [reflexivity|apply from_N_nil].
  - destruct (next_beh script) as [b s'].
    destruct (run_reads_strip N (iq_reader tm) b st (sticky_iq tm)) as (ne & E & F). rewrite E, run_reads_no_nest.
    destruct (take_n (iq_reader tm) (hb_reads b) st) as [g st']. cbn [fst snd].
    destruct F as [F|(e & F & Ho & Hn)]; subst ne.
    + split; [reflexivity|]. apply from_N_cons_own; [reflexivity|apply from_N_nil].
    + split.
      * unfold strip. cbn [o_events o_replies o_ret filter own_ev]. rewrite Ho. reflexivity.
      * apply from_N_cons_own; [reflexivity|]. apply from_N_cons_nested; [exact Hn|apply from_N_nil].
  - split; [apply strip_iq_fallback|]. rewrite iq_fallback_events. apply from_N_nil.
Qed.

Lemma iq_router_strip N r sn attrs toks tm script :
  strip (iq_router N r sn attrs toks tm script) = iq_router no_nest r sn attrs toks tm script /\
  from_N N (o_events (iq_router N r sn attrs toks tm script)).
Proof.
  unfold iq_router. destruct (new_iq sn attrs) as [h|]; [|split; [reflexivity|apply from_N_nil]].
  destruct (trim_first (iq_reader tm) (S (length toks)) (Some 0, toks)) as [[t e st|st|st]|];
    try (split; [reflexivity|apply from_N_nil]).
  - destruct t as [n| |ws|]; destruct e as [[|]|];
      try (split; [reflexivity|apply from_N_nil]);
      try (destruct (bytes_eqb (h_type h) iqtype_result); try (split; [reflexivity|apply from_N_nil]));
      apply invoke_iq_strip.
  - destruct (bytes_eqb (h_type h) iqtype_result); [apply invoke_iq_strip|split; [reflexivity|apply from_N_nil]].
Qed.

(* the child loop *)
Definition lstrip (l : lres) : lres :=
  match l with
  | LFuel => LFuel
  | LPanic evs => LPanic (filter own_ev evs)
  | LDone evs b ie f => LDone (filter own_ev evs) b ie f
  end.

Definition l_events (l : lres) : list event :=
  match l with LFuel => [] | LPanic evs => evs | LDone evs _ _ _ => evs end.

Lemma lstrip_cons_own e l : own_ev e = true -> lstrip (l_cons e l) = l_cons e (lstrip l).
Proof. intro H. destruct l; cbn [l_cons lstrip filter]; rewrite ?H; reflexivity. Qed.

Lemma lstrip_cons_nested e l : own_ev e = false -> lstrip (l_cons e l) = lstrip l.
Proof. intro H. destruct l; cbn [l_cons lstrip filter]; rewrite ?H; reflexivity. Qed.

Lemma l_events_cons e l : l_events (l_cons e l) = match l with LFuel => [] | _ => e :: l_events l end.
Proof. destruct l; reflexivity. Qed.

Lemma from_N_l_cons N e l :
  (own_ev e = true \/ nested_rec N e) -> from_N N (l_events l) -> from_N N (l_events (l_cons e l)).
Proof.
  intros H F. rewrite l_events_cons. destruct l; [apply from_N_nil| |];
    (destruct H as [H|H]; [apply from_N_cons_own|apply from_N_cons_nested]; assumption).
Qed.

Lemma child_event_own k h typ got : own_ev (child_event k h typ got) = true.
Proof. destruct k; reflexivity. Qed.

Lemma fc_loop_strip N tm r k typ : forall fuel it script failed,
  lstrip (fc_loop N tm r k typ fuel it script failed) = fc_loop no_nest tm r k typ fuel it script failed /\
  from_N N (l_events (fc_loop N tm r k typ fuel it script failed)).
Proof.
  induction fuel as [|f IH]; intros it script failed; [split; [reflexivity|apply from_N_nil]|].
  cbn [fc_loop]. destruct (iter_next tm f it) as [|err it'|[nm|] it'].
  - split; [reflexivity|apply from_N_nil].
  - split; [reflexivity|apply from_N_nil].
  - destruct (lookup_child r k typ nm) as [[|h]|].
    + split; [reflexivity|apply from_N_nil].
    + destruct (next_beh script) as [b script'].
      destruct (run_reads_strip N (b_token tm) b (mkbr (b_buf (it_b it')) 0 (b_und (it_b it'))) (sticky_b tm))
        as (ne & E & F).
      rewrite E, run_reads_no_nest.
      destruct (take_n (b_token tm) (hb_reads b) (mkbr (b_buf (it_b it')) 0 (b_und (it_b it')))) as [got br].
      cbn [fst snd].
      match goal with |- context [fc_loop N tm r k typ f ?i ?s ?fl] => destruct (IH i s fl) as [IH1 IH2] end.
      destruct F as [F|(e & F & Ho & Hn)]; subst ne; cbn [fold_right].
      * split.
        -- rewrite lstrip_cons_own by apply child_event_own. rewrite IH1. reflexivity.
        -- apply from_N_l_cons; [left; apply child_event_own|exact IH2].
      * split.
        -- rewrite lstrip_cons_own by apply child_event_own. rewrite lstrip_cons_nested by exact Ho.
           rewrite IH1. reflexivity.
        -- apply from_N_l_cons; [left; apply child_event_own|]. apply from_N_l_cons; [right; exact Hn|exact IH2].
    + apply IH.
  - apply IH.
Qed.

Lemma filter_idem {A} (f : A -> bool) l : filter f (filter f l) = filter f l.
Proof.
  induction l as [|x l IH]; [reflexivity|]. cbn [filter]. destruct (f x) eqn:E; [cbn [filter]; rewrite E, IH; reflexivity|exact IH].
Qed.

Lemma own_count_strip evs : own_count (filter own_ev evs) = own_count evs.
Proof. unfold own_count. rewrite filter_idem. reflexivity. Qed.

Lemma for_children_strip N r k sn typ toks tm script :
  strip (for_children N r k sn typ toks tm script) = for_children no_nest r k sn typ toks tm script /\
  from_N N (o_events (for_children N r k sn typ toks tm script)).
Proof.
  unfold for_children.
  destruct (fc_loop_strip N tm r k typ (length toks + 3) (mkiter (Some 0) CNone (mkbr [TStart sn] 1 toks)) script false)
    as [L1 L2].
  rewrite <- L1. destruct (fc_loop N tm r k typ _ _ script false) as [|evs|evs b ie fl]; cbn [lstrip l_events] in *.
  - split; [reflexivity|apply from_N_nil].
  - split; [reflexivity|exact L2].
  - destruct ie; [split; [reflexivity|exact L2]|]. destruct fl; [split; [reflexivity|exact L2]|].
    destruct (length (b_buf b) =? 2); [|split; [reflexivity|exact L2]].
    destruct (lookup_child r k typ _) as [[|h]|]; try (split; [reflexivity|exact L2]).
    rewrite own_count_strip. destruct (next_beh (skipn (own_count evs) script)) as [bh s'].
    destruct (run_reads_strip N (b_token tm) bh (mkbr (b_buf b) 0 (b_und b)) (sticky_b tm)) as (ne & E & F).
    rewrite E, run_reads_no_nest.
    destruct (take_n (b_token tm) (hb_reads bh) (mkbr (b_buf b) 0 (b_und b))) as [got br]. cbn [fst snd].
    destruct F as [F|(e & F & Ho & Hn)]; subst ne.
    + split.
      * unfold strip. cbn [o_events o_replies o_ret]. rewrite filter_app. cbn [filter]. rewrite child_event_own. reflexivity.
      * cbn [o_events]. apply from_N_app; [exact L2|]. apply from_N_cons_own; [apply child_event_own|apply from_N_nil].
    + split.
      * unfold strip. cbn [o_events o_replies o_ret]. rewrite filter_app. cbn [filter]. rewrite child_event_own, Ho. reflexivity.
      * cbn [o_events]. apply from_N_app; [exact L2|]. apply from_N_cons_own; [apply child_event_own|].
        apply from_N_cons_nested; [exact Hn|apply from_N_nil].
Qed.

Lemma handle_gen_strip N r ns sn attrs toks tm script :
  strip (handle_gen N r ns sn attrs toks tm script) = handle r ns sn attrs toks tm script /\
  from_N N (o_events (handle_gen N r ns sn attrs toks tm script)).
Proof.
  unfold handle, handle_gen. destruct (lookup_top r sn) as [h|]; [apply run_top_strip|].
  destruct (stanza_is sn ns); [|split; [reflexivity|apply from_N_nil]].
  destruct (router_of (snd sn) router_map) as [rt|]; [|split; [reflexivity|apply from_N_nil]].
  destruct (bytes_eqb rt (str "iqRouter")); [apply iq_router_strip|].
  destruct (bytes_eqb rt (str "msgRouter")).
  { unfold msg_router. destruct (new_message sn attrs); [apply for_children_strip|split; [reflexivity|apply from_N_nil]]. }
  destruct (bytes_eqb rt (str "presenceRouter")); [|split; [reflexivity|apply from_N_nil]].
  unfold pres_router. destruct (new_presence sn attrs); [apply for_children_strip|split; [reflexivity|apply from_N_nil]].
Qed.

(* ------------------------------------------------------------------ *)
(* 4. The statements used by Properties.v                               *)
(* ------------------------------------------------------------------ *)

Lemma thm_independent N r ns sn attrs toks tm script :
  strip (handle_gen N r ns sn attrs toks tm script) = handle r ns sn attrs toks tm script.
Proof. apply handle_gen_strip. Qed.

(* several stanzas on one mux: the dispatch of e, and every dispatch nested in
   it at any depth, is the dispatch of that stanza by a mux in the middle of
   nothing else *)
Definition solo (r : registry) (ns : bytes) (e : elem) : outcome :=
  handle r ns (e_name e) (e_attrs e) (e_toks e) (e_tm e) (e_script e).

Inductive all_solo (r : registry) (ns : bytes) (elems : list elem) : elem -> outcome -> Prop :=
| AllSolo e o :
    strip o = solo r ns e ->
    (forall ev, In ev (o_events o) -> own_ev ev = false ->
       exists j e' o', nth_error elems j = Some e' /\ ev = EvNested j (o_events o') (o_replies o') (o_ret o') /\
                       all_solo r ns elems e' o') ->
    all_solo r ns elems e o.

(* nesting depth is bounded by the number of further stanzas (stanza j may only
   dispatch later ones), so the fuel S (length elems) of handle_in is never used up *)
Lemma handle_from_all_solo r ns elems : forall fuel lo e,
  fuel <> 0 -> length elems < fuel + lo -> all_solo r ns elems e (handle_from fuel r ns elems lo e).
Proof.
  induction fuel as [|f IH]; intros lo e Hf Hl; [congruence|].
  cbn [handle_from]. constructor.
  - apply thm_independent.
  - intros ev Hin Ho.
    match goal with
    | _ : In ev (o_events (handle_gen ?N _ _ _ _ _ _ _)) |- _ =>
        destruct (handle_gen_strip N r ns (e_name e) (e_attrs e) (e_toks e) (e_tm e) (e_script e)) as [_ F]
    end.
    destruct (F ev Hin Ho) as (j & o' & HN & Hev). cbn beta in HN.
    destruct (lo <=? j) eqn:El; [|discriminate]. apply Nat.leb_le in El.
    destruct (nth_error elems j) as [e'|] eqn:En; [|discriminate].
    assert (Hj : j < length elems) by (apply nth_error_Some; congruence).
    inversion HN; subst o'. exists j, e', (handle_from f r ns elems (S j) e').
    split; [exact En|]. split; [exact Hev|].
    apply IH; lia.
Qed.

Lemma thm_all_solo r ns elems e : all_solo r ns elems e (handle_in r ns elems e).
Proof. unfold handle_in. apply handle_from_all_solo; lia. Qed.

(* in particular: whatever else the mux is in the middle of, a message or presence
   whose tokens close it is dispatched as children_spec says - every handler
   chosen for a child is handed the complete stanza from its start element *)
Lemma thm_children_reentrant N ops r ns sn attrs toks tm script k h rest :
  new_mux ops = Some r -> valid_ids ops ->
  lookup_top r sn = None -> stanza_is sn ns = true -> snd sn = child_local k -> child_hdr k sn attrs = Some h ->
  skip_elem 0 toks = Some rest ->
  strip (handle_gen N r ns sn attrs toks tm script) = children_spec r k sn (h_type h) toks script.
Proof.
  intros H V E1 E2 E3 Hh HS. rewrite thm_independent.
  exact (thm_children _ _ _ _ _ _ _ _ _ _ _ H V E1 E2 E3 Hh HS).
Qed.
