(* C14/Model.v — executable model of the XMPP multiplexer (mux/mux.go,
   mux/option.go, mux/stanza.go) at token level.

   What is modelled, function by function:
     registry                  the four maps of ServeMux as association lists
     apply_op / new_mux        mux.Handle / IQ / Message / Presence and the
                               *Func wrappers, with their refusals (panics)
     cascade_lookup            ServeMux.Handler / IQHandler / MessageHandler /
                               PresenceHandler; the order of the probes is the
                               table gen/Mux.v extracted from the source
     handle                    ServeMux.HandleXMPP (Handler + stanza switch)
     parse_attrs               stanza.NewIQ / NewMessage / NewPresence (type,
                               id, to, from, lang; jid.Parse is an observed oracle)
     iq_router                 ServeMux.iqRouter over decl.TrimLeftSpace(xmlstream.Inner(t))
     iq_fallback               iqFallback
     b_token                   bufReader.Token
     inner_token               xmlstream.Inner / InnerElement
     iter_next                 xmlstream.Iter.Next (incl. draining the previous child)
     fc_loop / for_children    forChildren: per-child dispatch with replay from the
                               stanza's start token, error collection, and the
                               "only start and end were read" wildcard rule
     run_reads / handle_gen N  a handler's operations: calls to Token() and, at any
                               point between them, "dispatch another stanza on the
                               same mux" (re-entrancy; N gives the other dispatches)
     handle_from / handle_in   several stanzas on one mux, nested to any depth; the
                               mux (registry, name space) is all they share - the
                               replay buffer, iterator and readers are values of
                               each call (gen/Mux.v: nothing but New writes a field
                               of ServeMux, forChildren allocates its buffer itself)

   A token reader is a residual token list plus a terminal condition [term]:
   which error ends it (t_err = false: io.EOF, true: some other error) and how
   (t_with = false: a separate, later call returns (nil, err), as xml.Decoder
   does; t_with = true: the LAST token is returned together with the error, as
   xml.TokenReader permits and readers built with xmlstream.Wrap / Token /
   stanza.Message.Wrap do).  Every layer (bufReader, Inner, InnerElement, Iter,
   Copy, TrimLeftSpace, iqRouter) is modelled on results (token, error) with
   both present.  Handlers are scripted: the
   k-th invoked handler makes hb_reads calls to Token() and returns an error
   iff hb_fail.  Handler id 0 stands for a nil function wrapped in a non-nil
   interface (calling it panics). *)
From XV Require Import lib.Bytes gen.Mux.

Definition name := (bytes * bytes)%type.            (* (space, local) *)
Notation hid := nat (only parsing).

Definition name_eqb (a b : name) : bool := bytes_eqb (fst a) (fst b) && bytes_eqb (snd a) (snd b).

Definition is_nil (b : bytes) : bool := match b with [] => true | _ => false end.

Definition in_list (b : bytes) (l : list bytes) : bool := existsb (bytes_eqb b) l.

(* ---- registry ---- *)

(* key of the pattern maps: pattern{Stanza, Type, Payload}; the top-level map is
   keyed by the name alone (stanza and type empty). *)
Record key := mkkey { k_stanza : bytes; k_type : bytes; k_name : name }.

Definition key_eqb (a b : key) : bool :=
  bytes_eqb (k_stanza a) (k_stanza b) && bytes_eqb (k_type a) (k_type b) && name_eqb (k_name a) (k_name b).

Definition table := list (key * hid).

Record registry := mkreg { r_top : table; r_iq : table; r_msg : table; r_pres : table }.

Definition empty_reg : registry := mkreg [] [] [] [].

Definition table_of (r : registry) (t : tbl) : table :=
  match t with TblTop => r_top r | TblIq => r_iq r | TblMsg => r_msg r | TblPres => r_pres r end.

Fixpoint assoc (k : key) (l : table) : option hid :=
  match l with
  | [] => None
  | (k', h) :: l' => if key_eqb k k' then Some h else assoc k l'
  end.

Definition store (r : registry) (t : tbl) (k : key) (h : hid) : registry :=
  match t with
  | TblTop => mkreg (r_top r ++ [(k, h)]) (r_iq r) (r_msg r) (r_pres r)
  | TblIq => mkreg (r_top r) (r_iq r ++ [(k, h)]) (r_msg r) (r_pres r)
  | TblMsg => mkreg (r_top r) (r_iq r) (r_msg r ++ [(k, h)]) (r_pres r)
  | TblPres => mkreg (r_top r) (r_iq r) (r_msg r) (r_pres r ++ [(k, h)])
  end.

(* ---- registration (mux/option.go) ---- *)

(* the handler value given to an option: nil interface, a nil func passed to a
   *Func wrapper, or a real handler *)
Inductive hval := HNil | HNilFunc | HOk (h : hid).

Inductive regop :=
| RHandle (n : name) (h : hval)
| RIq (typ : bytes) (n : name) (h : hval)
| RMsg (typ : bytes) (n : name) (h : hval)
| RPres (typ : bytes) (n : name) (h : hval).

Definition nilfunc_hid : hid := 0.

(* flags = (table, refuses nil, refuses duplicate, refuses stanza names) as read
   from the option's source; guard = the *Func wrapper refuses a nil func.
   None = the option panics when applied. *)
Definition register (flags : tbl * bool * bool * bool) (guard : bool) (k : key) (h : hval) (r : registry)
  : option registry :=
  let '(t, nilc, dupc, stzc) := flags in
  match h with
  | HNil => if nilc then None else Some r
  | HNilFunc =>
      if guard && nilc then None
      else if stzc && in_list (snd (k_name k)) stanza_locals then None
      else if dupc && (match assoc k (table_of r t) with Some _ => true | None => false end) then None
      else Some (store r t k nilfunc_hid)
  | HOk h' =>
      if stzc && in_list (snd (k_name k)) stanza_locals then None
      else if dupc && (match assoc k (table_of r t) with Some _ => true | None => false end) then None
      else Some (store r t k h')
  end.

(* what an option checks and stores: (flags, *Func guard, key, handler value) *)
Definition op_parts (op : regop) : (tbl * bool * bool * bool) * bool * key * hval :=
  match op with
  | RHandle n h => (reg_handle, handlefunc_refuses_nil_func, mkkey [] [] n, h)
  | RIq typ n h => (reg_iq, iqfunc_refuses_nil_func, mkkey reg_iq_stanza typ n, h)
  | RMsg typ n h => (reg_message, messagefunc_refuses_nil_func, mkkey reg_message_stanza typ n, h)
  | RPres typ n h => (reg_presence, presencefunc_refuses_nil_func, mkkey reg_presence_stanza typ n, h)
  end.

Definition apply_op (r : registry) (op : regop) : option registry :=
  let '(flags, guard, k, h) := op_parts op in register flags guard k h r.

Fixpoint apply_ops (r : registry) (ops : list regop) : option registry :=
  match ops with
  | [] => Some r
  | op :: ops' => match apply_op r op with Some r' => apply_ops r' ops' | None => None end
  end.

(* mux.New(ns, ops...) : None = a panic while applying the options *)
Definition new_mux (ops : list regop) : option registry := apply_ops empty_reg ops.

(* ---- lookups (mux/mux.go Handler, IQHandler, MessageHandler, PresenceHandler) ---- *)

Definition proj (ks kl : bool) (n : name) : name := (if ks then fst n else [], if kl then snd n else []).

Fixpoint cascade_lookup (r : registry) (stz typ : bytes) (n : name) (c : list (tbl * bool * bool)) : option hid :=
  match c with
  | [] => None
  | (t, ks, kl) :: c' =>
      match assoc (mkkey stz typ (proj ks kl n)) (table_of r t) with
      | Some h => Some h
      | None => cascade_lookup r stz typ n c'
      end
  end.

Definition lookup_top (r : registry) (n : name) : option hid := cascade_lookup r [] [] n top_cascade.
Definition lookup_iq (r : registry) (typ : bytes) (n : name) : option hid := cascade_lookup r iq_stanza typ n iq_cascade.
Definition lookup_msg (r : registry) (typ : bytes) (n : name) : option hid := cascade_lookup r msg_stanza typ n msg_cascade.
Definition lookup_pres (r : registry) (typ : bytes) (n : name) : option hid := cascade_lookup r pres_stanza typ n pres_cascade.

Definition lookup (r : registry) (t : tbl) (typ : bytes) (n : name) : option hid :=
  match t with
  | TblTop => lookup_top r n
  | TblIq => lookup_iq r typ n
  | TblMsg => lookup_msg r typ n
  | TblPres => lookup_pres r typ n
  end.

(* ---- tokens and readers ---- *)

Inductive tok := TStart (n : name) | TEnd | TText (ws : bool) | TOther.

Definition tok_eqb (a b : tok) : bool :=
  match a, b with
  | TStart n, TStart m => name_eqb n m
  | TEnd, TEnd => true
  | TText x, TText y => Bool.eqb x y
  | TOther, TOther => true
  | _, _ => false
  end.

(* one call to Token(): RTok t e s = (t, e) with t non-nil, where e is the error
   returned BY THE SAME CALL (None: nil, Some false: io.EOF, Some true: another
   error); REof = (nil, io.EOF); RErr = (nil, another error) *)
Inductive rd (St : Type) := RTok (t : tok) (e : option bool) (s : St) | REof (s : St) | RErr (s : St).
Arguments RTok {St} t e s.
Arguments REof {St} s.
Arguments RErr {St} s.

(* terminal condition of the reader handed to HandleXMPP *)
Record term := mkterm {
  t_err : bool;    (* false: io.EOF; true: some other error *)
  t_with : bool    (* the error comes together with the last token, not by a later call *)
}.

(* the reader handed to HandleXMPP: the element's remaining tokens, the last one
   possibly together with the terminal error, then (nil, error) for ever *)
(* the error returned together with a token after which u' remains *)
Definition fin_err (tm : term) (u' : list tok) : option bool :=
  match u' with
  | [] => if t_with tm then Some (t_err tm) else None
  | _ :: _ => None
  end.

Definition u_token (tm : term) (u : list tok) : rd (list tok) :=
  match u with
  | x :: u' => RTok x (fin_err tm u') u'
  | [] => if t_err tm then RErr [] else REof []
  end.

(* k calls to Token() by a handler: it keeps every token it is given, whatever
   error comes with it, and stops at the first call that yields no token *)
Fixpoint take_n {St : Type} (rdr : St -> rd St) (k : nat) (s : St) : list tok * St :=
  match k with
  | 0 => ([], s)
  | S k' =>
      match rdr s with
      | RTok t _ s' => let '(l, s'') := take_n rdr k' s' in (t :: l, s'')
      | REof s' => ([], s')
      | RErr s' => ([], s')
      end
  end.

(* xmlstream.Inner (outer = false) and InnerElement (outer = true): count = None
   stands for count < 0.  (t, err) of the underlying reader is passed on as it
   is, except that Inner turns the closing end element into (nil, io.EOF)
   whatever error came with it. *)
Definition inner_token {St : Type} (base : St -> rd St) (outer : bool) (cs : option nat * St) : rd (option nat * St) :=
  let '(c, s) := cs in
  match c with
  | None => REof (None, s)
  | Some n =>
      match base s with
      | RTok (TStart nm) e s' => RTok (TStart nm) e (Some (S n), s')
      | RTok TEnd e s' =>
          match n with
          | 0 => if outer then RTok TEnd e (None, s') else REof (None, s')
          | S m => RTok TEnd e (Some m, s')
          end
      | RTok t e s' => RTok t e (Some n, s')
      | REof s' => REof (Some n, s')
      | RErr s' => RErr (Some n, s')
      end
  end.

(* decl.TrimLeftSpace before its first start element: whitespace-only character
   data is dropped (the Go method recurs; fuel bounds the recursion); if it came
   with an error, (nil, err) is returned. None = out of fuel. *)
Fixpoint trim_first {St : Type} (base : St -> rd St) (fuel : nat) (s : St) : option (rd St) :=
  match fuel with
  | 0 => None
  | S f =>
      match base s with
      | RTok (TText true) None s' => trim_first base f s'
      | RTok (TText true) (Some e) s' => Some (if e then RErr s' else REof s')
      | r => Some r
      end
  end.

(* ---- stanza headers (stanza.NewIQ / NewMessage / NewPresence) ---- *)

(* a_jid: the canonical form jid.Parse gives for a_value, None if it does not
   parse (observed by the harness on the real jid package) *)
Record attr := mkattr { a_space : bytes; a_local : bytes; a_value : bytes; a_jid : option bytes }.

Record hdr := mkhdr { h_type : bytes; h_id : bytes; h_to : option bytes; h_from : option bytes; h_lang : bytes }.

Definition xml_ns : bytes := str "http://www.w3.org/XML/1998/namespace".

Fixpoint parse_attrs (norm : bytes -> bytes) (sspace : bytes) (attrs : list attr) (h : hdr) : option hdr :=
  match attrs with
  | [] => Some h
  | a :: rest =>
      if bytes_eqb (a_local a) (str "lang") && bytes_eqb (a_space a) xml_ns then
        parse_attrs norm sspace rest (mkhdr (h_type h) (h_id h) (h_to h) (h_from h) (a_value a))
      else if negb (is_nil (a_space a)) && negb (bytes_eqb (a_space a) sspace) then
        parse_attrs norm sspace rest h
      else if bytes_eqb (a_local a) (str "id") then
        parse_attrs norm sspace rest (mkhdr (h_type h) (a_value a) (h_to h) (h_from h) (h_lang h))
      else if bytes_eqb (a_local a) (str "to") then
        if is_nil (a_value a) then parse_attrs norm sspace rest h
        else match a_jid a with
             | None => None
             | Some j => parse_attrs norm sspace rest (mkhdr (h_type h) (h_id h) (Some j) (h_from h) (h_lang h))
             end
      else if bytes_eqb (a_local a) (str "from") then
        if is_nil (a_value a) then parse_attrs norm sspace rest h
        else match a_jid a with
             | None => None
             | Some j => parse_attrs norm sspace rest (mkhdr (h_type h) (h_id h) (h_to h) (Some j) (h_lang h))
             end
      else if bytes_eqb (a_local a) (str "type") then
        parse_attrs norm sspace rest (mkhdr (norm (a_value a)) (h_id h) (h_to h) (h_from h) (h_lang h))
      else parse_attrs norm sspace rest h
  end.

Definition norm_raw (v : bytes) : bytes := v.
Definition norm_message (v : bytes) : bytes := if in_list v message_types then v else message_default.

Definition new_iq (sn : name) (attrs : list attr) : option hdr :=
  parse_attrs norm_raw (fst sn) attrs (mkhdr [] [] None None []).
Definition new_message (sn : name) (attrs : list attr) : option hdr :=
  parse_attrs norm_message (fst sn) attrs (mkhdr message_default [] None None []).
Definition new_presence (sn : name) (attrs : list attr) : option hdr :=
  parse_attrs norm_raw (fst sn) attrs (mkhdr [] [] None None []).

(* ---- observables ---- *)

(* a handler's behaviour: hb_reads calls to Token(), an error or not - and,
   optionally, re-entrancy: hb_nest = Some (at, j): after min at hb_reads of its
   reads the handler hands stanza j of the case's list of further stanzas to the
   SAME mux (as a handler that unwraps a forwarded stanza does), lets that
   dispatch run to its end, ignores what it returns, and goes on reading *)
Record hbeh := mkbehn { hb_reads : nat; hb_fail : bool; hb_nest : option (nat * nat) }.
Definition mkbeh (reads : nat) (fail : bool) : hbeh := mkbehn reads fail None.

(* an IQ written by the mux itself: <iq xmlns=space type= to= from= id= xml:lang=>
   <error type=etype><cond xmlns=urn:ietf:params:xml:ns:xmpp-stanzas/></error></iq> *)
Record reply := mkreply {
  rp_space : bytes; rp_type : bytes; rp_to : option bytes; rp_from : option bytes;
  rp_id : bytes; rp_lang : bytes; rp_etype : bytes; rp_cond : bytes }.

Inductive ret := RetOk | RetErr | RetEOF | RetPanic | RetOutOfFuel.

(* EvNested j evs reps r: the handler of the event before it dispatched stanza j
   on the same mux; that dispatch invoked evs, wrote reps (to its own encoder)
   and returned r *)
Inductive event :=
| EvTop (h : hid) (n : name) (got : list tok)
| EvIq (h : hid) (typ : bytes) (payload : option name) (got : list tok)
| EvMsg (h : hid) (typ : bytes) (got : list tok)
| EvPres (h : hid) (typ : bytes) (got : list tok)
| EvNested (j : nat) (evs : list event) (reps : list reply) (r : ret).

Record outcome := mkout { o_events : list event; o_replies : list reply; o_ret : ret }.

(* the other dispatches a handler may start: stanza j's dispatch on the same mux
   and its outcome; None: there is no such stanza (the request is ignored) *)
Definition nestf := nat -> option outcome.
Definition no_nest : nestf := fun _ => None.

(* events of the stanza itself, as opposed to those of dispatches nested in it *)
Definition own_ev (e : event) : bool := match e with EvNested _ _ _ _ => false | _ => true end.
Definition own_count (evs : list event) : nat := length (filter own_ev evs).

Definition out_nothing : outcome := mkout [] [] RetOk.
Definition out_err : outcome := mkout [] [] RetErr.
Definition out_panic : outcome := mkout [] [] RetPanic.
Definition out_fuel : outcome := mkout [] [] RetOutOfFuel.

Definition next_beh (script : list hbeh) : hbeh * list hbeh :=
  match script with
  | b :: s => (b, s)
  | [] => (mkbeh 0 false, [])
  end.

Definition ret_of (b : hbeh) : ret := if hb_fail b then RetErr else RetOk.

Definition cons_event (e : event) (o : outcome) : outcome := mkout (e :: o_events o) (o_replies o) (o_ret o).

(* what an invoked handler does with the reader it is given: the tokens it
   obtains, the reader afterwards, and the dispatch it nested (if any).  The
   nested dispatch has its own reader, script and encoder: all it shares with this
   one is the mux. *)
Definition run_reads {St : Type} (N : nestf) (rdr : St -> rd St) (b : hbeh) (s : St)
  : list tok * St * list event :=
  match match hb_nest b with Some (a, j) => match N j with Some o => Some (a, j, o) | None => None end | None => None end with
  | None => let '(got, s') := take_n rdr (hb_reads b) s in (got, s', [])
  | Some (a, j, o) =>
      let k1 := Nat.min a (hb_reads b) in
      let '(g1, s1) := take_n rdr k1 s in
      let '(g2, s2) := take_n rdr (hb_reads b - k1) s1 in
      (g1 ++ g2, s2, [EvNested j (o_events o) (o_replies o) (o_ret o)])
  end.

(* ---- top-level handlers ---- *)

Definition run_top (N : nestf) (h : hid) (sn : name) (toks : list tok) (tm : term) (script : list hbeh) : outcome :=
  match h with
  | 0 => out_panic
  | _ => let '(b, _) := next_beh script in
         let '(got, _, ne) := run_reads N (u_token tm) b toks in
         mkout (EvTop h sn got :: ne) [] (ret_of b)
  end.

(* ---- IQs ---- *)

Definition iq_fallback (sn : name) (h : hdr) : outcome :=
  if in_list (h_type h) fallback_silent_types then out_nothing
  else
    let '(to, from) := if fallback_swaps_addresses then (h_from h, h_to h) else (h_to h, h_from h) in
    mkout [] [mkreply (fst sn) fallback_reply_type to from (h_id h) (h_lang h) fallback_error_type fallback_condition] RetOk.

Definition iq_reader (tm : term) : option nat * list tok -> rd (option nat * list tok) :=
  inner_token (u_token tm) false.

(* the chosen IQ handler (or the fallback) is invoked; payload = None for an
   empty result IQ *)
Definition invoke_iq (N : nestf) (r : registry) (sn : name) (h : hdr) (payload : option name) (tm : term)
  (st : option nat * list tok) (script : list hbeh) : outcome :=
  match lookup_iq r (h_type h) (match payload with Some n => n | None => ([], []) end) with
  | None => iq_fallback sn h
  | Some 0 => out_panic
  | Some hd =>
      let '(b, _) := next_beh script in
      let '(got, _, ne) := run_reads N (iq_reader tm) b st in
      mkout (EvIq hd (h_type h) payload got :: ne) [] (ret_of b)
  end.

Definition iq_router (N : nestf) (r : registry) (sn : name) (attrs : list attr) (toks : list tok) (tm : term)
  (script : list hbeh) : outcome :=
  match new_iq sn attrs with
  | None => out_err
  | Some h =>
      match trim_first (iq_reader tm) (S (length toks)) (Some 0, toks) with
      | None => out_fuel
      | Some (RTok _ (Some true) _) => out_err      (* err != nil && err != io.EOF *)
      | Some (RTok (TStart n) None st) => invoke_iq N r sn h (Some n) tm st script
      | Some (RTok _ None _) =>
          (* "invalid payload": no pattern can match; answered by the fallback,
             and the router returns an error *)
          let o := iq_fallback sn h in mkout [] (o_replies o) RetErr
      | Some (RTok t (Some false) st) =>
          (* a token together with io.EOF: the test for the empty IQ looks at the
             error only *)
          if bytes_eqb (h_type h) iqtype_result then
            match t with
            | TStart n => invoke_iq N r sn h (Some n) tm st script
            | _ => let o := iq_fallback sn h in mkout [] (o_replies o) RetErr
            end
          else let o := iq_fallback sn h in mkout [] (o_replies o) RetErr
      | Some (RErr _) => out_err
      | Some (REof st) =>
          if bytes_eqb (h_type h) iqtype_result then invoke_iq N r sn h None tm st script
          else
            (* an IQ that may not be empty: answered by the fallback, and the
               router returns an error that is not the bare io.EOF *)
            let o := iq_fallback sn h in mkout [] (o_replies o) RetErr
      end
  end.

(* ---- messages and presences: forChildren ---- *)

Record breader := mkbr { b_buf : list tok; b_off : nat; b_und : list tok }.

(* replayed tokens come without an error; a token obtained from the underlying
   reader is appended to the buffer and handed on with whatever error came with
   it (gen/Mux.v: the append happens before the error is looked at) *)
Definition b_token (tm : term) (b : breader) : rd breader :=
  if b_off b <? length (b_buf b) then
    RTok (nth (b_off b) (b_buf b) TOther) None (mkbr (b_buf b) (S (b_off b)) (b_und b))
  else
    match u_token tm (b_und b) with
    | RTok x e u =>
        if bufreader_buffers_token_with_error || (match e with None => true | Some _ => false end)
        then RTok x e (mkbr (b_buf b ++ [x]) (S (b_off b)) u)
        else RTok x e (mkbr (b_buf b) (b_off b) u)
    | REof _ => REof b
    | RErr _ => RErr b
    end.

(* Iter: i.r = Inner(r) with count it_cnt; cur = InnerElement(i.r) for an
   element child (CElem count), a one-token reader for any other child *)
Inductive cur := CNone | CElem (c : option nat) | CTok.

Record iter := mkiter { it_cnt : option nat; it_cur : cur; it_b : breader }.

Definition ir_token (tm : term) : option nat * breader -> rd (option nat * breader) :=
  inner_token (b_token tm) false.

(* Copy(discard, cur) for an element child; Some err.  Copy stops at an error
   other than io.EOF (dropping the token that came with it), and after a token
   that came with io.EOF (without error). *)
Fixpoint drain_elem (tm : term) (fuel : nat) (s : option nat * (option nat * breader))
  : option (bool * (option nat * breader)) :=
  match fuel with
  | 0 => None
  | S f =>
      match inner_token (ir_token tm) true s with
      | RTok _ None s' => drain_elem tm f s'
      | RTok _ (Some e) (_, s') => Some (e, s')
      | REof (_, s') => Some (false, s')
      | RErr (_, s') => Some (true, s')
      end
  end.

Inductive nres := NOutOfFuel | NStop (err : bool) (it : iter) | NItem (start : option name) (it : iter).

Definition iter_next (tm : term) (fuel : nat) (it : iter) : nres :=
  let drained :=
    match it_cur it with
    | CElem c => drain_elem tm fuel (c, (it_cnt it, it_b it))
    | _ => Some (false, (it_cnt it, it_b it))
    end in
  match drained with
  | None => NOutOfFuel
  | Some (true, (c, b)) => NStop true (mkiter c (it_cur it) b)
  | Some (false, s) =>
      match ir_token tm s with
      | RTok _ (Some e) (c', b') =>
          (* err != nil: Next returns false whatever the token is; only an error
             other than io.EOF is kept in i.err *)
          NStop e (mkiter c' (it_cur it) b')
      | RTok (TStart nm) None (c', b') => NItem (Some nm) (mkiter c' (CElem (Some 0)) b')
      | RTok TEnd None (c', b') => NStop false (mkiter c' (it_cur it) b')
      | RTok _ None (c', b') => NItem None (mkiter c' CTok b')
      | REof (c', b') => NStop false (mkiter c' (it_cur it) b')
      | RErr (c', b') => NStop true (mkiter c' (it_cur it) b')
      end
  end.

Inductive skind := SMsg | SPres.

Definition lookup_child (r : registry) (k : skind) (typ : bytes) (n : name) : option hid :=
  match k with SMsg => lookup_msg r typ n | SPres => lookup_pres r typ n end.

(* the name handed to MessageHandler / PresenceHandler for the empty stanza, as
   written in the source (gen/Mux.v): the zero xml.Name, or the stanza's own *)
Definition wildcard_arg (k : skind) : name_src :=
  match k with SMsg => wildcard_lookup_arg_message | SPres => wildcard_lookup_arg_presence end.

Definition src_name (s : name_src) (sn : name) : name :=
  match s with NsStanza => sn | _ => ([], []) end.

Definition child_event (k : skind) (h : hid) (typ : bytes) (got : list tok) : event :=
  match k with SMsg => EvMsg h typ got | SPres => EvPres h typ got end.

(* result of the child loop: events, the final reader, whether the iterator
   failed, whether some handler failed *)
Inductive lres :=
| LFuel
| LPanic (evs : list event)
| LDone (evs : list event) (b : breader) (iter_err : bool) (failed : bool).

Definition l_cons (e : event) (l : lres) : lres :=
  match l with
  | LFuel => LFuel
  | LPanic evs => LPanic (e :: evs)
  | LDone evs b ie f => LDone (e :: evs) b ie f
  end.

Fixpoint fc_loop (N : nestf) (tm : term) (r : registry) (k : skind) (typ : bytes) (fuel : nat) (it : iter)
  (script : list hbeh) (failed : bool) : lres :=
  match fuel with
  | 0 => LFuel
  | S f =>
      match iter_next tm f it with
      | NOutOfFuel => LFuel
      | NStop err it' => LDone [] (it_b it') err failed
      | NItem None it' => fc_loop N tm r k typ f it' script failed
      | NItem (Some nm) it' =>
          match lookup_child r k typ nm with
          | None => fc_loop N tm r k typ f it' script failed          (* nopHandler *)
          | Some 0 => LPanic []
          | Some h =>
              let '(b, script') := next_beh script in
              (* br := &bufReader{r: t, buf: r.buf}; ...; r.buf = br.buf *)
              let '(got, br, ne) := run_reads N (b_token tm) b (mkbr (b_buf (it_b it')) 0 (b_und (it_b it'))) in
              let it'' := mkiter (it_cnt it') (it_cur it') (mkbr (b_buf br) (b_off (it_b it')) (b_und br)) in
              l_cons (child_event k h typ got)
                     (fold_right l_cons (fc_loop N tm r k typ f it'' script' (failed || hb_fail b)) ne)
          end
      end
  end.

(* scripts consumed by the loop: one entry per invoked handler *)
Definition for_children (N : nestf) (r : registry) (k : skind) (sn : name) (typ : bytes) (toks : list tok) (tm : term)
  (script : list hbeh) : outcome :=
  let it0 := mkiter (Some 0) CNone (mkbr [TStart sn] 1 toks) in
  match fc_loop N tm r k typ (length toks + 3) it0 script false with
  | LFuel => out_fuel
  | LPanic evs => mkout evs [] RetPanic
  | LDone evs b iter_err failed =>
      if iter_err then mkout evs [] RetErr
      else if failed then mkout evs [] RetErr
      else if length (b_buf b) =? 2 then
        (* only the start and end tokens were read: type wildcard *)
        match lookup_child r k typ (src_name (wildcard_arg k) sn) with
        | None => mkout evs [] RetOk
        | Some 0 => mkout evs [] RetPanic
        | Some h =>
            let '(bh, _) := next_beh (skipn (own_count evs) script) in
            let '(got, _, ne) := run_reads N (b_token tm) bh (mkbr (b_buf b) 0 (b_und b)) in
            mkout (evs ++ child_event k h typ got :: ne) [] (ret_of bh)
        end
      else mkout evs [] RetOk
  end.

Definition msg_router (N : nestf) (r : registry) (sn : name) (attrs : list attr) (toks : list tok) (tm : term)
  (script : list hbeh) : outcome :=
  match new_message sn attrs with
  | None => out_err
  | Some h => for_children N r SMsg sn (h_type h) toks tm script
  end.

Definition pres_router (N : nestf) (r : registry) (sn : name) (attrs : list attr) (toks : list tok) (tm : term)
  (script : list hbeh) : outcome :=
  match new_presence sn attrs with
  | None => out_err
  | Some h => for_children N r SPres sn (h_type h) toks tm script
  end.

(* ---- ServeMux.HandleXMPP ---- *)

Definition stanza_is (n : name) (ns : bytes) : bool :=
  in_list (snd n) stanza_locals && (is_nil ns || bytes_eqb (fst n) ns).

Fixpoint router_of (local : bytes) (m : list (bytes * bytes)) : option bytes :=
  match m with
  | [] => None
  | (l, rt) :: m' => if bytes_eqb local l then Some rt else router_of local m'
  end.

Definition handle_gen (N : nestf) (r : registry) (ns : bytes) (sn : name) (attrs : list attr) (toks : list tok) (tm : term)
  (script : list hbeh) : outcome :=
  match lookup_top r sn with
  | Some h => run_top N h sn toks tm script
  | None =>
      if stanza_is sn ns then
        match router_of (snd sn) router_map with
        | Some rt =>
            if bytes_eqb rt (str "iqRouter") then iq_router N r sn attrs toks tm script
            else if bytes_eqb rt (str "msgRouter") then msg_router N r sn attrs toks tm script
            else if bytes_eqb rt (str "presenceRouter") then pres_router N r sn attrs toks tm script
            else out_nothing
        | None => out_nothing
        end
      else out_nothing
  end.

(* one stanza handled by a mux that is not in the middle of any other *)
Definition handle : registry -> bytes -> name -> list attr -> list tok -> term -> list hbeh -> outcome :=
  handle_gen no_nest.

(* ---- several stanzas in flight on one mux ---- *)

(* an element with the reader that delivers it and the script of the handlers
   invoked for it *)
Record elem := mkelem { e_name : name; e_attrs : list attr; e_toks : list tok; e_tm : term; e_script : list hbeh }.

(* the dispatch of e when handlers may hand the stanzas elems[lo..] to the same
   mux: stanza j's handlers may in turn dispatch elems[j+1..] only, so nesting is
   bounded by the length of the list (fuel; RetOutOfFuel otherwise).  The mux - the
   registry r and the name space ns - is all the dispatches share: every call has
   its own replay buffer, iterator and reader. *)
Fixpoint handle_from (fuel : nat) (r : registry) (ns : bytes) (elems : list elem) (lo : nat) (e : elem) : outcome :=
  match fuel with
  | 0 => out_fuel
  | S f =>
      handle_gen
        (fun j => if lo <=? j then
                    match nth_error elems j with
                    | Some e' => Some (handle_from f r ns elems (S j) e')
                    | None => None
                    end
                  else None)
        r ns (e_name e) (e_attrs e) (e_toks e) (e_tm e) (e_script e)
  end.

Definition handle_in (r : registry) (ns : bytes) (elems : list elem) (e : elem) : outcome :=
  handle_from (S (length elems)) r ns elems 0 e.

(* ---- correspondence records (harness-written case files) ---- *)

(* compact names and types for case files *)
Definition sp (i : nat) : bytes :=
  nth i [[]; str "x"; str "y"; str "jabber:client"; str "jabber:server"; str "z"; xml_ns] [].
Definition lc (i : nat) : bytes :=
  nth i [[]; str "a"; str "b"; str "iq"; str "message"; str "presence"; str "c"; str "d"] [].
Definition nm (s l : nat) : name := (sp s, lc l).
Definition ty (i : nat) : bytes :=
  nth i [[]; str "get"; str "set"; str "result"; str "error"; str "normal"; str "chat"; str "groupchat";
         str "headline"; str "subscribe"; str "unavailable"; str "probe"; str "bogus"] [].

(* P kind type space local handler: kind 0 top, 1 iq, 2 message, 3 presence *)
Definition P (k t s l h : nat) : regop :=
  match k with
  | 0 => RHandle (nm s l) (HOk h)
  | 1 => RIq (ty t) (nm s l) (HOk h)
  | 2 => RMsg (ty t) (nm s l) (HOk h)
  | _ => RPres (ty t) (nm s l) (HOk h)
  end.

Definition S_ (s l : nat) : tok := TStart (nm s l).

Definition opt_eqb {A} (eqb : A -> A -> bool) (a b : option A) : bool :=
  match a, b with
  | Some x, Some y => eqb x y
  | None, None => true
  | _, _ => false
  end.

Fixpoint list_eqb {A} (eqb : A -> A -> bool) (a b : list A) : bool :=
  match a, b with
  | [], [] => true
  | x :: a', y :: b' => eqb x y && list_eqb eqb a' b'
  | _, _ => false
  end.

Definition reply_eqb (a b : reply) : bool :=
  bytes_eqb (rp_space a) (rp_space b) && bytes_eqb (rp_type a) (rp_type b) &&
  opt_eqb bytes_eqb (rp_to a) (rp_to b) && opt_eqb bytes_eqb (rp_from a) (rp_from b) &&
  bytes_eqb (rp_id a) (rp_id b) && bytes_eqb (rp_lang a) (rp_lang b) &&
  bytes_eqb (rp_etype a) (rp_etype b) && bytes_eqb (rp_cond a) (rp_cond b).

Definition ret_eqb (a b : ret) : bool :=
  match a, b with
  | RetOk, RetOk | RetErr, RetErr | RetEOF, RetEOF | RetPanic, RetPanic | RetOutOfFuel, RetOutOfFuel => true
  | _, _ => false
  end.

Fixpoint event_eqb (a b : event) : bool :=
  match a, b with
  | EvTop h n g, EvTop h' n' g' => Nat.eqb h h' && name_eqb n n' && list_eqb tok_eqb g g'
  | EvIq h t p g, EvIq h' t' p' g' =>
      Nat.eqb h h' && bytes_eqb t t' && opt_eqb name_eqb p p' && list_eqb tok_eqb g g'
  | EvMsg h t g, EvMsg h' t' g' => Nat.eqb h h' && bytes_eqb t t' && list_eqb tok_eqb g g'
  | EvPres h t g, EvPres h' t' g' => Nat.eqb h h' && bytes_eqb t t' && list_eqb tok_eqb g g'
  | EvNested j evs reps r, EvNested j' evs' reps' r' =>
      Nat.eqb j j' &&
      (fix go (x y : list event) : bool :=
         match x, y with
         | [], [] => true
         | e :: x', e' :: y' => event_eqb e e' && go x' y'
         | _, _ => false
         end) evs evs' &&
      list_eqb reply_eqb reps reps' && ret_eqb r r'
  | _, _ => false
  end.

Definition outcome_eqb (a b : outcome) : bool :=
  list_eqb event_eqb (o_events a) (o_events b) && list_eqb reply_eqb (o_replies a) (o_replies b) &&
  ret_eqb (o_ret a) (o_ret b).

(* dispatch case: options, mux namespace, element, reader, script; observed
   registration success and outcome *)
Record dcase := mkdcase {
  d_ops : list regop; d_ns : bytes; d_name : name; d_attrs : list attr; d_toks : list tok;
  d_tm : term; d_script : list hbeh;
  d_regok : bool; d_obs : outcome }.

Definition dcase_ok (c : dcase) : bool :=
  match new_mux (d_ops c) with
  | None => negb (d_regok c)
  | Some r =>
      d_regok c &&
      outcome_eqb (handle r (d_ns c) (d_name c) (d_attrs c) (d_toks c) (d_tm c) (d_script c)) (d_obs c)
  end.

(* re-entrant case: options, mux namespace, the stanza, the further stanzas its
   handlers (and theirs) dispatch on the same mux; observed outcome with the
   nested dispatches in place *)
Record ncase := mkncase { n_ops : list regop; n_ns : bytes; n_top : elem; n_nested : list elem; n_obs : outcome }.

Definition ncase_ok (c : ncase) : bool :=
  match new_mux (n_ops c) with
  | None => false
  | Some r => outcome_eqb (handle_in r (n_ns c) (n_nested c) (n_top c)) (n_obs c)
  end.

(* lookup case: options, table, type, queries with the observed handler
   (None = the default, ok = false) *)
Record lcase := mklcase {
  l_ops : list regop; l_tbl : tbl; l_type : bytes; l_queries : list (name * option hid) }.

Definition lcase_ok (c : lcase) : bool :=
  match new_mux (l_ops c) with
  | None => false
  | Some r => forallb (fun q => opt_eqb Nat.eqb (lookup r (l_tbl c) (l_type c) (fst q)) (snd q)) (l_queries c)
  end.

(* registration case: options and whether mux.New returned (true) or panicked *)
Record rcase := mkrcase { g_ops : list regop; g_ok : bool }.

Definition rcase_ok (c : rcase) : bool :=
  Bool.eqb (match new_mux (g_ops c) with Some _ => true | None => false end) (g_ok c).

Fixpoint failing {A} (ok : A -> bool) (i : nat) (l : list A) : list nat :=
  match l with
  | [] => []
  | x :: r => if ok x then failing ok (S i) r else i :: failing ok (S i) r
  end.
