(* C14/Examples.v — non-vacuity: concrete, non-trivial instances of the
   hypotheses of the property theorems, and a few worked dispatches. *)
From XV Require Import lib.Bytes gen.Mux C14.Model C14.Proofs C14.Reentry.

Definition nsc : bytes := str "jabber:client".
Definition sep_eof : term := mkterm false false.   (* (nil, io.EOF) after the last token: xml.Decoder *)
Definition with_eof : term := mkterm false true.   (* the last token together with io.EOF: xmlstream.Wrap *)
Definition with_err : term := mkterm true true.    (* the last token together with another error *)
Definition xa : name := (str "x", str "a").
Definition yb : name := (str "y", str "b").

(* a registry: namespace-only and local-only message patterns, an exact IQ
   pattern, a type wildcard for chat messages, a top-level pattern *)
Definition ex_ops : list regop :=
  [RMsg (str "chat") (str "x", []) (HOk 1); RMsg (str "chat") ([], str "a") (HOk 2);
   RMsg (str "chat") ([], []) (HOk 3); RIq (str "get") xa (HOk 4); RHandle (str "z", []) (HOk 5);
   RPres [] yb (HOk 6); RMsg (str "chat") yb (HOk 7)].

Definition ex_reg : registry :=
  match new_mux ex_ops with Some r => r | None => empty_reg end.

Example ex_new_mux : new_mux ex_ops = Some ex_reg.
Proof. vm_compute. reflexivity. Qed.

Example ex_valid_ids : valid_ids ex_ops.
Proof. intros op H. cbn in H. repeat (destruct H as [H|H]; [subst op; discriminate|]). destruct H. Qed.

(* local name only beats namespace only; both beat the bare wildcard *)
Example ex_local_beats_space : lookup ex_reg TblMsg (str "chat") xa = Some 2.
Proof. vm_compute. reflexivity. Qed.
Example ex_space_beats_bare : lookup ex_reg TblMsg (str "chat") (str "x", str "c") = Some 1.
Proof. vm_compute. reflexivity. Qed.
Example ex_bare : lookup ex_reg TblMsg (str "chat") (str "q", str "q") = Some 3.
Proof. vm_compute. reflexivity. Qed.
Example ex_other_type : lookup ex_reg TblMsg (str "normal") xa = None.
Proof. vm_compute. reflexivity. Qed.
Example ex_matches : matches true ([], str "a") xa /\ matches true (str "x", []) xa /\ rank (str "x", []) < rank ([], str "a").
Proof. unfold matches, comp_matches, rank. cbn. repeat split; auto. Qed.
Example ex_registered : registered ex_ops TblMsg (str "chat") ([], str "a") 2.
Proof. cbn. auto. Qed.

(* hypotheses of the dispatch theorems *)
Definition msg_name : name := (nsc, str "message").
Definition chat_attrs : list attr :=
  [mkattr [] (str "type") (str "chat") None; mkattr [] (str "from") (str "a@b/c") (Some (str "a@b/c"))].

Example ex_not_top : lookup_top ex_reg msg_name = None.
Proof. vm_compute. reflexivity. Qed.
Example ex_stanza_is : stanza_is msg_name nsc = true /\ snd msg_name = child_local SMsg.
Proof. vm_compute. split; reflexivity. Qed.
Example ex_hdr : child_hdr SMsg msg_name chat_attrs = Some (mkhdr (str "chat") [] None (Some (str "a@b/c")) []).
Proof. vm_compute. reflexivity. Qed.

(* <message type='chat'><a xmlns='x'>text</a><b xmlns='y'/></message> *)
Definition two_children : list tok := [TStart xa; TText false; TEnd; TStart yb; TEnd; TEnd].
Example ex_closed : skip_elem 0 two_children = Some [].
Proof. reflexivity. Qed.
Example ex_child_names : child_names 0 two_children = [xa; yb].
Proof. reflexivity. Qed.

(* the first handler reads the whole stanza, the second still sees it from the start *)
Example ex_replay :
  handle ex_reg nsc msg_name chat_attrs two_children sep_eof [mkbeh 99 false; mkbeh 3 false] =
  mkout [EvMsg 2 (str "chat") (TStart msg_name :: two_children);
         EvMsg 7 (str "chat") [TStart msg_name; TStart xa; TText false]] [] RetOk.
Proof. vm_compute. reflexivity. Qed.

(* an empty chat message goes to the type wildcard *)
Example ex_empty : handle ex_reg nsc msg_name chat_attrs [TEnd] sep_eof [mkbeh 5 false] =
  mkout [EvMsg 3 (str "chat") [TStart msg_name; TEnd]] [] RetOk.
Proof. vm_compute. reflexivity. Qed.

(* the same two dispatches when the reader returns the stanza's end element
   together with io.EOF (or with another error): the first handler obtains that
   token, it is buffered, and the second handler is replayed the complete stanza *)
Example ex_replay_with_eof :
  handle ex_reg nsc msg_name chat_attrs two_children with_eof [mkbeh 99 false; mkbeh 99 false] =
  mkout [EvMsg 2 (str "chat") (TStart msg_name :: two_children);
         EvMsg 7 (str "chat") (TStart msg_name :: two_children)] [] RetOk.
Proof. vm_compute. reflexivity. Qed.
Example ex_replay_with_err :
  handle ex_reg nsc msg_name chat_attrs two_children with_err [mkbeh 99 false; mkbeh 99 false] =
  mkout [EvMsg 2 (str "chat") (TStart msg_name :: two_children);
         EvMsg 7 (str "chat") (TStart msg_name :: two_children)] [] RetOk.
Proof. vm_compute. reflexivity. Qed.
Example ex_empty_with_eof : handle ex_reg nsc msg_name chat_attrs [TEnd] with_eof [mkbeh 5 false] =
  mkout [EvMsg 3 (str "chat") [TStart msg_name; TEnd]] [] RetOk.
Proof. vm_compute. reflexivity. Qed.
Example ex_fin_err : fin_err with_eof [] = Some false /\ fin_err with_err [] = Some true /\ fin_err sep_eof [] = None.
Proof. repeat split; reflexivity. Qed.
(* hypotheses of C14_token_with_error_is_buffered: the reader at the end of a
   two-token buffer, the underlying reader about to return its last token with io.EOF *)
Example ex_fetch :
  b_token with_eof (mkbr [TStart msg_name; TStart xa] 2 [TEnd]) =
  RTok TEnd (Some false) (mkbr [TStart msg_name; TStart xa; TEnd] 3 []).
Proof. vm_compute. reflexivity. Qed.

(* a registry whose message patterns are named like the stanza element itself
   (exact, local name only, name space only - say, to catch body and subject):
   none of them is chosen for the empty message, with or without a bare type
   wildcard; each is chosen for a child of that name *)
Definition own_ops : list regop :=
  [RMsg (str "chat") (nsc, str "message") (HOk 1); RMsg (str "chat") ([], str "message") (HOk 2);
   RMsg (str "chat") (nsc, []) (HOk 3)].
Definition own_reg : registry := match new_mux own_ops with Some r => r | None => empty_reg end.
Definition own_reg_w : registry :=
  match new_mux (own_ops ++ [RMsg (str "chat") ([], []) (HOk 4)]) with Some r => r | None => empty_reg end.
Example ex_own_new : new_mux own_ops = Some own_reg /\
                     new_mux (own_ops ++ [RMsg (str "chat") ([], []) (HOk 4)]) = Some own_reg_w.
Proof. vm_compute. split; reflexivity. Qed.
Example ex_own_empty : handle own_reg nsc msg_name chat_attrs [TEnd] with_eof [mkbeh 5 false] = out_nothing.
Proof. vm_compute. reflexivity. Qed.
Example ex_own_empty_w : handle own_reg_w nsc msg_name chat_attrs [TEnd] sep_eof [mkbeh 5 false] =
  mkout [EvMsg 4 (str "chat") [TStart msg_name; TEnd]] [] RetOk.
Proof. vm_compute. reflexivity. Qed.
Example ex_own_child :
  handle own_reg_w nsc msg_name chat_attrs [TStart (nsc, str "body"); TEnd; TEnd] sep_eof [mkbeh 1 false] =
  mkout [EvMsg 3 (str "chat") [TStart msg_name]] [] RetOk.
Proof. vm_compute. reflexivity. Qed.
Example ex_own_registered : registered (own_ops ++ [RMsg (str "chat") ([], []) (HOk 4)]) (child_tbl SMsg) (str "chat") ([], []) 4.
Proof. cbn. auto 8. Qed.

(* a truncated IQ whose payload start comes together with io.EOF is taken for an
   empty IQ: the hypothesis rest <> [] of C14_iq_dispatch is needed *)
Example ex_iq_truncated :
  handle ex_reg nsc (nsc, str "iq") [mkattr [] (str "type") (str "get") None] [TStart xa] with_eof [mkbeh 9 false] =
  mkout [] [mkreply nsc (str "error") None None [] [] (str "cancel") (str "service-unavailable")] RetErr.
Proof. vm_compute. reflexivity. Qed.

(* re-entrancy: the handler chosen for the first child of two_children reads two
   tokens, hands an inner message (one child yb, handled by 7, which reads all of
   it) to the same mux, reads on to the end; the handler of the second child is
   still replayed the whole OUTER stanza *)
Definition inner_toks : list tok := [TStart yb; TText false; TEnd; TEnd].
Definition inner_elem : elem := mkelem msg_name chat_attrs inner_toks with_eof [mkbeh 99 false].
Definition outer_elem : elem :=
  mkelem msg_name chat_attrs two_children sep_eof [mkbehn 99 false (Some (2, 0)); mkbeh 99 false].
Example ex_reentrant :
  handle_in ex_reg nsc [inner_elem] outer_elem =
  mkout [EvMsg 2 (str "chat") (TStart msg_name :: two_children);
         EvNested 0 [EvMsg 7 (str "chat") (TStart msg_name :: inner_toks)] [] RetOk;
         EvMsg 7 (str "chat") (TStart msg_name :: two_children)] [] RetOk.
Proof. vm_compute. reflexivity. Qed.
Example ex_reentrant_strip :
  strip (handle_in ex_reg nsc [inner_elem] outer_elem) =
  handle ex_reg nsc msg_name chat_attrs two_children sep_eof (e_script outer_elem).
Proof. vm_compute. reflexivity. Qed.
(* a request for a stanza that is not there is ignored *)
Example ex_reentrant_none : handle_in ex_reg nsc [] outer_elem = solo ex_reg nsc outer_elem.
Proof. vm_compute. reflexivity. Qed.
(* readers that have reported their end stay there (hypothesis of take_n_split) *)
Example ex_sticky : sticky (b_token with_eof) /\ sticky (iq_reader with_err) /\ sticky (u_token sep_eof).
Proof. repeat split; [apply sticky_b|apply sticky_iq|apply sticky_u]. Qed.

(* IQs *)
Definition iq_name : name := (nsc, str "iq").
Definition get_attrs : list attr :=
  [mkattr [] (str "type") (str "get") None; mkattr [] (str "id") (str "i1") None;
   mkattr [] (str "from") (str "a@b/c") (Some (str "a@b/c")); mkattr [] (str "to") (str "d") (Some (str "d"))].
Definition get_hdr : hdr := mkhdr (str "get") (str "i1") (Some (str "d")) (Some (str "a@b/c")) [].

Example ex_new_iq : new_iq iq_name get_attrs = Some get_hdr.
Proof. vm_compute. reflexivity. Qed.
Example ex_iq_hyps : lookup_top ex_reg iq_name = None /\ stanza_is iq_name nsc = true /\ snd iq_name = str "iq".
Proof. vm_compute. repeat split; reflexivity. Qed.
Example ex_iq_handled :
  handle ex_reg nsc iq_name get_attrs [TText true; TStart xa; TText false; TEnd; TEnd] sep_eof [mkbeh 9 false] =
  mkout [EvIq 4 (str "get") (Some xa) [TText false; TEnd]] [] RetOk.
Proof. vm_compute. reflexivity. Qed.
Example ex_iq_unhandled : iq_unhandled ex_reg get_hdr [TStart yb; TEnd; TEnd] sep_eof.
Proof. split; [discriminate|vm_compute; reflexivity]. Qed.
Example ex_iq_default :
  handle ex_reg nsc iq_name get_attrs [TStart yb; TEnd; TEnd] sep_eof [] =
  mkout [] [mkreply nsc (str "error") (Some (str "a@b/c")) (Some (str "d")) (str "i1") [] (str "cancel")
              (str "service-unavailable")] RetOk.
Proof. vm_compute. reflexivity. Qed.
(* the witness of the repaired defect: an empty get IQ is answered (and reported) *)
Example ex_iq_empty_get :
  handle ex_reg nsc iq_name get_attrs [TEnd] sep_eof [] =
  mkout [] [service_unavailable iq_name get_hdr] RetErr.
Proof. vm_compute. reflexivity. Qed.

(* registration *)
Example ex_refuse_dup : new_mux [RIq (str "get") xa (HOk 1); RIq (str "get") xa (HOk 2)] = None.
Proof. vm_compute. reflexivity. Qed.
Example ex_refuse_nil : new_mux [RMsg (str "chat") xa HNil] = None /\ new_mux [RMsg (str "chat") xa HNilFunc] = None.
Proof. vm_compute. split; reflexivity. Qed.
Example ex_refuse_stanza_name : new_mux [RHandle (str "x", str "message") (HOk 1)] = None.
Proof. vm_compute. reflexivity. Qed.
Example ex_nodup : NoDup (map op_tbl_key ex_ops).
Proof.
  destruct (new_mux_spec _ _ ex_new_mux) as (_ & N & _). exact N.
Qed.

(* a renaming satisfying the hypotheses of C14_renaming_invariance *)
Definition pre (b : bytes) : bytes := match b with [] => [] | _ => "p"%byte :: b end.
Example ex_pre_inj : (forall a b, pre a = pre b -> a = b) /\ pre [] = [].
Proof.
  split; [|reflexivity]. intros [|x a] [|y b] H; cbn in H; try discriminate; [reflexivity|].
  inversion H. reflexivity.
Qed.
Example ex_renamed : lookup (rename_reg pre pre ex_reg) TblMsg (str "chat") (rename pre pre xa) = Some 2.
Proof. vm_compute. reflexivity. Qed.

(* the buffer invariant holds initially *)
Example ex_inv : Inv (TStart msg_name :: two_children) (mkbr [TStart msg_name] 1 two_children) two_children.
Proof. unfold Inv. cbn. auto. Qed.
