(* C14/Proofs.v — lemmas behind the property theorems of C14. *)
From XV Require Import lib.Bytes gen.Mux C14.Model.
From Coq Require Import ZifyBool ZifyNat Lia.

(* ------------------------------------------------------------------ *)
(* 1. Tables read from the source (a source edit breaks these)          *)
(* ------------------------------------------------------------------ *)

Lemma top_cascade_eq : top_cascade = [(TblTop, true, true); (TblTop, false, true); (TblTop, true, false)].
Proof. reflexivity. Qed.
Lemma iq_cascade_eq :
  iq_cascade = [(TblIq, true, true); (TblIq, false, true); (TblIq, true, false); (TblIq, false, false)].
Proof. reflexivity. Qed.
Lemma msg_cascade_eq :
  msg_cascade = [(TblMsg, true, true); (TblMsg, false, true); (TblMsg, true, false); (TblMsg, false, false)].
Proof. reflexivity. Qed.
Lemma pres_cascade_eq :
  pres_cascade = [(TblPres, true, true); (TblPres, false, true); (TblPres, true, false); (TblPres, false, false)].
Proof. reflexivity. Qed.

(* lookups and registrations use the same stanza string per table *)
Lemma stanza_keys_agree :
  iq_stanza = reg_iq_stanza /\ msg_stanza = reg_message_stanza /\ pres_stanza = reg_presence_stanza.
Proof. repeat split; reflexivity. Qed.

Lemma defaults_are :
  iq_default = str "IQHandlerFunc(iqFallback)" /\ msg_default = str "nopHandler{...}" /\
  pres_default = str "nopHandler{...}".
Proof. repeat split; reflexivity. Qed.

(* every option refuses nil handlers and duplicates, Handle refuses stanza names,
   the Func wrappers refuse nil funcs *)
Lemma reg_flags :
  reg_handle = (TblTop, true, true, true) /\ reg_iq = (TblIq, true, true, false) /\
  reg_message = (TblMsg, true, true, false) /\ reg_presence = (TblPres, true, true, false).
Proof. repeat split; reflexivity. Qed.

Lemma func_guards :
  handlefunc_refuses_nil_func = true /\ iqfunc_refuses_nil_func = true /\
  messagefunc_refuses_nil_func = true /\ presencefunc_refuses_nil_func = true.
Proof. repeat split; reflexivity. Qed.

Lemma router_map_eq :
  router_map = [(str "iq", str "iqRouter"); (str "message", str "msgRouter"); (str "presence", str "presenceRouter")].
Proof. reflexivity. Qed.

Lemma stanza_locals_eq : stanza_locals = [str "iq"; str "message"; str "presence"].
Proof. reflexivity. Qed.

Lemma fallback_tables :
  fallback_silent_types = [str "error"; str "result"] /\ fallback_swaps_addresses = true /\
  fallback_reply_type = str "error" /\ fallback_error_type = str "cancel" /\
  fallback_condition = str "service-unavailable".
Proof. repeat split; reflexivity. Qed.

Lemma iq_types :
  iqtype_get = str "get" /\ iqtype_set = str "set" /\ iqtype_result = str "result" /\ iqtype_error = str "error".
Proof. repeat split; reflexivity. Qed.

Lemma message_types_eq :
  message_types = [str "normal"; str "chat"; str "error"; str "groupchat"; str "headline"] /\
  message_default = str "normal".
Proof. split; reflexivity. Qed.

(* forChildren: each child is looked up under its own name, the empty stanza
   under the zero name xml.Name{} (not under the stanza's own name) *)
Lemma lookup_args :
  child_lookup_arg_message = NsChild /\ child_lookup_arg_presence = NsChild /\
  wildcard_lookup_arg_message = NsZero /\ wildcard_lookup_arg_presence = NsZero.
Proof. repeat split; reflexivity. Qed.

Lemma wildcard_name k sn : src_name (wildcard_arg k) sn = ([], []).
Proof. destruct lookup_args as (_ & _ & A & B). destruct k; unfold wildcard_arg; rewrite ?A, ?B; reflexivity. Qed.

(* bufReader.Token appends a token to the replay buffer even if the underlying
   reader returned it together with an error *)
Lemma bufreader_buffers : bufreader_buffers_token_with_error = true.
Proof. reflexivity. Qed.

(* ------------------------------------------------------------------ *)
(* 2. Keys and association lists                                        *)
(* ------------------------------------------------------------------ *)

Lemma name_eqb_eq (a b : name) : name_eqb a b = true <-> a = b.
Proof.
  destruct a as [a1 a2], b as [b1 b2]. unfold name_eqb. cbn [fst snd].
  rewrite andb_true_iff, !bytes_eqb_eq. split.
  - intros [H1 H2]. subst. reflexivity.
  - intro H. inversion H. auto.
Qed.

Lemma key_eqb_eq (a b : key) : key_eqb a b = true <-> a = b.
Proof.
  destruct a as [a1 a2 a3], b as [b1 b2 b3]. unfold key_eqb. cbn [k_stanza k_type k_name].
  rewrite !andb_true_iff, !bytes_eqb_eq, name_eqb_eq. split.
  - intros [[H1 H2] H3]. subst. reflexivity.
  - intro H. inversion H. auto.
Qed.

Lemma key_eqb_refl k : key_eqb k k = true.
Proof. apply key_eqb_eq. reflexivity. Qed.

Lemma key_eqb_false (a b : key) : key_eqb a b = false <-> a <> b.
Proof.
  split.
  - intros H E. apply key_eqb_eq in E. congruence.
  - intro H. destruct (key_eqb a b) eqn:E; [apply key_eqb_eq in E; contradiction|reflexivity].
Qed.

Definition unique_keys (t : table) : Prop := NoDup (map fst t).

Lemma assoc_some_in k h t : assoc k t = Some h -> In (k, h) t.
Proof.
  induction t as [|[k' h'] t IH]; cbn [assoc]; [discriminate|].
  destruct (key_eqb k k') eqn:E.
  - intro H. inversion H; subst. apply key_eqb_eq in E. subst. left. reflexivity.
  - intro H. right. apply IH. exact H.
Qed.

Lemma assoc_none_notin k t : assoc k t = None -> forall h, ~ In (k, h) t.
Proof.
  induction t as [|[k' h'] t IH]; cbn [assoc]; intros H h Hin; [destruct Hin|].
  destruct (key_eqb k k') eqn:E; [discriminate|].
  destruct Hin as [Heq|Hin].
  - inversion Heq; subst. rewrite key_eqb_refl in E. discriminate.
  - exact (IH H h Hin).
Qed.

Lemma in_assoc k h t : unique_keys t -> In (k, h) t -> assoc k t = Some h.
Proof.
  unfold unique_keys. induction t as [|[k' h'] t IH]; cbn [assoc map fst]; intros U Hin; [destruct Hin|].
  inversion U as [|x l Hnot Hnd]; subst.
  destruct Hin as [Heq|Hin].
  - inversion Heq; subst. rewrite key_eqb_refl. reflexivity.
  - destruct (key_eqb k k') eqn:E.
    + apply key_eqb_eq in E. subst. exfalso. apply Hnot. apply in_map_iff. exists (k', h). split; [reflexivity|exact Hin].
    + apply IH; assumption.
Qed.

Lemma assoc_none_iff k t : assoc k t = None <-> (forall h, ~ In (k, h) t).
Proof.
  split; [apply assoc_none_notin|].
  intro H. destruct (assoc k t) eqn:E; [|reflexivity].
  exfalso. exact (H _ (assoc_some_in _ _ _ E)).
Qed.

Lemma assoc_app_none k t t' : assoc k t = None -> assoc k (t ++ t') = assoc k t'.
Proof.
  induction t as [|[k' h'] t IH]; cbn [assoc app]; [reflexivity|].
  destruct (key_eqb k k'); [discriminate|exact IH].
Qed.

Lemma assoc_app_some k t t' h : assoc k t = Some h -> assoc k (t ++ t') = Some h.
Proof.
  induction t as [|[k' h'] t IH]; cbn [assoc app]; [discriminate|].
  destruct (key_eqb k k'); [auto|exact IH].
Qed.

(* ------------------------------------------------------------------ *)
(* 3. "Most specific": specification and the cascade                    *)
(* ------------------------------------------------------------------ *)

(* A pattern component matches an element component if it is equal to it or is
   the wildcard (empty). *)
Definition comp_matches (p e : bytes) : Prop := p = e \/ p = [].

(* A pattern name matches an element name if both components match; patterns of
   the top-level table may use at most one wildcard (bare = false). *)
Definition matches (bare : bool) (p e : name) : Prop :=
  comp_matches (fst p) (fst e) /\ comp_matches (snd p) (snd e) /\
  (bare = true \/ fst p = fst e \/ snd p = snd e).

(* Specificity: keeping the local name weighs more than keeping the namespace. *)
Definition rank (p : name) : nat :=
  (match snd p with [] => 0 | _ => 2 end) + (match fst p with [] => 0 | _ => 1 end).

Definition entry (t : table) (stz typ : bytes) (p : name) (h : hid) : Prop := In (mkkey stz typ p, h) t.

(* h is the handler of a registered pattern of this stanza kind and type that
   matches e and is maximal in the specificity order among those that do *)
Definition most_specific (t : table) (stz typ : bytes) (bare : bool) (e : name) (h : hid) : Prop :=
  exists p, entry t stz typ p h /\ matches bare p e /\
            forall p' h', entry t stz typ p' h' -> matches bare p' e -> rank p' <= rank p.

Definition no_match (t : table) (stz typ : bytes) (bare : bool) (e : name) : Prop :=
  forall p h, entry t stz typ p h -> ~ matches bare p e.

Lemma matches_keys4 p s l :
  matches true p (s, l) <-> p = (s, l) \/ p = ([], l) \/ p = (s, []) \/ p = ([], []).
Proof.
  destruct p as [ps pl]. unfold matches, comp_matches. cbn [fst snd]. split.
  - intros [[H1|H1] [[H2|H2] _]]; subst; auto.
  - intros [H|[H|[H|H]]]; inversion H; subst; auto 6.
Qed.

Lemma matches_keys3 p s l :
  matches false p (s, l) <-> p = (s, l) \/ p = ([], l) \/ p = (s, []).
Proof.
  destruct p as [ps pl]. unfold matches, comp_matches. cbn [fst snd]. split.
  - intros [[H1|H1] [[H2|H2] [H3|[H3|H3]]]]; subst; try discriminate; auto.
  - intros [H|[H|H]]; inversion H; subst; auto 8.
Qed.

Lemma entry_assoc t stz typ p h : unique_keys t -> entry t stz typ p h -> assoc (mkkey stz typ p) t = Some h.
Proof. intros U H. apply in_assoc; assumption. Qed.

Lemma assoc_entry t stz typ p h : assoc (mkkey stz typ p) t = Some h -> entry t stz typ p h.
Proof. apply assoc_some_in. Qed.

Lemma entry_none t stz typ p h : assoc (mkkey stz typ p) t = None -> entry t stz typ p h -> False.
Proof. intros H E. exact (assoc_none_notin _ _ H _ E). Qed.

Lemma rank_le_full ps pl s l : matches true (ps, pl) (s, l) -> rank (ps, pl) <= rank (s, l).
Proof.
  unfold matches, comp_matches, rank. cbn [fst snd].
  intros [[H1|H1] [[H2|H2] _]]; subst; destruct s, l; cbn; lia.
Qed.

(* first hit among four probes *)
Definition probe4 (t : table) (stz typ : bytes) (s l : bytes) : option hid :=
  match assoc (mkkey stz typ (s, l)) t with
  | Some h => Some h
  | None =>
    match assoc (mkkey stz typ ([], l)) t with
    | Some h => Some h
    | None =>
      match assoc (mkkey stz typ (s, [])) t with
      | Some h => Some h
      | None => assoc (mkkey stz typ ([], [])) t
      end
    end
  end.

Definition probe3 (t : table) (stz typ : bytes) (s l : bytes) : option hid :=
  match assoc (mkkey stz typ (s, l)) t with
  | Some h => Some h
  | None =>
    match assoc (mkkey stz typ ([], l)) t with
    | Some h => Some h
    | None => assoc (mkkey stz typ (s, [])) t
    end
  end.

Ltac kill_entry :=
  match goal with
  | [ H : assoc (mkkey ?stz ?typ ?p) ?t = None, E : entry ?t ?stz ?typ ?p _ |- _ ] =>
      exfalso; exact (entry_none _ _ _ _ _ H E)
  end.

Lemma probe4_spec t stz typ s l :
  unique_keys t ->
  match probe4 t stz typ s l with
  | Some h => most_specific t stz typ true (s, l) h
  | None => no_match t stz typ true (s, l)
  end.
Proof.
  intro U. unfold probe4.
  destruct (assoc (mkkey stz typ (s, l)) t) as [h1|] eqn:E1.
  { exists (s, l). split; [apply assoc_entry; exact E1|]. split; [apply matches_keys4; auto|].
    intros [ps pl] h' _ Hm. apply rank_le_full. exact Hm. }
  destruct (assoc (mkkey stz typ ([], l)) t) as [h2|] eqn:E2.
  { exists ([], l). split; [apply assoc_entry; exact E2|]. split; [apply matches_keys4; auto|].
    intros p' h' He Hm. apply matches_keys4 in Hm. destruct Hm as [Hm|[Hm|[Hm|Hm]]]; subst p'.
    - kill_entry.
    - lia.
    - destruct l as [|c l]; [kill_entry|]. destruct s; cbn; lia.
    - unfold rank; cbn; lia. }
  destruct (assoc (mkkey stz typ (s, [])) t) as [h3|] eqn:E3.
  { exists (s, []). split; [apply assoc_entry; exact E3|]. split; [apply matches_keys4; auto|].
    intros p' h' He Hm. apply matches_keys4 in Hm. destruct Hm as [Hm|[Hm|[Hm|Hm]]]; subst p'.
    - kill_entry.
    - kill_entry.
    - lia.
    - unfold rank; cbn; lia. }
  destruct (assoc (mkkey stz typ ([], [])) t) as [h4|] eqn:E4.
  { exists ([], []). split; [apply assoc_entry; exact E4|]. split; [apply matches_keys4; auto|].
    intros p' h' He Hm. apply matches_keys4 in Hm. destruct Hm as [Hm|[Hm|[Hm|Hm]]]; subst p'; try kill_entry. lia. }
  intros p h He Hm. apply matches_keys4 in Hm. destruct Hm as [Hm|[Hm|[Hm|Hm]]]; subst p; kill_entry.
Qed.

Lemma probe3_spec t stz typ s l :
  unique_keys t ->
  match probe3 t stz typ s l with
  | Some h => most_specific t stz typ false (s, l) h
  | None => no_match t stz typ false (s, l)
  end.
Proof.
  intro U. unfold probe3.
  destruct (assoc (mkkey stz typ (s, l)) t) as [h1|] eqn:E1.
  { exists (s, l). split; [apply assoc_entry; exact E1|]. split; [apply matches_keys3; auto|].
    intros [ps pl] h' _ Hm. apply rank_le_full. destruct Hm as [A [B _]]. repeat split; auto. }
  destruct (assoc (mkkey stz typ ([], l)) t) as [h2|] eqn:E2.
  { exists ([], l). split; [apply assoc_entry; exact E2|]. split; [apply matches_keys3; auto|].
    intros p' h' He Hm. apply matches_keys3 in Hm. destruct Hm as [Hm|[Hm|Hm]]; subst p'.
    - kill_entry.
    - lia.
    - destruct l as [|c l]; [kill_entry|]. destruct s; cbn; lia. }
  destruct (assoc (mkkey stz typ (s, [])) t) as [h3|] eqn:E3.
  { exists (s, []). split; [apply assoc_entry; exact E3|]. split; [apply matches_keys3; auto|].
    intros p' h' He Hm. apply matches_keys3 in Hm. destruct Hm as [Hm|[Hm|Hm]]; subst p'; try kill_entry. lia. }
  intros p h He Hm. apply matches_keys3 in Hm. destruct Hm as [Hm|[Hm|Hm]]; subst p; kill_entry.
Qed.

(* which table, stanza string, type and wildcard rule each lookup uses *)
Definition stanza_of (t : tbl) : bytes :=
  match t with TblTop => [] | TblIq => iq_stanza | TblMsg => msg_stanza | TblPres => pres_stanza end.
Definition type_of (t : tbl) (typ : bytes) : bytes := match t with TblTop => [] | _ => typ end.
Definition bare_of (t : tbl) : bool := match t with TblTop => false | _ => true end.

Lemma lookup_is_probe r t typ s l :
  lookup r t typ (s, l) =
  match t with
  | TblTop => probe3 (table_of r t) (stanza_of t) (type_of t typ) s l
  | _ => probe4 (table_of r t) (stanza_of t) (type_of t typ) s l
  end.
Proof.
  destruct t; unfold lookup, lookup_top, lookup_iq, lookup_msg, lookup_pres;
    rewrite ?top_cascade_eq, ?iq_cascade_eq, ?msg_cascade_eq, ?pres_cascade_eq;
    unfold probe3, probe4; cbn [cascade_lookup proj fst snd stanza_of type_of table_of];
    unfold proj; cbn [fst snd]; unfold bytes;
    repeat match goal with |- context [assoc ?k ?t] => destruct (assoc k t); try reflexivity end.
Qed.

Lemma lookup_most_specific r t typ e :
  unique_keys (table_of r t) ->
  match lookup r t typ e with
  | Some h => most_specific (table_of r t) (stanza_of t) (type_of t typ) (bare_of t) e h
  | None => no_match (table_of r t) (stanza_of t) (type_of t typ) (bare_of t) e
  end.
Proof.
  intro U. destruct e as [s l]. rewrite lookup_is_probe.
  destruct t; cbn [bare_of]; first [apply probe3_spec | apply probe4_spec]; exact U.
Qed.

(* the chosen handler is unique: a registry with unique keys has one most specific handler *)
Lemma most_specific_unique t stz typ bare e h1 h2 :
  unique_keys t -> most_specific t stz typ bare e h1 -> most_specific t stz typ bare e h2 -> h1 = h2.
Proof.
  intros U [p1 [E1 [M1 B1]]] [p2 [E2 [M2 B2]]].
  assert (R : rank p1 = rank p2) by (pose proof (B1 _ _ E2 M2); pose proof (B2 _ _ E1 M1); lia).
  assert (P : p1 = p2).
  { destruct e as [s l], p1 as [a1 b1], p2 as [a2 b2].
    destruct M1 as [[A1|A1] [[C1|C1] _]], M2 as [[A2|A2] [[C2|C2] _]]; cbn [fst snd] in *; subst;
      try reflexivity; unfold rank in R; cbn [fst snd] in R; destruct s, l; cbn in R; try lia; reflexivity. }
  subst p2. pose proof (entry_assoc _ _ _ _ _ U E1) as A1. pose proof (entry_assoc _ _ _ _ _ U E2) as A2. congruence.
Qed.

(* ------------------------------------------------------------------ *)
(* 4. Registration                                                      *)
(* ------------------------------------------------------------------ *)

Definition op_tbl_key (op : regop) : tbl * key :=
  match op with
  | RHandle n _ => (TblTop, mkkey [] [] n)
  | RIq typ n _ => (TblIq, mkkey iq_stanza typ n)
  | RMsg typ n _ => (TblMsg, mkkey msg_stanza typ n)
  | RPres typ n _ => (TblPres, mkkey pres_stanza typ n)
  end.

Definition op_h (op : regop) : hval :=
  match op with RHandle _ h | RIq _ _ h | RMsg _ _ h | RPres _ _ h => h end.

(* Handle refuses the stanza names *)
Definition top_ok (op : regop) : Prop :=
  match op with RHandle n _ => in_list (snd n) stanza_locals = false | _ => True end.

Definition reg_unique (r : registry) : Prop := forall t, unique_keys (table_of r t).
Definition nonzero (r : registry) : Prop := forall t k h, In (k, h) (table_of r t) -> h <> 0.

Lemma register_spec t stzc k hv r r' :
  register (t, true, true, stzc) true k hv r = Some r' ->
  exists h, hv = HOk h /\ (stzc && in_list (snd (k_name k)) stanza_locals = false) /\
            assoc k (table_of r t) = None /\ r' = store r t k h.
Proof.
  unfold register. destruct hv as [| |h]; [discriminate|cbn; discriminate|].
  destruct (stzc && in_list (snd (k_name k)) stanza_locals) eqn:E1; [discriminate|].
  destruct (assoc k (table_of r t)) eqn:E2; cbn; [discriminate|].
  intro H. inversion H. exists h. auto.
Qed.

Lemma register_ok t stzc k h r :
  (stzc && in_list (snd (k_name k)) stanza_locals = false) -> assoc k (table_of r t) = None ->
  register (t, true, true, stzc) true k (HOk h) r = Some (store r t k h).
Proof. intros E1 E2. unfold register. rewrite E1, E2. reflexivity. Qed.

Lemma apply_op_spec r op r' :
  apply_op r op = Some r' ->
  exists h, op_h op = HOk h /\ top_ok op /\ assoc (snd (op_tbl_key op)) (table_of r (fst (op_tbl_key op))) = None /\
            r' = store r (fst (op_tbl_key op)) (snd (op_tbl_key op)) h.
Proof.
  destruct reg_flags as (F1 & F2 & F3 & F4). destruct func_guards as (G1 & G2 & G3 & G4).
  destruct op as [n hv|typ n hv|typ n hv|typ n hv]; unfold apply_op, op_parts;
    rewrite ?F1, ?F2, ?F3, ?F4, ?G1, ?G2, ?G3, ?G4; intro H; apply register_spec in H;
    destruct H as (h & Hh & Hs & Ha & Hr); exists h; cbn [op_h op_tbl_key fst snd top_ok]; repeat split; auto.
Qed.

Lemma apply_op_ok r op h :
  op_h op = HOk h -> top_ok op ->
  assoc (snd (op_tbl_key op)) (table_of r (fst (op_tbl_key op))) = None ->
  apply_op r op = Some (store r (fst (op_tbl_key op)) (snd (op_tbl_key op)) h).
Proof.
  destruct reg_flags as (F1 & F2 & F3 & F4). destruct func_guards as (G1 & G2 & G3 & G4).
  destruct op as [n hv|typ n hv|typ n hv|typ n hv]; cbn [op_h op_tbl_key fst snd top_ok]; intros Hh Ht Ha; subst hv;
    unfold apply_op, op_parts; rewrite ?F1, ?F2, ?F3, ?F4, ?G1, ?G2, ?G3, ?G4; apply register_ok; auto.
Qed.

Lemma table_of_store_same r t k h : table_of (store r t k h) t = table_of r t ++ [(k, h)].
Proof. destruct t; reflexivity. Qed.

Lemma table_of_store_other r t t' k h : t <> t' -> table_of (store r t k h) t' = table_of r t'.
Proof. destruct t, t'; intro H; try reflexivity; exfalso; apply H; reflexivity. Qed.

Lemma tbl_eq_dec (a b : tbl) : {a = b} + {a <> b}.
Proof. decide equality. Qed.

Lemma in_store r t k h t' k' h' :
  In (k', h') (table_of (store r t k h) t') <-> In (k', h') (table_of r t') \/ (t' = t /\ k' = k /\ h' = h).
Proof.
  destruct (tbl_eq_dec t t') as [E|E].
  - subst t'. rewrite table_of_store_same, in_app_iff. cbn [In]. split.
    + intros [H|[H|[]]]; [left; exact H|]. inversion H. right. auto.
    + intros [H|(_ & H1 & H2)]; [left; exact H|]. subst. right. left. reflexivity.
  - rewrite table_of_store_other by exact E. split; [auto|]. intros [H|(H & _)]; [exact H|]. subst. exfalso. apply E. reflexivity.
Qed.

Lemma NoDup_snoc {A} (l : list A) (x : A) : NoDup l -> ~ In x l -> NoDup (l ++ [x]).
Proof.
  induction l as [|y l IH]; cbn [app]; intros N H.
  - constructor; [intros []|constructor].
  - inversion N as [|z l' Hy Hl]; subst. constructor.
    + rewrite in_app_iff. cbn [In]. intros [H1|[H1|[]]]; [exact (Hy H1)|]. subst. apply H. left. reflexivity.
    + apply IH; [exact Hl|]. intro H1. apply H. right. exact H1.
Qed.

Lemma unique_keys_snoc t k h : unique_keys t -> assoc k t = None -> unique_keys (t ++ [(k, h)]).
Proof.
  unfold unique_keys. intros U A. rewrite map_app. cbn [map fst]. apply NoDup_snoc; [exact U|].
  intro H. apply in_map_iff in H. destruct H as [[k' h'] [E Hin]]. cbn [fst] in E. subst k'.
  exact (assoc_none_notin _ _ A _ Hin).
Qed.

Lemma store_unique r t k h : reg_unique r -> assoc k (table_of r t) = None -> reg_unique (store r t k h).
Proof.
  intros U A t'. destruct (tbl_eq_dec t t') as [E|E].
  - subst t'. rewrite table_of_store_same. apply unique_keys_snoc; [apply U|exact A].
  - rewrite table_of_store_other by exact E. apply U.
Qed.

Lemma assoc_store_none r t k h t' k' :
  assoc k' (table_of (store r t k h) t') = None -> assoc k' (table_of r t') = None.
Proof.
  intro H. apply assoc_none_iff. intros h' Hin. apply (assoc_none_notin _ _ H h').
  apply in_store. left. exact Hin.
Qed.

(* everything a successful sequence of options guarantees *)
Lemma apply_ops_spec ops : forall r r',
  apply_ops r ops = Some r' ->
  (reg_unique r -> reg_unique r') /\
  NoDup (map op_tbl_key ops) /\
  (forall op, In op ops -> (exists h, op_h op = HOk h) /\ top_ok op /\
                           assoc (snd (op_tbl_key op)) (table_of r (fst (op_tbl_key op))) = None) /\
  (forall t k h, In (k, h) (table_of r' t) <->
                 In (k, h) (table_of r t) \/ exists op, In op ops /\ op_tbl_key op = (t, k) /\ op_h op = HOk h).
Proof.
  induction ops as [|op ops IH]; intros r r' H.
  - inversion H; subst. split; [auto|]. split; [constructor|]. split; [intros op []|].
    intros t k h. split; [auto|]. intros [H1|[op [[] _]]]. exact H1.
  - cbn [apply_ops] in H. destruct (apply_op r op) as [r1|] eqn:E; [|discriminate].
    apply apply_op_spec in E. destruct E as (h & Hh & Ht & Ha & Hr).
    destruct (IH _ _ H) as (IU & IN & IO & II).
    split; [|split; [|split]].
    + intro U. apply IU. subst r1. apply store_unique; assumption.
    + cbn [map]. constructor; [|exact IN].
      intro Hin. apply in_map_iff in Hin. destruct Hin as [op' [Ek Hop']].
      destruct (IO _ Hop') as (_ & _ & A'). rewrite Ek in A'. subst r1.
      rewrite table_of_store_same in A'. rewrite (assoc_app_none _ _ _ Ha) in A'.
      cbn [assoc] in A'. rewrite key_eqb_refl in A'. discriminate.
    + intros op' [Eo|Hin].
      * subst op'. split; [eauto|]. split; assumption.
      * destruct (IO _ Hin) as (H1 & H2 & H3). split; [exact H1|]. split; [exact H2|].
        subst r1. exact (assoc_store_none _ _ _ _ _ _ H3).
    + intros t k0 h0. rewrite II. subst r1. rewrite in_store. split.
      * intros [[H1|(H1 & H2 & H3)]|[op' (H1 & H2 & H3)]].
        -- left. exact H1.
        -- right. exists op. split; [left; reflexivity|]. subst. split; [destruct (op_tbl_key op); reflexivity|exact Hh].
        -- right. exists op'. split; [right; exact H1|]. auto.
      * intros [H1|[op' ([H1|H1] & H2 & H3)]].
        -- left. left. exact H1.
        -- subst op'. left. right. rewrite H2. cbn [fst snd]. rewrite Hh in H3. inversion H3. auto.
        -- right. exists op'. auto.
Qed.

Lemma empty_unique : reg_unique empty_reg.
Proof. intro t. destruct t; constructor. Qed.

(* a successful mux.New: the tables hold exactly the registered patterns, once each *)
Lemma new_mux_spec ops r :
  new_mux ops = Some r ->
  reg_unique r /\ NoDup (map op_tbl_key ops) /\
  (forall op, In op ops -> (exists h, op_h op = HOk h) /\ top_ok op) /\
  (forall t k h, In (k, h) (table_of r t) <-> exists op, In op ops /\ op_tbl_key op = (t, k) /\ op_h op = HOk h).
Proof.
  unfold new_mux. intro H. destruct (apply_ops_spec _ _ _ H) as (A & B & C & D).
  split; [apply A; exact empty_unique|]. split; [exact B|]. split.
  - intros op Hin. destruct (C _ Hin) as (H1 & H2 & _). auto.
  - intros t k h. rewrite D. split.
    + intros [H1|H1]; [destruct t; destruct H1|exact H1].
    + intro H1. right. exact H1.
Qed.

(* and conversely: a sequence without nil handlers, duplicates or top-level
   stanza names is accepted *)
Lemma apply_ops_ok ops : forall r,
  NoDup (map op_tbl_key ops) ->
  (forall op, In op ops -> (exists h, op_h op = HOk h) /\ top_ok op /\
                           assoc (snd (op_tbl_key op)) (table_of r (fst (op_tbl_key op))) = None) ->
  exists r', apply_ops r ops = Some r'.
Proof.
  induction ops as [|op ops IH]; intros r N H.
  - exists r. reflexivity.
  - cbn [apply_ops]. destruct (H op (or_introl eq_refl)) as ([h Hh] & Ht & Ha).
    rewrite (apply_op_ok _ _ _ Hh Ht Ha). cbn [map] in N. inversion N as [|x l Nin Nd]; subst.
    apply IH; [exact Nd|]. intros op' Hin. destruct (H op' (or_intror Hin)) as (H1 & H2 & H3).
    split; [exact H1|]. split; [exact H2|].
    apply assoc_none_iff. intros h' Hin'. apply in_store in Hin'. destruct Hin' as [Hin'|(E1 & E2 & E3)].
    + exact (assoc_none_notin _ _ H3 _ Hin').
    + apply Nin. apply in_map_iff. exists op'. split; [|exact Hin].
      destruct (op_tbl_key op') as [a b], (op_tbl_key op) as [c d]. cbn [fst snd] in *. subst. reflexivity.
Qed.

Lemma new_mux_ok ops :
  NoDup (map op_tbl_key ops) -> (forall op, In op ops -> (exists h, op_h op = HOk h) /\ top_ok op) ->
  exists r, new_mux ops = Some r.
Proof.
  intros N H. apply apply_ops_ok; [exact N|]. intros op Hin. destruct (H op Hin) as (H1 & H2).
  split; [exact H1|]. split; [exact H2|]. destruct (fst (op_tbl_key op)); reflexivity.
Qed.

(* nil handlers, nil funcs, duplicates and top-level stanza names are refused *)
Lemma new_mux_refuses ops :
  (exists op, In op ops /\ (op_h op = HNil \/ op_h op = HNilFunc \/ ~ top_ok op)) \/ ~ NoDup (map op_tbl_key ops) ->
  new_mux ops = None.
Proof.
  intro H. destruct (new_mux ops) as [r|] eqn:E; [|reflexivity]. exfalso.
  destruct (new_mux_spec _ _ E) as (_ & N & O & _).
  destruct H as [[op (Hin & Hbad)]|Hd]; [|exact (Hd N)].
  destruct (O _ Hin) as ([h Hh] & Ht). destruct Hbad as [Hb|[Hb|Hb]]; [congruence|congruence|exact (Hb Ht)].
Qed.

Lemma new_mux_nonzero ops r :
  new_mux ops = Some r -> (forall op, In op ops -> op_h op <> HOk 0) -> nonzero r.
Proof.
  intros H Hz t k h Hin. destruct (new_mux_spec _ _ H) as (_ & _ & _ & D).
  apply D in Hin. destruct Hin as [op (H1 & _ & H3)]. intro E. subst h. exact (Hz _ H1 H3).
Qed.

(* ------------------------------------------------------------------ *)
(* 5. Renaming invariance of the lookups                                *)
(* ------------------------------------------------------------------ *)

Section Renaming.
  Variables fs fl : bytes -> bytes.
  Hypothesis fs_inj : forall a b, fs a = fs b -> a = b.
  Hypothesis fl_inj : forall a b, fl a = fl b -> a = b.
  Hypothesis fs_nil : fs [] = [].
  Hypothesis fl_nil : fl [] = [].

  Definition rename (n : name) : name := (fs (fst n), fl (snd n)).
  Definition rename_key (k : key) : key := mkkey (k_stanza k) (k_type k) (rename (k_name k)).
  Definition rename_table (t : table) : table := map (fun e => (rename_key (fst e), snd e)) t.
  Definition rename_reg (r : registry) : registry :=
    mkreg (rename_table (r_top r)) (rename_table (r_iq r)) (rename_table (r_msg r)) (rename_table (r_pres r)).

  Lemma rename_inj a b : rename a = rename b -> a = b.
  Proof.
    destruct a as [a1 a2], b as [b1 b2]. unfold rename. cbn [fst snd]. intro H. inversion H as [[H1 H2]].
    apply fs_inj in H1. apply fl_inj in H2. subst. reflexivity.
  Qed.

  Lemma rename_key_eqb a b : key_eqb (rename_key a) (rename_key b) = key_eqb a b.
  Proof.
    destruct (key_eqb a b) eqn:E.
    - apply key_eqb_eq in E. subst. apply key_eqb_refl.
    - apply key_eqb_false. apply key_eqb_false in E. intro H. apply E.
      destruct a as [a1 a2 a3], b as [b1 b2 b3]. unfold rename_key in H. cbn [k_stanza k_type k_name] in H.
      inversion H as [[H1 H2 H3]]. f_equal. apply rename_inj. unfold rename. congruence.
  Qed.

  Lemma assoc_rename k t : assoc (rename_key k) (rename_table t) = assoc k t.
  Proof.
    induction t as [|[k' h] t IH]; [reflexivity|].
    cbn [rename_table map assoc fst snd]. rewrite rename_key_eqb. destruct (key_eqb k k'); [reflexivity|exact IH].
  Qed.

  Lemma table_of_rename r t : table_of (rename_reg r) t = rename_table (table_of r t).
  Proof. destruct t; reflexivity. Qed.

  Lemma proj_rename ks kl n : proj ks kl (rename n) = rename (proj ks kl n).
  Proof.
    unfold proj, rename. cbn [fst snd]. destruct ks, kl; cbn [fst snd]; rewrite ?fs_nil, ?fl_nil; reflexivity.
  Qed.

  Lemma cascade_rename r stz typ n c :
    cascade_lookup (rename_reg r) stz typ (rename n) c = cascade_lookup r stz typ n c.
  Proof.
    induction c as [|[[t ks] kl] c IH]; [reflexivity|].
    cbn [cascade_lookup]. rewrite table_of_rename, proj_rename.
    change (mkkey stz typ (rename (proj ks kl n))) with (rename_key (mkkey stz typ (proj ks kl n))).
    rewrite assoc_rename. destruct (assoc _ _); [reflexivity|exact IH].
  Qed.

  Lemma lookup_rename r t typ n : lookup (rename_reg r) t typ (rename n) = lookup r t typ n.
  Proof. destruct t; apply cascade_rename. Qed.
End Renaming.

(* ------------------------------------------------------------------ *)
(* 6. Readers                                                           *)
(* ------------------------------------------------------------------ *)

(* a handler of a mux that is in the middle of no other dispatch just reads *)
Lemma run_reads_no_nest {St} (rdr : St -> rd St) b s :
  run_reads no_nest rdr b s = let '(got, s') := take_n rdr (hb_reads b) s in (got, s', []).
Proof. unfold run_reads, no_nest. destruct (hb_nest b) as [[a j]|]; reflexivity. Qed.

Lemma take_n_u tm k toks : take_n (u_token tm) k toks = (firstn k toks, skipn k toks).
Proof.
  revert toks. induction k as [|k IH]; intro toks; [reflexivity|].
  cbn [take_n]. destruct toks as [|x u]; cbn [u_token].
  - destruct (t_err tm); reflexivity.
  - rewrite IH. reflexivity.
Qed.

(* the content of the element whose start was consumed (d further starts are
   open): everything before its end tag *)
Fixpoint until_close (d : nat) (v : list tok) : list tok :=
  match v with
  | [] => []
  | TStart n :: v' => TStart n :: until_close (S d) v'
  | TEnd :: v' => match d with 0 => [] | S d' => TEnd :: until_close d' v' end
  | t :: v' => t :: until_close d v'
  end.

Lemma take_n_inner tm k : forall d v,
  fst (take_n (iq_reader tm) k (Some d, v)) = firstn k (until_close d v).
Proof.
  induction k as [|k IH]; intros d v; [reflexivity|].
  cbn [take_n]. unfold iq_reader at 1. unfold inner_token.
  destruct v as [|x v]; cbn [u_token until_close].
  - destruct (t_err tm); reflexivity.
  - destruct x as [n| |ws|].
    + specialize (IH (S d) v). destruct (take_n (iq_reader tm) k (Some (S d), v)). cbn [fst] in *. cbn [firstn]. congruence.
    + destruct d as [|d]; [reflexivity|].
      specialize (IH d v). destruct (take_n (iq_reader tm) k (Some d, v)). cbn [fst] in *. cbn [firstn]. congruence.
    + specialize (IH d v). destruct (take_n (iq_reader tm) k (Some d, v)). cbn [fst] in *. cbn [firstn]. congruence.
    + specialize (IH d v). destruct (take_n (iq_reader tm) k (Some d, v)). cbn [fst] in *. cbn [firstn]. congruence.
Qed.

Lemma take_n_inner_done tm k v : fst (take_n (iq_reader tm) k (None, v)) = [].
Proof. destruct k; reflexivity. Qed.

(* leading whitespace-only character data is skipped *)
Fixpoint drop_ws (v : list tok) : list tok :=
  match v with
  | TText true :: v' => drop_ws v'
  | _ => v
  end.

(* TrimLeftSpace stops at the first token that is not white space; white space
   that is the reader's last token and comes with its error yields that error *)
Lemma trim_first_spec tm : forall v fuel,
  length v < fuel ->
  trim_first (iq_reader tm) fuel (Some 0, v) =
  Some (match drop_ws v with
        | [] => if t_err tm then RErr (Some 0, []) else REof (Some 0, [])
        | w => iq_reader tm (Some 0, w)
        end).
Proof.
  induction v as [|x v IH]; intros fuel Hf; (destruct fuel as [|f]; [cbn in Hf; lia|]).
  - cbn [trim_first drop_ws]. unfold iq_reader, inner_token. cbn [u_token]. destruct (t_err tm); reflexivity.
  - destruct x as [n| |ws|]; [| |destruct ws|].
    + cbn [trim_first drop_ws]. unfold iq_reader, inner_token. cbn [u_token]. reflexivity.
    + cbn [trim_first drop_ws]. unfold iq_reader, inner_token. cbn [u_token]. reflexivity.
    + cbn [trim_first drop_ws]. unfold iq_reader at 1. unfold inner_token at 1. cbn [u_token].
      destruct v as [|y v'].
      * cbn [fin_err drop_ws]. destruct (t_with tm).
        -- destruct (t_err tm); reflexivity.
        -- destruct f as [|f]; [cbn in Hf; lia|]. cbn [trim_first]. unfold iq_reader, inner_token. cbn [u_token].
           destruct (t_err tm); reflexivity.
      * cbn [fin_err]. apply IH. cbn [length] in Hf |- *. lia.
    + cbn [trim_first drop_ws]. unfold iq_reader, inner_token. cbn [u_token]. reflexivity.
    + cbn [trim_first drop_ws]. unfold iq_reader, inner_token. cbn [u_token]. reflexivity.
Qed.

(* ------------------------------------------------------------------ *)
(* 7. IQs                                                               *)
(* ------------------------------------------------------------------ *)

(* the default answer: type error, addresses swapped, same id, cancel / service-unavailable *)
Definition service_unavailable (sn : name) (h : hdr) : reply :=
  mkreply (fst sn) (str "error") (h_from h) (h_to h) (h_id h) (h_lang h) (str "cancel") (str "service-unavailable").

Lemma iq_fallback_spec sn h :
  iq_fallback sn h =
  if in_list (h_type h) [str "error"; str "result"] then out_nothing
  else mkout [] [service_unavailable sn h] RetOk.
Proof.
  unfold iq_fallback, service_unavailable. destruct fallback_tables as (A & B & C & D & E).
  rewrite A, B, C, D, E. reflexivity.
Qed.

Definition iq_invoke_spec (r : registry) (sn : name) (h : hdr) (payload : option name) (content : list tok)
  (script : list hbeh) : outcome :=
  match lookup_iq r (h_type h) (match payload with Some n => n | None => ([], []) end) with
  | None => iq_fallback sn h
  | Some 0 => out_panic
  | Some hd =>
      let b := fst (next_beh script) in
      mkout [EvIq hd (h_type h) payload (firstn (hb_reads b) content)] [] (ret_of b)
  end.

Lemma invoke_iq_spec r sn h payload tm st script content :
  (forall k, fst (take_n (iq_reader tm) k st) = firstn k content) ->
  invoke_iq no_nest r sn h payload tm st script = iq_invoke_spec r sn h payload content script.
Proof.
  intro H. unfold invoke_iq, iq_invoke_spec.
  destruct (lookup_iq r (h_type h) _) as [[|hd]|]; try reflexivity.
  destruct (next_beh script) as [b s']. cbn [fst]. rewrite run_reads_no_nest.
  specialize (H (hb_reads b)). destruct (take_n (iq_reader tm) (hb_reads b) st) as [got st']. cbn [fst] in H.
  subst got. reflexivity.
Qed.

Definition iq_empty_spec (r : registry) (sn : name) (h : hdr) (script : list hbeh) : outcome :=
  if bytes_eqb (h_type h) iqtype_result then iq_invoke_spec r sn h None [] script
  else mkout [] (o_replies (iq_fallback sn h)) RetErr.

(* what the router answers when no handler can be chosen: the fallback's reply
   (if any) and an error *)
Definition iq_refused (sn : name) (h : hdr) : outcome := mkout [] (o_replies (iq_fallback sn h)) RetErr.

(* fin_err tm rest: the error the reader returns together with the first
   payload token (only if that is its last token and the reader is of the kind
   that returns its error with the last token) *)
Definition iq_spec (r : registry) (sn : name) (h : hdr) (toks : list tok) (tm : term) (script : list hbeh)
  : outcome :=
  match drop_ws toks with
  | [] => if t_err tm then out_err else iq_empty_spec r sn h script
  | TEnd :: _ => iq_empty_spec r sn h script
  | x :: rest =>
      match fin_err tm rest with
      | Some true => out_err
      | Some false =>
          (* truncated right after this token: taken for an empty IQ unless it is a result *)
          match x with
          | TStart n =>
              if bytes_eqb (h_type h) iqtype_result then iq_invoke_spec r sn h (Some n) [] script
              else iq_refused sn h
          | _ => iq_refused sn h
          end
      | None =>
          match x with
          | TStart n => iq_invoke_spec r sn h (Some n) (until_close 1 rest) script
          | _ => iq_refused sn h
          end
      end
  end.

Lemma iq_router_spec r sn attrs toks tm script h :
  new_iq sn attrs = Some h ->
  iq_router no_nest r sn attrs toks tm script = iq_spec r sn h toks tm script.
Proof.
  intro Hh. unfold iq_router, iq_spec. rewrite Hh.
  rewrite trim_first_spec by lia.
  destruct (drop_ws toks) as [|x rest] eqn:E.
  - destruct (t_err tm); [reflexivity|].
    unfold iq_empty_spec. destruct (bytes_eqb (h_type h) iqtype_result); [|reflexivity].
    apply invoke_iq_spec. intro k. rewrite take_n_inner. destruct k; reflexivity.
  - unfold iq_reader at 1. unfold inner_token. cbn [u_token].
    destruct x as [n| |ws|].
    + destruct (fin_err tm rest) as [[|]|] eqn:EF.
      * reflexivity.
      * destruct (bytes_eqb (h_type h) iqtype_result); [|reflexivity].
        apply invoke_iq_spec. intro k. rewrite take_n_inner.
        destruct rest; [destruct k; reflexivity|discriminate].
      * apply invoke_iq_spec. intro k. apply take_n_inner.
    + unfold iq_empty_spec. destruct (bytes_eqb (h_type h) iqtype_result); [|reflexivity].
      apply invoke_iq_spec. intro k. rewrite take_n_inner_done. destruct k; reflexivity.
    + destruct (fin_err tm rest) as [[|]|]; try reflexivity.
      destruct (bytes_eqb (h_type h) iqtype_result); reflexivity.
    + destruct (fin_err tm rest) as [[|]|]; try reflexivity.
      destruct (bytes_eqb (h_type h) iqtype_result); reflexivity.
Qed.

(* ------------------------------------------------------------------ *)
(* 8. forChildren: the replay buffer                                    *)
(* ------------------------------------------------------------------ *)

(* rest of the token list after the end tag that closes the current element
   (d further elements open); None if it is never closed *)
Fixpoint skip_elem (d : nat) (v : list tok) : option (list tok) :=
  match v with
  | [] => None
  | TStart _ :: v' => skip_elem (S d) v'
  | TEnd :: v' => match d with 0 => Some v' | S d' => skip_elem d' v' end
  | _ :: v' => skip_elem d v'
  end.

(* names of the element children at depth 0, in order, up to the closing end tag *)
Fixpoint child_names (d : nat) (v : list tok) : list name :=
  match v with
  | [] => []
  | TStart n :: v' => (match d with 0 => [n] | _ => [] end) ++ child_names (S d) v'
  | TEnd :: v' => match d with 0 => [] | S d' => child_names d' v' end
  | _ :: v' => child_names d v'
  end.

Lemma skip_elem_len : forall v d r, skip_elem d v = Some r -> length r < length v.
Proof.
  induction v as [|x v IH]; intros d r H; [discriminate|].
  cbn [skip_elem] in H. cbn [length]. destruct x as [n| |ws|].
  - apply IH in H. lia.
  - destruct d as [|d]; [inversion H; subst; lia|]. apply IH in H. lia.
  - apply IH in H. lia.
  - apply IH in H. lia.
Qed.

Lemma skip_elem_S : forall v d r,
  skip_elem (S d) v = Some r -> exists v2, skip_elem d v = Some v2 /\ skip_elem 0 v2 = Some r.
Proof.
  induction v as [|x v IH]; intros d r H; [discriminate|].
  cbn [skip_elem] in *. destruct x as [n| |ws|].
  - apply IH in H. exact H.
  - destruct d as [|d].
    + exists v. split; [reflexivity|exact H].
    + apply IH in H. exact H.
  - apply IH in H. exact H.
  - apply IH in H. exact H.
Qed.

Lemma child_names_skip : forall v d v2,
  skip_elem d v = Some v2 -> child_names (S d) v = child_names 0 v2.
Proof.
  induction v as [|x v IH]; intros d v2 H; [discriminate|].
  cbn [skip_elem child_names] in *. destruct x as [n| |ws|].
  - cbn [app]. apply IH. exact H.
  - destruct d as [|d]; [inversion H; reflexivity|]. apply IH. exact H.
  - apply IH. exact H.
  - apply IH. exact H.
Qed.

Section ForChildren.
  Variable tm : term.
  Variable all : list tok.          (* the stanza's start token followed by everything after it *)

  (* buffer invariant: buf is a prefix of the stanza's tokens, the underlying
     reader sits right behind it, and the reader's own position is inside buf *)
  Definition Inv (b : breader) (v : list tok) : Prop :=
    b_buf b ++ b_und b = all /\ b_off b <= length (b_buf b) /\ skipn (b_off b) all = v.

  Lemma skipn_cons_nth {A} (l : list A) n x v d : skipn n l = x :: v -> nth n l d = x /\ skipn (S n) l = v.
  Proof.
    revert n. induction l as [|y l IH]; intros n H.
    - destruct n; discriminate.
    - destruct n as [|n].
      + cbn in H. inversion H. subst. split; reflexivity.
      + cbn [skipn] in H. apply IH in H. exact H.
  Qed.

  (* the next token of the stanza is handed out - replayed from the buffer, or
     fetched from the underlying reader and appended; only the reader's very last
     token can come with an error *)
  Lemma b_token_cons b x v :
    Inv b (x :: v) ->
    exists b' e, b_token tm b = RTok x e b' /\ Inv b' v /\ length (b_buf b) <= length (b_buf b') /\
               b_buf b' ++ b_und b' = all /\ (v <> [] -> e = None).
  Proof.
    intros (Ha & Ho & Hv). unfold b_token.
    destruct (b_off b <? length (b_buf b)) eqn:E.
    - apply Nat.ltb_lt in E. destruct (skipn_cons_nth _ _ _ _ TOther Hv) as [Hn Hs].
      rewrite <- Ha in Hn. rewrite app_nth1 in Hn by exact E. rewrite Hn.
      eexists. exists None. split; [reflexivity|]. unfold Inv. cbn [b_buf b_off b_und]. repeat split; auto; try lia.
    - apply Nat.ltb_ge in E. assert (Eo : b_off b = length (b_buf b)) by lia.
      rewrite Eo, <- Ha, skipn_app, skipn_all, Nat.sub_diag in Hv. cbn [app skipn] in Hv. rewrite Hv.
      cbn [u_token]. rewrite bufreader_buffers. cbn [orb].
      eexists. exists (fin_err tm v). split; [reflexivity|]. unfold Inv. cbn [b_buf b_off b_und]. rewrite app_length. cbn [length].
      assert (Ha' : (b_buf b ++ [x]) ++ v = all) by (rewrite <- app_assoc; cbn [app]; rewrite <- Hv; exact Ha).
      repeat split; try lia; auto.
      + rewrite <- Ha', Eo. replace (S (length (b_buf b))) with (length (b_buf b ++ [x])) by (rewrite app_length; cbn; lia).
        rewrite skipn_app, skipn_all, Nat.sub_diag. reflexivity.
      + intro Hne. destruct v; [contradiction|reflexivity].
  Qed.

  Lemma b_token_nil b : Inv b [] -> b_token tm b = if t_err tm then RErr b else REof b.
  Proof.
    intros (Ha & Ho & Hv). unfold b_token.
    assert (L : length all <= b_off b).
    { destruct (Nat.le_gt_cases (length all) (b_off b)) as [H|H]; [exact H|].
      exfalso. assert (length (skipn (b_off b) all) = 0) by (rewrite Hv; reflexivity).
      rewrite skipn_length in H0. lia. }
    assert (L2 : length all = length (b_buf b) + length (b_und b)) by (rewrite <- Ha; apply app_length).
    assert (b_off b <? length (b_buf b) = false) as -> by (apply Nat.ltb_ge; lia).
    destruct (b_und b); [cbn [u_token]; destruct (t_err tm); reflexivity|cbn [length] in L2; lia].
  Qed.

  (* a handler that reads k tokens from a reader satisfying the invariant gets
     the next k tokens of the stanza, whichever way the reader ends *)
  Lemma take_n_b k : forall b v,
    Inv b v ->
    exists b', take_n (b_token tm) k b = (firstn k v, b') /\ Inv b' (skipn k v) /\
               length (b_buf b) <= length (b_buf b').
  Proof.
    induction k as [|k IH]; intros b v HI.
    - exists b. cbn. auto.
    - cbn [take_n]. destruct v as [|x v].
      + rewrite (b_token_nil _ HI). exists b. destruct (t_err tm); cbn; auto.
      + destruct (b_token_cons _ _ _ HI) as (b1 & e & E1 & I1 & L1 & _). rewrite E1.
        destruct (IH _ _ I1) as (b2 & E2 & I2 & L2). rewrite E2. exists b2. cbn [firstn skipn].
        repeat split; auto; try apply I2. lia.
  Qed.

  (* Inner(r) between children (count 0) and inside a child (count > 0) *)
  Lemma ir_token_nil c b :
    Inv b [] -> ir_token tm (Some c, b) = if t_err tm then RErr (Some c, b) else REof (Some c, b).
  Proof. intro HI. unfold ir_token, inner_token. rewrite (b_token_nil _ HI). destruct (t_err tm); reflexivity. Qed.

  Lemma ir_token_cons c b x v :
    Inv b (x :: v) ->
    exists b' e, Inv b' v /\ length (b_buf b) <= length (b_buf b') /\ (v <> [] -> e = None) /\
      ir_token tm (Some c, b) =
      match x with
      | TStart n => RTok (TStart n) e (Some (S c), b')
      | TEnd => match c with 0 => REof (None, b') | S m => RTok TEnd e (Some m, b') end
      | t => RTok t e (Some c, b')
      end.
  Proof.
    intro HI. destruct (b_token_cons _ _ _ HI) as (b' & e & E & I' & L & _ & N). exists b', e.
    split; [exact I'|]. split; [exact L|]. split; [exact N|].
    unfold ir_token, inner_token. rewrite E. destruct x; reflexivity.
  Qed.

  Lemma skip_elem_nonnil d v v2 : skip_elem d v = Some v2 -> v <> [].
  Proof. intros H E. subst v. discriminate. Qed.

  (* draining a child whose end is ahead - and is not the reader's last token -
     leaves the iterator right behind it *)
  Lemma drain_closed : forall v d b fuel v2,
    Inv b v -> skip_elem d v = Some v2 -> v2 <> [] -> length v < fuel ->
    exists b', drain_elem tm fuel (Some d, (Some (S d), b)) = Some (false, (Some 0, b')) /\ Inv b' v2 /\
               length (b_buf b) <= length (b_buf b').
  Proof.
    induction v as [|x v IH]; intros d b fuel v2 HI Hs Hne Hf; [discriminate|].
    destruct fuel as [|f]; [lia|]. cbn [length] in Hf.
    destruct (ir_token_cons (S d) _ _ _ HI) as (b1 & e & I1 & L1 & N1 & E1).
    cbn [drain_elem]. unfold inner_token at 1. rewrite E1. cbn [skip_elem] in Hs.
    assert (Ee : e = None).
    { apply N1. destruct x as [n| |ws|]; try exact (skip_elem_nonnil _ _ _ Hs).
      destruct d as [|d]; [inversion Hs; subst; exact Hne|exact (skip_elem_nonnil _ _ _ Hs)]. }
    subst e.
    destruct x as [n| |ws|].
    - destruct (IH (S d) b1 f v2 I1 Hs Hne ltac:(lia)) as (b2 & E2 & I2 & L2).
      rewrite E2. exists b2. repeat split; auto; try apply I2. lia.
    - destruct d as [|d].
      + inversion Hs; subst v2. destruct f as [|f]; [lia|]. cbn [drain_elem]. unfold inner_token at 1.
        exists b1. repeat split; auto; apply I1.
      + destruct (IH d b1 f v2 I1 Hs Hne ltac:(lia)) as (b2 & E2 & I2 & L2).
        rewrite E2. exists b2. repeat split; auto; try apply I2. lia.
    - destruct (IH d b1 f v2 I1 Hs Hne ltac:(lia)) as (b2 & E2 & I2 & L2).
      rewrite E2. exists b2. repeat split; auto; try apply I2. lia.
    - destruct (IH d b1 f v2 I1 Hs Hne ltac:(lia)) as (b2 & E2 & I2 & L2).
      rewrite E2. exists b2. repeat split; auto; try apply I2. lia.
  Qed.
End ForChildren.

(* the invocations forChildren has to make: for each element child in order the
   handler its name selects (none if no pattern matches), each given the stanza
   from its start token on; script entries are consumed by invoked handlers only *)
Fixpoint spec_events (r : registry) (k : skind) (typ : bytes) (all : list tok) (names : list name)
  (script : list hbeh) : list event * bool :=
  match names with
  | [] => ([], false)
  | n :: ns =>
      match lookup_child r k typ n with
      | None => spec_events r k typ all ns script
      | Some h =>
          let '(b, s') := next_beh script in
          let '(evs, f) := spec_events r k typ all ns s' in
          (child_event k h typ (firstn (hb_reads b) all) :: evs, hb_fail b || f)
      end
  end.

Section Loop.
  Variable tm : term.
  Variable all : list tok.
  Variable r : registry.
  Variable k : skind.
  Variable typ : bytes.
  Hypothesis nz : forall n h, lookup_child r k typ n = Some h -> h <> 0.

  (* where the iterator stands: v is what it will read next at child level.
     Either it is between children, or it has just returned a child's start
     element and will first drain that child (v1 is the child's content on). *)
  Inductive at_view (fuel : nat) (it : iter) (v : list tok) : Prop :=
  | AtTop : it_cnt it = Some 0 -> (it_cur it = CNone \/ it_cur it = CTok) -> Inv all (it_b it) v ->
            length v < fuel -> at_view fuel it v
  | AtChild v1 : it_cnt it = Some 1 -> it_cur it = CElem (Some 0) -> Inv all (it_b it) v1 ->
            skip_elem 0 v1 = Some v -> length v1 < fuel -> at_view fuel it v.

  Lemma at_view_len fuel it v : at_view fuel it v -> length v < fuel.
  Proof.
    intros [H1 H2 H3 H4|v1 H1 H2 H3 H4 H5]; [exact H4|]. apply skip_elem_len in H4. lia.
  Qed.

  Lemma iter_next_spec fuel it v rest :
    at_view fuel it v -> skip_elem 0 v = Some rest ->
    match v with
    | [] => True
    | TStart n :: v1 =>
        exists b', iter_next tm fuel it = NItem (Some n) (mkiter (Some 1) (CElem (Some 0)) b') /\ Inv all b' v1
    | TEnd :: rest => exists it', iter_next tm fuel it = NStop false it' /\ Inv all (it_b it') rest
    | _ :: v1 => exists b', iter_next tm fuel it = NItem None (mkiter (Some 0) CTok b') /\ Inv all b' v1
    end.
  Proof.
    intros H HS. destruct it as [cnt cu b].
    pose proof (skip_elem_nonnil _ _ _ HS) as Hv.
    assert (D : exists b1, Inv all b1 v /\
                (match cu with
                 | CElem c => drain_elem tm fuel (c, (cnt, b))
                 | _ => Some (false, (cnt, b))
                 end) = Some (false, (Some 0, b1))).
    { destruct H as [H1 H2 H3 H4|v1 H1 H2 H3 H4 H5]; cbn [it_cnt it_cur it_b] in *.
      - exists b. split; [exact H3|]. subst cnt. destruct H2 as [H2|H2]; subst cu; reflexivity.
      - subst cnt cu. destruct (drain_closed tm all v1 0 b fuel v H3 H4 Hv H5) as (b1 & E1 & I1 & _).
        exists b1. split; [exact I1|exact E1]. }
    destruct D as (b1 & I1 & E1). unfold iter_next. cbn [it_cur it_cnt it_b]. rewrite E1.
    destruct v as [|x v1]; [exact I|].
    destruct (ir_token_cons tm all 0 _ _ _ I1) as (b2 & e & I2 & _ & N2 & E2). rewrite E2.
    cbn [skip_elem] in HS.
    destruct x as [n| |ws|].
    - rewrite (N2 (skip_elem_nonnil _ _ _ HS)). exists b2. split; [reflexivity|exact I2].
    - eexists. split; [reflexivity|]. cbn [it_b]. exact I2.
    - rewrite (N2 (skip_elem_nonnil _ _ _ HS)). exists b2. split; [reflexivity|exact I2].
    - rewrite (N2 (skip_elem_nonnil _ _ _ HS)). exists b2. split; [reflexivity|exact I2].
  Qed.

  Lemma fc_loop_spec : forall fuel it v rest script failed,
    at_view (pred fuel) it v -> skip_elem 0 v = Some rest ->
    exists bfin,
      fc_loop no_nest tm r k typ fuel it script failed =
      (let '(evs, f) := spec_events r k typ all (child_names 0 v) script in LDone evs bfin false (failed || f)) /\
      Inv all bfin rest.
  Proof.
    induction fuel as [|f IH]; intros it v rest script failed HA HS.
    { apply at_view_len in HA. cbn in HA. lia. }
    cbn [pred] in HA. cbn [fc_loop]. pose proof (iter_next_spec _ _ _ _ HA HS) as HN.
    pose proof (at_view_len _ _ _ HA) as HL.
    destruct v as [|x v1]; [discriminate|]. cbn [skip_elem child_names] in *. cbn [length] in HL.
    destruct x as [n| |ws|].
    - (* an element child *)
      destruct HN as (b' & EN & I'). rewrite EN.
      destruct (skip_elem_S _ _ _ HS) as (v2 & HS1 & HS2).
      rewrite (child_names_skip _ _ _ HS1). cbn [app spec_events].
      assert (HA' : forall b'', Inv all b'' v1 -> at_view (pred f) (mkiter (Some 1) (CElem (Some 0)) b'') v2).
      { intros b'' I''. apply (AtChild _ _ _ v1); cbn [it_cnt it_cur it_b]; auto. destruct f; cbn [pred]; lia. }
      destruct (lookup_child r k typ n) as [h|] eqn:EL.
      + pose proof (nz _ _ EL) as Hnz. destruct h as [|h]; [congruence|].
        destruct (next_beh script) as [bh script'].
        cbn [it_b it_cnt it_cur].
        assert (I0 : Inv all (mkbr (b_buf b') 0 (b_und b')) all).
        { destruct I' as (A1 & A2 & A3). unfold Inv. cbn [b_buf b_off b_und]. repeat split; auto. lia. }
        destruct (take_n_b tm all (hb_reads bh) _ _ I0) as (br & ET & IT & LT). rewrite run_reads_no_nest, ET.
        cbn [b_buf fold_right] in LT |- *.
        assert (I'' : Inv all (mkbr (b_buf br) (b_off b') (b_und br)) v1).
        { destruct I' as (A1 & A2 & A3). destruct IT as (B1 & _ & _). unfold Inv. cbn [b_buf b_off b_und].
          repeat split; auto. lia. }
        destruct (IH _ _ _ script' (failed || hb_fail bh) (HA' _ I'') HS2) as (bfin & EF & IF).
        rewrite EF. exists bfin. split; [|exact IF].
        destruct (spec_events r k typ all (child_names 0 v2) script') as [evs f']. cbn [l_cons].
        rewrite orb_assoc. reflexivity.
      + destruct (IH _ _ _ script failed (HA' _ I') HS2) as (bfin & EF & IF).
        exists bfin. split; [exact EF|exact IF].
    - (* the stanza's end tag *)
      destruct HN as (it' & EN & I'). rewrite EN. inversion HS; subst rest.
      exists (it_b it'). split; [|exact I']. cbn [spec_events]. rewrite orb_false_r. reflexivity.
    - (* character data between children *)
      destruct HN as (b' & EN & I'). rewrite EN.
      apply IH; [|exact HS]. apply AtTop; cbn [it_cnt it_cur it_b]; auto. destruct f; cbn [pred]; lia.
    - destruct HN as (b' & EN & I'). rewrite EN.
      apply IH; [|exact HS]. apply AtTop; cbn [it_cnt it_cur it_b]; auto. destruct f; cbn [pred]; lia.
  Qed.
End Loop.

Definition children_spec (r : registry) (k : skind) (sn : name) (typ : bytes) (toks : list tok)
  (script : list hbeh) : outcome :=
  let all := TStart sn :: toks in
  match toks with
  | TEnd :: _ =>
      (* empty stanza: the type wildcard, offered the whole stanza *)
      match lookup_child r k typ ([], []) with
      | None => out_nothing
      | Some h =>
          let b := fst (next_beh script) in
          mkout [child_event k h typ (firstn (hb_reads b) all)] [] (ret_of b)
      end
  | _ =>
      let '(evs, f) := spec_events r k typ all (child_names 0 toks) script in
      mkout evs [] (if f then RetErr else RetOk)
  end.

Lemma for_children_spec r k sn typ toks tm script rest :
  (forall n h, lookup_child r k typ n = Some h -> h <> 0) ->
  skip_elem 0 toks = Some rest ->
  for_children no_nest r k sn typ toks tm script = children_spec r k sn typ toks script.
Proof.
  intros nz HS.
  assert (I0 : Inv (TStart sn :: toks) (mkbr [TStart sn] 1 toks) toks).
  { unfold Inv. cbn [b_buf b_off b_und length app skipn]. auto. }
  destruct toks as [|x toks']; [discriminate|].
  assert (GEN : x <> TEnd ->
    for_children no_nest r k sn typ (x :: toks') tm script =
    (let '(evs, f) := spec_events r k typ (TStart sn :: x :: toks') (child_names 0 (x :: toks')) script in
     mkout evs [] (if f then RetErr else RetOk))).
  { intro Hx. unfold for_children.
    assert (HA : at_view (TStart sn :: x :: toks') (pred (length (x :: toks') + 3))
                   (mkiter (Some 0) CNone (mkbr [TStart sn] 1 (x :: toks'))) (x :: toks')).
    { apply AtTop; cbn [it_cnt it_cur it_b]; auto. cbn [length]. lia. }
    destruct (fc_loop_spec tm _ r k typ nz _ _ _ _ script false HA HS) as (bfin & EF & IF).
    rewrite EF. destruct (spec_events r k typ (TStart sn :: x :: toks') (child_names 0 (x :: toks')) script) as [evs f].
    cbn [orb]. destruct f; [reflexivity|].
    assert (L : length rest + 2 <= length (x :: toks')).
    { cbn [length]. destruct x as [n| |ws|]; cbn [skip_elem] in HS; try congruence;
        apply skip_elem_len in HS; lia. }
    destruct IF as (A1 & A2 & A3).
    assert (L2 : length rest = length (TStart sn :: x :: toks') - b_off bfin) by (rewrite <- A3; apply skipn_length).
    cbn [length] in L, L2.
    assert (length (b_buf bfin) =? 2 = false) as -> by (apply Nat.eqb_neq; lia).
    reflexivity. }
  unfold children_spec.
  destruct x as [n| |ws|]; try (apply GEN; discriminate).
  (* the empty stanza *)
  clear GEN. unfold for_children. rewrite wildcard_name.
 cbn [length]. replace (S (length toks') + 3) with (S (S (length toks' + 2))) by lia.
  assert (Hbt : b_token tm (mkbr [TStart sn] 1 (TEnd :: toks')) =
                RTok TEnd (fin_err tm toks') (mkbr [TStart sn; TEnd] 2 toks')).
  { unfold b_token. cbn [b_off b_buf b_und length Nat.ltb Nat.leb u_token]. rewrite bufreader_buffers. reflexivity. }
  cbn [fc_loop]. unfold iter_next. cbn [it_cur it_cnt it_b]. unfold ir_token, inner_token. rewrite Hbt.
  cbn [it_b b_buf length Nat.eqb app skipn own_count filter].
  destruct (lookup_child r k typ ([], [])) as [h|] eqn:EL; [|reflexivity].
  pose proof (nz _ _ EL) as Hnz. destruct h as [|h]; [congruence|].
  destruct (next_beh script) as [bh s']. cbn [fst b_und].
  assert (I1 : Inv (TStart sn :: TEnd :: toks') (mkbr [TStart sn; TEnd] 0 toks') (TStart sn :: TEnd :: toks')).
  { unfold Inv. cbn [b_buf b_off b_und length app skipn]. repeat split; auto; lia. }
  destruct (take_n_b tm _ (hb_reads bh) _ _ I1) as (br & ET & _). rewrite run_reads_no_nest, ET. reflexivity.
Qed.

(* ------------------------------------------------------------------ *)
(* 9. HandleXMPP                                                        *)
(* ------------------------------------------------------------------ *)

Lemma handle_top r ns sn attrs toks tm script h :
  lookup_top r sn = Some h -> h <> 0 ->
  handle r ns sn attrs toks tm script =
  let b := fst (next_beh script) in mkout [EvTop h sn (firstn (hb_reads b) toks)] [] (ret_of b).
Proof.
  intros E Hz. unfold handle, handle_gen. rewrite E. unfold run_top. destruct h as [|h]; [congruence|].
  destruct (next_beh script) as [b s']. rewrite run_reads_no_nest, take_n_u. reflexivity.
Qed.

Lemma handle_not_stanza r ns sn attrs toks tm script :
  lookup_top r sn = None -> stanza_is sn ns = false -> handle r ns sn attrs toks tm script = out_nothing.
Proof. intros E1 E2. unfold handle, handle_gen. rewrite E1, E2. reflexivity. Qed.

Lemma handle_iq r ns sn attrs toks tm script :
  lookup_top r sn = None -> stanza_is sn ns = true -> snd sn = str "iq" ->
  handle r ns sn attrs toks tm script = iq_router no_nest r sn attrs toks tm script.
Proof. intros E1 E2 E3. unfold handle, handle_gen. rewrite E1, E2, E3. reflexivity. Qed.

Lemma handle_message r ns sn attrs toks tm script :
  lookup_top r sn = None -> stanza_is sn ns = true -> snd sn = str "message" ->
  handle r ns sn attrs toks tm script = msg_router no_nest r sn attrs toks tm script.
Proof. intros E1 E2 E3. unfold handle, handle_gen. rewrite E1, E2, E3. reflexivity. Qed.

Lemma handle_presence r ns sn attrs toks tm script :
  lookup_top r sn = None -> stanza_is sn ns = true -> snd sn = str "presence" ->
  handle r ns sn attrs toks tm script = pres_router no_nest r sn attrs toks tm script.
Proof. intros E1 E2 E3. unfold handle, handle_gen. rewrite E1, E2, E3. reflexivity. Qed.

(* a stanza is one of the three names, in the mux's namespace (any if it has none) *)
Lemma stanza_is_spec sn ns :
  stanza_is sn ns = true <->
  (snd sn = str "iq" \/ snd sn = str "message" \/ snd sn = str "presence") /\ (ns = [] \/ fst sn = ns).
Proof.
  unfold stanza_is. rewrite stanza_locals_eq. unfold in_list. cbn [existsb].
  rewrite andb_true_iff, !orb_true_iff, !bytes_eqb_eq. unfold is_nil. split.
  - intros [[H|[H|[H|H]]] H2]; try discriminate; (split; [auto|]); (destruct ns; [left; reflexivity|]);
      destruct H2 as [H2|H2]; try discriminate; right; exact H2.
  - intros [H1 [H2|H2]]; (split; [destruct H1 as [H|[H|H]]; auto|]); [subst; left; reflexivity|right; exact H2].
Qed.

(* ---- registered patterns, in terms of the options given to mux.New ---- *)

Definition registered (ops : list regop) (t : tbl) (typ : bytes) (p : name) (h : hid) : Prop :=
  match t with
  | TblTop => In (RHandle p (HOk h)) ops
  | TblIq => In (RIq typ p (HOk h)) ops
  | TblMsg => In (RMsg typ p (HOk h)) ops
  | TblPres => In (RPres typ p (HOk h)) ops
  end.

Lemma entry_registered ops r t typ p h :
  new_mux ops = Some r ->
  (entry (table_of r t) (stanza_of t) (type_of t typ) p h <-> registered ops t typ p h).
Proof.
  intro H. destruct (new_mux_spec _ _ H) as (_ & _ & _ & D). unfold entry. rewrite D. split.
  - intros [op (Hin & Hk & Hh)].
    destruct t; destruct op as [n hv|ty n hv|ty n hv|ty n hv]; cbn [op_tbl_key op_h stanza_of type_of] in *;
      inversion Hk; subst; exact Hin.
  - intro Hr. destruct t; cbn [registered] in Hr; eexists; (split; [exact Hr|]); split; reflexivity.
Qed.

Lemma lookup_registered ops r t typ e :
  new_mux ops = Some r ->
  match lookup r t typ e with
  | Some h =>
      exists p, registered ops t typ p h /\ matches (bare_of t) p e /\
                forall p' h', registered ops t typ p' h' -> matches (bare_of t) p' e -> rank p' <= rank p
  | None => forall p h, registered ops t typ p h -> ~ matches (bare_of t) p e
  end.
Proof.
  intro H. destruct (new_mux_spec _ _ H) as (U & _).
  pose proof (lookup_most_specific r t typ e (U t)) as L.
  destruct (lookup r t typ e) as [h|].
  - destruct L as (p & E & M & B). exists p. split; [apply (entry_registered _ _ _ _ _ _ H); exact E|].
    split; [exact M|]. intros p' h' R' M'. apply (B p' h'); [apply (entry_registered _ _ _ _ _ _ H); exact R'|exact M'].
  - intros p h R M. apply (L p h); [apply (entry_registered _ _ _ _ _ _ H); exact R|exact M].
Qed.

(* messages and presences never make the mux write anything *)
Lemma for_children_no_replies r k sn typ toks tm script : o_replies (for_children no_nest r k sn typ toks tm script) = [].
Proof.
  unfold for_children. destruct (fc_loop _ _ _ _ _ _ _ _) as [|evs|evs b ie f]; try reflexivity.
  destruct ie; [reflexivity|]. destruct f; [reflexivity|]. destruct (length (b_buf b) =? 2); [|reflexivity].
  destruct (lookup_child r k typ _) as [[|h]|]; try reflexivity.
  destruct (next_beh _) as [bh s']. destruct (run_reads _ _ _ _) as [[got br] ne]. reflexivity.
Qed.

Lemma spec_events_none r k typ all names script :
  (forall n, In n names -> lookup_child r k typ n = None) -> spec_events r k typ all names script = ([], false).
Proof.
  induction names as [|n ns IH]; intro H; [reflexivity|].
  cbn [spec_events]. rewrite (H n (or_introl eq_refl)). apply IH. intros m Hm. apply H. right. exact Hm.
Qed.

(* every invocation made for a child is offered a prefix of the whole stanza,
   starting at its start element, as long as the handler asked for *)
Lemma spec_events_prefix r k typ all names : forall script e,
  In e (fst (spec_events r k typ all names script)) ->
  exists h n nm, e = child_event k h typ (firstn n all) /\ In nm names /\ lookup_child r k typ nm = Some h.
Proof.
  induction names as [|nm ns IH]; intros script e H; [destruct H|].
  cbn [spec_events] in H. destruct (lookup_child r k typ nm) as [h|] eqn:EL.
  - destruct (next_beh script) as [b s']. destruct (spec_events r k typ all ns s') as [evs f] eqn:ES.
    cbn [fst] in H. destruct H as [H|H].
    + exists h, (hb_reads b), nm. split; [symmetry; exact H|]. split; [left; reflexivity|exact EL].
    + assert (H' : In e (fst (spec_events r k typ all ns s'))) by (rewrite ES; exact H).
      destruct (IH _ _ H') as (h' & n' & nm' & A & B & C). exists h', n', nm'. split; [exact A|]. split; [right; exact B|exact C].
  - destruct (IH _ _ H) as (h' & n' & nm' & A & B & C). exists h', n', nm'. split; [exact A|]. split; [right; exact B|exact C].
Qed.

(* the handlers run are exactly those the children select, in document order *)
Fixpoint chosen (r : registry) (k : skind) (typ : bytes) (names : list name) : list hid :=
  match names with
  | [] => []
  | n :: ns => match lookup_child r k typ n with Some h => h :: chosen r k typ ns | None => chosen r k typ ns end
  end.

Definition event_hid (e : event) : hid :=
  match e with EvTop h _ _ | EvIq h _ _ _ | EvMsg h _ _ | EvPres h _ _ => h | EvNested _ _ _ _ => 0 end.

Lemma spec_events_chosen r k typ all names : forall script,
  map event_hid (fst (spec_events r k typ all names script)) = chosen r k typ names.
Proof.
  induction names as [|n ns IH]; intro script; [reflexivity|].
  cbn [spec_events chosen]. destruct (lookup_child r k typ n) as [h|]; [|apply IH].
  destruct (next_beh script) as [b s']. specialize (IH s'). destruct (spec_events r k typ all ns s') as [evs f].
  cbn [fst map] in *. rewrite IH. destruct k; reflexivity.
Qed.

(* ------------------------------------------------------------------ *)
(* 10. The statements used by Properties.v                              *)
(* ------------------------------------------------------------------ *)

Lemma cascade_lookup_in r stz typ n c h :
  cascade_lookup r stz typ n c = Some h -> exists t k, In (k, h) (table_of r t).
Proof.
  induction c as [|[[t ks] kl] c IH]; cbn [cascade_lookup]; [discriminate|].
  destruct (assoc _ (table_of r t)) as [h'|] eqn:E.
  - intro H. inversion H; subst. exists t. eexists. apply assoc_some_in. exact E.
  - exact IH.
Qed.

Lemma lookup_nonzero r t typ n h : nonzero r -> lookup r t typ n = Some h -> h <> 0.
Proof.
  intros NZ H. assert (exists t' k, In (k, h) (table_of r t')) as (t' & k & Hin).
  { destruct t; unfold lookup, lookup_top, lookup_iq, lookup_msg, lookup_pres in H; eapply cascade_lookup_in; exact H. }
  exact (NZ _ _ _ Hin).
Qed.

Lemma lookup_child_nonzero r k typ n h : nonzero r -> lookup_child r k typ n = Some h -> h <> 0.
Proof.
  intros NZ H. destruct k; cbn [lookup_child] in H.
  - exact (lookup_nonzero r TblMsg typ n h NZ H).
  - exact (lookup_nonzero r TblPres typ n h NZ H).
Qed.

(* no option registers the reserved id 0 *)
Definition valid_ids (ops : list regop) : Prop := forall op, In op ops -> op_h op <> HOk 0.

Lemma thm_top_level ops r ns sn attrs toks tm script :
  new_mux ops = Some r -> valid_ids ops ->
  match lookup_top r sn with
  | Some h =>
      handle r ns sn attrs toks tm script =
      let b := fst (next_beh script) in mkout [EvTop h sn (firstn (hb_reads b) toks)] [] (ret_of b)
  | None => stanza_is sn ns = false -> handle r ns sn attrs toks tm script = out_nothing
  end.
Proof.
  intros H V. pose proof (new_mux_nonzero _ _ H V) as NZ.
  destruct (lookup_top r sn) as [h|] eqn:E.
  - apply handle_top; [exact E|]. exact (lookup_nonzero r TblTop [] sn h NZ E).
  - intro S. apply handle_not_stanza; assumption.
Qed.

Lemma fin_err_cons tm x rest : fin_err tm (x :: rest) = None.
Proof. reflexivity. Qed.

Lemma thm_iq_dispatch ops r ns sn attrs toks tm script h n rest hd :
  new_mux ops = Some r -> valid_ids ops ->
  lookup_top r sn = None -> stanza_is sn ns = true -> snd sn = str "iq" ->
  new_iq sn attrs = Some h ->
  drop_ws toks = TStart n :: rest -> rest <> [] ->
  lookup_iq r (h_type h) n = Some hd ->
  handle r ns sn attrs toks tm script =
  let b := fst (next_beh script) in
  mkout [EvIq hd (h_type h) (Some n) (firstn (hb_reads b) (until_close 1 rest))] [] (ret_of b).
Proof.
  intros H V E1 E2 E3 Hh Hd Hne Hl. pose proof (new_mux_nonzero _ _ H V) as NZ.
  rewrite (handle_iq _ _ _ _ _ _ _ E1 E2 E3), (iq_router_spec _ _ _ _ _ _ _ Hh).
  unfold iq_spec. rewrite Hd. destruct rest as [|y rest']; [contradiction|]. rewrite fin_err_cons.
  unfold iq_invoke_spec. rewrite Hl.
  pose proof (lookup_nonzero r TblIq (h_type h) n hd NZ Hl) as Hz. destruct hd as [|hd]; [congruence|reflexivity].
Qed.

(* an IQ that no handler is chosen for (and whose reader does not fail with an
   error other than io.EOF before the payload is known) *)
Definition iq_unhandled (r : registry) (h : hdr) (toks : list tok) (tm : term) : Prop :=
  match drop_ws toks with
  | [] => t_err tm = false /\ (h_type h = str "result" -> lookup_iq r (h_type h) ([], []) = None)
  | TEnd :: _ => h_type h = str "result" -> lookup_iq r (h_type h) ([], []) = None
  | x :: rest =>
      fin_err tm rest <> Some true /\
      match x with TStart n => lookup_iq r (h_type h) n = None | _ => True end
  end.

Definition is_request (typ : bytes) : bool := bytes_eqb typ (str "get") || bytes_eqb typ (str "set").

(* the defaults clause for IQs, as the property states it *)
Definition iq_defaults_at (r : registry) (ns : bytes) (sn : name) (attrs : list attr) (toks : list tok)
  (tm : term) (script : list hbeh) (h : hdr) : Prop :=
  lookup_top r sn = None -> stanza_is sn ns = true -> snd sn = str "iq" -> new_iq sn attrs = Some h ->
  iq_unhandled r h toks tm ->
  o_events (handle r ns sn attrs toks tm script) = [] /\
  o_replies (handle r ns sn attrs toks tm script) =
    (if is_request (h_type h) then [service_unavailable sn h] else []).

Lemma result_eqb typ : bytes_eqb typ iqtype_result = true <-> typ = str "result".
Proof. destruct iq_types as (_ & _ & R & _). rewrite R. apply bytes_eqb_eq. Qed.

Lemma iq_unhandled_replies r ns sn attrs toks tm script h :
  lookup_top r sn = None -> stanza_is sn ns = true -> snd sn = str "iq" -> new_iq sn attrs = Some h ->
  iq_unhandled r h toks tm ->
  o_events (handle r ns sn attrs toks tm script) = [] /\
  o_replies (handle r ns sn attrs toks tm script) = o_replies (iq_fallback sn h).
Proof.
  intros E1 E2 E3 Hh U.
  rewrite (handle_iq _ _ _ _ _ _ _ E1 E2 E3), (iq_router_spec _ _ _ _ _ _ _ Hh).
  unfold iq_spec, iq_unhandled in *.
  assert (EMPTY : (h_type h = str "result" -> lookup_iq r (h_type h) ([], []) = None) ->
                  o_events (iq_empty_spec r sn h script) = [] /\
                  o_replies (iq_empty_spec r sn h script) = o_replies (iq_fallback sn h)).
  { intro HU. unfold iq_empty_spec. destruct (bytes_eqb (h_type h) iqtype_result) eqn:ER; [|split; reflexivity].
    apply result_eqb in ER. unfold iq_invoke_spec. rewrite (HU ER).
    rewrite iq_fallback_spec. destruct (in_list _ _); split; reflexivity. }
  assert (INV : forall n content, lookup_iq r (h_type h) n = None ->
                  o_events (iq_invoke_spec r sn h (Some n) content script) = [] /\
                  o_replies (iq_invoke_spec r sn h (Some n) content script) = o_replies (iq_fallback sn h)).
  { intros n content HU. unfold iq_invoke_spec. rewrite HU. rewrite iq_fallback_spec.
    destruct (in_list _ _); split; reflexivity. }
  destruct (drop_ws toks) as [|x rest].
  - destruct U as [Ue HU]. rewrite Ue. apply EMPTY. exact HU.
  - destruct x as [n| |ws|].
    + destruct U as [Uf U]. destruct (fin_err tm rest) as [[|]|]; [congruence| |apply INV; exact U].
      destruct (bytes_eqb (h_type h) iqtype_result); [apply INV; exact U|split; reflexivity].
    + apply EMPTY. exact U.
    + destruct U as [Uf _]. destruct (fin_err tm rest) as [[|]|]; [congruence|split; reflexivity|split; reflexivity].
    + destruct U as [Uf _]. destruct (fin_err tm rest) as [[|]|]; [congruence|split; reflexivity|split; reflexivity].
Qed.

Lemma thm_defaults_partial r ns sn attrs toks tm script h :
  In (h_type h) [str "get"; str "set"; str "result"; str "error"] ->
  iq_defaults_at r ns sn attrs toks tm script h.
Proof.
  intros HT E1 E2 E3 Hh U. destruct (iq_unhandled_replies _ _ _ _ _ _ script _ E1 E2 E3 Hh U) as [A B].
  split; [exact A|]. rewrite B, iq_fallback_spec.
  destruct HT as [T|[T|[T|[T|[]]]]]; rewrite <- T; reflexivity.
Qed.

(* the witness: an IQ without type attribute is answered although it is no request *)
Lemma thm_defaults_refuted :
  exists r ns sn attrs toks tm script h, ~ iq_defaults_at r ns sn attrs toks tm script h.
Proof.
  exists empty_reg, (str "jabber:client"), (str "jabber:client", str "iq"),
         [mkattr [] (str "id") (str "x1") None], [TStart (str "x", str "a"); TEnd; TEnd], (mkterm false false), [],
         (mkhdr [] (str "x1") None None []).
  intro H. unfold iq_defaults_at in H.
  assert (U : iq_unhandled empty_reg (mkhdr [] (str "x1") None None []) [TStart (str "x", str "a"); TEnd; TEnd] (mkterm false false)).
  { split; [discriminate|reflexivity]. }
  destruct (H eq_refl eq_refl eq_refl eq_refl U) as [_ H']. vm_compute in H'. discriminate.
Qed.

(* messages and presences *)
Definition child_local (k : skind) : bytes := match k with SMsg => str "message" | SPres => str "presence" end.
Definition child_hdr (k : skind) (sn : name) (attrs : list attr) : option hdr :=
  match k with SMsg => new_message sn attrs | SPres => new_presence sn attrs end.

Lemma handle_children r ns sn attrs toks tm script k h :
  lookup_top r sn = None -> stanza_is sn ns = true -> snd sn = child_local k -> child_hdr k sn attrs = Some h ->
  handle r ns sn attrs toks tm script = for_children no_nest r k sn (h_type h) toks tm script.
Proof.
  intros E1 E2 E3 Hh. destruct k; cbn [child_local child_hdr] in *.
  - rewrite (handle_message _ _ _ _ _ _ _ E1 E2 E3). unfold msg_router. rewrite Hh. reflexivity.
  - rewrite (handle_presence _ _ _ _ _ _ _ E1 E2 E3). unfold pres_router. rewrite Hh. reflexivity.
Qed.

Lemma thm_children ops r ns sn attrs toks tm script k h rest :
  new_mux ops = Some r -> valid_ids ops ->
  lookup_top r sn = None -> stanza_is sn ns = true -> snd sn = child_local k -> child_hdr k sn attrs = Some h ->
  skip_elem 0 toks = Some rest ->
  handle r ns sn attrs toks tm script = children_spec r k sn (h_type h) toks script.
Proof.
  intros H V E1 E2 E3 Hh HS. pose proof (new_mux_nonzero _ _ H V) as NZ.
  rewrite (handle_children _ _ _ _ _ _ _ _ _ E1 E2 E3 Hh).
  apply (for_children_spec _ _ _ _ _ _ _ rest); [|exact HS].
  intros n hd. apply lookup_child_nonzero. exact NZ.
Qed.

(* whatever earlier handlers consumed, every handler run for a message or
   presence was given the stanza's tokens from its start element on *)
Lemma thm_children_whole_stanza ops r ns sn attrs toks tm script k h rest e :
  new_mux ops = Some r -> valid_ids ops ->
  lookup_top r sn = None -> stanza_is sn ns = true -> snd sn = child_local k -> child_hdr k sn attrs = Some h ->
  skip_elem 0 toks = Some rest ->
  In e (o_events (handle r ns sn attrs toks tm script)) ->
  exists hd n, e = child_event k hd (h_type h) (firstn n (TStart sn :: toks)).
Proof.
  intros H V E1 E2 E3 Hh HS Hin. rewrite (thm_children _ _ _ _ _ _ _ _ _ _ _ H V E1 E2 E3 Hh HS) in Hin.
  unfold children_spec in Hin.
  assert (G : forall x t', toks = x :: t' ->
     In e (o_events (let '(evs, f) := spec_events r k (h_type h) (TStart sn :: toks) (child_names 0 toks) script in
                     mkout evs [] (if f then RetErr else RetOk))) ->
     exists hd n, e = child_event k hd (h_type h) (firstn n (TStart sn :: toks))).
  { intros x t' _ Hi. pose proof (spec_events_prefix r k (h_type h) (TStart sn :: toks) (child_names 0 toks) script e) as P.
    destruct (spec_events _ _ _ _ _ _) as [evs f]. cbn [o_events fst] in *. destruct (P Hi) as (hd & n & _ & A & _).
    exists hd, n. exact A. }
  destruct toks as [|x t']; [discriminate|].
  destruct x as [nm| |ws|]; try (eapply G; [reflexivity|exact Hin]).
  destruct (lookup_child r k (h_type h) ([], [])) as [hd|]; [|destruct Hin].
  cbn [o_events In] in Hin. destruct Hin as [Hin|[]]. eexists. eexists. symmetry. exact Hin.
Qed.

(* which handlers run, and in which order: those the element children select *)
Lemma thm_children_chosen ops r ns sn attrs toks tm script k h rest :
  new_mux ops = Some r -> valid_ids ops ->
  lookup_top r sn = None -> stanza_is sn ns = true -> snd sn = child_local k -> child_hdr k sn attrs = Some h ->
  skip_elem 0 toks = Some rest -> (forall t', toks <> TEnd :: t') ->
  map event_hid (o_events (handle r ns sn attrs toks tm script)) = chosen r k (h_type h) (child_names 0 toks).
Proof.
  intros H V E1 E2 E3 Hh HS NE. rewrite (thm_children _ _ _ _ _ _ _ _ _ _ _ H V E1 E2 E3 Hh HS).
  unfold children_spec. pose proof (spec_events_chosen r k (h_type h) (TStart sn :: toks) (child_names 0 toks) script) as C.
  destruct toks as [|x t']; [discriminate|].
  destruct x as [nm| |ws|]; try (destruct (spec_events _ _ _ _ _ _) as [evs f]; exact C).
  exfalso. exact (NE t' eq_refl).
Qed.

Lemma thm_empty_stanza ops r ns sn attrs rest tm script k h :
  new_mux ops = Some r -> valid_ids ops ->
  lookup_top r sn = None -> stanza_is sn ns = true -> snd sn = child_local k -> child_hdr k sn attrs = Some h ->
  handle r ns sn attrs (TEnd :: rest) tm script =
  match lookup_child r k (h_type h) ([], []) with
  | None => out_nothing
  | Some hd =>
      let b := fst (next_beh script) in
      mkout [child_event k hd (h_type h) (firstn (hb_reads b) (TStart sn :: TEnd :: rest))] [] (ret_of b)
  end.
Proof.
  intros H V E1 E2 E3 Hh.
  exact (thm_children _ _ _ _ _ (TEnd :: rest) tm script _ _ rest H V E1 E2 E3 Hh eq_refl).
Qed.

(* the lookup made for the empty stanza - with the zero name - finds the bare
   type wildcard and nothing else: patterns with a name, be it the stanza
   element's own local name or name space, cannot be chosen for it *)
Definition child_tbl (k : skind) : tbl := match k with SMsg => TblMsg | SPres => TblPres end.

Lemma lookup_child_lookup r k typ n : lookup_child r k typ n = lookup r (child_tbl k) typ n.
Proof. destruct k; reflexivity. Qed.

Lemma lookup_zero r t typ :
  t <> TblTop ->
  lookup r t typ ([], []) = assoc (mkkey (stanza_of t) (type_of t typ) ([], [])) (table_of r t).
Proof.
  intro Ht. rewrite lookup_is_probe. destruct t; [contradiction| | |]; unfold probe4;
    destruct (assoc _ _); reflexivity.
Qed.

Lemma wildcard_lookup_registered ops r k typ hd :
  new_mux ops = Some r ->
  (lookup_child r k typ ([], []) = Some hd <-> registered ops (child_tbl k) typ ([], []) hd).
Proof.
  intro H. destruct (new_mux_spec _ _ H) as (U & _).
  rewrite lookup_child_lookup, lookup_zero by (destruct k; discriminate).
  rewrite <- (entry_registered _ _ _ _ _ _ H). split.
  - apply assoc_entry.
  - apply entry_assoc. apply U.
Qed.

(* bufReader.Token at the end of its buffer: the token fetched from the
   underlying reader is appended to the buffer and handed on together with the
   error that came with it, whatever that is *)
Lemma b_token_fetch tm b x u :
  b_off b = length (b_buf b) -> b_und b = x :: u ->
  b_token tm b = RTok x (fin_err tm u) (mkbr (b_buf b ++ [x]) (S (b_off b)) u).
Proof.
  intros Ho Hu. unfold b_token. rewrite Ho, Nat.ltb_irrefl, Hu. cbn [u_token].
  rewrite bufreader_buffers. reflexivity.
Qed.

(* nothing is written for messages and presences; nothing runs if no child selects a handler *)
Lemma thm_children_defaults r ns sn attrs toks tm script k h :
  lookup_top r sn = None -> stanza_is sn ns = true -> snd sn = child_local k -> child_hdr k sn attrs = Some h ->
  o_replies (handle r ns sn attrs toks tm script) = [].
Proof.
  intros E1 E2 E3 Hh. rewrite (handle_children _ _ _ _ _ _ _ _ _ E1 E2 E3 Hh). apply for_children_no_replies.
Qed.

Lemma thm_children_unhandled ops r ns sn attrs toks tm script k h rest :
  new_mux ops = Some r -> valid_ids ops ->
  lookup_top r sn = None -> stanza_is sn ns = true -> snd sn = child_local k -> child_hdr k sn attrs = Some h ->
  skip_elem 0 toks = Some rest ->
  (forall n, In n (child_names 0 toks) -> lookup_child r k (h_type h) n = None) ->
  (forall t', toks = TEnd :: t' -> lookup_child r k (h_type h) ([], []) = None) ->
  handle r ns sn attrs toks tm script = out_nothing.
Proof.
  intros H V E1 E2 E3 Hh HS HN HW. rewrite (thm_children _ _ _ _ _ _ _ _ _ _ _ H V E1 E2 E3 Hh HS).
  unfold children_spec. destruct toks as [|x t']; [discriminate|].
  destruct x as [nm| |ws|]; try (rewrite (spec_events_none _ _ _ _ _ _ HN); reflexivity).
  rewrite (HW t' eq_refl). reflexivity.
Qed.
