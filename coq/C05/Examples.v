(* C05/Examples.v — non-vacuity: concrete instances of the hypotheses of the
   C05 theorems, and a few examples run through the model. *)
From Coq Require Import ZArith.
From XV Require Import lib.Bytes lib.Lts gen.SessOut C05.Model C05.Spec C05.Proofs C05.Scoping.
Open Scope Z_scope.

Definition nm (s l : string) : name := mkname (str s) (str l).
Definition at_ (s l v : string) : attr := mkattr (nm s l) (str v).

Definition c2s : cfg := mkcfg so_ns_client [].
Definition s2s : cfg := mkcfg so_ns_server (str "example.net").

(* <message to="a@b" id="" xmlns="jabber:client"><body xmlns="jabber:client">hi</body><message/></message> *)
Definition ex_msg : tree :=
  Elem (nm "" "message") [at_ "" "to" "a@b"; at_ "" "id" ""; at_ "" "xmlns" "jabber:client"]
    [Elem (nm "jabber:client" "body") [at_ "" "xmlns" "jabber:client"] [Text (str "hi")];
     Elem (nm "" "message") [] []].

Example ex_msg_wf : wf_tree ex_msg.
Proof. cbn. repeat split; discriminate. Qed.

Example ex_msg_is_stanza : is_stanza_name (nm "" "message") = true.
Proof. reflexivity. Qed.

(* the completion on a server-to-server stream: name space, from, id; the empty
   id and the xmlns attributes of namespaced elements are gone; the nested
   message is untouched *)
Example ex_spec_s2s :
  spec_top s2s (str "ID") ex_msg =
  Elem (nm "jabber:server" "message") [at_ "" "to" "a@b"; at_ "" "from" "example.net"; at_ "" "id" "ID"]
    [Elem (nm "jabber:client" "body") [] [Text (str "hi")]; Elem (nm "" "message") [] []].
Proof. vm_compute. reflexivity. Qed.

(* instances of [denotes] for every entry point *)
Example ex_den_send : denotes (CSend (mkreader (tokens_of ex_msg ++ [TText (str "junk")]) true)) ex_msg 1.
Proof. apply D_send. Qed.

Example ex_den_sendx : denotes (CSendX KMessage (mkreader (tokens_of ex_msg ++ []) false) (str "N"))
  (Elem (nm "" "message") (fill_id [at_ "" "to" "a@b"; at_ "" "id" ""; at_ "" "xmlns" "jabber:client"] (str "N"))
        (kids_of ex_msg)) 1.
Proof. apply D_sendx. reflexivity. Qed.

Example ex_fill_id :
  fill_id [at_ "" "to" "a@b"; at_ "" "id" ""; at_ "" "xmlns" "jabber:client"] (str "N") =
  [at_ "" "to" "a@b"; at_ "" "id" "N"; at_ "" "xmlns" "jabber:client"].
Proof. vm_compute. reflexivity. Qed.

(* a marshaled value: RawToken view of
   <message xmlns="jabber:client" xml:lang="en" xmlns:_="urn:a" _:k="v"><body _:n="w"></body></message> *)
Definition ex_raw : list token :=
  [TStart (nm "" "message") [at_ "" "xmlns" "jabber:client"; at_ "xml" "lang" "en"; at_ "xmlns" "_" "urn:a"; at_ "_" "k" "v"];
   TStart (nm "" "body") [at_ "_" "n" "w"]; TEnd (nm "" "body"); TEnd (nm "" "message")].

Definition ex_raw_tree : tree :=
  Elem (nm "" "message")
    [at_ "" "xmlns" "jabber:client"; mkattr (mkname so_ns_xml (str "lang")) (str "en"); at_ "urn:a" "k" "v"]
    [Elem (nm "" "body") [at_ "urn:a" "n" "w"] []].

Example ex_resolve_raw : resolve_raw 0 [] ex_raw = tokens_of ex_raw_tree.
Proof. vm_compute. reflexivity. Qed.

Example ex_den_struct : denotes (CEncode (VStruct ex_raw false)) ex_raw_tree 1.
Proof. apply (D_encode_struct ex_raw (nm "" "message")). exact ex_resolve_raw. Qed.

Example ex_den_encel : denotes (CEncodeElement (VStruct ex_raw false) (nm "" "presence") [at_ "" "to" "x"])
  (Elem (nm "" "presence")
        (merged_attrs [at_ "" "to" "x"] [at_ "" "xmlns" "jabber:client"; mkattr (mkname so_ns_xml (str "lang")) (str "en"); at_ "urn:a" "k" "v"])
        [Elem (nm "" "body") [at_ "urn:a" "n" "w"] []]) 1.
Proof. apply (D_encel_struct ex_raw (nm "" "message")). exact ex_resolve_raw. Qed.

(* Encode of that value on a client stream: the wire holds one message with
   xml:lang and the attribute in urn:a, a generated id, and it is flushed *)
Example ex_encode_struct_wire :
  wire (fst (run_call c2s (ost0 [str "ID"]) (CEncode (VStruct ex_raw false)))) =
  map WTok
    [TStart (nm "jabber:client" "message")
       [mkattr (mkname so_ns_xml (str "lang")) (str "en"); at_ "urn:a" "k" "v"; at_ "" "id" "ID"];
     TStart (nm "" "body") [at_ "urn:a" "n" "w"]; TEnd (nm "" "body"); TEnd (nm "jabber:client" "message")].
Proof. vm_compute. reflexivity. Qed.

(* two threads, one Send and one TokenWriter, under the schedule in which
   thread 1 acquires first and thread 0 tries in between (its acquire step is
   simply not enabled while the lock is held) *)
Definition ex_small : tree := Elem (nm "" "iq") [at_ "" "type" "result"] [].
Definition ex_calls : list call :=
  [CSend (mkreader (tokens_of ex_small ++ []) false); CTokenWriter (map TwTok (tokens_of ex_small))].

Example ex_blocked_while_held :
  exists g, run (step c2s) (ginit [str "A"; str "B"] (map call_thread ex_calls)) [1%nat; 1%nat] = Some g /\
            step c2s g 0%nat = None /\ g_lock g = Some 1%nat.
Proof. eexists. split; [vm_compute; reflexivity|]. split; vm_compute; reflexivity. Qed.

Definition ex_schedule : list nat := [1; 1; 1; 1; 1; 0; 0; 0; 0; 0; 0]%nat.

Example ex_schedule_finishes :
  match run (step c2s) (ginit [str "A"; str "B"] (map call_thread ex_calls)) ex_schedule with
  | Some g => finished g = true /\ map fst (g_acq g) = [1; 0]%nat
  | None => False
  end.
Proof. vm_compute. split; reflexivity. Qed.

Example ex_calls_denote :
  Forall2 (fun cl ek => denotes cl (fst ek) (snd ek) /\ wf_tree (fst ek)) ex_calls [(ex_small, 1%nat); (ex_small, 1%nat)].
Proof.
  constructor; [split|constructor; [split|constructor]].
  - apply (D_send (nm "" "iq") [at_ "" "type" "result"] [] [] false).
  - split; [discriminate|exact I].
  - apply (D_tokenwriter (nm "" "iq") [at_ "" "type" "result"] []).
  - split; [discriminate|exact I].
Qed.

(* send_test.go: Send of <message to="..."><body/></message> without id on a
   client stream gets name space and id *)
Example ex_send_test :
  o_log (fst (run_call c2s (ost0 [str "123"])
    (CSend (mkreader [TStart (nm "" "message") [at_ "" "to" "test@example.net"]; TEnd (nm "" "message")] false)))) =
  [EvTok (TStart (nm "jabber:client" "message") [at_ "" "to" "test@example.net"; at_ "" "id" "123"]);
   EvTok (TEnd (nm "jabber:client" "message")); EvFlush].
Proof. vm_compute. reflexivity. Qed.

(* a start element without a name is rejected and leaves the encoder at depth 0:
   the next stanza is still completed *)
Example ex_rejected_first_token :
  let '(o, rs) := run_calls c2s (ost0 [str "I"])
     [CSend (mkreader [TStart (nm "" "") []; TEnd (nm "" "")] false);
      CSend (mkreader [TStart (nm "" "presence") []; TEnd (nm "" "presence")] false)] in
  rs = [[RErr EEncoder]; [ROk]] /\
  o_log o = [EvTok (TStart (nm "jabber:client" "presence") [at_ "" "id" "I"]);
             EvTok (TEnd (nm "jabber:client" "presence")); EvFlush].
Proof. vm_compute. split; reflexivity. Qed.

(* attributes that only share the local name of id / from / xmlns are left
   alone: the stanza still gets its id and from, {urn:a}xmlns survives on a
   namespaced element *)
Example ex_namespaced_lookalikes :
  spec_top s2s (str "ID")
    (Elem (nm "jabber:server" "presence") [at_ "urn:a" "id" "x"; at_ "urn:a" "from" ""; at_ "urn:a" "xmlns" "v"; at_ "" "xmlns" "jabber:server"] []) =
  Elem (nm "jabber:server" "presence")
    [at_ "urn:a" "id" "x"; at_ "urn:a" "from" ""; at_ "urn:a" "xmlns" "v"; at_ "" "from" "example.net"; at_ "" "id" "ID"] [].
Proof. vm_compute. reflexivity. Qed.

(* the hypotheses of C05_wire_under_all_schedules: the two calls of ex_calls
   both flush; under ex_schedule the connection holds the two complete iq
   elements, thread 1's first *)
Example ex_wire_schedule :
  match run (step c2s) (ginit [str "A"; str "B"] (map call_thread ex_calls)) ex_schedule with
  | Some g => wire (g_out g) =
      map WTok (tokens_of (spec_top c2s (str "A") ex_small) ++ tokens_of (spec_top c2s (str "B") ex_small))
  | None => False
  end.
Proof. vm_compute. reflexivity. Qed.

Example ex_all_flush : Forall (fun ek : tree * nat => (1 <= snd ek)%nat) [(ex_small, 1%nat); (ex_small, 1%nat)].
Proof. repeat constructor. Qed.

(* Encode of a WriterTo value leaves its element in the encoder's buffer: the
   witness behind C05_call_is_flushed_refuted, and the next call flushes it *)
Example ex_writerto_pending :
  let o1 := fst (run_call c2s (ost0 [str "A"; str "B"]) (CEncode (VWriterTo (tokens_of ex_small) false))) in
  wire o1 = [] /\ pending_of [] (o_log o1) = tokens_of (spec_top c2s (str "A") ex_small) /\
  wire (fst (run_call c2s o1 (CSend (mkreader (tokens_of ex_small ++ []) false)))) =
    map WTok (tokens_of (spec_top c2s (str "A") ex_small) ++ tokens_of (spec_top c2s (str "B") ex_small)).
Proof. vm_compute. repeat split; reflexivity. Qed.

(* prefix scoping: <m><a xmlns:p="urn:1" p:k="1"><b xmlns:p="urn:2" p:k="2"/><c p:k="3"/></a><d xmlns:p="urn:3" p:k="4"/><e p:k="5"/></m>
   - b shadows p, c sees a's binding again, d re-uses p on a sibling, e has no
   binding in scope (its attribute is left as it is) *)
Definition ex_scope_raw : tree :=
  Elem (nm "" "m") []
    [Elem (nm "" "a") [at_ "xmlns" "p" "urn:1"; at_ "p" "k" "1"]
       [Elem (nm "" "b") [at_ "xmlns" "p" "urn:2"; at_ "p" "k" "2"] []; Elem (nm "" "c") [at_ "p" "k" "3"] []];
     Elem (nm "" "d") [at_ "p" "k" "4"; at_ "xmlns" "p" "urn:3"] [];
     Elem (nm "" "e") [at_ "p" "k" "5"] []].

Example ex_scope_meaning :
  scoped_tree [] ex_scope_raw =
  Elem (nm "" "m") []
    [Elem (nm "" "a") [at_ "urn:1" "k" "1"]
       [Elem (nm "" "b") [at_ "urn:2" "k" "2"] []; Elem (nm "" "c") [at_ "urn:1" "k" "3"] []];
     Elem (nm "" "d") [at_ "urn:3" "k" "4"] [];
     Elem (nm "" "e") [at_ "p" "k" "5"] []].
Proof. vm_compute. reflexivity. Qed.

Example ex_scope_stack :
  resolve_raw 0 [] (tokens_of ex_scope_raw) = tokens_of (scoped_tree [] ex_scope_raw).
Proof. vm_compute. reflexivity. Qed.

(* a WebSocket client session: the peer's header is in the framing name space,
   stanzas still go out in jabber:client, without from *)
Definition ex_ws : stream_params :=
  mkparams so_ns_client (str "urn:ietf:params:xml:ns:xmpp-framing") true (str "me@example.net").

Example ex_ws_completion :
  spec_top (cfg_of ex_ws) (str "ID") (Elem (nm "" "message") [] []) =
  Elem (nm "jabber:client" "message") [at_ "" "id" "ID"] [].
Proof. vm_compute. reflexivity. Qed.

(* a server-to-server stream whose peer answered with jabber:client *)
Definition ex_mixed : stream_params := mkparams so_ns_server so_ns_client false (str "example.net").

Example ex_mixed_completion :
  spec_top (cfg_of ex_mixed) (str "ID") (Elem (nm "" "presence") [] []) =
  Elem (nm "jabber:server" "presence") [at_ "" "from" "example.net"; at_ "" "id" "ID"] [].
Proof. vm_compute. reflexivity. Qed.
