From XV Require Import lib.Bytes C05.Model.
