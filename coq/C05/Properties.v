(* C05/Properties.v — property C05: each transmit call puts exactly its own
   element on the wire, whole. Statements only; proofs are in Proofs.v.
   Vocabulary: Model.v (the executable model), Spec.v (trees, spec_top, denotes,
   seq_log). *)
From Coq Require Import ZArith.
From XV Require Import lib.Bytes lib.Lts gen.SessOut C05.Model C05.Spec C05.Proofs C05.Scoping.
Open Scope Z_scope.

(* Element layer. Writing the tokens of a well-formed element at the top level
   of the stream (depth 0) through the stanza encoder and the Encoder puts the
   tokens of [spec_top] of that element into the encoder log, every token is
   accepted, and depth, element stack and closed bit are as before; the fresh id
   is consumed exactly when the element is a stanza without a non-empty id. *)
Theorem C05_element_denotation : forall c ab e st lg cl ids,
  is_elem e -> wf_tree e ->
  exec_prims c (mkost 0 st lg cl ids) (map PTok (tokens_of e)) ab =
  (mkost 0 st (lg ++ map EvTok (tokens_of (spec_top c (hd_id ids) e))) cl (pop_if (needs_id e) ids),
   repeat ROk (length (tokens_of e))).
Proof. exact element_denotation. Qed.
Print Assumptions C05_element_denotation.

(* What spec_top is for a stanza, for EVERY stream: whatever the content name
   space of our output stream (p_out_ns), the default name space of the peer's
   header (p_in_ns: another content name space, or the WebSocket framing name
   space) and the framing (p_framing), the stanza keeps its local name, gets the
   content name space of OUR OUTPUT stream if it had none, a non-empty id, the
   local address as from when the output stream is jabber:server - and on every
   other stream nothing but the id is added -, keeps the caller's attributes in
   order minus empty id/from (and minus xmlns if the element is namespaced), and
   its children unchanged up to the xmlns rule. *)
Theorem C05_completion : forall p id n a kids,
  id <> [] -> is_stanza_name n = true ->
  exists n1 a1 extra,
    spec_top (cfg_of p) id (Elem n a kids) = Elem n1 a1 (map strip_tree kids) /\
    nlocal n1 = nlocal n /\
    (nspace n = [] -> nspace n1 = p_out_ns p) /\ (nspace n <> [] -> n1 = n) /\
    has_nonempty s_id a1 = true /\
    (p_out_ns p = so_ns_server -> p_local p <> [] -> has_nonempty s_from a1 = true) /\
    a1 = strip_xmlns n1 (filter (fun x => negb (dropped x)) a ++ extra) /\
    incl extra [from_attr (p_local p); id_attr id] /\
    (p_out_ns p <> so_ns_server -> incl extra [id_attr id]).
Proof. exact completion_params. Qed.
Print Assumptions C05_completion.

(* The same for an arbitrary stanza encoder configuration (name space, from). *)
Theorem C05_completion_encoder : forall c id n a kids,
  id <> [] -> is_stanza_name n = true ->
  exists n1 a1 extra,
    spec_top c id (Elem n a kids) = Elem n1 a1 (map strip_tree kids) /\
    nlocal n1 = nlocal n /\
    (nspace n = [] -> nspace n1 = c_ns c) /\ (nspace n <> [] -> n1 = n) /\
    has_nonempty s_id a1 = true /\
    (c_from c <> [] -> has_nonempty s_from a1 = true) /\
    a1 = strip_xmlns n1 (filter (fun x => negb (dropped x)) a ++ extra) /\
    incl extra [from_attr (c_from c); id_attr id].
Proof. exact completion_spec. Qed.
Print Assumptions C05_completion_encoder.

(* Elements that are not stanzas are unchanged up to the xmlns rule. *)
Theorem C05_non_stanza_unchanged : forall c id n a kids,
  is_stanza_name n = false ->
  spec_top c id (Elem n a kids) = Elem n (strip_xmlns n a) (map strip_tree kids).
Proof. exact completion_other. Qed.
Print Assumptions C05_non_stanza_unchanged.

(* SendElement / EncodeElement: the supplied start element is the outermost tag
   of the element the call denotes. *)
Theorem C05_start_is_outermost : forall cl e k sn sa,
  denotes cl e k ->
  (exists r, cl = CSendElement r sn sa) \/ (exists v, cl = CEncodeElement v sn sa) ->
  exists extra kids, e = Elem sn (sa ++ extra) kids.
Proof. exact start_is_outermost. Qed.
Print Assumptions C05_start_is_outermost.

(* Every entry point, run on an open session between two elements, appends
   exactly the block of the element its arguments denote and succeeds. *)
Theorem C05_call_writes_its_element : forall c cl e k st lg ids,
  denotes cl e k -> wf_tree e ->
  exists rg xs, compile cl = Region rg /\
    exec_region c (mkost 0 st lg false ids) rg =
      (mkost 0 st (lg ++ block c ids e k) false (pop_if (needs_id e) ids), xs) /\
    allok xs = true.
Proof. exact denotes_region. Qed.
Print Assumptions C05_call_writes_its_element.

(* Flushing. Full statement: when a successful call returns its element has
   reached the connection. *)
Definition C05_call_is_flushed_statement : Prop := forall c cl e k st lg ids,
  denotes cl e k -> wf_tree e ->
  exists rg xs o', compile cl = Region rg /\
    exec_region c (mkost 0 st lg false ids) rg = (o', xs) /\ allok xs = true /\
    wire o' = wire_of [] lg ++ map WTok (pending_of [] lg ++ tokens_of (spec_top c (hd_id ids) e)).

(* It holds for every call except Encode / EncodeElement of a WriterTo value. *)
Theorem C05_call_is_flushed_partial : forall c cl e k st lg ids,
  denotes cl e k -> wf_tree e ->
  (forall toks werr, cl <> CEncode (VWriterTo toks werr)) ->
  (forall toks werr sn sa, cl <> CEncodeElement (VWriterTo toks werr) sn sa) ->
  exists rg xs o', compile cl = Region rg /\
    exec_region c (mkost 0 st lg false ids) rg = (o', xs) /\ allok xs = true /\
    wire o' = wire_of [] lg ++ map WTok (pending_of [] lg ++ tokens_of (spec_top c (hd_id ids) e)).
Proof. exact call_is_flushed_partial. Qed.
Print Assumptions C05_call_is_flushed_partial.

(* ... and fails for those (the model mirrors marshal.EncodeXML, which returns
   before flushing): Encode of a WriterTo returns nil with nothing on the wire. *)
Theorem C05_call_is_flushed_refuted : ~ C05_call_is_flushed_statement.
Proof. exact call_is_flushed_refuted. Qed.
Print Assumptions C05_call_is_flushed_refuted.

(* Schedule layer. In the transition system threads perform the primitives of
   their regions one at a time and primitive steps do not test the lock; still,
   under every schedule, whoever performs a primitive holds the lock ... *)
Theorem C05_emitter_is_lock_holder : forall c ids ths tr g i th p rest ab,
  Forall (fun th => t_cur th = None) ths ->
  run (step c) (ginit ids ths) tr = Some g ->
  nth_error (g_threads g) i = Some th -> t_cur th = Some (p :: rest, ab) ->
  g_lock g = Some i.
Proof. exact emitter_is_holder. Qed.
Print Assumptions C05_emitter_is_lock_holder.

(* ... and whenever the lock is free the output state (log, depth, stack, closed
   bit, ids) and all results are those of running the regions one after the
   other in the order of lock acquisition: every schedule is serialisable. *)
Theorem C05_serialisable : forall c ids ths tr g,
  Forall (fun th => t_cur th = None) ths ->
  run (step c) (ginit ids ths) tr = Some g -> g_lock g = None ->
  (g_out g, g_rlog g) = exec_acq c (ost0 ids) (g_acq g).
Proof. exact serial. Qed.
Print Assumptions C05_serialisable.

(* For any number of threads each making one call that denotes a well-formed
   element, through any mix of entry points, under every complete schedule:
   every call held the lock exactly once; the encoder log is the concatenation,
   in lock order, of the calls' complete blocks (never interleaved); the stanza
   encoder is back at depth 0 with no open element; every call succeeded. *)
Theorem C05_atomic_under_all_schedules : forall c ids calls elems tr g,
  Forall2 (fun cl ek => denotes cl (fst ek) (snd ek) /\ wf_tree (fst ek)) calls elems ->
  run (step c) (ginit ids (map call_thread calls)) tr = Some g ->
  finished g = true ->
  NoDup (map fst (g_acq g)) /\
  (forall i, In i (map fst (g_acq g)) <-> (i < length calls)%nat) /\
  o_log (g_out g) = seq_log c ids (map (fun i => nth i elems no_elem) (map fst (g_acq g))) /\
  o_depth (g_out g) = 0 /\ o_stack (g_out g) = [] /\ o_closed (g_out g) = false /\
  allok (map snd (g_rlog g)) = true.
Proof. exact atomic_all_schedules. Qed.
Print Assumptions C05_atomic_under_all_schedules.

(* The log of a sequence of calls consists of the blocks of spec_top with
   non-empty ids, provided attr.RandomID returns non-empty ids: with
   C05_completion every top-level stanza start carries a non-empty id. *)
Theorem C05_ids_nonempty : forall c es ids,
  Forall (fun i => i <> []) ids ->
  exists idl, length idl = length es /\ Forall (fun i => i <> []) idl /\
              seq_log c ids es = blocks_with c es idl.
Proof. exact seq_log_blocks. Qed.
Print Assumptions C05_ids_nonempty.

(* The same at the connection: under every complete schedule what has reached
   the connection plus what the encoder still buffers is the concatenation, in
   lock order, of the tokens of the calls' elements (nothing lost, duplicated or
   reordered between encoder and connection) — and if every call is one that
   flushes (all but Encode/EncodeElement of a WriterTo value) the connection
   holds exactly those complete elements. *)
Theorem C05_wire_under_all_schedules : forall c ids calls elems tr g,
  Forall2 (fun cl ek => denotes cl (fst ek) (snd ek) /\ wf_tree (fst ek)) calls elems ->
  run (step c) (ginit ids (map call_thread calls)) tr = Some g ->
  finished g = true ->
  let es := map (fun i => nth i elems no_elem) (map fst (g_acq g)) in
  map WTok (seq_tokens c ids es) = wire (g_out g) ++ map WTok (pending_of [] (o_log (g_out g))) /\
  (Forall (fun ek => (1 <= snd ek)%nat) elems -> wire (g_out g) = map WTok (seq_tokens c ids es)).
Proof. exact wire_all_schedules. Qed.
Print Assumptions C05_wire_under_all_schedules.

(* The constants the model shares with the source (coq/gen/SessOut.v is written
   by the translator from session.go, session_message.go, session_presence.go,
   stanza/stanza.go, internal/ns/ns.go and internal/attr/idgen.go on every run):
   the elements the stanza encoder completes are iq / message / presence in no
   name space or a content name space; SendIQ / SendMessage / SendPresence accept
   the same names; the encoder looks at the attributes id, from and xmlns; the
   content name spaces are non-empty and distinct; generated ids have positive
   length. An edit of the source that changes one of them breaks this proof. *)
Theorem C05_source_tables :
  so_stanza_locals = map kind_local [KIQ; KMessage; KPresence] /\
  same_set so_stanza_spaces [[]; so_ns_client; so_ns_server] = true /\
  length so_kind_tables = 3%nat /\
  forallb (fun pk => list_eqb bytes_eqb (fst (fst pk)) [kind_local (snd pk)] && same_set (snd (fst pk)) so_stanza_spaces)
          (combine so_kind_tables [KIQ; KMessage; KPresence]) = true /\
  so_se_literals = [s_id; s_from; s_xmlns] /\
  so_ns_xml = str "http://www.w3.org/XML/1998/namespace" /\
  so_ns_client <> [] /\ so_ns_server <> [] /\ so_ns_client <> so_ns_server /\
  (0 < so_id_len)%nat.
Proof. exact source_tables. Qed.
Print Assumptions C05_source_tables.

(* SendIQ / SendMessage / SendPresence (and their Element / Encode variants)
   hand SendElement the caller's start element with nothing changed but the
   unqualified id: every other attribute is kept, in order, and afterwards
   there is a non-empty unqualified id (the one the response is tracked by). *)
Theorem C05_sendx_touches_only_the_id : forall a newid,
  filter (fun x => negb (plain_is s_id x)) (fill_id a newid) = filter (fun x => negb (plain_is s_id x)) a /\
  (newid <> [] -> has_nonempty s_id (fill_id a newid) = true).
Proof. intros a newid. split; [apply fill_id_others|apply fill_id_has_id]. Qed.
Print Assumptions C05_sendx_touches_only_the_id.

(* Marshaled values. Encode / EncodeElement re-read encoding/xml's text as raw
   tokens, whose attribute names carry prefixes; [resolve_raw] is the binding
   stack of rawTokenReader (push on start, pop on end, innermost match). Over
   the tokens of EVERY raw forest - any nesting, any re-use of a prefix on
   siblings, any shadowing in nested elements, declarations before or after
   their use - it yields exactly the tokens of [scoped_tree]: every attribute
   gets the name space of the nearest enclosing declaration of its prefix, a
   declaration never reaches a sibling or anything after its element, xml: is
   the XML name space, element names, unprefixed attributes, text and the
   shape of the forest are untouched, the declarations themselves disappear. *)
Theorem C05_prefix_scoping : forall f,
  resolve_raw 0 [] (forest_tokens f) = forest_tokens (map (scoped_tree []) f).
Proof. exact prefix_scoping. Qed.
Print Assumptions C05_prefix_scoping.

(* Element names. The full meaning of a raw forest also resolves prefixed
   element names ([meaning_tree]); rawTokenReader does not. Full statement: *)
Definition C05_marshaled_meaning_statement : Prop := forall f,
  resolve_raw 0 [] (forest_tokens f) = forest_tokens (map (meaning_tree []) f).

(* It holds for every forest whose element names carry no prefix - everything
   encoding/xml writes by itself ... *)
Theorem C05_marshaled_meaning_partial : forall f,
  Forall unprefixed_elems f ->
  resolve_raw 0 [] (forest_tokens f) = forest_tokens (map (meaning_tree []) f).
Proof. exact full_meaning_partial. Qed.
Print Assumptions C05_marshaled_meaning_partial.

(* ... and fails for text copied from an ",innerxml" field that uses prefixed
   element names: <p:a xmlns:p="urn:1"/> is sent as an element named a in the
   name space "p" (known finding). *)
Theorem C05_marshaled_meaning_refuted : ~ C05_marshaled_meaning_statement.
Proof. exact full_meaning_refuted. Qed.
Print Assumptions C05_marshaled_meaning_refuted.

(* Hence a marshaled value whose raw view is the element rt denotes what rt
   means, through Encode and (under the supplied start) through EncodeElement;
   with C05_call_writes_its_element that element is what reaches the encoder. *)
Theorem C05_marshaled_value_denotes_its_meaning : forall n a kids,
  let rt := Elem n a kids in
  denotes (CEncode (VStruct (tokens_of rt) false)) (scoped_tree [] rt) 1 /\
  forall sn sa, denotes (CEncodeElement (VStruct (tokens_of rt) false) sn sa)
                        (Elem sn (merged_attrs sa (top_attrs_of (scoped_tree [] rt))) (kids_of (scoped_tree [] rt))) 1.
Proof. exact struct_denotes_scoped. Qed.
Print Assumptions C05_marshaled_value_denotes_its_meaning.

(* The stack discipline facts [resolve_raw] mirrors, read from encode.go on
   every run (a reordering of pop and decrement, another comparison or another
   lookup direction breaks this proof). *)
Theorem C05_raw_reader_tables :
  so_raw_push_after_inc = true /\ so_raw_lookup_innermost = true /\
  so_raw_pop_before_dec = true /\ so_raw_pop_cmp = str ">=" /\ so_raw_pop_rhs_is_depth = true.
Proof. exact raw_reader_tables. Qed.
Print Assumptions C05_raw_reader_tables.

(* How negotiateSession configures the stanza encoder ([cfg_of]): the name space
   is that of the OUTPUT stream, the from address is the local address exactly
   when the output stream is jabber:server. Read from session.go on every run:
   taking the name space from the input stream's header (which differs on a
   WebSocket session, or when the peer answers with the other content name
   space) breaks this proof. *)
Theorem C05_encoder_setup_tables :
  so_se_ns_field = str "s.out.Info.XMLNS" /\
  so_se_from_cond = str "s.out.Info.XMLNS == stanza.NSServer" /\
  so_se_from_value = str "s.LocalAddr()".
Proof. exact encoder_setup_tables. Qed.
Print Assumptions C05_encoder_setup_tables.
