(* C05/Model.v — executable model of the output side of an XMPP session
   (session.go send / Encode / EncodeElement / TokenWriter / deferWriter /
   stanzaEncoder / Close / closeSession / sendError, session_iq|message|
   presence.go Send* helpers, internal/marshal/encode.go), shared by C05 and C10.

   Abstraction boundary: the model starts at the level of XML tokens handed to
   the encoding/xml Encoder that writes to the connection. The Encoder is an
   oracle: it accepts a token unless it is a start element without a local name
   or an end element that does not match the innermost open element; accepted
   tokens are buffered and reach the connection on Flush. The closing stream tag
   is written to the connection directly (internal/stream.Close).

   Three layers:
   1. element layer: [se_token] = stanzaEncoder.EncodeToken, value-to-token
      conversion of internal/marshal (raw-token re-reading with attribute prefix
      resolution, replacement of the outermost tag);
   2. region layer: every entry point is compiled to a *lock region*, the list
      of primitive actions it performs between out.Lock and out.Unlock
      ([compile]); [exec_prims] runs a region sequentially;
   3. schedule layer: a labelled transition system in which threads acquire the
      output lock, perform the primitives of their region ONE AT A TIME, and
      release it; primitive steps do not test the lock (the code does not
      either): mutual exclusion is a theorem (Proofs.v), not a guard.
   No proofs in this file. *)
From Coq Require Import ZArith.
From XV Require Import lib.Bytes gen.SessOut.
Open Scope Z_scope.

(* ------------------------------------------------------------------ tokens *)

Record name := mkname { nspace : bytes; nlocal : bytes }.
Record attr := mkattr { aname : name; aval : bytes }.
Inductive misc := MComment | MProcInst | MDirective.

Inductive token :=
| TStart (n : name) (a : list attr)
| TEnd (n : name)
| TText (b : bytes)
| TMisc (k : misc) (x y : bytes).

Definition is_empty (b : bytes) : bool := match b with [] => true | _ => false end.

Definition name_eqb (a b : name) : bool :=
  bytes_eqb (nspace a) (nspace b) && bytes_eqb (nlocal a) (nlocal b).

Definition attr_eqb (a b : attr) : bool :=
  name_eqb (aname a) (aname b) && bytes_eqb (aval a) (aval b).

Fixpoint list_eqb {A} (eqb : A -> A -> bool) (a b : list A) : bool :=
  match a, b with
  | [], [] => true
  | x :: a', y :: b' => eqb x y && list_eqb eqb a' b'
  | _, _ => false
  end.

Definition misc_eqb (a b : misc) : bool :=
  match a, b with
  | MComment, MComment | MProcInst, MProcInst | MDirective, MDirective => true
  | _, _ => false
  end.

Definition token_eqb (a b : token) : bool :=
  match a, b with
  | TStart n x, TStart m y => name_eqb n m && list_eqb attr_eqb x y
  | TEnd n, TEnd m => name_eqb n m
  | TText x, TText y => bytes_eqb x y
  | TMisc k x1 x2, TMisc l y1 y2 => misc_eqb k l && bytes_eqb x1 y1 && bytes_eqb x2 y2
  | _, _ => false
  end.

Definition in_list (b : bytes) (l : list bytes) : bool := existsb (bytes_eqb b) l.

(* ------------------------------------------- element layer: stanzaEncoder *)

(* the stream's content name space and the from address added on
   server-to-server streams (empty on client-to-server streams) *)
Record cfg := mkcfg { c_ns : bytes; c_from : bytes }.

(* the parameters of an established stream: the content name space of OUR
   output stream (jabber:client / jabber:server, chosen by the negotiator from
   the S2S bit), the default name space of the PEER's stream header (another
   content name space if the peer answered with one; the framing name space
   urn:ietf:params:xml:ns:xmpp-framing on a WebSocket session), whether the
   session uses WebSocket framing, and the local address *)
Record stream_params := mkparams { p_out_ns : bytes; p_in_ns : bytes; p_framing : bool; p_local : bytes }.

(* negotiateSession: stanzaEncoder{ns: s.out.Info.XMLNS}; from = LocalAddr iff
   s.out.Info.XMLNS == jabber:server. Neither the peer's header name space nor
   the framing plays a part. *)
Definition cfg_of (p : stream_params) : cfg :=
  mkcfg (p_out_ns p) (if bytes_eqb (p_out_ns p) so_ns_server then p_local p else []).

Definition s_id : bytes := str "id".
Definition s_from : bytes := str "from".
Definition s_xmlns : bytes := str "xmlns".
Definition s_xml : bytes := str "xml".
Definition s_type : bytes := str "type".

(* isStanzaEmptySpace; the tables come from the source (gen/SessOut.v) *)
Definition is_stanza_name (n : name) : bool :=
  in_list (nlocal n) so_stanza_locals && in_list (nspace n) so_stanza_spaces.

(* an attribute that is not in a name space and has the given local name *)
Definition plain_is (l : bytes) (x : attr) : bool :=
  is_empty (nspace (aname x)) && bytes_eqb (nlocal (aname x)) l.

(* the depth-1 attribute loop: the unqualified attributes id / from with an
   empty value are dropped; non-empty ones are remembered *)
Fixpoint idfrom_filter (a : list attr) : list attr * (bool * bool) :=
  match a with
  | [] => ([], (false, false))
  | x :: r =>
      let '(r', (fid, ffrom)) := idfrom_filter r in
      if plain_is s_id x then
        if is_empty (aval x) then (r', (fid, ffrom)) else (x :: r', (true, ffrom))
      else if plain_is s_from x then
        if is_empty (aval x) then (r', (fid, ffrom)) else (x :: r', (fid, true))
      else (x :: r', (fid, ffrom))
  end.

Definition id_attr (v : bytes) : attr := mkattr (mkname [] s_id) v.
Definition from_attr (v : bytes) : attr := mkattr (mkname [] s_from) v.

(* completion of a top-level stanza start: name space, from, id.
   Returns the new name, the attributes and whether the fresh id was used. *)
Definition complete_start (c : cfg) (id : bytes) (n : name) (a : list attr) : name * list attr * bool :=
  let n1 := if is_empty (nspace n) then mkname (c_ns c) (nlocal n) else n in
  let '(a1, (fid, ffrom)) := idfrom_filter a in
  let a2 := if negb (is_empty (c_from c)) && negb ffrom then a1 ++ [from_attr (c_from c)] else a1 in
  let a3 := if fid then a2 else a2 ++ [id_attr id] in
  (n1, a3, negb fid).

Definition is_xmlns_attr (x : attr) : bool := plain_is s_xmlns x.

(* duplicate xmlns removal, at every depth *)
Definition strip_xmlns (n : name) (a : list attr) : list attr :=
  if is_empty (nspace n) then a else filter (fun x => negb (is_xmlns_attr x)) a.

(* stanzaEncoder.EncodeToken: the token handed on, the depth after it (if the
   token is accepted), and whether the fresh id was consumed *)
Definition se_token (c : cfg) (depth : Z) (id : bytes) (t : token) : token * Z * bool :=
  match t with
  | TStart n a =>
      let d := depth + 1 in
      if (d =? 1) && is_stanza_name n then
        let '(n1, a3, used) := complete_start c id n a in
        (TStart n1 (strip_xmlns n1 a3), d, used)
      else (TStart n (strip_xmlns n a), d, false)
  | TEnd n =>
      let n' := if (depth =? 1) && is_empty (nspace n) && is_stanza_name n
                then mkname (c_ns c) (nlocal n) else n in
      (TEnd n', depth - 1, false)
  | _ => (t, depth, false)
  end.

(* the encoding/xml Encoder as an oracle: its stack of open elements *)
Definition enc_accept (st : list name) (t : token) : option (list name) :=
  match t with
  | TStart n _ => if is_empty (nlocal n) then None else Some (n :: st)
  | TEnd n => match st with
              | top :: r => if name_eqb top n then Some r else None
              | [] => None
              end
  | _ => Some st
  end.

(* ------------------------------------------------ output state, primitives *)

Inductive ev := EvTok (t : token) | EvFlush | EvClose.

Definition ev_eqb (a b : ev) : bool :=
  match a, b with
  | EvTok x, EvTok y => token_eqb x y
  | EvFlush, EvFlush | EvClose, EvClose => true
  | _, _ => false
  end.

(* o_log: what happened at the encoder / connection, in order: a token accepted
   by the encoder, a flush of the encoder, the closing tag written to the
   connection. o_ids: the identifiers attr.RandomID will return, in order. *)
Record ost := mkost {
  o_depth : Z; o_stack : list name; o_log : list ev; o_closed : bool; o_ids : list bytes }.

Definition ost0 (ids : list bytes) : ost := mkost 0 [] [] false ids.

Definition default_id : bytes := str "?".
Definition next_id (o : ost) : bytes := match o_ids o with i :: _ => i | [] => default_id end.

Inductive err := EClosedOut | EClosedIn | ENotStart | EEncoder | EReader | EEof | EMarshal | EStatic | EOrig | EOther.
Inductive res := ROk | RErr (e : err).

Definition err_eqb (a b : err) : bool :=
  match a, b with
  | EClosedOut, EClosedOut | EClosedIn, EClosedIn | ENotStart, ENotStart | EEncoder, EEncoder
  | EReader, EReader | EEof, EEof | EMarshal, EMarshal | EStatic, EStatic | EOrig, EOrig | EOther, EOther => true
  | _, _ => false
  end.

Definition res_eqb (a b : res) : bool :=
  match a, b with
  | ROk, ROk => true
  | RErr x, RErr y => err_eqb x y
  | _, _ => false
  end.

Definition is_err (r : res) : bool := match r with ROk => false | RErr _ => true end.

Inductive prim :=
| PTok (t : token)        (* s.out.e.EncodeToken(t): stanzaEncoder, then the Encoder *)
| PFlush                  (* s.out.e.Flush() *)
| PCheckClosed (e : err)  (* if the OutputStreamClosed bit is set: fail with e *)
| PLwcTok (t : token)     (* lockWriteCloser.EncodeToken: closed test, then PTok *)
| PLwcFlush               (* lockWriteCloser.Flush: closed test, then PFlush *)
| PCloseSession           (* closeSession: test-and-set of the bit + closing tag *)
| PFail (e : err).        (* the call fails here for a reason outside the output state *)

Definition emit (c : cfg) (o : ost) (t : token) : ost * res :=
  let '(t', d', used) := se_token c (o_depth o) (next_id o) t in
  match enc_accept (o_stack o) t' with
  | Some st' => (mkost d' st' (o_log o ++ [EvTok t']) (o_closed o)
                       (if used then tl (o_ids o) else o_ids o), ROk)
  | None => (o, RErr EEncoder)
  end.

Definition flush (o : ost) : ost * res :=
  (mkost (o_depth o) (o_stack o) (o_log o ++ [EvFlush]) (o_closed o) (o_ids o), ROk).

Definition pstep (c : cfg) (o : ost) (p : prim) : ost * res :=
  match p with
  | PTok t => emit c o t
  | PFlush => flush o
  | PCheckClosed e => (o, if o_closed o then RErr e else ROk)
  | PLwcTok t => if o_closed o then (o, RErr EClosedOut) else emit c o t
  | PLwcFlush => if o_closed o then (o, RErr EClosedOut) else flush o
  | PCloseSession =>
      if o_closed o then (o, ROk)
      else (mkost (o_depth o) (o_stack o) (o_log o ++ [EvClose]) true (o_ids o), ROk)
  | PFail e => (o, RErr e)
  end.

(* a lock region: the primitives performed while holding the output lock; if
   ab is set the first failing primitive ends the region *)
Definition region := (list prim * bool)%type.

Fixpoint exec_prims (c : cfg) (o : ost) (ps : list prim) (ab : bool) : ost * list res :=
  match ps with
  | [] => (o, [])
  | p :: r =>
      let '(o1, x) := pstep c o p in
      if ab && is_err x then (o1, [x])
      else let '(o2, xs) := exec_prims c o1 r ab in (o2, x :: xs)
  end.

Definition exec_region (c : cfg) (o : ost) (rg : region) : ost * list res :=
  exec_prims c o (fst rg) (snd rg).

Fixpoint first_err (xs : list res) : res :=
  match xs with
  | [] => ROk
  | RErr e :: _ => RErr e
  | ROk :: r => first_err r
  end.

(* ------------------------------------------------ readers, values, calls *)

(* an xml.TokenReader: the tokens it returns, then io.EOF (r_fail = false) or
   another error (r_fail = true) *)
Record reader := mkreader { r_toks : list token; r_fail : bool }.

(* xmlstream.Inner: the tokens up to (excluding) the end element that closes
   the element whose start has already been consumed *)
Fixpoint inner (d : nat) (ts : list token) : list token :=
  match ts with
  | [] => []
  | TStart n a :: r => TStart n a :: inner (S d) r
  | TEnd n :: r => match d with O => [] | S d' => TEnd n :: inner d' r end
  | t :: r => t :: inner d r
  end.

(* did Inner find that end element (otherwise it ran into the reader's end) *)
Fixpoint inner_complete (d : nat) (ts : list token) : bool :=
  match ts with
  | [] => false
  | TStart _ _ :: r => inner_complete (S d) r
  | TEnd _ :: r => match d with O => true | S d' => inner_complete d' r end
  | _ :: r => inner_complete d r
  end.

(* the part of send after the start token: copy the payload, end token, flush *)
Definition body_prims (toks : list token) (complete fail : bool) (endn : name) : list prim :=
  map PTok toks ++ (if negb complete && fail then [PFail EReader] else [PTok (TEnd endn); PFlush]).

Definition check_open : prim := PCheckClosed EClosedOut.

(* Session.Send *)
Definition compile_send (r : reader) : list prim :=
  check_open ::
  match r_toks r with
  | [] => [PFail (if r_fail r then EReader else EEof)]
  | TStart n a :: rest =>
      PTok (TStart n a) :: body_prims (inner 0 rest) (inner_complete 0 rest) (r_fail r) n
  | _ :: _ => [PFail ENotStart]
  end.

(* Session.SendElement: the whole stream is the payload *)
Definition compile_send_element (r : reader) (sn : name) (sa : list attr) : list prim :=
  check_open :: PTok (TStart sn sa) :: body_prims (r_toks r) false (r_fail r) sn.

(* getIDTyp: scan the unqualified attributes until both an id and a type
   attribute have been seen *)
Fixpoint get_id_typ (a : list attr) (i : nat) (idx : option nat) (id : bytes) (tdone : bool) : option nat * bytes :=
  match a with
  | [] => (idx, id)
  | x :: r =>
      let isid := plain_is s_id x in
      let istyp := plain_is s_type x in
      let idx' := if isid then Some i else idx in
      let id' := if isid then aval x else id in
      let tdone' := tdone || (negb isid && istyp) in
      match idx', tdone' with
      | Some _, true => (idx', id')
      | _, _ => get_id_typ r (S i) idx' id' tdone'
      end
  end.

Fixpoint set_val (a : list attr) (i : nat) (v : bytes) : list attr :=
  match a, i with
  | [], _ => []
  | x :: r, O => mkattr (aname x) v :: r
  | x :: r, S i' => x :: set_val r i' v
  end.

(* the id handling of SendIQ / SendMessage / SendPresence *)
Definition fill_id (a : list attr) (newid : bytes) : list attr :=
  match get_id_typ a 0 None [] false with
  | (None, _) => a ++ [id_attr newid]
  | (Some i, id) => if is_empty id then set_val a i newid else a
  end.

Inductive skind := KIQ | KMessage | KPresence.

Definition kind_local (k : skind) : bytes :=
  match k with KIQ => str "iq" | KMessage => str "message" | KPresence => str "presence" end.

Definition is_kind_name (k : skind) (n : name) : bool :=
  bytes_eqb (nlocal n) (kind_local k) && in_list (nspace n) so_stanza_spaces.

(* values handed to Encode / EncodeElement *)
Inductive value :=
| VWriterTo (toks : list token) (werr : bool)   (* xmlstream.WriterTo: the tokens it writes *)
| VReader (r : reader)                          (* xmlstream.Marshaler or xml.TokenReader *)
| VStruct (raw : list token) (merr : bool).     (* anything else: RawToken view of xml.Marshal's output *)

(* rawTokenReader with resolve: attribute prefixes are replaced by the name
   spaces they are bound to, prefix declarations are dropped *)
Definition binding := (Z * (bytes * bytes))%type.

Fixpoint lookup_prefix (bs : list binding) (p : bytes) : option bytes :=
  match bs with
  | [] => None
  | (_, (q, u)) :: r => if bytes_eqb p q then Some u else lookup_prefix r p
  end.

Definition decls_of (d : Z) (a : list attr) : list binding :=
  flat_map (fun x => if bytes_eqb (nspace (aname x)) s_xmlns then [(d, (nlocal (aname x), aval x))] else []) a.

Definition resolve_attr (bs : list binding) (x : attr) : list attr :=
  let sp := nspace (aname x) in
  if is_empty sp then [x]
  else if bytes_eqb sp s_xmlns then []
  else if bytes_eqb sp s_xml then [mkattr (mkname so_ns_xml (nlocal (aname x))) (aval x)]
  else match lookup_prefix bs sp with
       | Some u => [mkattr (mkname u (nlocal (aname x))) (aval x)]
       | None => [x]
       end.

Fixpoint pop_bindings (d : Z) (bs : list binding) : list binding :=
  match bs with
  | (d', b) :: r => if d <=? d' then pop_bindings d r else bs
  | [] => []
  end.

(* bindings are kept innermost first *)
Fixpoint resolve_raw (d : Z) (bs : list binding) (ts : list token) : list token :=
  match ts with
  | [] => []
  | TStart n a :: r =>
      let d' := d + 1 in
      let bs' := rev (decls_of d' a) ++ bs in
      TStart n (flat_map (resolve_attr bs') a) :: resolve_raw d' bs' r
  | TEnd n :: r => TEnd n :: resolve_raw (d - 1) (pop_bindings d bs) r
  | t :: r => t :: resolve_raw d bs r
  end.

(* outerWriter: the outermost elements are renamed to the start element and
   carry its attributes followed by their own (minus the xmlns declaration) *)
Definition is_plain_xmlns (x : attr) : bool := plain_is s_xmlns x.

Fixpoint replace_outer (sn : name) (sa : list attr) (d : Z) (ts : list token) : list token :=
  match ts with
  | [] => []
  | TStart n a :: r =>
      (if d =? 0 then TStart sn (sa ++ filter (fun x => negb (is_plain_xmlns x)) a) else TStart n a)
      :: replace_outer sn sa (d + 1) r
  | TEnd n :: r =>
      (if d - 1 =? 0 then TEnd sn else TEnd n) :: replace_outer sn sa (d - 1) r
  | t :: r => t :: replace_outer sn sa d r
  end.

(* marshal.EncodeXML: WriterTo values are not flushed (known defect, see
   design/C05.md); everything else is copied and flushed *)
Definition value_tokens (v : value) : list token :=
  match v with
  | VWriterTo toks _ => toks
  | VReader r => r_toks r
  | VStruct raw _ => resolve_raw 0 [] raw
  end.

Definition value_tail (v : value) : list prim :=
  match v with
  | VWriterTo _ werr => if werr then [PFail EOther] else []
  | VReader r => if r_fail r then [PFail EReader] else [PFlush]
  | VStruct _ _ => [PFlush]
  end.

Definition value_merr (v : value) : bool := match v with VStruct _ true => true | _ => false end.

Definition compile_encode (v : value) : list prim :=
  check_open ::
  (if value_merr v then [PFail EMarshal] else map PTok (value_tokens v) ++ value_tail v).

Definition compile_encode_element (v : value) (sn : name) (sa : list attr) : list prim :=
  check_open ::
  (if value_merr v then [PFail EMarshal]
   else map PTok (replace_outer sn sa 0 (value_tokens v)) ++ value_tail v).

(* operations on the writer returned by TokenWriter, before its Close *)
Inductive twop := TwTok (t : token) | TwFlush.

Definition twop_prim (o : twop) : prim := match o with TwTok t => PLwcTok t | TwFlush => PLwcFlush end.

Inductive call :=
| CSend (r : reader)
| CSendElement (r : reader) (sn : name) (sa : list attr)
| CSendX (k : skind) (r : reader) (newid : bytes)   (* SendIQ, SendMessage, SendPresence and their Element / Encode variants *)
| CEncode (v : value)
| CEncodeElement (v : value) (sn : name) (sa : list attr)
| CTokenWriter (ops : list twop)                    (* TokenWriter, ops, Close *)
| CReply (toks : list token)                        (* handler reply: deferWriter, Flush, Close *)
| CClose
| CSendError (toks : list token).                   (* sendError with the tokens of the stream error *)

(* what a call does: a static failure before the lock is taken, or a region *)
Inductive compiled := Static (r : res) | Region (rg : region).

Definition compile (cl : call) : compiled :=
  match cl with
  | CSend r => Region (compile_send r, true)
  | CSendElement r sn sa => Region (compile_send_element r sn sa, true)
  | CSendX k r newid =>
      match r_toks r with
      | [] => Static (RErr (if r_fail r then EReader else EEof))
      | TStart n a :: rest =>
          if is_kind_name k n then
            Region (check_open :: PTok (TStart n (fill_id a newid))
                    :: body_prims (inner 0 rest) (inner_complete 0 rest) (r_fail r) n, true)
          else Static (RErr EStatic)
      | _ :: _ => Static (RErr EStatic)
      end
  | CEncode v => Region (compile_encode v, true)
  | CEncodeElement v sn sa => Region (compile_encode_element v sn sa, true)
  | CTokenWriter ops => Region (map twop_prim ops ++ [PLwcFlush], false)
  | CReply toks =>
      match toks with
      | [] => Static ROk
      | _ => Region (map PLwcTok toks ++ [PLwcFlush; PLwcFlush], false)
      end
  | CClose => Region ([PCloseSession], true)
  | CSendError toks => Region (PCheckClosed EOrig :: map PTok toks ++ [PCloseSession], true)
  end.

(* the results a caller observes: for aborting regions the call's error, for
   the token writer one result per operation, for a handler one per token (the
   two flushes after the handler are Serve's) *)
Definition call_results (cl : call) (rg : region) (xs : list res) : list res :=
  match cl with
  | CReply toks => firstn (length toks) xs
  | _ => if snd rg then [first_err xs] else xs
  end.

Definition run_call (c : cfg) (o : ost) (cl : call) : ost * list res :=
  match compile cl with
  | Static r => (o, match cl with CReply _ => [] | _ => [r] end)
  | Region rg => let '(o', xs) := exec_region c o rg in (o', call_results cl rg xs)
  end.

Fixpoint run_calls (c : cfg) (o : ost) (cls : list call) : ost * list (list res) :=
  match cls with
  | [] => (o, [])
  | cl :: r => let '(o1, x) := run_call c o cl in
               let '(o2, xs) := run_calls c o1 r in (o2, x :: xs)
  end.

(* what has reached the connection: tokens up to the last flush, closing tags *)
Inductive witem := WTok (t : token) | WClose.

Fixpoint wire_of (buf : list token) (l : list ev) : list witem :=
  match l with
  | [] => []
  | EvTok t :: r => wire_of (buf ++ [t]) r
  | EvFlush :: r => map WTok buf ++ wire_of [] r
  | EvClose :: r => WClose :: wire_of buf r
  end.

Definition wire (o : ost) : list witem := wire_of [] (o_log o).

(* --------------------------------------------------------- schedule layer *)

(* the input side, as far as C10 needs it *)
Record ist := mkist { i_closed : bool; i_deadline : bool; i_fired : bool }.
Definition ist0 : ist := mkist false false false.

Inductive uprim :=
| UCloseInput            (* closeInputStream: set InputStreamClosed, cancel the context *)
| USetDeadline           (* SetCloseDeadline *)
| UFire                  (* environment: the close deadline passes; enabled once set *)
| UAwaitFired            (* Serve observes the expired deadline; enabled once fired *)
| URead                  (* lockReadCloser.Token: fails once InputStreamClosed is set *)
| UNote (r : res).       (* thread-local: record a value (Serve's return value) *)

Definition uguard (i : ist) (u : uprim) : bool :=
  match u with
  | UFire => i_deadline i && negb (i_fired i)
  | UAwaitFired => i_fired i
  | _ => true
  end.

Definition ustep (i : ist) (u : uprim) : ist * res :=
  match u with
  | UCloseInput => (mkist true (i_deadline i) (i_fired i), ROk)
  | USetDeadline => (mkist (i_closed i) true (i_fired i), ROk)
  | UFire => (mkist (i_closed i) (i_deadline i) true, ROk)
  | UAwaitFired => (i, ROk)
  | URead => (i, if i_closed i then RErr EClosedIn else ROk)
  | UNote r => (i, r)
  end.

Inductive segment := SLocked (rg : region) | SUnlocked (u : uprim).

(* t_cur: inside a region: the primitives still to perform and its abort flag *)
Record thread := mkthread { t_todo : list segment; t_cur : option region; t_res : list res }.

Definition thread_of (segs : list segment) : thread := mkthread segs None [].

(* g_acq (ghost): the regions entered so far, in the order of lock acquisition,
   with the acquiring thread; g_rlog (ghost): the results of the primitives
   performed inside regions, with the performing thread *)
Record gstate := mkg {
  g_out : ost; g_in : ist; g_lock : option nat; g_threads : list thread;
  g_acq : list (nat * region); g_rlog : list (nat * res) }.

Definition ginit (ids : list bytes) (ths : list thread) : gstate :=
  mkg (ost0 ids) ist0 None ths [] [].

Fixpoint set_nth {A} (l : list A) (i : nat) (x : A) : list A :=
  match l, i with
  | [], _ => []
  | _ :: r, O => x :: r
  | y :: r, S i' => y :: set_nth r i' x
  end.

(* one step of thread i. Primitive steps and the release do NOT consult g_lock. *)
Definition step (c : cfg) (g : gstate) (i : nat) : option gstate :=
  match nth_error (g_threads g) i with
  | None => None
  | Some th =>
      match t_cur th with
      | Some (p :: rest, ab) =>
          let '(o', x) := pstep c (g_out g) p in
          let cur' := if ab && is_err x then ([], ab) else (rest, ab) in
          Some (mkg o' (g_in g) (g_lock g)
                    (set_nth (g_threads g) i (mkthread (t_todo th) (Some cur') (t_res th ++ [x])))
                    (g_acq g) (g_rlog g ++ [(i, x)]))
      | Some ([], _) =>
          Some (mkg (g_out g) (g_in g) None
                    (set_nth (g_threads g) i (mkthread (t_todo th) None (t_res th)))
                    (g_acq g) (g_rlog g))
      | None =>
          match t_todo th with
          | [] => None
          | SLocked rg :: todo' =>
              match g_lock g with
              | Some _ => None
              | None =>
                  Some (mkg (g_out g) (g_in g) (Some i)
                            (set_nth (g_threads g) i (mkthread todo' (Some rg) (t_res th)))
                            (g_acq g ++ [(i, rg)]) (g_rlog g))
              end
          | SUnlocked u :: todo' =>
              if uguard (g_in g) u then
                let '(i', x) := ustep (g_in g) u in
                Some (mkg (g_out g) i' (g_lock g)
                          (set_nth (g_threads g) i (mkthread todo' None (t_res th ++ [x])))
                          (g_acq g) (g_rlog g))
              else None
          end
      end
  end.

(* sequential execution of regions in a given order, with the owners' results *)
Fixpoint exec_acq (c : cfg) (o : ost) (acq : list (nat * region)) : ost * list (nat * res) :=
  match acq with
  | [] => (o, [])
  | (i, rg) :: r =>
      let '(o1, xs) := exec_region c o rg in
      let '(o2, ys) := exec_acq c o1 r in
      (o2, map (pair i) xs ++ ys)
  end.

(* a thread that performs one call *)
Definition call_thread (cl : call) : thread :=
  match compile cl with
  | Static r => thread_of [SUnlocked (UNote r)]
  | Region rg => thread_of [SLocked rg]
  end.

Definition finished (g : gstate) : bool :=
  forallb (fun th => match t_todo th, t_cur th with [], None => true | _, _ => false end) (g_threads g).

(* ----------------------------------------- correspondence (case records) *)

(* One sequential scenario on a session (or on a bare stanza encoder): the calls
   in the order in which they held the output lock, the ids the library drew,
   the observed log at the encoder/connection and the observed results. *)
Record scase := mksc {
  sc_params : stream_params; sc_ids : list bytes; sc_calls : list call;
  sc_log : list ev; sc_res : list (list res) }.

Definition is_nil {A} (l : list A) : bool := match l with [] => true | _ => false end.

Definition scase_ok (x : scase) : bool :=
  let '(o, rs) := run_calls (cfg_of (sc_params x)) (ost0 (sc_ids x)) (sc_calls x) in
  list_eqb ev_eqb (o_log o) (sc_log x) && list_eqb (list_eqb res_eqb) rs (sc_res x)
  && is_nil (o_ids o).

Fixpoint failing {A} (ok : A -> bool) (i : nat) (l : list A) : list nat :=
  match l with
  | [] => []
  | x :: r => if ok x then failing ok (S i) r else i :: failing ok (S i) r
  end.
