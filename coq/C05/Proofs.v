(* C05/Proofs.v — lemmas about the output-side session model. *)
From Coq Require Import ZArith Lia.
From XV Require Import lib.Bytes lib.Lts gen.SessOut C05.Model C05.Spec.
Open Scope Z_scope.

(* ------------------------------------------------------------------ basics *)

Lemma is_empty_true b : is_empty b = true <-> b = [].
Proof. destruct b; simpl; split; intro H; congruence. Qed.

Lemma name_eqb_refl n : name_eqb n n = true.
Proof.
  unfold name_eqb. apply andb_true_iff. split; apply bytes_eqb_eq; reflexivity.
Qed.

Lemma name_eqb_eq a b : name_eqb a b = true <-> a = b.
Proof.
  split.
  - unfold name_eqb. intro H. apply andb_true_iff in H. destruct H as [H1 H2].
    apply bytes_eqb_eq in H1. apply bytes_eqb_eq in H2. destruct a, b. simpl in *. congruence.
  - intros ->. apply name_eqb_refl.
Qed.

Lemma bytes_eqb_refl b : bytes_eqb b b = true.
Proof. apply bytes_eqb_eq. reflexivity. Qed.

(* ------------------------------------------------------------------- trees *)

Lemma tokens_of_elem n a kids :
  tokens_of (Elem n a kids) = TStart n a :: forest_tokens kids ++ [TEnd n].
Proof.
  assert (H : (fix go (ks : list tree) : list token :=
                 match ks with [] => [] | k :: r => tokens_of k ++ go r end) kids = forest_tokens kids).
  { induction kids as [|k r IH]; [reflexivity|]. cbn [forest_tokens]. rewrite <- IH. reflexivity. }
  cbn [tokens_of]. rewrite H. reflexivity.
Qed.

Lemma forest_tokens_app f g : forest_tokens (f ++ g) = forest_tokens f ++ forest_tokens g.
Proof. induction f as [|k r IH]; [reflexivity|]. cbn [forest_tokens app]. rewrite IH, app_assoc. reflexivity. Qed.

Lemma wf_tree_elem n a kids : wf_tree (Elem n a kids) <-> nlocal n <> [] /\ wf_forest kids.
Proof.
  cbn [wf_tree]. split; intros [H1 H2]; split; try exact H1.
  - induction kids as [|k r IH]; [exact I|]. destruct H2 as [Hk Hr]. split; [exact Hk|apply IH; exact Hr].
  - induction kids as [|k r IH]; [exact I|]. destruct H2 as [Hk Hr]. split; [exact Hk|apply IH; exact Hr].
Qed.

(* induction over trees with the forest of children *)
Lemma tree_forest_ind (P : tree -> Prop) (Q : list tree -> Prop) :
  (forall n a kids, Q kids -> P (Elem n a kids)) ->
  (forall b, P (Text b)) -> (forall k x y, P (Misc k x y)) ->
  Q [] -> (forall t r, P t -> Q r -> Q (t :: r)) ->
  forall t, P t.
Proof.
  intros HE HT HM HQ0 HQ1.
  fix IH 1. intros [n a kids|b|k x y]; [|apply HT|apply HM].
  apply HE. induction kids as [|t r IHr]; [exact HQ0|]. apply HQ1; [apply IH|exact IHr].
Qed.

Lemma forest_ind' (P : tree -> Prop) (Q : list tree -> Prop) :
  (forall n a kids, Q kids -> P (Elem n a kids)) ->
  (forall b, P (Text b)) -> (forall k x y, P (Misc k x y)) ->
  Q [] -> (forall t r, P t -> Q r -> Q (t :: r)) ->
  forall f, Q f.
Proof.
  intros HE HT HM HQ0 HQ1 f. induction f as [|t r IH]; [exact HQ0|].
  apply HQ1; [|exact IH]. apply (tree_forest_ind P Q); assumption.
Qed.

(* ------------------------------------- the attribute completion, specified *)

Lemma s_id_from_diff : bytes_eqb s_from s_id = false.
Proof. reflexivity. Qed.

Lemma plain_id_not_from x : plain_is s_id x = true -> plain_is s_from x = false.
Proof.
  unfold plain_is. intro H. apply andb_true_iff in H. destruct H as [_ H].
  apply bytes_eqb_eq in H. rewrite H. apply andb_false_r.
Qed.

Lemma idfrom_filter_spec a :
  idfrom_filter a = (filter (fun x => negb (dropped x)) a, (has_nonempty s_id a, has_nonempty s_from a)).
Proof.
  induction a as [|x r IH]; [reflexivity|].
  cbn [idfrom_filter filter has_nonempty existsb]. rewrite IH.
  unfold dropped, has_nonempty.
  destruct (plain_is s_id x) eqn:Eid.
  - rewrite (plain_id_not_from x Eid). destruct (is_empty (aval x)); reflexivity.
  - destruct (plain_is s_from x) eqn:Ef; destruct (is_empty (aval x)); reflexivity.
Qed.

Lemma complete_start_spec c id n a :
  complete_start c id n a =
  (if is_empty (nspace n) then mkname (c_ns c) (nlocal n) else n,
   spec_attrs c id a, negb (has_nonempty s_id a)).
Proof.
  unfold complete_start, spec_attrs. rewrite idfrom_filter_spec.
  destruct (negb (is_empty (c_from c)) && negb (has_nonempty s_from a));
    destruct (has_nonempty s_id a); cbn [negb]; rewrite <- ?app_assoc, ?app_nil_r; reflexivity.
Qed.

(* --- properties of the specification (they are what the property asks for) --- *)

Lemma has_nonempty_app l a b : has_nonempty l (a ++ b) = has_nonempty l a || has_nonempty l b.
Proof. unfold has_nonempty. apply existsb_app. Qed.

Lemma has_nonempty_filter_kept l a :
  has_nonempty l (filter (fun x => negb (dropped x)) a) = has_nonempty l a.
Proof.
  induction a as [|x r IH]; [reflexivity|].
  cbn [filter]. destruct (dropped x) eqn:D; cbn [negb has_nonempty existsb].
  - fold (has_nonempty l r). fold (has_nonempty l (filter (fun x => negb (dropped x)) r)). rewrite IH.
    unfold dropped in D. apply andb_true_iff in D. destruct D as [_ D]. rewrite D.
    cbn [negb]. rewrite andb_false_r. reflexivity.
  - fold (has_nonempty l r). fold (has_nonempty l (filter (fun x => negb (dropped x)) r)). rewrite IH. reflexivity.
Qed.

(* a completed stanza carries a non-empty id, given a non-empty fresh id *)
Lemma spec_attrs_has_id c id a : id <> [] -> has_nonempty s_id (spec_attrs c id a) = true.
Proof.
  intro Hid. unfold spec_attrs. rewrite !has_nonempty_app, has_nonempty_filter_kept.
  destruct (has_nonempty s_id a) eqn:E; [reflexivity|].
  rewrite orb_false_l. apply orb_true_iff. right.
  unfold has_nonempty, id_attr, plain_is. cbn [existsb aname nlocal nspace aval is_empty andb].
  rewrite bytes_eqb_refl. destruct id; [congruence|reflexivity].
Qed.

(* on a server-to-server stream it carries a non-empty from *)
Lemma spec_attrs_has_from c id a : c_from c <> [] -> has_nonempty s_from (spec_attrs c id a) = true.
Proof.
  intro Hf. unfold spec_attrs. rewrite !has_nonempty_app, has_nonempty_filter_kept.
  destruct (has_nonempty s_from a) eqn:E; [reflexivity|].
  assert (Hne : is_empty (c_from c) = false) by (destruct (c_from c); [congruence|reflexivity]).
  rewrite Hne. cbn [negb andb orb].
  unfold has_nonempty at 1, from_attr, plain_is. cbn [existsb aname nlocal nspace aval is_empty andb].
  rewrite bytes_eqb_refl, Hne. reflexivity.
Qed.

(* nothing else is altered: the attributes that are kept are the caller's, in
   order; at most a from and an id are appended *)
Lemma spec_attrs_shape c id a :
  exists extra, spec_attrs c id a = filter (fun x => negb (dropped x)) a ++ extra /\
    incl extra [from_attr (c_from c); id_attr id].
Proof.
  unfold spec_attrs. eexists. split; [reflexivity|].
  destruct (negb (is_empty (c_from c)) && negb (has_nonempty s_from a)); destruct (has_nonempty s_id a);
    intros x Hx; cbn in Hx |- *; tauto.
Qed.

Lemma strip_xmlns_no_xmlns n a x :
  nspace n <> [] -> In x (strip_xmlns n a) -> is_xmlns_attr x = false.
Proof.
  intros Hn Hin. unfold strip_xmlns in Hin.
  destruct (is_empty (nspace n)) eqn:E; [apply is_empty_true in E; congruence|].
  apply filter_In in Hin. destruct Hin as [_ H]. destruct (is_xmlns_attr x); [discriminate|reflexivity].
Qed.

(* ------------------------------------------ the element layer: emitting *)

Lemma allok_repeat n : allok (repeat ROk n) = true.
Proof. induction n; [reflexivity|exact IHn]. Qed.

Lemma allok_app a b : allok (a ++ b) = allok a && allok b.
Proof. apply forallb_app. Qed.

Lemma first_err_allok xs : allok xs = true -> first_err xs = ROk.
Proof.
  induction xs as [|x r IH]; [reflexivity|]. cbn [allok forallb]. intro H.
  apply andb_true_iff in H. destruct H as [H1 H2]. destruct x; [apply IH; exact H2|discriminate].
Qed.

Lemma exec_prims_app c o p1 p2 ab o1 x1 :
  exec_prims c o p1 ab = (o1, x1) -> allok x1 = true ->
  exec_prims c o (p1 ++ p2) ab = let '(o2, x2) := exec_prims c o1 p2 ab in (o2, x1 ++ x2).
Proof.
  revert o o1 x1. induction p1 as [|p r IH]; intros o o1 x1 H Hok.
  - cbn [exec_prims] in H. injection H as <- <-. cbn [app]. destruct (exec_prims c o p2 ab); reflexivity.
  - cbn [exec_prims app] in H |- *. destruct (pstep c o p) as [oa x] eqn:Ep.
    destruct (ab && is_err x) eqn:Eab.
    + injection H as <- <-. cbn [allok forallb] in Hok.
      apply andb_true_iff in Eab. destruct Eab as [_ Ee]. rewrite Ee in Hok. discriminate.
    + destruct (exec_prims c oa r ab) as [ob xs] eqn:Er. injection H as <- <-.
      cbn [allok forallb] in Hok. apply andb_true_iff in Hok. destruct Hok as [_ Hok].
      rewrite (IH oa ob xs Er Hok). destruct (exec_prims c ob p2 ab); reflexivity.
Qed.

Lemma exec_prims_cons_ok c o p r ab o1 :
  pstep c o p = (o1, ROk) ->
  exec_prims c o (p :: r) ab = let '(o2, xs) := exec_prims c o1 r ab in (o2, ROk :: xs).
Proof. intro H. cbn [exec_prims]. rewrite H. cbn [is_err]. rewrite andb_false_r. reflexivity. Qed.

Lemma exec_prims_one_ok c o p ab o1 :
  pstep c o p = (o1, ROk) -> exec_prims c o [p] ab = (o1, [ROk]).
Proof. intro H. rewrite (exec_prims_cons_ok c o p [] ab o1 H). reflexivity. Qed.

(* characterisation of [emit], token by token *)
Lemma emit_start_deep c d st lg cl ids n a :
  d <> 0 -> nlocal n <> [] ->
  emit c (mkost d st lg cl ids) (TStart n a) =
  (mkost (d + 1) (n :: st) (lg ++ [EvTok (TStart n (strip_xmlns n a))]) cl ids, ROk).
Proof.
  intros Hd Hn. unfold emit, se_token. cbn [o_depth o_stack o_log o_closed o_ids].
  replace (d + 1 =? 1) with false by (symmetry; apply Z.eqb_neq; lia).
  cbn [andb enc_accept].
  destruct (is_empty (nlocal n)) eqn:En; [apply is_empty_true in En; congruence|]. reflexivity.
Qed.

Lemma emit_end_deep c d st lg cl ids n :
  d <> 1 ->
  emit c (mkost d (n :: st) lg cl ids) (TEnd n) =
  (mkost (d - 1) st (lg ++ [EvTok (TEnd n)]) cl ids, ROk).
Proof.
  intros Hd. unfold emit, se_token. cbn [o_depth o_stack o_log o_closed o_ids].
  replace (d =? 1) with false by (symmetry; apply Z.eqb_neq; lia).
  cbn [andb enc_accept]. rewrite name_eqb_refl. reflexivity.
Qed.

Lemma emit_text c d st lg cl ids b :
  emit c (mkost d st lg cl ids) (TText b) = (mkost d st (lg ++ [EvTok (TText b)]) cl ids, ROk).
Proof. reflexivity. Qed.

Lemma emit_misc c d st lg cl ids k x y :
  emit c (mkost d st lg cl ids) (TMisc k x y) = (mkost d st (lg ++ [EvTok (TMisc k x y)]) cl ids, ROk).
Proof. reflexivity. Qed.

(* the name a top-level element gets *)
Definition top_name (c : cfg) (n : name) : name :=
  if is_stanza_name n && is_empty (nspace n) then mkname (c_ns c) (nlocal n) else n.

Definition top_attrs (c : cfg) (id : bytes) (n : name) (a : list attr) : list attr :=
  if is_stanza_name n then strip_xmlns (top_name c n) (spec_attrs c id a) else strip_xmlns n a.

Lemma emit_start_top c st lg cl ids n a :
  nlocal n <> [] ->
  emit c (mkost 0 st lg cl ids) (TStart n a) =
  (mkost 1 (top_name c n :: st)
         (lg ++ [EvTok (TStart (top_name c n) (top_attrs c (hd_id ids) n a))]) cl
         (pop_if (is_stanza_name n && negb (has_nonempty s_id a)) ids), ROk).
Proof.
  intros Hn. unfold emit, se_token, top_name, top_attrs. cbn [o_depth o_stack o_log o_closed o_ids].
  change (0 + 1 =? 1) with true. cbn [andb]. fold (hd_id ids). unfold next_id. cbn [o_ids]. fold (hd_id ids).
  destruct (is_stanza_name n) eqn:Es; cbn [andb].
  - rewrite complete_start_spec. unfold top_name. rewrite Es. cbn [andb].
    assert (Hl : nlocal (if is_empty (nspace n) then mkname (c_ns c) (nlocal n) else n) = nlocal n)
      by (destruct (is_empty (nspace n)); reflexivity).
    cbn [enc_accept]. rewrite Hl.
    destruct (is_empty (nlocal n)) eqn:En; [apply is_empty_true in En; congruence|]. reflexivity.
  - cbn [enc_accept].
    destruct (is_empty (nlocal n)) eqn:En; [apply is_empty_true in En; congruence|]. reflexivity.
Qed.

Lemma emit_end_top c st lg cl ids n :
  emit c (mkost 1 (top_name c n :: st) lg cl ids) (TEnd n) =
  (mkost 0 st (lg ++ [EvTok (TEnd (top_name c n))]) cl ids, ROk).
Proof.
  unfold emit, se_token, top_name. cbn [o_depth o_stack o_log o_closed o_ids].
  change (1 =? 1) with true. cbn [andb].
  rewrite (andb_comm (is_empty (nspace n)) (is_stanza_name n)).
  cbn [enc_accept]. rewrite name_eqb_refl. reflexivity.
Qed.

(* below the top level a well-formed tree is emitted as itself, up to the xmlns
   rule, and leaves depth, stack, ids and the closed bit as they were *)
Definition deep_stmt (c : cfg) (ab : bool) (toks stoks : list token) : Prop :=
  forall d st lg cl ids, 1 <= d ->
  exec_prims c (mkost d st lg cl ids) (map PTok toks) ab =
  (mkost d st (lg ++ map EvTok stoks) cl ids, repeat ROk (length toks)).

Lemma deep_app c ab t1 s1 t2 s2 :
  deep_stmt c ab t1 s1 -> deep_stmt c ab t2 s2 -> deep_stmt c ab (t1 ++ t2) (s1 ++ s2).
Proof.
  intros H1 H2 d st lg cl ids Hd. rewrite !map_app.
  rewrite (exec_prims_app c _ _ _ ab _ _ (H1 d st lg cl ids Hd) (allok_repeat _)).
  rewrite (H2 d st _ cl ids Hd). rewrite <- app_assoc, app_length, repeat_app. reflexivity.
Qed.

Lemma emit_tree_deep c ab : forall t, wf_tree t -> deep_stmt c ab (tokens_of t) (tokens_of (strip_tree t)).
Proof.
  apply (tree_forest_ind
    (fun t => wf_tree t -> deep_stmt c ab (tokens_of t) (tokens_of (strip_tree t)))
    (fun f => wf_forest f -> deep_stmt c ab (forest_tokens f) (forest_tokens (map strip_tree f)))).
  - (* element *)
    intros n a kids IHk Hwf d st lg cl ids Hd.
    destruct (proj1 (wf_tree_elem n a kids) Hwf) as [Hn Hk].
    cbn [strip_tree]. rewrite !tokens_of_elem. cbn [map].
    rewrite (exec_prims_cons_ok c _ (PTok (TStart n a)) _ ab _ (emit_start_deep c d st lg cl ids n a ltac:(lia) Hn)).
    rewrite map_app.
    rewrite (exec_prims_app c _ _ _ ab _ _ (IHk Hk (d + 1) (n :: st) _ cl ids ltac:(lia)) (allok_repeat _)).
    cbn [map].
    rewrite (exec_prims_one_ok c _ (PTok (TEnd n)) ab _ (emit_end_deep c (d + 1) st _ cl ids n ltac:(lia))).
    f_equal.
    + f_equal; [lia|]. rewrite map_app. cbn [map]. rewrite <- !app_assoc. reflexivity.
    + cbn [length]. rewrite app_length. cbn [length]. rewrite Nat.add_1_r.
      cbn [repeat]. f_equal. rewrite <- repeat_cons. reflexivity.
  - intros b _ d st lg cl ids _. cbn [tokens_of strip_tree map length repeat].
    rewrite (exec_prims_one_ok c _ (PTok (TText b)) ab _ (emit_text c d st lg cl ids b)). reflexivity.
  - intros k x y _ d st lg cl ids _. cbn [tokens_of strip_tree map length repeat].
    rewrite (exec_prims_one_ok c _ (PTok (TMisc k x y)) ab _ (emit_misc c d st lg cl ids k x y)). reflexivity.
  - intros _ d st lg cl ids _. cbn [forest_tokens map exec_prims length repeat]. rewrite app_nil_r. reflexivity.
  - intros t r IHt IHr [Ht Hr]. cbn [forest_tokens map]. apply deep_app; [apply IHt; exact Ht|apply IHr; exact Hr].
Qed.

Lemma emit_forest_deep c ab f :
  wf_forest f -> deep_stmt c ab (forest_tokens f) (forest_tokens (map strip_tree f)).
Proof.
  induction f as [|t r IH]; intros Hwf.
  - intros d st lg cl ids _. cbn [forest_tokens map exec_prims length repeat]. rewrite app_nil_r. reflexivity.
  - destruct Hwf as [Ht Hr]. cbn [forest_tokens map]. apply deep_app; [apply emit_tree_deep; exact Ht|apply IH; exact Hr].
Qed.

Lemma spec_top_tokens c id n a kids :
  tokens_of (spec_top c id (Elem n a kids)) =
  TStart (top_name c n) (top_attrs c id n a) :: forest_tokens (map strip_tree kids) ++ [TEnd (top_name c n)].
Proof.
  unfold spec_top, top_name, top_attrs. destruct (is_stanza_name n) eqn:Es; cbn [andb].
  - rewrite tokens_of_elem. unfold top_name. rewrite Es. cbn [andb]. reflexivity.
  - rewrite tokens_of_elem. reflexivity.
Qed.

(* C05_element_denotation, operational form: at the top level (depth 0) the
   tokens of a well-formed element are emitted as the tokens of [spec_top] *)
Lemma emit_top c ab n a kids st lg cl ids :
  wf_tree (Elem n a kids) ->
  exec_prims c (mkost 0 st lg cl ids) (map PTok (tokens_of (Elem n a kids))) ab =
  (mkost 0 st (lg ++ map EvTok (tokens_of (spec_top c (hd_id ids) (Elem n a kids)))) cl
         (pop_if (needs_id (Elem n a kids)) ids),
   repeat ROk (length (tokens_of (Elem n a kids)))).
Proof.
  intro Hwf. destruct (proj1 (wf_tree_elem n a kids) Hwf) as [Hn Hk].
  rewrite spec_top_tokens, tokens_of_elem. cbn [map needs_id].
  rewrite (exec_prims_cons_ok c _ (PTok (TStart n a)) _ ab _ (emit_start_top c st lg cl ids n a Hn)).
  rewrite map_app.
  rewrite (exec_prims_app c _ _ _ ab _ _
             (emit_forest_deep c ab kids Hk 1 (top_name c n :: st) _ cl _ ltac:(lia)) (allok_repeat _)).
  cbn [map].
  rewrite (exec_prims_one_ok c _ (PTok (TEnd n)) ab _ (emit_end_top c st _ cl _ n)).
  f_equal.
  - f_equal. rewrite map_app. cbn [map]. rewrite <- !app_assoc. reflexivity.
  - cbn [length]. rewrite app_length. cbn [length]. rewrite Nat.add_1_r.
    cbn [repeat]. f_equal. rewrite <- repeat_cons. reflexivity.
Qed.

(* ------------------------------------------------ readers: Inner, outerWriter *)

Lemma inner_tree : forall t d rest,
  inner d (tokens_of t ++ rest) = tokens_of t ++ inner d rest /\
  inner_complete d (tokens_of t ++ rest) = inner_complete d rest.
Proof.
  apply (tree_forest_ind
    (fun t => forall d rest, inner d (tokens_of t ++ rest) = tokens_of t ++ inner d rest /\
                             inner_complete d (tokens_of t ++ rest) = inner_complete d rest)
    (fun f => forall d rest, inner d (forest_tokens f ++ rest) = forest_tokens f ++ inner d rest /\
                             inner_complete d (forest_tokens f ++ rest) = inner_complete d rest)).
  - intros n a kids IH d rest. rewrite tokens_of_elem. cbn [app inner inner_complete].
    rewrite <- app_assoc. destruct (IH (S d) ([TEnd n] ++ rest)) as [H1 H2].
    rewrite H1, H2. cbn [app inner inner_complete]. split; [|reflexivity].
    rewrite <- app_assoc. reflexivity.
  - intros b d rest. split; reflexivity.
  - intros k x y d rest. split; reflexivity.
  - intros d rest. split; reflexivity.
  - intros t r IHt IHr d rest. cbn [forest_tokens]. rewrite <- app_assoc.
    destruct (IHt d (forest_tokens r ++ rest)) as [H1 H2]. destruct (IHr d rest) as [H3 H4].
    rewrite H1, H2, H3, H4. split; [rewrite app_assoc; reflexivity|reflexivity].
Qed.

Lemma inner_forest f d rest :
  inner d (forest_tokens f ++ rest) = forest_tokens f ++ inner d rest /\
  inner_complete d (forest_tokens f ++ rest) = inner_complete d rest.
Proof.
  revert d rest. induction f as [|t r IH]; intros d rest; [split; reflexivity|].
  cbn [forest_tokens]. rewrite <- app_assoc.
  destruct (inner_tree t d (forest_tokens r ++ rest)) as [H1 H2]. destruct (IH d rest) as [H3 H4].
  rewrite H1, H2, H3, H4. split; [rewrite app_assoc; reflexivity|reflexivity].
Qed.

(* Inner of what follows the start token of an element is its content *)
Lemma inner_elem_rest kids n junk :
  inner 0 (forest_tokens kids ++ [TEnd n] ++ junk) = forest_tokens kids /\
  inner_complete 0 (forest_tokens kids ++ [TEnd n] ++ junk) = true.
Proof.
  destruct (inner_forest kids 0%nat ([TEnd n] ++ junk)) as [H1 H2]. rewrite H1, H2.
  cbn [app inner inner_complete]. rewrite app_nil_r. split; reflexivity.
Qed.

Lemma replace_outer_tree sn sa : forall t d rest, 1 <= d ->
  replace_outer sn sa d (tokens_of t ++ rest) = tokens_of t ++ replace_outer sn sa d rest.
Proof.
  apply (tree_forest_ind
    (fun t => forall d rest, 1 <= d ->
       replace_outer sn sa d (tokens_of t ++ rest) = tokens_of t ++ replace_outer sn sa d rest)
    (fun f => forall d rest, 1 <= d ->
       replace_outer sn sa d (forest_tokens f ++ rest) = forest_tokens f ++ replace_outer sn sa d rest)).
  - intros n a kids IH d rest Hd. rewrite tokens_of_elem. cbn [app replace_outer].
    replace (d =? 0) with false by (symmetry; apply Z.eqb_neq; lia).
    rewrite <- app_assoc, (IH (d + 1) ([TEnd n] ++ rest) ltac:(lia)).
    cbn [app replace_outer].
    replace (d + 1 - 1) with d by lia.
    replace (d =? 0) with false by (symmetry; apply Z.eqb_neq; lia).
    rewrite <- app_assoc. reflexivity.
  - intros b d rest _. reflexivity.
  - intros k x y d rest _. reflexivity.
  - intros d rest _. reflexivity.
  - intros t r IHt IHr d rest Hd. cbn [forest_tokens]. rewrite <- app_assoc.
    rewrite (IHt d _ Hd), (IHr d _ Hd), app_assoc. reflexivity.
Qed.

Lemma replace_outer_forest sn sa f d rest : 1 <= d ->
  replace_outer sn sa d (forest_tokens f ++ rest) = forest_tokens f ++ replace_outer sn sa d rest.
Proof.
  intro Hd. revert rest. induction f as [|t r IH]; intro rest; [reflexivity|].
  cbn [forest_tokens]. rewrite <- app_assoc, (replace_outer_tree sn sa t d _ Hd), IH, app_assoc. reflexivity.
Qed.

(* C05_start_is_outermost, token level: the outermost tag becomes the start *)
Lemma replace_outer_elem sn sa n a kids :
  replace_outer sn sa 0 (tokens_of (Elem n a kids)) = tokens_of (Elem sn (merged_attrs sa a) kids).
Proof.
  rewrite !tokens_of_elem. cbn [replace_outer]. change (0 =? 0) with true. cbn iota.
  rewrite (replace_outer_forest sn sa kids (0 + 1) [TEnd n] ltac:(lia)).
  cbn [replace_outer]. change (0 + 1 - 1 =? 0) with true. cbn iota. reflexivity.
Qed.

(* ----------------------------------------------- regions of transmit calls *)

Lemma pstep_lwc_tok_open c o t : o_closed o = false -> pstep c o (PLwcTok t) = pstep c o (PTok t).
Proof. intro H. cbn [pstep]. rewrite H. reflexivity. Qed.

Lemma emit_closed c o t : o_closed (fst (emit c o t)) = o_closed o.
Proof.
  unfold emit. destruct (se_token c (o_depth o) (next_id o) t) as [[t' d'] used].
  destruct (enc_accept (o_stack o) t'); reflexivity.
Qed.

Lemma exec_lwc_open c ab : forall toks o, o_closed o = false ->
  exec_prims c o (map PLwcTok toks) ab = exec_prims c o (map PTok toks) ab.
Proof.
  induction toks as [|t r IH]; intros o Ho; [reflexivity|].
  cbn [map exec_prims]. rewrite (pstep_lwc_tok_open c o t Ho). cbn [pstep].
  destruct (emit c o t) as [o1 x] eqn:E.
  assert (H1 : o_closed o1 = false).
  { pose proof (emit_closed c o t) as H. rewrite E in H. cbn [fst] in H. congruence. }
  rewrite (IH o1 H1). reflexivity.
Qed.

(* a region that tests the closed bit, emits the tokens of one element and flushes *)
Lemma exec_emit_flush c e st lg ids :
  is_elem e -> wf_tree e ->
  exec_prims c (mkost 0 st lg false ids) (check_open :: map PTok (tokens_of e) ++ [PFlush]) true =
  (mkost 0 st (lg ++ block c ids e 1) false (pop_if (needs_id e) ids),
   ROk :: repeat ROk (length (tokens_of e)) ++ [ROk]).
Proof.
  intros He Hwf. destruct e as [n a kids| |]; try contradiction.
  rewrite (exec_prims_cons_ok c _ check_open _ true (mkost 0 st lg false ids) eq_refl).
  rewrite (exec_prims_app c _ _ _ true _ _ (emit_top c true n a kids st lg false ids Hwf) (allok_repeat _)).
  cbn [exec_prims pstep flush o_depth o_stack o_log o_closed o_ids is_err andb].
  unfold block. cbn [repeat]. rewrite <- app_assoc. reflexivity.
Qed.

(* the same without the final flush: what Encode does for a WriterTo *)
Lemma exec_emit_noflush c e st lg ids :
  is_elem e -> wf_tree e ->
  exec_prims c (mkost 0 st lg false ids) (check_open :: map PTok (tokens_of e) ++ []) true =
  (mkost 0 st (lg ++ block c ids e 0) false (pop_if (needs_id e) ids),
   ROk :: repeat ROk (length (tokens_of e)) ++ []).
Proof.
  intros He Hwf. destruct e as [n a kids| |]; try contradiction.
  rewrite (exec_prims_cons_ok c _ check_open _ true (mkost 0 st lg false ids) eq_refl).
  rewrite (exec_prims_app c _ _ _ true _ _ (emit_top c true n a kids st lg false ids Hwf) (allok_repeat _)).
  cbn [exec_prims]. unfold block. cbn [repeat]. rewrite !app_nil_r. reflexivity.
Qed.

(* the token writer: tokens through the locked writer, then nflush flushes *)
Lemma exec_lwc_flush c e st lg ids nflush :
  is_elem e -> wf_tree e ->
  exec_prims c (mkost 0 st lg false ids) (map PLwcTok (tokens_of e) ++ repeat PLwcFlush nflush) false =
  (mkost 0 st (lg ++ block c ids e nflush) false (pop_if (needs_id e) ids),
   repeat ROk (length (tokens_of e)) ++ repeat ROk nflush).
Proof.
  intros He Hwf. destruct e as [n a kids| |]; try contradiction.
  assert (H : exec_prims c (mkost 0 st lg false ids) (map PLwcTok (tokens_of (Elem n a kids))) false = _)
    by (rewrite exec_lwc_open by reflexivity; apply (emit_top c false n a kids st lg false ids Hwf)).
  rewrite (exec_prims_app c _ _ _ false _ _ H (allok_repeat _)).
  unfold block. set (lg1 := lg ++ map EvTok _).
  set (ids1 := pop_if _ ids). clearbody ids1. clear H.
  assert (G : forall k lg2, exec_prims c (mkost 0 st lg2 false ids1) (repeat PLwcFlush k) false =
                            (mkost 0 st (lg2 ++ repeat EvFlush k) false ids1, repeat ROk k)).
  { induction k as [|k IH]; intro lg2.
    - cbn [repeat exec_prims]. rewrite app_nil_r. reflexivity.
    - cbn [repeat exec_prims pstep o_closed flush o_depth o_stack o_log o_ids is_err andb].
      rewrite IH. rewrite <- app_assoc. reflexivity. }
  rewrite G. subst lg1. rewrite <- app_assoc. reflexivity.
Qed.

Lemma denotes_elem cl e k : denotes cl e k -> is_elem e.
Proof. intro H. destruct H; exact I. Qed.

Lemma map_twop_prim toks : map twop_prim (map TwTok toks) = map PLwcTok toks.
Proof. induction toks as [|t r IH]; [reflexivity|]. cbn [map twop_prim]. rewrite IH. reflexivity. Qed.

Lemma body_prims_elem n a kids junk fail :
  PTok (TStart n a) :: body_prims (inner 0 (forest_tokens kids ++ [TEnd n] ++ junk))
                                  (inner_complete 0 (forest_tokens kids ++ [TEnd n] ++ junk)) fail n =
  map PTok (tokens_of (Elem n a kids)) ++ [PFlush].
Proof.
  destruct (inner_elem_rest kids n junk) as [H1 H2]. rewrite H1, H2.
  unfold body_prims. cbn [negb andb]. rewrite tokens_of_elem. cbn [map]. rewrite map_app. cbn [map app].
  rewrite <- app_assoc. reflexivity.
Qed.

Lemma compile_send_elem n a kids junk fail :
  compile_send (mkreader (tokens_of (Elem n a kids) ++ junk) fail) =
  check_open :: map PTok (tokens_of (Elem n a kids)) ++ [PFlush].
Proof.
  unfold compile_send. cbn [r_toks r_fail]. rewrite tokens_of_elem at 1. cbn [app]. rewrite <- app_assoc.
  rewrite body_prims_elem. reflexivity.
Qed.

Lemma compile_send_element_elem f sn sa :
  compile_send_element (mkreader (forest_tokens f) false) sn sa =
  check_open :: map PTok (tokens_of (Elem sn sa f)) ++ [PFlush].
Proof.
  unfold compile_send_element, body_prims. cbn [r_toks r_fail negb andb].
  rewrite tokens_of_elem. cbn [map]. rewrite map_app. cbn [map app]. rewrite <- app_assoc. reflexivity.
Qed.

Lemma compile_sendx_elem k n a kids junk fail newid :
  is_kind_name k n = true ->
  compile (CSendX k (mkreader (tokens_of (Elem n a kids) ++ junk) fail) newid) =
  Region (check_open :: map PTok (tokens_of (Elem n (fill_id a newid) kids)) ++ [PFlush], true).
Proof.
  intro H. cbn [compile r_toks r_fail]. rewrite tokens_of_elem at 1. cbn [app]. rewrite H.
  rewrite <- app_assoc. rewrite body_prims_elem. reflexivity.
Qed.

Lemma emit_flush_ok c e st lg ids :
  wf_tree e -> is_elem e ->
  exists xs, exec_region c (mkost 0 st lg false ids) (check_open :: map PTok (tokens_of e) ++ [PFlush], true) =
    (mkost 0 st (lg ++ block c ids e 1) false (pop_if (needs_id e) ids), xs) /\ allok xs = true.
Proof.
  intros Hwf He. eexists. split.
  - unfold exec_region. cbn [fst snd]. apply (exec_emit_flush c e st lg ids He Hwf).
  - cbn [allok forallb is_err negb andb]. fold (allok (repeat ROk (length (tokens_of e)) ++ [ROk])).
    rewrite allok_app, allok_repeat. reflexivity.
Qed.

Lemma emit_noflush_ok c e st lg ids :
  wf_tree e -> is_elem e ->
  exists xs, exec_region c (mkost 0 st lg false ids) (check_open :: map PTok (tokens_of e) ++ [], true) =
    (mkost 0 st (lg ++ block c ids e 0) false (pop_if (needs_id e) ids), xs) /\ allok xs = true.
Proof.
  intros Hwf He. eexists. split.
  - unfold exec_region. cbn [fst snd]. apply (exec_emit_noflush c e st lg ids He Hwf).
  - cbn [allok forallb is_err negb andb]. rewrite app_nil_r. apply allok_repeat.
Qed.

(* every call that denotes an element compiles to a region which, run on an open
   session between elements, appends exactly that element's block *)
Lemma denotes_region c cl e k st lg ids :
  denotes cl e k -> wf_tree e ->
  exists rg xs, compile cl = Region rg /\
    exec_region c (mkost 0 st lg false ids) rg =
      (mkost 0 st (lg ++ block c ids e k) false (pop_if (needs_id e) ids), xs) /\
    allok xs = true.
Proof.
  intros Hd Hwf. destruct Hd.
  - destruct (emit_flush_ok c _ st lg ids Hwf I) as [xs [H1 H2]].
    eexists. exists xs. split; [cbn [compile]; rewrite compile_send_elem; reflexivity|]. split; assumption.
  - destruct (emit_flush_ok c _ st lg ids Hwf I) as [xs [H1 H2]].
    eexists. exists xs. split; [cbn [compile]; rewrite compile_send_element_elem; reflexivity|]. split; assumption.
  - destruct (emit_flush_ok c _ st lg ids Hwf I) as [xs [H1 H2]].
    eexists. exists xs. split; [apply compile_sendx_elem; assumption|]. split; assumption.
  - destruct (emit_flush_ok c _ st lg ids Hwf I) as [xs [H1 H2]].
    eexists. exists xs. split; [cbn [compile]; reflexivity|]. split; assumption.
  - destruct (emit_flush_ok c _ st lg ids Hwf I) as [xs [H1 H2]].
    eexists. exists xs. split; [|split; [exact H1|exact H2]].
    cbn [compile]. unfold compile_encode. cbn [value_merr value_tokens value_tail]. rewrite H. reflexivity.
  - destruct (emit_noflush_ok c _ st lg ids Hwf I) as [xs [H1 H2]].
    eexists. exists xs. split; [cbn [compile]; reflexivity|]. split; assumption.
  - destruct (emit_flush_ok c _ st lg ids Hwf I) as [xs [H1 H2]].
    eexists. exists xs. split; [|split; [exact H1|exact H2]].
    cbn [compile]. unfold compile_encode_element. cbn [value_merr value_tokens value_tail r_toks r_fail].
    rewrite replace_outer_elem. reflexivity.
  - destruct (emit_flush_ok c _ st lg ids Hwf I) as [xs [H1 H2]].
    eexists. exists xs. split; [|split; [exact H1|exact H2]].
    cbn [compile]. unfold compile_encode_element. cbn [value_merr value_tokens value_tail]. rewrite H.
    rewrite replace_outer_elem. reflexivity.
  - destruct (emit_noflush_ok c _ st lg ids Hwf I) as [xs [H1 H2]].
    eexists. exists xs. split; [|split; [exact H1|exact H2]].
    cbn [compile]. unfold compile_encode_element. cbn [value_merr value_tokens value_tail].
    rewrite replace_outer_elem. reflexivity.
  - eexists. eexists. split; [cbn [compile]; reflexivity|].
    unfold exec_region. cbn [fst snd]. rewrite map_twop_prim.
    change [PLwcFlush] with (repeat PLwcFlush 1).
    rewrite (exec_lwc_flush c (Elem n a kids) st lg ids 1 I Hwf). split; [reflexivity|].
    rewrite allok_app, !allok_repeat. reflexivity.
  - eexists. eexists. split.
    + cbn [compile]. rewrite tokens_of_elem. reflexivity.
    + unfold exec_region. cbn [fst snd]. rewrite <- tokens_of_elem.
      change [PLwcFlush; PLwcFlush] with (repeat PLwcFlush 2).
      rewrite (exec_lwc_flush c (Elem n a kids) st lg ids 2 I Hwf). split; [reflexivity|].
      rewrite allok_app, !allok_repeat. reflexivity.
Qed.

(* --------------------------------------------- sequences of transmit calls *)

(* a region that is the compilation of a call denoting a well-formed element *)
Definition region_denotes (rg : region) (ek : tree * nat) : Prop :=
  exists cl, compile cl = Region rg /\ denotes cl (fst ek) (snd ek) /\ wf_tree (fst ek).

Lemma exec_acq_denotes c : forall acq es,
  Forall2 (fun x ek => region_denotes (snd x) ek) acq es ->
  forall st lg ids,
  exists rs, exec_acq c (mkost 0 st lg false ids) acq =
    (mkost 0 st (lg ++ seq_log c ids es) false (seq_ids ids es), rs) /\
    allok (map snd rs) = true.
Proof.
  induction acq as [|[i rg] r IH]; intros es HF st lg ids.
  - inversion HF; subst. exists []. cbn [exec_acq seq_log seq_ids map allok forallb]. rewrite app_nil_r. split; reflexivity.
  - inversion HF as [|x ek r' es' Hx Hr]; subst. destruct ek as [e k].
    destruct Hx as [cl [Hc [Hd Hwf]]]. cbn [fst snd] in Hc, Hd, Hwf.
    destruct (denotes_region c cl e k st lg ids Hd Hwf) as [rg' [xs [Hc' [He Hok]]]].
    rewrite Hc in Hc'. injection Hc' as <-.
    destruct (IH es' Hr st (lg ++ block c ids e k) (pop_if (needs_id e) ids)) as [rs [Hrs Hrok]].
    exists (map (pair i) xs ++ rs). cbn [exec_acq seq_log seq_ids]. rewrite He, Hrs. split.
    + rewrite <- app_assoc. reflexivity.
    + rewrite map_app, map_map. cbn [snd]. rewrite map_id. rewrite allok_app, Hok, Hrok. reflexivity.
Qed.

(* ------------------------------------------------- the schedule layer (LTS) *)

Lemma nth_error_set_nth_eq {A} (l : list A) i x y :
  nth_error l i = Some y -> nth_error (set_nth l i x) i = Some x.
Proof.
  revert i. induction l as [|z r IH]; intros [|i] H; cbn in H |- *; try discriminate; [reflexivity|].
  apply IH. exact H.
Qed.

Lemma nth_error_set_nth_neq {A} (l : list A) i j x :
  i <> j -> nth_error (set_nth l i x) j = nth_error l j.
Proof.
  revert i j. induction l as [|z r IH]; intros [|i] [|j] H; cbn; try reflexivity; try congruence.
  apply IH. congruence.
Qed.

Lemma set_nth_length {A} (l : list A) i x : length (set_nth l i x) = length l.
Proof. revert i. induction l as [|z r IH]; intros [|i]; cbn; try reflexivity. rewrite IH. reflexivity. Qed.

Lemma exec_acq_snoc c o acq i rg :
  exec_acq c o (acq ++ [(i, rg)]) =
  let '(o1, r1) := exec_acq c o acq in
  let '(o2, xs) := exec_region c o1 rg in (o2, r1 ++ map (pair i) xs).
Proof.
  revert o. induction acq as [|[j rg'] r IH]; intro o.
  - cbn [app exec_acq]. destruct (exec_region c o rg) as [o2 xs]. rewrite app_nil_r. reflexivity.
  - cbn [app exec_acq]. destruct (exec_region c o rg') as [o1 xs1]. rewrite IH.
    destruct (exec_acq c o1 r) as [o2 r2]. destruct (exec_region c o2 rg) as [o3 xs].
    rewrite app_assoc. reflexivity.
Qed.

(* what the output state will be once the lock holder has finished its region *)
Definition finish (c : cfg) (g : gstate) : ost * list (nat * res) :=
  match g_lock g with
  | Some i =>
      match nth_error (g_threads g) i with
      | Some th =>
          match t_cur th with
          | Some (ps, ab) => let '(o, xs) := exec_prims c (g_out g) ps ab in (o, g_rlog g ++ map (pair i) xs)
          | None => (g_out g, g_rlog g)
          end
      | None => (g_out g, g_rlog g)
      end
  | None => (g_out g, g_rlog g)
  end.

Fixpoint locked_of (segs : list segment) : list region :=
  match segs with
  | [] => []
  | SLocked rg :: r => rg :: locked_of r
  | SUnlocked _ :: r => locked_of r
  end.

Definition acq_of (i : nat) (acq : list (nat * region)) : list region :=
  map snd (filter (fun e => Nat.eqb (fst e) i) acq).

Lemma acq_of_snoc_eq i acq rg : acq_of i (acq ++ [(i, rg)]) = acq_of i acq ++ [rg].
Proof. unfold acq_of. rewrite filter_app, map_app. cbn [filter fst]. rewrite Nat.eqb_refl. reflexivity. Qed.

Lemma acq_of_snoc_neq i j acq rg : i <> j -> acq_of j (acq ++ [(i, rg)]) = acq_of j acq.
Proof.
  intro H. unfold acq_of. rewrite filter_app, map_app. cbn [filter fst].
  destruct (Nat.eqb i j) eqn:E; [apply Nat.eqb_eq in E; congruence|]. cbn [map]. apply app_nil_r.
Qed.

(* the invariant: mutual exclusion, serialisation, provenance of the regions *)
Record Inv (c : cfg) (ids : list bytes) (ths : list thread) (g : gstate) : Prop := mkInv {
  inv_in : forall j th, nth_error (g_threads g) j = Some th -> t_cur th <> None -> g_lock g = Some j;
  inv_holder : forall j, g_lock g = Some j ->
               exists th, nth_error (g_threads g) j = Some th /\ t_cur th <> None;
  inv_serial : finish c g = exec_acq c (ost0 ids) (g_acq g);
  inv_len : length (g_threads g) = length ths;
  inv_prov : forall j th0 th, nth_error ths j = Some th0 -> nth_error (g_threads g) j = Some th ->
             locked_of (t_todo th0) = acq_of j (g_acq g) ++ locked_of (t_todo th);
  inv_idx : forall j rg, In (j, rg) (g_acq g) -> (j < length ths)%nat
}.

Lemma inv_init c ids ths :
  Forall (fun th => t_cur th = None) ths -> Inv c ids ths (ginit ids ths).
Proof.
  intro H. constructor; cbn [ginit g_threads g_lock g_acq g_out g_rlog].
  - intros j th Hj Hc. exfalso. apply Hc.
    rewrite Forall_forall in H. apply H. eapply nth_error_In. exact Hj.
  - intros j Hj. discriminate.
  - reflexivity.
  - reflexivity.
  - intros j th0 th H0 H1. rewrite H0 in H1. injection H1 as <-. reflexivity.
  - intros j rg [].
Qed.

Lemma inv_step c ids ths g i g' :
  Inv c ids ths g -> step c g i = Some g' -> Inv c ids ths g'.
Proof.
  intros [Hin Hho Hser Hlen Hprov Hidx] Hstep. unfold step in Hstep.
  destruct (nth_error (g_threads g) i) as [th|] eqn:Ei; [|discriminate].
  destruct (t_cur th) as [[ps ab]|] eqn:Ecur.
  - (* inside a region: thread i is the lock holder *)
    assert (Hlock : g_lock g = Some i) by (apply (Hin i th Ei); rewrite Ecur; discriminate).
    destruct ps as [|p rest].
    + (* release *)
      injection Hstep as <-. constructor; cbn [g_threads g_lock g_acq g_out g_rlog].
      * intros j th' Hj Hc. destruct (Nat.eq_dec i j) as [<-|Hne].
        -- rewrite (nth_error_set_nth_eq _ _ _ _ Ei) in Hj. injection Hj as <-. cbn [t_cur] in Hc. congruence.
        -- rewrite (nth_error_set_nth_neq _ _ _ _ Hne) in Hj. pose proof (Hin j th' Hj Hc) as HH. congruence.
      * intros j Hj. discriminate.
      * rewrite <- Hser. unfold finish. rewrite Hlock, Ei, Ecur. cbn [exec_prims map]. rewrite app_nil_r. reflexivity.
      * rewrite set_nth_length. exact Hlen.
      * intros j th0 th' H0 H1. destruct (Nat.eq_dec i j) as [<-|Hne].
        -- rewrite (nth_error_set_nth_eq _ _ _ _ Ei) in H1. injection H1 as <-. cbn [t_todo]. apply (Hprov i th0 th H0 Ei).
        -- rewrite (nth_error_set_nth_neq _ _ _ _ Hne) in H1. apply (Hprov j th0 th' H0 H1).
      * exact Hidx.
    + (* one primitive *)
      destruct (pstep c (g_out g) p) as [o' x] eqn:Ep. injection Hstep as <-.
      constructor; cbn [g_threads g_lock g_acq g_out g_rlog].
      * intros j th' Hj Hc. destruct (Nat.eq_dec i j) as [<-|Hne]; [exact Hlock|].
        rewrite (nth_error_set_nth_neq _ _ _ _ Hne) in Hj. apply (Hin j th' Hj Hc).
      * intros j Hj. rewrite Hlock in Hj. injection Hj as <-.
        eexists. split; [apply (nth_error_set_nth_eq _ _ _ _ Ei)|]. cbn [t_cur]. discriminate.
      * rewrite <- Hser. unfold finish. cbn [g_threads g_lock g_out g_rlog].
        rewrite Hlock, Ei, Ecur, (nth_error_set_nth_eq _ _ _ _ Ei). cbn [t_cur exec_prims]. rewrite Ep.
        destruct (ab && is_err x) eqn:Eab.
        -- cbn [exec_prims map]. rewrite <- app_assoc. reflexivity.
        -- destruct (exec_prims c o' rest ab) as [o2 xs]. cbn [map]. rewrite <- app_assoc. reflexivity.
      * rewrite set_nth_length. exact Hlen.
      * intros j th0 th' H0 H1. destruct (Nat.eq_dec i j) as [<-|Hne].
        -- rewrite (nth_error_set_nth_eq _ _ _ _ Ei) in H1. injection H1 as <-. cbn [t_todo]. apply (Hprov i th0 th H0 Ei).
        -- rewrite (nth_error_set_nth_neq _ _ _ _ Hne) in H1. apply (Hprov j th0 th' H0 H1).
      * exact Hidx.
  - (* outside any region *)
    destruct (t_todo th) as [|[rg|u] todo'] eqn:Etodo; [discriminate| |].
    + (* acquire *)
      destruct (g_lock g) as [k|] eqn:Elock; [discriminate|]. injection Hstep as <-.
      assert (Hnone : forall j th', nth_error (g_threads g) j = Some th' -> t_cur th' = None).
      { intros j th' Hj. destruct (t_cur th') eqn:E; [|reflexivity].
        assert (Hc : t_cur th' <> None) by (rewrite E; discriminate).
        pose proof (Hin j th' Hj Hc) as HH. discriminate. }
      constructor; cbn [g_threads g_lock g_acq g_out g_rlog].
      * intros j th' Hj Hc. destruct (Nat.eq_dec i j) as [<-|Hne]; [reflexivity|].
        rewrite (nth_error_set_nth_neq _ _ _ _ Hne) in Hj. exfalso. apply Hc. apply (Hnone j th' Hj).
      * intros j Hj. injection Hj as <-. eexists. split; [apply (nth_error_set_nth_eq _ _ _ _ Ei)|]. cbn [t_cur]. discriminate.
      * rewrite exec_acq_snoc. rewrite <- Hser. unfold finish at 2. rewrite Elock.
        unfold finish. cbn [g_threads g_lock g_out g_rlog]. rewrite (nth_error_set_nth_eq _ _ _ _ Ei). cbn [t_cur].
        destruct rg as [ps ab]. unfold exec_region. cbn [fst snd]. reflexivity.
      * rewrite set_nth_length. exact Hlen.
      * intros j th0 th' H0 H1. destruct (Nat.eq_dec i j) as [<-|Hne].
        -- rewrite (nth_error_set_nth_eq _ _ _ _ Ei) in H1. injection H1 as <-. cbn [t_todo].
           rewrite acq_of_snoc_eq, <- app_assoc. cbn [app].
           rewrite (Hprov i th0 th H0 Ei), Etodo. reflexivity.
        -- rewrite (nth_error_set_nth_neq _ _ _ _ Hne) in H1. rewrite (acq_of_snoc_neq _ _ _ _ Hne).
           apply (Hprov j th0 th' H0 H1).
      * intros j rg' Hj. apply in_app_or in Hj. destruct Hj as [Hj|[Hj|[]]]; [apply (Hidx j rg' Hj)|].
        injection Hj as <- <-. rewrite <- Hlen. apply nth_error_Some. rewrite Ei. discriminate.
    + (* a step outside the lock: the output state is not touched *)
      destruct (uguard (g_in g) u); [|discriminate].
      destruct (ustep (g_in g) u) as [i' x]. injection Hstep as <-.
      constructor; cbn [g_threads g_lock g_acq g_out g_rlog].
      * intros j th' Hj Hc. destruct (Nat.eq_dec i j) as [<-|Hne].
        -- rewrite (nth_error_set_nth_eq _ _ _ _ Ei) in Hj. injection Hj as <-. cbn [t_cur] in Hc. congruence.
        -- rewrite (nth_error_set_nth_neq _ _ _ _ Hne) in Hj. apply (Hin j th' Hj Hc).
      * intros j Hj. destruct (Hho j Hj) as [th' [H1 H2]].
        destruct (Nat.eq_dec i j) as [<-|Hne].
        -- rewrite Ei in H1. injection H1 as <-. congruence.
        -- exists th'. rewrite (nth_error_set_nth_neq _ _ _ _ Hne). split; assumption.
      * rewrite <- Hser. unfold finish. cbn [g_threads g_lock g_out g_rlog].
        destruct (g_lock g) as [k|] eqn:Elock; [|reflexivity].
        destruct (Nat.eq_dec i k) as [<-|Hne].
        -- destruct (Hho i eq_refl) as [th' [H1 H2]]. rewrite Ei in H1. injection H1 as <-. congruence.
        -- rewrite (nth_error_set_nth_neq _ _ _ _ Hne). reflexivity.
      * rewrite set_nth_length. exact Hlen.
      * intros j th0 th' H0 H1. destruct (Nat.eq_dec i j) as [<-|Hne].
        -- rewrite (nth_error_set_nth_eq _ _ _ _ Ei) in H1. injection H1 as <-. cbn [t_todo].
           rewrite (Hprov i th0 th H0 Ei), Etodo. reflexivity.
        -- rewrite (nth_error_set_nth_neq _ _ _ _ Hne) in H1. apply (Hprov j th0 th' H0 H1).
      * exact Hidx.
Qed.

(* every schedule keeps the invariant *)
Theorem inv_run c ids ths tr g :
  Forall (fun th => t_cur th = None) ths ->
  run (step c) (ginit ids ths) tr = Some g -> Inv c ids ths g.
Proof.
  intros H0 Hrun.
  apply (invariant_run gstate nat (step c) (Inv c ids ths) (ginit ids ths) (inv_init c ids ths H0)
           (fun s l s' Hs Hst => inv_step c ids ths s l s' Hs Hst) tr g Hrun).
Qed.

(* whoever performs a primitive of a region holds the lock (the step function
   does not test it) *)
Corollary emitter_is_holder c ids ths tr g i th p rest ab :
  Forall (fun th => t_cur th = None) ths ->
  run (step c) (ginit ids ths) tr = Some g ->
  nth_error (g_threads g) i = Some th -> t_cur th = Some (p :: rest, ab) ->
  g_lock g = Some i.
Proof.
  intros H0 Hrun Hi Hc. destruct (inv_run c ids ths tr g H0 Hrun) as [Hin _ _ _ _ _].
  apply (Hin i th Hi). rewrite Hc. discriminate.
Qed.

(* serialisation: when nobody holds the lock, the output state and the results
   are those of running the regions one after the other in acquisition order *)
Corollary serial c ids ths tr g :
  Forall (fun th => t_cur th = None) ths ->
  run (step c) (ginit ids ths) tr = Some g -> g_lock g = None ->
  (g_out g, g_rlog g) = exec_acq c (ost0 ids) (g_acq g).
Proof.
  intros H0 Hrun Hl. destruct (inv_run c ids ths tr g H0 Hrun) as [_ _ Hser _ _ _].
  rewrite <- Hser. unfold finish. rewrite Hl. reflexivity.
Qed.

(* ------------------------------- all schedules of concurrent transmit calls *)

Lemma finished_spec g : finished g = true ->
  forall j th, nth_error (g_threads g) j = Some th -> t_todo th = [] /\ t_cur th = None.
Proof.
  unfold finished. intros H j th Hj. rewrite forallb_forall in H.
  specialize (H th (nth_error_In _ _ Hj)).
  destruct (t_todo th); [|discriminate]. destruct (t_cur th); [discriminate|]. split; reflexivity.
Qed.

Lemma acq_of_cons_eq i rg r : acq_of i ((i, rg) :: r) = rg :: acq_of i r.
Proof. unfold acq_of. cbn [filter fst]. rewrite Nat.eqb_refl. reflexivity. Qed.

Lemma acq_of_cons_neq i j rg r : j <> i -> acq_of i ((j, rg) :: r) = acq_of i r.
Proof.
  intro H. unfold acq_of. cbn [filter fst].
  destruct (Nat.eqb j i) eqn:E; [apply Nat.eqb_eq in E; congruence|reflexivity].
Qed.

Lemma acq_of_in i acq : In i (map fst acq) -> acq_of i acq <> [].
Proof.
  induction acq as [|[j rg] r IH]; intro H; [destruct H|].
  destruct (Nat.eq_dec j i) as [->|Hne].
  - rewrite acq_of_cons_eq. discriminate.
  - rewrite (acq_of_cons_neq _ _ _ _ Hne). apply IH. destruct H as [H|H]; [cbn in H; congruence|exact H].
Qed.

Lemma acq_of_nonempty_in i acq : acq_of i acq <> [] -> In i (map fst acq).
Proof.
  induction acq as [|[j rg] r IH]; intro H; [exfalso; apply H; reflexivity|].
  destruct (Nat.eq_dec j i) as [->|Hne]; [left; reflexivity|].
  rewrite (acq_of_cons_neq _ _ _ _ Hne) in H. right. apply IH. exact H.
Qed.

Lemma acq_of_In i rg acq : In (i, rg) acq -> In rg (acq_of i acq).
Proof.
  intro H. unfold acq_of. apply in_map_iff. exists (i, rg). split; [reflexivity|].
  apply filter_In. split; [exact H|]. cbn [fst]. apply Nat.eqb_refl.
Qed.

Lemma nodup_of_counts acq :
  (forall i, (length (acq_of i acq) <= 1)%nat) -> NoDup (map fst acq).
Proof.
  induction acq as [|[j rg] r IH]; intro H; [constructor|].
  cbn [map fst]. constructor.
  - intro Hin. specialize (H j). rewrite acq_of_cons_eq in H. cbn [length] in H.
    pose proof (acq_of_in j r Hin) as Hne. destruct (acq_of j r); [congruence|cbn [length] in H; lia].
  - apply IH. intro i. specialize (H i). destruct (Nat.eq_dec j i) as [->|Hne].
    + rewrite acq_of_cons_eq in H. cbn [length] in H. lia.
    + rewrite (acq_of_cons_neq _ _ _ _ Hne) in H. exact H.
Qed.

Lemma call_thread_denotes cl e k : denotes cl e k -> wf_tree e ->
  exists rg, compile cl = Region rg /\ call_thread cl = thread_of [SLocked rg].
Proof.
  intros Hd Hwf.
  destruct (denotes_region (mkcfg [] []) cl e k [] [] [] Hd Hwf) as [rg [xs [Hc _]]].
  exists rg. split; [exact Hc|]. unfold call_thread. rewrite Hc. reflexivity.
Qed.

Lemma Forall2_nth {A B} (P : A -> B -> Prop) l1 l2 i a db :
  Forall2 P l1 l2 -> nth_error l1 i = Some a -> P a (nth i l2 db).
Proof.
  intro H. revert i. induction H as [|x y r1 r2 Hxy Hr IH]; intros [|i] Hi; cbn in Hi |- *; try discriminate.
  - injection Hi as <-. exact Hxy.
  - apply IH. exact Hi.
Qed.

(* C05_atomic_under_all_schedules *)
Theorem atomic_all_schedules c ids calls elems tr g :
  Forall2 (fun cl ek => denotes cl (fst ek) (snd ek) /\ wf_tree (fst ek)) calls elems ->
  run (step c) (ginit ids (map call_thread calls)) tr = Some g ->
  finished g = true ->
  NoDup (map fst (g_acq g)) /\
  (forall i, In i (map fst (g_acq g)) <-> (i < length calls)%nat) /\
  o_log (g_out g) = seq_log c ids (map (fun i => nth i elems no_elem) (map fst (g_acq g))) /\
  o_depth (g_out g) = 0 /\ o_stack (g_out g) = [] /\ o_closed (g_out g) = false /\
  allok (map snd (g_rlog g)) = true.
Proof.
  intros HF Hrun Hfin.
  assert (H0 : Forall (fun th => t_cur th = None) (map call_thread calls)).
  { apply Forall_forall. intros th Hth. apply in_map_iff in Hth. destruct Hth as [cl [<- _]].
    unfold call_thread. destruct (compile cl); reflexivity. }
  pose proof (inv_run c ids _ tr g H0 Hrun) as [Hin Hho Hser Hlen Hprov Hidx].
  pose proof (finished_spec g Hfin) as Hdone.
  assert (Hlock : g_lock g = None).
  { destruct (g_lock g) as [j|] eqn:E; [|reflexivity].
    destruct (Hho j eq_refl) as [th [H1 H2]]. destruct (Hdone j th H1) as [_ H3]. congruence. }
  rewrite map_length in Hlen, Hidx.
  (* the regions acquired by thread i are exactly the region of call i *)
  assert (Hreg : forall i cl, nth_error calls i = Some cl ->
            exists rg, compile cl = Region rg /\ acq_of i (g_acq g) = [rg]).
  { intros i cl Hi.
    pose proof (Forall2_nth _ _ _ i cl no_elem HF Hi) as [Hd Hwf].
    destruct (call_thread_denotes cl _ _ Hd Hwf) as [rg [Hc Ht]].
    exists rg. split; [exact Hc|].
    assert (Hi' : nth_error (map call_thread calls) i = Some (call_thread cl)) by (rewrite nth_error_map, Hi; reflexivity).
    assert (Hsome : nth_error (g_threads g) i <> None).
    { apply nth_error_Some. rewrite Hlen. apply nth_error_Some. rewrite Hi. discriminate. }
    destruct (nth_error (g_threads g) i) as [th|] eqn:Eth; [|congruence].
    pose proof (Hprov i _ th Hi' Eth) as Hp. destruct (Hdone i th Eth) as [Htodo _].
    rewrite Ht, Htodo in Hp. cbn [thread_of t_todo locked_of] in Hp. rewrite app_nil_r in Hp. symmetry. exact Hp. }
  assert (Hacq : Forall2 (fun x ek => region_denotes (snd x) ek) (g_acq g)
                   (map (fun i => nth i elems no_elem) (map fst (g_acq g)))).
  { assert (G : forall l, (forall j rg, In (j, rg) l -> In (j, rg) (g_acq g)) ->
               Forall2 (fun x ek => region_denotes (snd x) ek) l (map (fun i => nth i elems no_elem) (map fst l))).
    { induction l as [|[j rg] r IHl]; intro Hsub; [constructor|].
      cbn [map fst]. constructor.
      - cbn [snd]. pose proof (Hidx j rg (Hsub j rg (or_introl eq_refl))) as Hj.
        destruct (nth_error calls j) as [cl|] eqn:Ecl; [|apply nth_error_None in Ecl; lia].
        destruct (Hreg j cl Ecl) as [rg' [Hc Ha]].
        pose proof (acq_of_In j rg _ (Hsub j rg (or_introl eq_refl))) as Hrg. rewrite Ha in Hrg.
        destruct Hrg as [<-|[]].
        pose proof (Forall2_nth _ _ _ j cl no_elem HF Ecl) as [Hd Hwf].
        exists cl. split; [exact Hc|]. split; assumption.
      - apply IHl. intros j' rg' H'. apply Hsub. right. exact H'. }
    apply G. intros j rg H. exact H. }
  pose proof (serial c ids _ tr g H0 Hrun Hlock) as Hs.
  destruct (exec_acq_denotes c _ _ Hacq [] [] ids) as [rs [Hrs Hrok]].
  unfold ost0 in Hs. rewrite Hrs in Hs. injection Hs as Ho Hr.
  split; [|split].
  3: { rewrite Ho, Hr. cbn [o_log o_depth o_stack o_closed]. repeat split; try reflexivity. exact Hrok. }
  - apply nodup_of_counts. intro i.
    destruct (nth_error calls i) as [cl|] eqn:Ecl.
    + destruct (Hreg i cl Ecl) as [rg [_ Ha]]. rewrite Ha. cbn [length]. lia.
    + destruct (acq_of i (g_acq g)) as [|rg r] eqn:E; [cbn [length]; lia|].
      assert (Hin' : In i (map fst (g_acq g))) by (apply acq_of_nonempty_in; rewrite E; discriminate).
      apply in_map_iff in Hin'. destruct Hin' as [[j rg'] [Hj Hjin]]. cbn [fst] in Hj. subst j.
      pose proof (Hidx i rg' Hjin) as Hlt. apply nth_error_None in Ecl. lia.
  - intro i. split.
    + intro Hi. apply in_map_iff in Hi. destruct Hi as [[j rg] [Hj Hjin]]. cbn [fst] in Hj. subst j.
      apply (Hidx i rg Hjin).
    + intro Hi. destruct (nth_error calls i) as [cl|] eqn:Ecl; [|apply nth_error_None in Ecl; lia].
      destruct (Hreg i cl Ecl) as [rg [_ Ha]]. apply acq_of_nonempty_in. rewrite Ha. discriminate.
Qed.

(* ------------------------------------------------ statements for Properties *)

Lemma element_denotation c ab e st lg cl ids :
  is_elem e -> wf_tree e ->
  exec_prims c (mkost 0 st lg cl ids) (map PTok (tokens_of e)) ab =
  (mkost 0 st (lg ++ map EvTok (tokens_of (spec_top c (hd_id ids) e))) cl (pop_if (needs_id e) ids),
   repeat ROk (length (tokens_of e))).
Proof. intros He Hwf. destruct e as [n a kids| |]; try contradiction. apply emit_top. exact Hwf. Qed.

Lemma has_nonempty_strip l n a :
  bytes_eqb l s_xmlns = false -> has_nonempty l (strip_xmlns n a) = has_nonempty l a.
Proof.
  intro Hl. unfold strip_xmlns. destruct (is_empty (nspace n)); [reflexivity|].
  induction a as [|x r IH]; [reflexivity|].
  cbn [filter]. destruct (is_xmlns_attr x) eqn:E; cbn [negb].
  - rewrite IH. cbn [has_nonempty existsb]. fold (has_nonempty l r).
    unfold is_xmlns_attr, plain_is in E. apply andb_true_iff in E. destruct E as [E1 E].
    unfold plain_is. apply bytes_eqb_eq in E. rewrite E.
    assert (Hf : bytes_eqb s_xmlns l = false).
    { destruct (bytes_eqb s_xmlns l) eqn:F; [|reflexivity].
      apply bytes_eqb_eq in F. rewrite <- F, bytes_eqb_refl in Hl. discriminate. }
    rewrite Hf, andb_false_r. reflexivity.
  - cbn [has_nonempty existsb]. fold (has_nonempty l r). fold (has_nonempty l (filter (fun x0 => negb (is_xmlns_attr x0)) r)).
    rewrite IH. reflexivity.
Qed.

(* what the completion does to a stanza, and that it does nothing else *)
Lemma completion_spec c id n a kids :
  id <> [] -> is_stanza_name n = true ->
  exists n1 a1 extra,
    spec_top c id (Elem n a kids) = Elem n1 a1 (map strip_tree kids) /\
    nlocal n1 = nlocal n /\
    (nspace n = [] -> nspace n1 = c_ns c) /\ (nspace n <> [] -> n1 = n) /\
    has_nonempty s_id a1 = true /\
    (c_from c <> [] -> has_nonempty s_from a1 = true) /\
    a1 = strip_xmlns n1 (filter (fun x => negb (dropped x)) a ++ extra) /\
    incl extra [from_attr (c_from c); id_attr id].
Proof.
  intros Hid Hs. destruct (spec_attrs_shape c id a) as [extra [Hsh Hincl]].
  exists (if is_empty (nspace n) then mkname (c_ns c) (nlocal n) else n).
  exists (strip_xmlns (if is_empty (nspace n) then mkname (c_ns c) (nlocal n) else n) (spec_attrs c id a)).
  exists extra. cbn [spec_top]. rewrite Hs. repeat split.
  - destruct (is_empty (nspace n)); reflexivity.
  - intro H. rewrite H. reflexivity.
  - intro H. destruct (nspace n) eqn:E; [congruence|reflexivity].
  - rewrite has_nonempty_strip by reflexivity. apply spec_attrs_has_id. exact Hid.
  - intro Hf. rewrite has_nonempty_strip by reflexivity. apply spec_attrs_has_from. exact Hf.
  - rewrite Hsh. reflexivity.
  - exact Hincl.
Qed.

Lemma completion_other c id n a kids :
  is_stanza_name n = false ->
  spec_top c id (Elem n a kids) = Elem n (strip_xmlns n a) (map strip_tree kids).
Proof. intro H. cbn [spec_top]. rewrite H. reflexivity. Qed.

(* SendElement / EncodeElement: the element the call denotes has the supplied
   start element as its outermost tag (name, and the start's attributes first) *)
Lemma start_is_outermost cl e k sn sa :
  denotes cl e k ->
  (exists r, cl = CSendElement r sn sa) \/ (exists v, cl = CEncodeElement v sn sa) ->
  exists extra kids, e = Elem sn (sa ++ extra) kids.
Proof.
  intros Hd [[r Hc]|[v Hc]]; subst cl; inversion Hd; subst.
  - exists [], f. rewrite app_nil_r. reflexivity.
  - eexists. eexists. reflexivity.
  - eexists. eexists. reflexivity.
  - eexists. eexists. reflexivity.
Qed.

Lemma seq_log_blocks c : forall es ids,
  Forall (fun i => i <> []) ids ->
  exists idl, length idl = length es /\ Forall (fun i => i <> []) idl /\
              seq_log c ids es = blocks_with c es idl.
Proof.
  induction es as [|[e k] r IH]; intros ids Hids.
  - exists []. repeat split. constructor.
  - assert (Hpop : Forall (fun i => i <> []) (pop_if (needs_id e) ids)).
    { unfold pop_if. destruct (needs_id e); [|exact Hids]. destruct ids; [constructor|]. inversion Hids; assumption. }
    destruct (IH _ Hpop) as [idl [Hl [Hne Heq]]].
    exists (hd_id ids :: idl). repeat split.
    + cbn [length]. rewrite Hl. reflexivity.
    + constructor; [|exact Hne]. unfold hd_id. destruct ids; [discriminate|]. inversion Hids; assumption.
    + cbn [seq_log blocks_with]. unfold block. rewrite Heq. reflexivity.
Qed.

Lemma wire_of_app : forall l1 buf l2,
  wire_of buf (l1 ++ l2) = wire_of buf l1 ++ wire_of (pending_of buf l1) l2.
Proof.
  induction l1 as [|e r IH]; intros buf l2; [reflexivity|].
  destruct e; cbn [app wire_of pending_of].
  - apply IH.
  - rewrite IH, app_assoc. reflexivity.
  - rewrite IH. reflexivity.
Qed.

Lemma wire_of_toks : forall toks buf rest,
  wire_of buf (map EvTok toks ++ rest) = wire_of (buf ++ toks) rest.
Proof.
  induction toks as [|t r IH]; intros buf rest.
  - cbn [map app]. rewrite app_nil_r. reflexivity.
  - cbn [map app wire_of]. rewrite IH, <- app_assoc. reflexivity.
Qed.

Lemma wire_of_flushes k : wire_of [] (repeat EvFlush k) = [].
Proof. induction k as [|k IH]; [reflexivity|]. cbn [repeat wire_of map app]. exact IH. Qed.

(* a block with at least one flush puts all its tokens (and whatever was
   pending) on the connection *)
Lemma block_flushed c ids e k lg :
  wire_of [] (lg ++ block c ids e (S k)) =
  wire_of [] lg ++ map WTok (pending_of [] lg ++ tokens_of (spec_top c (hd_id ids) e)).
Proof.
  rewrite wire_of_app. f_equal. unfold block. cbn [repeat]. rewrite wire_of_toks.
  cbn [wire_of]. rewrite wire_of_flushes, app_nil_r. reflexivity.
Qed.

(* C05_call_is_flushed, the part that holds: every denoting call except those
   with a WriterTo value flushes *)
Lemma call_is_flushed_partial c cl e k st lg ids :
  denotes cl e k -> wf_tree e ->
  (forall toks werr, cl <> CEncode (VWriterTo toks werr)) ->
  (forall toks werr sn sa, cl <> CEncodeElement (VWriterTo toks werr) sn sa) ->
  exists rg xs o', compile cl = Region rg /\
    exec_region c (mkost 0 st lg false ids) rg = (o', xs) /\ allok xs = true /\
    wire o' = wire_of [] lg ++ map WTok (pending_of [] lg ++ tokens_of (spec_top c (hd_id ids) e)).
Proof.
  intros Hd Hwf H1 H2.
  destruct (denotes_region c cl e k st lg ids Hd Hwf) as [rg [xs [Hc [He Hok]]]].
  exists rg, xs. eexists. split; [exact Hc|]. split; [exact He|]. split; [exact Hok|].
  unfold wire. cbn [o_log].
  destruct k as [|k]; [|apply block_flushed].
  exfalso. inversion Hd; subst; [eapply H1|eapply H2]; reflexivity.
Qed.

Definition flushed_statement : Prop := forall c cl e k st lg ids,
  denotes cl e k -> wf_tree e ->
  exists rg xs o', compile cl = Region rg /\
    exec_region c (mkost 0 st lg false ids) rg = (o', xs) /\ allok xs = true /\
    wire o' = wire_of [] lg ++ map WTok (pending_of [] lg ++ tokens_of (spec_top c (hd_id ids) e)).

Definition w_msg : name := mkname [] (str "message").

Lemma call_is_flushed_refuted : ~ flushed_statement.
Proof.
  intro H.
  specialize (H (mkcfg so_ns_client []) (CEncode (VWriterTo (tokens_of (Elem w_msg [] [])) false))
                (Elem w_msg [] []) 0%nat [] [] [str "id1"] (D_encode_writerto w_msg [] [])).
  assert (Hwf : wf_tree (Elem w_msg [] [])) by (split; [discriminate|exact I]).
  destruct (H Hwf) as [rg [xs [o' [Hc [He [_ Hw]]]]]].
  cbn [compile] in Hc. injection Hc as <-.
  vm_compute in He. injection He as <- _. vm_compute in Hw. discriminate.
Qed.

(* ------------------------------------------------ the wire under all schedules *)

Lemma pending_of_app : forall l1 buf l2,
  pending_of buf (l1 ++ l2) = pending_of (pending_of buf l1) l2.
Proof.
  induction l1 as [|e r IH]; intros buf l2; [reflexivity|].
  destruct e; cbn [app pending_of]; apply IH.
Qed.

Lemma pending_of_toks : forall toks buf, pending_of buf (map EvTok toks) = buf ++ toks.
Proof.
  induction toks as [|t r IH]; intro buf; cbn [map pending_of].
  - rewrite app_nil_r. reflexivity.
  - rewrite IH, <- app_assoc. reflexivity.
Qed.

Lemma pending_of_flushes k buf : pending_of buf (repeat EvFlush (S k)) = [].
Proof. cbn [repeat pending_of]. induction k as [|k IH]; [reflexivity|]. cbn [repeat pending_of]. exact IH. Qed.

(* nothing is lost or reordered between the encoder and the connection: what
   has been written plus what is still buffered are the accepted tokens *)
Lemma wire_plus_pending : forall l buf,
  (forall x, In x l -> x <> EvClose) ->
  exists toks, wire_of buf l ++ map WTok (pending_of buf l) = map WTok (buf ++ toks) /\
               toks = flat_map (fun x => match x with EvTok t => [t] | _ => [] end) l.
Proof.
  induction l as [|e r IH]; intros buf Hnc.
  - exists []. cbn [wire_of pending_of app flat_map]. rewrite app_nil_r. split; reflexivity.
  - assert (Hr : forall x, In x r -> x <> EvClose) by (intros x Hx; apply Hnc; right; exact Hx).
    destruct e.
    + destruct (IH (buf ++ [t]) Hr) as [toks [H1 H2]].
      exists (t :: toks). cbn [wire_of pending_of flat_map app]. split; [|rewrite H2; reflexivity].
      rewrite H1, <- app_assoc. reflexivity.
    + destruct (IH [] Hr) as [toks [H1 H2]].
      exists toks. cbn [wire_of pending_of flat_map app]. split; [|exact H2].
      rewrite <- app_assoc, H1. cbn [app]. rewrite map_app. reflexivity.
    + exfalso. apply (Hnc EvClose); [left|]; reflexivity.
Qed.

Lemma seq_log_no_close c : forall es ids x, In x (seq_log c ids es) -> x <> EvClose.
Proof.
  induction es as [|[e k] r IH]; intros ids x Hx; [contradiction|].
  cbn [seq_log] in Hx. apply in_app_or in Hx. destruct Hx as [Hx|Hx]; [|eapply IH; exact Hx].
  unfold block in Hx. apply in_app_or in Hx. destruct Hx as [Hx|Hx].
  - apply in_map_iff in Hx. destruct Hx as [t [<- _]]. discriminate.
  - apply repeat_spec in Hx. rewrite Hx. discriminate.
Qed.

Lemma seq_log_tokens c : forall es ids,
  flat_map (fun x => match x with EvTok t => [t] | _ => [] end) (seq_log c ids es) = seq_tokens c ids es.
Proof.
  induction es as [|[e k] r IH]; intro ids; [reflexivity|].
  cbn [seq_log seq_tokens]. rewrite flat_map_app, IH. f_equal.
  unfold block. rewrite flat_map_app.
  assert (H1 : forall toks, flat_map (fun x => match x with EvTok t => [t] | _ => [] end) (map EvTok toks) = toks).
  { induction toks as [|t q IHq]; [reflexivity|]. cbn [map flat_map app]. rewrite IHq. reflexivity. }
  assert (H2 : forall n, flat_map (fun x => match x with EvTok t => [t] | _ => [] end) (repeat EvFlush n) = []).
  { induction n as [|n IHn]; [reflexivity|]. cbn [repeat flat_map app]. exact IHn. }
  rewrite H1, H2, app_nil_r. reflexivity.
Qed.

(* if every call flushes, nothing stays buffered *)
Lemma seq_log_pending c : forall es ids buf,
  Forall (fun ek => (1 <= snd ek)%nat) es ->
  pending_of buf (seq_log c ids es) = match es with [] => buf | _ => [] end.
Proof.
  induction es as [|[e k] r IH]; intros ids buf Hk; [reflexivity|].
  inversion Hk as [|? ? Hk1 Hkr]; subst. cbn [snd] in Hk1.
  cbn [seq_log]. rewrite pending_of_app. unfold block. rewrite pending_of_app, pending_of_toks.
  destruct k as [|k]; [lia|]. rewrite pending_of_flushes.
  rewrite (IH _ [] Hkr). destruct r; reflexivity.
Qed.

Lemma wire_seq_log c ids es :
  map WTok (seq_tokens c ids es) =
    wire_of [] (seq_log c ids es) ++ map WTok (pending_of [] (seq_log c ids es)) /\
  (Forall (fun ek => (1 <= snd ek)%nat) es -> wire_of [] (seq_log c ids es) = map WTok (seq_tokens c ids es)).
Proof.
  destruct (wire_plus_pending (seq_log c ids es) [] (seq_log_no_close c es ids)) as [toks [H1 H2]].
  rewrite seq_log_tokens in H2. subst toks. cbn [app] in H1. split; [symmetry; exact H1|].
  intro Hk. rewrite (seq_log_pending c es ids [] Hk) in H1.
  destruct es; cbn [map] in H1; rewrite app_nil_r in H1; exact H1.
Qed.

Lemma Forall2_len {A B} (P : A -> B -> Prop) l1 l2 : Forall2 P l1 l2 -> length l1 = length l2.
Proof. induction 1 as [|x y l1 l2 _ _ IH]; [reflexivity|]. cbn [length]. rewrite IH. reflexivity. Qed.

Theorem wire_all_schedules c ids calls elems tr g :
  Forall2 (fun cl ek => denotes cl (fst ek) (snd ek) /\ wf_tree (fst ek)) calls elems ->
  run (step c) (ginit ids (map call_thread calls)) tr = Some g ->
  finished g = true ->
  let es := map (fun i => nth i elems no_elem) (map fst (g_acq g)) in
  map WTok (seq_tokens c ids es) = wire (g_out g) ++ map WTok (pending_of [] (o_log (g_out g))) /\
  (Forall (fun ek => (1 <= snd ek)%nat) elems -> wire (g_out g) = map WTok (seq_tokens c ids es)).
Proof.
  intros HF Hrun Hfin es.
  destruct (atomic_all_schedules c ids calls elems tr g HF Hrun Hfin) as [_ [Hin [Hlog _]]].
  unfold wire. rewrite Hlog. fold es.
  destruct (wire_seq_log c ids es) as [H1 H2]. split; [exact H1|].
  intro Hk. apply H2. unfold es. apply Forall_forall. intros ek Hek.
  apply in_map_iff in Hek. destruct Hek as [i [<- Hi]].
  apply Hin in Hi. pose proof (Forall2_len _ _ _ HF) as Hlen. rewrite Hlen in Hi.
  rewrite Forall_forall in Hk. apply Hk. apply nth_In. exact Hi.
Qed.

(* ------------------------------------------------- tables read from the source *)

(* session.go isStanzaEmptySpace accepts exactly iq / message / presence in no
   name space or a content name space; isIQEmptySpace, isMessageEmptySpace and
   isPresenceEmptySpace accept the same name spaces and their own local name;
   stanzaEncoder.EncodeToken looks at the attribute names id, from and xmlns;
   the xml prefix stands for the XML name space; generated ids are not empty *)
Lemma source_tables :
  so_stanza_locals = map kind_local [KIQ; KMessage; KPresence] /\
  same_set so_stanza_spaces [[]; so_ns_client; so_ns_server] = true /\
  length so_kind_tables = 3%nat /\
  forallb (fun pk => list_eqb bytes_eqb (fst (fst pk)) [kind_local (snd pk)] && same_set (snd (fst pk)) so_stanza_spaces)
          (combine so_kind_tables [KIQ; KMessage; KPresence]) = true /\
  so_se_literals = [s_id; s_from; s_xmlns] /\
  so_ns_xml = str "http://www.w3.org/XML/1998/namespace" /\
  so_ns_client <> [] /\ so_ns_server <> [] /\ so_ns_client <> so_ns_server /\
  (0 < so_id_len)%nat.
Proof.
  repeat split; try (vm_compute; reflexivity); try discriminate. vm_compute. lia.
Qed.

(* is_kind_name is isIQEmptySpace / isMessageEmptySpace / isPresenceEmptySpace *)
Lemma kind_name_table k n :
  is_kind_name k n = true -> is_stanza_name n = true.
Proof.
  unfold is_kind_name, is_stanza_name. intro H. apply andb_true_iff in H. destruct H as [H1 H2].
  rewrite H2, andb_true_r. apply bytes_eqb_eq in H1. rewrite H1. destruct k; reflexivity.
Qed.

(* --------------------------- the id handling of SendIQ / SendMessage / SendPresence *)

Lemma get_id_typ_spec : forall a i idx id td j v,
  get_id_typ a i idx id td = (Some j, v) ->
  (idx = Some j /\ v = id) \/
  ((i <= j)%nat /\ exists x, nth_error a (j - i) = Some x /\ plain_is s_id x = true /\ aval x = v).
Proof.
  induction a as [|x r IH]; intros i idx id td j v H; cbn [get_id_typ] in H.
  - left. injection H as -> ->. split; reflexivity.
  - destruct (plain_is s_id x) eqn:Eid.
    + (* x is the id: whatever happens next, the answer is x or something later *)
      assert (Hx : (i <= i)%nat /\ exists y, nth_error (x :: r) (i - i) = Some y /\ plain_is s_id y = true /\ aval y = aval x).
      { split; [lia|]. exists x. rewrite Nat.sub_diag. split; [reflexivity|split; [exact Eid|reflexivity]]. }
      destruct (td || (negb true && plain_is s_type x)) eqn:Etd.
      * injection H as <- <-. right. exact Hx.
      * apply IH in H. destruct H as [[Hj Hv]|[Hle [y [Hn [Hy Hv]]]]].
        -- injection Hj as <-. subst v. right. exact Hx.
        -- right. split; [lia|]. exists y. split; [|split; assumption].
           replace (j - i)%nat with (S (j - S i)) by lia. exact Hn.
    + destruct idx as [k|].
      * destruct (td || (negb false && plain_is s_type x)) eqn:Etd.
        -- injection H as <- <-. left. split; reflexivity.
        -- apply IH in H. destruct H as [[Hj Hv]|[Hle [y [Hn [Hy Hv]]]]].
           ++ left. split; assumption.
           ++ right. split; [lia|]. exists y. split; [|split; assumption].
              replace (j - i)%nat with (S (j - S i)) by lia. exact Hn.
      * assert (H' : get_id_typ r (S i) None id (td || (negb false && plain_is s_type x)) = (Some j, v)).
        { destruct (td || (negb false && plain_is s_type x)); exact H. }
        apply IH in H'. destruct H' as [[Hj _]|[Hle [y [Hn [Hy Hv]]]]]; [discriminate|].
        right. split; [lia|]. exists y. split; [|split; assumption].
        replace (j - i)%nat with (S (j - S i)) by lia. exact Hn.
Qed.

Lemma filter_set_val (P : attr -> bool) : forall a j v x,
  (forall y w, P (mkattr (aname y) w) = P y) ->
  nth_error a j = Some x -> P x = false ->
  filter P (set_val a j v) = filter P a.
Proof.
  induction a as [|y r IH]; intros j v x HP Hn Hx; [reflexivity|].
  destruct j as [|j]; cbn [set_val filter].
  - cbn [nth_error] in Hn. injection Hn as ->. rewrite HP, Hx. reflexivity.
  - cbn [nth_error] in Hn. rewrite (IH j v x HP Hn Hx). reflexivity.
Qed.

Lemma existsb_set_val (P : attr -> bool) : forall a j v x,
  nth_error a j = Some x -> P (mkattr (aname x) v) = true -> existsb P (set_val a j v) = true.
Proof.
  induction a as [|y r IH]; intros j v x Hn Hx; [destruct j; discriminate|].
  destruct j as [|j]; cbn [set_val existsb nth_error] in *.
  - injection Hn as ->. rewrite Hx. reflexivity.
  - rewrite (IH j v x Hn Hx). apply orb_true_r.
Qed.

Lemma plain_is_name l y w : plain_is l (mkattr (aname y) w) = plain_is l y.
Proof. reflexivity. Qed.

(* SendIQ / SendMessage / SendPresence touch nothing but the unqualified id:
   every other attribute stays, in order ... *)
Lemma fill_id_others a newid :
  filter (fun x => negb (plain_is s_id x)) (fill_id a newid) = filter (fun x => negb (plain_is s_id x)) a.
Proof.
  unfold fill_id. destruct (get_id_typ a 0 None [] false) as [[j|] v] eqn:E.
  - destruct (is_empty v); [|reflexivity].
    apply get_id_typ_spec in E. destruct E as [[H _]|[_ [x [Hn [Hx _]]]]]; [discriminate|].
    rewrite Nat.sub_0_r in Hn.
    apply (filter_set_val _ a j newid x); [intros y w; rewrite plain_is_name; reflexivity|exact Hn|].
    rewrite Hx. reflexivity.
  - rewrite filter_app. cbn [filter id_attr]. unfold plain_is. cbn [aname nspace nlocal is_empty andb].
    rewrite bytes_eqb_refl. cbn [negb]. apply app_nil_r.
Qed.

(* ... and afterwards the stanza has a non-empty unqualified id *)
Lemma fill_id_has_id a newid : newid <> [] -> has_nonempty s_id (fill_id a newid) = true.
Proof.
  intro Hne. assert (Hn' : is_empty newid = false) by (destruct newid; [congruence|reflexivity]).
  unfold fill_id. destruct (get_id_typ a 0 None [] false) as [[j|] v] eqn:E.
  - apply get_id_typ_spec in E. destruct E as [[H _]|[_ [x [Hn [Hx Hv]]]]]; [discriminate|].
    rewrite Nat.sub_0_r in Hn. destruct (is_empty v) eqn:Ev.
    + unfold has_nonempty. apply (existsb_set_val _ a j newid x Hn).
      rewrite plain_is_name, Hx. cbn [aval]. rewrite Hn'. reflexivity.
    + unfold has_nonempty. apply existsb_exists. exists x. split; [eapply nth_error_In; exact Hn|].
      rewrite Hx, Hv, Ev. reflexivity.
  - rewrite has_nonempty_app. apply orb_true_iff. right.
    unfold has_nonempty, id_attr, plain_is. cbn [existsb aname nspace nlocal aval is_empty andb].
    rewrite bytes_eqb_refl, Hn'. reflexivity.
Qed.

(* ------------------------------------- the completion in terms of the stream *)

Lemma cfg_of_ns p : c_ns (cfg_of p) = p_out_ns p.
Proof. reflexivity. Qed.

Lemma cfg_of_from_server p : p_out_ns p = so_ns_server -> c_from (cfg_of p) = p_local p.
Proof. intro H. unfold cfg_of. cbn [c_from]. rewrite H, bytes_eqb_refl. reflexivity. Qed.

Lemma cfg_of_from_other p : p_out_ns p <> so_ns_server -> c_from (cfg_of p) = [].
Proof.
  intro H. unfold cfg_of. cbn [c_from].
  destruct (bytes_eqb (p_out_ns p) so_ns_server) eqn:E; [apply bytes_eqb_eq in E; contradiction|reflexivity].
Qed.

(* for every stream - whatever the default name space of the peer's header and
   whatever the framing - a stanza is completed with the content name space of
   OUR output stream; it gets the local address as from exactly on jabber:server
   output streams, and on the others nothing but the id is ever added *)
Lemma completion_params p id n a kids :
  id <> [] -> is_stanza_name n = true ->
  exists n1 a1 extra,
    spec_top (cfg_of p) id (Elem n a kids) = Elem n1 a1 (map strip_tree kids) /\
    nlocal n1 = nlocal n /\
    (nspace n = [] -> nspace n1 = p_out_ns p) /\ (nspace n <> [] -> n1 = n) /\
    has_nonempty s_id a1 = true /\
    (p_out_ns p = so_ns_server -> p_local p <> [] -> has_nonempty s_from a1 = true) /\
    a1 = strip_xmlns n1 (filter (fun x => negb (dropped x)) a ++ extra) /\
    incl extra [from_attr (p_local p); id_attr id] /\
    (p_out_ns p <> so_ns_server -> incl extra [id_attr id]).
Proof.
  intros Hid Hs.
  set (c := cfg_of p).
  set (extra := (if negb (is_empty (c_from c)) && negb (has_nonempty s_from a) then [from_attr (c_from c)] else [])
                ++ (if has_nonempty s_id a then [] else [id_attr id])).
  assert (Hsh : spec_attrs c id a = filter (fun x => negb (dropped x)) a ++ extra) by reflexivity.
  exists (if is_empty (nspace n) then mkname (c_ns c) (nlocal n) else n).
  exists (strip_xmlns (if is_empty (nspace n) then mkname (c_ns c) (nlocal n) else n) (spec_attrs c id a)).
  exists extra. cbn [spec_top]. rewrite Hs. split; [reflexivity|]. split.
  { destruct (is_empty (nspace n)); reflexivity. }
  split. { intro H. rewrite H. reflexivity. }
  split. { intro H. destruct (nspace n) eqn:E; [congruence|reflexivity]. }
  split. { rewrite has_nonempty_strip by reflexivity. apply spec_attrs_has_id. exact Hid. }
  split.
  { intros Hsrv Hl. rewrite has_nonempty_strip by reflexivity. apply spec_attrs_has_from.
    unfold c. rewrite (cfg_of_from_server p Hsrv). exact Hl. }
  split. { rewrite Hsh. reflexivity. }
  split.
  - unfold extra. intros x Hx. apply in_app_or in Hx. destruct Hx as [Hx|Hx].
    + destruct (negb (is_empty (c_from c)) && negb (has_nonempty s_from a)) eqn:E; [|contradiction].
      destruct Hx as [<-|[]]. left.
      destruct (bytes_eqb (p_out_ns p) so_ns_server) eqn:Es.
      * apply bytes_eqb_eq in Es. unfold c. rewrite (cfg_of_from_server p Es). reflexivity.
      * assert (Hne : p_out_ns p <> so_ns_server).
        { intro Heq. rewrite Heq, bytes_eqb_refl in Es. discriminate. }
        unfold c in E. rewrite (cfg_of_from_other p Hne) in E. discriminate.
    + destruct (has_nonempty s_id a); [contradiction|]. destruct Hx as [<-|[]]. right. left. reflexivity.
  - intros Hne x Hx. unfold extra in Hx. unfold c in Hx. rewrite (cfg_of_from_other p Hne) in Hx.
    cbn [is_empty negb andb app] in Hx. destruct (has_nonempty s_id a); [contradiction|]. exact Hx.
Qed.

(* negotiateSession configures the stanza encoder from the OUTPUT stream: the
   facts [cfg_of] mirrors, read from session.go by the translator *)
Lemma encoder_setup_tables :
  so_se_ns_field = str "s.out.Info.XMLNS" /\
  so_se_from_cond = str "s.out.Info.XMLNS == stanza.NSServer" /\
  so_se_from_value = str "s.LocalAddr()".
Proof. repeat split; vm_compute; reflexivity. Qed.
