(* C05/Spec.v — the vocabulary of the C05 theorem statements (definitions only):
   element trees and their tokens, the element a top-level element must become
   on the wire (spec_top: content name space, non-empty id, from on s2s streams,
   xmlns attributes of namespaced elements removed, empty id/from removed,
   nothing else), which calls denote which element, and the log that a sequence
   of calls must leave at the encoder. *)
From Coq Require Import ZArith.
From XV Require Import lib.Bytes gen.SessOut C05.Model.
Open Scope Z_scope.

Inductive tree :=
| Elem (n : name) (a : list attr) (kids : list tree)
| Text (b : bytes)
| Misc (k : misc) (x y : bytes).

Fixpoint tokens_of (t : tree) : list token :=
  match t with
  | Elem n a kids =>
      TStart n a :: (fix go (ks : list tree) : list token :=
                       match ks with [] => [] | k :: r => tokens_of k ++ go r end) kids
      ++ [TEnd n]
  | Text b => [TText b]
  | Misc k x y => [TMisc k x y]
  end.

Fixpoint forest_tokens (f : list tree) : list token :=
  match f with [] => [] | k :: r => tokens_of k ++ forest_tokens r end.

(* every element has a local name (the Encoder rejects nameless start tags) *)
Fixpoint wf_tree (t : tree) : Prop :=
  match t with
  | Elem n _ kids => nlocal n <> [] /\
      (fix all (ks : list tree) : Prop := match ks with [] => True | k :: r => wf_tree k /\ all r end) kids
  | _ => True
  end.

Fixpoint wf_forest (f : list tree) : Prop :=
  match f with [] => True | k :: r => wf_tree k /\ wf_forest r end.

(* the xmlns rule applied below the top level *)
Fixpoint strip_tree (t : tree) : tree :=
  match t with
  | Elem n a kids => Elem n (strip_xmlns n a) (map strip_tree kids)
  | _ => t
  end.

(* an unqualified attribute named id or from with an empty value is dropped *)
Definition dropped (x : attr) : bool :=
  (plain_is s_id x || plain_is s_from x) && is_empty (aval x).

Definition has_nonempty (l : bytes) (a : list attr) : bool :=
  existsb (fun x => plain_is l x && negb (is_empty (aval x))) a.

Definition spec_attrs (c : cfg) (id : bytes) (a : list attr) : list attr :=
  filter (fun x => negb (dropped x)) a
  ++ (if negb (is_empty (c_from c)) && negb (has_nonempty s_from a) then [from_attr (c_from c)] else [])
  ++ (if has_nonempty s_id a then [] else [id_attr id]).

(* the element a top-level element becomes on the wire *)
Definition needs_id (t : tree) : bool :=
  match t with
  | Elem n a _ => is_stanza_name n && negb (has_nonempty s_id a)
  | _ => false
  end.

Definition spec_top (c : cfg) (id : bytes) (t : tree) : tree :=
  match t with
  | Elem n a kids =>
      if is_stanza_name n then
        let n1 := if is_empty (nspace n) then mkname (c_ns c) (nlocal n) else n in
        Elem n1 (strip_xmlns n1 (spec_attrs c id a)) (map strip_tree kids)
      else Elem n (strip_xmlns n a) (map strip_tree kids)
  | _ => t
  end.

Definition allok (xs : list res) : bool := forallb (fun x => negb (is_err x)) xs.

Definition hd_id (ids : list bytes) : bytes := match ids with i :: _ => i | [] => default_id end.

Definition pop_if (b : bool) (ids : list bytes) : list bytes := if b then tl ids else ids.

Definition merged_attrs (sa a : list attr) : list attr := sa ++ filter (fun x => negb (is_plain_xmlns x)) a.

(* the block a successful transmit call appends to the log *)
Definition block (c : cfg) (ids : list bytes) (e : tree) (nflush : nat) : list ev :=
  map EvTok (tokens_of (spec_top c (hd_id ids) e)) ++ repeat EvFlush nflush.

Definition is_elem (t : tree) : Prop := match t with Elem _ _ _ => True | _ => False end.

(* which calls denote which element, and how many flushes follow it *)
Inductive denotes : call -> tree -> nat -> Prop :=
| D_send n a kids junk fail :
    denotes (CSend (mkreader (tokens_of (Elem n a kids) ++ junk) fail)) (Elem n a kids) 1
| D_send_element f sn sa :
    denotes (CSendElement (mkreader (forest_tokens f) false) sn sa) (Elem sn sa f) 1
| D_sendx k n a kids junk fail newid :
    is_kind_name k n = true ->
    denotes (CSendX k (mkreader (tokens_of (Elem n a kids) ++ junk) fail) newid) (Elem n (fill_id a newid) kids) 1
| D_encode_reader n a kids :
    denotes (CEncode (VReader (mkreader (tokens_of (Elem n a kids)) false))) (Elem n a kids) 1
| D_encode_struct raw n a kids :
    resolve_raw 0 [] raw = tokens_of (Elem n a kids) ->
    denotes (CEncode (VStruct raw false)) (Elem n a kids) 1
| D_encode_writerto n a kids :
    denotes (CEncode (VWriterTo (tokens_of (Elem n a kids)) false)) (Elem n a kids) 0
| D_encel_reader n a kids sn sa :
    denotes (CEncodeElement (VReader (mkreader (tokens_of (Elem n a kids)) false)) sn sa)
            (Elem sn (merged_attrs sa a) kids) 1
| D_encel_struct raw n a kids sn sa :
    resolve_raw 0 [] raw = tokens_of (Elem n a kids) ->
    denotes (CEncodeElement (VStruct raw false) sn sa) (Elem sn (merged_attrs sa a) kids) 1
| D_encel_writerto n a kids sn sa :
    denotes (CEncodeElement (VWriterTo (tokens_of (Elem n a kids)) false) sn sa)
            (Elem sn (merged_attrs sa a) kids) 0
| D_tokenwriter n a kids :
    denotes (CTokenWriter (map TwTok (tokens_of (Elem n a kids)))) (Elem n a kids) 1
| D_reply n a kids :
    denotes (CReply (tokens_of (Elem n a kids))) (Elem n a kids) 2.

Fixpoint seq_log (c : cfg) (ids : list bytes) (es : list (tree * nat)) : list ev :=
  match es with
  | [] => []
  | (e, k) :: r => block c ids e k ++ seq_log c (pop_if (needs_id e) ids) r
  end.

Fixpoint seq_ids (ids : list bytes) (es : list (tree * nat)) : list bytes :=
  match es with
  | [] => ids
  | (e, _) :: r => seq_ids (pop_if (needs_id e) ids) r
  end.

Definition no_elem : tree * nat := (Text [], 0%nat).


(* the blocks of a sequence of calls, given the id each stanza completion used *)
Fixpoint blocks_with (c : cfg) (es : list (tree * nat)) (idl : list bytes) : list ev :=
  match es, idl with
  | (e, k) :: r, id :: ir => (map EvTok (tokens_of (spec_top c id e)) ++ repeat EvFlush k) ++ blocks_with c r ir
  | _, _ => []
  end.

(* the tokens accepted by the encoder since the last flush *)
Fixpoint pending_of (buf : list token) (l : list ev) : list token :=
  match l with
  | [] => buf
  | EvTok t :: r => pending_of (buf ++ [t]) r
  | EvFlush :: r => pending_of [] r
  | EvClose :: r => pending_of buf r
  end.

Definition is_stanza_tree (t : tree) : bool := match t with Elem n _ _ => is_stanza_name n | _ => false end.

Definition top_attrs_of (t : tree) : list attr := match t with Elem _ a _ => a | _ => [] end.
Definition top_name_of (t : tree) : name := match t with Elem n _ _ => n | _ => mkname [] [] end.
Definition kids_of (t : tree) : list tree := match t with Elem _ _ k => k | _ => [] end.

(* the tokens of a sequence of calls' elements, in order (what must reach the
   connection) *)
Fixpoint seq_tokens (c : cfg) (ids : list bytes) (es : list (tree * nat)) : list token :=
  match es with
  | [] => []
  | (e, _) :: r => tokens_of (spec_top c (hd_id ids) e) ++ seq_tokens c (pop_if (needs_id e) ids) r
  end.

(* two lists of byte strings with the same members *)
Definition same_set (a b : list bytes) : bool :=
  forallb (fun x => in_list x b) a && forallb (fun x => in_list x a) b.


(* ---- XML name space scoping of attribute prefixes, stated on trees ----
   The RawToken view of a marshaled value is a tree whose attribute names
   carry prefixes and whose prefix declarations are attributes xmlns:p="uri".
   What such a tree MEANS (Namespaces in XML): an attribute prefix denotes the
   name space of the nearest declaration of that prefix on the element itself
   or an enclosing element; declarations of an element are in scope for that
   element and its descendants only - not for its siblings or what follows;
   xml: is the XML name space; unprefixed attributes are in no name space; the
   declarations themselves are not attributes of the element. [scoped_tree]
   says this by structural recursion with an environment passed downwards,
   without depths, stacks or popping. *)
Definition env := list (bytes * bytes).

Fixpoint lookup_env (e : env) (p : bytes) : option bytes :=
  match e with
  | [] => None
  | (q, u) :: r => if bytes_eqb p q then Some u else lookup_env r p
  end.

Definition decls_env (a : list attr) : env :=
  flat_map (fun x => if bytes_eqb (nspace (aname x)) s_xmlns then [(nlocal (aname x), aval x)] else []) a.

Definition scoped_attr (e : env) (x : attr) : list attr :=
  let sp := nspace (aname x) in
  if is_empty sp then [x]
  else if bytes_eqb sp s_xmlns then []
  else if bytes_eqb sp s_xml then [mkattr (mkname so_ns_xml (nlocal (aname x))) (aval x)]
  else match lookup_env e sp with
       | Some u => [mkattr (mkname u (nlocal (aname x))) (aval x)]
       | None => [x]
       end.

Fixpoint scoped_tree (e : env) (t : tree) : tree :=
  match t with
  | Elem n a kids =>
      let e' := rev (decls_env a) ++ e in
      Elem n (flat_map (scoped_attr e') a) (map (scoped_tree e') kids)
  | _ => t
  end.

(* The full meaning of a raw tree also resolves prefixed ELEMENT names. *)
Definition meaning_name (e : env) (n : name) : name :=
  if is_empty (nspace n) then n
  else match lookup_env e (nspace n) with
       | Some u => mkname u (nlocal n)
       | None => n
       end.

Fixpoint meaning_tree (e : env) (t : tree) : tree :=
  match t with
  | Elem n a kids =>
      let e' := rev (decls_env a) ++ e in
      Elem (meaning_name e' n) (flat_map (scoped_attr e') a) (map (meaning_tree e') kids)
  | _ => t
  end.

(* no element name carries a prefix (all encoding/xml writes by itself; text
   copied from an ",innerxml" field may differ) *)
Fixpoint unprefixed_elems (t : tree) : Prop :=
  match t with
  | Elem n _ kids => nspace n = [] /\
      (fix all (ks : list tree) : Prop := match ks with [] => True | k :: r => unprefixed_elems k /\ all r end) kids
  | _ => True
  end.
