(* C05/Scoping.v — the binding stack of rawTokenReader (push the declarations
   of a start element tagged with its depth, pop on the end element everything
   tagged with that depth, look a prefix up innermost first) implements XML
   name space scoping: over the tokens of ANY raw forest, [resolve_raw] yields
   the tokens of [scoped_tree]. *)
From Coq Require Import ZArith Lia.
From XV Require Import lib.Bytes gen.SessOut C05.Model C05.Spec C05.Proofs.
Open Scope Z_scope.

Lemma lookup_prefix_env : forall (bs : list binding) p, lookup_prefix bs p = lookup_env (map snd bs) p.
Proof.
  induction bs as [|[d [q u]] r IH]; intro p; [reflexivity|].
  cbn [lookup_prefix map snd lookup_env]. rewrite IH. reflexivity.
Qed.

Lemma resolve_attr_scoped bs x : resolve_attr bs x = scoped_attr (map snd bs) x.
Proof. unfold resolve_attr, scoped_attr. rewrite lookup_prefix_env. reflexivity. Qed.

Lemma flat_map_ext' {A B} (f g : A -> list B) l : (forall x, f x = g x) -> flat_map f l = flat_map g l.
Proof. intro H. induction l as [|x r IH]; [reflexivity|]. cbn [flat_map]. rewrite H, IH. reflexivity. Qed.

Lemma decls_of_env d a : map snd (decls_of d a) = decls_env a.
Proof.
  unfold decls_of, decls_env. induction a as [|x r IH]; [reflexivity|].
  cbn [flat_map]. rewrite map_app, IH. destruct (bytes_eqb (nspace (aname x)) s_xmlns); reflexivity.
Qed.

Lemma decls_of_depth d a : Forall (fun b : binding => fst b = d) (decls_of d a).
Proof.
  unfold decls_of. induction a as [|x r IH]; [constructor|].
  cbn [flat_map]. destruct (bytes_eqb (nspace (aname x)) s_xmlns); cbn [app]; [constructor; [reflexivity|exact IH]|exact IH].
Qed.

(* popping at depth d removes exactly what was pushed at depth d, provided
   everything underneath was pushed at a smaller depth *)
Lemma pop_pushed d : forall (l bs : list binding),
  Forall (fun b => fst b = d) l -> Forall (fun b => fst b < d) bs ->
  pop_bindings d (l ++ bs) = bs.
Proof.
  induction l as [|[d' b] r IH]; intros bs Hl Hbs.
  - cbn [app]. destruct bs as [|[d' b] r]; [reflexivity|].
    cbn [pop_bindings]. apply Forall_inv in Hbs. cbn [fst] in Hbs.
    destruct (d <=? d') eqn:E; [apply Z.leb_le in E; lia|reflexivity].
  - pose proof (Forall_inv Hl) as H1. apply Forall_inv_tail in Hl. cbn [fst] in H1. subst d'.
    cbn [app pop_bindings]. rewrite Z.leb_refl. apply IH; assumption.
Qed.

Lemma Forall_rev' {A} (P : A -> Prop) l : Forall P l -> Forall P (rev l).
Proof. intro H. apply Forall_forall. intros x Hx. apply in_rev in Hx. rewrite Forall_forall in H. apply H. exact Hx. Qed.

Lemma scoping_tree : forall t d bs rest,
  Forall (fun b : binding => fst b <= d) bs ->
  resolve_raw d bs (tokens_of t ++ rest) = tokens_of (scoped_tree (map snd bs) t) ++ resolve_raw d bs rest.
Proof.
  apply (tree_forest_ind
    (fun t => forall d bs rest, Forall (fun b : binding => fst b <= d) bs ->
       resolve_raw d bs (tokens_of t ++ rest) = tokens_of (scoped_tree (map snd bs) t) ++ resolve_raw d bs rest)
    (fun f => forall d bs rest, Forall (fun b : binding => fst b <= d) bs ->
       resolve_raw d bs (forest_tokens f ++ rest) =
       forest_tokens (map (scoped_tree (map snd bs)) f) ++ resolve_raw d bs rest)).
  - intros n a kids IH d bs rest Hbs.
    cbn [scoped_tree]. rewrite !tokens_of_elem. cbn [app resolve_raw].
    set (bs' := rev (decls_of (d + 1) a) ++ bs).
    assert (Henv : map snd bs' = rev (decls_env a) ++ map snd bs).
    { unfold bs'. rewrite map_app, map_rev, decls_of_env. reflexivity. }
    assert (Hbs' : Forall (fun b : binding => fst b <= d + 1) bs').
    { unfold bs'. apply Forall_app. split.
      - apply Forall_rev'. eapply Forall_impl; [|apply decls_of_depth]. cbn. intros b Hb. lia.
      - eapply Forall_impl; [|exact Hbs]. cbn. intros b Hb. lia. }
    rewrite <- Henv.
    rewrite (flat_map_ext' (resolve_attr bs') (scoped_attr (map snd bs')) a (resolve_attr_scoped bs')).
    f_equal. rewrite <- !app_assoc. rewrite (IH (d + 1) bs' ([TEnd n] ++ rest) Hbs').
    f_equal. cbn [app resolve_raw]. f_equal.
    replace (d + 1 - 1) with d by lia.
    unfold bs'. rewrite pop_pushed; [reflexivity| |].
    + apply Forall_rev'. apply decls_of_depth.
    + eapply Forall_impl; [|exact Hbs]. cbn. intros b Hb. lia.
  - intros b d bs rest _. reflexivity.
  - intros k x y d bs rest _. reflexivity.
  - intros d bs rest _. reflexivity.
  - intros t r IHt IHr d bs rest Hbs. cbn [forest_tokens map]. rewrite <- !app_assoc.
    rewrite (IHt d bs _ Hbs), (IHr d bs rest Hbs). reflexivity.
Qed.

Lemma scoping_forest f : forall d bs rest,
  Forall (fun b : binding => fst b <= d) bs ->
  resolve_raw d bs (forest_tokens f ++ rest) =
  forest_tokens (map (scoped_tree (map snd bs)) f) ++ resolve_raw d bs rest.
Proof.
  induction f as [|t r IH]; intros d bs rest Hbs; [reflexivity|].
  cbn [forest_tokens map]. rewrite <- !app_assoc.
  rewrite (scoping_tree t d bs _ Hbs), (IH d bs rest Hbs). reflexivity.
Qed.

Theorem prefix_scoping f :
  resolve_raw 0 [] (forest_tokens f) = forest_tokens (map (scoped_tree []) f).
Proof.
  pose proof (scoping_forest f 0 [] [] (Forall_nil _)) as H.
  rewrite !app_nil_r in H. cbn [map] in H. exact H.
Qed.

(* Encode / EncodeElement of a marshaled value whose RawToken view is the raw
   element rt denote the element rt means *)
Lemma scoped_elem_shape e n a kids :
  scoped_tree e (Elem n a kids) =
  Elem n (flat_map (scoped_attr (rev (decls_env a) ++ e)) a) (map (scoped_tree (rev (decls_env a) ++ e)) kids).
Proof. reflexivity. Qed.

Theorem struct_denotes_scoped n a kids :
  let rt := Elem n a kids in
  denotes (CEncode (VStruct (tokens_of rt) false)) (scoped_tree [] rt) 1 /\
  forall sn sa, denotes (CEncodeElement (VStruct (tokens_of rt) false) sn sa)
                        (Elem sn (merged_attrs sa (top_attrs_of (scoped_tree [] rt))) (kids_of (scoped_tree [] rt))) 1.
Proof.
  intro rt.
  assert (H : resolve_raw 0 [] (tokens_of rt) = tokens_of (scoped_tree [] rt)).
  { pose proof (prefix_scoping [rt]) as H. cbn [forest_tokens map] in H. rewrite !app_nil_r in H. exact H. }
  unfold rt in *. rewrite scoped_elem_shape in *. split.
  - apply (D_encode_struct _ n). exact H.
  - intros sn sa. cbn [top_attrs_of kids_of]. apply (D_encel_struct _ n). exact H.
Qed.

(* element names: [resolve_raw] leaves them as they are, which is their meaning
   exactly when they carry no prefix *)
Lemma meaning_unprefixed : forall t e, unprefixed_elems t -> meaning_tree e t = scoped_tree e t.
Proof.
  apply (tree_forest_ind
    (fun t => forall e, unprefixed_elems t -> meaning_tree e t = scoped_tree e t)
    (fun f => forall e, (fix all (ks : list tree) : Prop :=
                           match ks with [] => True | k :: r => unprefixed_elems k /\ all r end) f ->
                        map (meaning_tree e) f = map (scoped_tree e) f)).
  - intros n a kids IH e [Hn Hk]. cbn [meaning_tree scoped_tree].
    unfold meaning_name. rewrite Hn. cbn [is_empty]. rewrite (IH _ Hk). reflexivity.
  - reflexivity.
  - reflexivity.
  - reflexivity.
  - intros t r IHt IHr e [Ht Hr]. cbn [map]. rewrite (IHt e Ht), (IHr e Hr). reflexivity.
Qed.

Definition full_meaning_statement : Prop := forall f,
  resolve_raw 0 [] (forest_tokens f) = forest_tokens (map (meaning_tree []) f).

Theorem full_meaning_partial f :
  Forall unprefixed_elems f ->
  resolve_raw 0 [] (forest_tokens f) = forest_tokens (map (meaning_tree []) f).
Proof.
  intro H. rewrite prefix_scoping. f_equal.
  induction f as [|t r IH]; [reflexivity|].
  cbn [map]. rewrite (meaning_unprefixed t [] (Forall_inv H)), (IH (Forall_inv_tail H)). reflexivity.
Qed.

(* <p:a xmlns:p="urn:1"/> : the element stays named {p}a *)
Theorem full_meaning_refuted : ~ full_meaning_statement.
Proof.
  intro H.
  specialize (H [Elem (mkname (str "p") (str "a")) [mkattr (mkname s_xmlns (str "p")) (str "urn:1")] []]).
  vm_compute in H. discriminate.
Qed.

(* the facts about rawTokenReader.Token that [resolve_raw] mirrors, read from
   internal/marshal/encode.go by the translator: a start element increments the
   depth before it pushes its declarations (tagged with the new depth); a prefix
   is looked up from the innermost binding outwards; an end element pops every
   binding whose depth is >= the current depth and decrements the depth after *)
Lemma raw_reader_tables :
  so_raw_push_after_inc = true /\ so_raw_lookup_innermost = true /\
  so_raw_pop_before_dec = true /\ so_raw_pop_cmp = str ">=" /\ so_raw_pop_rhs_is_depth = true.
Proof. repeat split; vm_compute; reflexivity. Qed.
