(* C03/Examples.v — non-vacuity: runs that do satisfy the hypotheses of the
   soundness theorems (authn = true) along every path that can set the bit, and
   the adversarial shapes named in the property, evaluated in the model. *)
From XV Require Import lib.Bytes C03.Model C03.Proofs C03.Hist C03.HistProofs.

Definition xa : list mech := [mkMech (str "X-A") KScript].
Definition adv_xa : list (bool * bytes) := [(true, str "X-A")].
Definition cfg_xa : ccfg := mkCcfg xa adv_xa (mkCreds [] (str "test") []).
Definition ok_pay (d : bytes) : pay := mkPay (match d with [] => PNone | _ => PText end) (Some d).
Definition more (r : string) : sres := mkSres true (str r) MNone.
Definition fin : sres := mkSres false [] MNone.

(* client, PLAIN: one Step, <success/> *)
Example ex_client_plain :
  negotiate_client (env_of [] []) (mkCcfg [mkMech (str "PLAIN") KPlain] [(true, str "PLAIN")] (mkCreds [] (str "test") []))
                   [CSuccess (Some (mkPay PNone (Some [])))]
  = mkRes None [OAuth (str "PLAIN") (str "AHRlc3QA")]
          [EvStep (str "PLAIN") [] (mkSres false (x00 :: str "test" ++ [x00]) MNone)] 1.
Proof. vm_compute. reflexivity. Qed.

(* client, SCRAM-shaped: the mechanism completes on the data carried by <success/> *)
Example ex_client_completes_on_success :
  authn (negotiate_client (env_of [more "c1"; more "c2"; fin] []) cfg_xa
           [CChallenge (Some (ok_pay (str "s1"))); CSuccess (Some (ok_pay (str "v=sig")))]) = true.
Proof. vm_compute. reflexivity. Qed.

(* client: the mechanism completes on a <challenge/>, the <success/> follows (final read) *)
Example ex_client_completes_on_challenge :
  negotiate_client (env_of [more "a"; fin] []) cfg_xa
     [CChallenge (Some (ok_pay (str "x"))); CSuccess (Some (mkPay PNone (Some [])))]
  = mkRes None [OAuth (str "X-A") (str "YQ=="); OResponse (str "=")]
          [EvStep (str "X-A") [] (more "a"); EvStep (str "X-A") (str "x") fin] 2.
Proof. vm_compute. reflexivity. Qed.

(* ... and without the <success/> it is rejected: failure, challenge, nothing *)
Example ex_client_no_success :
  map (fun s => r_err (negotiate_client (env_of [more "a"; fin] []) cfg_xa (CChallenge (Some (ok_pay (str "x"))) :: s)))
      [[]; [CFailure (Some 10)]; [CChallenge (Some (ok_pay (str "y")))]; [CSuccess (Some (mkPay PEq None))]]
  = [Some EStream; Some (ESaslFailure 10); Some EUnexpected; Some EB64].
Proof. vm_compute. reflexivity. Qed.

(* premature success: the exchange goes on and still needs completion and a final <success/> *)
Example ex_client_premature_success :
  map (fun s => authn (negotiate_client (env_of [more "a"; more "b"; fin] []) cfg_xa s))
      [[CSuccess (Some (ok_pay (str "x")))];
       [CSuccess (Some (ok_pay (str "x"))); CSuccess (Some (ok_pay (str "y")))];
       [CSuccess (Some (ok_pay (str "x"))); CChallenge (Some (ok_pay (str "y")))]]
  = [false; true; false].
Proof. vm_compute. reflexivity. Qed.

(* a mechanism error, an unadvertised mechanism, a mechanism advertised outside the SASL namespace *)
Example ex_client_closed :
  (r_err (negotiate_client (env_of [more "a"; mkSres true (str "zz") MAuthn] []) cfg_xa [CSuccess (Some (ok_pay (str "x")))]),
   r_err (negotiate_client (env_of [fin] []) (mkCcfg xa [(true, str "X-B")] (mkCreds [] [] [])) [CSuccess (Some (ok_pay []))]),
   r_err (negotiate_client (env_of [fin] []) (mkCcfg xa [(false, str "X-A")] (mkCreds [] [] [])) [CSuccess (Some (ok_pay []))]))
  = (Some EMechAuthn, Some ENoMech, Some ENoMech).
Proof. vm_compute. reflexivity. Qed.

(* server, PLAIN accepted / refused / malformed *)
Definition plain_srv : list mech := [mkMech (str "X-A") KScript; mkMech (str "PLAIN") KPlain].
Definition creds_pay : pay := ok_pay (x00 :: str "test" ++ x00 :: str "pass").

Example ex_server_plain_ok :
  negotiate_server (env_of [] [true]) plain_srv [SAuth (str "PLAIN") (Some creds_pay)]
  = mkRes None [OSuccess []]
      [EvPerm (str "test") (str "pass") [] true;
       EvStep (str "PLAIN") (x00 :: str "test" ++ x00 :: str "pass") fin] 1.
Proof. vm_compute. reflexivity. Qed.

Example ex_server_plain_refused :
  negotiate_server (env_of [] [false]) plain_srv [SAuth (str "PLAIN") (Some creds_pay)]
  = mkRes (Some EMechAuthn) [OFailure cond_not_authorized]
      [EvPerm (str "test") (str "pass") [] false;
       EvStep (str "PLAIN") (x00 :: str "test" ++ x00 :: str "pass") (mkSres false [] MAuthn)] 1.
Proof. vm_compute. reflexivity. Qed.

(* server, multi-step scripted mechanism; a second <auth/> restarts the exchange *)
Example ex_server_two_steps :
  authn (negotiate_server (env_of [more "c"; fin] []) plain_srv
           [SAuth (str "X-A") (Some (ok_pay (str "i"))); SResponse (Some (ok_pay (str "r")))]) = true.
Proof. vm_compute. reflexivity. Qed.

Example ex_server_reauth :
  negotiate_server (env_of [more "c"; fin] [true]) plain_srv
           [SAuth (str "X-A") (Some (ok_pay (str "i"))); SAuth (str "PLAIN") (Some creds_pay)]
  = mkRes None [OChallenge (str "Yw=="); OSuccess []]
      [EvStep (str "X-A") (str "i") (more "c");
       EvPerm (str "test") (str "pass") [] true;
       EvStep (str "PLAIN") (x00 :: str "test" ++ x00 :: str "pass") fin] 2.
Proof. vm_compute. reflexivity. Qed.

(* the adversarial shapes on the receiving side *)
Example ex_server_closed :
  map (fun s => r_err (negotiate_server (env_of [more "c"; fin] [true]) plain_srv s))
      [[SResponse (Some creds_pay)];
       [SAuth (str "UNKNOWN") (Some creds_pay)];
       [SAuth [] (Some creds_pay)];
       [SAuth (str "X-A") (Some (ok_pay (str "i"))); SAbort true];
       [SAuth (str "X-A") (Some (mkPay PText None))];
       [SAuth (str "X-A") (Some (ok_pay (str "i"))); SOther true];
       [SAuth (str "PLAIN") (Some (mkPay PEq None))];        (* "=": empty payload, not three fields *)
       [SFailure (Some 1)]; [SNonStart]; []]
  = [Some EUnexpected; Some ENoMech; Some ENoMech; Some ETerminated; Some EB64; Some EUnexpected;
     Some EMechOther; Some (ESaslFailure 1); Some EUnexpected; Some EStream].
Proof. vm_compute. reflexivity. Qed.

(* the hypotheses of the soundness theorems are satisfiable: the conclusions, instantiated *)
Example ex_client_sound_instance :
  exists m pre last,
    select_mech xa (parse_adv adv_xa) = Some m /\
    firstn 2 [CChallenge (Some (ok_pay (str "x"))); CSuccess (Some (mkPay PNone (Some [])))] = pre ++ [last] /\
    c_success last /\ Forall c_feedable pre.
Proof.
  exists (mkMech (str "X-A") KScript), [CChallenge (Some (ok_pay (str "x")))], (CSuccess (Some (mkPay PNone (Some [])))).
  split; [vm_compute; reflexivity|]. split; [reflexivity|].
  split; [exists (mkPay PNone (Some [])), []; split; reflexivity|].
  constructor; [|constructor]. exists (ok_pay (str "x")), (str "x"). split; [left; reflexivity | reflexivity].
Qed.

(* base64 encoder on the RFC 4648 vectors *)
Example ex_b64 :
  map b64_encode [str ""; str "f"; str "fo"; str "foo"; str "foob"; str "fooba"; str "foobar"]
  = [str ""; str "Zg=="; str "Zm8="; str "Zm9v"; str "Zm9vYg=="; str "Zm9vYmE="; str "Zm9vYmFy"].
Proof. vm_compute. reflexivity. Qed.

(* ---------------------------------------------------------------- histories (C03/Hist.v) *)

(* Go's append on the heap: a nil slice grows through capacities 1, 2, 4, so
   "a", "b" and "c" each allocate an array and "d" is written in place *)
Example ex_parse_growth :
  parse_names [] nil_slice [str "a"; str "b"; str "c"; str "d"]
  = ([[str "a"]; [str "a"; str "b"]; [str "a"; str "b"; str "c"; str "d"]], mkSlice (Some 2) 4 4).
Proof. vm_compute. reflexivity. Qed.

(* re-slicing to length 0 and appending writes into the array handed out before *)
Example ex_parse_reuse :
  let '(h1, d1) := parse_names [] nil_slice [str "X-A"; str "X-B"] in
  let '(h2, d2) := parse_names h1 d1 [str "PLAIN"] in
  (sl_read h1 d1, sl_read h2 d1, sl_read h2 d2)
  = ([str "X-A"; str "X-B"], [str "PLAIN"; str "X-B"], [str "PLAIN"]).
Proof. vm_compute. reflexivity. Qed.

(* two initiating connections and a receiving one on one feature value, lists
   parsed before either negotiates: under the source's decode target each
   authenticates (or not) as it does alone *)
Definition ex_hist : hist :=
  mkHist [mkMech (str "X-A") KScript; mkMech (str "PLAIN") KPlain] [] (str "pw")
    [HClient [(true, str "X-B")] (str "u0") [mkSres false [] MNone] [CSuccess (Some (mkPay PNone (Some [])))];
     HClient [(true, str "X-A"); (true, str "PLAIN")] (str "u1") [mkSres false (str "r") MNone] [CSuccess (Some (mkPay PNone (Some [])))];
     HServer [] [true] [SAuth (str "PLAIN") (Some creds_pay)]].

Example ex_hist_run :
  map (option_map authn) (st_res (hist_run src_target ex_hist [HParse 0; HParse 1; HNeg 2; HNeg 0; HNeg 1]))
  = [Some false; Some true; Some true] /\
  map (option_map authn) (st_res (hist_run PCaptured ex_hist [HParse 0; HParse 1; HNeg 2; HNeg 0; HNeg 1]))
  = [Some true; Some true; Some true].
Proof. split; vm_compute; reflexivity. Qed.

(* the hypotheses of the history theorems are satisfiable *)
Example ex_hist_instance :
  exists r, nth 1 (st_res (hist_run src_target ex_hist [HParse 1; HParse 0; HNeg 1])) None = Some r /\
            authn r = true /\ In (OAuth (str "X-A") (str "cg==")) (r_out r).
Proof. eexists. split; [vm_compute; reflexivity|]. split; [reflexivity | left; reflexivity]. Qed.
