(* C03/Properties.v — the property theorems of C03 and nothing else.
   "The authenticated bit is only set by a completed, accepted SASL exchange."
   The statements are spelled out in C03/Proofs.v (…_statement); they quantify
   over every mechanism oracle and permission oracle (env), every mechanism
   list on either side, every advertised list and every finite peer script. *)
From XV Require Import lib.Bytes gen.Sasl C03.Model C03.Proofs C03.Hist C03.HistProofs.

(* Initiating side. If negotiateClient returns Authn then: the mechanism used is
   the client's first preference among the advertised ones; the session read
   only decodable <challenge/>/<success/> elements and the last element it read
   is a well-formed <success/>; every Step was made on that mechanism, none
   returned an error, every Step but the last asked for more and the last one
   completed; and the mechanism had completed when, or before, that <success/>
   was read (no element is read after the completing Step except the
   <success/>). *)
Theorem C03_client_authn_sound : client_sound_statement.
Proof. exact client_sound. Qed.
Print Assumptions C03_client_authn_sound.

(* Receiving side. If negotiateServer returns Authn then: the session read
   feedable elements, then an <auth/> naming a (non-empty-named) mechanism of
   the server's own list, then only decodable <response/> elements; since that
   <auth/> exactly one Step per element was made, all on that mechanism, none
   failed, only the last reported completion; for PLAIN that exchange is the
   permission callback accepting exactly the credentials the <auth/> carried;
   and <success/> is the last element written, preceded by challenges only. *)
Theorem C03_server_authn_sound : server_sound_statement.
Proof. exact server_sound. Qed.
Print Assumptions C03_server_authn_sound.

(* A mechanism that both sides did not offer is never used — on every run,
   successful or not. Initiator: every Step and the <auth/> written name the
   selected mechanism, which is in the client's list and was advertised in the
   SASL namespace. *)
Theorem C03_no_unoffered_mechanism_client : client_offered_statement.
Proof. exact client_offered. Qed.
Print Assumptions C03_no_unoffered_mechanism_client.

(* Receiver: every Step is on a mechanism of the server's own list that an
   <auth/> of the script selected by name. *)
Theorem C03_no_unoffered_mechanism_server : server_offered_statement.
Proof. exact server_offered. Qed.
Print Assumptions C03_no_unoffered_mechanism_server.

(* The client's choice respects its own preference order: no mechanism earlier
   in its list is advertised. *)
Theorem C03_client_preference : forall mechs names m,
  select_mech mechs names = Some m ->
  exists l1 l2, mechs = l1 ++ m :: l2 /\ forall m', In m' l1 -> ~ In (m_name m') names.
Proof. exact select_mech_preference. Qed.
Print Assumptions C03_client_preference.

(* The property's wording: premature or repeated success, challenges after
   completion, failure, abort, undecodable or malformed payloads, responses
   before a mechanism was chosen, unknown or unoffered mechanisms — none of
   them yields Authn; and the receiver writes <success/> exactly when it
   authenticates. *)
Theorem C03_adversarial_closed : adversarial_closed_statement.
Proof. exact adversarial_closed. Qed.
Print Assumptions C03_adversarial_closed.

(* The code at the pinned commit (before the repair) violated the initiator
   clause: witness (a two-step mechanism completing on a <challenge/>, no
   <success/> in the script); the repaired function rejects the same run. *)
Theorem C03_client_pinned_refuted :
  authn (negotiate_client_pinned pinned_env pinned_cfg pinned_script) = true /\
  (forall it, In it pinned_script -> ~ c_success it) /\
  authn (negotiate_client pinned_env pinned_cfg pinned_script) = false.
Proof. exact pinned_refuted. Qed.
Print Assumptions C03_client_pinned_refuted.

(* Facts read from sasl.go / internal/saslerr/errors.go by the translator on
   every run: the feature is eligible only on a secured, unauthenticated stream;
   Authn is only ever returned with a nil error and the mask is otherwise zero;
   the element names, namespace, failure conditions and the guard of the base64 decode
   are the ones the model uses. A source edit that changes any of them breaks
   this obligation. *)
Theorem C03_source_tables : tables_statement.
Proof. exact tables. Qed.
Print Assumptions C03_source_tables.

(* Non-vacuity at every length: a scripted mechanism that asks for more n
   times and then completes does authenticate against a peer that plays along
   (n challenges then <success/> carrying the last data; <auth/> then n
   responses). So the soundness theorems above constrain a model that can, and
   does, return Authn. *)
Theorem C03_client_honest_authenticates : client_honest_statement.
Proof. exact client_honest. Qed.
Print Assumptions C03_client_honest_authenticates.

Theorem C03_server_honest_authenticates : server_honest_statement.
Proof. exact server_honest. Qed.
Print Assumptions C03_server_honest_authenticates.

(* ---- connections that share one SASL feature value (C03/Hist.v) ----
   A history is any list of connections (initiating and receiving) using the
   same StreamFeature value and any schedule of their Parse / Negotiate calls.
   The decode target of Parse is the one read from sasl.go in this run. *)

(* Every connection gets from Negotiate exactly the result it gets alone, with
   the list its own receiver advertised. *)
Theorem C03_history_sessions_independent : history_independent_statement.
Proof. exact history_independent. Qed.
Print Assumptions C03_history_sessions_independent.

(* What Parse returned for a connection still reads as its own receiver's list
   after any later Parse / Negotiate of any connection (heap of backing arrays). *)
Theorem C03_history_parse_result_stable : history_data_stable_statement.
Proof. exact history_data_stable. Qed.
Print Assumptions C03_history_parse_result_stable.

(* A mechanism that THIS connection's receiver did not offer is never used. *)
Theorem C03_history_no_unoffered_mechanism : history_no_unoffered_statement.
Proof. exact history_no_unoffered. Qed.
Print Assumptions C03_history_no_unoffered_mechanism.

(* Authn for a connection of a history implies the soundness clauses about that
   connection's own list, script, mechanism Steps and permission verdicts. *)
Theorem C03_history_authn_sound : history_authn_sound_statement.
Proof. exact history_authn_sound. Qed.
Print Assumptions C03_history_authn_sound.

(* The hypothesis is needed: with the decode target captured by the feature
   value and re-sliced per call, a connection offered only SCRAM-SHA-256 sends
   <auth mechanism='PLAIN'> and is authenticated. *)
Theorem C03_shared_parse_buffer_refuted : shared_buffer_refuted_statement.
Proof. exact shared_buffer_refuted. Qed.
Print Assumptions C03_shared_parse_buffer_refuted.

(* Facts of the source text behind the above, regenerated on every run: the
   decode target is declared in the call of Parse; newSASL has no variables but
   its parameters and its closures only read them; no package-level variable or
   parameter of sasl.go is written; both base64 decodes return their error. *)
Theorem C03_feature_value_tables : feature_value_tables_statement.
Proof. exact feature_value_tables. Qed.
Print Assumptions C03_feature_value_tables.
