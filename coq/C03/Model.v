(* C03/Model.v — executable model of the SASL stream feature (sasl.go):
     negotiateClient (mechanism selection, initial Step, <auth/>, the "for more"
       loop, the final <success/>/<failure/> read, decodeSASLChallenge),
     negotiateServer (auth/response/abort dispatch, mechanism lookup, the
       empty / "=" payload rule, Step, failure replies, challenge/success writing),
     the Parse and List callbacks of the feature (mechanism names).

   Abstraction boundary.  The model starts at element level: the peer's script
   is a list of items, one per top-level token the session reads.  For an
   element the item carries what encoding/xml hands to the code: its name
   class, whether its content could be decoded (DecodeElement returned nil) and
   its direct character data, given as (length, result of Go's
   base64.StdEncoding.Decode on it).  encoding/xml and encoding/base64 (decode
   direction) are therefore oracles; the harness obtains their results by
   calling them.  Base64 *encoding* of what the session writes is modelled
   concretely ([b64_encode]).

   The SASL mechanism is an oracle: the k-th call of Negotiator.Step (counted
   over the whole negotiation) of a scripted mechanism returns [e_oracle k] —
   arbitrary; the theorems quantify over all of them.  PLAIN (12 lines of
   mellium.im/sasl) is modelled concretely, including its call of the
   application's permission callback, whose k-th verdict is [e_perm k].

   The model mirrors sasl.go after the repair "fix: sasl: require <success/>
   ..." (the pinned code left the client loop with Authn when the mechanism
   completed on a <challenge/>); [client_loop_pinned] keeps the pinned
   behaviour for the refutation witness. *)
From XV Require Import lib.Bytes.

(* ---------------------------------------------------------------- base64 *)

Definition b64_alphabet : bytes :=
  str "ABCDEFGHIJKLMNOPQRSTUVWXYZabcdefghijklmnopqrstuvwxyz0123456789+/".

Definition b64c (n : N) : byte := nth (N.to_nat n) b64_alphabet "A"%byte.

Definition pad : byte := "="%byte.

Fixpoint b64_encode (s : bytes) : bytes :=
  match s with
  | [] => []
  | a :: r1 =>
      let x := bN a in
      match r1 with
      | [] => [b64c (x / 4); b64c ((x mod 4) * 16); pad; pad]%N
      | b :: r2 =>
          let y := bN b in
          match r2 with
          | [] => [b64c (x / 4); b64c ((x mod 4) * 16 + y / 16); b64c ((y mod 16) * 4); pad]%N
          | c :: r3 =>
              let z := bN c in
              ([b64c (x / 4); b64c ((x mod 4) * 16 + y / 16);
                b64c ((y mod 16) * 4 + z / 64); b64c (z mod 64)]%N) ++ b64_encode r3
          end
      end
  end.

(* RFC 6120 6.4.2: a zero-length payload is sent as "=" (auth, response, challenge). *)
Definition enc_payload (resp : bytes) : bytes :=
  match resp with [] => [pad] | _ => b64_encode resp end.

(* ---------------------------------------------------------------- mechanisms *)

Inductive merr := MNone | MAuthn | MOther.   (* nil | sasl.ErrAuthn | any other error *)

Definition merr_eqb (a b : merr) : bool :=
  match a, b with MNone, MNone | MAuthn, MAuthn | MOther, MOther => true | _, _ => false end.

Record sres := mkSres { s_more : bool; s_resp : bytes; s_err : merr }.

(* Negotiator.Step: "if err != nil { return false, nil, err }" *)
Definition norm (r : sres) : sres :=
  match s_err r with MNone => r | e => mkSres false [] e end.

Inductive mkind := KScript | KPlain.
Record mech := mkMech { m_name : bytes; m_kind : mkind }.

Record env := mkEnv {
  e_oracle : nat -> sres;    (* k-th Step of a scripted mechanism *)
  e_perm : nat -> bool       (* k-th verdict of the permission callback *)
}.

Inductive ev :=
| EvStep (name : bytes) (challenge : bytes) (r : sres)       (* Step on mechanism [name] returned r *)
| EvPerm (user pass ident : bytes) (verdict : bool).         (* permission callback *)

(* bytes.Split(challenge, {0}) *)
Fixpoint split0 (cur : bytes) (s : bytes) : list bytes :=
  match s with
  | [] => [rev cur]
  | c :: r => if byte_eqb c x00 then rev cur :: split0 [] r else split0 (c :: cur) r
  end.

Inductive role := Client | Server.

Record creds := mkCreds { cr_ident : bytes; cr_user : bytes; cr_pass : bytes }.

(* One call of Negotiator.Step.  k: global Step count, pk: permission-call
   count, n: Steps already made on this Negotiator.  Returns the normalised
   result, the events, and the new permission-call count. *)
Definition do_step (e : env) (rl : role) (cr : creds) (m : mech) (k pk n : nat) (ch : bytes)
  : sres * list ev * nat :=
  match m_kind m with
  | KScript =>
      let r := norm (e_oracle e k) in (r, [EvStep (m_name m) ch r], pk)
  | KPlain =>
      match rl with
      | Client =>
          (* Start: identity 0 username 0 password; Next on a client: ErrTooManySteps *)
          let r := match n with
                   | O => mkSres false (cr_ident cr ++ x00 :: cr_user cr ++ x00 :: cr_pass cr) MNone
                   | S _ => mkSres false [] MOther
                   end in
          (r, [EvStep (m_name m) ch r], pk)
      | Server =>
          match n with
          | S _ => let r := mkSres false [] MOther in (r, [EvStep (m_name m) ch r], pk)
          | O =>
              match split0 [] ch with
              | [ident; user; pass] =>
                  let v := e_perm e pk in
                  let r := if v then mkSres false [] MNone else mkSres false [] MAuthn in
                  (r, [EvPerm user pass ident v; EvStep (m_name m) ch r], S pk)
              | _ => let r := mkSres false [] MOther in (r, [EvStep (m_name m) ch r], pk)
              end
          end
      end
  end.

(* ---------------------------------------------------------------- wire and results *)

(* Character data of an element as the code receives it: whether there is
   none, whether it is the single character "=", and the result of
   base64.StdEncoding.Decode on it (None = CorruptInputError). *)
Inductive pform := PNone | PEq | PText.
Record pay := mkPay { p_form : pform; p_dec : option bytes }.

(* SASL failure conditions written by the server (saslerr.Condition values). *)
Definition cond_aborted : nat := 1.
Definition cond_invalid_mechanism : nat := 7.
Definition cond_malformed_request : nat := 8.
Definition cond_not_authorized : nat := 10.

Inductive out :=
| OAuth (name payload : bytes)
| OResponse (payload : bytes)
| OChallenge (payload : bytes)
| OSuccess (payload : bytes)
| OFailure (cond : nat).

Inductive err :=
| ENoMech          (* errNoMechanisms *)
| EUnexpected      (* errUnexpectedPayload *)
| ETerminated      (* errTerminated *)
| ESaslFailure (cond : nat)   (* the peer's <failure/>, returned as the error *)
| EMechAuthn       (* sasl.ErrAuthn from Step *)
| EMechOther       (* any other error from Step *)
| EB64             (* base64.CorruptInputError *)
| EStream.         (* tokenizer / stream-level reader / DecodeElement error, EOF *)

Definition err_eqb (a b : err) : bool :=
  match a, b with
  | ENoMech, ENoMech | EUnexpected, EUnexpected | ETerminated, ETerminated
  | EMechAuthn, EMechAuthn | EMechOther, EMechOther | EB64, EB64 | EStream, EStream => true
  | ESaslFailure x, ESaslFailure y => Nat.eqb x y
  | _, _ => false
  end.

Definition err_of_merr (m : merr) : err :=
  match m with MAuthn => EMechAuthn | _ => EMechOther end.

(* r_err = None: the function returned (Authn, session.Conn(), nil).
   r_err = Some e: it returned (0, nil, error of class e). *)
Record res := mkRes {
  r_err : option err;
  r_out : list out;      (* elements written, in order *)
  r_evs : list ev;       (* mechanism / permission events, in order *)
  r_used : nat           (* script items consumed *)
}.

Definition authn (r : res) : bool := match r_err r with None => true | Some _ => false end.

Definition fail (e : err) : res := mkRes (Some e) [] [] 0.
Definition done : res := mkRes None [] [] 0.
Definition add_out (o : list out) (r : res) : res := mkRes (r_err r) (o ++ r_out r) (r_evs r) (r_used r).
Definition add_evs (v : list ev) (r : res) : res := mkRes (r_err r) (r_out r) (v ++ r_evs r) (r_used r).
Definition used1 (r : res) : res := mkRes (r_err r) (r_out r) (r_evs r) (S (r_used r)).

(* ---------------------------------------------------------------- client *)

(* What the initiating side reads.  [okc] / the option: whether the element's
   content could be decoded (DecodeElement succeeded). *)
Inductive citem :=
| CChallenge (p : option pay)     (* <challenge xmlns=SASL> *)
| CSuccess (p : option pay)       (* <success xmlns=SASL> *)
| CFailure (c : option nat)       (* <failure xmlns=SASL>, condition *)
| COther                          (* any other start element that reaches the feature *)
| CNonStart                       (* a non-start token (whitespace between elements) *)
| CBad.                           (* the token reader returns an error (EOF, syntax, stream error, ...) *)

(* Parse: the <mechanism/> children of <mechanisms/>; only those in the SASL
   namespace are collected (flag = in that namespace). *)
Definition parse_adv (adv : list (bool * bytes)) : list bytes :=
  map snd (filter fst adv).

(* "for _, m := range mechanisms { for _, name := range data { if name == m.Name
   { selected = m; break selectmechanism }}}" then "if selected.Name == """ *)
Definition select_mech (mechs : list mech) (names : list bytes) : option mech :=
  match find (fun m => existsb (bytes_eqb (m_name m)) names) mechs with
  | Some m => match m_name m with [] => None | _ => Some m end
  | None => None
  end.

Definition decode_client (p : pay) : option bytes := p_dec p.

(* The final read: "decode the <success/> or <failure/> before we exit"
   (decodeSASLChallenge with allowChallenge = false; additional data ignored). *)
Definition client_final (script : list citem) : res :=
  match script with
  | [] => fail EStream
  | it :: _ =>
      used1
      (match it with
       | CSuccess (Some p) => match decode_client p with Some _ => done | None => fail EB64 end
       | CSuccess None => fail EStream
       | CChallenge _ => fail EUnexpected
       | CFailure (Some c) => fail (ESaslFailure c)
       | CFailure None => fail EStream
       | COther => fail EUnexpected
       | CNonStart => fail EUnexpected
       | CBad => fail EStream
       end)
  end.

(* decodeSASLChallenge with allowChallenge = true, on one item: either the
   function returns an error, or it yields (payload, success flag). *)
Inductive cact := CFail (e : err) | CFeed (success : bool) (p : pay).

Definition client_dispatch (it : citem) : cact :=
  match it with
  | CFailure (Some c) => CFail (ESaslFailure c)
  | CFailure None => CFail EStream
  | COther => CFail EUnexpected
  | CNonStart => CFail EUnexpected
  | CBad => CFail EStream
  | CChallenge None | CSuccess None => CFail EStream
  | CChallenge (Some p) => CFeed false p
  | CSuccess (Some p) => CFeed true p
  end.

(* The "for more" loop; [final]: whether a loop exit by more = false on a
   <challenge/> is followed by the final read (repaired code) or returns Authn
   at once (pinned code). *)
Fixpoint client_loop (final : bool) (e : env) (cr : creds) (m : mech) (k pk n : nat)
         (script : list citem) : res :=
  match script with
  | [] => fail EStream
  | it :: rest =>
      used1
      (match client_dispatch it with
       | CFail x => fail x
       | CFeed success p =>
           match decode_client p with
           | None => fail EB64
           | Some ch =>
               let '(r, evs, pk') := do_step e Client cr m k pk n ch in
               add_evs evs
               (match s_err r with
                | MNone =>
                    if negb (s_more r) && success then done
                    else add_out [OResponse (enc_payload (s_resp r))]
                         (if s_more r then client_loop final e cr m (S k) pk' (S n) rest
                          else if final then client_final rest else done)
                | me => fail (err_of_merr me)
                end)
           end
       end)
  end.

Record ccfg := mkCcfg {
  c_mechs : list mech;              (* mechanisms given to xmpp.SASL, in preference order *)
  c_adv : list (bool * bytes);      (* <mechanism/> children advertised by the peer *)
  c_creds : creds
}.

Definition negotiate_client_gen (final : bool) (e : env) (c : ccfg) (script : list citem) : res :=
  match select_mech (c_mechs c) (parse_adv (c_adv c)) with
  | None => fail ENoMech
  | Some m =>
      let '(r, evs, pk') := do_step e Client (c_creds c) m 0 0 0 [] in
      add_evs evs
      (match s_err r with
       | MNone =>
          add_out [OAuth (m_name m) (enc_payload (s_resp r))]
            (if s_more r then client_loop final e (c_creds c) m 1 pk' 1 script
             else client_final script)
       | me => fail (err_of_merr me)
       end)
  end.

Definition negotiate_client := negotiate_client_gen true.
Definition negotiate_client_pinned := negotiate_client_gen false.   (* sasl.go at the pinned commit *)

(* ---------------------------------------------------------------- server *)

Inductive sitem :=
| SAuth (name : bytes) (p : option pay)   (* <auth xmlns=SASL mechanism=name> *)
| SResponse (p : option pay)              (* <response xmlns=SASL> *)
| SAbort (okc : bool)                     (* <abort xmlns=SASL> *)
| SFailure (c : option nat)               (* <failure xmlns=SASL> *)
| SOther (okc : bool)                     (* any other start element *)
| SNonStart
| SBad.

(* "for _, m := range mechanisms { if selection.Name == m.Name { selected = m; break }}"
   then "if selected.Name == """ *)
Definition lookup_mech (mechs : list mech) (name : bytes) : option mech :=
  match find (fun m => bytes_eqb name (m_name m)) mechs with
  | Some m => match m_name m with [] => None | _ => Some m end
  | None => None
  end.

(* "if p := selection.Payload; len(p) > 0 && !(len(p) == 1 && p[0] == '=') { decode }":
   no character data and "=" are the zero-length message, everything else has
   to decode (also when it is shorter than one base64 quantum) *)
Definition decode_server (p : pay) : option bytes :=
  match p_form p with PText => p_dec p | PNone | PEq => Some [] end.

(* The dispatch on one element (failure check, DecodeElement, the switch on
   the element name): either a reply and an error, or a payload for Step on
   mechanism m whose Negotiator has made n Steps. *)
Inductive sact := SFail (o : list out) (e : err) | SStep (m : mech) (n : nat) (p : pay).

Definition server_dispatch (mechs : list mech) (sel : option (mech * nat)) (it : sitem) : sact :=
  match it with
  | SNonStart => SFail [] EUnexpected
  | SBad => SFail [] EStream
  | SFailure (Some c) => SFail [] (ESaslFailure c)
  | SFailure None => SFail [] EStream
  | SAbort false | SOther false | SAuth _ None | SResponse None => SFail [] EStream
  | SAbort true => SFail [OFailure cond_aborted] ETerminated
  | SOther true => SFail [OFailure cond_malformed_request] EUnexpected
  | SAuth name (Some p) =>
      match lookup_mech mechs name with
      | None => SFail [OFailure cond_invalid_mechanism] ENoMech
      | Some m => SStep m 0 p            (* sasl.NewServer: a fresh Negotiator *)
      end
  | SResponse (Some p) =>
      match sel with
      | None => SFail [OFailure cond_malformed_request] EUnexpected
      | Some (m, n) => SStep m n p
      end
  end.

Fixpoint server_loop (e : env) (mechs : list mech) (sel : option (mech * nat)) (k pk : nat)
         (script : list sitem) : res :=
  match script with
  | [] => fail EStream
  | it :: rest =>
      used1
      (match server_dispatch mechs sel it with
       | SFail o x => add_out o (fail x)
       | SStep m n p =>
           match decode_server p with
           | None => fail EB64
           | Some ch =>
               let '(r, evs, pk') := do_step e Server (mkCreds [] [] []) m k pk n ch in
               add_evs evs
               (match s_err r with
                | MNone =>
                    if s_more r
                    then add_out [OChallenge (enc_payload (s_resp r))]
                           (server_loop e mechs (Some (m, S n)) (S k) pk' rest)
                    else add_out [OSuccess (b64_encode (s_resp r))] done
                | MAuthn => add_out [OFailure cond_not_authorized] (fail EMechAuthn)
                | MOther => fail EMechOther
                end)
           end
       end)
  end.

Definition negotiate_server (e : env) (mechs : list mech) (script : list sitem) : res :=
  server_loop e mechs None 0 0 script.

(* List: the names written into <mechanisms/>. *)
Definition list_names (mechs : list mech) : list bytes := map m_name mechs.

(* ---------------------------------------------------------------- correspondence records *)

Definition sres_eqb (a b : sres) : bool :=
  Bool.eqb (s_more a) (s_more b) && bytes_eqb (s_resp a) (s_resp b) && merr_eqb (s_err a) (s_err b).

Definition ev_eqb (a b : ev) : bool :=
  match a, b with
  | EvStep n c r, EvStep n' c' r' => bytes_eqb n n' && bytes_eqb c c' && sres_eqb r r'
  | EvPerm u p i v, EvPerm u' p' i' v' => bytes_eqb u u' && bytes_eqb p p' && bytes_eqb i i' && Bool.eqb v v'
  | _, _ => false
  end.

Definition out_eqb (a b : out) : bool :=
  match a, b with
  | OAuth n p, OAuth n' p' => bytes_eqb n n' && bytes_eqb p p'
  | OResponse p, OResponse p' | OChallenge p, OChallenge p' | OSuccess p, OSuccess p' => bytes_eqb p p'
  | OFailure c, OFailure c' => Nat.eqb c c'
  | _, _ => false
  end.

Fixpoint list_eqb {A} (eqb : A -> A -> bool) (a b : list A) : bool :=
  match a, b with
  | [], [] => true
  | x :: a', y :: b' => eqb x y && list_eqb eqb a' b'
  | _, _ => false
  end.

Definition oerr_eqb (a b : option err) : bool :=
  match a, b with
  | None, None => true
  | Some x, Some y => err_eqb x y
  | _, _ => false
  end.

Definition res_eqb (a b : res) : bool :=
  oerr_eqb (r_err a) (r_err b) && list_eqb out_eqb (r_out a) (r_out b) &&
  list_eqb ev_eqb (r_evs a) (r_evs b) && Nat.eqb (r_used a) (r_used b).

(* Oracles in case files: finite tables with a default (script exhausted: the
   harness's scripted mechanism returns an error, the callback refuses). *)
Definition env_of (steps : list sres) (verdicts : list bool) : env :=
  mkEnv (fun k => nth k steps (mkSres false [] MOther)) (fun k => nth k verdicts false).

(* A client run: inputs, then what the real NewSession did. [cc_authn]: the
   Authn bit of Session.State() after NewSession returned. *)
Record ccase := mkCcase {
  cc_cfg : ccfg; cc_steps : list sres; cc_script : list citem;
  cc_obs : res; cc_authn : bool }.

Definition ccase_ok (c : ccase) : bool :=
  let r := negotiate_client (env_of (cc_steps c) []) (cc_cfg c) (cc_script c) in
  res_eqb r (cc_obs c) && Bool.eqb (authn r) (cc_authn c).

(* A server run; [sc_listed]: the names found in the <mechanisms/> the session wrote. *)
Record scase := mkScase {
  sc_mechs : list mech; sc_steps : list sres; sc_verdicts : list bool; sc_script : list sitem;
  sc_obs : res; sc_authn : bool; sc_listed : list bytes }.

Definition scase_ok (c : scase) : bool :=
  let r := negotiate_server (env_of (sc_steps c) (sc_verdicts c)) (sc_mechs c) (sc_script c) in
  res_eqb r (sc_obs c) && Bool.eqb (authn r) (sc_authn c) &&
  list_eqb bytes_eqb (list_names (sc_mechs c)) (sc_listed c).

(* base64 encoder against encoding/base64 *)
Record bcase := mkBcase { b_src : bytes; b_enc : bytes }.
Definition bcase_ok (c : bcase) : bool := bytes_eqb (b64_encode (b_src c)) (b_enc c).

Fixpoint failing {A} (ok : A -> bool) (i : nat) (l : list A) : list nat :=
  match l with
  | [] => []
  | x :: r => if ok x then failing ok (S i) r else i :: failing ok (S i) r
  end.
