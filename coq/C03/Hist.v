(* C03/Hist.v — histories of several connections that share ONE SASL feature
   value (the StreamFeature returned by one call of xmpp.SASL / xmpp.SASLServer,
   i.e. one activation of newSASL whose List / Parse / Negotiate closures all
   connections call).

   What a connection's receiver advertised is per-connection data: Parse
   returns it (a []string), the negotiator stores it with the session
   (s.features) and hands it to Negotiate, where negotiateClient selects the
   mechanism from it.  A Go slice is a reference into a backing array, so this
   file models the data as a slice over a heap of backing arrays of strings
   with Go's append (in place while len < cap, otherwise a new array of doubled
   capacity — the growth of append by one for fewer than 256 elements, which is
   how encoding/xml fills a []string field).

   The model is parametric in one fact of the source text, read by the
   translator on every run (gen/Sasl.v, sasl_parse_target_scope): where the
   struct that <mechanisms/> is decoded into is declared.
     PLocal     in the call of Parse (sasl.go today): the list starts as a nil
                slice in every call, so every append allocates or writes an
                array that this call allocated;
     PCaptured  in newSASL, captured by the feature value and re-sliced to
                length 0 at each call (`parsed.List = parsed.List[:0]`): the
                appends write into the array the previous calls returned.
   Under PLocal the sessions of a history are independent of each other
   (C03/HistProofs.v); under PCaptured they are not (refutation witness there).

   A history is a list of sessions and a schedule of steps; the steps of the
   feature value that touch per-connection data are HParse i (the features list
   of connection i is decoded) and HNeg i (Negotiate of connection i starts: the
   mechanism is selected from the data stored for connection i, and the exchange
   runs as in C03/Model.v; nothing else of the feature value is read or written
   by it — translator facts sasl_closure_writes, sasl_package_var_writes,
   sasl_param_writes). *)
From XV Require Import lib.Bytes gen.Sasl C03.Model.

(* ---------------------------------------------------------------- heap of backing arrays *)

Definition sarr := list bytes.          (* one backing array of strings; its length is the capacity *)
Definition heap := list sarr.

(* a []string value: backing array (None: the nil slice), length, capacity *)
Record slice := mkSlice { sl_arr : option nat; sl_len : nat; sl_cap : nat }.

Definition nil_slice : slice := mkSlice None 0 0.

Definition arr_of (h : heap) (s : slice) : sarr :=
  match sl_arr s with Some a => nth a h [] | None => [] end.

(* the elements a holder of the slice value sees *)
Definition sl_read (h : heap) (s : slice) : list bytes := firstn (sl_len s) (arr_of h s).

Fixpoint set_nth {A} (n : nat) (x : A) (l : list A) : list A :=
  match l, n with
  | [], _ => []
  | _ :: r, O => x :: r
  | y :: r, S n' => y :: set_nth n' x r
  end.

Definition grow_cap (c : nat) : nat := match c with O => 1 | _ => 2 * c end.

(* append(s, x) *)
Definition sl_grow (h : heap) (s : slice) (x : bytes) : heap * slice :=
  let c := grow_cap (sl_cap s) in
  (h ++ [sl_read h s ++ x :: repeat [] (c - S (sl_len s))],
   mkSlice (Some (length h)) (S (sl_len s)) c).

Definition sl_append (h : heap) (s : slice) (x : bytes) : heap * slice :=
  match sl_arr s with
  | Some a =>
      if Nat.ltb (sl_len s) (sl_cap s)
      then (set_nth a (set_nth (sl_len s) x (nth a h [])) h,
            mkSlice (Some a) (S (sl_len s)) (sl_cap s))
      else sl_grow h s x
  | None => sl_grow h s x
  end.

(* DecodeElement into a struct whose List field is s0[:0]: one append per
   <mechanism/> of the SASL namespace *)
Definition parse_names (h : heap) (s0 : slice) (names : list bytes) : heap * slice :=
  fold_left (fun hs x => sl_append (fst hs) (snd hs) x) names
            (h, mkSlice (sl_arr s0) 0 (sl_cap s0)).

(* ---------------------------------------------------------------- the source fact *)

Inductive ptarget := PLocal | PCaptured.

Definition target_of_scope (n : nat) : ptarget := match n with O => PLocal | _ => PCaptured end.

(* sasl.go as read by the translator in this run *)
Definition src_target : ptarget := target_of_scope sasl_parse_target_scope.

(* ---------------------------------------------------------------- histories *)

Inductive hsess :=
| HClient (adv : list (bool * bytes)) (user : bytes) (steps : list sres) (script : list citem)
| HServer (steps : list sres) (verdicts : list bool) (script : list sitem).

(* the feature value (mechanism list, identity, password: the parameters of
   newSASL, only read by the closures) and the connections that use it *)
Record hist := mkHist { h_mechs : list mech; h_ident : bytes; h_pass : bytes; h_sess : list hsess }.

Inductive hop := HParse (i : nat) | HNeg (i : nat).

Record hstate := mkHstate {
  st_heap : heap;
  st_buf : slice;                    (* the List field of a captured decode target (PCaptured only) *)
  st_data : list (option slice);     (* per connection: what Parse returned for it *)
  st_res : list (option res)         (* per connection: what Negotiate returned *)
}.

Definition hinit (H : hist) : hstate :=
  mkHstate [] nil_slice (map (fun _ => None) (h_sess H)) (map (fun _ => None) (h_sess H)).

(* Negotiate on the initiating side, given the names found in the data *)
Definition client_on (H : hist) (user : bytes) (steps : list sres) (script : list citem)
           (names : list bytes) : res :=
  negotiate_client (env_of steps [])
    (mkCcfg (h_mechs H) (map (fun n => (true, n)) names) (mkCreds (h_ident H) user (h_pass H))) script.

Definition hstep (t : ptarget) (H : hist) (st : hstate) (op : hop) : hstate :=
  match op with
  | HParse i =>
      match nth_error (h_sess H) i with
      | Some (HClient adv _ _ _) =>
          match t with
          | PLocal =>
              let hd := parse_names (st_heap st) nil_slice (parse_adv adv) in
              mkHstate (fst hd) (st_buf st) (set_nth i (Some (snd hd)) (st_data st)) (st_res st)
          | PCaptured =>
              let hd := parse_names (st_heap st) (st_buf st) (parse_adv adv) in
              mkHstate (fst hd) (snd hd) (set_nth i (Some (snd hd)) (st_data st)) (st_res st)
          end
      | _ => st
      end
  | HNeg i =>
      match nth_error (h_sess H) i with
      | Some (HClient _ user steps script) =>
          match nth i (st_data st) None with
          | Some d =>
              mkHstate (st_heap st) (st_buf st) (st_data st)
                (set_nth i (Some (client_on H user steps script (sl_read (st_heap st) d))) (st_res st))
          | None => st
          end
      | Some (HServer steps verdicts script) =>
          mkHstate (st_heap st) (st_buf st) (st_data st)
            (set_nth i (Some (negotiate_server (env_of steps verdicts) (h_mechs H) script)) (st_res st))
      | None => st
      end
  end.

Definition hist_run (t : ptarget) (H : hist) (ops : list hop) : hstate :=
  fold_left (hstep t H) ops (hinit H).

(* the same connection alone (C03/Model.v) *)
Definition solo (H : hist) (s : hsess) : res :=
  match s with
  | HClient adv user steps script =>
      negotiate_client (env_of steps []) (mkCcfg (h_mechs H) adv (mkCreds (h_ident H) user (h_pass H))) script
  | HServer steps verdicts script =>
      negotiate_server (env_of steps verdicts) (h_mechs H) script
  end.

(* ---------------------------------------------------------------- correspondence record *)

(* hc_ops: the Parse / Negotiate calls in the order in which the harness saw
   them happen; hc_obs: per connection what its Negotiate returned and the
   Authn bit of the session afterwards (None: Negotiate was never called). *)
Record hcase := mkHcase { hc_hist : hist; hc_ops : list hop; hc_obs : list (option (res * bool)) }.

Definition ores_eqb (m : option res) (o : option (res * bool)) : bool :=
  match m, o with
  | None, None => true
  | Some r, Some (r', a) => res_eqb r r' && Bool.eqb (authn r) a
  | _, _ => false
  end.

Fixpoint list_eqb2 {A B} (eqb : A -> B -> bool) (a : list A) (b : list B) : bool :=
  match a, b with
  | [], [] => true
  | x :: a', y :: b' => eqb x y && list_eqb2 eqb a' b'
  | _, _ => false
  end.

Definition hcase_ok (c : hcase) : bool :=
  list_eqb2 ores_eqb (st_res (hist_run src_target (hc_hist c) (hc_ops c))) (hc_obs c).
