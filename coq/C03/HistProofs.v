(* C03/HistProofs.v — connections that share one SASL feature value are
   independent of each other, for every history and every interleaving. *)
From XV Require Import lib.Bytes gen.Sasl C03.Model C03.Proofs C03.Hist.
From Coq Require Import Lia.

(* ---------------------------------------------------------------- lists *)

Lemma set_nth_length {A} (x : A) : forall l n, length (set_nth n x l) = length l.
Proof. induction l as [|y l IH]; intros [|n]; simpl; auto. Qed.

Lemma nth_set_nth_same {A} (x d : A) : forall l n, n < length l -> nth n (set_nth n x l) d = x.
Proof.
  induction l as [|y l IH]; intros [|n] H; simpl in *; try lia; [reflexivity|].
  apply IH. lia.
Qed.

Lemma nth_set_nth_other {A} (x d : A) : forall l n k, k <> n -> nth k (set_nth n x l) d = nth k l d.
Proof.
  induction l as [|y l IH]; intros [|n] [|k] H; simpl; try reflexivity; try congruence.
  apply IH. congruence.
Qed.

(* what can be read from a slot after one slot was written *)
Lemma nth_set_nth_inv {A} (v : option A) : forall l i k y,
  nth k (set_nth i v l) None = Some y -> (k = i /\ v = Some y) \/ (k <> i /\ nth k l None = Some y).
Proof.
  intros l i k y H. destruct (Nat.eq_dec k i) as [E|E].
  - subst k. destruct (Nat.lt_ge_cases i (length l)) as [L|L].
    + rewrite nth_set_nth_same in H by exact L. left. split; [reflexivity | exact H].
    + rewrite nth_overflow in H by (rewrite set_nth_length; exact L). discriminate.
  - right. split; [exact E|]. rewrite nth_set_nth_other in H by exact E. exact H.
Qed.

Lemma set_nth_app_r {A} (x : A) : forall l1 l2 n, length l1 <= n ->
  set_nth n x (l1 ++ l2) = l1 ++ set_nth (n - length l1) x l2.
Proof.
  induction l1 as [|y l1 IH]; intros l2 n H; simpl in *.
  - rewrite Nat.sub_0_r. reflexivity.
  - destruct n as [|n]; [lia|]. simpl. f_equal. apply IH. lia.
Qed.

Lemma firstn_set_nth_snoc {A} (x : A) : forall l n, n < length l ->
  firstn (S n) (set_nth n x l) = firstn n l ++ [x].
Proof.
  induction l as [|y l IH]; intros [|n] H; simpl in *; try lia; [reflexivity|].
  f_equal. apply IH. lia.
Qed.

Lemma parse_adv_map_true l : parse_adv (map (fun n => (true, n)) l) = l.
Proof. unfold parse_adv. induction l as [|x l IH]; simpl; [reflexivity | f_equal; exact IH]. Qed.

(* ---------------------------------------------------------------- append *)

(* a slice value that is consistent with the heap *)
Definition wf (h : heap) (s : slice) : Prop :=
  match sl_arr s with
  | None => sl_len s = 0 /\ sl_cap s = 0
  | Some a => a < length h /\ length (nth a h []) = sl_cap s /\ sl_len s <= sl_cap s
  end.

(* its backing array, if it has one, was allocated after the heap had n arrays *)
Definition owned (n : nat) (s : slice) : Prop :=
  match sl_arr s with None => True | Some a => n <= a end.

Lemma grow_cap_gt c : c < grow_cap c.
Proof. destruct c; simpl; lia. Qed.

Lemma sl_read_length h s : wf h s -> length (sl_read h s) = sl_len s.
Proof.
  unfold wf, sl_read, arr_of. destruct (sl_arr s) as [a|].
  - intros [_ [L1 L2]]. rewrite firstn_length. lia.
  - intros [L _]. rewrite L. reflexivity.
Qed.

Lemma sl_grow_spec h s x : wf h s -> sl_len s = sl_cap s ->
  let h' := fst (sl_grow h s x) in let s' := snd (sl_grow h s x) in
  h' = h ++ [sl_read h s ++ x :: repeat [] (grow_cap (sl_cap s) - S (sl_len s))] /\
  wf h' s' /\ sl_read h' s' = sl_read h s ++ [x] /\ sl_arr s' = Some (length h).
Proof.
  intros W E. cbn [sl_grow fst snd]. split; [reflexivity|].
  pose proof (sl_read_length h s W) as RL. pose proof (grow_cap_gt (sl_cap s)) as G.
  split; [|split; [|reflexivity]].
  - unfold wf. cbn [sl_arr sl_len sl_cap]. rewrite app_length. simpl.
    split; [lia|]. rewrite app_nth2 by lia. rewrite Nat.sub_diag. cbn [nth].
    rewrite app_length. simpl. rewrite repeat_length, RL. lia.
  - unfold sl_read at 1. unfold arr_of. cbn [sl_arr sl_len].
    rewrite app_nth2 by lia. rewrite Nat.sub_diag. cbn [nth].
    rewrite firstn_app, RL. replace (S (sl_len s) - sl_len s) with 1 by lia.
    rewrite firstn_all2 by (rewrite RL; lia). reflexivity.
Qed.

Lemma sl_append_spec h s x : wf h s ->
  let h' := fst (sl_append h s x) in let s' := snd (sl_append h s x) in
  wf h' s' /\ sl_read h' s' = sl_read h s ++ [x].
Proof.
  intros W. unfold sl_append. destruct (sl_arr s) as [a|] eqn:A.
  - destruct (Nat.ltb (sl_len s) (sl_cap s)) eqn:L.
    + apply Nat.ltb_lt in L. cbn [fst snd].
      unfold wf in W. rewrite A in W. destruct W as [W1 [W2 W3]].
      split.
      * unfold wf. cbn [sl_arr sl_len sl_cap]. rewrite set_nth_length.
        split; [exact W1|]. rewrite nth_set_nth_same by exact W1. rewrite set_nth_length. lia.
      * unfold sl_read, arr_of. cbn [sl_arr sl_len]. rewrite A.
        rewrite nth_set_nth_same by exact W1. apply firstn_set_nth_snoc. lia.
    + apply Nat.ltb_ge in L.
      assert (E : sl_len s = sl_cap s).
      { unfold wf in W. rewrite A in W. lia. }
      destruct (sl_grow_spec h s x W E) as [_ [G1 [G2 _]]]. split; assumption.
  - assert (E : sl_len s = sl_cap s).
    { unfold wf in W. rewrite A in W. lia. }
    destruct (sl_grow_spec h s x W E) as [_ [G1 [G2 _]]]. split; assumption.
Qed.

(* locality: an append through a slice whose array was allocated after the
   first n arrays leaves those n arrays as they are *)
Lemma sl_append_local h0 ext s x : owned (length h0) s ->
  exists ext', fst (sl_append (h0 ++ ext) s x) = h0 ++ ext' /\
               owned (length h0) (snd (sl_append (h0 ++ ext) s x)).
Proof.
  intro O. unfold sl_append. unfold owned in O.
  assert (G : exists ext', fst (sl_grow (h0 ++ ext) s x) = h0 ++ ext' /\
                           owned (length h0) (snd (sl_grow (h0 ++ ext) s x))).
  { cbn [sl_grow fst snd]. eexists. split; [rewrite <- app_assoc; reflexivity|].
    unfold owned. cbn [sl_arr]. rewrite app_length. lia. }
  destruct (sl_arr s) as [a|] eqn:A; [|exact G].
  destruct (Nat.ltb (sl_len s) (sl_cap s)); [|exact G].
  cbn [fst snd]. rewrite set_nth_app_r by exact O. eexists. split; [reflexivity|].
  unfold owned. cbn [sl_arr]. exact O.
Qed.

(* the fold of Parse *)
Lemma parse_fold_spec : forall names h s,
  wf h s ->
  let r := fold_left (fun hs x => sl_append (fst hs) (snd hs) x) names (h, s) in
  wf (fst r) (snd r) /\ sl_read (fst r) (snd r) = sl_read h s ++ names.
Proof.
  induction names as [|x names IH]; intros h s W; cbn [fold_left].
  - split; [exact W | rewrite app_nil_r; reflexivity].
  - cbn [fst snd]. destruct (sl_append_spec h s x W) as [W' R'].
    destruct (sl_append h s x) as [h1 s1] eqn:Ap. cbn [fst snd] in *.
    specialize (IH h1 s1 W'). destruct IH as [W2 R2]. split; [exact W2|].
    rewrite R2, R'. rewrite <- app_assoc. reflexivity.
Qed.

Lemma parse_fold_local h0 : forall names ext s,
  owned (length h0) s ->
  exists ext', fst (fold_left (fun hs x => sl_append (fst hs) (snd hs) x) names (h0 ++ ext, s)) = h0 ++ ext'.
Proof.
  induction names as [|x names IH]; intros ext s O; cbn [fold_left].
  - exists ext. reflexivity.
  - cbn [fst snd]. destruct (sl_append_local h0 ext s x O) as [ext1 [E1 O1]].
    destruct (sl_append (h0 ++ ext) s x) as [h1 s1]. cbn [fst snd] in *. subst h1.
    apply IH. exact O1.
Qed.

(* Parse into a struct declared in the call: the result reads as the names
   found, and every array that existed before is left as it was. *)
Lemma parse_local_spec h names :
  let r := parse_names h nil_slice names in
  (exists ext, fst r = h ++ ext) /\ wf (fst r) (snd r) /\ sl_read (fst r) (snd r) = names.
Proof.
  unfold parse_names. cbn [nil_slice sl_arr sl_cap].
  assert (W : wf h (mkSlice None 0 0)) by (unfold wf; simpl; split; reflexivity).
  destruct (parse_fold_spec names h _ W) as [W' R'].
  split; [|split; [exact W' | exact R']].
  destruct (parse_fold_local h names [] (mkSlice None 0 0) I) as [ext E].
  rewrite app_nil_r in E. exists ext. exact E.
Qed.

(* what an older holder reads does not change when the heap is extended *)
Lemma sl_read_frame h ext s :
  (match sl_arr s with Some a => a < length h | None => True end) ->
  sl_read (h ++ ext) s = sl_read h s.
Proof.
  unfold sl_read, arr_of. destruct (sl_arr s) as [a|]; [|reflexivity].
  intro L. rewrite app_nth1 by exact L. reflexivity.
Qed.

(* ---------------------------------------------------------------- histories under PLocal *)

Definition data_ok (H : hist) (st : hstate) : Prop :=
  forall i d, nth i (st_data st) None = Some d ->
    (match sl_arr d with Some a => a < length (st_heap st) | None => True end) /\
    exists adv user steps script,
      nth_error (h_sess H) i = Some (HClient adv user steps script) /\
      sl_read (st_heap st) d = parse_adv adv.

Definition res_ok (H : hist) (st : hstate) : Prop :=
  forall i r, nth i (st_res st) None = Some r ->
    exists s, nth_error (h_sess H) i = Some s /\ r = solo H s.

Lemma nth_map_none {A B} (l : list A) i : nth i (map (fun _ => @None B) l) None = None.
Proof. revert i. induction l; intros [|i]; simpl; auto. Qed.

Lemma client_on_solo H adv user steps script :
  client_on H user steps script (parse_adv adv) = solo H (HClient adv user steps script).
Proof.
  unfold client_on, solo, negotiate_client, negotiate_client_gen.
  cbn [c_mechs c_adv c_creds]. rewrite parse_adv_map_true. reflexivity.
Qed.

Lemma hstep_local_inv H st op :
  data_ok H st /\ res_ok H st -> data_ok H (hstep PLocal H st op) /\ res_ok H (hstep PLocal H st op).
Proof.
  intros [D R]. destruct op as [i|i]; cbn [hstep].
  - (* Parse for connection i *)
    destruct (nth_error (h_sess H) i) as [[adv user steps script|steps verdicts script]|] eqn:S;
      try (split; assumption).
    destruct (parse_local_spec (st_heap st) (parse_adv adv)) as [[ext E] [W Rd]].
    split; [|exact R].
    intros k d Hk. cbn [st_data st_heap] in *.
    apply nth_set_nth_inv in Hk. destruct Hk as [[Ek Ed] | [_ Hk]].
    + inversion Ed; subst d k. split.
      * unfold wf in W. destruct (sl_arr (snd _)); [tauto | exact I].
      * exists adv, user, steps, script. split; [exact S | exact Rd].
    + destruct (D k d Hk) as [V [adv' [u' [s' [sc' [S' Rd']]]]]].
      rewrite E. split.
      * destruct (sl_arr d); [rewrite app_length; lia | exact I].
      * exists adv', u', s', sc'. split; [exact S'|]. rewrite sl_read_frame by exact V. exact Rd'.
  - (* Negotiate of connection i *)
    destruct (nth_error (h_sess H) i) as [[adv user steps script|steps verdicts script]|] eqn:S;
      try (split; assumption).
    + destruct (nth i (st_data st) None) as [d|] eqn:Dt; [|split; assumption].
      split; [exact D|].
      intros k r Hk. cbn [st_res] in Hk. apply nth_set_nth_inv in Hk.
      destruct Hk as [[Ek Er] | [_ Hk]]; [|exact (R k r Hk)].
      subst k. inversion Er; subst r.
      destruct (D i d Dt) as [_ [adv' [u' [s' [sc' [S' Rd']]]]]].
      rewrite S in S'. inversion S'; subst adv' u' s' sc'.
      exists (HClient adv user steps script). split; [exact S|].
      cbn [st_heap]. rewrite Rd'. apply client_on_solo.
    + split; [exact D|].
      intros k r Hk. cbn [st_res] in Hk. apply nth_set_nth_inv in Hk.
      destruct Hk as [[Ek Er] | [_ Hk]]; [|exact (R k r Hk)].
      subst k. inversion Er; subst r.
      exists (HServer steps verdicts script). split; [exact S | reflexivity].
Qed.

Lemma hist_run_local_inv H : forall ops st,
  data_ok H st /\ res_ok H st ->
  data_ok H (fold_left (hstep PLocal H) ops st) /\ res_ok H (fold_left (hstep PLocal H) ops st).
Proof.
  induction ops as [|op ops IH]; intros st I; cbn [fold_left]; [exact I|].
  apply IH. apply hstep_local_inv. exact I.
Qed.

Lemma hinit_ok H : data_ok H (hinit H) /\ res_ok H (hinit H).
Proof.
  split; intros i x Hx; cbn [hinit st_data st_res] in Hx; rewrite nth_map_none in Hx; discriminate.
Qed.

(* Every connection of every history, under every schedule, gets from Negotiate
   exactly what it gets alone with its own receiver's list. *)
Lemma hist_local_independent H ops i r :
  nth i (st_res (hist_run PLocal H ops)) None = Some r ->
  exists s, nth_error (h_sess H) i = Some s /\ r = solo H s.
Proof.
  intro Hr. unfold hist_run in Hr.
  destruct (hist_run_local_inv H ops (hinit H) (hinit_ok H)) as [_ R]. exact (R i r Hr).
Qed.

(* the data a connection holds keeps reading as its own receiver's list, whatever
   is parsed later for other connections *)
Lemma hist_local_data_stable H ops i d :
  nth i (st_data (hist_run PLocal H ops)) None = Some d ->
  exists adv user steps script,
    nth_error (h_sess H) i = Some (HClient adv user steps script) /\
    sl_read (st_heap (hist_run PLocal H ops)) d = parse_adv adv.
Proof.
  intro Hd. unfold hist_run in *.
  destruct (hist_run_local_inv H ops (hinit H) (hinit_ok H)) as [D _].
  destruct (D i d Hd) as [_ X]. exact X.
Qed.

(* ---------------------------------------------------------------- tables read from the source *)

Definition feature_value_tables_statement : Prop :=
  (* the struct Parse decodes into is declared in the call of Parse *)
  src_target = PLocal /\
  (* newSASL has no variables besides its parameters, its three closures mention
     parameters only and never assign to, take the address of, re-slice or
     append to one of them *)
  (sasl_newSASL_locals = [] /\
   sasl_feature_closures = [str "List"; str "Parse"; str "Negotiate"] /\
   forallb (fun p => existsb (bytes_eqb (snd p)) sasl_newSASL_params) sasl_closure_captures = true /\
   sasl_closure_writes = []) /\
  (* no function of sasl.go assigns a package-level variable or writes through
     the mechanism list / feature data it is handed *)
  (sasl_package_var_writes = [] /\ sasl_param_writes = []) /\
  (* both base64 decodes return their error at once *)
  (map fst sasl_b64_decodes = [str "negotiateServer"; str "decodeSASLChallenge"] /\
   forallb (fun p => bytes_eqb (snd p) (str "checked")) sasl_b64_decodes = true).

Lemma feature_value_tables : feature_value_tables_statement.
Proof. unfold feature_value_tables_statement. vm_compute. repeat split; reflexivity. Qed.

Lemma src_target_local : src_target = PLocal.
Proof. exact (proj1 feature_value_tables). Qed.

(* ---------------------------------------------------------------- the property over histories *)

Definition history_independent_statement : Prop := forall H ops i r,
  nth i (st_res (hist_run src_target H ops)) None = Some r ->
  exists s, nth_error (h_sess H) i = Some s /\ r = solo H s.

Lemma history_independent : history_independent_statement.
Proof. unfold history_independent_statement. rewrite src_target_local. exact hist_local_independent. Qed.

(* What Parse returned for a connection keeps reading as that connection's own
   receiver's list at every later point of every history: results are
   independent of later operations on the shared feature value. *)
Definition history_data_stable_statement : Prop := forall H ops i d,
  nth i (st_data (hist_run src_target H ops)) None = Some d ->
  exists adv user steps script,
    nth_error (h_sess H) i = Some (HClient adv user steps script) /\
    sl_read (st_heap (hist_run src_target H ops)) d = parse_adv adv.

Lemma history_data_stable : history_data_stable_statement.
Proof. unfold history_data_stable_statement. rewrite src_target_local. exact hist_local_data_stable. Qed.

(* "a mechanism that this connection's receiver did not offer is never used":
   every Step made for connection i and the <auth/> it writes name a mechanism of
   the feature's list that connection i's own receiver advertised in the SASL
   namespace — whatever the other connections of the history were offered and
   wherever their Parse / Negotiate calls fall. *)
Definition history_no_unoffered_statement : Prop :=
  forall H ops i adv user steps script r name,
  nth_error (h_sess H) i = Some (HClient adv user steps script) ->
  nth i (st_res (hist_run src_target H ops)) None = Some r ->
  (exists ch s, In (EvStep name ch s) (r_evs r)) \/ (exists p, In (OAuth name p) (r_out r)) ->
  In (true, name) adv /\ name <> [] /\
  exists m, select_mech (h_mechs H) (parse_adv adv) = Some m /\ m_name m = name /\ In m (h_mechs H).

Lemma history_no_unoffered : history_no_unoffered_statement.
Proof.
  intros H ops i adv user steps script r name S Hr Huse.
  destruct (history_independent H ops i r Hr) as [s [S' E]].
  rewrite S in S'. inversion S'; subst s. cbn [solo] in E.
  pose proof (client_offered (env_of steps [])
               (mkCcfg (h_mechs H) adv (mkCreds (h_ident H) user (h_pass H))) script) as Off.
  cbn zeta in Off. rewrite <- E in Off. cbn [c_mechs c_adv] in Off.
  assert (X : exists m, select_mech (h_mechs H) (parse_adv adv) = Some m /\ name = m_name m /\
                        In m (h_mechs H) /\ In (true, name) adv /\ name <> []).
  { destruct Huse as [[ch [s Hin]] | [p Hin]].
    - apply (Off name ch s). left. exact Hin.
    - apply (Off name [] (mkSres false [] MNone)). right. exists p. exact Hin. }
  destruct X as [m [Sel [Nm [Hin [Hadv Hne]]]]].
  split; [exact Hadv|]. split; [exact Hne|]. exists m. split; [exact Sel|]. split; [symmetry; exact Nm | exact Hin].
Qed.

(* Authn for a connection of a history: the soundness clauses of the
   single-connection theorems, about this connection's own list / script. *)
Definition history_authn_sound_statement : Prop := forall H ops i s r,
  nth_error (h_sess H) i = Some s ->
  nth i (st_res (hist_run src_target H ops)) None = Some r -> authn r = true ->
  match s with
  | HClient adv user steps script =>
      exists m pre last,
        select_mech (h_mechs H) (parse_adv adv) = Some m /\ In (true, m_name m) adv /\
        firstn (r_used r) script = pre ++ [last] /\ r_used r = S (length pre) /\
        c_success last /\ Forall c_feedable pre /\
        Forall (ev_on (m_name m)) (r_evs r) /\ completed (ev_results (r_evs r))
  | HServer steps verdicts script =>
      exists pre name p resps m evs0 evs1,
        firstn (r_used r) script = pre ++ SAuth name (Some p) :: resps /\
        Forall (s_feedable (h_mechs H)) pre /\ Forall s_response resps /\
        lookup_mech (h_mechs H) name = Some m /\ In m (h_mechs H) /\
        r_evs r = evs0 ++ evs1 /\ tail_ok name (S (length resps)) evs1 /\
        plain_clause m p resps evs1 /\ success_written r
  end.

Lemma history_authn_sound : history_authn_sound_statement.
Proof.
  intros H ops i s r S Hr A.
  destruct (history_independent H ops i r Hr) as [s' [S' E]].
  rewrite S in S'. inversion S'; subst s'. clear S'.
  destruct s as [adv user steps script | steps verdicts script]; cbn [solo] in E.
  - pose proof (client_sound (env_of steps [])
                 (mkCcfg (h_mechs H) adv (mkCreds (h_ident H) user (h_pass H))) script) as Snd.
    cbn zeta in Snd. rewrite <- E in Snd. cbn [c_mechs c_adv] in Snd.
    destruct (Snd A) as [m [pre [last [Sel [Hf [Hu [Hl [Hp [Hev [Hc _]]]]]]]]]].
    exists m, pre, last.
    destruct (select_mech_spec _ _ _ Sel) as [_ [Hadv _]]. apply parse_adv_spec in Hadv.
    repeat split; assumption.
  - pose proof (server_sound (env_of steps verdicts) (h_mechs H) script) as Snd.
    cbn zeta in Snd. rewrite <- E in Snd.
    destruct (Snd A) as [pre [name [p [resps [m [evs0 [evs1 [Hf [Hp [Hr' [_ [Hl [Hin [_ [_ [He [Ht [Hpl Hs]]]]]]]]]]]]]]]]]].
    exists pre, name, p, resps, m, evs0, evs1.
    split; [exact Hf|]. split; [exact Hp|]. split; [exact Hr'|]. split; [exact Hl|].
    split; [exact Hin|]. split; [exact He|]. split; [exact Ht|]. split; [exact Hpl | exact Hs].
Qed.

(* ---------------------------------------------------------------- the captured buffer is refuted *)

(* newSASL with the decode target hoisted into the feature value: connection 0
   is offered SCRAM-SHA-256 only, connection 1 (same feature value) PLAIN; the
   second Parse overwrites the array the first one returned, and connection 0
   sends <auth mechanism='PLAIN'> with the password and is authenticated by a
   <success/>. *)
Definition shared_hist : hist :=
  mkHist [mkMech (str "PLAIN") KPlain] [] (str "secret")
    [HClient [(true, str "SCRAM-SHA-256")] (str "a") [] [CSuccess (Some (mkPay PNone (Some [])))];
     HClient [(true, str "PLAIN")] (str "b") [] [CSuccess (Some (mkPay PNone (Some [])))]].

Definition shared_ops : list hop := [HParse 0; HParse 1; HNeg 0].

Definition shared_buffer_refuted_statement : Prop :=
  exists r p,
    nth 0 (st_res (hist_run PCaptured shared_hist shared_ops)) None = Some r /\
    authn r = true /\ In (OAuth (str "PLAIN") p) (r_out r) /\
    ~ In (true, str "PLAIN") [(true, str "SCRAM-SHA-256")] /\
    (* the same history with the decode target local to the call: no mechanism in common *)
    nth 0 (st_res (hist_run PLocal shared_hist shared_ops)) None = Some (fail ENoMech).

Lemma shared_buffer_refuted : shared_buffer_refuted_statement.
Proof.
  eexists. eexists. split; [vm_compute; reflexivity|].
  split; [reflexivity|]. split; [left; reflexivity|].
  split; [|vm_compute; reflexivity].
  intros [E | []]. discriminate.
Qed.
