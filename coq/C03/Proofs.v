(* C03/Proofs.v — lemmas about the SASL model. *)
From XV Require Import lib.Bytes gen.Sasl C03.Model.
From Coq Require Import Lia.

(* ---------------------------------------------------------------- vocabulary of the statements *)

(* results of the Steps recorded in an event log, in order *)
Definition ev_results (l : list ev) : list sres :=
  flat_map (fun x => match x with EvStep _ _ r => [r] | EvPerm _ _ _ _ => [] end) l.

(* the event concerns mechanism [name] (permission events belong to the Step that follows) *)
Definition ev_on (name : bytes) (x : ev) : Prop :=
  match x with EvStep n _ _ => n = name | EvPerm _ _ _ _ => True end.

Definition step_ok (r : sres) : Prop := s_err r = MNone.

(* an exchange that ran to completion: no Step failed, every Step but the last
   asked for more, the last one did not *)
Definition completed (l : list sres) : Prop :=
  exists pre s, l = pre ++ [s] /\ Forall (fun r => step_ok r /\ s_more r = true) pre /\
                step_ok s /\ s_more s = false.

(* an element the initiating side feeds to the mechanism: a <challenge/> or
   <success/> whose content and base64 payload decode *)
Definition c_feedable (it : citem) : Prop :=
  exists p d, (it = CChallenge (Some p) \/ it = CSuccess (Some p)) /\ p_dec p = Some d.

Definition c_success (it : citem) : Prop :=
  exists p d, it = CSuccess (Some p) /\ p_dec p = Some d.

(* an element the receiving side feeds to a mechanism *)
Definition s_response (it : sitem) : Prop :=
  exists p d, it = SResponse (Some p) /\ decode_server p = Some d.

Definition s_feedable (mechs : list mech) (it : sitem) : Prop :=
  s_response it \/
  exists name p d m, it = SAuth name (Some p) /\ decode_server p = Some d /\ lookup_mech mechs name = Some m.

Definition is_success_out (o : out) : Prop := match o with OSuccess _ => True | _ => False end.

(* ---------------------------------------------------------------- small facts *)

Ltac simp_res := cbn [used1 add_evs add_out done fail r_used r_evs r_out r_err firstn length app].

Lemma authn_fail x : authn (fail x) = false.
Proof. reflexivity. Qed.

Lemma authn_used1 r : authn (used1 r) = authn r.
Proof. reflexivity. Qed.

Lemma authn_add_out o r : authn (add_out o r) = authn r.
Proof. reflexivity. Qed.

Lemma authn_add_evs v r : authn (add_evs v r) = authn r.
Proof. reflexivity. Qed.

Lemma ev_results_app a b : ev_results (a ++ b) = ev_results a ++ ev_results b.
Proof. unfold ev_results. apply flat_map_app. Qed.

Lemma norm_err r : s_err (norm r) = s_err r.
Proof. unfold norm. destruct (s_err r) eqn:E; simpl; congruence. Qed.

(* what one call of Step leaves in the log *)
Lemma do_step_shape e rl cr m k pk n ch r evs pk' :
  do_step e rl cr m k pk n ch = (r, evs, pk') ->
  ev_results evs = [r] /\ Forall (ev_on (m_name m)) evs.
Proof.
  unfold do_step. intro H.
  destruct (m_kind m).
  - inversion H; subst. split; [reflexivity | repeat constructor].
  - destruct rl.
    + inversion H; subst. split; [reflexivity | repeat constructor].
    + destruct n.
      * destruct (split0 [] ch) as [|a [|b [|c [|d l]]]]; inversion H; subst;
          (split; [reflexivity | repeat constructor]).
      * inversion H; subst. split; [reflexivity | repeat constructor].
Qed.

(* PLAIN on the receiving side succeeds only through the permission callback,
   called with the three fields of the payload, answering true *)
Lemma do_step_plain_server e cr m k pk n ch r evs pk' :
  do_step e Server cr m k pk n ch = (r, evs, pk') ->
  m_kind m = KPlain -> s_err r = MNone ->
  n = 0 /\ s_more r = false /\
  exists ident user pass, split0 [] ch = [ident; user; pass] /\ e_perm e pk = true /\
    evs = [EvPerm user pass ident true; EvStep (m_name m) ch r].
Proof.
  unfold do_step. intros H K E. rewrite K in H.
  destruct n.
  - destruct (split0 [] ch) as [|a [|b [|c [|d l]]]]; inversion H; subst; simpl in E; try discriminate.
    destruct (e_perm e pk) eqn:P; simpl in E; try discriminate.
    split; [reflexivity|]. split; [reflexivity|].
    exists a, b, c. repeat split; reflexivity.
  - inversion H; subst. simpl in E. discriminate.
Qed.

(* ---------------------------------------------------------------- mechanism selection *)

Lemma existsb_bytes_In x l : existsb (bytes_eqb x) l = true <-> In x l.
Proof.
  rewrite existsb_exists. split.
  - intros [y [Hy E]]. apply bytes_eqb_eq in E. subst. exact Hy.
  - intro H. exists x. split; [exact H | apply bytes_eqb_eq; reflexivity].
Qed.

Lemma select_mech_spec mechs names m :
  select_mech mechs names = Some m ->
  In m mechs /\ In (m_name m) names /\ m_name m <> [].
Proof.
  unfold select_mech. destruct (find _ mechs) as [m'|] eqn:F; [|discriminate].
  apply find_some in F. destruct F as [Hin Hex]. apply existsb_bytes_In in Hex.
  destruct (m_name m') eqn:N; [discriminate|].
  intro H. inversion H; subst. rewrite N.
  split; [exact Hin|]. split; [exact Hex | discriminate].
Qed.

(* the client's preference order: no earlier mechanism of its list is advertised *)
Lemma find_first {A} (p : A -> bool) l x :
  find p l = Some x -> exists l1 l2, l = l1 ++ x :: l2 /\ forallb (fun y => negb (p y)) l1 = true.
Proof.
  induction l as [|a l IH]; simpl; [discriminate|].
  destruct (p a) eqn:P.
  - intro H. inversion H; subst. exists [], l. split; reflexivity.
  - intro H. destruct (IH H) as [l1 [l2 [E F]]]. exists (a :: l1), l2. split.
    + simpl. rewrite E. reflexivity.
    + simpl. rewrite P. exact F.
Qed.

Lemma select_mech_preference mechs names m :
  select_mech mechs names = Some m ->
  exists l1 l2, mechs = l1 ++ m :: l2 /\ forall m', In m' l1 -> ~ In (m_name m') names.
Proof.
  unfold select_mech. destruct (find _ mechs) as [m'|] eqn:F; [|discriminate].
  destruct (m_name m') eqn:N; [discriminate|].
  intro H. inversion H; subst.
  destruct (find_first _ _ _ F) as [l1 [l2 [E G]]].
  exists l1, l2. split; [exact E|].
  intros x Hx Hin. rewrite forallb_forall in G. specialize (G x Hx).
  apply existsb_bytes_In in Hin. rewrite Hin in G. discriminate.
Qed.

Lemma parse_adv_spec adv name : In name (parse_adv adv) <-> In (true, name) adv.
Proof.
  unfold parse_adv. rewrite in_map_iff. split.
  - intros [[b n] [E H]]. simpl in E. subst. apply filter_In in H. destruct H as [H1 H2].
    simpl in H2. subst. exact H1.
  - intro H. exists (true, name). split; [reflexivity|]. apply filter_In. split; [exact H | reflexivity].
Qed.

Lemma lookup_mech_spec mechs name m :
  lookup_mech mechs name = Some m -> In m mechs /\ m_name m = name /\ name <> [].
Proof.
  unfold lookup_mech. destruct (find _ mechs) as [m'|] eqn:F; [|discriminate].
  apply find_some in F. destruct F as [Hin E]. apply bytes_eqb_eq in E.
  destruct (m_name m') eqn:N; [discriminate|].
  intro H. inversion H; subst. rewrite N. split; [exact Hin|]. split; [reflexivity | discriminate].
Qed.

(* ---------------------------------------------------------------- client *)

Lemma client_final_authn script :
  authn (client_final script) = true ->
  exists p d rest, script = CSuccess (Some p) :: rest /\ p_dec p = Some d /\
    client_final script = mkRes None [] [] 1.
Proof.
  destruct script as [|it rest]; simpl; [discriminate|].
  destruct it as [p|p|c| | |]; try (destruct p as [p|]); try (destruct c); simpl; try discriminate.
  unfold decode_client. destruct (p_dec p) eqn:D; simpl; [|discriminate].
  intros _. exists p, b, rest. repeat split; assumption.
Qed.

Lemma client_dispatch_feed it success p :
  client_dispatch it = CFeed success p ->
  (success = false /\ it = CChallenge (Some p)) \/ (success = true /\ it = CSuccess (Some p)).
Proof.
  destruct it as [q|q|c| | |]; try (destruct q as [q|]); try (destruct c); simpl; try discriminate;
    intro H; inversion H; subst; [left | right]; split; reflexivity.
Qed.

(* The loop, entered with more = true. If it ends in Authn: it consumed only
   feedable elements, the last of them a <success/>; every event is a Step of
   m; no Step failed; all Steps but the last asked for more and the last one
   completed; and the number of Steps is the number of elements consumed, or
   one less when the mechanism completed on the element before the <success/>. *)
Lemma client_loop_sound e cr m : forall script k pk n,
  let r := client_loop true e cr m k pk n script in
  authn r = true ->
  exists pre last,
    firstn (r_used r) script = pre ++ [last] /\ r_used r = S (length pre) /\
    c_success last /\ Forall c_feedable pre /\
    Forall (ev_on (m_name m)) (r_evs r) /\ completed (ev_results (r_evs r)) /\
    (length (ev_results (r_evs r)) = S (length pre) \/ length (ev_results (r_evs r)) = length pre) /\
    Forall (fun o => exists p, o = OResponse p) (r_out r).
Proof.
  induction script as [|it rest IH]; intros k pk n r; subst r; [simpl; discriminate|].
  cbn [client_loop]. rewrite authn_used1.
  destruct (client_dispatch it) as [x | success p] eqn:Dp; [simpl; discriminate|].
  assert (Hit : c_feedable it -> True) by trivial.
  unfold decode_client. destruct (p_dec p) as [ch|] eqn:Dec; [|simpl; discriminate].
  destruct (do_step e Client cr m k pk n ch) as [[r evs] pk'] eqn:St.
  destruct (do_step_shape _ _ _ _ _ _ _ _ _ _ _ St) as [Hres Hon].
  rewrite authn_add_evs.
  assert (Feed : c_feedable it).
  { apply client_dispatch_feed in Dp. destruct Dp as [[_ E] | [_ E]]; subst it;
      exists p, ch; (split; [auto | exact Dec]). }
  destruct (s_err r) eqn:Er; try (simpl; discriminate).
  destruct (negb (s_more r) && success) eqn:Brk.
  - (* break: more = false on a <success/> *)
    intros _. apply andb_true_iff in Brk. destruct Brk as [Hm Hs]. apply negb_true_iff in Hm. subst success.
    apply client_dispatch_feed in Dp. destruct Dp as [[X _] | [_ E]]; [discriminate|]. subst it.
    exists [], (CSuccess (Some p)). simp_res.
    split; [reflexivity|]. split; [reflexivity|]. split; [exists p, ch; split; [reflexivity | exact Dec]|].
    split; [constructor|]. rewrite app_nil_r. split; [exact Hon|].
    rewrite Hres. split.
    + exists [], r. repeat split; try constructor; assumption.
    + split; [left; reflexivity | constructor].
  - rewrite authn_add_out. destruct (s_more r) eqn:Hm.
    + (* more: next iteration *)
      intro A. specialize (IH (S k) pk' (S n) A).
      destruct IH as [pre [last [Hfirst [Hused [Hlast [Hpre [Hev [Hcomp [Hlen Hout]]]]]]]]].
      exists (it :: pre), last. simp_res. rewrite Hfirst.
      split; [reflexivity|]. split; [rewrite Hused; reflexivity|]. split; [exact Hlast|]. split; [constructor; assumption|].
      split; [apply Forall_app; split; assumption|].
      rewrite ev_results_app, Hres.
      split.
      * destruct Hcomp as [l [s [El [Hl [Hs1 Hs2]]]]]. exists (r :: l), s. rewrite El.
        split; [reflexivity|]. split; [constructor; [split; assumption | exact Hl]|]. split; assumption.
      * split; [cbn [length app]; lia|]. constructor; [eexists; reflexivity | exact Hout].
    + (* the mechanism completed on this element: the final read *)
      intro A. destruct (client_final_authn _ A) as [q [d [rest' [Er' [Dq Ef]]]]].
      rewrite Ef. subst rest. simp_res.
      exists [it], (CSuccess (Some q)).
      split; [reflexivity|]. split; [reflexivity|]. split; [exists q, d; split; [reflexivity | exact Dq]|].
      split; [constructor; [exact Feed | constructor]|].
      rewrite app_nil_r. split; [exact Hon|]. rewrite Hres.
      split.
      * exists [], r. repeat split; try constructor; assumption.
      * split; [right; reflexivity|]. constructor; [eexists; reflexivity | constructor].
Qed.

Lemma client_loop_evs_on final e cr m : forall script k pk n,
  Forall (ev_on (m_name m)) (r_evs (client_loop final e cr m k pk n script)).
Proof.
  induction script as [|it rest IH]; intros k pk n; [constructor|].
  cbn [client_loop]. cbn [used1 r_evs].
  destruct (client_dispatch it) as [x | success p]; [constructor|].
  destruct (decode_client p) as [ch|]; [|constructor].
  destruct (do_step e Client cr m k pk n ch) as [[r evs] pk'] eqn:St.
  destruct (do_step_shape _ _ _ _ _ _ _ _ _ _ _ St) as [_ Hon].
  cbn [add_evs r_evs]. apply Forall_app. split; [exact Hon|].
  destruct (s_err r); try constructor.
  destruct (negb (s_more r) && success); [constructor|].
  cbn [add_out r_evs]. destruct (s_more r); [apply IH|].
  destruct final; [|constructor].
  destruct rest as [|it' rest']; [constructor|]. cbn.
  destruct it' as [q|q|c| | |]; try (destruct q as [q|]); try (destruct c); try constructor.
  unfold decode_client. destruct (p_dec q); constructor.
Qed.

Definition client_sound_statement : Prop := forall e c script,
  let r := negotiate_client e c script in
  authn r = true ->
  exists m pre last,
    (* the mechanism: the client's first preference among those the peer advertised *)
    select_mech (c_mechs c) (parse_adv (c_adv c)) = Some m /\
    (* what was read: feedable elements only, the last one a well-formed <success/> *)
    firstn (r_used r) script = pre ++ [last] /\ r_used r = S (length pre) /\
    c_success last /\ Forall c_feedable pre /\
    (* the mechanism ran to completion without error, on m only *)
    Forall (ev_on (m_name m)) (r_evs r) /\ completed (ev_results (r_evs r)) /\
    (* and it had completed when, or before, that <success/> was read: one initial
       Step plus one per element, except that a <success/> arriving after
       completion is not stepped *)
    (length (ev_results (r_evs r)) = S (S (length pre)) \/ length (ev_results (r_evs r)) = S (length pre)).

Lemma client_sound : client_sound_statement.
Proof.
  intros e c script r. subst r. unfold negotiate_client, negotiate_client_gen.
  destruct (select_mech _ _) as [m|] eqn:Sel; [|simpl; discriminate].
  destruct (do_step e Client (c_creds c) m 0 0 0 []) as [[r0 evs0] pk'] eqn:St.
  destruct (do_step_shape _ _ _ _ _ _ _ _ _ _ _ St) as [Hres Hon].
  rewrite authn_add_evs. destruct (s_err r0) eqn:Er; try (simpl; discriminate).
  rewrite authn_add_out. destruct (s_more r0) eqn:Hm.
  - intro A. destruct (client_loop_sound _ _ _ _ _ _ _ A) as [pre [last [Hf [Hu [Hl [Hp [Hev [Hc [Hlen _]]]]]]]]].
    exists m, pre, last. simp_res. split; [reflexivity|]. split; [exact Hf|]. split; [exact Hu|]. split; [exact Hl|]. split; [exact Hp|].
    split; [apply Forall_app; split; assumption|].
    rewrite ev_results_app, Hres. split.
    + destruct Hc as [l [s [El [Hl' [Hs1 Hs2]]]]]. exists (r0 :: l), s. rewrite El.
      split; [reflexivity|]. split; [constructor; [split; assumption | exact Hl']|]. split; assumption.
    + cbn [length app]. lia.
  - intro A. destruct (client_final_authn _ A) as [q [d [rest [Es [Dq Ef]]]]].
    rewrite Ef. subst script. exists m, [], (CSuccess (Some q)). simp_res.
    split; [reflexivity|]. split; [reflexivity|]. split; [reflexivity|]. split; [exists q, d; split; [reflexivity | exact Dq]|].
    split; [constructor|]. rewrite app_nil_r. split; [exact Hon|]. rewrite Hres. split.
    + exists [], r0. repeat split; try constructor; assumption.
    + right. reflexivity.
Qed.

(* every Step ever made, and the <auth/> written, name the selected mechanism —
   whatever the outcome *)
Definition client_offered_statement : Prop := forall e c script,
  let r := negotiate_client e c script in
  (forall name ch s, In (EvStep name ch s) (r_evs r) \/ (exists p, In (OAuth name p) (r_out r)) ->
     exists m, select_mech (c_mechs c) (parse_adv (c_adv c)) = Some m /\ name = m_name m /\
               In m (c_mechs c) /\ In (true, name) (c_adv c) /\ name <> []).

Lemma client_loop_out final e cr m : forall script k pk n,
  Forall (fun o => exists p, o = OResponse p) (r_out (client_loop final e cr m k pk n script)).
Proof.
  induction script as [|it rest IH]; intros k pk n; [constructor|].
  cbn [client_loop]. cbn [used1 r_out].
  destruct (client_dispatch it) as [x | success p]; [constructor|].
  destruct (decode_client p) as [ch|]; [|constructor].
  destruct (do_step e Client cr m k pk n ch) as [[r evs] pk'].
  cbn [add_evs r_out].
  destruct (s_err r); try constructor.
  destruct (negb (s_more r) && success); [constructor|].
  cbn [add_out r_out]. constructor; [eexists; reflexivity|].
  destruct (s_more r); [apply IH|].
  destruct final; [|constructor].
  destruct rest as [|it' rest']; [constructor|]. cbn.
  destruct it' as [q|q|c| | |]; try (destruct q as [q|]); try (destruct c); try constructor.
  unfold decode_client. destruct (p_dec q); constructor.
Qed.

Lemma client_final_quiet script : r_evs (client_final script) = [] /\ r_out (client_final script) = [].
Proof.
  destruct script as [|it rest]; [split; reflexivity|]. cbn.
  destruct it as [q|q|c| | |]; try (destruct q as [q|]); try (destruct c); try (split; reflexivity).
  unfold decode_client. destruct (p_dec q); split; reflexivity.
Qed.

Lemma client_offered : client_offered_statement.
Proof.
  intros e c script r name ch s. subst r. unfold negotiate_client, negotiate_client_gen.
  destruct (select_mech _ _) as [m|] eqn:Sel.
  2:{ simpl. intros [[]|[p []]]. }
  destruct (select_mech_spec _ _ _ Sel) as [Hin [Hadv Hne]]. apply parse_adv_spec in Hadv.
  assert (G : name = m_name m -> exists m0, Some m = Some m0 /\ name = m_name m0 /\ In m0 (c_mechs c) /\
                                  In (true, name) (c_adv c) /\ name <> []).
  { intro E. subst name. exists m. repeat split; assumption. }
  destruct (do_step e Client (c_creds c) m 0 0 0 []) as [[r0 evs0] pk'] eqn:St.
  destruct (do_step_shape _ _ _ _ _ _ _ _ _ _ _ St) as [_ Hon].
  assert (Hall : Forall (ev_on (m_name m)) (r_evs
     (add_evs evs0 match s_err r0 with
       | MNone => add_out [OAuth (m_name m) (enc_payload (s_resp r0))]
           (if s_more r0 then client_loop true e (c_creds c) m 1 pk' 1 script else client_final script)
       | _ => fail (err_of_merr (s_err r0)) end))).
  { cbn [add_evs r_evs]. apply Forall_app. split; [exact Hon|].
    destruct (s_err r0); try constructor. cbn [add_out r_evs].
    destruct (s_more r0); [apply client_loop_evs_on|].
    rewrite (proj1 (client_final_quiet script)). constructor. }
  intros [Hev | [p Hout]].
  - apply G. rewrite Forall_forall in Hall.
    replace (match s_err r0 with MNone => _ | MAuthn => _ | MOther => _ end) with
      (match s_err r0 with
       | MNone => add_out [OAuth (m_name m) (enc_payload (s_resp r0))]
           (if s_more r0 then client_loop true e (c_creds c) m 1 pk' 1 script else client_final script)
       | _ => fail (err_of_merr (s_err r0)) end) in Hev by (destruct (s_err r0); reflexivity).
    exact (Hall _ Hev).
  - apply G. cbn [add_evs r_out] in Hout. destruct (s_err r0); try (simpl in Hout; contradiction).
    cbn [add_out r_out] in Hout. destruct Hout as [E | Hout]; [inversion E; reflexivity|].
    exfalso. destruct (s_more r0).
    + pose proof (client_loop_out true e (c_creds c) m script 1 pk' 1) as F.
      rewrite Forall_forall in F. destruct (F _ Hout) as [q Q]. discriminate.
    + rewrite (proj2 (client_final_quiet script)) in Hout. contradiction.
Qed.

(* ---------------------------------------------------------------- server *)

Lemma server_dispatch_step mechs sel it m n p :
  server_dispatch mechs sel it = SStep m n p ->
  (exists name, it = SAuth name (Some p) /\ lookup_mech mechs name = Some m /\ n = 0) \/
  (it = SResponse (Some p) /\ sel = Some (m, n)).
Proof.
  destruct it as [name q|q|b|c|b| |]; try (destruct q as [q|]); try (destruct b); try (destruct c);
    simpl; try discriminate.
  - destruct (lookup_mech mechs name) as [m'|] eqn:L; [|discriminate].
    intro H. inversion H; subst. left. exists name. repeat split. exact L.
  - destruct sel as [[m' n']|]; [|discriminate].
    intro H. inversion H; subst. right. split; reflexivity.
Qed.

(* the Steps of one exchange: all on mechanism [name], completed, [cnt] of them *)
Definition tail_ok (name : bytes) (cnt : nat) (evs : list ev) : Prop :=
  Forall (ev_on name) evs /\ completed (ev_results evs) /\ length (ev_results evs) = cnt.

(* PLAIN: the exchange is one Step, made of the callback's acceptance of
   exactly the credentials carried by the <auth/> *)
Definition plain_clause (m : mech) (p : pay) (resps : list sitem) (evs1 : list ev) : Prop :=
  m_kind m = KPlain ->
  resps = [] /\
  exists d ident user pass r,
    decode_server p = Some d /\ split0 [] d = [ident; user; pass] /\
    evs1 = [EvPerm user pass ident true; EvStep (m_name m) d r].

Definition success_written (r : res) : Prop :=
  exists outs resp, r_out r = outs ++ [OSuccess resp] /\ Forall (fun o => exists p, o = OChallenge p) outs.

Lemma completed_single r : step_ok r -> s_more r = false -> completed [r].
Proof. intros A B. exists [], r. repeat split; try constructor; assumption. Qed.

Lemma completed_cons r l : step_ok r -> s_more r = true -> completed l -> completed (r :: l).
Proof.
  intros A B [pre [s [E [F [G H]]]]]. exists (r :: pre), s. rewrite E.
  split; [reflexivity|]. split; [constructor; [split; assumption | exact F]|]. split; assumption.
Qed.

Lemma server_loop_sound e mechs : forall script sel k pk,
  let r := server_loop e mechs sel k pk script in
  authn r = true ->
  success_written r /\
  ((exists pre name p resps m evs0 evs1,
      firstn (r_used r) script = pre ++ SAuth name (Some p) :: resps /\
      Forall (s_feedable mechs) pre /\ Forall s_response resps /\
      (exists d, decode_server p = Some d) /\ lookup_mech mechs name = Some m /\
      r_evs r = evs0 ++ evs1 /\ tail_ok name (S (length resps)) evs1 /\
      plain_clause m p resps evs1)
   \/
   (exists m n, sel = Some (m, n) /\ Forall s_response (firstn (r_used r) script) /\
      tail_ok (m_name m) (length (firstn (r_used r) script)) (r_evs r))).
Proof.
  induction script as [|it rest IH]; intros sel k pk r; subst r; [simpl; discriminate|].
  cbn [server_loop]. rewrite authn_used1.
  destruct (server_dispatch mechs sel it) as [o x | m n p] eqn:Dp; [simpl; discriminate|].
  destruct (decode_server p) as [ch|] eqn:Dec; [|simpl; discriminate].
  destruct (do_step e Server (mkCreds [] [] []) m k pk n ch) as [[r evs] pk'] eqn:St.
  destruct (do_step_shape _ _ _ _ _ _ _ _ _ _ _ St) as [Hres Hon].
  rewrite authn_add_evs.
  destruct (s_err r) eqn:Er; try (simpl; discriminate).
  destruct (s_more r) eqn:Hm.
  - (* more: a challenge is written and the loop goes on *)
    rewrite authn_add_out. intro A. specialize (IH (Some (m, S n)) (S k) pk' A).
    destruct IH as [[outs [resp [Eo Fo]]] IH]. simp_res.
    split.
    { unfold success_written. simp_res. exists (OChallenge (enc_payload (s_resp r)) :: outs), resp. rewrite Eo.
      split; [reflexivity|]. constructor; [eexists; reflexivity | exact Fo]. }
    apply server_dispatch_step in Dp.
    assert (Feed : s_feedable mechs it).
    { destruct Dp as [[name [E [L _]]] | [E _]]; subst it.
      - right. exists name, p, ch, m. repeat split; assumption.
      - left. exists p, ch. split; [reflexivity | exact Dec]. }
    destruct IH as [[pre [name [q [resps [m' [evs0 [evs1 [Hf [Hp [Hr [Hd [Hl [He [Ht Hpl]]]]]]]]]]]]]]
                   | [m' [n' [Es [Hr Ht]]]]].
    + (* a later <auth/> is the one that counts *)
      left. exists (it :: pre), name, q, resps, m', (evs ++ evs0), evs1.
      rewrite Hf, He. split; [reflexivity|]. split; [constructor; assumption|].
      split; [exact Hr|]. split; [exact Hd|]. split; [exact Hl|].
      split; [rewrite app_assoc; reflexivity|]. split; assumption.
    + (* only responses follow *)
      inversion Es; subst m' n'.
      destruct Dp as [[name [E [L En]]] | [E Esel]]; subst it.
      * (* this element is the <auth/> *)
        left. exists [], name, p, (firstn (r_used (server_loop e mechs (Some (m, S n)) (S k) pk' rest)) rest), m, [], 
                (evs ++ r_evs (server_loop e mechs (Some (m, S n)) (S k) pk' rest)).
        destruct (lookup_mech_spec _ _ _ L) as [_ [Nm _]].
        split; [reflexivity|]. split; [constructor|]. split; [exact Hr|].
        split; [exists ch; exact Dec|]. split; [exact L|]. split; [reflexivity|].
        destruct Ht as [T1 [T2 T3]]. rewrite Nm in *.
        split.
        -- split; [apply Forall_app; split; assumption|].
           rewrite ev_results_app, Hres. split.
           ++ apply completed_cons; assumption.
           ++ cbn [length app]. rewrite T3. reflexivity.
        -- intro K. subst n.
           destruct (do_step_plain_server _ _ _ _ _ _ _ _ _ _ St K Er) as [_ [F _]]. congruence.
      * (* this element is a <response/> to the mechanism selected earlier *)
        right. exists m, n. split; [exact Esel|].
        split; [constructor; [exists p, ch; split; [reflexivity | exact Dec] | exact Hr]|].
        destruct Ht as [T1 [T2 T3]].
        split; [apply Forall_app; split; assumption|].
        rewrite ev_results_app, Hres. split.
        -- apply completed_cons; assumption.
        -- cbn [length app]. rewrite T3. reflexivity.
  - (* no more, no error: <success/> *)
    intros _. simp_res. rewrite app_nil_r.
    split.
    { unfold success_written. simp_res. exists [], (b64_encode (s_resp r)). split; [reflexivity | constructor]. }
    apply server_dispatch_step in Dp.
    destruct Dp as [[name [E [L En]]] | [E Esel]]; subst it.
    + left. exists [], name, p, [], m, [], evs.
      destruct (lookup_mech_spec _ _ _ L) as [_ [Nm _]].
      split; [reflexivity|]. split; [constructor|]. split; [constructor|].
      split; [exists ch; exact Dec|]. split; [exact L|]. split; [reflexivity|].
      split.
      * rewrite <- Nm. split; [exact Hon|]. rewrite Hres. split; [apply completed_single; assumption | reflexivity].
      * intro K. subst n. split; [reflexivity|].
        destruct (do_step_plain_server _ _ _ _ _ _ _ _ _ _ St K Er) as [_ [_ [i [u [pw [Sp [_ Ee]]]]]]].
        exists ch, i, u, pw, r. repeat split; assumption.
    + right. exists m, n. split; [exact Esel|].
      split; [constructor; [exists p, ch; split; [reflexivity | exact Dec] | constructor]|].
      split; [exact Hon|]. rewrite Hres. split; [apply completed_single; assumption | reflexivity].
Qed.

Definition server_sound_statement : Prop := forall e mechs script,
  let r := negotiate_server e mechs script in
  authn r = true ->
  exists pre name p resps m evs0 evs1,
    (* what was read: feedable elements, then the <auth/> that counts, then only responses *)
    firstn (r_used r) script = pre ++ SAuth name (Some p) :: resps /\
    Forall (s_feedable mechs) pre /\ Forall s_response resps /\
    (exists d, decode_server p = Some d) /\
    (* its mechanism is the first of the server's own list with that (non-empty) name *)
    lookup_mech mechs name = Some m /\ In m mechs /\ m_name m = name /\ name <> [] /\
    (* since that <auth/>: one Step per element, all on that mechanism, none failed,
       only the last one reported completion *)
    r_evs r = evs0 ++ evs1 /\ tail_ok name (S (length resps)) evs1 /\
    (* PLAIN: the callback accepted the credentials of that <auth/> *)
    plain_clause m p resps evs1 /\
    (* and <success/> is the last element written, after challenges only *)
    success_written r.

Lemma server_sound : server_sound_statement.
Proof.
  intros e mechs script r A. subst r. unfold negotiate_server in *.
  destruct (server_loop_sound e mechs script None 0 0 A) as [Hs [H | [m [n [E _]]]]]; [|discriminate].
  destruct H as [pre [name [p [resps [m [evs0 [evs1 [Hf [Hp [Hr [Hd [Hl [He [Ht Hpl]]]]]]]]]]]]]].
  destruct (lookup_mech_spec _ _ _ Hl) as [Hin [Nm Ne]].
  exists pre, name, p, resps, m, evs0, evs1.
  split; [exact Hf|]. split; [exact Hp|]. split; [exact Hr|]. split; [exact Hd|].
  split; [exact Hl|]. split; [exact Hin|]. split; [exact Nm|]. split; [exact Ne|].
  split; [exact He|]. split; [exact Ht|]. split; [exact Hpl | exact Hs].
Qed.

(* every Step the receiving side ever makes — whatever the outcome — is on a
   mechanism of its own list, selected by name by an <auth/> of the script *)
Lemma server_loop_offered e mechs : forall script sel k pk name ch s,
  In (EvStep name ch s) (r_evs (server_loop e mechs sel k pk script)) ->
  (exists p m, In (SAuth name (Some p)) script /\ lookup_mech mechs name = Some m) \/
  (exists m n, sel = Some (m, n) /\ m_name m = name).
Proof.
  induction script as [|it rest IH]; intros sel k pk name ch s; [simpl; contradiction|].
  cbn [server_loop]. cbn [used1 r_evs].
  destruct (server_dispatch mechs sel it) as [o x | m n p] eqn:Dp; [simpl; contradiction|].
  destruct (decode_server p) as [c|] eqn:Dec; [|simpl; contradiction].
  destruct (do_step e Server (mkCreds [] [] []) m k pk n c) as [[r evs] pk'] eqn:St.
  destruct (do_step_shape _ _ _ _ _ _ _ _ _ _ _ St) as [_ Hon].
  cbn [add_evs r_evs]. intro H. apply in_app_or in H.
  apply server_dispatch_step in Dp.
  assert (Here : name = m_name m ->
    (exists p0 m0, In (SAuth name (Some p0)) (it :: rest) /\ lookup_mech mechs name = Some m0) \/
    (exists m0 n0, sel = Some (m0, n0) /\ m_name m0 = name)).
  { intro E. destruct Dp as [[nm [Ei [L _]]] | [Ei Es]].
    - left. destruct (lookup_mech_spec _ _ _ L) as [_ [Nm _]]. subst it. exists p, m.
      split; [left; congruence | congruence].
    - right. exists m, n. split; [exact Es | congruence]. }
  destruct H as [H | H].
  - rewrite Forall_forall in Hon. specialize (Hon _ H). simpl in Hon. apply Here. exact Hon.
  - destruct (s_err r); try (simpl in H; contradiction).
    destruct (s_more r); [|simpl in H; contradiction].
    cbn [add_out r_evs] in H. destruct (IH _ _ _ _ _ _ H) as [[q [m' [Hin L]]] | [m' [n' [Es Nm]]]].
    + left. exists q, m'. split; [right; exact Hin | exact L].
    + inversion Es; subst m' n'. apply Here. congruence.
Qed.

Definition server_offered_statement : Prop := forall e mechs script name ch s,
  In (EvStep name ch s) (r_evs (negotiate_server e mechs script)) ->
  exists p m, In (SAuth name (Some p)) script /\ lookup_mech mechs name = Some m /\
              In m mechs /\ m_name m = name /\ name <> [].

Lemma server_offered : server_offered_statement.
Proof.
  intros e mechs script name ch s H. unfold negotiate_server in H.
  destruct (server_loop_offered _ _ _ _ _ _ _ _ _ H) as [[p [m [Hin L]]] | [m [n [E _]]]]; [|discriminate].
  destruct (lookup_mech_spec _ _ _ L) as [A [B C]].
  exists p, m. repeat split; assumption.
Qed.

(* <success/> is written exactly when the function returns Authn *)
Lemma server_loop_success_iff e mechs : forall script sel k pk,
  let r := server_loop e mechs sel k pk script in
  authn r = true <-> exists p, In (OSuccess p) (r_out r).
Proof.
  induction script as [|it rest IH]; intros sel k pk r; subst r.
  { simpl. split; [discriminate | intros [p []]]. }
  cbn [server_loop]. rewrite authn_used1. cbn [used1 r_out].
  destruct (server_dispatch mechs sel it) as [o x | m n p] eqn:Dp.
  { rewrite authn_add_out. cbn [add_out fail r_out]. rewrite app_nil_r. split; [simpl; discriminate|].
    intros [q Hq]. exfalso.
    destruct it as [name q'|q'|b|c|b| |]; try (destruct q' as [q'|]); try (destruct b); try (destruct c);
      simpl in Dp; try (destruct (lookup_mech mechs name)); try (destruct sel as [[? ?]|]);
      inversion Dp; subst; simpl in Hq; intuition discriminate. }
  destruct (decode_server p) as [c|]; [|simpl; split; [discriminate | intros [q []]]].
  destruct (do_step e Server (mkCreds [] [] []) m k pk n c) as [[r evs] pk'].
  rewrite authn_add_evs. cbn [add_evs r_out].
  destruct (s_err r).
  - destruct (s_more r).
    + rewrite authn_add_out. cbn [add_out r_out]. rewrite IH. split.
      * intros [q Hq]. exists q. right. exact Hq.
      * intros [q [Hq | Hq]]; [discriminate | exists q; exact Hq].
    + simpl. split; [intros _; eexists; left; reflexivity | reflexivity].
  - simpl. split; [discriminate | intros [q [Hq | []]]; discriminate].
  - simpl. split; [discriminate | intros [q []]].
Qed.

(* ---------------------------------------------------------------- adversarial scripts *)

(* contrapositive forms of the soundness statements: one rejected element
   anywhere in what the session read and it does not authenticate *)
Definition adversarial_closed_statement : Prop :=
  (* initiator: anything but decodable challenges/successes; or no <success/> last *)
  (forall e c script, let r := negotiate_client e c script in
     (exists it, In it (firstn (r_used r) script) /\ ~ c_feedable it) -> authn r = false) /\
  (forall e c script, let r := negotiate_client e c script in
     (forall it, nth_error script (pred (r_used r)) = Some it -> ~ c_success it) -> authn r = false) /\
  (* initiator: after the Step that completes the mechanism at most one more element is
     read, so a challenge after completion is rejected (it is not a <success/>) *)
  (forall e c script, let r := negotiate_client e c script in
     authn r = true -> length (ev_results (r_evs r)) >= r_used r) /\
  (* receiver: abort, failure, unknown elements, undecodable payloads, unknown or empty
     mechanism names, text, malformed input — anywhere *)
  (forall e mechs script, let r := negotiate_server e mechs script in
     (exists it, In it (firstn (r_used r) script) /\ ~ s_feedable mechs it) -> authn r = false) /\
  (* receiver: a response before any <auth/> *)
  (forall e mechs script, let r := negotiate_server e mechs script in
     (forall name p, hd_error script <> Some (SAuth name (Some p))) -> authn r = false) /\
  (* receiver: <success/> is on the wire exactly when it returns Authn *)
  (forall e mechs script, let r := negotiate_server e mechs script in
     authn r = true <-> exists p, In (OSuccess p) (r_out r)).

Lemma not_true_false b : b <> true -> b = false.
Proof. destruct b; congruence. Qed.

Lemma c_success_feedable it : c_success it -> c_feedable it.
Proof. intros [p [d [E D]]]. exists p, d. split; [right; exact E | exact D]. Qed.

Lemma nth_error_last {A} (l : list A) x : nth_error (l ++ [x]) (length l) = Some x.
Proof. induction l; simpl; auto. Qed.

Lemma firstn_nth_error {A} : forall n (l : list A) i, i < n -> nth_error (firstn n l) i = nth_error l i.
Proof.
  induction n; intros l i H; [lia|]. destruct l; [destruct i; reflexivity|].
  destruct i; [reflexivity|]. simpl. apply IHn. lia.
Qed.

Lemma adversarial_closed : adversarial_closed_statement.
Proof.
  repeat split.
  - intros e c script r [it [Hin Hn]]. apply not_true_false. intro A.
    destruct (client_sound e c script A) as [m [pre [last [_ [Hf [_ [Hl [Hp _]]]]]]]].
    fold r in Hf. rewrite Hf in Hin. apply in_app_or in Hin. destruct Hin as [Hin | [E | []]].
    + rewrite Forall_forall in Hp. exact (Hn (Hp _ Hin)).
    + subst. exact (Hn (c_success_feedable _ Hl)).
  - intros e c script r Hn. apply not_true_false. intro A.
    destruct (client_sound e c script A) as [m [pre [last [_ [Hf [Hlen [Hl _]]]]]]].
    fold r in Hf, Hlen.
    apply (Hn last); [|exact Hl].
    rewrite Hlen. simpl. rewrite <- (firstn_nth_error (r_used r)) by lia.
    rewrite Hf. apply nth_error_last.
  - intros e c script r A.
    destruct (client_sound e c script A) as [m [pre [last [_ [_ [Hu [_ [_ [_ [_ Hlen]]]]]]]]]].
    fold r in Hu, Hlen. lia.
  - intros e mechs script r [it [Hin Hn]]. apply not_true_false. intro A.
    destruct (server_sound e mechs script A) as [pre [name [p [resps [m [evs0 [evs1 [Hf [Hp [Hr [[d Hd] [Hl _]]]]]]]]]]]].
    fold r in Hf. rewrite Hf in Hin. apply in_app_or in Hin. destruct Hin as [Hin | [E | Hin]].
    + rewrite Forall_forall in Hp. exact (Hn (Hp _ Hin)).
    + subst it. apply Hn. right. exists name, p, d, m. repeat split; assumption.
    + rewrite Forall_forall in Hr. apply Hn. left. exact (Hr _ Hin).
  - intros e mechs script r Hn. apply not_true_false. intro A. subst r.
    unfold negotiate_server in A. destruct script as [|it rest]; [simpl in A; discriminate|].
    cbn [server_loop] in A. rewrite authn_used1 in A.
    destruct (server_dispatch mechs None it) as [o x | m n p] eqn:Dp; [simpl in A; discriminate|].
    apply server_dispatch_step in Dp. destruct Dp as [[name [E _]] | [_ E]]; [|discriminate].
    subst it. exact (Hn name p eq_refl).
  - apply (server_loop_success_iff e mechs script None 0 0).
  - apply (server_loop_success_iff e mechs script None 0 0).
Qed.

(* ---------------------------------------------------------------- the pinned code *)

(* sasl.go at the pinned commit: a mechanism that completes on a <challenge/>
   yields Authn although the peer never sent <success/>. *)
Definition pinned_env : env := env_of [mkSres true (str "a") MNone; mkSres false [] MNone] [].
Definition pinned_cfg : ccfg :=
  mkCcfg [mkMech (str "X-A") KScript] [(true, str "X-A")] (mkCreds [] (str "test") []).
Definition pinned_script : list citem := [CChallenge (Some (mkPay PText (Some (str "a"))))].

Lemma pinned_refuted :
  authn (negotiate_client_pinned pinned_env pinned_cfg pinned_script) = true /\
  (forall it, In it pinned_script -> ~ c_success it) /\
  authn (negotiate_client pinned_env pinned_cfg pinned_script) = false.
Proof.
  split; [vm_compute; reflexivity|]. split; [|vm_compute; reflexivity].
  intros it [E | []] [p [d [F _]]]. subst it. discriminate.
Qed.

(* ---------------------------------------------------------------- tables read from the source *)

(* Every return statement of negotiateClient / negotiateServer either returns
   the constant Authn together with a nil error, or returns `mask` / `0`; and
   the local variable `mask` is never written. So the feature hands a non-zero
   mask to the negotiator only together with a nil error. *)
Definition ret_ok (r : bytes * bytes) : bool :=
  if bytes_eqb (fst r) (str "Authn") then bytes_eqb (snd r) (str "nil")
  else bytes_eqb (fst r) (str "mask") || bytes_eqb (fst r) (str "0").

Definition returns_authn (l : list (bytes * bytes)) : bool :=
  existsb (fun r => bytes_eqb (fst r) (str "Authn")) l.

Fixpoint cond_of (name : bytes) (l : list (bytes * nat)) : option nat :=
  match l with
  | [] => None
  | (n, v) :: r => if bytes_eqb n name then Some v else cond_of name r
  end.

Definition tables_statement : Prop :=
  (* the feature is offered on a secured, not yet authenticated stream only *)
  (sasl_necessary = str "Secure" /\ sasl_prohibited = str "Authn") /\
  (* a non-zero mask is returned only with a nil error *)
  (forallb ret_ok (sasl_negotiateClient_returns ++ sasl_negotiateServer_returns) = true /\
   sasl_negotiateClient_mask_writes = 0 /\ sasl_negotiateServer_mask_writes = 0 /\
   returns_authn sasl_negotiateClient_returns = true /\ returns_authn sasl_negotiateServer_returns = true) /\
  (* the element names the two dispatches know, all compared in the SASL namespace *)
  (sasl_negotiateServer_elements = [str "auth"; str "abort"; str "response"] /\
   sasl_decodeSASLChallenge_elements = [str "challenge"; str "success"; str "failure"] /\
   sasl_ns = str "urn:ietf:params:xml:ns:xmpp-sasl") /\
  (* the failure conditions the model writes are the code's *)
  (cond_of (str "ConditionAborted") sasl_conditions = Some cond_aborted /\
   cond_of (str "ConditionInvalidMechanism") sasl_conditions = Some cond_invalid_mechanism /\
   cond_of (str "ConditionMalformedRequest") sasl_conditions = Some cond_malformed_request /\
   cond_of (str "ConditionNotAuthorized") sasl_conditions = Some cond_not_authorized /\
   sasl_server_conditions = [str "ConditionInvalidMechanism"; str "ConditionAborted"; str "ConditionMalformedRequest";
                             str "ConditionMalformedRequest"; str "ConditionNotAuthorized"]) /\
  (* the receiver skips the base64 decoder for no character data and for "=" only *)
  (sasl_server_decode_subject = str "selection.Payload" /\
   sasl_server_decode_guard = str "len(p) > 0 && !(len(p) == 1 && p[0] == '=')").

Lemma tables : tables_statement.
Proof. unfold tables_statement. vm_compute. repeat split; reflexivity. Qed.

(* ---------------------------------------------------------------- honest exchanges do authenticate *)

(* (the soundness statements are not vacuous: for every length, a scripted
   mechanism that asks for more n times and then completes authenticates
   against a peer that plays along) *)

Definition decodable (p : pay) : Prop := exists d, p_dec p = Some d.

Lemma do_step_script e rl cr m k pk n ch :
  m_kind m = KScript -> s_err (e_oracle e k) = MNone ->
  do_step e rl cr m k pk n ch = (e_oracle e k, [EvStep (m_name m) ch (e_oracle e k)], pk).
Proof.
  intros K E. unfold do_step. rewrite K. unfold norm. rewrite E. reflexivity.
Qed.

Lemma client_loop_honest e cr m (K : m_kind m = KScript) p (Dp : decodable p) : forall chs k pk n,
  Forall decodable chs ->
  (forall i, i < length chs -> s_err (e_oracle e (k + i)) = MNone /\ s_more (e_oracle e (k + i)) = true) ->
  s_err (e_oracle e (k + length chs)) = MNone -> s_more (e_oracle e (k + length chs)) = false ->
  authn (client_loop true e cr m k pk n (map (fun c => CChallenge (Some c)) chs ++ [CSuccess (Some p)])) = true.
Proof.
  induction chs as [|c chs IH]; intros k pk n Hd Hmore He Hm.
  - simpl in He, Hm. rewrite Nat.add_0_r in He, Hm.
    cbn [map app client_loop client_dispatch]. unfold decode_client.
    destruct Dp as [d Dd]. rewrite Dd. rewrite (do_step_script _ _ _ _ _ _ _ _ K He).
    rewrite authn_used1, authn_add_evs, He, Hm. reflexivity.
  - inversion Hd as [|? ? [d Dd] Hd']; subst.
    destruct (Hmore 0 ltac:(simpl; lia)) as [E0 M0]. rewrite Nat.add_0_r in E0, M0.
    cbn [map app client_loop client_dispatch]. unfold decode_client. rewrite Dd.
    rewrite (do_step_script _ _ _ _ _ _ _ _ K E0).
    rewrite authn_used1, authn_add_evs, E0, M0. cbn [negb andb]. rewrite authn_add_out.
    apply IH.
    + exact Hd'.
    + intros i Hi. specialize (Hmore (S i) ltac:(simpl; lia)). rewrite Nat.add_succ_r in Hmore. exact Hmore.
    + simpl in He. rewrite Nat.add_succ_r in He. exact He.
    + simpl in Hm. rewrite Nat.add_succ_r in Hm. exact Hm.
Qed.

Definition client_honest_statement : Prop := forall e c m chs p,
  select_mech (c_mechs c) (parse_adv (c_adv c)) = Some m -> m_kind m = KScript ->
  Forall decodable chs -> decodable p ->
  (forall i, i <= length chs -> s_err (e_oracle e i) = MNone /\ s_more (e_oracle e i) = true) ->
  s_err (e_oracle e (S (length chs))) = MNone -> s_more (e_oracle e (S (length chs))) = false ->
  authn (negotiate_client e c (map (fun x => CChallenge (Some x)) chs ++ [CSuccess (Some p)])) = true.

Lemma client_honest : client_honest_statement.
Proof.
  intros e c m chs p Sel K Hd Dp Hmore He Hm.
  unfold negotiate_client, negotiate_client_gen. rewrite Sel.
  destruct (Hmore 0 ltac:(lia)) as [E0 M0].
  rewrite (do_step_script _ _ _ _ _ _ _ _ K E0).
  rewrite authn_add_evs, E0, authn_add_out, M0.
  apply (client_loop_honest e (c_creds c) m K p Dp chs 1 0 1 Hd).
  - intros i Hi. apply (Hmore (S i)). lia.
  - exact He.
  - exact Hm.
Qed.

Definition s_decodable (p : pay) : Prop := exists d, decode_server p = Some d.

Lemma server_loop_honest e mechs m (K : m_kind m = KScript) : forall ps k pk n,
  Forall s_decodable ps ->
  (forall i, i < length ps -> s_err (e_oracle e (k + i)) = MNone /\ s_more (e_oracle e (k + i)) = true) ->
  s_err (e_oracle e (k + length ps)) = MNone -> s_more (e_oracle e (k + length ps)) = false ->
  forall p0, s_decodable p0 ->
  (* the element that carries p0 reaches Step on m *)
  forall it, server_dispatch mechs (Some (m, n)) it = SStep m n p0 ->
  authn (server_loop e mechs (Some (m, n)) k pk (it :: map (fun x => SResponse (Some x)) ps)) = true.
Proof.
  induction ps as [|q ps IH]; intros k pk n Hd Hmore He Hm p0 [d0 D0] it Hit.
  - simpl in He, Hm. rewrite Nat.add_0_r in He, Hm.
    cbn [map server_loop]. rewrite Hit, D0, (do_step_script _ _ _ _ _ _ _ _ K He).
    rewrite authn_used1, authn_add_evs, He, Hm. reflexivity.
  - inversion Hd as [|? ? Dq Hd']; subst.
    destruct (Hmore 0 ltac:(simpl; lia)) as [E0 M0]. rewrite Nat.add_0_r in E0, M0.
    cbn [map server_loop]. rewrite Hit, D0, (do_step_script _ _ _ _ _ _ _ _ K E0).
    rewrite authn_used1, authn_add_evs, E0, M0, authn_add_out.
    apply (IH (S k) pk (S n) Hd') with (p0 := q).
    + intros i Hi. specialize (Hmore (S i) ltac:(simpl; lia)). rewrite Nat.add_succ_r in Hmore. exact Hmore.
    + simpl in He. rewrite Nat.add_succ_r in He. exact He.
    + simpl in Hm. rewrite Nat.add_succ_r in Hm. exact Hm.
    + exact Dq.
    + reflexivity.
Qed.

Lemma server_loop_auth_step e mechs m name p0 d0 rest :
  lookup_mech mechs name = Some m -> decode_server p0 = Some d0 ->
  server_loop e mechs None 0 0 (SAuth name (Some p0) :: rest) =
  used1 (let '(r, evs, pk') := do_step e Server (mkCreds [] [] []) m 0 0 0 d0 in
         add_evs evs
           (match s_err r with
            | MNone =>
                if s_more r
                then add_out [OChallenge (enc_payload (s_resp r))] (server_loop e mechs (Some (m, 1)) 1 pk' rest)
                else add_out [OSuccess (b64_encode (s_resp r))] done
            | MAuthn => add_out [OFailure cond_not_authorized] (fail EMechAuthn)
            | MOther => fail EMechOther
            end)).
Proof. intros L D. cbn [server_loop server_dispatch]. rewrite L, D. reflexivity. Qed.

Definition server_honest_statement : Prop := forall e mechs m name p0 ps,
  lookup_mech mechs name = Some m -> m_kind m = KScript ->
  s_decodable p0 -> Forall s_decodable ps ->
  (forall i, i < length ps -> s_err (e_oracle e i) = MNone /\ s_more (e_oracle e i) = true) ->
  s_err (e_oracle e (length ps)) = MNone -> s_more (e_oracle e (length ps)) = false ->
  authn (negotiate_server e mechs (SAuth name (Some p0) :: map (fun x => SResponse (Some x)) ps)) = true.

Lemma server_honest : server_honest_statement.
Proof.
  intros e mechs m name p0 ps L K D0 Hd Hmore He Hm. unfold negotiate_server.
  destruct D0 as [d0 D0]. cbn [map].
  rewrite (server_loop_auth_step _ _ _ _ _ _ _ L D0).
  destruct ps as [|q ps].
  - simpl in He, Hm. rewrite (do_step_script _ _ _ _ _ _ _ _ K He).
    rewrite authn_used1, authn_add_evs, He, Hm. reflexivity.
  - inversion Hd as [|? ? Dq Hd']; subst.
    destruct (Hmore 0 ltac:(simpl; lia)) as [E0 M0].
    rewrite (do_step_script _ _ _ _ _ _ _ _ K E0).
    rewrite authn_used1, authn_add_evs, E0, M0, authn_add_out. cbn [map].
    apply (server_loop_honest e mechs m K ps 1 0 1 Hd') with (p0 := q).
    + intros i Hi. apply (Hmore (S i)). simpl. lia.
    + exact He.
    + exact Hm.
    + exact Dq.
    + reflexivity.
Qed.
