(* C17/Model.v — executable model of styling/styling.go (XEP-0393 tokenizer).

   Modelled, function by function:
     utf8.DecodeRune / DecodeLastRune / FullRune   decode_rune / decode_last_rune_rev / full_rune
     isSpace                                       is_space (ranges from gen/Styling.v)
     startsBlockQuote                              starts_block_quote
     Decoder.scanSpan / scanPre / scan             scan_span / scan_pre / scan
     Decoder.Style / Quote                         style_chain / quote_chain (+ the insertBlockClose cases in [next])
     bufio.Scanner.Scan (by contract)              scan_next
     Decoder.Next + Token                          next
   A Decoder and its chain of quoteSplit decoders is a list of [level]s,
   outermost first; quoteSplit == nil is the empty tail.  Every split-function
   result of the Go code has token == data[:advance], so results carry the
   advance only.  No proofs in this file. *)
From XV Require Import lib.Bytes gen.Styling.

(* ------------------------------------------------------------------ UTF-8 *)

Definition rune_error : N := 65533%N.

Definition is_space (r : N) : bool :=
  existsb (fun p => (fst p <=? r)%N && (r <=? snd p)%N) space_ranges.

(* unicode/utf8 `first` table with acceptRanges: size, lo, hi of the second byte *)
Definition lead (b0 : N) : option (nat * N * N) :=
  (if b0 <? 194 then None                       (* 0x80-0xC1: xx *)
   else if b0 <? 224 then Some (2%nat, 128, 191)    (* 0xC2-0xDF: s1 *)
   else if b0 =? 224 then Some (3%nat, 160, 191)    (* 0xE0: s2 *)
   else if b0 <? 237 then Some (3%nat, 128, 191)    (* 0xE1-0xEC: s3 *)
   else if b0 =? 237 then Some (3%nat, 128, 159)    (* 0xED: s4 *)
   else if b0 <? 240 then Some (3%nat, 128, 191)    (* 0xEE-0xEF: s3 *)
   else if b0 =? 240 then Some (4%nat, 144, 191)    (* 0xF0: s5 *)
   else if b0 <? 244 then Some (4%nat, 128, 191)    (* 0xF1-0xF3: s6 *)
   else if b0 =? 244 then Some (4%nat, 128, 143)    (* 0xF4: s7 *)
   else None)%N.

Definition out_rng (b : byte) (lo hi : N) : bool := ((bN b <? lo) || (hi <? bN b))%N.
Definition not_cont (b : byte) : bool := out_rng b 128 191.

(* len(s) < k *)
Fixpoint shorter (s : bytes) (k : nat) {struct k} : bool :=
  match k with
  | O => false
  | S k' => match s with [] => true | _ :: s' => shorter s' k' end
  end.

Definition low6 (b : byte) : N := N.land (bN b) 63.

Definition decode_rune (s : bytes) : N * nat :=
  match s with
  | [] => (rune_error, 0)
  | p0 :: t =>
      let b0 := bN p0 in
      if (b0 <? 128)%N then (b0, 1) else
      match lead b0 with
      | None => (rune_error, 1)
      | Some (sz, lo, hi) =>
          if shorter s sz then (rune_error, 1) else
          match t with
          | [] => (rune_error, 1)
          | p1 :: t1 =>
              if out_rng p1 lo hi then (rune_error, 1) else
              if (sz <=? 2) then (N.lor (N.shiftl (N.land b0 31) 6) (low6 p1), 2) else
              match t1 with
              | [] => (rune_error, 1)
              | p2 :: t2 =>
                  if not_cont p2 then (rune_error, 1) else
                  if (sz <=? 3) then
                    (N.lor (N.lor (N.shiftl (N.land b0 15) 12) (N.shiftl (low6 p1) 6)) (low6 p2), 3) else
                  match t2 with
                  | [] => (rune_error, 1)
                  | p3 :: _ =>
                      if not_cont p3 then (rune_error, 1) else
                      (N.lor (N.lor (N.lor (N.shiftl (N.land b0 7) 18) (N.shiftl (low6 p1) 12))
                                    (N.shiftl (low6 p2) 6)) (low6 p3), 4)
                  end
              end
          end
      end
  end.

(* utf8.FullRune *)
Definition full_rune (s : bytes) : bool :=
  match s with
  | [] => false
  | p0 :: t =>
      let b0 := bN p0 in
      if (b0 <? 128)%N then true else
      match lead b0 with
      | None => true
      | Some (sz, lo, hi) =>
          if negb (shorter s sz) then true else
          match t with
          | [] => false
          | p1 :: t1 =>
              if out_rng p1 lo hi then true else
              match t1 with
              | [] => false
              | p2 :: _ => not_cont p2
              end
          end
      end
  end.

Definition rune_start (b : byte) : bool := negb (N.land (bN b) 192 =? 128)%N.

(* utf8.DecodeLastRune(p) where [pr] is p reversed (last byte first). *)
Definition decode_last_rune_rev (pr : bytes) : N * nat :=
  let try (seg : bytes) :=
    let '(r, sz) := decode_rune seg in
    if (sz =? length seg) then (r, sz) else (rune_error, 1) in
  match pr with
  | [] => (rune_error, 0)
  | l0 :: t =>
      if (bN l0 <? 128)%N then (bN l0, 1) else
      match t with
      | [] => try [l0]
      | l1 :: t1 =>
          if rune_start l1 then try [l1; l0] else
          match t1 with
          | [] => try [l1; l0]
          | l2 :: t2 =>
              if rune_start l2 then try [l2; l1; l0] else
              match t2 with
              | [] => try [l2; l1; l0]
              | l3 :: t3 =>
                  if rune_start l3 then try [l3; l2; l1; l0] else
                  match t3 with
                  | [] => try [l3; l2; l1; l0]
                  | l4 :: _ => try [l4; l3; l2; l1; l0]
                  end
              end
          end
      end
  end.

(* ------------------------------------------------------------ decoder state *)

Record level := mklevel {
  l_mask : N; l_clear : N;
  l_qs : bool;    (* quoteStarted *)
  l_nl : bool;    (* lastNewline *)
  l_run : bool;   (* hasRun *)
  l_stack : bytes (* spanStack, top first *) }.

Definition dec := list level.   (* d :: d.quoteSplit :: d.quoteSplit.quoteSplit ... *)

Definition level0 : level := mklevel 0 0 false false false [].
Definition dec0 : dec := [level0].

Definition has (m b : N) : bool := (N.land m b =? b)%N.

Definition set_mask (d : level) (m c : N) : level :=
  mklevel m c (l_qs d) (l_nl d) (l_run d) (l_stack d).
Definition add_mask (d : level) (m c : N) : level :=
  set_mask d (N.lor (l_mask d) m) (N.lor (l_clear d) c).
Definition set_run (d : level) : level :=
  mklevel (l_mask d) (l_clear d) (l_qs d) (l_nl d) true (l_stack d).
Definition set_nl (d : level) : level :=
  mklevel (l_mask d) (l_clear d) (l_qs d) true (l_run d) (l_stack d).
Definition set_stack (d : level) (s : bytes) : level :=
  mklevel (l_mask d) (l_clear d) (l_qs d) (l_nl d) (l_run d) s.
Definition reset_lv (d : level) : level :=
  mklevel (l_mask d) (l_clear d) false (l_nl d) false (l_stack d).

(* the part of scan before the first switch, on the level itself ... *)
Definition prelude_lv (d : level) : level :=
  let d1 := if l_nl d
            then mklevel (N.ldiff (l_mask d) sBlockQuote) (l_clear d) false false false (l_stack d)
            else d in
  set_mask d1 (N.ldiff (l_mask d1) (l_clear d1)) 0.
(* ... and on the chain below it (the tmpSplit loop) *)
Definition prelude_inner (d : level) (inner : dec) : dec :=
  if l_nl d then map reset_lv inner else inner.

Inductive lres := LMore (d : level) | LTok (adv : nat) (d : level).
Inductive sres := SMore (ds : dec) | STok (adv : nat) (ds : dec) | SPanic.

(* ------------------------------------------------------------ scanSpan *)

Definition c_nl : byte := x0a.
Definition c_star : byte := "*"%byte.
Definition c_under : byte := "_"%byte.
Definition c_tick : byte := "`"%byte.
Definition c_tilde : byte := "~"%byte.
Definition c_gt : byte := ">"%byte.

(* one jump per byte instead of four byte comparisons: the loops below run
   once per input byte inside vm_compute *)
Definition is_directive (b : byte) : bool :=
  match b with "*" | "_" | "`" | "~" => true | _ => false end%byte.
Definition is_nl (b : byte) : bool := match b with x0a => true | _ => false end.

Definition sk_style (c : byte) : N :=
  if byte_eqb c c_star then sSpanStrong else if byte_eqb c c_under then sSpanEmph
  else if byte_eqb c c_tilde then sSpanStrike else if byte_eqb c c_tick then sSpanPre else 0%N.
Definition sk_start (c : byte) : N :=
  if byte_eqb c c_star then sSpanStrongStart else if byte_eqb c c_under then sSpanEmphStart
  else if byte_eqb c c_tilde then sSpanStrikeStart else if byte_eqb c c_tick then sSpanPreStart else 0%N.
Definition sk_end (c : byte) : N :=
  if byte_eqb c c_star then sSpanStrongEnd else if byte_eqb c c_under then sSpanEmphEnd
  else if byte_eqb c c_tilde then sSpanStrikeEnd else if byte_eqb c c_tick then sSpanPreEnd else 0%N.

Definition start_bits (b : byte) : N * N :=   (* mask |=, clearMask |= *)
  (N.lor (sk_style b) (sk_start b), sk_start b).
Definition end_bits (b : byte) : N * N :=
  (sk_end b, N.lor (sk_style b) (sk_end b)).

Definition top_is (d : level) (b : byte) : bool :=
  match l_stack d with top :: _ => byte_eqb b top | [] => false end.

Definition head_is (s : bytes) (b : byte) : bool :=
  match s with c :: _ => byte_eqb c b | [] => false end.

(* result of the for loop: None = fell off the end of data *)
Fixpoint span_loop (d : level) (pre_rev rest : bytes) (i : nat)
         (st : option nat) (sd : byte) : option lres :=
  match rest with
  | [] => None
  | b :: rest' =>
      if is_nl b then Some (LTok (S i) d)
      else if negb (is_directive b) then span_loop d (b :: pre_rev) rest' (S i) st sd
      else
        let next_space := is_space (fst (decode_rune rest')) in
        let prev_space := is_space (fst (decode_last_rune_rev pre_rev)) in
        if top_is d b then
          (* end directive of the innermost open span *)
          if (i =? 0) then
            let '(m, c) := end_bits b in
            Some (LTok 1 (set_stack (add_mask d m c) (tl (l_stack d))))
          else Some (LTok i d)
        else if (match st with None => true | Some _ => false end)
                && (N.land (l_mask d) sSpanPre =? 0)%N then
          if ((i =? 0) || prev_space) && negb next_space then
            if head_is rest' b then span_loop d (b :: pre_rev) rest' (S i) st sd
            else span_loop d (b :: pre_rev) rest' (S i) (Some i) b
          else span_loop d (b :: pre_rev) rest' (S i) st sd
        else if byte_eqb b sd && negb prev_space
                && (match st with None => 0 <? i | Some s => S s <? i end) then
          match st with
          | Some (S s') => Some (LTok (S s') d)
          | _ =>
              let '(m, c) := start_bits b in
              Some (LTok 1 (set_stack (add_mask d m c) (b :: l_stack d)))
          end
        else span_loop d (b :: pre_rev) rest' (S i) st sd
  end.

Definition scan_span (d : level) (data : bytes) (eof : bool) : lres :=
  match span_loop d [] data 0 None x00 with
  | Some r => r
  | None => if eof then LTok (length data) d else LMore d
  end.

(* ------------------------------------------------------------ scanPre *)

Definition nl_index (data : bytes) : option nat := index_where is_nl data.

Definition opt_is (o : option nat) (k : nat) : bool :=
  match o with Some j => (j =? k) | None => false end.
Definition opt_none (o : option nat) : bool :=
  match o with Some _ => false | None => true end.

Definition scan_pre (d : level) (data : bytes) (eof : bool) : lres :=
  let nl := nl_index data in
  let pf := is_prefix fence data in
  let fl := length fence in
  if pf && negb eof && (length data =? fl) then LMore d
  else if pf && (opt_is nl fl || (eof && opt_none nl)) then
    LTok (if opt_is nl fl then S fl else fl)
         (add_mask d sBlockPreEnd (N.lor sBlockPre sBlockPreEnd))
  else match nl with
       | Some k => LTok (S k) d
       | None => if eof then LTok (length data) d else LMore d
       end.

(* ------------------------------------------------------------ startsBlockQuote *)

Fixpoint sbq_loop (fuel : nat) (data : bytes) (l : nat) : nat :=
  match fuel with
  | O => l
  | S f =>
      match data with
      | [] => l
      | _ =>
          let '(r, size) := decode_rune data in
          if is_space r then sbq_loop f (skipn size data) (size + l) else l
      end
  end.

Definition starts_block_quote (data : bytes) : nat :=
  match data with
  | b :: rest => if byte_eqb b c_gt then sbq_loop (length rest) rest 1 else 0
  | [] => 0
  end.

(* ------------------------------------------------------------ scan *)

Definition is_nil {A} (l : list A) : bool := match l with [] => true | _ => false end.

Definition ends_nl (data : bytes) (adv : nat) : bool :=
  match adv with
  | O => false
  | S k => match nth_error data k with Some b => is_nl b | None => false end
  end.

(* the deferred function of scan: lastNewline on the level that returns *)
Definition finish (data : bytes) (r : sres) : sres :=
  match r with
  | STok adv (d :: inner) => if ends_nl data adv then STok adv (set_nl d :: inner) else r
  | _ => r
  end.

Definition lift_l (r : lres) (inner : dec) : sres :=
  match r with
  | LMore d => SMore (d :: inner)
  | LTok adv d => STok adv (d :: inner)
  end.

Definition cons_l (d : level) (r : sres) : sres :=
  match r with
  | SMore inner => SMore (d :: inner)
  | STok adv inner => STok adv (d :: inner)
  | SPanic => SPanic
  end.

Definition pre_start (d : level) : level :=
  add_mask d (N.lor sBlockPre sBlockPreStart) sBlockPreStart.

Definition quote_start (d : level) : level :=
  let d1 := add_mask d (N.lor sBlockQuote sBlockQuoteStart) sBlockQuoteStart in
  mklevel (l_mask d1) (l_clear d1) true (l_nl d1) true (l_stack d1).

(* the tail of scan once no quote is to be handled at this level *)
Definition scan_own (d2 : level) (data : bytes) (eof : bool) : lres :=
  let nl := nl_index data in
  if is_prefix fence data then
    match nl with
    | Some k => if (0 <? k) then LTok (S k) (pre_start d2)
                else if eof then LTok (length data) (pre_start d2)
                else scan_span d2 data eof
    | None => if eof then LTok (length data) (pre_start d2) else LMore d2
    end
  else scan_span d2 data eof.

(* the quote start token cannot be delimited yet: it reaches the end of the
   buffer, or the buffer ends inside a rune (fix of the chunk dependence) *)
Definition quote_undecided (data : bytes) (l : nat) (eof : bool) : bool :=
  negb eof && ((l =? length data) || negb (full_rune (skipn l data))).

(* the two switch statements of scan, after the prelude; [rec] is the call
   d.quoteSplit.scan(data, atEOF) *)
Definition scan_body (d1 : level) (inner1 : dec) (rec : unit -> sres)
           (data : bytes) (eof : bool) : sres :=
  match l_stack d1 with
  | _ :: _ => lift_l (scan_span d1 data eof) inner1
  | [] =>
      if has (l_mask d1) sBlockPre then lift_l (scan_pre (set_run d1) data eof) inner1
      else
        let l := starts_block_quote data in
        if (0 <? l) then
          if negb (l_qs d1) then
            if quote_undecided data l eof then SMore (d1 :: inner1)
            else STok l (quote_start d1 :: match inner1 with [] => [level0] | _ => inner1 end)
          else cons_l d1 (rec tt)
        else
          match inner1 with
          | _ :: _ =>
              if l_qs d1 then cons_l d1 (rec tt)
              else lift_l (scan_own (set_run d1) data eof) []
          | [] => lift_l (scan_own (set_run d1) data eof) []
          end
  end.

(* [rec] is only used when quoteStarted survived the prelude; then lastNewline
   was false, the prelude left the chain below untouched, and the recursive
   call on [inner] is the call on the chain the Go code holds at that point. *)
Fixpoint scan (ds : dec) (data : bytes) (eof : bool) {struct ds} : sres :=
  match ds with
  | [] => SPanic    (* method body on a nil *Decoder *)
  | d :: inner =>
      if eof && is_nil data then SMore ds else
      finish data (scan_body (prelude_lv d) (prelude_inner d inner)
                             (fun _ => scan inner data eof) data eof)
  end.

(* Decoder.Style / Decoder.Quote without the insertBlockClose cases *)
Fixpoint style_chain (ds : dec) : N :=
  match ds with
  | [] => 0
  | d :: inner =>
      if l_run d then
        match inner with [] => l_mask d | _ => N.lor (l_mask d) (style_chain inner) end
      else 0
  end%N.

Fixpoint quote_chain (ds : dec) : option nat :=
  match ds with
  | [] => None     (* nil dereference *)
  | d :: inner =>
      if l_qs d then match quote_chain inner with Some n => Some (S n) | None => None end
      else Some 0
  end.

(* ------------------------------------------------------------ bufio.Scanner *)

Definition limit : nat := N.to_nat 65536%N.   (* bufio.MaxScanTokenSize; never unfolded in proofs *)

Record sc := mksc {
  s_ds : dec;
  s_buf : bytes;        (* unconsumed bytes in the buffer *)
  s_rest : bytes;       (* input not read yet *)
  s_eof : bool;         (* the reader has reported io.EOF *)
  s_reads : list nat;   (* sizes of the coming reads; [] = everything available *)
  s_deof : bool }.      (* the read that delivers the last byte also reports EOF *)

Inductive rres := RTok (tok : bytes) (s : sc) | REnd (s : sc) | RTooLong | RPanic | RFuel.

Definition read_size (lim : nat) (s : sc) : nat :=
  let want := match s_reads s with k :: _ => Nat.max 1 k | [] => length (s_rest s) end in
  Nat.min want (Nat.min (length (s_rest s)) (lim - length (s_buf s))).

Fixpoint scan_next (lim : nat) (fuel : nat) (s : sc) : rres :=
  match fuel with
  | O => RFuel
  | S f =>
      let r := if negb (is_nil (s_buf s)) || s_eof s
               then Some (scan (s_ds s) (s_buf s) (s_eof s)) else None in
      match r with
      | Some (STok adv ds') =>
          RTok (firstn adv (s_buf s))
               (mksc ds' (skipn adv (s_buf s)) (s_rest s) (s_eof s) (s_reads s) (s_deof s))
      | Some SPanic => RPanic
      | _ =>
          let ds1 := match r with Some (SMore ds') => ds' | _ => s_ds s end in
          if s_eof s then REnd (mksc ds1 [] (s_rest s) true (s_reads s) (s_deof s))
          else if (lim <=? length (s_buf s)) then RTooLong
          else match s_rest s with
               | [] => scan_next lim f (mksc ds1 (s_buf s) [] true (tl (s_reads s)) (s_deof s))
               | _ =>
                   let n := read_size lim s in
                   let rest' := skipn n (s_rest s) in
                   scan_next lim f (mksc ds1 (s_buf s ++ firstn n (s_rest s)) rest'
                                     (is_nil rest' && s_deof s) (tl (s_reads s)) (s_deof s))
               end
      end
  end.

(* ------------------------------------------------------------ Decoder.Next *)

Record obs := mkobs { o_data : bytes; o_info : bytes; o_style : N; o_quote : nat }.

Inductive endst := EEOF | ETooLong | EPanic | EFuel.

Definition endst_eqb (a b : endst) : bool :=
  match a, b with
  | EEOF, EEOF | ETooLong, ETooLong | EPanic, EPanic | EFuel, EFuel => true
  | _, _ => false
  end.

Record dst := mkdst { d_sc : sc; d_insert : bool; d_last : bytes }.

Inductive nres := NTok (o : obs) (s : dst) | NEnd (e : endst).

Definition bq_end_style : N := N.lor sBlockQuoteEnd sBlockQuote.

Definition info_of (style : N) (t : bytes) : bytes :=
  let nl := if ends_nl t (length t) then 1 else 0 in
  if has style sBlockPreStart && (length fence + nl <? length t)
  then firstn (length t - nl - length fence) (skipn (length fence) t)
  else [].

(* what Next/Token/Style/Quote show for a freshly scanned token [t] *)
Definition deliver (prev : nat) (t : bytes) (s' : sc) : nres :=
  match quote_chain (s_ds s') with
  | None => NEnd EPanic
  | Some curr =>
      if (curr <? prev)
      then NTok (mkobs [] [] bq_end_style (S curr)) (mkdst s' true t)
      else NTok (mkobs t (info_of (style_chain (s_ds s')) t) (style_chain (s_ds s')) curr)
                (mkdst s' false t)
  end.

Definition next (lim : nat) (fuel : nat) (st : dst) : nres :=
  if d_insert st then
    match quote_chain (s_ds (d_sc st)) with
    | None => NEnd EPanic
    | Some q => NTok (mkobs (d_last st) [] (style_chain (s_ds (d_sc st))) q)
                     (mkdst (d_sc st) false (d_last st))
    end
  else
    match quote_chain (s_ds (d_sc st)) with
    | None => NEnd EPanic
    | Some prev =>
        match scan_next lim fuel (d_sc st) with
        | RTok t s' => deliver prev t s'
        | REnd _ => NEnd EEOF
        | RTooLong => NEnd ETooLong
        | RPanic => NEnd EPanic
        | RFuel => NEnd EFuel
        end
    end.

Fixpoint run (lim : nat) (fuel : nat) (sfuel : nat) (st : dst) : list obs * endst :=
  match fuel with
  | O => ([], EFuel)
  | S f =>
      match next lim sfuel st with
      | NTok o st' => let '(os, e) := run lim f sfuel st' in (o :: os, e)
      | NEnd e => ([], e)
      end
  end.

Definition init (input : bytes) (reads : list nat) (deof : bool) : dst :=
  mkdst (mksc dec0 [] input false reads deof) false [].

(* the decoder over a reader that delivers [input] in reads of the given sizes *)
Definition decode_lim (lim : nat) (input : bytes) (reads : list nat) (deof : bool) : list obs * endst :=
  run lim (2 * length input + 2) (length input + 2) (init input reads deof).
Definition decode := decode_lim limit.

(* ------------------------------------------------------------ reference semantics *)

(* One token of the chunk-free reading: the split function sees everything
   that is left, with atEOF, except that a token which is still undecided on
   the first 64 KiB is ErrTooLong. *)
Inductive fres := FTok (adv : nat) (ds : dec) | FEnd | FTooLong | FPanic.

Definition ref_scan (lim : nat) (ds : dec) (r : bytes) : fres :=
  match r with
  | [] => FEnd
  | _ =>
      let too_long :=
        if (lim <=? length r)
        then match scan ds (firstn lim r) false with SMore _ => true | _ => false end
        else false in
      if too_long then FTooLong else
      match scan ds r true with
      | STok adv ds' => FTok adv ds'
      | SMore _ => FEnd       (* not reachable for r <> [] *)
      | SPanic => FPanic
      end
  end.

(* ds, insert flag, last token, remaining input *)
Definition ref_next (lim : nat) (ds : dec) (ins : bool) (last r : bytes) : option (obs * (dec * bool * bytes * bytes)) + endst :=
  if ins then
    match quote_chain ds with
    | None => inr EPanic
    | Some q => inl (Some (mkobs last [] (style_chain ds) q, (ds, false, last, r)))
    end
  else
    match quote_chain ds with
    | None => inr EPanic
    | Some prev =>
        match ref_scan lim ds r with
        | FEnd => inr EEOF
        | FTooLong => inr ETooLong
        | FPanic => inr EPanic
        | FTok adv ds' =>
            let t := firstn adv r in
            match quote_chain ds' with
            | None => inr EPanic
            | Some curr =>
                if (curr <? prev)
                then inl (Some (mkobs [] [] bq_end_style (S curr), (ds', true, t, skipn adv r)))
                else inl (Some (mkobs t (info_of (style_chain ds') t) (style_chain ds') curr,
                                (ds', false, t, skipn adv r)))
            end
        end
    end.

Fixpoint ref_run (lim : nat) (fuel : nat) (ds : dec) (ins : bool) (last r : bytes) : list obs * endst :=
  match fuel with
  | O => ([], EFuel)
  | S f =>
      match ref_next lim ds ins last r with
      | inl (Some (o, (ds', ins', last', r'))) =>
          let '(os, e) := ref_run lim f ds' ins' last' r' in (o :: os, e)
      | inl None => ([], EFuel)
      | inr e => ([], e)
      end
  end.

Definition ref_decode_lim (lim : nat) (input : bytes) : list obs * endst :=
  ref_run lim (2 * length input + 2) dec0 false [] input.
Definition ref_decode := ref_decode_lim limit.

(* ------------------------------------------------------------ the bracket discipline, on observables *)

Definition span_chars : bytes := [c_under; c_star; c_tilde; c_tick].

Definition dir_triples : list (N * N * N) :=   (* style, start, end *)
  map (fun c => (sk_style c, sk_start c, sk_end c)) span_chars
  ++ [(sBlockPre, sBlockPreStart, sBlockPreEnd); (sBlockQuote, sBlockQuoteStart, sBlockQuoteEnd)].

Definition anyb (m b : N) : bool := negb (N.land m b =? 0)%N.

(* a start or end directive bit implies its style bit *)
Definition dir_implies_style (m : N) : bool :=
  forallb (fun k => let '(s, a, e) := k in
                    implb (anyb m a) (anyb m s) && implb (anyb m e) (anyb m s)) dir_triples.

Definition any_start (m : N) : bool :=
  existsb (fun k => let '(s, a, e) := k in anyb m a) dir_triples.

(* the span style bits of the mask are exactly the open spans *)
Definition spans_match (m : N) (st : bytes) : bool :=
  forallb (fun c => Bool.eqb (anyb m (sk_style c)) (in_bytes c st)) span_chars.

Definition has_nl (s : bytes) : bool := existsb is_nl s.

(* One token against the stack [st] of open spans (directive characters,
   innermost first).  Each token carries at most one span directive; a start
   pushes (never inside a pre span, where no directive of any kind may start,
   and never a kind that is already open), an end must close the innermost open
   span; the span style bits of every token are exactly the open spans; no
   token inside a span contains a line break. *)
Definition bstep (st : bytes) (m : N) (t : bytes) : option bytes :=
  if dir_implies_style m
     && (is_nil st || negb (has_nl t))
     && (negb (in_bytes c_tick st) || negb (any_start m))
  then
    match filter (fun c => anyb m (sk_start c)) span_chars,
          filter (fun c => anyb m (sk_end c)) span_chars with
    | [], [] => if spans_match m st then Some st else None
    | [c], [] => if negb (in_bytes c st) && spans_match m (c :: st) then Some (c :: st) else None
    | [], [c] =>
        match st with
        | top :: st' => if byte_eqb top c && spans_match m st then Some st' else None
        | [] => None
        end
    | _, _ => None
    end
  else None.

Fixpoint brackets_from (st : bytes) (os : list obs) : option bytes :=
  match os with
  | [] => Some st
  | o :: rest =>
      match bstep st (o_style o) (o_data o) with
      | Some st' => brackets_from st' rest
      | None => None
      end
  end.

(* all spans are closed at the end, unless the input was cut by ErrTooLong *)
Definition brackets_ok (os : list obs) (e : endst) : bool :=
  match brackets_from [] os with
  | Some st => is_nil st || endst_eqb e ETooLong
  | None => false
  end.

Definition lossless (input : bytes) (os : list obs) : bool :=
  bytes_eqb (flat_map o_data os) input.

(* ------------------------------------------------------------ correspondence records *)

Fixpoint failing {A} (ok : A -> bool) (i : nat) (l : list A) : list nat :=
  match l with
  | [] => []
  | x :: r => if ok x then failing ok (S i) r else i :: failing ok (S i) r
  end.

(* utf8 / unicode helpers against the Go standard library *)
Record ucase := mkucase {
  u_src : bytes;
  u_rune : N; u_size : nat;          (* utf8.DecodeRune *)
  u_lrune : N; u_lsize : nat;        (* utf8.DecodeLastRune *)
  u_full : bool;                     (* utf8.FullRune *)
  u_space : bool }.                  (* isSpace(DecodeRune rune) *)

Definition ucase_ok (c : ucase) : bool :=
  let '(r, n) := decode_rune (u_src c) in
  let '(lr, ln) := decode_last_rune_rev (rev (u_src c)) in
  (r =? u_rune c)%N && (n =? u_size c) && (lr =? u_lrune c)%N && (ln =? u_lsize c)
  && Bool.eqb (full_rune (u_src c)) (u_full c) && Bool.eqb (is_space r) (u_space c).

(* a sequence of direct calls of the split function on windows of one document:
   (offset, length, atEOF) -> (advance, Style(), Quote()); advance 0 = no token *)
Record call := mkcall { k_off : nat; k_len : nat; k_eof : bool;
                        k_adv : nat; k_style : N; k_quote : nat }.
Record scase := mkscase { sc_doc : bytes; sc_calls : list call }.

Fixpoint calls_ok (doc : bytes) (ds : dec) (cs : list call) : bool :=
  match cs with
  | [] => true
  | c :: rest =>
      let data := firstn (k_len c) (skipn (k_off c) doc) in
      let '(adv, ds') := match scan ds data (k_eof c) with
                         | SMore ds' => (Some 0, ds')
                         | STok adv ds' => (Some adv, ds')
                         | SPanic => (None, ds)
                         end in
      match adv, quote_chain ds' with
      | Some a, Some q =>
          (a =? k_adv c) && (style_chain ds' =? k_style c)%N && (q =? k_quote c) && calls_ok doc ds' rest
      | _, _ => false
      end
  end.

Definition scase_ok (c : scase) : bool := calls_ok (sc_doc c) dec0 (sc_calls c).

Definition obs_eqb (a b : obs) : bool :=
  bytes_eqb (o_data a) (o_data b) && bytes_eqb (o_info a) (o_info b)
  && (o_style a =? o_style b)%N && (o_quote a =? o_quote b).

Fixpoint obs_list_eqb (a b : list obs) : bool :=
  match a, b with
  | [], [] => true
  | x :: a', y :: b' => obs_eqb x y && obs_list_eqb a' b'
  | _, _ => false
  end.

(* A whole Decoder run: document, the sizes the reader actually delivered,
   whether EOF came with the last bytes; observed tokens and end state.  Tokens
   are written by the harness as (length of data, length of info, style, quote):
   data is the next bytes of the document, info its bytes 3.. (the harness
   checks both facts on the Go values before writing the case). *)
Record tokd := mktokd { t_len : nat; t_info : nat; t_style : N; t_quote : nat }.

Fixpoint expand (doc : bytes) (ts : list tokd) : list obs :=
  match ts with
  | [] => []
  | t :: rest =>
      let d := firstn (t_len t) doc in
      mkobs d (firstn (t_info t) (skipn (length fence) d)) (t_style t) (t_quote t)
        :: expand (skipn (t_len t) doc) rest
  end.

Record dcase := mkdcase { d2_doc : bytes; d2_reads : list nat; d2_deof : bool;
                          d2_ref : bool;   (* also compare with the chunk-free reference semantics *)
                          d2_toks : list tokd; d2_end : endst }.

Definition dcase_ok (c : dcase) : bool :=
  let want := expand (d2_doc c) (d2_toks c) in
  (let '(got, e) := decode (d2_doc c) (d2_reads c) (d2_deof c) in
   obs_list_eqb got want && endst_eqb e (d2_end c))
  && brackets_ok want (d2_end c)
  && (if d2_ref c
      then let '(got, e) := ref_decode (d2_doc c) in
           obs_list_eqb got want && endst_eqb e (d2_end c)
      else true).
