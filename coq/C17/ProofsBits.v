(* C17/ProofsBits.v — single-bit reasoning on Style masks, and the table lemmas
   tying the constants of gen/Styling.v to bit positions. *)
From Coq Require Import ZifyBool ZifyNat ZifyN.
From XV Require Import lib.Bytes gen.Styling C17.Model C17.ProofsScan.

Definition single (b : N) : Prop := exists k, b = (2 ^ k)%N.

Lemma anyb_single m b k : b = (2 ^ k)%N -> anyb m b = N.testbit m k.
Proof.
  intros ->. unfold anyb.
  destruct (N.testbit m k) eqn:T.
  - apply negb_true_iff, N.eqb_neq. intros H.
    assert (N.testbit (N.land m (2 ^ k)) k = true).
    { rewrite N.land_spec, T, N.pow2_bits_true. reflexivity. }
    rewrite H, N.bits_0 in H0. discriminate.
  - apply negb_false_iff, N.eqb_eq. apply N.bits_inj. intros j.
    rewrite N.land_spec, N.bits_0, N.pow2_bits_eqb.
    destruct (N.eqb_spec k j) as [<-|]; [rewrite T; reflexivity|apply andb_false_r].
Qed.

Lemma anyb_lor m1 m2 b : single b -> anyb (N.lor m1 m2) b = anyb m1 b || anyb m2 b.
Proof. intros [k E]. rewrite !(anyb_single _ _ _ E). apply N.lor_spec. Qed.

Lemma anyb_ldiff m c b : single b -> anyb (N.ldiff m c) b = anyb m b && negb (anyb c b).
Proof. intros [k E]. rewrite !(anyb_single _ _ _ E). apply N.ldiff_spec. Qed.

Lemma anyb_0 b : anyb 0 b = false.
Proof. reflexivity. Qed.

Lemma anyb_self b b' : single b -> single b' -> anyb b b' = (b =? b')%N.
Proof.
  intros [k ->] [k' E']. rewrite (anyb_single _ _ _ E'). subst b'.
  rewrite N.pow2_bits_eqb.
  destruct (N.eqb_spec k k') as [->|Hn].
  - symmetry. apply N.eqb_refl.
  - symmetry. apply N.eqb_neq. intros H. apply N.pow_inj_r in H; [congruence|lia].
Qed.

Lemma has_anyb m b : single b -> has m b = anyb m b.
Proof.
  intros [k ->]. unfold has. rewrite (anyb_single _ _ k eq_refl).
  destruct (N.testbit m k) eqn:T.
  - apply N.eqb_eq. apply N.bits_inj. intros j.
    rewrite N.land_spec, N.pow2_bits_eqb.
    destruct (N.eqb_spec k j) as [<-|]; [rewrite T; reflexivity|apply andb_false_r].
  - apply N.eqb_neq. intros H.
    assert (N.testbit (N.land m (2 ^ k)) k = true) by (rewrite H; apply N.pow2_bits_true).
    rewrite N.land_spec, T in H0. discriminate.
Qed.

Lemma land_zero_anyb m b : single b -> (N.land m b =? 0)%N = negb (anyb m b).
Proof. intros _. unfold anyb. rewrite negb_involutive. reflexivity. Qed.

(* ------------------------------------------------------------------ the constants are single bits *)

Ltac single_n k := exists k; reflexivity.

Lemma single_BlockPre : single sBlockPre. Proof. single_n 0%N. Qed.
Lemma single_BlockQuote : single sBlockQuote. Proof. single_n 1%N. Qed.
Lemma single_SpanEmph : single sSpanEmph. Proof. single_n 2%N. Qed.
Lemma single_SpanStrong : single sSpanStrong. Proof. single_n 3%N. Qed.
Lemma single_SpanStrike : single sSpanStrike. Proof. single_n 4%N. Qed.
Lemma single_SpanPre : single sSpanPre. Proof. single_n 5%N. Qed.
Lemma single_BlockPreStart : single sBlockPreStart. Proof. single_n 6%N. Qed.
Lemma single_BlockPreEnd : single sBlockPreEnd. Proof. single_n 7%N. Qed.
Lemma single_BlockQuoteStart : single sBlockQuoteStart. Proof. single_n 8%N. Qed.
Lemma single_BlockQuoteEnd : single sBlockQuoteEnd. Proof. single_n 9%N. Qed.
Lemma single_SpanEmphStart : single sSpanEmphStart. Proof. single_n 10%N. Qed.
Lemma single_SpanEmphEnd : single sSpanEmphEnd. Proof. single_n 11%N. Qed.
Lemma single_SpanStrongStart : single sSpanStrongStart. Proof. single_n 12%N. Qed.
Lemma single_SpanStrongEnd : single sSpanStrongEnd. Proof. single_n 13%N. Qed.
Lemma single_SpanStrikeStart : single sSpanStrikeStart. Proof. single_n 14%N. Qed.
Lemma single_SpanStrikeEnd : single sSpanStrikeEnd. Proof. single_n 15%N. Qed.
Lemma single_SpanPreStart : single sSpanPreStart. Proof. single_n 16%N. Qed.
Lemma single_SpanPreEnd : single sSpanPreEnd. Proof. single_n 17%N. Qed.

(* all eighteen bits, and the fact that they are pairwise different *)
Definition all_bits : list N :=
  [sBlockPre; sBlockQuote; sSpanEmph; sSpanStrong; sSpanStrike; sSpanPre;
   sBlockPreStart; sBlockPreEnd; sBlockQuoteStart; sBlockQuoteEnd;
   sSpanEmphStart; sSpanEmphEnd; sSpanStrongStart; sSpanStrongEnd;
   sSpanStrikeStart; sSpanStrikeEnd; sSpanPreStart; sSpanPreEnd].

Lemma all_bits_single : Forall single all_bits.
Proof.
  repeat constructor;
    first [apply single_BlockPre|apply single_BlockQuote|apply single_SpanEmph|apply single_SpanStrong
          |apply single_SpanStrike|apply single_SpanPre|apply single_BlockPreStart|apply single_BlockPreEnd
          |apply single_BlockQuoteStart|apply single_BlockQuoteEnd|apply single_SpanEmphStart
          |apply single_SpanEmphEnd|apply single_SpanStrongStart|apply single_SpanStrongEnd
          |apply single_SpanStrikeStart|apply single_SpanStrikeEnd|apply single_SpanPreStart|apply single_SpanPreEnd].
Qed.

Lemma in_span_chars c : In c span_chars -> c = c_under \/ c = c_star \/ c = c_tilde \/ c = c_tick.
Proof. cbn. intuition. Qed.

Lemma span_char_directive c : In c span_chars -> is_directive c = true.
Proof. intros H. apply in_span_chars in H. destruct H as [ -> | [ -> | [ -> | -> ]]]; reflexivity. Qed.

Lemma directive_span_char c : is_directive c = true -> In c span_chars.
Proof. destruct c; cbn; intros H; try discriminate; tauto. Qed.

Lemma single_style c : In c span_chars -> single (sk_style c).
Proof.
  intros H. apply in_span_chars in H. destruct H as [ -> | [ -> | [ -> | -> ]]].
  - apply single_SpanEmph. - apply single_SpanStrong. - apply single_SpanStrike. - apply single_SpanPre.
Qed.
Lemma single_start c : In c span_chars -> single (sk_start c).
Proof.
  intros H. apply in_span_chars in H. destruct H as [ -> | [ -> | [ -> | -> ]]].
  - apply single_SpanEmphStart. - apply single_SpanStrongStart. - apply single_SpanStrikeStart. - apply single_SpanPreStart.
Qed.
Lemma single_end c : In c span_chars -> single (sk_end c).
Proof.
  intros H. apply in_span_chars in H. destruct H as [ -> | [ -> | [ -> | -> ]]].
  - apply single_SpanEmphEnd. - apply single_SpanStrongEnd. - apply single_SpanStrikeEnd. - apply single_SpanPreEnd.
Qed.

(* the triples of dir_triples are made of single bits *)
Lemma dir_triples_single : Forall (fun k => single (fst (fst k)) /\ single (snd (fst k)) /\ single (snd k)) dir_triples.
Proof.
  unfold dir_triples, span_chars. cbn [map app].
  repeat constructor; cbn [fst snd];
    first [apply single_BlockPre|apply single_BlockQuote|apply single_SpanEmph|apply single_SpanStrong
          |apply single_SpanStrike|apply single_SpanPre|apply single_BlockPreStart|apply single_BlockPreEnd
          |apply single_BlockQuoteStart|apply single_BlockQuoteEnd|apply single_SpanEmphStart
          |apply single_SpanEmphEnd|apply single_SpanStrongStart|apply single_SpanStrongEnd
          |apply single_SpanStrikeStart|apply single_SpanStrikeEnd|apply single_SpanPreStart|apply single_SpanPreEnd].
Qed.

(* distinctness facts used below, all by computation on the generated constants *)
Lemma style_eq c c' : In c span_chars -> In c' span_chars ->
  (sk_style c =? sk_style c')%N = byte_eqb c c'.
Proof.
  intros H H'. apply in_span_chars in H, H'.
  destruct H as [ -> | [ -> | [ -> | -> ]]]; destruct H' as [ -> | [ -> | [ -> | -> ]]]; reflexivity.
Qed.
Lemma start_eq c c' : In c span_chars -> In c' span_chars ->
  (sk_start c =? sk_start c')%N = byte_eqb c c'.
Proof.
  intros H H'. apply in_span_chars in H, H'.
  destruct H as [ -> | [ -> | [ -> | -> ]]]; destruct H' as [ -> | [ -> | [ -> | -> ]]]; reflexivity.
Qed.
Lemma end_eq c c' : In c span_chars -> In c' span_chars ->
  (sk_end c =? sk_end c')%N = byte_eqb c c'.
Proof.
  intros H H'. apply in_span_chars in H, H'.
  destruct H as [ -> | [ -> | [ -> | -> ]]]; destruct H' as [ -> | [ -> | [ -> | -> ]]]; reflexivity.
Qed.

(* a span bit of one class is never a bit of another class, nor a block bit *)
Definition span_bit_classes_disjoint : bool :=
  forallb (fun c => forallb (fun c' =>
     negb (sk_style c =? sk_start c')%N && negb (sk_style c =? sk_end c')%N && negb (sk_start c =? sk_end c')%N
     && negb (sk_start c =? sk_style c')%N && negb (sk_end c =? sk_style c')%N && negb (sk_end c =? sk_start c')%N)
     span_chars
     && forallb (fun b => negb (sk_style c =? b)%N && negb (sk_start c =? b)%N && negb (sk_end c =? b)%N)
          [sBlockPre; sBlockQuote; sBlockPreStart; sBlockPreEnd; sBlockQuoteStart; sBlockQuoteEnd]) span_chars.

Lemma disjoint_tbl : span_bit_classes_disjoint = true.
Proof. vm_compute. reflexivity. Qed.
