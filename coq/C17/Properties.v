(* C17/Properties.v — the property theorems of C17 and nothing else.
   "The styling decoder is lossless, chunk-independent and well-bracketed."

   [decode input reads deof] is the model of a styling.Decoder over a reader
   that delivers [input] in reads of the sizes [reads] (then everything that is
   left), reporting io.EOF together with the last bytes iff [deof]; it returns
   the observations (Token().Data, Token().Info, Style(), Quote()) of every
   successful Next and the way the loop ended.  [ref_decode input] is the
   chunk-free reading: every token is delimited on all remaining input. *)
From XV Require Import lib.Bytes gen.Styling C17.Model C17.Proofs.

(* Termination without panic: every run, for every input and every chunking,
   ends with io.EOF or with bufio.ErrTooLong — never with a panic (nil
   quoteSplit dereference, slice bounds in the Info computation are total in the
   model) and never out of the fuel that bounds the model's loops. *)
Theorem C17_terminates_no_panic : forall input reads deof,
  snd (decode input reads deof) = EEOF \/ snd (decode input reads deof) = ETooLong.
Proof. exact decode_ends. Qed.
Print Assumptions C17_terminates_no_panic.

(* Losslessness, full statement: false of the code because of bufio.Scanner's
   64 KiB token limit (known finding C17/decoder/lossless/too-long). *)
Definition C17_lossless_statement : Prop := forall input reads deof,
  flat_map o_data (fst (decode input reads deof)) = input.

Theorem C17_lossless_refuted : ~ C17_lossless_statement.
Proof.
  intros H. destruct lossless_refuted as [input [reads [deof N]]]. exact (N (H input reads deof)).
Qed.
Print Assumptions C17_lossless_refuted.

(* What holds for every input and chunking: the token data concatenated is a
   prefix of the input, and all of it whenever the run ends with io.EOF. *)
Theorem C17_lossless_partial : forall input reads deof os e,
  decode input reads deof = (os, e) ->
  exists tail, input = flat_map o_data os ++ tail /\ (e = EEOF -> tail = []).
Proof. exact decode_lossless. Qed.
Print Assumptions C17_lossless_partial.

(* Chunk independence, full statement: false at the boundary of the 64 KiB limit
   (an undecided token of exactly 65536 bytes is returned when io.EOF arrives
   with the data and is ErrTooLong otherwise; same known finding). *)
Definition C17_chunk_independent_statement : Prop := forall input r1 e1 r2 e2,
  decode input r1 e1 = decode input r2 e2.

Theorem C17_chunk_independent_refuted : ~ C17_chunk_independent_statement.
Proof.
  intros H. destruct chunk_independence_refuted as [input [r1 [e1 [r2 [e2 N]]]]].
  exact (N (H input r1 e1 r2 e2)).
Qed.
Print Assumptions C17_chunk_independent_refuted.

(* For every input on which the chunk-free reading does not hit the limit, every
   chunking (any read sizes, EOF with or after the last bytes) gives exactly the
   chunk-free token sequence: data, info strings, style masks, quote depths and
   the final io.EOF.  Hence any two chunkings agree. *)
Theorem C17_chunk_independent_partial : forall input,
  snd (ref_decode input) <> ETooLong ->
  forall reads deof, decode input reads deof = ref_decode input.
Proof. exact decode_chunk_free. Qed.
Print Assumptions C17_chunk_independent_partial.

Theorem C17_chunk_independent_any_two : forall input,
  snd (ref_decode input) <> ETooLong ->
  forall r1 e1 r2 e2, decode input r1 e1 = decode input r2 e2.
Proof.
  intros input H r1 e1 r2 e2.
  rewrite (decode_chunk_free input H r1 e1), (decode_chunk_free input H r2 e2). reflexivity.
Qed.
Print Assumptions C17_chunk_independent_any_two.

(* For EVERY input, also beyond the limit: the token sequences (data, info,
   masks, quote depths) of any two chunkings are prefixes of one another — they
   can differ only in where bufio.ErrTooLong cuts them; a run that reaches
   io.EOF has the longest sequence; two runs that reach io.EOF are equal. *)
Theorem C17_chunk_independent_up_to_limit : forall input r1 d1 r2 d2 os1 e1 os2 e2,
  decode input r1 d1 = (os1, e1) -> decode input r2 d2 = (os2, e2) ->
  ((exists t, os1 = os2 ++ t) \/ (exists t, os2 = os1 ++ t)) /\
  (e1 = EEOF -> exists t, os1 = os2 ++ t) /\
  (e1 = EEOF -> e2 = EEOF -> os1 = os2).
Proof. exact decode_any_two. Qed.
Print Assumptions C17_chunk_independent_up_to_limit.

(* The mechanism: once the split function has returned a token on a buffer, it
   returns the same token and reaches the same state on every extension of that
   buffer, at EOF or not; and a request for more data can be repeated. *)
Theorem C17_scan_extension_stable : forall ds data n ds' e b,
  scan ds data false = STok n ds' -> scan ds (data ++ e) b = STok n ds'.
Proof. exact scan_ext. Qed.
Print Assumptions C17_scan_extension_stable.

Theorem C17_scan_more_repeatable : forall ds data ds1,
  scan ds data false = SMore ds1 -> data <> [] ->
  forall e b, scan ds1 (data ++ e) b = scan ds (data ++ e) b.
Proof. exact scan_more_idem. Qed.
Print Assumptions C17_scan_more_repeatable.

(* Every token is a non-empty prefix of the data the split function was given. *)
Theorem C17_scan_advance_in_range : forall ds data b n ds',
  scan ds data b = STok n ds' -> 0 < n /\ n <= length data.
Proof. exact scan_bounds. Qed.
Print Assumptions C17_scan_advance_in_range.

(* Bracket discipline of every run ([brackets_ok], Model.v): on every token a
   start or end directive bit implies its style bit; span starts and ends are
   properly nested (an end closes the innermost open span, of its own kind; no
   kind is opened twice); the span style bits of every token are exactly the
   open spans; no token inside a span contains a line break, so every span is
   closed before its line ends; no directive of any kind starts inside a
   preformatted span; and at io.EOF no span is open.  (After ErrTooLong the
   sequence is cut, so the last clause is not claimed.) *)
Theorem C17_brackets : forall input reads deof,
  brackets_ok (fst (decode input reads deof)) (snd (decode input reads deof)) = true.
Proof. exact decode_brackets_ok. Qed.
Print Assumptions C17_brackets.

(* The constants the proofs rely on are what the source says now: the fence is
   three backticks, U+FFFD is no space, and the eighteen Style bits are distinct
   single bits with the span classes disjoint from each other and from the
   block bits. *)
Theorem C17_tables : 
  fence = [c_tick; c_tick; c_tick] /\ is_space rune_error = false /\
  Forall single all_bits /\ span_bit_classes_disjoint = true /\ NoDup all_bits.
Proof. exact tables_ok. Qed.
Print Assumptions C17_tables.
