(* C17/ProofsLevel.v — per-level consistency of mask, clearMask and spanStack,
   and the one-token checker [bstep] computed from bit facts. *)
From Coq Require Import ZifyBool ZifyNat ZifyN.
From XV Require Import lib.Bytes gen.Styling C17.Model C17.ProofsScan C17.ProofsBits C17.ProofsSpan.

(* ------------------------------------------------------------------ triples *)

Lemma in_dir_triples k : In k dir_triples ->
  (exists c, In c span_chars /\ k = (sk_style c, sk_start c, sk_end c))
  \/ k = (sBlockPre, sBlockPreStart, sBlockPreEnd) \/ k = (sBlockQuote, sBlockQuoteStart, sBlockQuoteEnd).
Proof.
  unfold dir_triples. intros H. apply in_app_or in H. destruct H as [H|[H|[H|[]]]]; auto.
  apply in_map_iff in H. destruct H as [c [E Hc]]. left. exists c. auto.
Qed.

Lemma span_triple_in c : In c span_chars -> In (sk_style c, sk_start c, sk_end c) dir_triples.
Proof. intros H. unfold dir_triples. apply in_or_app. left. apply in_map_iff. exists c. auto. Qed.

Lemma bp_triple_in : In (sBlockPre, sBlockPreStart, sBlockPreEnd) dir_triples.
Proof. unfold dir_triples. apply in_or_app. right. left. reflexivity. Qed.
Lemma bq_triple_in : In (sBlockQuote, sBlockQuoteStart, sBlockQuoteEnd) dir_triples.
Proof. unfold dir_triples. apply in_or_app. right. right. left. reflexivity. Qed.

Lemma triple_single k : In k dir_triples ->
  single (fst (fst k)) /\ single (snd (fst k)) /\ single (snd k).
Proof. intros H. exact (proj1 (Forall_forall _ _) dir_triples_single k H). Qed.

(* ------------------------------------------------------------------ level invariant *)

Definition nodir (m : N) : Prop :=
  forall k, In k dir_triples -> anyb m (snd (fst k)) = false /\ anyb m (snd k) = false.

Record lv_ok (d : level) : Prop := mk_lv_ok {
  ok_dirs : forall k, In k dir_triples ->
     (anyb (l_mask d) (snd (fst k)) = true -> anyb (l_clear d) (snd (fst k)) = true) /\
     (anyb (l_mask d) (snd k) = true -> anyb (l_clear d) (snd k) = true);
  ok_impl : dir_implies_style (l_mask d) = true;
  ok_spans : forall c, In c span_chars ->
     anyb (l_mask d) (sk_style c) && negb (anyb (l_clear d) (sk_style c)) = in_bytes c (l_stack d);
  ok_nodup : NoDup (l_stack d);
  ok_chars : forall x, In x (l_stack d) -> In x span_chars }.

Record pre_ok (d : level) : Prop := mk_pre_ok {
  po_ok : lv_ok d; po_clear : l_clear d = 0%N; po_nl : l_nl d = false; po_nodir : nodir (l_mask d) }.

Lemma dir_implies_spec m : dir_implies_style m = true <->
  forall k, In k dir_triples ->
    (anyb m (snd (fst k)) = true -> anyb m (fst (fst k)) = true) /\
    (anyb m (snd k) = true -> anyb m (fst (fst k)) = true).
Proof.
  unfold dir_implies_style. rewrite forallb_forall. split.
  - intros H [[s a] e] Hk. specialize (H _ Hk). cbn [fst snd] in *.
    apply andb_true_iff in H. destruct H as [H1 H2].
    split; intros E; rewrite E in *; cbn in *; assumption.
  - intros H [[s a] e] Hk. specialize (H _ Hk). cbn [fst snd] in *. destruct H as [H1 H2].
    apply andb_true_iff. split.
    + destruct (anyb m a); [rewrite H1; reflexivity|reflexivity].
    + destruct (anyb m e); [rewrite H2; reflexivity|reflexivity].
Qed.

Lemma nodir_implies m : nodir m -> dir_implies_style m = true.
Proof.
  intros H. apply dir_implies_spec. intros k Hk. destruct (H k Hk) as [H1 H2].
  split; intros E; congruence.
Qed.

Lemma dir_implies_lor m1 m2 :
  dir_implies_style m1 = true -> dir_implies_style m2 = true -> dir_implies_style (N.lor m1 m2) = true.
Proof.
  rewrite !dir_implies_spec. intros H1 H2 k Hk.
  destruct (triple_single k Hk) as [Ss [Sa Se]].
  rewrite !anyb_lor by assumption.
  destruct (H1 k Hk) as [A1 E1]. destruct (H2 k Hk) as [A2 E2].
  split; intros H; apply orb_true_iff in H; apply orb_true_iff; destruct H as [H|H]; auto.
Qed.

Lemma level0_ok : lv_ok level0.
Proof.
  constructor; cbn.
  - intros k _. split; intros H; discriminate.
  - reflexivity.
  - intros c _. reflexivity.
  - constructor.
  - intros x [].
Qed.

(* the flags do not matter *)
Lemma lv_ok_flags d d' :
  l_mask d' = l_mask d -> l_clear d' = l_clear d -> l_stack d' = l_stack d -> lv_ok d -> lv_ok d'.
Proof.
  intros E1 E2 E3 [H1 H2 H3 H4 H5]. constructor; rewrite ?E1, ?E2, ?E3; assumption.
Qed.

Lemma lv_ok_set_run d : lv_ok d -> lv_ok (set_run d).
Proof. apply lv_ok_flags; reflexivity. Qed.
Lemma lv_ok_set_nl d : lv_ok d -> lv_ok (set_nl d).
Proof. apply lv_ok_flags; reflexivity. Qed.
Lemma lv_ok_reset d : lv_ok d -> lv_ok (reset_lv d).
Proof. apply lv_ok_flags; reflexivity. Qed.

(* ------------------------------------------------------------------ the prelude *)

Lemma prelude_mask d b : single b ->
  anyb (l_mask (prelude_lv d)) b =
  anyb (l_mask d) b && negb (if l_nl d then anyb sBlockQuote b else false) && negb (anyb (l_clear d) b).
Proof.
  intros Sb. unfold prelude_lv. destruct d as [m c q nl r s]. cbn [l_nl l_mask l_clear].
  destruct nl; cbn [l_mask l_clear set_mask]; rewrite !anyb_ldiff by exact Sb; [reflexivity|].
  rewrite andb_true_r. reflexivity.
Qed.

Lemma prelude_ok d : lv_ok d -> pre_ok (prelude_lv d).
Proof.
  intros [H1 H2 H3 H4 H5].
  assert (ND : nodir (l_mask (prelude_lv d))).
  { intros k Hk. destruct (triple_single k Hk) as [_ [Sa Se]]. destruct (H1 k Hk) as [A E].
    rewrite !prelude_mask by assumption. split.
    - destruct (anyb (l_mask d) (snd (fst k))); [rewrite A by reflexivity; apply andb_false_r|reflexivity].
    - destruct (anyb (l_mask d) (snd k)); [rewrite E by reflexivity; apply andb_false_r|reflexivity]. }
  constructor; [|apply prelude_clear|apply prelude_nl|exact ND].
  constructor.
  - intros k Hk. destruct (ND k Hk) as [A E]. split; intros H; congruence.
  - apply nodir_implies, ND.
  - intros c Hc. rewrite prelude_clear, prelude_stack, anyb_0, andb_true_r.
    rewrite prelude_mask by (apply single_style, Hc).
    rewrite <- (H3 c Hc).
    assert (Q : (if l_nl d then anyb sBlockQuote (sk_style c) else false) = false).
    { destruct (l_nl d); [|reflexivity]. apply in_span_chars in Hc.
      destruct Hc as [ -> | [ -> | [ -> | -> ]]]; reflexivity. }
    rewrite Q. cbn [negb]. rewrite andb_true_r. reflexivity.
  - rewrite prelude_stack. exact H4.
  - rewrite prelude_stack. exact H5.
Qed.

Lemma prelude_bp d : anyb (l_mask (prelude_lv d)) sBlockPre = true -> anyb (l_mask d) sBlockPre = true.
Proof.
  rewrite prelude_mask by apply single_BlockPre. intros H.
  apply andb_true_iff in H. destruct H as [H _]. apply andb_true_iff in H. tauto.
Qed.

Lemma prelude_style_sub d c : In c span_chars ->
  anyb (l_mask (prelude_lv d)) (sk_style c) = true -> anyb (l_mask d) (sk_style c) = true.
Proof.
  intros Hc. rewrite prelude_mask by (apply single_style, Hc). intros H.
  apply andb_true_iff in H. destruct H as [H _]. apply andb_true_iff in H. tauto.
Qed.

Lemma pre_ok_spans d c : pre_ok d -> In c span_chars -> anyb (l_mask d) (sk_style c) = in_bytes c (l_stack d).
Proof.
  intros [O C _ _] Hc. pose proof (ok_spans d O c Hc) as H.
  rewrite C, anyb_0, andb_true_r in H. exact H.
Qed.

(* ------------------------------------------------------------------ updates of a level after the prelude *)

(* adding bits M to the mask and C to clearMask, with a new stack *)
Lemma lv_ok_add d M C s' :
  pre_ok d ->
  (forall k, In k dir_triples ->
     (anyb M (snd (fst k)) = true -> anyb C (snd (fst k)) = true /\ anyb (N.lor (l_mask d) M) (fst (fst k)) = true) /\
     (anyb M (snd k) = true -> anyb C (snd k) = true /\ anyb (N.lor (l_mask d) M) (fst (fst k)) = true)) ->
  (forall c, In c span_chars ->
     (anyb (l_mask d) (sk_style c) || anyb M (sk_style c)) && negb (anyb C (sk_style c)) = in_bytes c s') ->
  NoDup s' -> (forall x, In x s' -> In x span_chars) ->
  lv_ok (set_stack (add_mask d M C) s').
Proof.
  intros [O Cl _ ND] HM HS Hnd Hch.
  constructor; cbn [set_stack add_mask set_mask l_mask l_clear l_stack]; rewrite ?Cl.
  - intros k Hk. destruct (triple_single k Hk) as [_ [Sa Se]].
    destruct (ND k Hk) as [A E]. destruct (HM k Hk) as [MA ME].
    rewrite !anyb_lor by assumption. rewrite A, E, !anyb_0. cbn [orb].
    split; intros H; [apply (MA H)|apply (ME H)].
  - apply dir_implies_spec. intros k Hk. destruct (triple_single k Hk) as [Ss [Sa Se]].
    destruct (ND k Hk) as [A E]. destruct (HM k Hk) as [MA ME].
    rewrite (anyb_lor _ _ _ Sa), (anyb_lor _ _ _ Se), A, E. cbn [orb].
    split; intros H; [apply (MA H)|apply (ME H)].
  - intros c Hc. pose proof (single_style c Hc) as Sc.
    rewrite !anyb_lor by exact Sc. rewrite anyb_0. cbn [orb]. apply HS, Hc.
  - exact Hnd.
  - exact Hch.
Qed.

Lemma add_mask_set_stack_same d M C : set_stack (add_mask d M C) (l_stack d) = add_mask d M C.
Proof. destruct d; reflexivity. Qed.

Ltac span4 Hc := apply in_span_chars in Hc; destruct Hc as [ -> | [ -> | [ -> | -> ]]].

(* a bit of a span class against the constants, by computation *)
Lemma style_vs_start c c' : In c span_chars -> In c' span_chars -> anyb (sk_start c) (sk_style c') = false.
Proof. intros H H'. span4 H; span4 H'; reflexivity. Qed.
Lemma style_vs_end c c' : In c span_chars -> In c' span_chars -> anyb (sk_end c) (sk_style c') = false.
Proof. intros H H'. span4 H; span4 H'; reflexivity. Qed.
Lemma style_vs_style c c' : In c span_chars -> In c' span_chars -> anyb (sk_style c) (sk_style c') = byte_eqb c' c.
Proof. intros H H'. span4 H; span4 H'; reflexivity. Qed.
Lemma start_vs_start c c' : In c span_chars -> In c' span_chars -> anyb (sk_start c) (sk_start c') = byte_eqb c' c.
Proof. intros H H'. span4 H; span4 H'; reflexivity. Qed.
Lemma end_vs_end c c' : In c span_chars -> In c' span_chars -> anyb (sk_end c) (sk_end c') = byte_eqb c' c.
Proof. intros H H'. span4 H; span4 H'; reflexivity. Qed.
Lemma start_vs_style c c' : In c span_chars -> In c' span_chars -> anyb (sk_style c) (sk_start c') = false.
Proof. intros H H'. span4 H; span4 H'; reflexivity. Qed.
Lemma end_vs_style c c' : In c span_chars -> In c' span_chars -> anyb (sk_style c) (sk_end c') = false.
Proof. intros H H'. span4 H; span4 H'; reflexivity. Qed.
Lemma end_vs_start c c' : In c span_chars -> In c' span_chars -> anyb (sk_start c) (sk_end c') = false.
Proof. intros H H'. span4 H; span4 H'; reflexivity. Qed.
Lemma start_vs_end c c' : In c span_chars -> In c' span_chars -> anyb (sk_end c) (sk_start c') = false.
Proof. intros H H'. span4 H; span4 H'; reflexivity. Qed.

(* the bits a triple probes in the bits a span directive sets *)
Lemma triple_cases (P : N * N * N -> Prop) :
  (forall c, In c span_chars -> P (sk_style c, sk_start c, sk_end c)) ->
  P (sBlockPre, sBlockPreStart, sBlockPreEnd) -> P (sBlockQuote, sBlockQuoteStart, sBlockQuoteEnd) ->
  forall k, In k dir_triples -> P k.
Proof.
  intros H1 H2 H3 k Hk. destruct (in_dir_triples k Hk) as [[c [Hc ->]]|[ -> | -> ]]; auto.
Qed.

Lemma in_bytes_cons c x s : in_bytes c (x :: s) = byte_eqb c x || in_bytes c s.
Proof. reflexivity. Qed.

Lemma in_bytes_false c s : ~ In c s -> in_bytes c s = false.
Proof. intros H. destruct (in_bytes c s) eqn:E; [apply in_bytes_In in E; contradiction|reflexivity]. Qed.

Lemma in_bytes_true c s : In c s -> in_bytes c s = true.
Proof. apply in_bytes_In. Qed.

Lemma push_ok d c : pre_ok d -> In c span_chars -> ~ In c (l_stack d) -> lv_ok (push_lv d c).
Proof.
  intros P Hc Hn. unfold push_lv. apply lv_ok_add; [exact P| | | |].
  - pose proof (single_style c Hc) as S1. pose proof (single_start c Hc) as S2.
    apply triple_cases; cbn [fst snd].
    + intros c' Hc'. pose proof (single_style c' Hc'). pose proof (single_start c' Hc'). pose proof (single_end c' Hc').
      rewrite !anyb_lor by assumption.
      rewrite (start_vs_style c c' Hc Hc'), (start_vs_start c c' Hc Hc'), (end_vs_style c c' Hc Hc'),
              (end_vs_start c c' Hc Hc'), (style_vs_style c c' Hc Hc'), (style_vs_start c c' Hc Hc').
      cbn [orb]. split; intros H'; [|discriminate].
      split; [exact H'|]. rewrite H'. apply orb_true_r.
    + span4 Hc; split; intros H'; vm_compute in H'; discriminate.
    + span4 Hc; split; intros H'; vm_compute in H'; discriminate.
  - intros c' Hc'. pose proof (single_style c' Hc').
    rewrite anyb_lor by assumption.
    rewrite (style_vs_style c c' Hc Hc'), (style_vs_start c c' Hc Hc'), orb_false_r. cbn [negb].
    rewrite andb_true_r, (pre_ok_spans d c' P Hc'), in_bytes_cons. apply orb_comm.
  - constructor; [exact Hn|apply (ok_nodup d (po_ok d P))].
  - intros x [<-|Hx]; [exact Hc|apply (ok_chars d (po_ok d P)), Hx].
Qed.

Lemma pop_ok d c st : pre_ok d -> l_stack d = c :: st -> lv_ok (pop_lv d c).
Proof.
  intros P S. pose proof (po_ok d P) as O.
  assert (Hc : In c span_chars) by (apply (ok_chars d O); rewrite S; left; reflexivity).
  assert (Nd : NoDup (c :: st)) by (rewrite <- S; apply (ok_nodup d O)).
  inversion Nd as [|? ? Hnin Nd']; subst.
  unfold pop_lv. rewrite S. cbn [tl]. apply lv_ok_add; [exact P| | |exact Nd'|].
  - apply triple_cases; cbn [fst snd].
    + intros c' Hc'. pose proof (single_style c' Hc'). pose proof (single_start c' Hc'). pose proof (single_end c' Hc').
      rewrite !anyb_lor by assumption.
      rewrite (start_vs_end c c' Hc Hc'), (end_vs_end c c' Hc Hc'), (style_vs_end c c' Hc Hc'),
              (start_vs_style c c' Hc Hc'), (end_vs_style c c' Hc Hc').
      cbn [orb]. rewrite !orb_false_r. split; intros H'; [discriminate|].
      split; [exact H'|]. apply byte_eqb_eq in H'. subst c'.
      rewrite (pre_ok_spans d c P Hc), S. apply in_bytes_true. left; reflexivity.
    + span4 Hc; split; intros H'; vm_compute in H'; discriminate.
    + span4 Hc; split; intros H'; vm_compute in H'; discriminate.
  - intros c' Hc'. pose proof (single_style c' Hc').
    rewrite anyb_lor by assumption.
    rewrite (style_vs_end c c' Hc Hc'), (style_vs_style c c' Hc Hc'), !orb_false_r.
    rewrite (pre_ok_spans d c' P Hc'), S, in_bytes_cons.
    destruct (byte_eqb c' c) eqn:E; cbn [orb negb andb].
    + apply byte_eqb_eq in E. subst c'. symmetry. apply in_bytes_false, Hnin.
    + apply andb_true_r.
  - intros x Hx. apply (ok_chars d O). rewrite S. right. exact Hx.
Qed.

Lemma pre_start_ok d : pre_ok d -> lv_ok (pre_start d).
Proof.
  intros P. unfold pre_start. rewrite <- add_mask_set_stack_same.
  apply lv_ok_add; [exact P| | |apply (ok_nodup d (po_ok d P))|apply (ok_chars d (po_ok d P))].
  - apply triple_cases; cbn [fst snd].
    + intros c Hc. span4 Hc; split; intros H'; vm_compute in H'; discriminate.
    + split; intros H'; [|vm_compute in H'; discriminate].
      split; [reflexivity|]. rewrite anyb_lor by apply single_BlockPre. apply orb_true_r.
    + split; intros H'; vm_compute in H'; discriminate.
  - intros c Hc. rewrite (pre_ok_spans d c P Hc).
    assert (E1 : anyb (N.lor sBlockPre sBlockPreStart) (sk_style c) = false) by (span4 Hc; reflexivity).
    assert (E2 : anyb sBlockPreStart (sk_style c) = false) by (span4 Hc; reflexivity).
    rewrite E1, E2, orb_false_r. apply andb_true_r.
Qed.

Lemma pre_end_ok d : pre_ok d -> anyb (l_mask d) sBlockPre = true ->
  lv_ok (add_mask d sBlockPreEnd (N.lor sBlockPre sBlockPreEnd)).
Proof.
  intros P Hbp. rewrite <- add_mask_set_stack_same.
  apply lv_ok_add; [exact P| | |apply (ok_nodup d (po_ok d P))|apply (ok_chars d (po_ok d P))].
  - apply triple_cases; cbn [fst snd].
    + intros c Hc. span4 Hc; split; intros H'; vm_compute in H'; discriminate.
    + split; intros H'; [vm_compute in H'; discriminate|].
      split; [reflexivity|]. rewrite anyb_lor by apply single_BlockPre. rewrite Hbp. reflexivity.
    + split; intros H'; vm_compute in H'; discriminate.
  - intros c Hc. rewrite (pre_ok_spans d c P Hc).
    assert (E1 : anyb sBlockPreEnd (sk_style c) = false) by (span4 Hc; reflexivity).
    assert (E2 : anyb (N.lor sBlockPre sBlockPreEnd) (sk_style c) = false) by (span4 Hc; reflexivity).
    rewrite E1, E2, orb_false_r. apply andb_true_r.
Qed.

Lemma quote_start_ok d : pre_ok d -> lv_ok (quote_start d).
Proof.
  intros P. unfold quote_start.
  apply lv_ok_flags with (d := add_mask d (N.lor sBlockQuote sBlockQuoteStart) sBlockQuoteStart); try reflexivity.
  rewrite <- add_mask_set_stack_same.
  apply lv_ok_add; [exact P| | |apply (ok_nodup d (po_ok d P))|apply (ok_chars d (po_ok d P))].
  - apply triple_cases; cbn [fst snd].
    + intros c Hc. span4 Hc; split; intros H'; vm_compute in H'; discriminate.
    + split; intros H'; vm_compute in H'; discriminate.
    + split; intros H'; [|vm_compute in H'; discriminate].
      split; [reflexivity|]. rewrite anyb_lor by apply single_BlockQuote. apply orb_true_r.
  - intros c Hc. rewrite (pre_ok_spans d c P Hc).
    assert (E1 : anyb (N.lor sBlockQuote sBlockQuoteStart) (sk_style c) = false) by (span4 Hc; reflexivity).
    assert (E2 : anyb sBlockQuoteStart (sk_style c) = false) by (span4 Hc; reflexivity).
    rewrite E1, E2, orb_false_r. apply andb_true_r.
Qed.

Lemma pre_ok_lv d : pre_ok d -> lv_ok d.
Proof. apply po_ok. Qed.

(* ------------------------------------------------------------------ bstep from bit facts *)

Lemma filter_none (f : byte -> bool) :
  (forall c, In c span_chars -> f c = false) -> filter f span_chars = [].
Proof.
  intros H. unfold span_chars. cbn [filter].
  rewrite !H by (cbn; tauto). reflexivity.
Qed.

Lemma filter_one (f : byte -> bool) c : In c span_chars ->
  (forall c', In c' span_chars -> f c' = byte_eqb c' c) -> filter f span_chars = [c].
Proof.
  intros Hc H. unfold span_chars. cbn [filter].
  rewrite !H by (cbn; tauto). span4 Hc; reflexivity.
Qed.

Lemma spans_match_spec m st :
  (forall c, In c span_chars -> anyb m (sk_style c) = in_bytes c st) -> spans_match m st = true.
Proof.
  intros H. unfold spans_match. apply forallb_forall. intros c Hc. rewrite (H c Hc). apply eqb_reflx.
Qed.

Lemma any_start_false m : nodir m -> any_start m = false.
Proof.
  intros H. unfold any_start. destruct (existsb _ dir_triples) eqn:E; [|reflexivity].
  apply existsb_exists in E. destruct E as [[[s a] e] [Hk Ha]]. destruct (H _ Hk) as [A _].
  cbn [fst snd] in A. congruence.
Qed.

Lemma bstep_plain st m t :
  dir_implies_style m = true -> (st = [] \/ has_nl t = false) ->
  (In c_tick st -> any_start m = false) ->
  (forall c, In c span_chars ->
     anyb m (sk_start c) = false /\ anyb m (sk_end c) = false /\ anyb m (sk_style c) = in_bytes c st) ->
  bstep st m t = Some st.
Proof.
  intros H1 H2 H3 H4. unfold bstep. rewrite H1.
  assert (E2 : is_nil st || negb (has_nl t) = true).
  { destruct H2 as [ -> | -> ]; [reflexivity|apply orb_true_r]. }
  assert (E3 : negb (in_bytes c_tick st) || negb (any_start m) = true).
  { destruct (in_bytes c_tick st) eqn:I; [|reflexivity]. apply in_bytes_In in I. rewrite (H3 I). reflexivity. }
  rewrite E2, E3. cbn [andb].
  rewrite (filter_none (fun c => anyb m (sk_start c))) by (intros c Hc; apply (H4 c Hc)).
  rewrite (filter_none (fun c => anyb m (sk_end c))) by (intros c Hc; apply (H4 c Hc)).
  rewrite spans_match_spec by (intros c Hc; apply (H4 c Hc)). reflexivity.
Qed.

Lemma bstep_push st m t c :
  In c span_chars -> ~ In c st -> ~ In c_tick st ->
  dir_implies_style m = true -> (st = [] \/ has_nl t = false) ->
  (forall c', In c' span_chars ->
     anyb m (sk_start c') = byte_eqb c' c /\ anyb m (sk_end c') = false /\
     anyb m (sk_style c') = in_bytes c' (c :: st)) ->
  bstep st m t = Some (c :: st).
Proof.
  intros Hc Hn Ht H1 H2 H4. unfold bstep. rewrite H1.
  assert (E2 : is_nil st || negb (has_nl t) = true).
  { destruct H2 as [ -> | -> ]; [reflexivity|apply orb_true_r]. }
  rewrite E2, (in_bytes_false _ _ Ht). cbn [andb negb orb].
  rewrite (filter_one (fun c' => anyb m (sk_start c')) c Hc) by (intros c' Hc'; apply (H4 c' Hc')).
  rewrite (filter_none (fun c' => anyb m (sk_end c'))) by (intros c' Hc'; apply (H4 c' Hc')).
  rewrite (in_bytes_false _ _ Hn). cbn [negb andb].
  rewrite spans_match_spec by (intros c' Hc'; apply (H4 c' Hc')). reflexivity.
Qed.

Lemma bstep_pop st' m t c :
  In c span_chars ->
  dir_implies_style m = true -> has_nl t = false ->
  (In c_tick (c :: st') -> any_start m = false) ->
  (forall c', In c' span_chars ->
     anyb m (sk_start c') = false /\ anyb m (sk_end c') = byte_eqb c' c /\
     anyb m (sk_style c') = in_bytes c' (c :: st')) ->
  bstep (c :: st') m t = Some st'.
Proof.
  intros Hc H1 H2 H3 H4. unfold bstep. rewrite H1, H2. cbn [is_nil negb orb andb].
  assert (E3 : negb (in_bytes c_tick (c :: st')) || negb (any_start m) = true).
  { destruct (in_bytes c_tick (c :: st')) eqn:I; [|reflexivity]. apply in_bytes_In in I. rewrite (H3 I). reflexivity. }
  rewrite E3.
  rewrite (filter_none (fun c' => anyb m (sk_start c'))) by (intros c' Hc'; apply (H4 c' Hc')).
  rewrite (filter_one (fun c' => anyb m (sk_end c')) c Hc) by (intros c' Hc'; apply (H4 c' Hc')).
  rewrite byte_eqb_refl. cbn [andb].
  rewrite spans_match_spec by (intros c' Hc'; apply (H4 c' Hc')). reflexivity.
Qed.

Lemma existsb_ext_in' {A} (f g : A -> bool) l :
  (forall a, In a l -> f a = g a) -> existsb f l = existsb g l.
Proof.
  induction l as [|x l IH]; intros H; [reflexivity|]. cbn.
  rewrite (H x (or_introl eq_refl)), IH; [reflexivity|]. intros a Ha. apply H. right. exact Ha.
Qed.

Lemma forallb_ext_in' {A} (f g : A -> bool) l :
  (forall a, In a l -> f a = g a) -> forallb f l = forallb g l.
Proof.
  induction l as [|x l IH]; intros H; [reflexivity|]. cbn.
  rewrite (H x (or_introl eq_refl)), IH; [reflexivity|]. intros a Ha. apply H. right. exact Ha.
Qed.

(* OR-ing the mask of an enclosing quote level (no directive bits, no span
   style bits) does not change the verdict *)
Lemma bstep_lor st md ms t st' :
  nodir md -> (forall c, In c span_chars -> anyb md (sk_style c) = false) ->
  bstep st ms t = Some st' -> bstep st (N.lor md ms) t = Some st'.
Proof.
  intros ND NS. unfold bstep.
  destruct (dir_implies_style ms) eqn:D; [|discriminate].
  rewrite (dir_implies_lor md ms (nodir_implies md ND) D).
  assert (EA : any_start (N.lor md ms) = any_start ms).
  { unfold any_start. apply existsb_ext_in'. intros [[s a] e] Hk.
    destruct (triple_single _ Hk) as [_ [Sa _]]. destruct (ND _ Hk) as [A _]. cbn [fst snd] in *.
    rewrite anyb_lor by exact Sa. rewrite A. reflexivity. }
  rewrite EA.
  assert (F1 : filter (fun c => anyb (N.lor md ms) (sk_start c)) span_chars = filter (fun c => anyb ms (sk_start c)) span_chars).
  { apply filter_ext_in. intros c Hc. destruct (ND _ (span_triple_in c Hc)) as [A _]. cbn [fst snd] in A.
    rewrite anyb_lor by (apply single_start, Hc). rewrite A. reflexivity. }
  assert (F2 : filter (fun c => anyb (N.lor md ms) (sk_end c)) span_chars = filter (fun c => anyb ms (sk_end c)) span_chars).
  { apply filter_ext_in. intros c Hc. destruct (ND _ (span_triple_in c Hc)) as [_ E]. cbn [fst snd] in E.
    rewrite anyb_lor by (apply single_end, Hc). rewrite E. reflexivity. }
  rewrite F1, F2.
  assert (SM : forall s, spans_match (N.lor md ms) s = spans_match ms s).
  { intros s. unfold spans_match. apply forallb_ext_in'. intros c Hc.
    rewrite anyb_lor by (apply single_style, Hc). rewrite (NS c Hc). reflexivity. }
  destruct (filter (fun c => anyb ms (sk_start c)) span_chars) as [|c1 [|c2 l1]];
    destruct (filter (fun c => anyb ms (sk_end c)) span_chars) as [|e1 [|e2 l2]];
    destruct st as [|top st0]; rewrite ?SM; exact (fun H => H).
Qed.
