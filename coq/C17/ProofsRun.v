(* C17/ProofsRun.v — the bufio.Scanner driver and Decoder.Next against the
   chunk-free reading: every token a chunked run returns is the token the split
   function returns on all remaining input at EOF; termination, no panic,
   losslessness, and equality of chunked runs with the reference run. *)
From Coq Require Import ZifyBool ZifyNat ZifyN.
From XV Require Import lib.Bytes gen.Styling C17.Model C17.ProofsScan.

(* ------------------------------------------------------------------ scan_next *)

Definition eqv (ds ds0 : dec) (buf : bytes) : Prop :=
  forall e b, buf ++ e <> [] -> scan ds (buf ++ e) b = scan ds0 (buf ++ e) b.

Definition sim (lim : nat) (s : sc) (ds0 : dec) (r : bytes) : Prop :=
  r = s_buf s ++ s_rest s /\ (s_eof s = true -> s_rest s = []) /\ length (s_buf s) <= lim /\
  wf ds0 /\ wf (s_ds s) /\ eqv (s_ds s) ds0 (s_buf s).

Definition need (s : sc) : nat := if s_eof s then 1 else length (s_rest s) + 2.

Lemma eqv_refl ds buf : eqv ds ds buf.
Proof. intros e b _. reflexivity. Qed.

Lemma eqv_grow ds ds0 buf c : eqv ds ds0 buf -> eqv ds ds0 (buf ++ c).
Proof. intros H e b Hne. rewrite <- !app_assoc in *. apply H. exact Hne. Qed.

Lemma firstn_app_le {A} (l e : list A) n : n <= length l -> firstn n (l ++ e) = firstn n l.
Proof. intros H. rewrite firstn_app. replace (n - length l) with 0 by lia. cbn. apply app_nil_r. Qed.

Lemma skipn_app_le {A} (l e : list A) n : n <= length l -> skipn n (l ++ e) = skipn n l ++ e.
Proof. intros H. rewrite skipn_app. replace (n - length l) with 0 by lia. reflexivity. Qed.

Lemma read_size_pos lim s : length (s_buf s) < lim -> s_rest s <> [] ->
  1 <= read_size lim s /\ read_size lim s <= length (s_rest s) /\
  length (s_buf s) + read_size lim s <= lim.
Proof.
  intros Hb Hr. unfold read_size.
  assert (1 <= length (s_rest s)) by (destruct (s_rest s); [congruence|cbn; lia]).
  destruct (s_reads s); lia.
Qed.

Lemma scan_next_spec lim : 1 <= lim -> forall fuel s ds0 r,
  sim lim s ds0 r -> need s <= fuel ->
  match scan_next lim fuel s with
  | RTok t s' =>
      exists adv ds', scan ds0 r true = STok adv ds' /\ t = firstn adv r /\
                      sim lim s' ds' (skipn adv r) /\ s_ds s' = ds' /\
                      length (s_rest s') <= length (s_rest s)
  | REnd _ => r = []
  | RTooLong => ref_scan lim ds0 r = FTooLong
  | RPanic | RFuel => False
  end.
Proof.
  intros Hlim. induction fuel as [|f IH]; intros s ds0 r S F.
  { unfold need in F. destruct (s_eof s); lia. }
  destruct s as [ds buf rest eof reads deof].
  destruct S as [Hr [He [Hb [W0 [W E]]]]]. cbn [s_buf s_rest s_eof s_ds] in *.
  unfold need in F. cbn [s_eof s_rest] in F.
  cbn [scan_next s_buf s_rest s_eof s_ds s_reads s_deof].
  destruct buf as [|c0 buf0] eqn:Eb.
  - (* empty buffer *)
    cbn [is_nil negb orb].
    destruct eof.
    + (* EOF seen: split gets (nil, true) *)
      destruct ds as [|d inner]; [destruct W|].
      cbn [scan andb is_nil]. rewrite (He eq_refl) in Hr. exact Hr.
    + replace (lim <=? length (@nil byte)) with false by (cbn; lia).
      destruct rest as [|c1 rest1] eqn:Er.
      * (* reader reports EOF *)
        specialize (IH (mksc ds [] [] true (tl reads) deof) ds0 r).
        assert (S' : sim lim (mksc ds [] [] true (tl reads) deof) ds0 r).
        { repeat split; cbn; auto; lia. }
        specialize (IH S' ltac:(unfold need; cbn; lia)).
        destruct (scan_next lim f (mksc ds [] [] true (tl reads) deof)) as [t s'|s'| | |]; auto.
        all: try solve [destruct IH as [adv [ds' [H1 [H2 [H3 [H4 H5]]]]]]; exists adv, ds'; (split; [exact H1|]); (split; [exact H2|]); (split; [exact H3|]); (split; [exact H4|]); exact H5].
      * set (s0 := mksc ds [] (c1 :: rest1) false reads deof).
        destruct (read_size_pos lim s0 ltac:(cbn; lia) ltac:(cbn; congruence)) as [R1 [R2 R3]].
        set (n := read_size lim s0) in *. unfold s0 in R2, R3. cbn [s_buf s_rest app length] in *.
        set (s1 := mksc ds (firstn n (c1 :: rest1)) (skipn n (c1 :: rest1))
                        (is_nil (skipn n (c1 :: rest1)) && deof) (tl reads) deof).
        assert (S' : sim lim s1 ds0 r).
        { unfold s1. repeat split; cbn [s_buf s_rest s_eof s_ds].
          - rewrite firstn_skipn. exact Hr.
          - intros H. apply andb_true_iff in H. destruct H as [H _].
            destruct (skipn n (c1 :: rest1)); [reflexivity|discriminate].
          - rewrite firstn_length. cbn [length]. lia.
          - exact W0.
          - exact W.
          - replace (firstn n (c1 :: rest1)) with ([] ++ firstn n (c1 :: rest1)) by reflexivity.
            apply eqv_grow, E. }
        specialize (IH s1 ds0 r S').
        assert (F' : need s1 <= f).
        { unfold need, s1. cbn [s_eof s_rest]. rewrite skipn_length. cbn [length] in *.
          destruct (is_nil (skipn n (c1 :: rest1)) && deof); lia. }
        specialize (IH F').
        destruct (scan_next lim f s1) as [t s'|s'| | |]; auto.
        all: try solve [destruct IH as [adv [ds' [H1 [H2 [H3 [H4 H5]]]]]]; exists adv, ds'; (split; [exact H1|]); (split; [exact H2|]); (split; [exact H3|]); (split; [exact H4|]);
          unfold s1 in H5; cbn [s_rest] in H5; rewrite skipn_length in H5; cbn [length] in *; lia].
  - (* data in the buffer *)
    rewrite <- Eb in *. assert (Hne : buf <> []) by (rewrite Eb; congruence).
    replace (negb (is_nil buf) || eof) with true by (rewrite Eb; reflexivity).
    pose proof (E [] eof ltac:(rewrite app_nil_r; exact Hne)) as E0. rewrite app_nil_r in E0.
    destruct (scan ds buf eof) as [ds1|adv ds'|] eqn:R.
    + (* more data wanted *)
      destruct eof.
      { exfalso. exact (scan_eof_tok _ _ _ Hne R). }
      pose proof (scan_more_wf _ _ _ _ W R) as W1.
      assert (E1 : eqv ds1 ds0 buf).
      { intros e b Hx. rewrite (scan_more_idem _ _ _ R Hne e b). apply E, Hx. }
      destruct (lim <=? length buf) eqn:TL.
      { apply Nat.leb_le in TL. unfold ref_scan. rewrite Hr.
        destruct (buf ++ rest) eqn:Ebr; [destruct buf; [congruence|discriminate]|]. rewrite <- Ebr.
        replace (lim <=? length (buf ++ rest)) with true by (rewrite app_length; lia).
        rewrite firstn_app_le by lia.
        replace lim with (length buf) by lia. rewrite firstn_all, <- E0. reflexivity. }
      apply Nat.leb_gt in TL.
      destruct rest as [|c1 rest1] eqn:Er.
      * specialize (IH (mksc ds1 buf [] true (tl reads) deof) ds0 r).
        assert (S' : sim lim (mksc ds1 buf [] true (tl reads) deof) ds0 r).
        { repeat split; cbn [s_buf s_rest s_eof s_ds]; auto. }
        specialize (IH S' ltac:(unfold need; cbn; lia)).
        destruct (scan_next lim f (mksc ds1 buf [] true (tl reads) deof)) as [t s'|s'| | |]; auto.
        all: try solve [destruct IH as [adv [ds' [H1 [H2 [H3 [H4 H5]]]]]]; exists adv, ds'; (split; [exact H1|]); (split; [exact H2|]); (split; [exact H3|]); (split; [exact H4|]); exact H5].
      * rewrite <- Er in *. assert (Hrne : rest <> []) by (rewrite Er; congruence).
        set (s0 := mksc ds buf rest false reads deof).
        destruct (read_size_pos lim s0 ltac:(cbn; lia) ltac:(cbn; exact Hrne)) as [R1 [R2 R3]].
        set (n := read_size lim s0) in *. unfold s0 in R2, R3. cbn [s_buf s_rest] in *.
        set (s1 := mksc ds1 (buf ++ firstn n rest) (skipn n rest)
                        (is_nil (skipn n rest) && deof) (tl reads) deof).
        assert (S' : sim lim s1 ds0 r).
        { unfold s1. repeat split; cbn [s_buf s_rest s_eof s_ds].
          - rewrite <- app_assoc, firstn_skipn. exact Hr.
          - intros H. apply andb_true_iff in H. destruct H as [H _].
            destruct (skipn n rest); [reflexivity|discriminate].
          - rewrite app_length, firstn_length. lia.
          - exact W0.
          - exact W1.
          - apply eqv_grow, E1. }
        specialize (IH s1 ds0 r S').
        assert (F' : need s1 <= f).
        { unfold need, s1. cbn [s_eof s_rest]. rewrite skipn_length.
          destruct (is_nil (skipn n rest) && deof); lia. }
        specialize (IH F').
        destruct (scan_next lim f s1) as [t s'|s'| | |]; auto.
        all: try solve [destruct IH as [adv [ds' [H1 [H2 [H3 [H4 H5]]]]]]; exists adv, ds'; (split; [exact H1|]); (split; [exact H2|]); (split; [exact H3|]); (split; [exact H4|]);
          unfold s1 in H5; cbn [s_rest] in H5; rewrite skipn_length in H5; lia].
    + (* a token *)
      symmetry in E0. clear R. rename E0 into R.
      pose proof (scan_bounds _ _ _ _ _ R) as [A1 A2].
      assert (Rfull : scan ds0 r true = STok adv ds').
      { rewrite Hr. destruct eof.
        - rewrite (He eq_refl), app_nil_r. exact R.
        - apply scan_ext, R. }
      exists adv, ds'. split; [exact Rfull|].
      split; [rewrite Hr; symmetry; apply firstn_app_le, A2|].
      split; [|split; [reflexivity|cbn [s_rest]; lia]].
      unfold sim. cbn [s_buf s_rest s_eof s_ds].
      split; [rewrite Hr; apply skipn_app_le, A2|]. split; [exact He|].
      split; [rewrite skipn_length; lia|].
      assert (W' : wf ds') by (eapply scan_tok_wf; [exact W0|exact R]).
      split; [exact W'|]. split; [exact W'|apply eqv_refl].
    + exfalso. symmetry in E0. exact (scan_no_panic _ _ _ W0 E0).
Qed.

(* when the limit does not interfere, the driver returns what the reference does *)
Lemma ref_scan_cases lim ds0 r : wf ds0 ->
  match ref_scan lim ds0 r with
  | FTok adv ds' => r <> [] /\ scan ds0 r true = STok adv ds'
  | FEnd => r = []
  | FTooLong => r <> []
  | FPanic => False
  end.
Proof.
  intros W. unfold ref_scan. destruct r as [|c t] eqn:Er; [reflexivity|]. rewrite <- Er.
  assert (Hne : r <> []) by (rewrite Er; congruence).
  match goal with |- context [if ?c then FTooLong else _] => destruct c end; [exact Hne|].
  destruct (scan ds0 r true) eqn:R.
  - exfalso. exact (scan_eof_tok _ _ _ Hne R).
  - auto.
  - exact (scan_no_panic _ _ _ W R).
Qed.

(* ------------------------------------------------------------------ the ideal token sequence *)

(* [trace ds ins last r os e]: a Decoder whose chain is [ds], with the virtual
   quote end pending or not, last scanned token [last] and all of [r] still to
   read, shows the observations [os] and stops with [e], when every token is
   delimited on all remaining input.  ErrTooLong may cut the sequence anywhere
   in front of a token. *)
Inductive trace : dec -> bool -> bytes -> bytes -> list obs -> endst -> Prop :=
| tr_eof ds last : trace ds false last [] [] EEOF
| tr_too_long ds last r : r <> [] -> trace ds false last r [] ETooLong
| tr_ins ds last r q os e :
    quote_chain ds = Some q -> trace ds false last r os e ->
    trace ds true last r (mkobs last [] (style_chain ds) q :: os) e
| tr_tok ds last r adv ds' prev curr os e :
    quote_chain ds = Some prev -> scan ds r true = STok adv ds' ->
    quote_chain ds' = Some curr -> (curr <? prev) = false ->
    trace ds' false (firstn adv r) (skipn adv r) os e ->
    trace ds false last r
          (mkobs (firstn adv r) (info_of (style_chain ds') (firstn adv r)) (style_chain ds') curr :: os) e
| tr_drop ds last r adv ds' prev curr os e :
    quote_chain ds = Some prev -> scan ds r true = STok adv ds' ->
    quote_chain ds' = Some curr -> (curr <? prev) = true ->
    trace ds' true (firstn adv r) (skipn adv r) os e ->
    trace ds false last r (mkobs [] [] bq_end_style (S curr) :: os) e.

Definition dsim (lim : nat) (st : dst) (ds : dec) (ins : bool) (last r : bytes) : Prop :=
  sim lim (d_sc st) ds r /\ s_ds (d_sc st) = ds /\ d_insert st = ins /\ d_last st = last.

(* measure: tokens still to come *)
Definition todo (ins : bool) (r : bytes) : nat := 2 * length r + (if ins then 1 else 0).

Lemma run_trace lim : 1 <= lim -> forall fuel sfuel st ds ins last r os e,
  dsim lim st ds ins last r ->
  length (s_rest (d_sc st)) + 2 <= sfuel -> todo ins r < fuel ->
  run lim fuel sfuel st = (os, e) -> trace ds ins last r os e.
Proof.
  intros Hlim. induction fuel as [|f IH]; intros sfuel st ds ins last r os e D SF F H; [lia|].
  destruct D as [S [Eds [Eins Elast]]].
  cbn [run] in H. unfold next in H. rewrite Eins, Eds, Elast in H.
  assert (W : wf ds) by (destruct S as [_ [_ [_ [W0 _]]]]; exact W0).
  destruct (quote_chain_wf _ W) as [q Hq]. rewrite Hq in H.
  destruct ins.
  - (* the scanned token after a virtual quote end *)
    destruct (run lim f sfuel (mkdst (d_sc st) false last)) as [os' e'] eqn:R.
    inversion H; subst. apply tr_ins; [exact Hq|].
    eapply IH; [| |  |exact R].
    + split; [exact S|cbn [d_sc d_insert d_last]; auto].
    + exact SF.
    + unfold todo in *. lia.
  - pose proof (scan_next_spec lim Hlim sfuel (d_sc st) ds r S) as N.
    assert (NF : need (d_sc st) <= sfuel) by (unfold need; destruct (s_eof (d_sc st)); lia).
    specialize (N NF).
    destruct (scan_next lim sfuel (d_sc st)) as [t s'|s'| | |].
    + destruct N as [adv [ds' [R1 [R2 [S' [Eds' Hrest]]]]]].
      pose proof (scan_bounds _ _ _ _ _ R1) as [A1 A2].
      unfold deliver in H. rewrite Eds' in H.
      assert (W' : wf ds') by (destruct S' as [_ [_ [_ [W0 _]]]]; exact W0).
      destruct (quote_chain_wf _ W') as [curr Hc]. rewrite Hc in H.
      destruct (curr <? q) eqn:Drop.
      * destruct (run lim f sfuel (mkdst s' true t)) as [os' e'] eqn:R.
        inversion H; subst. eapply tr_drop; eauto.
        eapply IH; [| | |exact R].
        -- split; [exact S'|cbn [d_sc d_insert d_last]; auto].
        -- cbn [d_sc]. lia.
        -- unfold todo in *. rewrite skipn_length. lia.
      * destruct (run lim f sfuel (mkdst s' false t)) as [os' e'] eqn:R.
        inversion H; subst. eapply tr_tok; eauto.
        eapply IH; [| | |exact R].
        -- split; [exact S'|cbn [d_sc d_insert d_last]; auto].
        -- cbn [d_sc]. lia.
        -- unfold todo in *. rewrite skipn_length. lia.
    + inversion H; subst. apply tr_eof.
    + inversion H; subst. apply tr_too_long.
      pose proof (ref_scan_cases lim _ r W) as C. rewrite N in C. exact C.
    + destruct N.
    + destruct N.
Qed.

Lemma init_dsim lim input reads deof : dsim lim (init input reads deof) dec0 false [] input.
Proof.
  unfold init, dsim, sim. cbn [d_sc d_insert d_last s_buf s_rest s_eof s_ds app length].
  repeat split; auto; try lia; try discriminate; try apply wf_dec0; try apply eqv_refl.
Qed.

Theorem decode_trace lim input reads deof os e : 1 <= lim ->
  decode_lim lim input reads deof = (os, e) -> trace dec0 false [] input os e.
Proof.
  intros Hlim H. unfold decode_lim in H.
  eapply run_trace; [exact Hlim|apply init_dsim| | |exact H].
  - cbn. lia.
  - unfold todo. lia.
Qed.

(* ------------------------------------------------------------------ consequences of a trace *)

Lemma trace_end ds ins last r os e : trace ds ins last r os e -> e = EEOF \/ e = ETooLong.
Proof. induction 1; auto. Qed.

Lemma trace_lossless ds ins last r os e : trace ds ins last r os e ->
  exists tail, (if ins then last else []) ++ r = flat_map o_data os ++ tail /\
               (e = EEOF -> tail = []).
Proof.
  induction 1.
  - exists []. auto.
  - exists r. split; [reflexivity|discriminate].
  - destruct IHtrace as [tail [E1 E2]]. exists tail. cbn [flat_map o_data app] in *.
    rewrite <- app_assoc, <- E1. auto.
  - destruct IHtrace as [tail [E1 E2]]. exists tail. cbn [flat_map o_data app] in *.
    rewrite <- app_assoc, <- E1, firstn_skipn. auto.
  - destruct IHtrace as [tail [E1 E2]]. exists tail. cbn [flat_map o_data app] in *.
    rewrite <- E1, firstn_skipn. auto.
Qed.

(* ------------------------------------------------------------------ chunked run = reference run *)

Lemma run_ref lim : 1 <= lim -> forall fuel sfuel st ds ins last r,
  dsim lim st ds ins last r ->
  length (s_rest (d_sc st)) + 2 <= sfuel ->
  snd (ref_run lim fuel ds ins last r) <> ETooLong ->
  run lim fuel sfuel st = ref_run lim fuel ds ins last r.
Proof.
  intros Hlim. induction fuel as [|f IH]; intros sfuel st ds ins last r D SF NT; [reflexivity|].
  destruct D as [S [Eds [Eins Elast]]].
  cbn [run ref_run] in *. unfold next, ref_next in *. rewrite Eins, Eds, Elast.
  assert (W : wf ds) by (destruct S as [_ [_ [_ [W0 _]]]]; exact W0).
  destruct (quote_chain_wf _ W) as [q Hq]. rewrite Hq in *.
  destruct ins.
  - rewrite (IH sfuel (mkdst (d_sc st) false last) ds false last r); [reflexivity| |exact SF|].
    + split; [exact S|cbn [d_sc d_insert d_last]; auto].
    + destruct (ref_run lim f ds false last r); exact NT.
  - pose proof (scan_next_spec lim Hlim sfuel (d_sc st) ds r S) as N.
    assert (NF : need (d_sc st) <= sfuel) by (unfold need; destruct (s_eof (d_sc st)); lia).
    specialize (N NF).
    pose proof (ref_scan_cases lim ds r W) as C.
    destruct (ref_scan lim ds r) as [adv ds'| | |] eqn:RS.
    + destruct C as [Hne C].
      destruct (scan_next lim sfuel (d_sc st)) as [t s'|s'| | |].
      * destruct N as [adv' [ds'' [R1 [R2 [S' [Eds' Hrest]]]]]].
        rewrite C in R1. injection R1 as Ea Ed. rewrite <- Ea in *. rewrite <- Ed in *. clear Ea Ed.
        unfold deliver. rewrite Eds'.
        assert (W' : wf ds') by (destruct S' as [_ [_ [_ [W0 _]]]]; exact W0).
        destruct (quote_chain_wf _ W') as [curr Hc]. rewrite Hc in *.
        destruct (curr <? q).
        -- rewrite (IH sfuel (mkdst s' true t) ds' true t (skipn adv r)); [subst t; reflexivity| | |].
           ++ split; [exact S'|cbn [d_sc d_insert d_last]; auto].
           ++ cbn [d_sc]. lia.
           ++ subst t. destruct (ref_run lim f ds' true (firstn adv r) (skipn adv r)); exact NT.
        -- rewrite (IH sfuel (mkdst s' false t) ds' false t (skipn adv r)); [subst t; reflexivity| | |].
           ++ split; [exact S'|cbn [d_sc d_insert d_last]; auto].
           ++ cbn [d_sc]. lia.
           ++ subst t. destruct (ref_run lim f ds' false (firstn adv r) (skipn adv r)); exact NT.
      * congruence.
      * discriminate N.
      * destruct N.
      * destruct N.
    + destruct (scan_next lim sfuel (d_sc st)) as [t s'|s'| | |].
      * destruct N as [adv' [ds'' [R1 _]]]. subst r.
        pose proof (scan_bounds _ _ _ _ _ R1). cbn in *. lia.
      * reflexivity.
      * discriminate N.
      * destruct N.
      * destruct N.
    + cbn in NT. congruence.
    + destruct C.
Qed.

Theorem decode_ref lim input reads deof : 1 <= lim ->
  snd (ref_decode_lim lim input) <> ETooLong ->
  decode_lim lim input reads deof = ref_decode_lim lim input.
Proof.
  intros Hlim NT. unfold decode_lim, ref_decode_lim in *.
  apply run_ref; [exact Hlim|apply init_dsim| |exact NT].
  cbn. lia.
Qed.

Lemma limit_pos : 1 <= limit.
Proof. unfold limit. lia. Qed.
