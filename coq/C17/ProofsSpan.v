(* C17/ProofsSpan.v — what one call of scanSpan on all remaining input does to
   the span stack: characterisation of the loop's result, and preservation of
   the "every open span is closed before the line ends" invariant [closes]. *)
From Coq Require Import ZifyBool ZifyNat ZifyN.
From XV Require Import lib.Bytes gen.Styling C17.Model C17.ProofsScan C17.ProofsBits.

Definition pop_lv (d : level) (c : byte) : level :=
  set_stack (add_mask d (sk_end c) (N.lor (sk_style c) (sk_end c))) (tl (l_stack d)).
Definition push_lv (d : level) (c : byte) : level :=
  set_stack (add_mask d (N.lor (sk_style c) (sk_start c)) (sk_start c)) (c :: l_stack d).

Definition quiet (d : level) (x : byte) : Prop := is_nl x = false /\ top_is d x = false.

Lemma directive_not_x00 b : is_directive b = true -> byte_eqb b x00 = false.
Proof. destruct b; cbn; intros H; try discriminate; reflexivity. Qed.

Lemma top_is_directive d b :
  (forall x, In x (l_stack d) -> is_directive x = true) -> top_is d b = true -> is_directive b = true.
Proof.
  unfold top_is. destruct (l_stack d) as [|t s]; [discriminate|].
  intros H E. apply byte_eqb_eq in E. subst. apply H. left; reflexivity.
Qed.

(* The result of the loop: it commits at the first byte [c] (at index J) that is
   a newline, the end directive of the innermost open span, or the end of a
   span whose start was seen before; nothing before J is a newline or that end
   directive. *)
Lemma span_loop_char d :
  (forall x, In x (l_stack d) -> is_directive x = true) ->
  forall rest pr i st sd n d',
  length pr = i ->
  match st with
  | None => sd = x00
  | Some s => s < i /\ (N.land (l_mask d) sSpanPre =? 0)%N = true
  end ->
  span_loop d pr rest i st sd = Some (LTok n d') ->
  exists rpre c post, rest = rpre ++ c :: post /\ (forall x, In x rpre -> quiet d x) /\
    let J := i + length rpre in
    ( (is_nl c = true /\ n = S J /\ d' = d)
    \/ (is_nl c = false /\ top_is d c = true /\ J = 0 /\ n = 1 /\ d' = pop_lv d c)
    \/ (is_nl c = false /\ top_is d c = true /\ 0 < J /\ n = J /\ d' = d)
    \/ (is_nl c = false /\ top_is d c = false /\ is_directive c = true /\
        (N.land (l_mask d) sSpanPre =? 0)%N = true /\
        exists s, s + 1 < J /\ ((0 < s /\ n = s /\ d' = d) \/ (s = 0 /\ n = 1 /\ d' = push_lv d c))) ).
Proof.
  intros Hst. induction rest as [|b rest IH]; intros pr i st sd n d' Hpr Hinv H; [discriminate|].
  cbn [span_loop] in H.
  (* helper: a recursive call on the tail *)
  assert (Rec : forall st' sd',
            match st' with None => sd' = x00 | Some s => s < S i /\ (N.land (l_mask d) sSpanPre =? 0)%N = true end ->
            quiet d b ->
            span_loop d (b :: pr) rest (S i) st' sd' = Some (LTok n d') ->
            exists rpre c post, b :: rest = rpre ++ c :: post /\ (forall x, In x rpre -> quiet d x) /\
              let J := i + length rpre in
              ( (is_nl c = true /\ n = S J /\ d' = d)
              \/ (is_nl c = false /\ top_is d c = true /\ J = 0 /\ n = 1 /\ d' = pop_lv d c)
              \/ (is_nl c = false /\ top_is d c = true /\ 0 < J /\ n = J /\ d' = d)
              \/ (is_nl c = false /\ top_is d c = false /\ is_directive c = true /\
                  (N.land (l_mask d) sSpanPre =? 0)%N = true /\
                  exists s, s + 1 < J /\ ((0 < s /\ n = s /\ d' = d) \/ (s = 0 /\ n = 1 /\ d' = push_lv d c))) )).
  { intros st' sd' Hinv' Hq Hrec.
    destruct (IH (b :: pr) (S i) st' sd' n d' ltac:(cbn; lia) Hinv' Hrec) as [rpre [c [post [E [Q C]]]]].
    exists (b :: rpre), c, post. split; [cbn; rewrite E; reflexivity|].
    split; [intros x [<-|Hx]; [exact Hq|apply Q, Hx]|].
    cbn [length]. replace (i + S (length rpre)) with (S i + length rpre) by lia. exact C. }
  destruct (is_nl b) eqn:Nl.
  { inversion H; subst. exists [], b, rest. split; [reflexivity|]. split; [intros x []|].
    cbn [length]. rewrite Nat.add_0_r. left. auto. }
  destruct (is_directive b) eqn:Dir; cbn [negb] in H.
  2:{ apply (Rec st sd); [destruct st as [s|]; [destruct Hinv; split; [lia|assumption]|exact Hinv]| |exact H].
      split; [exact Nl|]. destruct (top_is d b) eqn:T; [|reflexivity].
      rewrite (top_is_directive d b Hst T) in Dir. discriminate. }
  destruct (top_is d b) eqn:Top.
  { exists [], b, rest. split; [reflexivity|]. split; [intros x []|].
    cbn [length]. rewrite Nat.add_0_r.
    destruct (i =? 0) eqn:I0.
    - apply Nat.eqb_eq in I0. unfold end_bits in H. inversion H; subst.
      right; left. repeat split; auto.
    - apply Nat.eqb_neq in I0. inversion H; subst. right; right; left. repeat split; auto. lia. }
  assert (Qb : quiet d b) by (split; assumption).
  assert (Keep : match st with None => sd = x00 | Some s => s < S i /\ (N.land (l_mask d) sSpanPre =? 0)%N = true end).
  { destruct st as [s|]; [destruct Hinv; split; [lia|assumption]|exact Hinv]. }
  destruct ((match st with None => true | Some _ => false end) && (N.land (l_mask d) sSpanPre =? 0)%N) eqn:C2.
  - apply andb_true_iff in C2. destruct C2 as [_ Hpre].
    destruct (((i =? 0) || is_space (fst (decode_last_rune_rev pr))) && negb (is_space (fst (decode_rune rest)))).
    + destruct (head_is rest b).
      * apply (Rec st sd Keep Qb H).
      * apply (Rec (Some i) b); [split; [lia|exact Hpre]|exact Qb|exact H].
    + apply (Rec st sd Keep Qb H).
  - destruct (byte_eqb b sd && negb (is_space (fst (decode_last_rune_rev pr)))
              && match st with None => 0 <? i | Some s => S s <? i end) eqn:C3.
    + apply andb_true_iff in C3. destruct C3 as [C3 Hlt]. apply andb_true_iff in C3. destruct C3 as [Hsd _].
      destruct st as [s|].
      2:{ rewrite Hinv, (directive_not_x00 _ Dir) in Hsd. discriminate. }
      destruct Hinv as [Hs Hpre]. apply Nat.ltb_lt in Hlt.
      exists [], b, rest. split; [reflexivity|]. split; [intros x []|].
      cbn [length]. rewrite Nat.add_0_r.
      right; right; right. repeat split; auto.
      exists s. split; [lia|].
      destruct s as [|s'].
      * unfold start_bits in H. inversion H; subst. right. auto.
      * inversion H; subst. left. repeat split; auto. lia.
    + apply (Rec st sd Keep Qb H).
Qed.

(* falling off the end: nothing in the data is a newline or the end directive *)
Lemma span_loop_none d :
  (forall x, In x (l_stack d) -> is_directive x = true) ->
  forall rest pr i st sd, span_loop d pr rest i st sd = None -> forall x, In x rest -> quiet d x.
Proof.
  intros Hst. induction rest as [|b rest IH]; intros pr i st sd H x Hx; [destruct Hx|].
  cbn [span_loop] in H.
  destruct (is_nl b) eqn:Nl; [discriminate|].
  destruct (is_directive b) eqn:Dir; cbn [negb] in H.
  - destruct (top_is d b) eqn:Top.
    { destruct (i =? 0); [destruct (end_bits b)|]; discriminate. }
    assert (Qb : quiet d b) by (split; assumption).
    destruct Hx as [<-|Hx]; [exact Qb|].
    match type of H with (if ?c then _ else _) = _ => destruct c end.
    + ifs; eapply IH; eauto.
    + match type of H with (if ?c then _ else _) = _ => destruct c end.
      * destruct st as [[|s']|]; try destruct (start_bits b); discriminate.
      * eapply IH; eauto.
  - destruct Hx as [<-|Hx]; [|eapply IH; eauto].
    split; [exact Nl|]. destruct (top_is d b) eqn:T; [|reflexivity].
    rewrite (top_is_directive d b Hst T) in Dir. discriminate.
Qed.

(* ------------------------------------------------------------------ closes *)

Fixpoint closes (stack : bytes) (r : bytes) : Prop :=
  match stack with
  | [] => True
  | k :: st =>
      exists p q, r = p ++ k :: q /\
                  (forall x, In x p -> is_nl x = false /\ ~ In x (k :: st)) /\
                  closes st q
  end.

Lemma closes_nil_input stack : closes stack [] -> stack = [].
Proof.
  destruct stack as [|k st]; [reflexivity|]. cbn. intros [p [q [E _]]].
  destruct p; discriminate.
Qed.

Lemma in_split_first (c : byte) l : In c l -> exists l1 l2, l = l1 ++ c :: l2 /\ ~ In c l1.
Proof.
  induction l as [|x l IH]; [intros []|].
  destruct (byte_eq_dec x c) as [->|Hn].
  - intros _. exists [], l. split; [reflexivity|intros []].
  - intros [E|H]; [congruence|]. destruct (IH H) as [l1 [l2 [E N]]].
    exists (x :: l1), l2. split; [cbn; rewrite E; reflexivity|].
    intros [E'|H']; [congruence|exact (N H')].
Qed.

(* two decompositions of the same string around bytes that the left parts avoid *)
Lemma split_compare (rpre p : bytes) (c k : byte) post q :
  rpre ++ c :: post = p ++ k :: q -> ~ In k rpre ->
  (length rpre < length p /\ In c p /\ exists p2, p = rpre ++ c :: p2 /\ post = p2 ++ k :: q)
  \/ (rpre = p /\ c = k /\ post = q).
Proof.
  revert p. induction rpre as [|x rpre IH]; intros p E Hk.
  - destruct p as [|y p]; cbn in E.
    + inversion E; subst. right. auto.
    + inversion E; subst. left. split; [cbn; lia|]. split; [left; reflexivity|].
      exists p. auto.
  - destruct p as [|y p]; cbn in E.
    + inversion E; subst. exfalso. apply Hk. left; reflexivity.
    + inversion E; subst.
      destruct (IH p H1 ltac:(intros H; apply Hk; right; exact H)) as [[L [I [p2 [E1 E2]]]]|[E1 [E2 E3]]].
      * left. split; [cbn; lia|]. split; [right; exact I|]. exists p2. subst. auto.
      * right. subst. auto.
Qed.

Lemma top_is_cons d k st b : l_stack d = k :: st -> top_is d b = byte_eqb b k.
Proof. unfold top_is. intros ->. reflexivity. Qed.

Lemma top_is_nil d b : l_stack d = [] -> top_is d b = false.
Proof. unfold top_is. intros ->. reflexivity. Qed.

Lemma firstn_app_exact {A} (l e : list A) : firstn (length l) (l ++ e) = l.
Proof. rewrite firstn_app, Nat.sub_diag, firstn_all. cbn. apply app_nil_r. Qed.

Lemma skipn_app_exact {A} (l e : list A) : skipn (length l) (l ++ e) = e.
Proof. rewrite skipn_app, Nat.sub_diag, skipn_all. reflexivity. Qed.

Lemma has_nl_false_iff s : has_nl s = false <-> forall x, In x s -> is_nl x = false.
Proof.
  unfold has_nl. split.
  - intros H x Hx. destruct (is_nl x) eqn:E; [|reflexivity].
    assert (existsb is_nl s = true) by (apply existsb_exists; eauto). congruence.
  - intros H. destruct (existsb is_nl s) eqn:E; [|reflexivity].
    apply existsb_exists in E. destruct E as [x [Hx Ex]]. rewrite (H x Hx) in Ex. discriminate.
Qed.

Lemma In_firstn {A} (x : A) n l : In x (firstn n l) -> In x l.
Proof. revert l; induction n; intros [|y l]; cbn; try tauto. intros [H|H]; auto. Qed.

Lemma In_skipn {A} (x : A) n l : In x (skipn n l) -> In x l.
Proof. revert l; induction n; intros [|y l]; cbn; try tauto. intros H; right; auto. Qed.

Lemma firstn_app_le' {A} (l e : list A) n : n <= length l -> firstn n (l ++ e) = firstn n l.
Proof. intros H. rewrite firstn_app. replace (n - length l) with 0 by lia. cbn. apply app_nil_r. Qed.

Lemma skipn_app_le' {A} (l e : list A) n : n <= length l -> skipn n (l ++ e) = skipn n l ++ e.
Proof. intros H. rewrite skipn_app. replace (n - length l) with 0 by lia. reflexivity. Qed.

Lemma ends_nl_has_nl r n : ends_nl r n = true -> has_nl (firstn n r) = true.
Proof.
  unfold ends_nl. destruct n as [|k]; [discriminate|].
  destruct (nth_error r k) as [b|] eqn:E; [|discriminate]. intros Hb.
  unfold has_nl. apply existsb_exists. exists b. split; [|exact Hb].
  assert (k < length r) by (apply nth_error_Some; congruence).
  rewrite <- (firstn_skipn (S k) r) in E.
  rewrite nth_error_app1 in E by (rewrite firstn_length; lia).
  eapply nth_error_In; eauto.
Qed.

(* the kinds of step a level can take *)
Inductive span_step_kind (d : level) (n : nat) (d' : level) : Prop :=
| sk_plain : d' = d -> span_step_kind d n d'
| sk_pop c : n = 1 -> top_is d c = true -> d' = pop_lv d c -> span_step_kind d n d'
| sk_push c : n = 1 -> is_directive c = true -> ~ In c (l_stack d) ->
              (N.land (l_mask d) sSpanPre =? 0)%N = true -> d' = push_lv d c ->
              span_step_kind d n d'.

Lemma scan_span_step d r n d' :
  (forall x, In x (l_stack d) -> is_directive x = true) ->
  closes (l_stack d) r -> r <> [] ->
  scan_span d r true = LTok n d' ->
  span_step_kind d n d' /\
  closes (l_stack d') (skipn n r) /\
  (l_stack d <> [] -> has_nl (firstn n r) = false) /\
  (has_nl (firstn n r) = true -> d' = d).
Proof.
  intros Hst Hcl Hne. unfold scan_span.
  destruct (span_loop d [] r 0 None x00) as [res|] eqn:L.
  2:{ (* the rest of the input is one plain token *)
      intros H; injection H as <- <-.
      pose proof (span_loop_none d Hst _ _ _ _ _ L) as Q.
      split; [apply sk_plain; reflexivity|].
      destruct (l_stack d) as [|k st] eqn:S.
      - rewrite skipn_all. cbn. repeat split; auto. congruence.
      - exfalso. cbn in Hcl. destruct Hcl as [p [q [E _]]].
        assert (Hk : In k r) by (rewrite E; apply in_or_app; right; left; reflexivity).
        destruct (Q k Hk) as [_ T]. rewrite (top_is_cons _ _ _ _ S), byte_eqb_refl in T. discriminate. }
  intros ->.
  destruct (span_loop_char d Hst r [] 0 None x00 n d' eq_refl eq_refl L)
    as [rpre [c [post [E [Q C]]]]].
  cbn [Nat.add] in C.
  destruct (l_stack d) as [|k st] eqn:S.
  - (* no open span at this level *)
    assert (T : forall x, top_is d x = false) by (intros x; apply top_is_nil, S).
    destruct C as [[Nl [-> ->]]|[[_ [Tc _]]|[[_ [Tc _]]|[Nl [_ [Dir [Pre [s [Hs C]]]]]]]]];
      try (rewrite T in Tc; discriminate).
    + rewrite S. split; [apply sk_plain; reflexivity|]. cbn. repeat split; auto. congruence.
    + destruct C as [[Hs0 [-> ->]]|[-> [-> ->]]].
      * rewrite S. split; [apply sk_plain; reflexivity|]. cbn. repeat split; auto. congruence.
      * split; [apply (sk_push d 1 _ c); auto; rewrite S; intros []|].
        unfold push_lv. cbn [l_stack set_stack]. rewrite S.
        split.
        { (* the end directive found at J closes the new span *)
          subst r. destruct rpre as [|x0 rpre]; [cbn in Hs; lia|]. cbn [app skipn].
          assert (Hin : In c (rpre ++ [c])) by (apply in_or_app; right; left; reflexivity).
          destruct (in_split_first c _ Hin) as [l1 [l2 [E1 N1]]].
          exists l1, (l2 ++ post). split.
          - change (c :: post) with ([c] ++ post). rewrite app_assoc, E1, <- app_assoc. reflexivity.
          - split; [|exact I]. intros x Hx.
            assert (Hx' : In x (rpre ++ [c])) by (rewrite E1; apply in_or_app; left; exact Hx).
            apply in_app_or in Hx'. destruct Hx' as [Hx'|[<-|[]]].
            + split; [apply (Q x); right; exact Hx'|].
              intros [<-|[]]. exact (N1 Hx).
            + split; [exact Nl|]. intros [_|[]]. exact (N1 Hx). }
        split; [congruence|].
        intros Hn. exfalso. subst r.
        destruct rpre as [|x0 rpre]; [cbn in Hs; lia|]. cbn in Hn.
        rewrite orb_false_r in Hn. destruct (Q x0 (or_introl eq_refl)) as [Hx0 _]. congruence.
  - (* inside a span whose end directive is k *)
    cbn in Hcl. destruct Hcl as [p [q [Er [Hp Hq]]]].
    assert (Tk : forall x, top_is d x = byte_eqb x k) by (intros x; apply top_is_cons with (st := st), S).
    assert (Nk : ~ In k rpre).
    { intros Hk. destruct (Q k Hk) as [_ T]. rewrite Tk, byte_eqb_refl in T. discriminate. }
    rewrite E in Er.
    destruct (split_compare _ _ _ _ _ _ Er Nk) as [[Lt [Ic [p2 [Ep Epost]]]]|[Ep [Ec Epost]]].
    + (* the commit is before the end directive: c is in p *)
      destruct (Hp c Ic) as [Nlc Nin].
      assert (Tc : top_is d c = false).
      { rewrite Tk. apply byte_eqb_neq. intros ->. apply Nin. left; reflexivity. }
      destruct C as [[Nl _]|[[_ [Tc' _]]|[[_ [Tc' _]]|[_ [_ [Dir [Pre [s [Hs C]]]]]]]]];
        try congruence.
      assert (Hlen : length rpre + 1 <= length p) by lia.
      destruct C as [[Hs0 [-> ->]]|[-> [-> ->]]].
      * (* plain text in front of a nested span *)
        rewrite S. split; [apply sk_plain; reflexivity|].
        assert (Hsp : s <= length p) by lia.
        rewrite E, Er.
        split.
        { cbn. exists (skipn s p), q. split; [apply skipn_app_le', Hsp|].
          split; [|exact Hq]. intros x Hx. apply Hp. eapply In_skipn; eauto. }
        split.
        { intros _. apply has_nl_false_iff. intros x Hx.
          rewrite firstn_app_le' in Hx by exact Hsp. apply (Hp x). eapply In_firstn; eauto. }
        auto.
      * (* a nested span starts *)
        split; [apply (sk_push d 1 _ c); auto; rewrite S; exact Nin|].
        unfold push_lv. cbn [l_stack set_stack]. rewrite S.
        rewrite E, Er.
        destruct p as [|x0 p']; [cbn in Hlen; lia|].
        destruct rpre as [|y0 rpre']; [cbn in Hs; lia|].
        cbn [app] in Ep. injection Ep as Ey H1. subst y0.
        cbn [app skipn firstn].
        split.
        { assert (Hin : In c p') by (rewrite H1; apply in_or_app; right; left; reflexivity).
          destruct (in_split_first c _ Hin) as [l1 [l2 [E1 N1]]].
          exists l1, (l2 ++ k :: q). split; [rewrite E1, <- app_assoc; reflexivity|].
          split.
          - intros x Hx. assert (Hx' : In x (x0 :: p')) by (right; rewrite E1; apply in_or_app; left; exact Hx).
            destruct (Hp x Hx') as [Nx Nix]. split; [exact Nx|].
            intros [<-|Hin']; [exact (N1 Hx)|exact (Nix Hin')].
          - cbn. exists l2, q. split; [reflexivity|]. split; [|exact Hq].
            intros x Hx. apply Hp. right. rewrite E1. apply in_or_app. right. right. exact Hx. }
        split.
        { intros _. cbn. rewrite orb_false_r. apply (Hp x0). left; reflexivity. }
        intros Hn. exfalso. cbn in Hn. rewrite orb_false_r in Hn.
        destruct (Hp x0 (or_introl eq_refl)) as [Hx0 _]. congruence.
    + (* the commit is the end directive itself *)
      subst c post rpre.
      destruct C as [[Nl _]|[[_ [_ [J0 [-> ->]]]]|[[_ [_ [Jp [-> ->]]]]|[_ [Tc _]]]]].
      * exfalso. assert (is_directive k = true) by (apply Hst; left; reflexivity).
        rewrite (is_directive_not_nl _ H) in Nl. discriminate.
      * (* the end directive is the token *)
        destruct p as [|x0 p']; [|cbn in J0; lia].
        split; [apply (sk_pop d 1 _ k); auto; rewrite Tk; apply byte_eqb_refl|].
        unfold pop_lv. cbn [l_stack set_stack tl]. rewrite S. cbn [tl].
        rewrite E. cbn [app skipn firstn].
        split; [exact Hq|]. split.
        { intros _. cbn. rewrite orb_false_r.
          apply is_directive_not_nl, Hst. left; reflexivity. }
        intros Hn. exfalso. cbn in Hn. rewrite orb_false_r in Hn.
        rewrite (is_directive_not_nl k) in Hn; [discriminate|apply Hst; left; reflexivity].
      * (* the text in front of the end directive *)
        rewrite S. split; [apply sk_plain; reflexivity|].
        rewrite E. rewrite skipn_app_exact, firstn_app_exact.
        split.
        { cbn. exists [], q. split; [reflexivity|]. split; [intros x []|exact Hq]. }
        split; [intros _; apply has_nl_false_iff; intros x Hx; apply (Hp x Hx)|auto].
      * rewrite Tk, byte_eqb_refl in Tc. discriminate.
Qed.
