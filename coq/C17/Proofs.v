(* C17/Proofs.v — the lemmas behind the property theorems, at the real limit
   (bufio.MaxScanTokenSize).  The development is split over
     ProofsScan.v      UTF-8 helpers, span loop, extension stability of scan, well-formed chains
     ProofsRun.v       bufio.Scanner driver and Decoder.Next against the chunk-free reading
     ProofsBits.v      single-bit reasoning on Style masks, table lemmas
     ProofsSpan.v      what one scanSpan call does to the span stack ([closes])
     ProofsLevel.v     per-level consistency of mask / clearMask / spanStack; the checker step
     ProofsBrackets.v  the chain invariant and the bracket discipline of every run
     ProofsCompat.v    any two chunkings agree up to the place where ErrTooLong cuts one of them *)
From Coq Require Import ZifyBool ZifyNat ZifyN.
From XV Require Import lib.Bytes gen.Styling C17.Model.
From XV Require Export C17.ProofsScan C17.ProofsRun C17.ProofsBits C17.ProofsSpan C17.ProofsLevel C17.ProofsBrackets C17.ProofsCompat.

(* ---- termination, no panic ---- *)
Lemma decode_ends input reads deof :
  snd (decode input reads deof) = EEOF \/ snd (decode input reads deof) = ETooLong.
Proof.
  destruct (decode input reads deof) as [os e] eqn:D. cbn [snd].
  apply decode_trace in D; [|apply limit_pos]. eapply trace_end; eauto.
Qed.

(* ---- losslessness ---- *)
Lemma decode_lossless input reads deof os e : decode input reads deof = (os, e) ->
  exists tail, input = flat_map o_data os ++ tail /\ (e = EEOF -> tail = []).
Proof.
  intros D. apply decode_trace in D; [|apply limit_pos].
  destruct (trace_lossless _ _ _ _ _ _ D) as [tail [E1 E2]]. exists tail. auto.
Qed.

Fixpoint dbl (n : nat) (l : bytes) : bytes :=
  match n with O => l | S n' => dbl n' (l ++ l) end.

(* 65536 times the letter a, one line without an end *)
Definition long_line : bytes := dbl 16 ["a"%byte].

Lemma long_line_too_long : decode long_line [] false = ([], ETooLong).
Proof. vm_compute. reflexivity. Qed.

Lemma long_line_at_eof : snd (decode long_line [] true) = EEOF.
Proof. vm_compute. reflexivity. Qed.

Lemma lossless_refuted : exists input reads deof,
  flat_map o_data (fst (decode input reads deof)) <> input.
Proof.
  exists long_line, [], false. rewrite long_line_too_long. cbn [fst flat_map].
  intros H. apply (f_equal (@is_nil byte)) in H. vm_compute in H. discriminate.
Qed.

(* ---- chunk independence ---- *)
Lemma decode_chunk_free input : snd (ref_decode input) <> ETooLong ->
  forall reads deof, decode input reads deof = ref_decode input.
Proof. intros H reads deof. apply decode_ref; [apply limit_pos|exact H]. Qed.

Lemma chunk_independence_refuted : exists input r1 e1 r2 e2,
  decode input r1 e1 <> decode input r2 e2.
Proof.
  exists long_line, [], false, [], true. intros H. apply (f_equal snd) in H.
  rewrite long_line_too_long, long_line_at_eof in H. discriminate.
Qed.

(* ---- brackets ---- *)
Lemma decode_brackets_ok input reads deof :
  brackets_ok (fst (decode input reads deof)) (snd (decode input reads deof)) = true.
Proof.
  destruct (decode input reads deof) as [os e] eqn:D. cbn [fst snd].
  eapply decode_brackets; [apply limit_pos|exact D].
Qed.

(* ---- tables ---- *)
Lemma tables_ok :
  fence = [c_tick; c_tick; c_tick] /\ is_space rune_error = false /\
  Forall single all_bits /\ span_bit_classes_disjoint = true /\
  NoDup all_bits.
Proof.
  split; [apply fence_is|]. split; [apply is_space_rune_error|].
  split; [apply all_bits_single|]. split; [apply disjoint_tbl|].
  unfold all_bits. repeat constructor; cbn; intuition discriminate.
Qed.
