(* C17/ProofsCompat.v — chunk independence for ALL inputs, up to the 64 KiB
   limit: the ideal token sequence [trace] of an input is unique except for the
   place where ErrTooLong may cut it, so the token sequences of any two
   chunkings are prefixes of one another, and equal when both end with io.EOF. *)
From Coq Require Import ZifyBool ZifyNat ZifyN.
From XV Require Import lib.Bytes gen.Styling C17.Model C17.ProofsScan C17.ProofsRun.

Definition agree_up_to_cut (os1 : list obs) (e1 : endst) (os2 : list obs) (e2 : endst) : Prop :=
  (exists t, os1 = os2 ++ t /\ (e2 = EEOF -> t = [] /\ e1 = EEOF)) \/
  (exists t, os2 = os1 ++ t /\ (e1 = EEOF -> t = [] /\ e2 = EEOF)).

Lemma agree_cons o os1 e1 os2 e2 :
  agree_up_to_cut os1 e1 os2 e2 -> agree_up_to_cut (o :: os1) e1 (o :: os2) e2.
Proof.
  intros [[t [E H]]|[t [E H]]]; [left|right]; exists t; (split; [rewrite E; reflexivity|exact H]).
Qed.

Lemma scan_nil_no_tok ds b adv ds' : scan ds [] b = STok adv ds' -> False.
Proof. intros H. apply scan_bounds in H. cbn in H. lia. Qed.

Lemma trace_det ds ins last r os1 e1 : trace ds ins last r os1 e1 ->
  forall os2 e2, trace ds ins last r os2 e2 -> agree_up_to_cut os1 e1 os2 e2.
Proof.
  induction 1 as [ds last|ds last r Hne|ds last r q os e Hq T IH
                 |ds last r adv ds' prev curr os e Hp Hs Hc Hd T IH
                 |ds last r adv ds' prev curr os e Hp Hs Hc Hd T IH]; intros os2 e2 T2.
  - (* io.EOF: nothing is left *)
    inversion T2; subst.
    + left. exists []. split; [reflexivity|auto].
    + congruence.
    + exfalso. eapply scan_nil_no_tok; eassumption.
    + exfalso. eapply scan_nil_no_tok; eassumption.
  - (* the first run is cut here *)
    right. exists os2. split; [reflexivity|discriminate].
  - inversion T2; subst.
    match goal with H1 : quote_chain ds = Some ?a, H2 : quote_chain ds = Some ?b |- _ =>
      rewrite H1 in H2; injection H2 as <- end.
    apply agree_cons. apply IH. assumption.
  - inversion T2; subst.
    + exfalso. eapply scan_nil_no_tok; eassumption.
    + left. eexists. split; [rewrite app_nil_l; reflexivity|discriminate].
    + match goal with H2 : scan ds r true = STok ?a ?d |- _ =>
        rewrite Hs in H2; injection H2 as <- <- end.
      match goal with H2 : quote_chain ds' = Some ?c |- _ =>
        rewrite Hc in H2; injection H2 as <- end.
      apply agree_cons. apply IH. assumption.
    + match goal with H2 : scan ds r true = STok ?a ?d |- _ =>
        rewrite Hs in H2; injection H2 as <- <- end.
      match goal with H2 : quote_chain ds' = Some ?c |- _ =>
        rewrite Hc in H2; injection H2 as <- end.
      match goal with H2 : quote_chain ds = Some ?c |- _ =>
        rewrite Hp in H2; injection H2 as <- end.
      congruence.
  - inversion T2; subst.
    + exfalso. eapply scan_nil_no_tok; eassumption.
    + left. eexists. split; [rewrite app_nil_l; reflexivity|discriminate].
    + match goal with H2 : scan ds r true = STok ?a ?d |- _ =>
        rewrite Hs in H2; injection H2 as <- <- end.
      match goal with H2 : quote_chain ds' = Some ?c |- _ =>
        rewrite Hc in H2; injection H2 as <- end.
      match goal with H2 : quote_chain ds = Some ?c |- _ =>
        rewrite Hp in H2; injection H2 as <- end.
      congruence.
    + match goal with H2 : scan ds r true = STok ?a ?d |- _ =>
        rewrite Hs in H2; injection H2 as <- <- end.
      match goal with H2 : quote_chain ds' = Some ?c |- _ =>
        rewrite Hc in H2; injection H2 as <- end.
      apply agree_cons. apply IH. assumption.
Qed.

Theorem decode_agree lim input r1 d1 r2 d2 : 1 <= lim ->
  agree_up_to_cut (fst (decode_lim lim input r1 d1)) (snd (decode_lim lim input r1 d1))
                  (fst (decode_lim lim input r2 d2)) (snd (decode_lim lim input r2 d2)).
Proof.
  intros Hlim.
  destruct (decode_lim lim input r1 d1) as [os1 e1] eqn:D1.
  destruct (decode_lim lim input r2 d2) as [os2 e2] eqn:D2. cbn [fst snd].
  apply decode_trace in D1; [|exact Hlim]. apply decode_trace in D2; [|exact Hlim].
  eapply trace_det; eassumption.
Qed.

(* the form used in Properties.v *)
Lemma decode_any_two input r1 d1 r2 d2 os1 e1 os2 e2 :
  decode input r1 d1 = (os1, e1) -> decode input r2 d2 = (os2, e2) ->
  ((exists t, os1 = os2 ++ t) \/ (exists t, os2 = os1 ++ t)) /\
  (e1 = EEOF -> exists t, os1 = os2 ++ t) /\
  (e1 = EEOF -> e2 = EEOF -> os1 = os2).
Proof.
  intros D1 D2. pose proof (decode_agree limit input r1 d1 r2 d2 limit_pos) as A.
  unfold decode in D1, D2. rewrite D1, D2 in A. cbn [fst snd] in A.
  destruct A as [[t [E H]]|[t [E H]]].
  - split; [left; exists t; exact E|]. split; [intros _; exists t; exact E|].
    intros _ E2. destruct (H E2) as [-> _]. rewrite app_nil_r in E. exact E.
  - split; [right; exists t; exact E|]. split.
    + intros E1. destruct (H E1) as [-> _]. exists []. rewrite app_nil_r in E. rewrite E, app_nil_r. reflexivity.
    + intros E1 _. destruct (H E1) as [-> _]. rewrite app_nil_r in E. symmetry. exact E.
Qed.
