(* C17/Examples.v — non-vacuity of the hypotheses and worked examples. *)
From XV Require Import lib.Bytes gen.Styling C17.Model C17.Proofs.

Definition show (r : list obs * endst) :=
  (map (fun o => (o_data o, o_info o, o_style o, o_quote o)) (fst r), snd r).

(* the test suite's "spans" document *)
Example ex_spans :
  map (fun o => (o_data o, o_style o)) (fst (ref_decode (str "*strong* _emph_")))
  = [(str "*", N.lor sSpanStrong sSpanStrongStart); (str "strong", sSpanStrong);
     (str "*", N.lor sSpanStrong sSpanStrongEnd); (str " ", 0%N);
     (str "_", N.lor sSpanEmph sSpanEmphStart); (str "emph", sSpanEmph);
     (str "_", N.lor sSpanEmph sSpanEmphEnd)].
Proof. vm_compute. reflexivity. Qed.

(* a quoted preformatted block with an info string, then a drop of the quote level *)
Definition doc1 : bytes := str "> ```go
> x *y*
out *z*".

Example ex_doc1 : show (ref_decode doc1) =
  ([(str "> ", [], 258%N, 1); (str "```go
", str "go", 67%N, 1); (str "> ", [], 258%N, 1); (str "x *y*
", [], 3%N, 1); ([], [], 514%N, 1); (str "out ", [], 0%N, 0);
    (str "*", [], 4104%N, 0); (str "z", [], 8%N, 0); (str "*", [], 8200%N, 0)], EEOF).
Proof. vm_compute. reflexivity. Qed.

(* hypothesis of C17_chunk_independent_partial: a non-trivial instance *)
Example ex_not_too_long : snd (ref_decode doc1) <> ETooLong.
Proof. vm_compute. discriminate. Qed.

(* ... and three chunkings of it, among them byte by byte with EOF on the last byte *)
Example ex_chunkings :
  decode doc1 [1;1;1;1;1;1;1;1;1;1;1;1;1;1;1;1;1;1;1;1;1;1;1;1] true = ref_decode doc1 /\
  decode doc1 [3; 1; 7] false = ref_decode doc1 /\ decode doc1 [] true = ref_decode doc1.
Proof. vm_compute. repeat split; reflexivity. Qed.

(* hypothesis of C17_scan_extension_stable: a token decided on a strict prefix *)
Example ex_scan_tok : exists ds', scan dec0 (str "> a") false = STok 2 ds'.
Proof. eexists. vm_compute. reflexivity. Qed.

(* hypothesis of C17_scan_more_repeatable: the quote start token is undecided
   while its white space reaches the end of the buffer (the repaired behaviour) *)
Example ex_scan_more : exists ds1, scan dec0 (str ">  ") false = SMore ds1.
Proof. eexists. vm_compute. reflexivity. Qed.
Example ex_scan_more_rune : exists ds1, scan dec0 (hex "3ee280") false = SMore ds1.
Proof. eexists. vm_compute. reflexivity. Qed.

(* the checker is not vacuous: it rejects an end that does not match, a line
   break inside a span, and a span left open at EOF *)
Example ex_checker_rejects :
  brackets_ok [mkobs (str "*") [] (N.lor sSpanStrong sSpanStrongStart) 0;
               mkobs (str "_") [] (N.lor sSpanStrong (N.lor sSpanEmph sSpanEmphEnd)) 0] EEOF = false /\
  brackets_ok [mkobs (str "*") [] (N.lor sSpanStrong sSpanStrongStart) 0;
               mkobs (str "a
") [] sSpanStrong 0;
               mkobs (str "*") [] (N.lor sSpanStrong sSpanStrongEnd) 0] EEOF = false /\
  brackets_ok [mkobs (str "*") [] (N.lor sSpanStrong sSpanStrongStart) 0] EEOF = false /\
  brackets_ok [mkobs (str "*") [] sSpanStrongStart 0] EEOF = false.
Proof. vm_compute. repeat split; reflexivity. Qed.

(* invariants of the bracket proof are inhabited beyond the initial state *)
Example ex_wf : match scan dec0 (str "> > a") true with STok _ ds' => wf ds' | _ => False end.
Proof. vm_compute. constructor. Qed.

Example ex_closes : closes [c_under; c_star] (str "b_ c* d").
Proof.
  exists (str "b"), (str " c* d"). split; [reflexivity|]. split.
  - intros x [<-|[]]. split; [reflexivity|]. cbn. intuition discriminate.
  - exists (str " c"), (str " d"). split; [reflexivity|]. split; [|exact I].
    intros x [<-|[<-|[]]]; (split; [reflexivity|cbn; intuition discriminate]).
Qed.

(* the two defects repaired in the library, as the model now behaves *)
Example ex_fixed_quote : fst (decode (str ">  a") [1;1;1;1] false) = fst (ref_decode (str ">  a")).
Proof. vm_compute. reflexivity. Qed.
Example ex_fixed_pre : decode (str "```
```
") [] true = decode (str "```
```
") [] false.
Proof. vm_compute. reflexivity. Qed.

(* C17_chunk_independent_up_to_limit is not vacuous in its "prefix" part: on a
   line of 65536 bytes one chunking is cut by ErrTooLong before the first token,
   the other (io.EOF together with the data) returns the line and ends with io.EOF *)
Example ex_up_to_limit_strict :
  decode long_line [] false = ([], ETooLong) /\
  length (fst (decode long_line [] true)) = 1 /\ snd (decode long_line [] true) = EEOF.
Proof. vm_compute. repeat split; reflexivity. Qed.
