From XV Require Import lib.Bytes gen.Styling C17.Model.
