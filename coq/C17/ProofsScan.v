(* C17/ProofsScan.v — lemmas about the split function: UTF-8 helpers, the span
   loop, extension stability of every branch of scan, bounds on the advance. *)
From Coq Require Import ZifyBool ZifyNat ZifyN.
From XV Require Import lib.Bytes gen.Styling C17.Model.

(* ------------------------------------------------------------------ tables *)

Lemma fence_is : fence = [c_tick; c_tick; c_tick].
Proof. vm_compute. reflexivity. Qed.

Lemma is_space_rune_error : is_space rune_error = false.
Proof. vm_compute. reflexivity. Qed.

Definition low (b : byte) : bool := (bN b <? 128)%N.

Lemma is_nl_low b : is_nl b = true -> low b = true.
Proof. destruct b; vm_compute; congruence. Qed.

Lemma is_nl_eq b : is_nl b = true <-> b = c_nl.
Proof. split; [destruct b; vm_compute; congruence | intros ->; reflexivity]. Qed.

Lemma is_directive_low b : is_directive b = true -> low b = true.
Proof. destruct b; vm_compute; congruence. Qed.

Lemma is_directive_not_nl b : is_directive b = true -> is_nl b = false.
Proof. destruct b; vm_compute; congruence. Qed.

Lemma gt_low : low c_gt = true.
Proof. reflexivity. Qed.

Lemma lead_sz b sz lo hi : lead b = Some (sz, lo, hi) ->
  (sz = 2 \/ sz = 3 \/ sz = 4) /\ (128 <= lo)%N.
Proof.
  unfold lead.
  repeat match goal with |- context [if ?c then _ else _] => destruct c end;
    intros H; inversion H; subst; split; auto; lia.
Qed.

(* ------------------------------------------------------------------ UTF-8 *)

Ltac ifs :=
  repeat match goal with
         | |- context [if ?c then _ else _] => destruct c eqn:?
         | H : context [if ?c then _ else _] |- _ => destruct c eqn:?
         end.

Lemma decode_rune_ext s e : full_rune s = true -> decode_rune (s ++ e) = decode_rune s.
Proof.
  destruct s as [|p0 t]; [discriminate|].
  unfold full_rune, decode_rune. cbn [app].
  destruct (bN p0 <? 128)%N; [reflexivity|].
  destruct (lead (bN p0)) as [[[sz lo] hi]|] eqn:L; [|reflexivity].
  destruct (lead_sz _ _ _ _ L) as [[ -> | [ -> | -> ]] _];
    destruct t as [|p1 [|p2 [|p3 t3]]]; cbn [shorter app negb Nat.leb];
    intros H; ifs; try reflexivity; try discriminate.
Qed.

Lemma space_full s : is_space (fst (decode_rune s)) = true -> full_rune s = true.
Proof.
  destruct s as [|p0 t]; [unfold decode_rune; cbn [fst]; rewrite is_space_rune_error; discriminate|].
  unfold full_rune, decode_rune.
  destruct (bN p0 <? 128)%N; [reflexivity|].
  destruct (lead (bN p0)) as [[[sz lo] hi]|] eqn:L; [|reflexivity].
  destruct (shorter (p0 :: t) sz); cbn [negb fst]; [|reflexivity].
  rewrite is_space_rune_error. discriminate.
Qed.

Lemma low_full s : existsb low s = true -> full_rune s = true.
Proof.
  destruct s as [|p0 t]; [discriminate|].
  unfold full_rune. cbn [existsb]. unfold low at 1.
  destruct (bN p0 <? 128)%N; [reflexivity|]. cbn [orb].
  destruct (lead (bN p0)) as [[[sz lo] hi]|] eqn:L; [|reflexivity].
  destruct (lead_sz _ _ _ _ L) as [[ -> | [ -> | -> ]] Hlo];
    destruct t as [|p1 [|p2 [|p3 t3]]]; cbn [shorter negb existsb orb]; intros H;
    try reflexivity; try discriminate;
    unfold not_cont, out_rng, low in *; ifs; lia.
Qed.

Lemma decode_rune_low_ext s e : existsb low s = true -> decode_rune (s ++ e) = decode_rune s.
Proof. intro H. apply decode_rune_ext, low_full, H. Qed.

(* size of a decoded rune *)
Lemma decode_rune_size s : s <> [] ->
  1 <= snd (decode_rune s) /\ snd (decode_rune s) <= length s.
Proof.
  destruct s as [|p0 t]; [congruence|]. intros _.
  unfold decode_rune.
  destruct (bN p0 <? 128)%N; [cbn; lia|].
  destruct (lead (bN p0)) as [[[sz lo] hi]|] eqn:L; [|cbn; lia].
  destruct (lead_sz _ _ _ _ L) as [[ -> | [ -> | -> ]] _];
    destruct t as [|p1 [|p2 [|p3 t3]]]; cbn [shorter Nat.leb]; ifs; cbn; lia.
Qed.

(* ------------------------------------------------------------------ list helpers *)

Lemma existsb_low_head s : existsb low s = true -> s <> [].
Proof. destruct s; [discriminate|congruence]. Qed.

Lemma head_is_app s e b : s <> [] -> head_is (s ++ e) b = head_is s b.
Proof. destruct s; [congruence|reflexivity]. Qed.

Lemma forallb_existsb_low s : existsb low s = false -> forallb (fun b => negb (low b)) s = true.
Proof.
  induction s as [|b s IH]; [reflexivity|]. cbn. intros H.
  apply orb_false_iff in H. destruct H as [H1 H2]. rewrite H1, IH by exact H2. reflexivity.
Qed.

(* ------------------------------------------------------------------ span loop *)

Lemma span_loop_nolow d : forall rest pr i st sd,
  forallb (fun b => negb (low b)) rest = true -> span_loop d pr rest i st sd = None.
Proof.
  induction rest as [|b rest IH]; intros pr i st sd H; [reflexivity|].
  cbn [forallb] in H. apply andb_true_iff in H. destruct H as [Hb Hr].
  cbn [span_loop].
  destruct (is_nl b) eqn:N; [apply is_nl_low in N; rewrite N in Hb; discriminate|].
  destruct (is_directive b) eqn:D; [apply is_directive_low in D; rewrite D in Hb; discriminate|].
  cbn [negb]. apply IH, Hr.
Qed.

Lemma span_loop_ext d : forall rest pr i st sd r e,
  span_loop d pr rest i st sd = Some r -> span_loop d pr (rest ++ e) i st sd = Some r.
Proof.
  induction rest as [|b rest IH]; intros pr i st sd r e H; [discriminate|].
  cbn [span_loop app] in *.
  destruct (is_nl b); [exact H|].
  destruct (is_directive b); cbn [negb] in *; [|apply IH, H].
  destruct (top_is d b); [exact H|].
  match goal with
  | H : (if ?c then _ else _) = _ |- _ => destruct c eqn:C2
  end.
  - (* candidate start: the only branch that looks ahead *)
    destruct (existsb low rest) eqn:Lw.
    + rewrite (decode_rune_low_ext _ e Lw), (head_is_app _ e b (existsb_low_head _ Lw)).
      ifs; apply IH, H.
    + apply forallb_existsb_low in Lw.
      rewrite !(span_loop_nolow d rest) in H by exact Lw.
      ifs; discriminate.
  - match goal with
    | H : (if ?c then _ else _) = _ |- _ => destruct c
    end; [exact H|apply IH, H].
Qed.

(* the advance of a token found by the loop *)
Lemma span_loop_bounds d : forall rest pr i st sd n d',
  (match st with Some s => s < i | None => True end) ->
  span_loop d pr rest i st sd = Some (LTok n d') -> 0 < n /\ n <= i + length rest.
Proof.
  induction rest as [|b rest IH]; intros pr i st sd n d' Hst H; [discriminate|].
  cbn [span_loop length] in *.
  destruct (is_nl b); [inversion H; subst; lia|].
  destruct (is_directive b); cbn [negb] in *.
  2:{ apply IH in H; [lia|]. destruct st; [lia|exact I]. }
  destruct (top_is d b).
  { destruct (i =? 0) eqn:I0.
    - destruct (end_bits b). inversion H; subst; lia.
    - inversion H; subst. apply Nat.eqb_neq in I0. lia. }
  assert (Hst' : match st with Some s => s < S i | None => True end) by (destruct st; [lia|exact I]).
  match goal with
  | H : (if ?c then _ else _) = _ |- _ => destruct c
  end.
  - ifs; (apply IH in H; [lia | first [exact Hst' | cbn; lia]]).
  - match goal with
    | H : (if ?c then _ else _) = _ |- _ => destruct c
    end.
    + destruct st as [[|s']|].
      * destruct (start_bits b). inversion H; subst; lia.
      * inversion H; subst; lia.
      * destruct (start_bits b). inversion H; subst; lia.
    + apply IH in H; [lia|exact Hst'].
Qed.

Lemma span_loop_more d : forall rest pr i st sd d', span_loop d pr rest i st sd <> Some (LMore d').
Proof.
  induction rest as [|b rest IH]; intros pr i st sd d' H; [discriminate|].
  cbn [span_loop] in H.
  destruct (is_nl b); [discriminate|].
  destruct (is_directive b); cbn [negb] in *; [|exact (IH _ _ _ _ _ H)].
  destruct (top_is d b).
  { destruct (i =? 0); [destruct (end_bits b)|]; discriminate. }
  match goal with
  | H : (if ?c then _ else _) = _ |- _ => destruct c
  end.
  - ifs; exact (IH _ _ _ _ _ H).
  - match goal with
    | H : (if ?c then _ else _) = _ |- _ => destruct c
    end.
    + destruct st as [[|s']|]; try destruct (start_bits b); discriminate.
    + exact (IH _ _ _ _ _ H).
Qed.

(* ------------------------------------------------------------------ scanSpan *)

Lemma scan_span_ext d data n d' e b :
  scan_span d data false = LTok n d' -> scan_span d (data ++ e) b = LTok n d'.
Proof.
  unfold scan_span. destruct (span_loop d [] data 0 None x00) as [r|] eqn:L; [|discriminate].
  intros ->. rewrite (span_loop_ext _ _ _ _ _ _ _ e L). reflexivity.
Qed.

Lemma scan_span_more d data b d1 : scan_span d data b = LMore d1 -> d1 = d /\ b = false.
Proof.
  unfold scan_span. destruct (span_loop d [] data 0 None x00) as [r|] eqn:L.
  - intros ->. exfalso. exact (span_loop_more _ _ _ _ _ _ _ L).
  - destruct b; [discriminate|]. intros H; inversion H; auto.
Qed.

Lemma scan_span_bounds d data b n d' : data <> [] ->
  scan_span d data b = LTok n d' -> 0 < n /\ n <= length data.
Proof.
  unfold scan_span. intros Hne.
  destruct (span_loop d [] data 0 None x00) as [r|] eqn:L.
  - intros ->. apply span_loop_bounds in L; [lia|exact I].
  - destruct b; [|discriminate]. intros H; inversion H; subst.
    destruct data; [congruence|cbn; lia].
Qed.

(* ------------------------------------------------------------------ newline index, fence prefix *)

Lemma index_where_app {A} (p : A -> bool) l e k :
  index_where p l = Some k -> index_where p (l ++ e) = Some k.
Proof.
  revert k; induction l as [|x l IH]; intros k; [discriminate|].
  cbn. destruct (p x); [auto|].
  destruct (index_where p l) as [j|]; [|discriminate].
  intros H. rewrite (IH j eq_refl). exact H.
Qed.

Lemma index_where_lt {A} (p : A -> bool) l k : index_where p l = Some k -> k < length l.
Proof.
  revert k; induction l as [|x l IH]; intros k; [discriminate|].
  cbn. destruct (p x); [intros H; inversion H; lia|].
  destruct (index_where p l) as [j|]; [|discriminate].
  intros H; inversion H; subst. specialize (IH j eq_refl). lia.
Qed.

Lemma nl_index_app data e k : nl_index data = Some k -> nl_index (data ++ e) = Some k.
Proof. apply index_where_app. Qed.

Lemma is_prefix_app p s e : is_prefix p s = true -> is_prefix p (s ++ e) = true.
Proof.
  revert s; induction p as [|x p IH]; intros s; [reflexivity|].
  destruct s as [|y s]; [discriminate|]. cbn.
  intros H. apply andb_true_iff in H. destruct H as [H1 H2]. rewrite H1, (IH _ H2). reflexivity.
Qed.

Lemma is_prefix_app_len p s e : length p <= length s -> is_prefix p (s ++ e) = is_prefix p s.
Proof.
  revert s; induction p as [|x p IH]; intros s Hl; [reflexivity|].
  destruct s as [|y s]; [cbn in Hl; lia|]. cbn in *.
  rewrite IH by lia. reflexivity.
Qed.

Lemma is_prefix_len p s : is_prefix p s = true -> length p <= length s.
Proof.
  revert s; induction p as [|x p IH]; intros s; [cbn; lia|].
  destruct s as [|y s]; [discriminate|]. cbn.
  intros H. apply andb_true_iff in H. destruct H as [_ H2]. specialize (IH _ H2). lia.
Qed.

(* a fence prefix of the extension that is not one of the data means the data
   is a proper prefix of the fence: it has no newline and no token can come *)
Lemma fence_prefix_short data e :
  is_prefix fence data = false -> is_prefix fence (data ++ e) = true ->
  length data < 3 /\ forall x, In x data -> x = c_tick.
Proof.
  rewrite fence_is.
  destruct data as [|a [|b [|c t]]]; cbn [is_prefix app length In].
  - intros _ _. split; [lia|tauto].
  - intros _ H. apply andb_true_iff in H. destruct H as [H _]. apply byte_eqb_eq in H.
    split; [lia|]. intros x [<-|[]]. auto.
  - intros _ H. apply andb_true_iff in H. destruct H as [H1 H]. apply andb_true_iff in H. destruct H as [H2 _].
    apply byte_eqb_eq in H1, H2. split; [lia|]. intros x [<-|[<-|[]]]; auto.
  - intros H1 H2. rewrite H1 in H2. discriminate.
Qed.

Lemma index_where_In {A} (p : A -> bool) l k :
  index_where p l = Some k -> exists x, In x l /\ p x = true.
Proof.
  revert k; induction l as [|x l IH]; intros k; [discriminate|].
  cbn. destruct (p x) eqn:P; [intros _; exists x; auto|].
  destruct (index_where p l) as [j|]; [|discriminate].
  intros _. destruct (IH j eq_refl) as [y [Hy Py]]. exists y; auto.
Qed.

Lemma index_where_none_app {A} (p : A -> bool) l e :
  index_where p l = None ->
  index_where p (l ++ e) = option_map (fun k => length l + k) (index_where p e).
Proof.
  induction l as [|x l IH]; intros H.
  - cbn. destruct (index_where p e); reflexivity.
  - cbn in *. destruct (p x); [discriminate|].
    destruct (index_where p l); [discriminate|].
    rewrite IH by reflexivity. destruct (index_where p e); reflexivity.
Qed.

Lemma fence_nl_ge3 data k : is_prefix fence data = true -> nl_index data = Some k -> 3 <= k.
Proof.
  rewrite fence_is. unfold nl_index.
  destruct data as [|a [|b [|c t]]]; cbn [is_prefix]; intros H;
    repeat (apply andb_true_iff in H; let H1 := fresh "E" in destruct H as [H1 H]);
    try discriminate.
  apply byte_eqb_eq in E, E0, E1. subst. cbn [index_where].
  change (is_nl c_tick) with false. cbv iota.
  destruct (index_where is_nl t); cbn; [|discriminate]. intros H'; inversion H'. lia.
Qed.

Lemma no_fence_after_nl data e k :
  is_prefix fence data = false -> nl_index data = Some k -> is_prefix fence (data ++ e) = false.
Proof.
  intros Hp Hn. destruct (is_prefix fence (data ++ e)) eqn:P; [|reflexivity].
  destruct (fence_prefix_short _ _ Hp P) as [_ Hall].
  destruct (index_where_In _ _ _ Hn) as [x [Hx Px]].
  rewrite (Hall x Hx) in Px. discriminate.
Qed.

(* ------------------------------------------------------------------ scanPre *)

Lemma fence_len : length fence = 3.
Proof. rewrite fence_is. reflexivity. Qed.

Lemma scan_pre_ext d data n d' e b :
  scan_pre d data false = LTok n d' -> scan_pre d (data ++ e) b = LTok n d'.
Proof.
  unfold scan_pre. rewrite fence_len. cbn [negb andb].
  destruct (nl_index data) as [k|] eqn:Hn.
  2:{ cbn [opt_is opt_none orb andb]. rewrite andb_false_r.
      destruct (is_prefix fence data && true && (length data =? 3)); discriminate. }
  rewrite (nl_index_app _ e _ Hn). cbn [opt_is opt_none]. rewrite !andb_false_r, !orb_false_r.
  pose proof (index_where_lt _ _ _ Hn) as Hk.
  destruct (is_prefix fence data) eqn:Hp.
  - pose proof (fence_nl_ge3 _ _ Hp Hn) as H3.
    rewrite (is_prefix_app _ _ e Hp). cbn [andb].
    rewrite app_length.
    replace (length data =? 3) with false by lia.
    replace (length data + length e =? 3) with false by lia.
    rewrite andb_false_r. auto.
  - rewrite (no_fence_after_nl _ e _ Hp Hn). cbn [andb]. auto.
Qed.

Lemma scan_pre_more d data b d1 : scan_pre d data b = LMore d1 -> d1 = d /\ b = false.
Proof.
  unfold scan_pre.
  destruct (is_prefix fence data && negb b && (length data =? length fence)) eqn:C1.
  - intros H; inversion H. split; [reflexivity|]. destruct b; [|reflexivity].
    rewrite andb_false_r in C1. discriminate.
  - destruct (is_prefix fence data && (opt_is (nl_index data) (length fence) || b && opt_none (nl_index data)));
      [discriminate|].
    destruct (nl_index data); [discriminate|]. destruct b; [discriminate|].
    intros H; inversion H; auto.
Qed.

Lemma scan_pre_bounds d data b n d' : data <> [] ->
  scan_pre d data b = LTok n d' -> 0 < n /\ n <= length data.
Proof.
  unfold scan_pre. rewrite fence_len. intros Hne.
  destruct (is_prefix fence data && negb b && (length data =? 3)); [discriminate|].
  destruct (nl_index data) as [k|] eqn:Hn.
  - pose proof (index_where_lt _ _ _ Hn) as Hk.
    destruct (is_prefix fence data) eqn:Hp; cbn [andb opt_is opt_none].
    + pose proof (fence_nl_ge3 _ _ Hp Hn) as H3.
      rewrite andb_false_r, orb_false_r.
      destruct (k =? 3) eqn:K3; intros H; inversion H; subst; lia.
    + intros H; inversion H; subst; lia.
  - cbn [opt_is opt_none]. cbn [orb]. rewrite andb_true_r.
    destruct (is_prefix fence data) eqn:Hp; cbn [andb].
    + apply is_prefix_len in Hp. rewrite fence_len in Hp.
      destruct b; intros H; inversion H; subst; lia.
    + destruct b; [|discriminate]. intros H; inversion H; subst.
      destruct data; [congruence|cbn; lia].
Qed.

(* ------------------------------------------------------------------ the tail of scan *)

Lemma span_loop_ticks d : l_stack d = [] ->
  span_loop d [] [c_tick] 0 None x00 = None /\
  span_loop d [] [c_tick; c_tick] 0 None x00 = None.
Proof.
  intros Hs. unfold span_loop, top_is. rewrite Hs.
  change (is_nl c_tick) with false. change (is_directive c_tick) with true.
  cbn [negb head_is Nat.eqb orb andb].
  change (byte_eqb c_tick c_tick) with true.
  change (byte_eqb c_tick x00) with false.
  change (is_space (fst (decode_rune []))) with false.
  change (is_space (fst (decode_rune [c_tick]))) with false.
  change (is_space (fst (decode_last_rune_rev []))) with false.
  change (is_space (fst (decode_last_rune_rev [c_tick]))) with false.
  cbn [negb andb orb Nat.ltb Nat.leb].
  destruct (N.land (l_mask d) sSpanPre =? 0)%N; cbn [andb]; split; reflexivity.
Qed.

Lemma scan_span_short_ticks d data : l_stack d = [] ->
  length data < 3 -> (forall x, In x data -> x = c_tick) -> scan_span d data false = LMore d.
Proof.
  intros Hs Hl Hall. unfold scan_span.
  destruct (span_loop_ticks d Hs) as [H1 H2].
  destruct data as [|a [|b [|c t]]]; [reflexivity| | |cbn in Hl; lia].
  - rewrite (Hall a (or_introl eq_refl)), H1. reflexivity.
  - rewrite (Hall a (or_introl eq_refl)), (Hall b (or_intror (or_introl eq_refl))), H2. reflexivity.
Qed.

Lemma scan_own_ext d data n d' e b : l_stack d = [] ->
  scan_own d data false = LTok n d' -> scan_own d (data ++ e) b = LTok n d'.
Proof.
  intros Hs. unfold scan_own.
  destruct (is_prefix fence data) eqn:Hp.
  - rewrite (is_prefix_app _ _ e Hp).
    destruct (nl_index data) as [k|] eqn:Hn; [|discriminate].
    rewrite (nl_index_app _ e _ Hn).
    pose proof (fence_nl_ge3 _ _ Hp Hn). replace (0 <? k) with true by lia. auto.
  - intros H. destruct (is_prefix fence (data ++ e)) eqn:Hp'.
    + destruct (fence_prefix_short _ _ Hp Hp') as [Hl Hall].
      rewrite (scan_span_short_ticks d data Hs Hl Hall) in H. discriminate.
    + apply scan_span_ext, H.
Qed.

Lemma scan_own_more d data b d1 : scan_own d data b = LMore d1 -> d1 = d /\ b = false.
Proof.
  unfold scan_own. destruct (is_prefix fence data).
  - destruct (nl_index data) as [k|].
    + destruct (0 <? k); [discriminate|]. destruct b; [discriminate|]. apply scan_span_more.
    + destruct b; [discriminate|]. intros H; inversion H; auto.
  - apply scan_span_more.
Qed.

Lemma scan_own_bounds d data b n d' : data <> [] ->
  scan_own d data b = LTok n d' -> 0 < n /\ n <= length data.
Proof.
  unfold scan_own. intros Hne.
  destruct (is_prefix fence data) eqn:Hp; [|apply scan_span_bounds, Hne].
  apply is_prefix_len in Hp. rewrite fence_len in Hp.
  destruct (nl_index data) as [k|] eqn:Hn.
  - pose proof (index_where_lt _ _ _ Hn) as Hk.
    destruct (0 <? k); [intros H; inversion H; subst; lia|].
    destruct b; [intros H; inversion H; subst; lia|apply scan_span_bounds, Hne].
  - destruct b; [|discriminate]. intros H; inversion H; subst; lia.
Qed.

(* ------------------------------------------------------------------ startsBlockQuote *)

Lemma full_rune_app s e : full_rune s = true -> full_rune (s ++ e) = true.
Proof.
  destruct s as [|p0 t]; [discriminate|].
  unfold full_rune. cbn [app].
  destruct (bN p0 <? 128)%N; [reflexivity|].
  destruct (lead (bN p0)) as [[[sz lo] hi]|] eqn:L; [|reflexivity].
  destruct (lead_sz _ _ _ _ L) as [[ -> | [ -> | -> ]] _];
    destruct t as [|p1 [|p2 [|p3 t3]]]; cbn [shorter app negb];
    intros H; ifs; try reflexivity; try discriminate; try assumption.
Qed.

Lemma skipn_skipn' {A} : forall x y (l : list A), skipn x (skipn y l) = skipn (x + y) l.
Proof.
  intros x y; revert x; induction y as [|y IH]; intros x l.
  - rewrite Nat.add_0_r. reflexivity.
  - destruct l as [|a l]; [rewrite !skipn_nil; reflexivity|].
    rewrite Nat.add_succ_r. cbn [skipn]. apply IH.
Qed.

Lemma sbq_loop_ge : forall fuel data l, l <= sbq_loop fuel data l.
Proof.
  induction fuel as [|f IH]; intros data l; cbn [sbq_loop]; [lia|].
  destruct data as [|x t]; [lia|].
  destruct (decode_rune (x :: t)) as [r size].
  destruct (is_space r); [|lia].
  specialize (IH (skipn size (x :: t)) (size + l)). lia.
Qed.

Lemma sbq_loop_le : forall fuel data l, sbq_loop fuel data l <= l + length data.
Proof.
  induction fuel as [|f IH]; intros data l; cbn [sbq_loop]; [lia|].
  destruct data as [|x t]; [cbn; lia|].
  pose proof (decode_rune_size (x :: t) ltac:(congruence)) as Hsz.
  destruct (decode_rune (x :: t)) as [r size]. cbn [snd] in Hsz.
  destruct (is_space r); [|lia].
  specialize (IH (skipn size (x :: t)) (size + l)).
  rewrite skipn_length in IH. lia.
Qed.

Lemma sbq_loop_ext : forall fuel data l e fuel',
  length data <= fuel -> length (data ++ e) <= fuel' ->
  sbq_loop fuel data l - l < length data ->
  full_rune (skipn (sbq_loop fuel data l - l) data) = true ->
  sbq_loop fuel' (data ++ e) l = sbq_loop fuel data l.
Proof.
  induction fuel as [|f IH]; intros data l e fuel' Hf Hf' Hlt Hfull.
  { destruct data; cbn in *; lia. }
  destruct data as [|x t]; [cbn in Hlt; lia|].
  destruct fuel' as [|f']; [cbn in Hf'; lia|].
  cbn [sbq_loop] in *. cbn [app].
  change (x :: t ++ e) with ((x :: t) ++ e).
  pose proof (decode_rune_size (x :: t) ltac:(congruence)) as Hsz.
  destruct (decode_rune (x :: t)) as [r size] eqn:D. cbn [snd] in Hsz.
  destruct (is_space r) eqn:Sp.
  - assert (Hfr : full_rune (x :: t) = true) by (apply space_full; rewrite D; exact Sp).
    rewrite (decode_rune_ext _ e Hfr), D, Sp.
    pose proof (sbq_loop_ge f (skipn size (x :: t)) (size + l)) as Hge.
    rewrite skipn_app.
    replace (size - length (x :: t)) with 0 by lia. cbn [skipn].
    apply IH.
    + rewrite skipn_length. cbn [length] in *. lia.
    + rewrite app_length, skipn_length. rewrite app_length in Hf'. cbn [length] in *. lia.
    + rewrite skipn_length. lia.
    + rewrite skipn_skipn'.
      replace (sbq_loop f (skipn size (x :: t)) (size + l) - (size + l) + size)
        with (sbq_loop f (skipn size (x :: t)) (size + l) - l) by lia.
      exact Hfull.
  - replace (l - l) with 0 in Hfull by lia. cbn [skipn] in Hfull.
    rewrite (decode_rune_ext _ e Hfull), D, Sp. reflexivity.
Qed.

Lemma sbq_pos data : (0 <? starts_block_quote data) = head_is data c_gt.
Proof.
  unfold starts_block_quote, head_is. destruct data as [|x t]; [reflexivity|].
  destruct (byte_eqb x c_gt); [|reflexivity].
  pose proof (sbq_loop_ge (length t) t 1). apply Nat.ltb_lt. lia.
Qed.

Lemma sbq_le data : starts_block_quote data <= length data.
Proof.
  unfold starts_block_quote. destruct data as [|x t]; [cbn; lia|].
  destruct (byte_eqb x c_gt); [|lia].
  pose proof (sbq_loop_le (length t) t 1). cbn [length]. lia.
Qed.

(* a decided quote start token stays the same when more data arrives *)
Lemma sbq_ext data e b :
  0 < starts_block_quote data ->
  quote_undecided data (starts_block_quote data) false = false ->
  starts_block_quote (data ++ e) = starts_block_quote data /\
  quote_undecided (data ++ e) (starts_block_quote data) b = false.
Proof.
  unfold quote_undecided. cbn [negb andb]. intros Hpos Hu.
  apply orb_false_iff in Hu. destruct Hu as [Hl Hf].
  apply negb_false_iff in Hf. apply Nat.eqb_neq in Hl.
  pose proof (sbq_le data) as Hle.
  assert (Hext : starts_block_quote (data ++ e) = starts_block_quote data).
  { unfold starts_block_quote in *. destruct data as [|x t]; [lia|]. cbn [app].
    destruct (byte_eqb x c_gt); [|lia].
    cbn [length] in *.
    assert (Hge := sbq_loop_ge (length t) t 1).
    apply sbq_loop_ext; try lia.
    replace (skipn (sbq_loop (length t) t 1) (x :: t))
      with (skipn (sbq_loop (length t) t 1 - 1) t) in Hf; [exact Hf|].
    destruct (sbq_loop (length t) t 1) as [|m]; [lia|]. cbn [skipn]. f_equal. lia. }
  split; [exact Hext|].
  destruct b; [reflexivity|]. cbn [negb andb].
  apply orb_false_iff. split.
  - apply Nat.eqb_neq. rewrite app_length. lia.
  - apply negb_false_iff. rewrite skipn_app.
    replace (starts_block_quote data - length data) with 0 by lia. cbn [skipn].
    apply full_rune_app, Hf.
Qed.

(* ------------------------------------------------------------------ prelude *)

Lemma prelude_nl d : l_nl (prelude_lv d) = false.
Proof. unfold prelude_lv. destruct d as [m c q nl r s]. destruct nl; reflexivity. Qed.

Lemma prelude_clear d : l_clear (prelude_lv d) = 0%N.
Proof. unfold prelude_lv. destruct d as [m c q nl r s]. destruct nl; reflexivity. Qed.

Lemma prelude_stack d : l_stack (prelude_lv d) = l_stack d.
Proof. unfold prelude_lv. destruct d as [m c q nl r s]. destruct nl; reflexivity. Qed.

Lemma prelude_qs d : l_qs (prelude_lv d) = negb (l_nl d) && l_qs d.
Proof. unfold prelude_lv. destruct d as [m c q nl r s]. destruct nl; reflexivity. Qed.

Lemma prelude_fix d : l_nl d = false -> l_clear d = 0%N -> prelude_lv d = d.
Proof.
  unfold prelude_lv. destruct d as [m c q nl r s]. cbn. intros -> ->.
  unfold set_mask. cbn. rewrite N.ldiff_0_r. reflexivity.
Qed.

Lemma prelude_idem d : prelude_lv (prelude_lv d) = prelude_lv d.
Proof. apply prelude_fix; [apply prelude_nl|apply prelude_clear]. Qed.

Lemma prelude_inner_id d inner : l_nl d = false -> prelude_inner d inner = inner.
Proof. unfold prelude_inner. intros ->. reflexivity. Qed.

Lemma prelude_qs_inner d inner : l_qs (prelude_lv d) = true -> prelude_inner d inner = inner.
Proof.
  rewrite prelude_qs. intros H. apply andb_true_iff in H. destruct H as [H _].
  apply negb_true_iff in H. apply prelude_inner_id, H.
Qed.

Lemma set_run_idem d : set_run (set_run d) = set_run d.
Proof. reflexivity. Qed.

Lemma prelude_set_run d : l_nl d = false -> l_clear d = 0%N -> prelude_lv (set_run d) = set_run d.
Proof. intros H1 H2. apply prelude_fix; assumption. Qed.

(* ------------------------------------------------------------------ result plumbing *)

Definition fin (data : bytes) (n : nat) (ds : dec) : dec :=
  match ds with
  | d :: inner => if ends_nl data n then set_nl d :: inner else ds
  | [] => []
  end.

Lemma finish_tok_eq data n ds : finish data (STok n ds) = STok n (fin data n ds).
Proof. unfold finish, fin. destruct ds; [reflexivity|]. destruct (ends_nl data n); reflexivity. Qed.

Lemma finish_more data r ds1 : finish data r = SMore ds1 -> r = SMore ds1.
Proof.
  unfold finish. destruct r as [x|n [|d i]|]; try discriminate; try (intros H; exact H).
  destruct (ends_nl data n); discriminate.
Qed.

Lemma finish_more_eq data ds : finish data (SMore ds) = SMore ds.
Proof. reflexivity. Qed.

Lemma finish_tok data r n ds' :
  finish data r = STok n ds' -> exists ds0, r = STok n ds0 /\ ds' = fin data n ds0.
Proof.
  destruct r as [x|m ds0|]; try discriminate.
  rewrite finish_tok_eq. intros H; inversion H; subst. eauto.
Qed.

Lemma finish_panic data r : finish data r = SPanic -> r = SPanic.
Proof.
  unfold finish. destruct r as [x|n [|d i]|]; try discriminate; auto.
  destruct (ends_nl data n); discriminate.
Qed.

Lemma ends_nl_app data e n : n <= length data -> ends_nl (data ++ e) n = ends_nl data n.
Proof.
  unfold ends_nl. destruct n as [|k]; [reflexivity|]. intros H.
  rewrite nth_error_app1 by lia. reflexivity.
Qed.

Lemma fin_app data e n ds : n <= length data -> fin (data ++ e) n ds = fin data n ds.
Proof. intros H. unfold fin. rewrite ends_nl_app by exact H. reflexivity. Qed.

Lemma lift_l_tok r inner n ds' : lift_l r inner = STok n ds' -> exists d, r = LTok n d /\ ds' = d :: inner.
Proof. destruct r; cbn; [discriminate|]. intros H; inversion H; eauto. Qed.

Lemma lift_l_more r inner ds1 : lift_l r inner = SMore ds1 -> exists d, r = LMore d /\ ds1 = d :: inner.
Proof. destruct r; cbn; [|discriminate]. intros H; inversion H; eauto. Qed.

Lemma lift_l_panic r inner : lift_l r inner <> SPanic.
Proof. destruct r; discriminate. Qed.

Lemma cons_l_tok d r n ds' : cons_l d r = STok n ds' -> exists x, r = STok n x /\ ds' = d :: x.
Proof. destruct r; cbn; try discriminate. intros H; inversion H; eauto. Qed.

Lemma cons_l_more d r ds1 : cons_l d r = SMore ds1 -> exists x, r = SMore x /\ ds1 = d :: x.
Proof. destruct r; cbn; try discriminate. intros H; inversion H; eauto. Qed.

(* ------------------------------------------------------------------ bounds on the advance *)

Lemma scan_span_bounds' d data b n d' : b && is_nil data = false ->
  scan_span d data b = LTok n d' -> 0 < n /\ n <= length data.
Proof.
  destruct data as [|x t]; [|intros _; apply scan_span_bounds; congruence].
  rewrite andb_true_r. intros ->. unfold scan_span. cbn. discriminate.
Qed.

Lemma scan_pre_bounds' d data b n d' : b && is_nil data = false ->
  scan_pre d data b = LTok n d' -> 0 < n /\ n <= length data.
Proof.
  destruct data as [|x t]; [|intros _; apply scan_pre_bounds; congruence].
  rewrite andb_true_r. intros ->. unfold scan_pre. rewrite fence_is. cbn. discriminate.
Qed.

Lemma scan_own_bounds' d data b n d' : b && is_nil data = false ->
  scan_own d data b = LTok n d' -> 0 < n /\ n <= length data.
Proof.
  destruct data as [|x t]; [|intros _; apply scan_own_bounds; congruence].
  rewrite andb_true_r. intros ->. unfold scan_own, scan_span. rewrite fence_is. cbn. discriminate.
Qed.

Lemma scan_body_bounds d1 inner1 rec data b n ds' : b && is_nil data = false ->
  (forall n x, rec tt = STok n x -> 0 < n /\ n <= length data) ->
  scan_body d1 inner1 rec data b = STok n ds' -> 0 < n /\ n <= length data.
Proof.
  intros Hne Hrec. unfold scan_body.
  destruct (l_stack d1).
  2:{ intros H. apply lift_l_tok in H. destruct H as [dd [H _]]. eapply scan_span_bounds'; eauto. }
  destruct (has (l_mask d1) sBlockPre).
  { intros H. apply lift_l_tok in H. destruct H as [dd [H _]]. eapply scan_pre_bounds'; eauto. }
  cbv zeta.
  destruct (0 <? starts_block_quote data) eqn:P.
  - destruct (negb (l_qs d1)).
    + destruct (quote_undecided data (starts_block_quote data) b); [discriminate|].
      intros H; inversion H; subst. pose proof (sbq_le data). apply Nat.ltb_lt in P. lia.
    + intros H. apply cons_l_tok in H. destruct H as [x [H _]]. eapply Hrec; eauto.
  - assert (Hown : lift_l (scan_own (set_run d1) data b) [] = STok n ds' -> 0 < n /\ n <= length data).
    { intros H. apply lift_l_tok in H. destruct H as [dd [H _]]. eapply scan_own_bounds'; eauto. }
    destruct inner1; [exact Hown|].
    destruct (l_qs d1); [|exact Hown].
    intros H. apply cons_l_tok in H. destruct H as [x [H _]]. eapply Hrec; eauto.
Qed.

Lemma scan_bounds : forall ds data b n ds',
  scan ds data b = STok n ds' -> 0 < n /\ n <= length data.
Proof.
  induction ds as [|d inner IH]; intros data b n ds' H; [discriminate|].
  cbn [scan] in H. destruct (b && is_nil data) eqn:E; [discriminate|].
  apply finish_tok in H. destruct H as [ds0 [H _]].
  eapply scan_body_bounds; eauto.
  intros m x Hx. cbv beta in Hx. eapply IH; eauto.
Qed.

Lemma scan_more_nonempty ds data b ds1 : scan ds data b = SMore ds1 -> ds1 <> [].
Proof.
  destruct ds as [|d inner]; [discriminate|]. cbn [scan].
  destruct (b && is_nil data); [intros H; inversion H; congruence|].
  intros H. apply finish_more in H. unfold scan_body in H.
  repeat match goal with
         | H : context [match ?x with _ => _ end] |- _ => destruct x
         end;
    try (apply lift_l_more in H; destruct H as [? [_ ->]]; congruence);
    try (apply cons_l_more in H; destruct H as [? [_ ->]]; congruence);
    try (inversion H; congruence); try discriminate.
Qed.

(* ------------------------------------------------------------------ extension stability of scan (S1) *)

Lemma head_is_app' data e c : data <> [] -> head_is (data ++ e) c = head_is data c.
Proof. apply head_is_app. Qed.

Lemma scan_body_ext d1 inner1 rec rec' data e b n ds' : data <> [] ->
  (forall n x, rec tt = STok n x -> rec' tt = STok n x) ->
  scan_body d1 inner1 rec data false = STok n ds' ->
  scan_body d1 inner1 rec' (data ++ e) b = STok n ds'.
Proof.
  intros Hne Hrec. unfold scan_body.
  destruct (l_stack d1) eqn:Hs.
  2:{ intros H. apply lift_l_tok in H. destruct H as [dd [H ->]].
      rewrite (scan_span_ext _ _ _ _ e b H). reflexivity. }
  destruct (has (l_mask d1) sBlockPre).
  { intros H. apply lift_l_tok in H. destruct H as [dd [H ->]].
    rewrite (scan_pre_ext _ _ _ _ e b H). reflexivity. }
  cbv zeta. rewrite !sbq_pos, (head_is_app' _ e _ Hne).
  destruct (head_is data c_gt) eqn:P.
  - destruct (negb (l_qs d1)).
    + destruct (quote_undecided data (starts_block_quote data) false) eqn:U; [discriminate|].
      assert (Hpos : 0 < starts_block_quote data) by (apply Nat.ltb_lt; rewrite sbq_pos; exact P).
      destruct (sbq_ext data e b Hpos U) as [E1 E2]. rewrite E1, E2. auto.
    + intros H. apply cons_l_tok in H. destruct H as [x [H ->]]. rewrite (Hrec _ _ H). reflexivity.
  - assert (Hown : lift_l (scan_own (set_run d1) data false) [] = STok n ds' ->
                   lift_l (scan_own (set_run d1) (data ++ e) b) [] = STok n ds').
    { intros H. apply lift_l_tok in H. destruct H as [dd [H ->]].
      rewrite (scan_own_ext (set_run d1) _ _ _ e b Hs H). reflexivity. }
    destruct inner1; [exact Hown|].
    destruct (l_qs d1); [|exact Hown].
    intros H. apply cons_l_tok in H. destruct H as [x [H ->]]. rewrite (Hrec _ _ H). reflexivity.
Qed.

Lemma is_nil_app_ne {A} (l e : list A) : l <> [] -> is_nil (l ++ e) = false.
Proof. destruct l; [congruence|reflexivity]. Qed.

Theorem scan_ext : forall ds data n ds' e b,
  scan ds data false = STok n ds' -> scan ds (data ++ e) b = STok n ds'.
Proof.
  induction ds as [|d inner IH]; intros data n ds' e b H; [discriminate|].
  pose proof (scan_bounds _ _ _ _ _ H) as [Hn1 Hn2].
  assert (Hne : data <> []) by (destruct data; [cbn in Hn2; lia|congruence]).
  cbn [scan] in *. cbn [andb] in H.
  rewrite (is_nil_app_ne _ e Hne), andb_false_r.
  apply finish_tok in H. destruct H as [ds0 [H ->]].
  rewrite (scan_body_ext _ _ _ (fun _ => scan inner (data ++ e) b) _ e b _ _ Hne (fun n x Hx => IH _ _ _ e b Hx) H).
  rewrite finish_tok_eq, fin_app by exact Hn2. reflexivity.
Qed.

(* ------------------------------------------------------------------ a request for more data can be repeated (S2) *)

Lemma scan_body_rec_irrel d1 inner1 rec rec' data b :
  (l_qs d1 = true -> rec tt = rec' tt) ->
  scan_body d1 inner1 rec data b = scan_body d1 inner1 rec' data b.
Proof.
  intros H. unfold scan_body.
  destruct (l_stack d1); [|reflexivity].
  destruct (has (l_mask d1) sBlockPre); [reflexivity|]. cbv zeta.
  destruct (0 <? starts_block_quote data).
  - destruct (l_qs d1); cbn [negb]; [rewrite H by reflexivity|]; reflexivity.
  - destruct inner1; [reflexivity|]. destruct (l_qs d1); [rewrite H by reflexivity|]; reflexivity.
Qed.

Lemma scan_body_delegates d1 inner1 rec data b :
  l_stack d1 = [] -> has (l_mask d1) sBlockPre = false -> l_qs d1 = true -> inner1 <> [] ->
  scan_body d1 inner1 rec data b = cons_l d1 (rec tt).
Proof.
  intros Hs Hp Hq Hi. unfold scan_body. rewrite Hs, Hp, Hq. cbv zeta. cbn [negb].
  destruct (0 <? starts_block_quote data); [reflexivity|].
  destruct inner1; [congruence|reflexivity].
Qed.

Theorem scan_more_idem : forall ds data ds1,
  scan ds data false = SMore ds1 -> data <> [] ->
  forall e b, scan ds1 (data ++ e) b = scan ds (data ++ e) b.
Proof.
  induction ds as [|d inner IH]; intros data ds1 H Hne e b; [discriminate|].
  cbn [scan andb] in H. apply finish_more in H.
  set (X := data ++ e).
  assert (HX : b && is_nil X = false) by (unfold X; rewrite (is_nil_app_ne _ e Hne), andb_false_r; reflexivity).
  pose proof (prelude_nl d) as Hnl. pose proof (prelude_clear d) as Hcl.
  set (d1 := prelude_lv d) in *. set (inner1 := prelude_inner d inner) in *.
  assert (RHS : scan (d :: inner) X b = finish X (scan_body d1 inner1 (fun _ => scan inner X b) X b)).
  { cbn [scan]. rewrite HX. reflexivity. }
  (* the state after a repeated prelude *)
  assert (Same : forall dd ii, prelude_lv dd = dd -> l_nl dd = false ->
            scan (dd :: ii) X b = finish X (scan_body dd ii (fun _ => scan ii X b) X b)).
  { intros dd ii E1 E2. cbn [scan]. rewrite HX, E1, (prelude_inner_id _ _ E2). reflexivity. }
  assert (Keep : scan (d1 :: inner1) X b = scan (d :: inner) X b).
  { rewrite RHS, (Same d1 inner1 (prelude_idem d) Hnl). f_equal.
    apply scan_body_rec_irrel. intros Hq. unfold inner1. rewrite (prelude_qs_inner _ _ Hq). reflexivity. }
  unfold scan_body in H.
  destruct (l_stack d1) eqn:Hs.
  2:{ apply lift_l_more in H. destruct H as [dd [H ->]].
      apply scan_span_more in H. destruct H as [-> _]. exact Keep. }
  destruct (has (l_mask d1) sBlockPre) eqn:Hp.
  { apply lift_l_more in H. destruct H as [dd [H ->]].
    apply scan_pre_more in H. destruct H as [-> _].
    rewrite RHS, (Same (set_run d1) inner1 (prelude_set_run _ Hnl Hcl) Hnl). f_equal.
    unfold scan_body. cbn [set_run l_stack l_mask]. rewrite Hs, Hp. reflexivity. }
  cbv zeta in H. rewrite sbq_pos in H.
  assert (HeadX : head_is X c_gt = head_is data c_gt) by (apply head_is_app', Hne).
  destruct (head_is data c_gt) eqn:P.
  - destruct (l_qs d1) eqn:Hq; cbn [negb] in H.
    + (* delegated *)
      apply cons_l_more in H. destruct H as [x [H ->]].
      assert (Hin : inner <> []) by (destruct inner; [discriminate|congruence]).
      pose proof (scan_more_nonempty _ _ _ _ H) as Hx.
      rewrite RHS, (Same d1 x (prelude_idem d) Hnl).
      unfold inner1. rewrite (prelude_qs_inner _ _ Hq).
      rewrite !scan_body_delegates by assumption.
      pose proof (IH _ _ H Hne e b) as IHx. fold X in IHx. rewrite IHx. reflexivity.
    + destruct (quote_undecided data (starts_block_quote data) false); [|discriminate].
      inversion H; subst. exact Keep.
  - assert (Own : lift_l (scan_own (set_run d1) data false) [] = SMore ds1 ->
                  (inner1 = [] \/ l_qs d1 = false) ->
                  scan ds1 X b = scan (d :: inner) X b).
    { intros Ho Hc. apply lift_l_more in Ho. destruct Ho as [dd [Ho ->]].
      apply scan_own_more in Ho. destruct Ho as [-> _].
      rewrite RHS, (Same (set_run d1) [] (prelude_set_run _ Hnl Hcl) Hnl). f_equal.
      unfold scan_body. cbn [set_run l_stack l_mask l_qs]. rewrite Hs, Hp. cbv zeta.
      rewrite sbq_pos, HeadX.
      destruct Hc as [-> | Hq]; [reflexivity|]. rewrite Hq. destruct inner1; reflexivity. }
    destruct inner1 as [|i0 it] eqn:Ei; [apply Own; [exact H|left; reflexivity]|].
    destruct (l_qs d1) eqn:Hq; [|apply Own; [exact H|right; reflexivity]].
    apply cons_l_more in H. destruct H as [x [H ->]].
    assert (Hin : inner <> []) by (destruct inner; [discriminate|congruence]).
    pose proof (scan_more_nonempty _ _ _ _ H) as Hx.
    rewrite RHS, (Same d1 x (prelude_idem d) Hnl).
    assert (Ei' : inner1 = inner) by (apply prelude_qs_inner, Hq).
    rewrite Ei in Ei'. rewrite Ei'.
    rewrite !scan_body_delegates by assumption.
    pose proof (IH _ _ H Hne e b) as IHx. fold X in IHx. rewrite IHx. reflexivity.
Qed.

(* at EOF with data left the split function always returns a token *)
Lemma scan_eof_tok : forall ds data ds1, data <> [] -> scan ds data true <> SMore ds1.
Proof.
  induction ds as [|d inner IH]; intros data ds1 Hne H; [discriminate|].
  cbn [scan] in H. destruct data as [|c t]; [congruence|]. cbn [andb is_nil] in H.
  apply finish_more in H. unfold scan_body in H.
  destruct (l_stack (prelude_lv d)).
  2:{ apply lift_l_more in H. destruct H as [dd [H _]]. apply scan_span_more in H. destruct H; discriminate. }
  destruct (has (l_mask (prelude_lv d)) sBlockPre).
  { apply lift_l_more in H. destruct H as [dd [H _]]. apply scan_pre_more in H. destruct H; discriminate. }
  cbv zeta in H.
  assert (Own : forall dd, lift_l (scan_own dd (c :: t) true) [] <> SMore ds1).
  { intros dd Ho. apply lift_l_more in Ho. destruct Ho as [x [Ho _]].
    apply scan_own_more in Ho. destruct Ho; discriminate. }
  assert (Rec : forall dd, cons_l dd (scan inner (c :: t) true) <> SMore ds1).
  { intros dd Hc. apply cons_l_more in Hc. destruct Hc as [x [Hc _]]. exact (IH _ _ Hne Hc). }
  destruct (0 <? starts_block_quote (c :: t)).
  - destruct (negb (l_qs (prelude_lv d))).
    + unfold quote_undecided in H. cbn [negb andb] in H. discriminate.
    + exact (Rec _ H).
  - destruct (prelude_inner d inner); [exact (Own _ H)|].
    destruct (l_qs (prelude_lv d)); [exact (Rec _ H)|exact (Own _ H)].
Qed.

(* ------------------------------------------------------------------ well-formed chains, no panic *)

Fixpoint wf (ds : dec) : Prop :=
  match ds with
  | [] => False
  | d :: inner => if l_qs d then wf inner else Forall (fun x => l_qs x = false) inner
  end.

Lemma wf_dec0 : wf dec0.
Proof. cbn. constructor. Qed.

Lemma wf_all_false ds : ds <> [] -> Forall (fun x => l_qs x = false) ds -> wf ds.
Proof.
  destruct ds as [|d inner]; [congruence|]. intros _ H. inversion H; subst. cbn. rewrite H2. exact H3.
Qed.

Lemma Forall_reset inner : Forall (fun x => l_qs x = false) (map reset_lv inner).
Proof. induction inner; constructor; auto. Qed.

Lemma wf_prelude d inner : wf (d :: inner) -> wf (prelude_lv d :: prelude_inner d inner).
Proof.
  cbn [wf]. rewrite prelude_qs. unfold prelude_inner.
  destruct (l_nl d); cbn [negb andb]; [intros _; apply Forall_reset|auto].
Qed.

Lemma wf_head_irrel d d' inner : l_qs d' = l_qs d -> wf (d :: inner) -> wf (d' :: inner).
Proof. cbn [wf]. intros ->. auto. Qed.

Lemma wf_fin data n ds : wf ds -> wf (fin data n ds).
Proof.
  unfold fin. destruct ds as [|d inner]; [auto|].
  destruct (ends_nl data n); [|auto]. apply wf_head_irrel. reflexivity.
Qed.

Lemma scan_span_qs d data b n d' : scan_span d data b = LTok n d' -> l_qs d' = l_qs d.
Proof.
  unfold scan_span.
  assert (L : forall rest pr i st sd n d', span_loop d pr rest i st sd = Some (LTok n d') -> l_qs d' = l_qs d).
  { induction rest as [|c rest IH]; intros pr i st sd m dd H; [discriminate|].
    cbn [span_loop] in H.
    destruct (is_nl c); [inversion H; reflexivity|].
    destruct (is_directive c); cbn [negb] in H; [|eapply IH; eauto].
    destruct (top_is d c).
    { destruct (i =? 0); [destruct (end_bits c)|]; inversion H; reflexivity. }
    match goal with H : (if ?c then _ else _) = _ |- _ => destruct c end.
    - ifs; eapply IH; eauto.
    - match goal with H : (if ?c then _ else _) = _ |- _ => destruct c end; [|eapply IH; eauto].
      destruct st as [[|s']|]; try destruct (start_bits c); inversion H; reflexivity. }
  destruct (span_loop d [] data 0 None x00) as [r|] eqn:E.
  - intros ->. eapply L; eauto.
  - destruct b; [|discriminate]. intros H; inversion H; reflexivity.
Qed.

Lemma scan_pre_qs d data b n d' : scan_pre d data b = LTok n d' -> l_qs d' = l_qs d.
Proof.
  unfold scan_pre. ifs; try discriminate; intros H; inversion H; try reflexivity.
  destruct (nl_index data); [inversion H; reflexivity|]. destruct b; [inversion H; reflexivity|discriminate].
  destruct (nl_index data); [inversion H; reflexivity|]. destruct b; [inversion H; reflexivity|discriminate].
Qed.

Lemma scan_own_qs d data b n d' : scan_own d data b = LTok n d' -> l_qs d' = l_qs d.
Proof.
  unfold scan_own. destruct (is_prefix fence data); [|apply scan_span_qs].
  destruct (nl_index data) as [k|].
  - destruct (0 <? k); [intros H; inversion H; reflexivity|].
    destruct b; [intros H; inversion H; reflexivity|apply scan_span_qs].
  - destruct b; [|discriminate]. intros H; inversion H; reflexivity.
Qed.

Lemma wf_nonempty ds : wf ds -> ds <> [].
Proof. destruct ds; [intros []|congruence]. Qed.

(* one lemma for all three outcomes: no panic, and the chain stays well formed *)
Lemma scan_wf : forall ds data b, wf ds ->
  match scan ds data b with
  | SMore ds1 => wf ds1
  | STok _ ds' => wf ds'
  | SPanic => False
  end.
Proof.
  induction ds as [|d inner IH]; intros data b W; [destruct W|].
  cbn [scan]. destruct (b && is_nil data); [exact W|].
  apply wf_prelude in W.
  set (d1 := prelude_lv d) in *. set (inner1 := prelude_inner d inner) in *.
  assert (Hinner : l_qs d1 = true -> inner1 = inner) by (apply prelude_qs_inner).
  clearbody d1 inner1.
  assert (Fin : forall r, match r with SMore x => wf x | STok _ x => wf x | SPanic => False end ->
                          match finish data r with SMore x => wf x | STok _ x => wf x | SPanic => False end).
  { intros [x|n x|]; [auto| |auto]. rewrite finish_tok_eq. apply wf_fin. }
  apply Fin. unfold scan_body.
  assert (Lift : forall r dd, (forall n d', r = LTok n d' -> l_qs d' = l_qs dd) ->
                   (forall d', r = LMore d' -> d' = dd) -> wf (dd :: inner1) ->
                   match lift_l r inner1 with SMore x => wf x | STok _ x => wf x | SPanic => False end).
  { intros [dm|n dt] dd Hq Hm Wd; cbn [lift_l].
    - rewrite (Hm _ eq_refl). exact Wd.
    - eapply wf_head_irrel; [|exact Wd]. eapply Hq; reflexivity. }
  destruct (l_stack d1).
  2:{ apply Lift with (dd := d1); [intros; eapply scan_span_qs; eauto| |exact W].
      intros d' H. apply scan_span_more in H. tauto. }
  destruct (has (l_mask d1) sBlockPre).
  { apply Lift with (dd := set_run d1); [intros; eapply scan_pre_qs; eauto| |exact W].
    intros d' H. apply scan_pre_more in H. tauto. }
  cbv zeta.
  assert (Own : match lift_l (scan_own (set_run d1) data b) [] with
                | SMore x => wf x | STok _ x => wf x | SPanic => False end ->
                True) by auto.
  assert (OwnOK : l_qs d1 = false ->
                  match lift_l (scan_own (set_run d1) data b) [] with
                  | SMore x => wf x | STok _ x => wf x | SPanic => False end).
  { intros Hq. destruct (scan_own (set_run d1) data b) as [dm|n dt] eqn:E; cbn [lift_l wf].
    - apply scan_own_more in E. destruct E as [-> _]. cbn. rewrite Hq. constructor.
    - apply scan_own_qs in E. cbn in E. rewrite E, Hq. constructor. }
  assert (Rec : l_qs d1 = true ->
                match cons_l d1 (scan inner data b) with
                | SMore x => wf x | STok _ x => wf x | SPanic => False end).
  { intros Hq. cbn [wf] in W. rewrite Hq in W.
    rewrite (Hinner Hq) in W.
    specialize (IH data b W).
    destruct (scan inner data b); cbn [cons_l wf]; try rewrite Hq; exact IH. }
  destruct (0 <? starts_block_quote data).
  - destruct (l_qs d1) eqn:Hq; cbn [negb]; [apply Rec; reflexivity|].
    destruct (quote_undecided data (starts_block_quote data) b); [exact W|].
    cbn [wf quote_start l_qs]. cbn [wf] in W. rewrite Hq in W.
    destruct inner1 as [|i0 it]; [cbn; constructor|].
    apply wf_all_false; [congruence|exact W].
  - destruct inner1 as [|i0 it] eqn:Ei.
    + apply OwnOK. cbn [wf] in W. destruct (l_qs d1); [destruct W|reflexivity].
    + destruct (l_qs d1) eqn:Hq; [apply Rec; reflexivity|apply OwnOK; reflexivity].
Qed.

Lemma scan_no_panic ds data b : wf ds -> scan ds data b <> SPanic.
Proof. intros W H. pose proof (scan_wf ds data b W) as P. rewrite H in P. exact P. Qed.

Lemma scan_tok_wf ds data b n ds' : wf ds -> scan ds data b = STok n ds' -> wf ds'.
Proof. intros W H. pose proof (scan_wf ds data b W) as P. rewrite H in P. exact P. Qed.

Lemma scan_more_wf ds data b ds1 : wf ds -> scan ds data b = SMore ds1 -> wf ds1.
Proof. intros W H. pose proof (scan_wf ds data b W) as P. rewrite H in P. exact P. Qed.

Lemma quote_chain_wf ds : wf ds -> exists q, quote_chain ds = Some q.
Proof.
  induction ds as [|d inner IH]; [intros []|]. cbn [wf quote_chain].
  destruct (l_qs d); [|eauto]. intros W. destruct (IH W) as [q ->]. eauto.
Qed.
