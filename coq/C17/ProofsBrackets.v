(* C17/ProofsBrackets.v — the bracket discipline: an invariant over the chain of
   decoders and the remaining input that every token of the chunk-free reading
   preserves, and from which the checker [brackets_from] accepts the token
   sequence of every run. *)
From Coq Require Import ZifyBool ZifyNat ZifyN.
From XV Require Import lib.Bytes gen.Styling C17.Model C17.ProofsScan C17.ProofsBits C17.ProofsSpan
  C17.ProofsLevel C17.ProofsRun.

Ltac splits := repeat match goal with |- _ /\ _ => split end.

(* ------------------------------------------------------------------ chains *)

Definition dlevel (d : level) : Prop :=
  l_qs d = false /\ l_run d = false /\ l_stack d = [] /\ lv_ok d.

(* a chain that has not run on the current line yet *)
Fixpoint dormant (ds : dec) : Prop :=
  match ds with
  | [] => True
  | d :: inner => dlevel d /\ (anyb (l_mask d) sBlockPre = true -> inner = []) /\ dormant inner
  end.

(* a chain that has: quote levels delegate to the chain below; the last level
   that has run owns the blocks and spans; [f] is lastNewline of all of them *)
Fixpoint active (f : bool) (ds : dec) : Prop :=
  match ds with
  | [] => False
  | d :: inner =>
      lv_ok d /\ l_run d = true /\ l_nl d = f /\
      (anyb (l_mask d) sBlockPre = true -> inner = []) /\
      if l_qs d
      then l_stack d = [] /\ anyb (l_mask d) sBlockPre = false /\
           (forall c, In c span_chars -> anyb (l_mask d) (sk_style c) = false) /\
           inner <> [] /\ (active f inner \/ dormant inner)
      else inner = []
  end.

(* the stack of open spans of the whole chain *)
Fixpoint gstack (ds : dec) : bytes :=
  match ds with
  | [] => []
  | d :: inner => if l_qs d then gstack inner else l_stack d
  end.

Lemma dormant_gstack ds : dormant ds -> gstack ds = [].
Proof. destruct ds as [|d inner]; [reflexivity|]. cbn. intros [[Q [_ [S _]]] _]. rewrite Q. exact S. Qed.

Lemma dormant_style ds : dormant ds -> style_chain ds = 0%N.
Proof. destruct ds as [|d inner]; [reflexivity|]. cbn. intros [[_ [R _]] _]. rewrite R. reflexivity. Qed.

Lemma dormant_level0 : dormant [level0].
Proof.
  cbn [dormant]. split; [|split; [intros _; reflexivity|exact I]].
  unfold dlevel. split; [reflexivity|split; [reflexivity|split; [reflexivity|apply level0_ok]]].
Qed.

Lemma dlevel_reset d : lv_ok d -> l_stack d = [] -> dlevel (reset_lv d).
Proof.
  intros O S. unfold dlevel. split; [reflexivity|split; [reflexivity|split; [exact S|apply lv_ok_reset, O]]].
Qed.

Lemma reset_dormant f : forall ds, (active f ds \/ dormant ds) -> gstack ds = [] -> dormant (map reset_lv ds).
Proof.
  induction ds as [|d inner IH]; [intros _ _; exact I|].
  intros [A|D] G; cbn [map dormant].
  - cbn [active] in A. destruct A as [O [R [N [BP Q]]]]. cbn [gstack] in G.
    assert (S : l_stack d = []).
    { destruct (l_qs d); [apply Q|exact G]. }
    split; [|split].
    + apply dlevel_reset; assumption.
    + intros H. cbn in H. rewrite (BP H). reflexivity.
    + destruct (l_qs d).
      * apply IH; [apply Q|exact G].
      * rewrite Q. exact I.
  - cbn [dormant] in D. destruct D as [[Q [R [S O]]] [BP D]].
    split; [|split].
    + apply dlevel_reset; assumption.
    + intros H. cbn in H. rewrite (BP H). reflexivity.
    + apply IH; [right; exact D|apply dormant_gstack, D].
Qed.

Lemma active_nonempty f ds : active f ds -> ds <> [].
Proof. destruct ds; [intros []|congruence]. Qed.

(* ------------------------------------------------------------------ facts about the bits a step sets *)

Lemma pre_ok_set_run d : pre_ok d -> pre_ok (set_run d).
Proof. intros [O C N D]. constructor; auto. apply lv_ok_set_run, O. Qed.

Lemma tick_style : sk_style c_tick = sSpanPre.
Proof. reflexivity. Qed.

Lemma tick_in : In c_tick span_chars.
Proof. cbn. tauto. Qed.

Lemma plain_bits d c : pre_ok d -> In c span_chars ->
  anyb (l_mask d) (sk_start c) = false /\ anyb (l_mask d) (sk_end c) = false /\
  anyb (l_mask d) (sk_style c) = in_bytes c (l_stack d).
Proof.
  intros P Hc. destruct (po_nodir d P _ (span_triple_in c Hc)) as [A E]. cbn [fst snd] in *.
  splits; auto. apply pre_ok_spans; assumption.
Qed.

Lemma push_bits d c c' : pre_ok d -> In c span_chars -> In c' span_chars ->
  anyb (l_mask (push_lv d c)) (sk_start c') = byte_eqb c' c /\
  anyb (l_mask (push_lv d c)) (sk_end c') = false /\
  anyb (l_mask (push_lv d c)) (sk_style c') = in_bytes c' (c :: l_stack d).
Proof.
  intros P Hc Hc'. destruct (plain_bits d c' P Hc') as [A [E S]].
  unfold push_lv. cbn [set_stack add_mask set_mask l_mask].
  pose proof (single_style c' Hc'). pose proof (single_start c' Hc'). pose proof (single_end c' Hc').
  rewrite !anyb_lor by assumption. rewrite A, E, S.
  rewrite (start_vs_style c c' Hc Hc'), (start_vs_start c c' Hc Hc'), (end_vs_style c c' Hc Hc'),
          (end_vs_start c c' Hc Hc'), (style_vs_style c c' Hc Hc'), (style_vs_start c c' Hc Hc').
  cbn [orb]. rewrite orb_false_r, in_bytes_cons. splits; auto. apply orb_comm.
Qed.

Lemma pop_bits d c c' : pre_ok d -> In c span_chars -> In c' span_chars ->
  anyb (l_mask (pop_lv d c)) (sk_start c') = false /\
  anyb (l_mask (pop_lv d c)) (sk_end c') = byte_eqb c' c /\
  anyb (l_mask (pop_lv d c)) (sk_style c') = in_bytes c' (l_stack d).
Proof.
  intros P Hc Hc'. destruct (plain_bits d c' P Hc') as [A [E S]].
  unfold pop_lv. cbn [set_stack add_mask set_mask l_mask].
  pose proof (single_style c' Hc'). pose proof (single_start c' Hc'). pose proof (single_end c' Hc').
  rewrite !anyb_lor by assumption. rewrite A, E, S.
  rewrite (start_vs_end c c' Hc Hc'), (end_vs_end c c' Hc Hc'), (style_vs_end c c' Hc Hc').
  cbn [orb]. rewrite orb_false_r. auto.
Qed.

Lemma pop_no_start d c : pre_ok d -> In c span_chars -> any_start (l_mask (pop_lv d c)) = false.
Proof.
  intros P Hc. unfold any_start. destruct (existsb _ dir_triples) eqn:E; [|reflexivity].
  apply existsb_exists in E. destruct E as [[[s a] e] [Hk Ha]].
  destruct (triple_single _ Hk) as [_ [Sa _]]. destruct (po_nodir d P _ Hk) as [A _]. cbn [fst snd] in *.
  unfold pop_lv in Ha. cbn [set_stack add_mask set_mask l_mask] in Ha.
  rewrite anyb_lor in Ha by exact Sa. rewrite A in Ha. cbn [orb] in Ha.
  revert Ha. revert Hk. clear - Hc.
  intros Hk. destruct (in_dir_triples _ Hk) as [[c' [Hc' Ek]]|[Ek|Ek]]; inversion Ek; subst.
  - rewrite (start_vs_end c c' Hc Hc'). discriminate.
  - span4 Hc; vm_compute; discriminate.
  - span4 Hc; vm_compute; discriminate.
Qed.

(* a mask that only gained block bits: the span view is that of the level before *)
Lemma block_bits d M c : pre_ok d -> In c span_chars ->
  anyb M (sk_start c) = false -> anyb M (sk_end c) = false -> anyb M (sk_style c) = false ->
  anyb (N.lor (l_mask d) M) (sk_start c) = false /\ anyb (N.lor (l_mask d) M) (sk_end c) = false /\
  anyb (N.lor (l_mask d) M) (sk_style c) = in_bytes c (l_stack d).
Proof.
  intros P Hc H1 H2 H3. destruct (plain_bits d c P Hc) as [A [E S]].
  pose proof (single_style c Hc). pose proof (single_start c Hc). pose proof (single_end c Hc).
  rewrite !anyb_lor by assumption. rewrite A, E, S, H1, H2, H3. cbn [orb]. rewrite orb_false_r. auto.
Qed.

(* ------------------------------------------------------------------ the outcome of one token at the level that owns it *)

(* what the trace needs to know about the new chain [ds'] *)
Definition step_ok (gst : bytes) (r : bytes) (adv : nat) (ds' : dec) : Prop :=
  active (ends_nl r adv) ds' /\
  bstep gst (style_chain ds') (firstn adv r) = Some (gstack ds') /\
  closes (gstack ds') (skipn adv r) /\
  (ends_nl r adv = true -> gstack ds' = []).

Lemma fin_single r adv d : fin r adv [d] = [if ends_nl r adv then set_nl d else d].
Proof. unfold fin. destruct (ends_nl r adv); reflexivity. Qed.

Lemma fin_cons r adv d inner : fin r adv (d :: inner) = (if ends_nl r adv then set_nl d else d) :: inner.
Proof. unfold fin. destruct (ends_nl r adv); reflexivity. Qed.

(* a last level [d'] (no quote started) with the facts a token needs *)
Lemma own_level_ok gst r adv d' :
  lv_ok d' -> l_run d' = true -> l_nl d' = false -> l_qs d' = false ->
  bstep gst (l_mask d') (firstn adv r) = Some (l_stack d') ->
  closes (l_stack d') (skipn adv r) ->
  (ends_nl r adv = true -> l_stack d' = []) ->
  step_ok gst r adv (fin r adv [d']).
Proof.
  intros O R N Q B C E. rewrite fin_single. unfold step_ok.
  set (d'' := if ends_nl r adv then set_nl d' else d').
  assert (M : l_mask d'' = l_mask d') by (unfold d''; destruct (ends_nl r adv); reflexivity).
  assert (S : l_stack d'' = l_stack d') by (unfold d''; destruct (ends_nl r adv); reflexivity).
  assert (R' : l_run d'' = true) by (unfold d''; destruct (ends_nl r adv); exact R).
  assert (Q' : l_qs d'' = false) by (unfold d''; destruct (ends_nl r adv); exact Q).
  cbn [active style_chain gstack]. rewrite R', Q', M, S.
  splits; auto.
  - unfold d''. destruct (ends_nl r adv); [apply lv_ok_set_nl|]; exact O.
  - unfold d''. destruct (ends_nl r adv); [reflexivity|exact N].
Qed.

Lemma directive_in c : is_directive c = true -> In c span_chars.
Proof. apply directive_span_char. Qed.

(* scanSpan at the owning level *)
Lemma span_branch d r adv d' :
  pre_ok d -> l_run d = true -> l_qs d = false ->
  closes (l_stack d) r -> r <> [] ->
  scan_span d r true = LTok adv d' ->
  step_ok (l_stack d) r adv (fin r adv [d']).
Proof.
  intros P R Q Cl Hne H.
  pose proof (po_ok d P) as O.
  assert (Hst : forall x, In x (l_stack d) -> is_directive x = true).
  { intros x Hx. apply span_char_directive, (ok_chars d O), Hx. }
  destruct (scan_span_step d r adv d' Hst Cl Hne H) as [K [Cl' [NoNl Plain]]].
  assert (NlE : ends_nl r adv = true -> l_stack d' = []).
  { intros E. apply ends_nl_has_nl in E. rewrite (Plain E).
    destruct (l_stack d) eqn:S; [reflexivity|]. rewrite NoNl in E by congruence. discriminate. }
  assert (StNl : l_stack d = [] \/ has_nl (firstn adv r) = false).
  { destruct (l_stack d) eqn:S; [left; reflexivity|right; apply NoNl; congruence]. }
  destruct K as [->|c Hn Top ->|c Hn Dir Nin Pre ->].
  - (* plain *)
    apply own_level_ok; auto; [exact (po_nl d P)|].
    apply bstep_plain; auto.
    + apply nodir_implies, po_nodir, P.
    + intros _. apply any_start_false, po_nodir, P.
    + intros c Hc. apply plain_bits; assumption.
  - (* the innermost span ends *)
    unfold top_is in Top. destruct (l_stack d) as [|k st] eqn:S; [discriminate|].
    apply byte_eqb_eq in Top. subst k.
    assert (Hc : In c span_chars) by (apply (ok_chars d O); rewrite S; left; reflexivity).
    assert (Sd : l_stack (pop_lv d c) = st) by (unfold pop_lv; cbn; rewrite S; reflexivity).
    apply own_level_ok; auto.
    + eapply pop_ok; eauto.
    + exact (po_nl d P).
    + rewrite Sd. apply bstep_pop; auto.
      * apply ok_impl. eapply pop_ok; eauto.
      * destruct StNl as [E|E]; [discriminate|exact E].
      * intros _. apply pop_no_start; assumption.
      * intros c' Hc'. rewrite <- S. apply pop_bits; assumption.
  - (* a span starts *)
    assert (Hc : In c span_chars) by (apply directive_in, Dir).
    assert (Sd : l_stack (push_lv d c) = c :: l_stack d) by reflexivity.
    assert (NoTick : ~ In c_tick (l_stack d)).
    { intros Ht. apply in_bytes_true in Ht.
      rewrite <- (pre_ok_spans d c_tick P tick_in), tick_style in Ht.
      unfold anyb in Ht. rewrite Pre in Ht. discriminate. }
    apply own_level_ok; auto.
    + apply push_ok; assumption.
    + exact (po_nl d P).
    + rewrite Sd. apply bstep_push; auto.
      * apply ok_impl, push_ok; assumption.
      * intros c' Hc'. apply push_bits; assumption.
Qed.

Lemma scan_pre_kinds d r n d' : scan_pre d r true = LTok n d' ->
  d' = d \/ d' = add_mask d sBlockPreEnd (N.lor sBlockPre sBlockPreEnd).
Proof.
  unfold scan_pre. ifs; try discriminate; intros H; try (inversion H; auto; fail).
  all: destruct (nl_index r); inversion H; auto.
Qed.

Lemma block_step_ok d' d r adv M :
  pre_ok d -> l_stack d = [] -> l_run d = true -> l_qs d = false ->
  lv_ok d' -> l_mask d' = N.lor (l_mask d) M -> l_stack d' = [] -> l_run d' = true ->
  l_nl d' = false -> l_qs d' = false ->
  (forall c, In c span_chars -> anyb M (sk_start c) = false /\ anyb M (sk_end c) = false /\ anyb M (sk_style c) = false) ->
  step_ok [] r adv (fin r adv [d']).
Proof.
  intros P S R Q O' M' S' R' N' Q' HM.
  apply own_level_ok; auto; rewrite ?S'; cbn [closes]; auto.
  apply bstep_plain; auto.
  - apply ok_impl, O'.
  - intros [].
  - intros c Hc. rewrite M'. destruct (HM c Hc) as [H1 [H2 H3]].
    rewrite <- S. apply block_bits; assumption.
Qed.

Lemma lor_0_bits c : In c span_chars ->
  anyb 0 (sk_start c) = false /\ anyb 0 (sk_end c) = false /\ anyb 0 (sk_style c) = false.
Proof. intros _. repeat split; reflexivity. Qed.

(* the state of a level after its prelude when it is not a running quote level *)
Record pstate (d1 : level) (inner1 : dec) : Prop := mk_pstate {
  ps_ok : pre_ok d1;
  ps_qs : l_qs d1 = false;
  ps_inner : dormant inner1;
  ps_stack : l_stack d1 <> [] -> inner1 = [] /\ l_run d1 = true;
  ps_bp : anyb (l_mask d1) sBlockPre = true -> inner1 = [] }.

Lemma pstate_step d1 inner1 rec r adv ds0 :
  pstate d1 inner1 -> closes (l_stack d1) r -> r <> [] ->
  scan_body d1 inner1 rec r true = STok adv ds0 ->
  step_ok (l_stack d1) r adv (fin r adv ds0).
Proof.
  intros [P Q Dm St Bp] Cl Hne. unfold scan_body.
  destruct (l_stack d1) as [|k st] eqn:S.
  2:{ (* inside a span *)
      destruct (St ltac:(congruence)) as [-> R].
      intros H. apply lift_l_tok in H. destruct H as [d' [H ->]].
      rewrite <- S. apply span_branch; auto. rewrite S. exact Cl. }
  rewrite has_anyb by apply single_BlockPre.
  destruct (anyb (l_mask d1) sBlockPre) eqn:BP.
  { (* inside a preformatted block *)
    rewrite (Bp eq_refl). intros H. apply lift_l_tok in H. destruct H as [d' [H ->]].
    pose proof (pre_ok_set_run d1 P) as P'.
    destruct (scan_pre_kinds _ _ _ _ H) as [->| ->].
    - apply block_step_ok with (d := set_run d1) (M := 0%N); auto.
      all: try exact (po_nl d1 P).
      all: try (apply po_ok, P').
      all: try (symmetry; apply N.lor_0_r).
      all: try apply lor_0_bits.
    - apply block_step_ok with (d := set_run d1) (M := sBlockPreEnd); auto.
      all: try exact (po_nl d1 P).
      all: try (apply pre_end_ok; [exact P'|exact BP]).
      all: try (intros c Hc; span4 Hc; splits; reflexivity). }
  cbv zeta.
  (* the tail of scan at this level *)
  assert (Own : forall d', scan_own (set_run d1) r true = LTok adv d' ->
                           step_ok [] r adv (fin r adv [d'])).
  { intros d' H. pose proof (pre_ok_set_run d1 P) as P'.
    unfold scan_own in H.
    assert (Fence : d' = pre_start (set_run d1) -> step_ok [] r adv (fin r adv [d'])).
    { intros ->. apply block_step_ok with (d := set_run d1) (M := N.lor sBlockPre sBlockPreStart); auto.
      all: try exact (po_nl d1 P).
      all: try (apply pre_start_ok, P').
      all: try (intros c Hc; span4 Hc; splits; reflexivity). }
    assert (Span : scan_span (set_run d1) r true = LTok adv d' -> step_ok [] r adv (fin r adv [d'])).
    { intros Hs. pose proof (span_branch (set_run d1) r adv d' P' eq_refl Q) as SB.
      cbn [set_run l_stack] in SB. rewrite S in SB. apply SB; [exact I|exact Hne|exact Hs]. }
    destruct (is_prefix fence r); [|exact (Span H)].
    destruct (nl_index r) as [k|].
    - destruct (0 <? k); [injection H as Ea Ed; subst adv d'; apply Fence; reflexivity|].
      injection H as Ea Ed; subst adv d'; apply Fence; reflexivity.
    - injection H as Ea Ed; subst adv d'; apply Fence; reflexivity. }
  destruct (0 <? starts_block_quote r) eqn:Pos.
  - rewrite Q. cbn [negb].
    unfold quote_undecided. cbn [negb andb].
    intros H. inversion H; subst. clear H.
    (* a block quote starts *)
    set (inner' := match inner1 with [] => [level0] | _ :: _ => inner1 end).
    assert (Dm' : dormant inner') by (unfold inner'; destruct inner1; [apply dormant_level0|exact Dm]).
    assert (Ne' : inner' <> []) by (unfold inner'; destruct inner1; congruence).
    rewrite fin_cons. unfold step_ok.
    set (d'' := if ends_nl r (starts_block_quote r) then set_nl (quote_start d1) else quote_start d1).
    assert (M : l_mask d'' = N.lor (l_mask d1) (N.lor sBlockQuote sBlockQuoteStart))
      by (unfold d''; destruct (ends_nl r _); reflexivity).
    assert (Sd : l_stack d'' = []) by (unfold d''; destruct (ends_nl r _); cbn; exact S).
    assert (Rd : l_run d'' = true) by (unfold d''; destruct (ends_nl r _); reflexivity).
    assert (Qd : l_qs d'' = true) by (unfold d''; destruct (ends_nl r _); reflexivity).
    assert (Od : lv_ok d'').
    { unfold d''. destruct (ends_nl r _); [apply lv_ok_set_nl|]; apply quote_start_ok, P. }
    assert (Bits : forall c, In c span_chars ->
              anyb (l_mask d'') (sk_start c) = false /\ anyb (l_mask d'') (sk_end c) = false /\
              anyb (l_mask d'') (sk_style c) = in_bytes c []).
    { intros c Hc. rewrite M, <- S. apply block_bits; auto; span4 Hc; reflexivity. }
    assert (BPd : anyb (l_mask d'') sBlockPre = false).
    { rewrite M, anyb_lor by apply single_BlockPre. rewrite BP. reflexivity. }
    cbn [active gstack style_chain]. rewrite Rd, Qd, BPd, (dormant_gstack _ Dm'), (dormant_style _ Dm').
    destruct inner' as [|i0 it] eqn:Ei; [congruence|]. rewrite N.lor_0_r.
    splits; auto.
    + unfold d''. destruct (ends_nl r _); [reflexivity|apply (po_nl d1 P)].
    + discriminate.
    + intros c Hc. apply (Bits c Hc).
    + apply bstep_plain; auto.
      * apply ok_impl, Od.
      * intros [].
  - assert (OwnS : lift_l (scan_own (set_run d1) r true) [] = STok adv ds0 ->
                   step_ok [] r adv (fin r adv ds0)).
    { intros H. apply lift_l_tok in H. destruct H as [d' [H ->]]. apply Own, H. }
    destruct inner1 as [|i0 it]; [exact OwnS|]. rewrite Q. exact OwnS.
Qed.

(* ------------------------------------------------------------------ one token of a whole chain *)

Lemma prelude_run d : l_run (prelude_lv d) = negb (l_nl d) && l_run d.
Proof. unfold prelude_lv. destruct d as [m c q nl r s]. destruct nl; reflexivity. Qed.

Lemma quote_chain_cons d inner :
  quote_chain (d :: inner) =
  if l_qs d then match quote_chain inner with Some n => Some (S n) | None => None end else Some 0.
Proof. reflexivity. Qed.

Lemma dormant_reset_inner d inner : dormant inner -> dormant (prelude_inner d inner).
Proof.
  intros D. unfold prelude_inner. destruct (l_nl d); [|exact D].
  apply (reset_dormant false); [right; exact D|apply dormant_gstack, D].
Qed.

Definition mono_ok (ds ds' : dec) : Prop :=
  forall q q', quote_chain ds = Some q -> quote_chain ds' = Some q' -> q <= q'.

Lemma chain_step : forall ds r adv ds' f,
  (active f ds \/ dormant ds) -> (f = true -> gstack ds = []) -> closes (gstack ds) r -> r <> [] ->
  scan ds r true = STok adv ds' ->
  step_ok (gstack ds) r adv ds' /\
  (((active f ds /\ f = false) \/ dormant ds) -> mono_ok ds ds').
Proof.
  induction ds as [|d inner IH]; intros r adv ds' f AD Fg Cl Hne H; [discriminate|].
  cbn [scan] in H.
  replace (true && is_nil r) with false in H by (destruct r; [congruence|reflexivity]).
  apply finish_tok in H. destruct H as [ds0 [H ->]].
  set (d1 := prelude_lv d) in *. set (inner1 := prelude_inner d inner) in *.
  destruct AD as [A|D].
  - cbn [active] in A. destruct A as [O [R [N [BP Q]]]].
    pose proof (prelude_ok d O) as P.
    destruct (l_qs d) eqn:Qs.
    + destruct Q as [S [NoBP [NoSt [Ne Sub]]]].
      assert (G : gstack (d :: inner) = gstack inner) by (cbn [gstack]; rewrite Qs; reflexivity).
      destruct f.
      * (* the line ended: everything below is reset, this level starts afresh *)
        assert (PS : pstate d1 inner1).
        { constructor.
          - exact P.
          - unfold d1. rewrite prelude_qs, N. reflexivity.
          - unfold inner1, prelude_inner. rewrite N.
            apply (reset_dormant true); [exact Sub|]. rewrite <- G. apply Fg. reflexivity.
          - unfold d1. rewrite prelude_stack, S. congruence.
          - intros Hb. apply prelude_bp in Hb. congruence. }
        assert (S1 : l_stack d1 = []) by (unfold d1; rewrite prelude_stack; exact S).
        pose proof (pstate_step d1 inner1 _ r adv ds0 PS ltac:(rewrite S1; exact I) Hne H) as ST.
        rewrite S1 in ST. rewrite (Fg eq_refl). split; [exact ST|].
        intros [[_ E]|Dm]; [discriminate|].
        cbn [dormant] in Dm. destruct Dm as [[Qd _] _]. congruence.
      * (* delegated to the chain below *)
        assert (Qs1 : l_qs d1 = true) by (unfold d1; rewrite prelude_qs, N, Qs; reflexivity).
        assert (Ei : inner1 = inner) by (apply prelude_inner_id, N).
        assert (S1 : l_stack d1 = []) by (unfold d1; rewrite prelude_stack; exact S).
        assert (B1 : anyb (l_mask d1) sBlockPre = false).
        { destruct (anyb (l_mask d1) sBlockPre) eqn:E; [|reflexivity]. apply prelude_bp in E. congruence. }
        rewrite Ei in H.
        rewrite scan_body_delegates in H; auto; [|rewrite has_anyb by apply single_BlockPre; exact B1].
        apply cons_l_tok in H. destruct H as [x [Hx ->]].
        rewrite G in *.
        destruct (IH r adv x false Sub ltac:(discriminate) Cl Hne Hx) as [[Ax [Bx [Cx Ex]]] Mx].
        pose proof (active_nonempty _ _ Ax) as Nx.
        rewrite fin_cons.
        set (d'' := if ends_nl r adv then set_nl d1 else d1).
        assert (M : l_mask d'' = l_mask d1) by (unfold d''; destruct (ends_nl r adv); reflexivity).
        assert (Rd : l_run d'' = true).
        { unfold d''. destruct (ends_nl r adv); cbn [set_nl l_run]; unfold d1; rewrite prelude_run, N, R; reflexivity. }
        assert (Qd : l_qs d'' = true) by (unfold d''; destruct (ends_nl r adv); exact Qs1).
        assert (Sd : l_stack d'' = []) by (unfold d''; destruct (ends_nl r adv); exact S1).
        assert (NoSt1 : forall c, In c span_chars -> anyb (l_mask d1) (sk_style c) = false).
        { intros c Hc. destruct (anyb (l_mask d1) (sk_style c)) eqn:E; [|reflexivity].
          apply prelude_style_sub in E; [|exact Hc]. rewrite (NoSt c Hc) in E. discriminate. }
        split.
        -- unfold step_ok. cbn [active gstack style_chain]. rewrite Rd, Qd, M, Sd, B1.
           destruct x as [|x0 xt] eqn:Ex'; [congruence|]. rewrite <- Ex' in *.
           splits; auto.
           ++ unfold d''. destruct (ends_nl r adv); [apply lv_ok_set_nl|]; apply po_ok, P.
           ++ unfold d''. destruct (ends_nl r adv); [reflexivity|apply (po_nl _ P)].
           ++ discriminate.
           ++ apply bstep_lor; auto. apply (po_nodir _ P).
        -- intros _. intros q q' Hq Hq'. rewrite quote_chain_cons in Hq, Hq'. rewrite Qs in Hq. rewrite Qd in Hq'.
           destruct (quote_chain inner) as [qi|] eqn:Ei'; [|discriminate].
           destruct (quote_chain x) as [qx|] eqn:Ex''; [|discriminate].
           injection Hq as <-. injection Hq' as <-.
           assert (qi <= qx); [|lia].
           apply Mx; auto. destruct Sub as [Sa|Sd']; [left; auto|right; exact Sd'].
    + (* the level that owns the text *)
      subst inner.
      assert (G : gstack [d] = l_stack d) by (cbn [gstack]; rewrite Qs; reflexivity).
      rewrite G in *.
      assert (Ei : inner1 = []) by (unfold inner1, prelude_inner; destruct (l_nl d); reflexivity).
      assert (S1 : l_stack d1 = l_stack d) by (unfold d1; apply prelude_stack).
      assert (PS : pstate d1 inner1).
      { constructor.
        - exact P.
        - unfold d1. rewrite prelude_qs, Qs. apply andb_false_r.
        - rewrite Ei. exact I.
        - intros Hs. split; [exact Ei|]. unfold d1. rewrite prelude_run, R, andb_true_r.
          destruct (l_nl d) eqn:Nl; [|reflexivity]. exfalso. apply Hs. rewrite S1. apply Fg. congruence.
        - intros _. exact Ei. }
      pose proof (pstate_step d1 inner1 _ r adv ds0 PS ltac:(rewrite S1; exact Cl) Hne H) as ST.
      rewrite S1 in ST. split; [exact ST|].
      intros _ q q' Hq _. rewrite quote_chain_cons, Qs in Hq. inversion Hq. lia.
  - (* a chain that runs for the first time on this line *)
    pose proof D as D0. cbn [dormant] in D. destruct D as [[Qs [R [S O]]] [BP Dm]].
    pose proof (prelude_ok d O) as P.
    assert (G : gstack (d :: inner) = []) by (apply dormant_gstack, D0).
    assert (S1 : l_stack d1 = []) by (unfold d1; rewrite prelude_stack; exact S).
    assert (PS : pstate d1 inner1).
    { constructor.
      - exact P.
      - unfold d1. rewrite prelude_qs, Qs. apply andb_false_r.
      - apply dormant_reset_inner, Dm.
      - rewrite S1. congruence.
      - intros Hb. apply prelude_bp in Hb. unfold inner1, prelude_inner. rewrite (BP Hb).
        destruct (l_nl d); reflexivity. }
    pose proof (pstate_step d1 inner1 _ r adv ds0 PS ltac:(rewrite S1; exact I) Hne H) as ST.
    rewrite S1 in ST. rewrite G. split; [exact ST|].
    intros _ q q' Hq _. rewrite quote_chain_cons, Qs in Hq. inversion Hq. lia.
Qed.

(* ------------------------------------------------------------------ the whole token sequence *)

Lemma bstep_virtual : bstep [] bq_end_style [] = Some [].
Proof. vm_compute. reflexivity. Qed.

Theorem trace_brackets ds ins last r os e : trace ds ins last r os e ->
  forall f gst, (active f ds \/ dormant ds) -> (f = true -> gstack ds = []) -> closes (gstack ds) r ->
  (if ins then bstep gst (style_chain ds) last = Some (gstack ds) else gst = gstack ds) ->
  exists st', brackets_from gst os = Some st' /\ (e = EEOF -> st' = []).
Proof.
  induction 1 as [ds last|ds last r Hne|ds last r q os e Hq T IH
                 |ds last r adv ds' prev curr os e Hp Hs Hc Hlt T IH
                 |ds last r adv ds' prev curr os e Hp Hs Hc Hlt T IH];
    intros f gst AD Fg Cl Hg.
  - subst gst. exists (gstack ds). split; [reflexivity|]. intros _. apply closes_nil_input, Cl.
  - exists gst. split; [reflexivity|discriminate].
  - cbn [brackets_from o_style o_data]. rewrite Hg. apply (IH f); auto.
  - subst gst.
    assert (Hne : r <> []).
    { pose proof (scan_bounds _ _ _ _ _ Hs). destruct r; [cbn in *; lia|congruence]. }
    destruct (chain_step ds r adv ds' f AD Fg Cl Hne Hs) as [[A' [B' [C' E']]] _].
    cbn [brackets_from o_style o_data]. rewrite B'.
    apply (IH (ends_nl r adv)); auto.
  - subst gst.
    assert (Hne : r <> []).
    { pose proof (scan_bounds _ _ _ _ _ Hs). destruct r; [cbn in *; lia|congruence]. }
    destruct (chain_step ds r adv ds' f AD Fg Cl Hne Hs) as [[A' [B' [C' E']]] Mono].
    (* the quote level can only drop right after the end of a line, where no span is open *)
    assert (G0 : gstack ds = []).
    { destruct f; [apply Fg; reflexivity|].
      exfalso. apply Nat.ltb_lt in Hlt.
      assert (prev <= curr); [|lia].
      apply (Mono ltac:(destruct AD as [A|D]; [left; auto|right; exact D]) _ _ Hp Hc). }
    rewrite G0 in *.
    cbn [brackets_from o_style o_data]. rewrite bstep_virtual.
    apply (IH (ends_nl r adv)); auto.
Qed.

Theorem decode_brackets lim input reads deof os e : 1 <= lim ->
  decode_lim lim input reads deof = (os, e) -> brackets_ok os e = true.
Proof.
  intros Hlim H. apply decode_trace in H; [|exact Hlim].
  pose proof (trace_end _ _ _ _ _ _ H) as He.
  destruct (trace_brackets _ _ _ _ _ _ H false [] ltac:(right; apply dormant_level0)
              ltac:(discriminate) I eq_refl) as [st' [B E]].
  unfold brackets_ok. rewrite B.
  destruct He as [->| ->]; [rewrite (E eq_refl); reflexivity|apply orb_true_r].
Qed.
