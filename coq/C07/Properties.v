(* C07/Properties.v — the property theorems of C07 and nothing else.
   "Every incoming get/set IQ is answered exactly once; replies are never answered."

   Vocabulary: [his] is handleInputStream on one top-level element with an
   arbitrary handler tree; an invocation [v] records the start tag shown
   ([v_name], [v_attrs]), what the handler wrote ([v_hw]), what the session
   added ([v_auto]) and how the invocation ended ([v_ret], None = no error).
   [reply_tree id t]: t is an iq element (no name space or a content name space)
   whose id is [id] and whose type is not get or set — exactly what the session
   counts as the handler's reply (a missing or unknown type counts too).
   [default_tree id to] is the service-unavailable error reply. *)
From XV Require Import lib.Bytes lib.Xml gen.Serve C08.Model C08.Case C08.Proofs C07.Model C07.Proofs.

(* An incoming get/set IQ whose invocation ends without error: if the handler
   wrote a reply (a top-level element that counts as one) the session adds
   nothing; otherwise it adds exactly one element, the service-unavailable error
   with the request's id, which itself counts as the reply, addressed to the
   (parsed) sender when the request named one and unaddressed otherwise — never
   both. Handlers are arbitrary; what they wrote is any forest [f]. *)
Theorem C07_exactly_one_reply :
  forall (c : cfg) (fuel : nat) (hf : handlers) (pd : N) (n : name) (a : list attr) (l : list token)
         (v : inv) (p' : pst) (f : list tree),
  clean (c_ws c) (TStart n a) = true -> length l < fuel ->
  his c fuel hf (mkp (TStart n a :: l) pd false) = (HRInv v, p') ->
  let a' := shown_attrs c n a in
  let id := fst (get_id_typ a') in
  let from := attr_get s_from a' in
  is_iq n = true -> needs_resp (snd (get_id_typ a')) = true ->
  v_ret v = None -> v_hw v = tokens_of_forest f ->
  (existsb (reply_tree id) f = true -> v_auto v = []) /\
  (existsb (reply_tree id) f = false ->
     exists j, v_auto v = tokens_of_tree (default_tree id j) /\
               reply_tree id (default_tree id j) = true /\
               (from = [] -> j = []) /\ (from <> [] -> c_jp c from = Some j)).
Proof. exact c07_exactly_one_reply. Qed.
Print Assumptions C07_exactly_one_reply.

(* Elements with another id, of type get or set, outside the iq name, or nested
   inside other elements do not count: the default reply is still added. *)
Theorem C07_other_ids_dont_count :
  forall (c : cfg) (fuel : nat) (hf : handlers) (pd : N) (n : name) (a : list attr) (l : list token)
         (v : inv) (p' : pst) (f : list tree),
  clean (c_ws c) (TStart n a) = true -> length l < fuel ->
  his c fuel hf (mkp (TStart n a :: l) pd false) = (HRInv v, p') ->
  let a' := shown_attrs c n a in
  let id := fst (get_id_typ a') in
  is_iq n = true -> needs_resp (snd (get_id_typ a')) = true ->
  v_ret v = None -> v_hw v = tokens_of_forest f ->
  (forall t, In t f -> match t with
                       | Elem m b _ => is_iq_empty m = false \/ fst (get_id_typ b) <> id
                                       \/ needs_resp (snd (get_id_typ b)) = true
                       | _ => True
                       end) ->
  exists j, v_auto v = tokens_of_tree (default_tree id j).
Proof. exact c07_other_ids_dont_count. Qed.
Print Assumptions C07_other_ids_dont_count.

(* IQs of type result or error (or any type other than get/set) and elements
   that are not IQs never get an automatic reply, however the invocation ends. *)
Theorem C07_no_auto_reply_otherwise :
  forall (c : cfg) (fuel : nat) (hf : handlers) (pd : N) (n : name) (a : list attr) (l : list token)
         (v : inv) (p' : pst),
  clean (c_ws c) (TStart n a) = true -> length l < fuel ->
  his c fuel hf (mkp (TStart n a :: l) pd false) = (HRInv v, p') ->
  is_iq n = false \/ needs_resp (snd (get_id_typ (shown_attrs c n a))) = false ->
  v_auto v = [].
Proof. exact c07_no_auto_reply_otherwise. Qed.
Print Assumptions C07_no_auto_reply_otherwise.

(* The whole run of Serve on any script and any handlers: every invocation is
   one of the above; if Serve returns nil all of them ended without error (so
   every request among them was answered exactly once); otherwise only the last
   one can have failed and Serve returns an error — the stream is terminated.
   In particular a handler returning a bare EOF does not end Serve silently
   (C08_resync: an invocation never ends with EOF). *)
Theorem C07_answered_or_stream_terminated :
  forall (c : cfg) (hf : nat -> handlers) (toks : list token) (base : list name),
  ends_match base toks = true ->
  let r := serve_all c hf toks in
  Forall (fun v => exists n a pre e p', clean (c_ws c) (TStart n a) = true /\ inv_spec c n a 0%N pre e v p') (s_invs r) /\
  (s_ret r = None -> Forall (fun v => v_ret v = None) (s_invs r)) /\
  (forall v, In v (removelast (s_invs r)) -> v_ret v = None).
Proof. exact c07_serve. Qed.
Print Assumptions C07_answered_or_stream_terminated.

(* The multiplexer (repaired iqRouter) with no handler registered: a get/set IQ
   — with a payload element, with text, with whitespace only or with nothing at
   all — gets exactly the fallback's service-unavailable reply and nothing from
   the session; the only alternative is that the element could not be read and
   the invocation fails. ([q] is stanza.NewIQ's reading of the start tag; it
   agrees with the session's reading of id and type when attributes are
   unqualified.) *)
Theorem C07_mux_fallback :
  forall (c : cfg) (fuel mf : nat) (m : muxcfg) (pd : N) (n : name) (a : list attr) (l : list token)
         (v : inv) (p' : pst) (q : iqv),
  m_regs m = [] -> m_fixed m = true ->
  clean (c_ws c) (TStart n a) = true ->
  let a' := shown_attrs c n a in
  let id := fst (get_id_typ a') in
  his c fuel (mux_handler m (c_jp c) mf) (mkp (TStart n a :: l) pd false) = (HRInv v, p') ->
  is_iq n = true -> stanza_is n (m_ns m) && bytes_eqb (nlocal n) s_iq = true ->
  needs_resp (snd (get_id_typ a')) = true ->
  new_iq (c_jp c) n a' = Some q -> q_id q = id -> q_typ q = snd (get_id_typ a') ->
  (v_hw v = tokens_of_tree (fallback_tree q) /\ reply_tree id (fallback_tree q) = true /\ v_auto v = []) \/
  (v_hw v = [] /\ v_auto v = [] /\ v_ret v <> None).
Proof. exact c07_mux_fallback. Qed.
Print Assumptions C07_mux_fallback.

(* The multiplexer as pinned (iqRouter returns io.EOF for an IQ without payload):
   the statement above is false of it — <iq type='get' id='x'/> is not answered
   at all. (With the session's repair the stream is then terminated with an
   error; on the pinned session Serve returned nil.) *)
Theorem C07_mux_fallback_pinned_refuted :
  exists toks, ends_match [stream_root] toks = true /\
    let r := serve_all ex_cfg (fun _ => mux_handler (mkmux sv_ns_client false []) (c_jp ex_cfg) 10) toks in
    written r = [] /\ s_ret r = Some EUnexpectedEOF /\
    exists v, s_invs r = [v] /\ is_iq (v_name v) = true /\ get_id_typ (v_attrs v) = (str "x", sv_iq_get).
Proof. exact c07_mux_pinned_refuted. Qed.
Print Assumptions C07_mux_fallback_pinned_refuted.

(* The rule depends on these constants of the source (regenerated on every run). *)
Theorem C07_tables :
  (needs_resp sv_iq_get = true /\ needs_resp sv_iq_set = true) /\
  (needs_resp sv_iq_error = false /\ needs_resp sv_iq_result = false) /\
  (is_iq (mkname sv_ns_client s_iq) = true /\ is_iq (mkname sv_ns_server s_iq) = true /\
   is_iq_empty (mkname [] s_iq) = true /\ is_iq (mkname [] s_iq) = false).
Proof. exact (conj tbl_get_set_are_requests (conj tbl_error_is_no_request tbl_iq_names)). Qed.
Print Assumptions C07_tables.
