(* C07/Properties.v — the property theorems of C07 and nothing else.
   "Every incoming get/set IQ is answered exactly once; replies are never answered."

   Vocabulary: [his] is handleInputStream on one top-level element with an
   arbitrary handler tree; an invocation [v] records the start tag shown
   ([v_name], [v_attrs]), what the handler wrote ([v_hw]), what the session
   added ([v_auto]) and how the invocation ended ([v_ret], None = no error).
   [reply_tree id t]: t is an iq element (no name space or a content name space)
   whose id is [id] and whose type is not get or set — exactly what the session
   counts as the handler's reply (a missing or unknown type counts too).
   [default_tree id to] is the service-unavailable error reply.

   Outstanding requests of the session itself (SendIQ, SendMessage, SendPresence
   calls waiting for their response) are part of every statement: [tb] is the
   table of these registrations at the moment the element arrives, an arbitrary
   [ptable]; in a whole run other goroutines change it arbitrarily between any
   two elements ([env]). [his_p] is handleInputStream with that table; its
   result is [PH h] (the element was handled as [his] does, [h = HRInv v] for a
   handler invocation) or [PDiv d] (the element was handed to the waiter of an
   outstanding request instead). *)
From XV Require Import lib.Bytes lib.Xml gen.Serve C08.Model C08.Case C08.Proofs C07.Model C07.Proofs C07.Pending.

(* An incoming get/set IQ, whatever requests of our own are outstanding (any
   table [tb], also one holding the very id of the request): the handler is
   invoked on it (it is never handed to a waiter; the table is left alone), and
   if the invocation ends without error then: if the handler wrote a reply (a
   top-level element that counts as one) the session adds nothing; otherwise it
   adds exactly one element, the service-unavailable error with the request's
   id, which itself counts as the reply, addressed to the (parsed) sender when
   the request named one and unaddressed otherwise — never both. Handlers are
   arbitrary; what they wrote is any forest [f]. *)
Theorem C07_exactly_one_reply :
  forall (c : cfg) (fuel : nat) (tb : ptable) (hf : handlers) (pd : N) (n : name) (a : list attr)
         (l : list token) (f : list tree),
  clean (c_ws c) (TStart n a) = true -> length l < fuel ->
  let a' := shown_attrs c n a in
  let id := fst (get_id_typ a') in
  let from := attr_get s_from a' in
  is_iq n = true -> needs_resp (snd (get_id_typ a')) = true ->
  exists v p', his_p c fuel tb hf (mkp (TStart n a :: l) pd false) = (PH (HRInv v), p', tb) /\
    v_name v = n /\ v_attrs v = a' /\
    (v_ret v = None -> v_hw v = tokens_of_forest f ->
      (existsb (reply_tree id) f = true -> v_auto v = []) /\
      (existsb (reply_tree id) f = false ->
         exists j, v_auto v = tokens_of_tree (default_tree id j) /\
                   reply_tree id (default_tree id j) = true /\
                   (from = [] -> j = []) /\ (from <> [] -> c_jp c from = Some j))).
Proof. exact c07_exactly_one_reply_p. Qed.
Print Assumptions C07_exactly_one_reply.

(* Elements with another id, of type get or set, outside the iq name, or nested
   inside other elements do not count: the default reply is still added. *)
Theorem C07_other_ids_dont_count :
  forall (c : cfg) (fuel : nat) (tb : ptable) (hf : handlers) (pd : N) (n : name) (a : list attr) (l : list token)
         (v : inv) (p' : pst) (tb' : ptable) (f : list tree),
  clean (c_ws c) (TStart n a) = true -> length l < fuel ->
  his_p c fuel tb hf (mkp (TStart n a :: l) pd false) = (PH (HRInv v), p', tb') ->
  let a' := shown_attrs c n a in
  let id := fst (get_id_typ a') in
  is_iq n = true -> needs_resp (snd (get_id_typ a')) = true ->
  v_ret v = None -> v_hw v = tokens_of_forest f ->
  (forall t, In t f -> match t with
                       | Elem m b _ => is_iq_empty m = false \/ fst (get_id_typ b) <> id
                                       \/ needs_resp (snd (get_id_typ b)) = true
                       | _ => True
                       end) ->
  exists j, v_auto v = tokens_of_tree (default_tree id j).
Proof. exact c07_other_ids_dont_count_p. Qed.
Print Assumptions C07_other_ids_dont_count.

(* Whatever method of the TokenReadEncoder the handler writes through —
   EncodeToken token by token, xmlstream.Copy into it, Encode(v), or
   EncodeElement(v, start), which replaces the outermost start and end tag — the
   tokens go through the same detector ([run_h] of [h_write m ts k] is [run_h] of
   [k] with the checker advanced over [method_tokens m ts]), the element that
   reaches it is [method_tree m t], and a top-level element so written is
   counted as the reply exactly when that element is one ([reply_tree]). With
   C07_exactly_one_reply: a reply written by ANY method suppresses the default
   reply, and one that is none does not. That the code funnels every method
   into EncodeToken is read from the source (C07_tables: [sv_rc_*]). *)
Theorem C07_reply_detected_by_every_method :
  (forall ws id m ts k s w seen,
     run_h ws id (h_write m ts k) s w seen = run_h ws id k s (enc_all id (method_tokens m ts) w) seen) /\
  (forall m n0 a0 kids,
     method_tokens m (tokens_of_tree (Elem n0 a0 kids)) = tokens_of_tree (method_tree m (Elem n0 a0 kids))) /\
  (forall id m n0 a0 kids,
     w_wrote (enc_all id (method_tokens m (tokens_of_tree (Elem n0 a0 kids))) w0)
     = reply_tree id (method_tree m (Elem n0 a0 kids))) /\
  (forall id m f, w_wrote (enc_all id (tokens_of_forest (map (method_tree m) f)) w0)
                  = existsb (reply_tree id) (map (method_tree m) f)).
Proof.
  split; [exact run_h_write|]. split; [exact method_tokens_tree|]. split.
  - intros id m n0 a0 kids. rewrite method_tokens_tree. apply wrote_tree.
  - intros id m f. apply wrote_forest.
Qed.
Print Assumptions C07_reply_detected_by_every_method.

(* IQs of type result or error (or any type other than get/set) and elements
   that are not IQs never get an automatic reply, however the invocation ends
   and whatever is outstanding. *)
Theorem C07_no_auto_reply_otherwise :
  forall (c : cfg) (fuel : nat) (tb : ptable) (hf : handlers) (pd : N) (n : name) (a : list attr) (l : list token)
         (v : inv) (p' : pst) (tb' : ptable),
  clean (c_ws c) (TStart n a) = true -> length l < fuel ->
  his_p c fuel tb hf (mkp (TStart n a :: l) pd false) = (PH (HRInv v), p', tb') ->
  is_iq n = false \/ needs_resp (snd (get_id_typ (shown_attrs c n a))) = false ->
  v_auto v = [].
Proof. exact c07_no_auto_reply_otherwise_p. Qed.
Print Assumptions C07_no_auto_reply_otherwise.

(* Only responses are ever handed to waiters: an element that goes to the waiter
   of an outstanding request instead of the handler has type result or error
   (so it is no request and needs no reply), the table held an entry with its id
   whose registered name accepts the element's name, and the only effect on the
   table is that a waiter that took its response is no longer registered.
   Nothing is written for such an element ([dinv] has no output). *)
Theorem C07_only_responses_reach_waiters :
  forall (c : cfg) (fuel : nat) (tb : ptable) (hf : handlers) (pd : N) (n : name) (a : list attr) (l : list token)
         (d : dinv) (p' : pst) (tb' : ptable),
  clean (c_ws c) (TStart n a) = true -> length l < fuel ->
  his_p c fuel tb hf (mkp (TStart n a :: l) pd false) = (PDiv d, p', tb') ->
  let a' := shown_attrs c n a in
  (d_name d = n /\ d_attrs d = a' /\
   (snd (get_id_typ a') = sv_iq_result \/ snd (get_id_typ a') = sv_iq_error) /\
   needs_resp (snd (get_id_typ a')) = false /\
   exists e, In e tb /\ pe_id e = fst (get_id_typ a') /\ d_id d = pe_id e /\
             name_accepts (pe_name e) n = true /\ d_taken d = pe_live e) /\
  tb' = (if d_taken d then pt_remove (d_id d) tb else tb).
Proof. exact c07_only_responses_diverted. Qed.
Print Assumptions C07_only_responses_reach_waiters.

(* The whole run of Serve on any script, any handlers, any initial table of
   outstanding requests and any interference [env] of other goroutines with that
   table: every event is a handler invocation meeting the per-invocation
   specification (hence the rules above) or a response handed to a waiter; if
   Serve returns nil all of them ended without error (so every request among
   them was answered exactly once); otherwise only the last one can have failed
   and Serve returns an error — the stream is terminated. In particular a
   handler returning a bare EOF does not end Serve silently (C08_resync: an
   invocation never ends with EOF). *)
Theorem C07_answered_or_stream_terminated :
  forall (c : cfg) (env : nat -> ptable -> ptable) (hf : nat -> handlers) (tb : ptable)
         (toks : list token) (base : list name),
  ends_match base toks = true ->
  let r := serve_all_p c env hf tb toks in
  Forall (fun ev => match ev with
                    | EvInv v => exists n a pre e p', clean (c_ws c) (TStart n a) = true /\ inv_spec c n a 0%N pre e v p'
                    | EvDiv d => exists tb0 n a, clean (c_ws c) (TStart n a) = true /\ div_spec c tb0 n a d
                    end) (sp_events r) /\
  (sp_ret r = None -> Forall (fun ev => ev_ret ev = None) (sp_events r)) /\
  (forall ev, In ev (removelast (sp_events r)) -> ev_ret ev = None).
Proof. exact c07_serve_p. Qed.
Print Assumptions C07_answered_or_stream_terminated.

(* With nothing outstanding and nobody registering anything the loop is the
   plain one of C08 (so the C08 theorems speak about the same function). *)
Theorem C07_nothing_outstanding_is_plain_serve :
  forall (c : cfg) (hf : nat -> handlers) (fuel idx k : nat) (p : pst),
  let r := serve_p c fuel env_id hf idx k [] p in
  sp_ret r = s_ret (serve c fuel hf idx p) /\ sp_events r = map EvInv (s_invs (serve c fuel hf idx p)) /\
  sp_rest r = s_rest (serve c fuel hf idx p).
Proof. exact serve_p_nil. Qed.
Print Assumptions C07_nothing_outstanding_is_plain_serve.

(* The multiplexer (repaired iqRouter) with no handler registered: a get/set IQ
   — with a payload element, with text, with whitespace only or with nothing at
   all — gets exactly the fallback's service-unavailable reply and nothing from
   the session; the only alternative is that the element could not be read and
   the invocation fails. ([q] is stanza.NewIQ's reading of the start tag; it
   agrees with the session's reading of id and type when attributes are
   unqualified.) *)
Theorem C07_mux_fallback :
  forall (c : cfg) (fuel mf : nat) (m : muxcfg) (tb : ptable) (pd : N) (n : name) (a : list attr) (l : list token)
         (v : inv) (p' : pst) (tb' : ptable) (q : iqv),
  m_regs m = [] -> m_fixed m = true ->
  clean (c_ws c) (TStart n a) = true -> length l < fuel ->
  let a' := shown_attrs c n a in
  let id := fst (get_id_typ a') in
  his_p c fuel tb (mux_handler m (c_jp c) mf) (mkp (TStart n a :: l) pd false) = (PH (HRInv v), p', tb') ->
  is_iq n = true -> stanza_is n (m_ns m) && bytes_eqb (nlocal n) s_iq = true ->
  needs_resp (snd (get_id_typ a')) = true ->
  new_iq (c_jp c) n a' = Some q -> q_id q = id -> q_typ q = snd (get_id_typ a') ->
  (v_hw v = tokens_of_tree (fallback_tree q) /\ reply_tree id (fallback_tree q) = true /\ v_auto v = []) \/
  (v_hw v = [] /\ v_auto v = [] /\ v_ret v <> None).
Proof. exact c07_mux_fallback_p. Qed.
Print Assumptions C07_mux_fallback.

(* The multiplexer as pinned (iqRouter returns io.EOF for an IQ without payload):
   the statement above is false of it — <iq type='get' id='x'/> is not answered
   at all. (With the session's repair the stream is then terminated with an
   error; on the pinned session Serve returned nil.) *)
Theorem C07_mux_fallback_pinned_refuted :
  exists toks, ends_match [stream_root] toks = true /\
    let r := serve_all ex_cfg (fun _ => mux_handler (mkmux sv_ns_client false []) (c_jp ex_cfg) 10) toks in
    written r = [] /\ s_ret r = Some EUnexpectedEOF /\
    exists v, s_invs r = [v] /\ is_iq (v_name v) = true /\ get_id_typ (v_attrs v) = (str "x", sv_iq_get).
Proof. exact c07_mux_pinned_refuted. Qed.
Print Assumptions C07_mux_fallback_pinned_refuted.

(* The rule depends on these constants and conditions of the source (regenerated
   on every run): which types are requests; the iq names; and the condition under
   which handleInputStream consults the table of outstanding requests — a
   disjunction of comparisons of the type with "result" and "error" and nothing
   else (in particular not "any IQ"), at the single place where the table is
   used — so that no type that needs a reply ever consults it. *)
Theorem C07_tables :
  (needs_resp sv_iq_get = true /\ needs_resp sv_iq_set = true) /\
  (needs_resp sv_iq_error = false /\ needs_resp sv_iq_result = false) /\
  (is_iq (mkname sv_ns_client s_iq) = true /\ is_iq (mkname sv_ns_server s_iq) = true /\
   is_iq_empty (mkname [] s_iq) = true /\ is_iq (mkname [] s_iq) = false) /\
  (sv_lookup_any_iq = false /\ sv_lookup_unrecognised = 0 /\ sv_lookup_sites = 1 /\ sv_lookup_uses = 1) /\
  sv_lookup_types = [sv_iq_result; sv_iq_error] /\
  (sv_needs_resp_any_iq = false /\ sv_needs_resp_unrecognised = 0 /\ sv_needs_resp_types = [sv_iq_get; sv_iq_set]) /\
  (forall b typ, needs_resp typ = true -> consults b typ = false) /\
  (* responseChecker: besides EncodeToken the handler can write through Encode and
     EncodeElement; both hand the checker itself to the encoder, the embedded
     writer is mentioned nowhere outside EncodeToken and once in it *)
  (sv_rc_write_methods = [str "Encode"; str "EncodeElement"] /\ sv_rc_funnelled = 2 /\
   sv_rc_direct_uses = 0 /\ sv_rc_delegations = 1).
Proof.
  exact (conj tbl_get_set_are_requests (conj tbl_error_is_no_request (conj tbl_iq_names
          (conj tbl_lookup_shape (conj tbl_lookup_types (conj tbl_needs_resp_shape (conj consults_not_requests tbl_rc_funnel))))))).
Qed.
Print Assumptions C07_tables.
