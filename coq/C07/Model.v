(* C07/Model.v — the reply rule on top of the serve-loop model of C08/Model.v:
   the vocabulary of the C07 theorems (what counts as a reply) and the
   multiplexer's IQ path (mux/mux.go: Handler, iqRouter, IQHandler, iqFallback;
   stanza.NewIQ, IQ.Wrap; decl.TrimLeftSpace over xmlstream.Inner) as one
   concrete handler tree, so that every theorem quantified over handlers applies
   to it. Only computable definitions. *)
From XV Require Import lib.Bytes lib.Xml gen.Serve C08.Model C08.Case.
From Coq Require Import ZArith.

(* ---- what the session counts as the handler's reply ---- *)

(* start element of a reply to the request with id [id]: an iq (in no name space
   or a content name space) with that id whose type is not get or set *)
Definition reply_start (id : bytes) (n : name) (a : list attr) : bool :=
  is_iq_empty n && bytes_eqb (fst (get_id_typ a)) id && negb (needs_resp (snd (get_id_typ a))).

Definition reply_tree (id : bytes) (t : tree) : bool :=
  match t with
  | Elem n a _ => reply_start id n a
  | _ => false
  end.

(* ---- the ways a handler can write (every method of the TokenReadEncoder it is
   given): EncodeToken, xmlstream.Copy into it, Encode(v), EncodeElement(v, start).
   responseChecker funnels all of them through its EncodeToken (table read from
   the source, C07_tables), so each is a sequence of [HWr]; EncodeElement first
   replaces the outermost start and end tag (marshal.outerWriter) ---- *)

Definition not_xmlns (x : attr) : bool :=
  negb (is_nil (nspace (aname x)) && bytes_eqb (nlocal (aname x)) (str "xmlns")).

(* marshal.outerWriter: [d] is its depth *)
Fixpoint outer_from (n : name) (a : list attr) (d : nat) (ts : list token) : list token :=
  match ts with
  | [] => []
  | TStart m b :: r =>
      (match d with O => TStart n (a ++ filter not_xmlns b) | S _ => TStart m b end) :: outer_from n a (S d) r
  | TEnd m :: r =>
      match d with
      | 1 => TEnd n :: outer_from n a 0 r
      | S d' => TEnd m :: outer_from n a d' r
      | O => TEnd m :: outer_from n a 0 r     (* unbalanced input: the Go depth goes negative; not used *)
      end
  | t :: r => t :: outer_from n a d r
  end.

Definition outer_el (n : name) (a : list attr) (ts : list token) : list token := outer_from n a 0 ts.

Inductive wmethod :=
| MEncodeToken                                  (* EncodeToken, token by token *)
| MCopy                                         (* xmlstream.Copy(t, reader) *)
| MEncode                                       (* t.Encode(v), v marshalling to the tokens *)
| MEncodeElement (n : name) (a : list attr).    (* t.EncodeElement(v, start) *)

(* the tokens that reach the checker's EncodeToken *)
Definition method_tokens (m : wmethod) (ts : list token) : list token :=
  match m with
  | MEncodeElement n a => outer_el n a ts
  | _ => ts
  end.

Definition h_write (m : wmethod) (ts : list token) (k : handler) : handler :=
  fold_right HWr k (method_tokens m ts).

(* ---- stanza.NewIQ ---- *)

Record iqv := mkiqv { q_name : name; q_id : bytes; q_typ : bytes; q_to : bytes; q_from : bytes; q_lang : bytes }.

Definition s_lang : bytes := str "lang".

Fixpoint new_iq_from (jp : bytes -> option bytes) (sp : bytes) (a : list attr) (v : iqv) : option iqv :=
  match a with
  | [] => Some v
  | x :: r =>
      let an := aname x in
      if bytes_eqb (nlocal an) s_lang && bytes_eqb (nspace an) xml_ns
      then new_iq_from jp sp r (mkiqv (q_name v) (q_id v) (q_typ v) (q_to v) (q_from v) (aval x))
      else if negb (is_nil (nspace an)) && negb (bytes_eqb (nspace an) sp) then new_iq_from jp sp r v
      else if bytes_eqb (nlocal an) s_id
      then new_iq_from jp sp r (mkiqv (q_name v) (aval x) (q_typ v) (q_to v) (q_from v) (q_lang v))
      else if bytes_eqb (nlocal an) s_type
      then new_iq_from jp sp r (mkiqv (q_name v) (q_id v) (aval x) (q_to v) (q_from v) (q_lang v))
      else if bytes_eqb (nlocal an) s_to
      then (if is_nil (aval x) then new_iq_from jp sp r v
            else match jp (aval x) with
                 | None => None
                 | Some j => new_iq_from jp sp r (mkiqv (q_name v) (q_id v) (q_typ v) j (q_from v) (q_lang v))
                 end)
      else if bytes_eqb (nlocal an) s_from
      then (if is_nil (aval x) then new_iq_from jp sp r v
            else match jp (aval x) with
                 | None => None
                 | Some j => new_iq_from jp sp r (mkiqv (q_name v) (q_id v) (q_typ v) (q_to v) j (q_lang v))
                 end)
      else new_iq_from jp sp r v
  end.

Definition new_iq (jp : bytes -> option bytes) (n : name) (a : list attr) : option iqv :=
  new_iq_from jp (nspace n) a (mkiqv n [] [] [] [] []).

(* iqFallback: nothing for result/error, else the request turned round as a
   service-unavailable error *)
Definition fallback_reply (q : iqv) : list token :=
  if bytes_eqb (q_typ q) sv_iq_error || bytes_eqb (q_typ q) sv_iq_result then []
  else
    let n := mkname (nspace (q_name q)) s_iq in
    TStart n ([mk_attr s_type sv_iq_error]
              ++ (if is_nil (q_from q) then [] else [mk_attr s_to (q_from q)])
              ++ (if is_nil (q_to q) then [] else [mk_attr s_from (q_to q)])
              ++ (if is_nil (q_id q) then [] else [mk_attr s_id (q_id q)])
              ++ (if is_nil (q_lang q) then [] else [mkattr (mkname xml_ns s_lang) (q_lang q)]))
    :: su_error ++ [TEnd n].

(* ---- decl.TrimLeftSpace(xmlstream.Inner(t)) as seen from a handler tree ---- *)

Record ist := mkist { in_count : option nat; tr_found : bool }.

Fixpoint ti_read (fuel : nat) (st : ist) (k : rres -> ist -> handler) : handler :=
  match in_count st with
  | None => k (None, Some EEOF) st
  | Some c =>
      HRd (fun r =>
        let '(r1, c') :=
          match fst r with
          | Some (TStart _ _) => (r, Some (S c))
          | Some (TEnd _) => match c with O => ((None, Some EEOF), None) | S c0 => (r, Some c0) end
          | _ => (r, Some c)
          end in
        if tr_found st then k r1 (mkist c' true)
        else match fst r1 with
             | None => k r1 (mkist c' false)
             | Some (TStart _ _) => k r1 (mkist c' true)
             | Some (TChar b) =>
                 if is_ws b then
                   match snd r1 with
                   | Some e => k (None, Some e) (mkist c' false)
                   | None => match fuel with
                             | O => HRet (Some EFuel)
                             | S f => ti_read f (mkist c' false) k
                             end
                   end
                 else k r1 (mkist c' false)
             | Some _ => k r1 (mkist c' false)
             end)
  end.

Fixpoint lift (fuel : nat) (st : ist) (h : handler) : handler :=
  match h with
  | HRet e => HRet e
  | HWr t k => HWr t (lift fuel st k)
  | HRd k => ti_read fuel st (fun r st' => lift fuel st' (k r))
  end.

(* ---- ServeMux.IQHandler: most specific registered pattern ---- *)

Record muxcfg := mkmux {
  m_ns : bytes;               (* the mux's stanza name space *)
  m_fixed : bool;             (* iqRouter answers an IQ without payload element through the fallback *)
  m_regs : list mreg }.

Fixpoint find_reg (typ : bytes) (p : name) (regs : list mreg) : option (list hop) :=
  match regs with
  | [] => None
  | r :: rest => if bytes_eqb (mr_type r) typ && name_eqb (mr_payload r) p then Some (mr_prog r)
                 else find_reg typ p rest
  end.

Definition iq_handler (m : muxcfg) (typ : bytes) (p : name) : option (list hop) :=
  match find_reg typ p (m_regs m) with
  | Some h => Some h
  | None =>
      match find_reg typ (mkname [] (nlocal p)) (m_regs m) with
      | Some h => Some h
      | None =>
          match find_reg typ (mkname (nspace p) []) (m_regs m) with
          | Some h => Some h
          | None => find_reg typ (mkname [] []) (m_regs m)
          end
      end
  end.

Definition then_ret (ts : list token) (e : option err) : handler := fold_right HWr (HRet e) ts.

Definition dispatch (m : muxcfg) (fuel : nat) (q : iqv) (p : name) (st : ist) : handler :=
  match iq_handler m (q_typ q) p with
  | Some prog => lift fuel st (compile prog)
  | None => then_ret (fallback_reply q) None
  end.

Definition iq_router (m : muxcfg) (jp : bytes -> option bytes) (fuel : nat) (n : name) (a : list attr) : handler :=
  match new_iq jp n a with
  | None => HRet (Some EJid)
  | Some q =>
      ti_read fuel (mkist (Some O) false) (fun r st =>
        match snd r with
        | Some e =>
            if err_eqb e EEOF then
              if bytes_eqb (q_typ q) sv_iq_result then dispatch m fuel q (mkname [] []) st
              else if m_fixed m then then_ret (fallback_reply q) (Some EWrapEOF)
              else HRet (Some EEOF)
            else HRet (Some e)
        | None =>
            match fst r with
            | Some (TStart pn _) => dispatch m fuel q pn st
            | Some _ => if m_fixed m then then_ret (fallback_reply q) (Some EInvalidPayload)
                        else HRet (Some EInvalidPayload)
            | None => dispatch m fuel q (mkname [] []) st
            end
        end)
  end.

(* ServeMux.HandleXMPP with no top-level patterns registered. The message and
   presence routers are outside this model: the harness sends them to the mux
   only for the oracle, never as a model case. *)
Definition mux_handler (m : muxcfg) (jp : bytes -> option bytes) (fuel : nat) : handlers :=
  fun n a =>
    if stanza_is n (m_ns m) && bytes_eqb (nlocal n) s_iq then iq_router m jp fuel n a
    else HRet None.

(* ---- cases ---- *)

Definition case_ok7 (b : bytes) : bool :=
  match parse_case_p b with
  | Some (c, tb, divs) =>
      match k_mode c with
      | 0 => outcome_ok_p c divs (serve_all_p (k_cfg c) env_id (prog_handlers (k_progs c)) tb (k_script c))
      | _ =>
          let m := mkmux (c_ns (k_cfg c)) (k_mux_fixed c) (k_mux_regs c) in
          outcome_ok_p c divs (serve_all_p (k_cfg c) env_id
                          (fun _ => mux_handler m (c_jp (k_cfg c)) (S (length (k_script c)))) tb
                          (k_script c))
      end
  | None => false
  end.
