(* C07/Pending.v — lemmas about the serve loop with outstanding requests
   (his_p, serve_p of C08/Model.v): when the table of outstanding requests is
   consulted (table read from the source), what the reader handed to a waiter
   does, and how Serve goes on after an element was handed to a waiter. *)
From XV Require Import lib.Bytes lib.Xml gen.Serve C08.Model C08.Case C08.Proofs C07.Model C07.Proofs.
From Coq Require Import ZArith Lia ZifyBool ZifyNat ZifyN List Bool.
Import ListNotations.

(* ---- the lookup condition, as read from session.go ---- *)

(* the condition is a disjunction of comparisons of typ with string constants;
   there is one guarded lookup and no other use of the table in the function *)
Lemma tbl_lookup_shape :
  sv_lookup_any_iq = false /\ sv_lookup_unrecognised = 0 /\ sv_lookup_sites = 1 /\ sv_lookup_uses = 1.
Proof. vm_compute. repeat split. Qed.

Lemma tbl_lookup_types : sv_lookup_types = [sv_iq_result; sv_iq_error].
Proof. vm_compute. reflexivity. Qed.

Lemma tbl_needs_resp_shape :
  sv_needs_resp_any_iq = false /\ sv_needs_resp_unrecognised = 0 /\ sv_needs_resp_types = [sv_iq_get; sv_iq_set].
Proof. vm_compute. repeat split. Qed.

Lemma consults_only_responses b typ : consults b typ = true -> typ = sv_iq_result \/ typ = sv_iq_error.
Proof.
  unfold consults. destruct tbl_lookup_shape as [-> _]. rewrite tbl_lookup_types. cbn [andb orb in_list existsb].
  intro H. apply orb_true_iff in H. destruct H as [H|H].
  - left. apply bytes_eqb_eq. exact H.
  - apply orb_true_iff in H. destruct H as [H|H]; [|discriminate]. right. apply bytes_eqb_eq. exact H.
Qed.

Lemma consults_not_requests b typ : needs_resp typ = true -> consults b typ = false.
Proof.
  intro H. destruct (consults b typ) eqn:E; [|reflexivity].
  destruct (consults_only_responses b typ E) as [-> | ->]; vm_compute in H; discriminate.
Qed.

Lemma request_not_diverted tb n a' : needs_resp (snd (get_id_typ a')) = true -> diverted_to tb n a' = None.
Proof. intro H. unfold diverted_to. rewrite (consults_not_requests _ _ H). reflexivity. Qed.

Lemma pt_find_in id : forall tb e, pt_find id tb = Some e -> In e tb /\ pe_id e = id.
Proof.
  induction tb as [|x r IH]; intros e H; cbn [pt_find] in H; [discriminate|].
  destruct (bytes_eqb (pe_id x) id) eqn:E.
  - inversion H; subst. split; [left; reflexivity|]. apply bytes_eqb_eq. exact E.
  - destruct (IH e H) as [H1 H2]. split; [right; exact H1|exact H2].
Qed.

Lemma diverted_spec tb n a' e : diverted_to tb n a' = Some e ->
  (snd (get_id_typ a') = sv_iq_result \/ snd (get_id_typ a') = sv_iq_error) /\
  needs_resp (snd (get_id_typ a')) = false /\
  In e tb /\ pe_id e = fst (get_id_typ a') /\ name_accepts (pe_name e) n = true.
Proof.
  unfold diverted_to. destruct (consults (is_iq n) (snd (get_id_typ a'))) eqn:Ec; [|discriminate].
  destruct (pt_find (fst (get_id_typ a')) tb) as [x|] eqn:Ef; [|discriminate].
  destruct (name_accepts (pe_name x) n) eqn:En; [|discriminate].
  intro H. inversion H; subst x. clear H.
  pose proof (consults_only_responses _ _ Ec) as Ht.
  destruct (pt_find_in _ _ _ Ef) as [Hin Hid].
  split; [exact Ht|]. split; [|split; [exact Hin|split; [exact Hid|exact En]]].
  destruct Ht as [-> | ->]; vm_compute; reflexivity.
Qed.

(* ---- the reader handed to a waiter: xmlstream.Inner over the element ---- *)

Section Inner.
Variable ws : bool.

Lemma in_of_ec_ok s t s' : r_ecerr s = None -> ec_token ws s = ((Some t, None), s') ->
  in_token ws s = match t, r_count s' with
                  | TEnd _, None => ((None, Some EEOF), s')
                  | _, _ => ((Some t, None), s')
                  end.
Proof.
  intros He H. unfold ec_token in H. rewrite He in H. unfold in_token.
  destruct (ie_token ws s) as [[ot oe] s1]. cbn [snd fst] in *.
  destruct oe as [e|].
  - destruct e; inversion H.
  - inversion H; subst. reflexivity.
Qed.

Lemma in_clean_start pd0 c n a l : clean ws (TStart n a) = true ->
  in_token ws (act pd0 c (TStart n a :: l)) = ((Some (TStart n a), None), act pd0 (S c) l).
Proof. intro Hc. rewrite (in_of_ec_ok (act pd0 c (TStart n a :: l)) _ _ eq_refl (ec_clean_start ws pd0 c n a l Hc)). reflexivity. Qed.

Lemma in_clean_end_inner pd0 c n l : clean ws (TEnd n) = true ->
  in_token ws (act pd0 (S c) (TEnd n :: l)) = ((Some (TEnd n), None), act pd0 c l).
Proof. intro Hc. rewrite (in_of_ec_ok (act pd0 (S c) (TEnd n :: l)) _ _ eq_refl (ec_clean_end_inner ws pd0 c n l Hc)). reflexivity. Qed.

Lemma in_clean_end_last pd0 n l : clean ws (TEnd n) = true ->
  in_token ws (act pd0 0 (TEnd n :: l)) = ((None, Some EEOF), fin pd0 l false).
Proof. intro Hc. rewrite (in_of_ec_ok (act pd0 0 (TEnd n :: l)) _ _ eq_refl (ec_clean_end_last ws pd0 n l Hc)). reflexivity. Qed.

Lemma in_clean_char pd0 c b l :
  in_token ws (act pd0 c (TChar b :: l)) = ((Some (TChar b), None), act pd0 c l).
Proof. rewrite (in_of_ec_ok (act pd0 c (TChar b :: l)) _ _ eq_refl (ec_clean_char ws pd0 c b l)). reflexivity. Qed.

Lemma in_fin pd0 l : in_token ws (fin pd0 l false) = ((None, Some EEOF), fin pd0 l false).
Proof. reflexivity. Qed.

Lemma in_trunc pd0 c : exists s', in_token ws (act pd0 c []) = ((None, Some EDecode), s').
Proof. eexists. reflexivity. Qed.

Ltac in_unfold :=
  unfold in_token, ie_token, i_token, rc_token, p_token, act, fin;
  cbn [r_ecerr r_count r_closed r_p p_poison p_toks p_depth r_idepth].

Lemma in_dirty pd0 c t l : clean ws t = false ->
  exists s', in_token ws (act pd0 c (t :: l)) = ((None, Some (dirty_err ws t l)), s').
Proof.
  intro Hc. destruct t as [n a|n|b|k b]; cbn [clean] in Hc.
  - assert (Hwe : ws_ends (pd0 + N.of_nat (S c)) (nlocal n) = false) by (apply ws_ends_nested; lia).
    in_unfold. unfold sr_classify, dirty_err. rewrite Hwe.
    destruct (ws && bytes_eqb (nspace n) sv_ns_framing) eqn:Ef;
    destruct (bytes_eqb (nspace n) sv_ns_stream) eqn:Es;
    cbn [negb andb] in Hc; try discriminate Hc; cbn [negb].
    + eexists; reflexivity.
    + eexists; reflexivity.
    + destruct (bytes_eqb (nlocal n) s_error) eqn:Ee.
      * eexists; reflexivity.
      * destruct (bytes_eqb (nlocal n) s_stream) eqn:Est; eexists; reflexivity.
  - apply negb_false_iff in Hc.
    in_unfold. unfold sr_classify, dirty_err. rewrite Hc. cbn [negb].
    destruct (bytes_eqb (nlocal n) s_stream) eqn:Est; eexists; reflexivity.
  - discriminate.
  - in_unfold. unfold sr_classify, dirty_err.
    destruct k as [|[|k]]; eexists; reflexivity.
Qed.

Lemma in_closed s : r_closed s = true -> exists s', in_token ws s = ((None, Some EEOF), s') /\ s' = s.
Proof.
  intro Hc. destruct s as [p cl idp cnt ece]. cbn in Hc. subst.
  unfold in_token, ie_token. cbn [r_count]. destruct cnt as [c|].
  - unfold i_token, rc_token. cbn. eexists. split; reflexivity.
  - cbn. eexists. split; reflexivity.
Qed.

(* [Rw pd0 pre e s]: the reader handed to the waiter (earlyCloser over Inner) is
   inside an element whose remaining readable part (its own end tag included) is [pre] *)
Inductive Rw (pd0 : N) : list token -> scan_end -> rst -> Prop :=
| Rw_act c l pre e : scan ws c l = (pre, e) -> Rw pd0 pre e (act pd0 c l)
| Rw_fin rest cl : Rw pd0 [] (SEComplete rest) (fin pd0 rest cl)
| Rw_stuck e x s : (forall rest, e <> SEComplete rest) -> r_ecerr s = Some x -> x <> EEOF -> Rw pd0 [] e s
| Rw_eofd e s : (forall rest, e <> SEComplete rest) -> term_of ws e = EEOF ->
    r_ecerr s = None -> r_closed s = true -> Rw pd0 [] e s.

Lemma err_eof_dec (x : err) : {x = EEOF} + {x <> EEOF}.
Proof. destruct x; (left; reflexivity) || (right; discriminate). Qed.

(* after an error of the reader below: sticky unless it was an EOF, which closes *)
Lemma wt_after_err s x s1 : r_ecerr s = None -> in_token ws s = ((None, Some x), s1) ->
  exists s', wt_token ws s = ((None, Some x), s') /\
    (x <> EEOF -> r_ecerr s' = Some x) /\
    (x = EEOF -> r_ecerr s' = None /\ r_closed s' = true /\ r_p s' = r_p s1).
Proof.
  intros He E. unfold wt_token. rewrite He, E. cbn [snd].
  destruct x; eexists; (split; [reflexivity|]); split; intros; try congruence; try (cbn; repeat split; reflexivity).
Qed.

Lemma wt_ok s t s1 : r_ecerr s = None -> in_token ws s = ((Some t, None), s1) -> wt_token ws s = ((Some t, None), s1).
Proof. intros He E. unfold wt_token. rewrite He, E. reflexivity. Qed.

(* one read: either a token of the element and the invariant goes on, or an
   error that is kept; an EOF is given only at the element's own end tag or, for
   an element that is not complete, when the construct met reads as the end of
   the stream *)
Lemma Rw_step pd0 pre e s : Rw pd0 pre e s ->
  exists r s', wt_token ws s = (r, s') /\
    ((exists t pre', pre = t :: pre' /\ r = ok_res t /\ Rw pd0 pre' e s') \/
     (exists x, r = (None, Some x) /\ Rw pd0 [] e s' /\
        (x = EEOF -> term_of ws e = EEOF /\ forall rest, e = SEComplete rest -> r_p s' = mkp rest pd0 false))).
Proof.
  intro H. destruct H as [c l pre e Hs|rest cl|e x s Hne He Hx|e s Hne Ht He Hcl].
  - destruct l as [|t r]; cbn [scan] in Hs.
    + inversion Hs; subst. destruct (in_trunc pd0 c) as [s1 E].
      destruct (wt_after_err (act pd0 c []) EDecode s1 eq_refl E) as [s' [E' [H1 _]]].
      exists (None, Some EDecode), s'. split; [exact E'|]. right. exists EDecode.
      split; [reflexivity|]. split; [|intro; discriminate].
      apply (Rw_stuck pd0 SETrunc EDecode); [intros rest; discriminate|apply H1; discriminate|discriminate].
    + destruct (clean ws t) eqn:Hc.
      * destruct t as [n a|n|b|k b].
        -- destruct (scan ws (S c) r) as [pre' e'] eqn:Hs'. inversion Hs; subst.
           eexists. eexists. split; [apply wt_ok; [reflexivity|apply in_clean_start; exact Hc]|]. left.
           eexists. eexists. split; [reflexivity|]. split; [reflexivity|]. apply Rw_act. exact Hs'.
        -- destruct c as [|c'].
           ++ inversion Hs; subst.
              destruct (wt_after_err (act pd0 0 (TEnd n :: r)) EEOF _ eq_refl (in_clean_end_last pd0 n r Hc)) as [s' [E' [_ H2]]].
              destruct (H2 eq_refl) as [H3 [H4 H5]].
              exists (None, Some EEOF), s'. split; [exact E'|]. right. exists EEOF. split; [reflexivity|].
              assert (Hs' : s' = fin pd0 r true).
              { unfold wt_token in E'. cbn [r_ecerr act] in E'. change (r_ecerr (act pd0 0 (TEnd n :: r))) with (@None err) in E'.
                rewrite (in_clean_end_last pd0 n r Hc) in E'. cbn [snd] in E'. inversion E'. reflexivity. }
              subst s'. split; [apply Rw_fin|]. intros _. split; [reflexivity|].
              intros rest Hr. inversion Hr; subst. reflexivity.
           ++ destruct (scan ws c' r) as [pre' e'] eqn:Hs'. inversion Hs; subst.
              eexists. eexists. split; [apply wt_ok; [reflexivity|apply in_clean_end_inner; exact Hc]|]. left.
              eexists. eexists. split; [reflexivity|]. split; [reflexivity|]. apply Rw_act. exact Hs'.
        -- destruct (scan ws c r) as [pre' e'] eqn:Hs'. inversion Hs; subst.
           eexists. eexists. split; [apply wt_ok; [reflexivity|apply in_clean_char]|]. left.
           eexists. eexists. split; [reflexivity|]. split; [reflexivity|]. apply Rw_act. exact Hs'.
        -- cbn in Hc. discriminate.
      * inversion Hs; subst. destruct (in_dirty pd0 c t r Hc) as [s1 E].
        destruct (wt_after_err (act pd0 c (t :: r)) _ s1 eq_refl E) as [s' [E' [H1 H2]]].
        eexists. eexists. split; [exact E'|]. right. exists (dirty_err ws t r). split; [reflexivity|].
        destruct (err_eof_dec (dirty_err ws t r)) as [Heq|Hneq].
        -- destruct (H2 Heq) as [H3 [H4 _]]. split.
           ++ apply Rw_eofd; [intros rest; discriminate|exact Heq|exact H3|exact H4].
           ++ intros _. split; [exact Heq|]. intros rest Hr. discriminate.
        -- split; [apply (Rw_stuck pd0 _ (dirty_err ws t r)); [intros rest; discriminate|apply H1; exact Hneq|exact Hneq]|].
           intro Heq. contradiction.
  - exists (None, Some EEOF), (fin pd0 rest true). split; [reflexivity|]. right. exists EEOF. split; [reflexivity|].
    split; [apply Rw_fin|]. intros _. split; [reflexivity|]. intros r Hr. inversion Hr; subst. reflexivity.
  - exists (None, Some x), s. split; [unfold wt_token; rewrite He; reflexivity|]. right. exists x.
    split; [reflexivity|]. split; [apply (Rw_stuck pd0 e x); assumption|]. intro; contradiction.
  - destruct (in_closed s Hcl) as [s1 [E ->]].
    destruct (wt_after_err s EEOF s He E) as [s' [E' [_ H2]]]. destruct (H2 eq_refl) as [H3 [H4 _]].
    exists (None, Some EEOF), s'. split; [exact E'|]. right. exists EEOF. split; [reflexivity|].
    split; [apply Rw_eofd; assumption|]. intros _. split; [exact Ht|]. intros rest Hr. exfalso. exact (Hne rest Hr).
Qed.

Definition Rw_any (pd0 : N) (e : scan_end) (k : nat) (s : rst) : Prop :=
  exists pre, Rw pd0 pre e s /\ length pre <= k.

Lemma Rw_any_step pd0 e k s : Rw_any pd0 e k s ->
  exists r s', wt_token ws s = (r, s') /\ Rw_any pd0 e k s'.
Proof.
  intros [pre [H Hk]]. destruct (Rw_step pd0 pre e s H) as [r [s' [E [[t [pre' [Hp [_ H']]]]|[x [_ [H' _]]]]]]];
  exists r, s'; (split; [exact E|]); eexists; (split; [exact H'|]).
  - subst pre. cbn in Hk. lia.
  - cbn. lia.
Qed.

(* whatever the waiter reads, the invariant is kept *)
Lemma run_w_inv pd0 n a' e k : forall h ph s seen, Rw_any pd0 e k s ->
  exists s' seen', run_w ws n a' h ph s seen = (s', seen') /\ Rw_any pd0 e k s'.
Proof.
  induction h as [e0|kf IH|t h IH]; intros ph s seen HR.
  - eexists. eexists. split; [reflexivity|exact HR].
  - cbn [run_w]. unfold wr_token. destruct ph as [|[|ph]].
    + apply IH. exact HR.
    + destruct (Rw_any_step pd0 e k s HR) as [r [s1 [E HR1]]]. rewrite E.
      destruct r as [[tk|] [[]|]]; apply IH; exact HR1.
    + apply IH. exact HR.
  - cbn [run_w]. apply IH. exact HR.
Qed.

(* discarding the rest: without error only at the element's end, and then the
   input stands right after it *)
Lemma drain_in_spec pd0 e : forall fuel pre s, Rw pd0 pre e s -> length pre < fuel ->
  exists ret s', drain_in ws fuel s = (ret, s') /\
    (ret = None -> term_of ws e = EEOF /\ forall rest, e = SEComplete rest -> r_p s' = mkp rest pd0 false).
Proof.
  induction fuel as [|f IH]; intros pre s HR Hl; [lia|].
  cbn [drain_in]. destruct (Rw_step pd0 pre e s HR) as [r [s1 [E [[t [pre' [-> [-> HR1]]]]|[x [-> [HR1 Hx]]]]]]]; rewrite E.
  - cbn [snd ok_res]. apply (IH pre' s1 HR1). cbn in Hl. lia.
  - cbn [snd]. destruct x; try (eexists; eexists; split; [reflexivity|]; intro; discriminate).
    eexists. eexists. split; [reflexivity|]. intros _. apply Hx. reflexivity.
Qed.

End Inner.

(* ---- handleInputStream with outstanding requests ---- *)

Lemma finish_inv_is_inv c fuel n a' id typ res : exists v p', finish_inv c fuel n a' id typ res = (HRInv v, p').
Proof.
  unfold finish_inv. destruct res as [[[ret s2] w] seen]. destruct ret as [e|].
  - eexists. eexists. reflexivity.
  - destruct (if is_iq n && needs_resp typ && negb (w_wrote w) && negb (is_nil (attr_get s_from a'))
              then c_jp c (attr_get s_from a') else Some []) as [j|].
    + destruct (c_oclosed c && (is_iq n && needs_resp typ && negb (w_wrote w) || negb (is_nil (w_out w)))).
      * eexists. eexists. reflexivity.
      * destruct (drain (c_ws c) fuel s2) as [e s3]. eexists. eexists. reflexivity.
    + eexists. eexists. reflexivity.
Qed.

(* an element that is not handed to a waiter is handled as without the table, and the table is left alone *)
Lemma his_p_plain c fuel tb hf p h p' :
  his c fuel hf p = (h, p') -> (forall v, h <> HRInv v) -> his_p c fuel tb hf p = (PH h, p', tb).
Proof.
  intros H Hn. unfold his_p. pose proof H as H'. unfold his in H'.
  destruct (i_token (c_ws c) (mkr p false 0%N (Some 0) None)) as [[ot oe] s1].
  destruct ot as [[n a|n|b|k b]|]; destruct oe as [e|]; try (rewrite H; reflexivity).
  exfalso. cbv beta iota zeta in H'.
  destruct (finish_inv_is_inv c fuel n (shown_attrs c n a) (fst (get_id_typ (shown_attrs c n a)))
              (snd (get_id_typ (shown_attrs c n a)))
              (run_h (c_ws c) (fst (get_id_typ (shown_attrs c n a))) (hf n (shown_attrs c n a)) s1 (mkw [] 0%Z false) []))
    as [v [p1 E]].
  rewrite E in H'. inversion H'; subst. apply (Hn v). reflexivity.
Qed.

Lemma his_p_not_diverted c fuel tb hf pd n a l :
  clean (c_ws c) (TStart n a) = true -> diverted_to tb n (shown_attrs c n a) = None ->
  his_p c fuel tb hf (mkp (TStart n a :: l) pd false) =
  (PH (fst (his c fuel hf (mkp (TStart n a :: l) pd false))), snd (his c fuel hf (mkp (TStart n a :: l) pd false)), tb).
Proof.
  intros Hc Hd. unfold his_p. rewrite (i_token_start (c_ws c) pd n a l Hc). cbv beta iota zeta.
  rewrite Hd. destruct (his c fuel hf (mkp (TStart n a :: l) pd false)) as [h p']. reflexivity.
Qed.

(* an element handed to a waiter: the handler is not involved, nothing is
   written; if handleInputStream returns nil the element was complete and the
   input stands right after its end tag *)
Lemma his_p_diverted c fuel tb hf pd n a l e0 pre e :
  clean (c_ws c) (TStart n a) = true -> diverted_to tb n (shown_attrs c n a) = Some e0 ->
  scan (c_ws c) 0 l = (pre, e) -> length l < fuel ->
  exists d p', his_p c fuel tb hf (mkp (TStart n a :: l) pd false)
               = (PDiv d, p', if pe_live e0 then pt_remove (pe_id e0) tb else tb) /\
    d_name d = n /\ d_attrs d = shown_attrs c n a /\ d_id d = pe_id e0 /\ d_taken d = pe_live e0 /\
    (d_ret d = None -> term_of (c_ws c) e = EEOF /\ forall rest, e = SEComplete rest -> p' = mkp rest pd false).
Proof.
  intros Hc Hd Hs Hl. unfold his_p. rewrite (i_token_start (c_ws c) pd n a l Hc). cbv beta iota zeta.
  rewrite Hd.
  assert (HR0 : Rw_any (c_ws c) pd e (length l) (act pd 0 l)).
  { exists pre. split; [apply Rw_act; exact Hs|apply (scan_len (c_ws c) l 0 pre e Hs)]. }
  assert (Hrun : exists s2 seen, (if pe_live e0 then run_w (c_ws c) n (shown_attrs c n a) (pe_prog e0) 0 (act pd 0 l) []
                                  else (act pd 0 l, [])) = (s2, seen) /\ Rw_any (c_ws c) pd e (length l) s2).
  { destruct (pe_live e0).
    - apply (run_w_inv (c_ws c) pd n (shown_attrs c n a) e (length l)). exact HR0.
    - eexists. eexists. split; [reflexivity|exact HR0]. }
  destruct Hrun as [s2 [seen [E2 [pre2 [HR2 Hk]]]]]. rewrite E2.
  assert (Hlen : length pre2 < fuel) by lia.
  destruct (drain_in_spec (c_ws c) pd e fuel pre2 s2 HR2 Hlen) as [ret [s3 [E3 H3]]]. rewrite E3.
  eexists. eexists. split; [reflexivity|]. cbn [d_name d_attrs d_id d_taken d_ret].
  repeat (split; [reflexivity|]).
  intro Hr. destruct (H3 Hr) as [Ht Hrest]. split; [exact Ht|].
  intros rest He. exact (Hrest rest He).
Qed.

(* ---- Serve with outstanding requests ---- *)

Section ServeP.
Variable c : cfg.
Notation ws := (c_ws c).

(* an element handed to a waiter: it is a response (type result or error), the
   table held an entry with its id and a name that accepts it *)
Definition div_spec (tb : ptable) (n : name) (a : list attr) (d : dinv) : Prop :=
  let a' := shown_attrs c n a in
  d_name d = n /\ d_attrs d = a' /\
  (snd (get_id_typ a') = sv_iq_result \/ snd (get_id_typ a') = sv_iq_error) /\
  needs_resp (snd (get_id_typ a')) = false /\
  exists e, In e tb /\ pe_id e = fst (get_id_typ a') /\ d_id d = pe_id e /\
            name_accepts (pe_name e) n = true /\ d_taken d = pe_live e.

Definition ev_ret (ev : event) : option err := match ev with EvInv v => v_ret v | EvDiv d => d_ret d end.

(* how the events and the result of Serve follow the script, whatever is outstanding *)
Inductive follows_p : list token -> list event -> option err -> Prop :=
| FP_end l e : top_err ws l = Some e -> follows_p l [] (ret_of e)
| FP_ws b l evs r : is_ws b = true -> follows_p l evs r -> follows_p (TChar b :: l) evs r
| FP_stop n a l pre e v p' er :
    clean ws (TStart n a) = true -> scan ws 0 l = (pre, e) -> inv_spec c n a 0%N pre e v p' ->
    v_ret v = Some er -> follows_p (TStart n a :: l) [EvInv v] (Some (send_error er))
| FP_go n a l pre rest v evs r :
    clean ws (TStart n a) = true -> scan ws 0 l = (pre, SEComplete rest) ->
    inv_spec c n a 0%N pre (SEComplete rest) v (mkp rest 0%N false) ->
    v_ret v = None -> follows_p rest evs r -> follows_p (TStart n a :: l) (EvInv v :: evs) r
| FP_div_stop n a l d tb er :
    clean ws (TStart n a) = true -> div_spec tb n a d -> d_ret d = Some er ->
    follows_p (TStart n a :: l) [EvDiv d] (Some (send_error er))
| FP_div_go n a l pre rest d tb evs r :
    clean ws (TStart n a) = true -> scan ws 0 l = (pre, SEComplete rest) -> div_spec tb n a d ->
    d_ret d = None -> follows_p rest evs r -> follows_p (TStart n a :: l) (EvDiv d :: evs) r.

Lemma serve_p_follows env hf : forall fuel idx k tb l base,
  ends_match base l = true -> length l < fuel ->
  let r := serve_p c fuel env hf idx k tb (mkp l 0%N false) in follows_p l (sp_events r) (sp_ret r).
Proof.
  induction fuel as [|f IH]; intros idx k tb l base Hm Hl; [lia|].
  cbn [serve_p p_toks]. cbv zeta.
  destruct (top_err ws l) as [e|] eqn:Et.
  - destruct (his_top c (S (length l)) (hf idx) l e Et) as [p' E].
    rewrite (his_p_plain c _ (env k tb) (hf idx) _ _ _ E) by (intros v; discriminate).
    destruct e; cbn [sp_events sp_ret]; apply (FP_end l _ Et).
  - destruct l as [|t r]; [cbn in Et; discriminate|].
    destruct t as [n a|n|b|kk b]; cbn [top_err] in Et.
    + destruct (clean ws (TStart n a)) eqn:Hc; [|discriminate].
      destruct (scan ws 0 r) as [pre e] eqn:Hs.
      assert (Hfu : length r < S (length (TStart n a :: r))) by (cbn; lia).
      assert (Hn : not_stream n).
      { cbn [clean] in Hc. apply andb_true_iff in Hc. destruct Hc as [H1 _]. apply negb_true_iff in H1. exact H1. }
      cbn [ends_match] in Hm.
      destruct (diverted_to (env k tb) n (shown_attrs c n a)) as [e0|] eqn:Hd.
      * (* handed to a waiter *)
        destruct (his_p_diverted c (S (length (TStart n a :: r))) (env k tb) (hf idx) 0%N n a r e0 pre e Hc Hd Hs Hfu)
          as [d [p' [E [D1 [D2 [D3 [D4 D5]]]]]]].
        rewrite E.
        assert (Hds : div_spec (env k tb) n a d).
        { destruct (diverted_spec _ _ _ _ Hd) as [S1 [S2 [S3 [S4 S5]]]].
          unfold div_spec. cbv zeta. split; [exact D1|]. split; [exact D2|]. split; [exact S1|]. split; [exact S2|].
          exists e0. repeat split; assumption. }
        destruct (d_ret d) as [er|] eqn:Er.
        -- cbn [sp_events sp_ret]. eapply FP_div_stop; eassumption.
        -- destruct (D5 eq_refl) as [Ht Hrest].
           destruct e as [rest|t' r'|].
           ++ rewrite (Hrest rest eq_refl). cbn [sp_cons sp_events sp_ret].
              eapply FP_div_go; try eassumption.
              apply (IH idx (S k) _ rest base).
              ** apply (ends_match_rest c r 0 [n] base pre rest); [exact Hm|reflexivity|exact Hs].
              ** pose proof (scan_rest_len c r 0 pre rest Hs). cbn in Hl. lia.
           ++ exfalso. apply (scan_dirty_not_eof c r 0 [n] base pre t' r' Hm eq_refl); [constructor; [exact Hn|constructor]|exact Hs|exact Ht].
           ++ cbn in Ht. discriminate.
      * (* handed to the handler *)
        rewrite (his_p_not_diverted c _ (env k tb) (hf idx) 0%N n a r Hc Hd).
        destruct (his_elem c (S (length (TStart n a :: r))) (hf idx) 0%N n a r pre e Hc Hs Hfu) as [v [p' [E Hv]]].
        rewrite E. cbn [fst snd]. destruct (v_ret v) as [er|] eqn:Er.
        -- cbn [sp_events sp_ret]. eapply FP_stop; eassumption.
        -- pose proof Hv as Hv'. destruct Hv' as [_ [_ [_ [H4 [_ [H6 _]]]]]].
           destruct (H4 Er) as [Ht [Hrest _]].
           destruct e as [rest|t' r'|].
           ++ pose proof (Hrest rest eq_refl) as Hp. subst p'.
              cbn [sp_cons sp_events sp_ret]. eapply FP_go; try eassumption.
              apply (IH (S idx) (S k) _ rest base).
              ** apply (ends_match_rest c r 0 [n] base pre rest); [exact Hm|reflexivity|exact Hs].
              ** pose proof (scan_rest_len c r 0 pre rest Hs). cbn in Hl. lia.
           ++ exfalso. apply (scan_dirty_not_eof c r 0 [n] base pre t' r' Hm eq_refl); [constructor; [exact Hn|constructor]|exact Hs|exact Ht].
           ++ cbn in Ht. discriminate.
    + destruct (clean ws (TEnd n)); discriminate.
    + destruct (is_ws b) eqn:Eb; [|discriminate].
      rewrite (his_p_plain c _ (env k tb) (hf idx) _ _ _ (his_ws c _ (hf idx) b r Eb)) by (intros v; discriminate).
      apply FP_ws; [exact Eb|].
      apply (IH idx (S k) _ r base); [exact Hm|cbn in Hl; lia].
    + discriminate.
Qed.

(* every handler invocation meets the per-invocation specification (hence the
   reply rule), everything handed to a waiter was a response, and only the last
   event of a run can have failed *)
Lemma follows_p_events l evs r : follows_p l evs r ->
  Forall (fun ev => match ev with
                    | EvInv v => exists n a pre e p', clean ws (TStart n a) = true /\ inv_spec c n a 0%N pre e v p'
                    | EvDiv d => exists tb n a, clean ws (TStart n a) = true /\ div_spec tb n a d
                    end) evs /\
  (r = None -> Forall (fun ev => ev_ret ev = None) evs) /\
  (forall ev, In ev (removelast evs) -> ev_ret ev = None).
Proof.
  induction 1 as [l e Ht|b l evs r Hb Hf IH|n a l pre e v p' er Hc Hs Hv Hr|n a l pre rest v evs r Hc Hs Hv Hr Hf IH
                 |n a l d tb er Hc Hd Hr|n a l pre rest d tb evs r Hc Hs Hd Hr Hf IH].
  - split; [constructor|]. split; [intros; constructor|]. intros v [].
  - exact IH.
  - split; [constructor; [|constructor]; do 5 eexists; split; eassumption|].
    split; [intro H; discriminate|]. intros v0 [].
  - destruct IH as [I1 [I2 I3]].
    split; [constructor; [do 5 eexists; split; eassumption|exact I1]|].
    split; [intro H; constructor; [exact Hr|apply I2; exact H]|].
    intros v0 Hin. destruct evs as [|v1 evs']; [destruct Hin|].
    cbn [removelast] in Hin. destruct Hin as [<-|Hin]; [exact Hr|]. apply I3. exact Hin.
  - split; [constructor; [|constructor]; do 3 eexists; split; eassumption|].
    split; [intro H; discriminate|]. intros v0 [].
  - destruct IH as [I1 [I2 I3]].
    split; [constructor; [do 3 eexists; split; eassumption|exact I1]|].
    split; [intro H; constructor; [exact Hr|apply I2; exact H]|].
    intros v0 Hin. destruct evs as [|v1 evs']; [destruct Hin|].
    cbn [removelast] in Hin. destruct Hin as [<-|Hin]; [exact Hr|]. apply I3. exact Hin.
Qed.

End ServeP.

(* with nothing outstanding and nobody registering anything, Serve is the plain loop *)
Lemma his_p_nil c fuel hf p : his_p c fuel [] hf p = (PH (fst (his c fuel hf p)), snd (his c fuel hf p), []).
Proof.
  unfold his_p. destruct (i_token (c_ws c) (mkr p false 0%N (Some 0) None)) as [[ot oe] s1].
  destruct (his c fuel hf p) as [h p'].
  destruct ot as [[n a|n|b|k b]|]; destruct oe as [e|]; try reflexivity.
  unfold diverted_to. cbn [pt_find]. destruct (consults _ _); reflexivity.
Qed.

Lemma serve_p_nil c hf : forall fuel idx k p,
  let r := serve_p c fuel env_id hf idx k [] p in
  sp_ret r = s_ret (serve c fuel hf idx p) /\ sp_events r = map EvInv (s_invs (serve c fuel hf idx p)) /\
  sp_rest r = s_rest (serve c fuel hf idx p).
Proof.
  induction fuel as [|f IH]; intros idx k p; cbv zeta; [cbn; repeat split|].
  cbn [serve_p serve]. change (env_id k []) with (@nil pentry). rewrite his_p_nil.
  destruct (his c (S (length (p_toks p))) (hf idx) p) as [h p']. cbn [fst snd].
  destruct h as [e| |v].
  - destruct e; cbn [sp_ret sp_events sp_rest s_ret s_invs s_rest map]; repeat split.
  - apply IH.
  - destruct (v_ret v); [cbn; repeat split|].
    destruct (IH (S idx) (S k) p') as [I1 [I2 I3]]. cbn [sp_cons sp_ret sp_events sp_rest s_ret s_invs s_rest map].
    rewrite I1, I2, I3. repeat split.
Qed.

(* ---- the clauses of C07, for every table of outstanding requests ---- *)

(* an element that reached the handler: the table played no part *)
Lemma his_p_PH_inv c fuel tb hf pd n a l h p' tb' :
  clean (c_ws c) (TStart n a) = true -> length l < fuel ->
  his_p c fuel tb hf (mkp (TStart n a :: l) pd false) = (PH h, p', tb') ->
  his c fuel hf (mkp (TStart n a :: l) pd false) = (h, p') /\ tb' = tb /\
  diverted_to tb n (shown_attrs c n a) = None.
Proof.
  intros Hc Hl H. destruct (diverted_to tb n (shown_attrs c n a)) as [e0|] eqn:Hd.
  - destruct (scan (c_ws c) 0 l) as [pre e] eqn:Hs.
    destruct (his_p_diverted c fuel tb hf pd n a l e0 pre e Hc Hd Hs Hl) as [d [p1 [E _]]].
    rewrite E in H. discriminate.
  - rewrite (his_p_not_diverted c fuel tb hf pd n a l Hc Hd) in H.
    destruct (his c fuel hf (mkp (TStart n a :: l) pd false)) as [h0 p0]. cbn [fst snd] in H.
    inversion H; subst. repeat split.
Qed.

(* a get/set IQ always reaches the handler, whatever is outstanding, and is answered exactly once *)
Lemma c07_exactly_one_reply_p c fuel tb hf pd n a l f :
  clean (c_ws c) (TStart n a) = true -> length l < fuel ->
  let a' := shown_attrs c n a in
  let id := fst (get_id_typ a') in
  let from := attr_get s_from a' in
  is_iq n = true -> needs_resp (snd (get_id_typ a')) = true ->
  exists v p', his_p c fuel tb hf (mkp (TStart n a :: l) pd false) = (PH (HRInv v), p', tb) /\
    v_name v = n /\ v_attrs v = a' /\
    (v_ret v = None -> v_hw v = tokens_of_forest f ->
      (existsb (reply_tree id) f = true -> v_auto v = []) /\
      (existsb (reply_tree id) f = false ->
         exists j, v_auto v = tokens_of_tree (default_tree id j) /\
                   reply_tree id (default_tree id j) = true /\
                   (from = [] -> j = []) /\ (from <> [] -> c_jp c from = Some j))).
Proof.
  intros Hc Hl a' id from Hiq Hneed.
  destruct (scan (c_ws c) 0 l) as [pre e] eqn:Hs.
  destruct (his_elem c fuel hf pd n a l pre e Hc Hs Hl) as [v [p' [E Hv]]].
  exists v, p'. split.
  - rewrite (his_p_not_diverted c fuel tb hf pd n a l Hc (request_not_diverted tb n a' Hneed)).
    rewrite E. reflexivity.
  - destruct Hv as [V1 [V2 _]]. split; [exact V1|]. split; [exact V2|].
    intros Hret Hhw. exact (c07_exactly_one_reply c fuel hf pd n a l v p' f Hc Hl E Hiq Hneed Hret Hhw).
Qed.

Lemma c07_other_ids_dont_count_p c fuel tb hf pd n a l v p' tb' f :
  clean (c_ws c) (TStart n a) = true -> length l < fuel ->
  his_p c fuel tb hf (mkp (TStart n a :: l) pd false) = (PH (HRInv v), p', tb') ->
  let a' := shown_attrs c n a in
  let id := fst (get_id_typ a') in
  is_iq n = true -> needs_resp (snd (get_id_typ a')) = true ->
  v_ret v = None -> v_hw v = tokens_of_forest f ->
  (forall t, In t f -> match t with
                       | Elem m b _ => is_iq_empty m = false \/ fst (get_id_typ b) <> id \/ needs_resp (snd (get_id_typ b)) = true
                       | _ => True
                       end) ->
  exists j, v_auto v = tokens_of_tree (default_tree id j).
Proof.
  intros Hc Hl H. destruct (his_p_PH_inv c fuel tb hf pd n a l _ p' tb' Hc Hl H) as [Hh _].
  exact (c07_other_ids_dont_count c fuel hf pd n a l v p' f Hc Hl Hh).
Qed.

Lemma c07_no_auto_reply_otherwise_p c fuel tb hf pd n a l v p' tb' :
  clean (c_ws c) (TStart n a) = true -> length l < fuel ->
  his_p c fuel tb hf (mkp (TStart n a :: l) pd false) = (PH (HRInv v), p', tb') ->
  is_iq n = false \/ needs_resp (snd (get_id_typ (shown_attrs c n a))) = false ->
  v_auto v = [].
Proof.
  intros Hc Hl H. destruct (his_p_PH_inv c fuel tb hf pd n a l _ p' tb' Hc Hl H) as [Hh _].
  exact (c07_no_auto_reply_otherwise c fuel hf pd n a l v p' Hc Hl Hh).
Qed.

(* only responses are ever handed to waiters *)
Lemma c07_only_responses_diverted c fuel tb hf pd n a l d p' tb' :
  clean (c_ws c) (TStart n a) = true -> length l < fuel ->
  his_p c fuel tb hf (mkp (TStart n a :: l) pd false) = (PDiv d, p', tb') ->
  div_spec c tb n a d /\ tb' = (if d_taken d then pt_remove (d_id d) tb else tb).
Proof.
  intros Hc Hl H. destruct (diverted_to tb n (shown_attrs c n a)) as [e0|] eqn:Hd.
  - destruct (scan (c_ws c) 0 l) as [pre e] eqn:Hs.
    destruct (his_p_diverted c fuel tb hf pd n a l e0 pre e Hc Hd Hs Hl) as [d0 [p1 [E [D1 [D2 [D3 [D4 _]]]]]]].
    rewrite E in H. inversion H; subst d0 p1. clear H.
    destruct (diverted_spec _ _ _ _ Hd) as [S1 [S2 [S3 [S4 S5]]]].
    split.
    + unfold div_spec. cbv zeta. split; [exact D1|]. split; [exact D2|]. split; [exact S1|]. split; [exact S2|].
      exists e0. repeat split; assumption.
    + rewrite D4, D3. first [reflexivity | assumption | symmetry; assumption].
  - rewrite (his_p_not_diverted c fuel tb hf pd n a l Hc Hd) in H. discriminate.
Qed.

Lemma c07_serve_p c env hf tb toks base : ends_match base toks = true ->
  let r := serve_all_p c env hf tb toks in
  Forall (fun ev => match ev with
                    | EvInv v => exists n a pre e p', clean (c_ws c) (TStart n a) = true /\ inv_spec c n a 0%N pre e v p'
                    | EvDiv d => exists tb0 n a, clean (c_ws c) (TStart n a) = true /\ div_spec c tb0 n a d
                    end) (sp_events r) /\
  (sp_ret r = None -> Forall (fun ev => ev_ret ev = None) (sp_events r)) /\
  (forall ev, In ev (removelast (sp_events r)) -> ev_ret ev = None).
Proof.
  intros Hm r. apply (follows_p_events c toks). unfold r, serve_all_p.
  apply (serve_p_follows c env hf (S (length toks)) 0 0 tb toks base Hm). lia.
Qed.

Lemma c07_mux_fallback_p c fuel mf m tb pd n a l v p' tb' q :
  m_regs m = [] -> m_fixed m = true ->
  clean (c_ws c) (TStart n a) = true -> length l < fuel ->
  let a' := shown_attrs c n a in
  let id := fst (get_id_typ a') in
  his_p c fuel tb (mux_handler m (c_jp c) mf) (mkp (TStart n a :: l) pd false) = (PH (HRInv v), p', tb') ->
  is_iq n = true -> stanza_is n (m_ns m) && bytes_eqb (nlocal n) s_iq = true ->
  needs_resp (snd (get_id_typ a')) = true ->
  new_iq (c_jp c) n a' = Some q -> q_id q = id -> q_typ q = snd (get_id_typ a') ->
  (v_hw v = tokens_of_tree (fallback_tree q) /\ reply_tree id (fallback_tree q) = true /\ v_auto v = []) \/
  (v_hw v = [] /\ v_auto v = [] /\ v_ret v <> None).
Proof.
  intros Hr Hf Hc Hl a' id H. destruct (his_p_PH_inv c fuel tb _ pd n a l _ p' tb' Hc Hl H) as [Hh _].
  exact (c07_mux_fallback c fuel mf m pd n a l v p' q Hr Hf Hc Hh).
Qed.
