(* C07/Examples.v — non-vacuity: instances of the hypotheses of the C07 theorems
   and worked runs (the serveTests cases 2-6 and the multiplexer). *)
From XV Require Import lib.Bytes lib.Xml gen.Serve C08.Model C08.Case C08.Proofs C08.Examples C07.Model C07.Proofs.

Definition iq_get : list token :=
  [TStart (cl "iq") [at' "type" "get"; at' "id" "1234"; at' "from" "a@example.net/r"];
   TStart (mkname (str "unknown") (str "unknownpayload")) []; TEnd (mkname (str "unknown") (str "unknownpayload"));
   TEnd (cl "iq"); TEnd stream_root].

Definition reply (typ id : string) : list token :=
  [TStart (mkname [] s_iq) [at' "type" typ; at' "id" id]; TEnd (mkname [] s_iq)].

Definition run (p : list hop) : sres := serve_all ex_c (prog_handlers [p]) iq_get.

Example ex_hyps :
  ends_match [stream_root] iq_get = true /\ is_iq (cl "iq") = true /\
  get_id_typ [at' "type" "get"; at' "id" "1234"; at' "from" "a@example.net/r"] = (str "1234", sv_iq_get) /\
  needs_resp sv_iq_get = true.
Proof. vm_compute. repeat split; reflexivity. Qed.

(* no reply written: exactly the default reply, addressed to the sender *)
Example ex_default : written (run []) = default_reply (str "1234") (str "a@example.net/r") /\ s_ret (run []) = None.
Proof. vm_compute. split; reflexivity. Qed.

(* the handler's own reply: nothing is added *)
Example ex_own_reply : written (run [OWrite (reply "result" "1234")]) = reply "result" "1234".
Proof. vm_compute. reflexivity. Qed.

(* another id, or a get: the default reply is added after what the handler wrote *)
Example ex_wrong_id :
  written (run [OWrite (reply "result" "wrongid")]) = reply "result" "wrongid" ++ default_reply (str "1234") (str "a@example.net/r").
Proof. vm_compute. reflexivity. Qed.
Example ex_get_no_reply :
  written (run [OWrite (reply "get" "1234")]) = reply "get" "1234" ++ default_reply (str "1234") (str "a@example.net/r").
Proof. vm_compute. reflexivity. Qed.

(* what counts: as trees *)
Example ex_reply_trees :
  reply_tree (str "1234") (Elem (mkname [] s_iq) [at' "type" "result"; at' "id" "1234"] []) = true /\
  reply_tree (str "1234") (Elem (mkname [] s_iq) [at' "id" "1234"] []) = true /\
  reply_tree (str "1234") (Elem (mkname [] s_iq) [at' "type" "set"; at' "id" "1234"] []) = false /\
  reply_tree (str "1234") (Elem (mkname [] (str "wrap")) [] [Elem (mkname [] s_iq) [at' "type" "result"; at' "id" "1234"] []]) = false /\
  reply_tree (str "1234") (Elem (mkname [] s_iq) [mkattr (mkname (str "urn:x") s_id) (str "1234"); at' "type" "result"] []) = false.
Proof. vm_compute. repeat split; reflexivity. Qed.

(* a handler that returns EOF does not end Serve silently *)
Example ex_handler_eof : s_ret (run [ORet REOF]) = Some EUnexpectedEOF /\ written (run [ORet REOF]) = [].
Proof. vm_compute. split; reflexivity. Qed.

(* type result: never answered *)
Example ex_result_unanswered :
  written (serve_all ex_c (prog_handlers [[]])
             [TStart (cl "iq") [at' "type" "result"; at' "id" "1"]; TEnd (cl "iq"); TEnd stream_root]) = [].
Proof. vm_compute. reflexivity. Qed.

(* the multiplexer's hypotheses: NewIQ's reading agrees with the session's *)
Example ex_new_iq :
  let a := [at' "type" "get"; at' "id" "1234"; at' "from" "a@example.net/r"] in
  exists q, new_iq (c_jp ex_c) (cl "iq") a = Some q /\ q_id q = fst (get_id_typ a) /\ q_typ q = snd (get_id_typ a)
            /\ stanza_is (cl "iq") sv_ns_client && bytes_eqb (nlocal (cl "iq")) s_iq = true.
Proof. eexists. vm_compute. repeat split; reflexivity. Qed.

Example ex_mux_fallback :
  written (serve_all ex_c (fun _ => mux_handler (mkmux sv_ns_client true []) (c_jp ex_c) 10) iq_get)
  = fallback_reply (mkiqv (cl "iq") (str "1234") sv_iq_get [] (str "a@example.net/r") []).
Proof. vm_compute. reflexivity. Qed.
