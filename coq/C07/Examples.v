(* C07/Examples.v — non-vacuity: instances of the hypotheses of the C07 theorems
   and worked runs (the serveTests cases 2-6 and the multiplexer). *)
From XV Require Import lib.Bytes lib.Xml gen.Serve C08.Model C08.Case C08.Proofs C08.Examples C07.Model C07.Proofs.

Definition iq_get : list token :=
  [TStart (cl "iq") [at' "type" "get"; at' "id" "1234"; at' "from" "a@example.net/r"];
   TStart (mkname (str "unknown") (str "unknownpayload")) []; TEnd (mkname (str "unknown") (str "unknownpayload"));
   TEnd (cl "iq"); TEnd stream_root].

Definition reply (typ id : string) : list token :=
  [TStart (mkname [] s_iq) [at' "type" typ; at' "id" id]; TEnd (mkname [] s_iq)].

Definition run (p : list hop) : sres := serve_all ex_c (prog_handlers [p]) iq_get.

Example ex_hyps :
  ends_match [stream_root] iq_get = true /\ is_iq (cl "iq") = true /\
  get_id_typ [at' "type" "get"; at' "id" "1234"; at' "from" "a@example.net/r"] = (str "1234", sv_iq_get) /\
  needs_resp sv_iq_get = true.
Proof. vm_compute. repeat split; reflexivity. Qed.

(* no reply written: exactly the default reply, addressed to the sender *)
Example ex_default : written (run []) = default_reply (str "1234") (str "a@example.net/r") /\ s_ret (run []) = None.
Proof. vm_compute. split; reflexivity. Qed.

(* the handler's own reply: nothing is added *)
Example ex_own_reply : written (run [OWrite (reply "result" "1234")]) = reply "result" "1234".
Proof. vm_compute. reflexivity. Qed.

(* another id, or a get: the default reply is added after what the handler wrote *)
Example ex_wrong_id :
  written (run [OWrite (reply "result" "wrongid")]) = reply "result" "wrongid" ++ default_reply (str "1234") (str "a@example.net/r").
Proof. vm_compute. reflexivity. Qed.
Example ex_get_no_reply :
  written (run [OWrite (reply "get" "1234")]) = reply "get" "1234" ++ default_reply (str "1234") (str "a@example.net/r").
Proof. vm_compute. reflexivity. Qed.

(* what counts: as trees *)
Example ex_reply_trees :
  reply_tree (str "1234") (Elem (mkname [] s_iq) [at' "type" "result"; at' "id" "1234"] []) = true /\
  reply_tree (str "1234") (Elem (mkname [] s_iq) [at' "id" "1234"] []) = true /\
  reply_tree (str "1234") (Elem (mkname [] s_iq) [at' "type" "set"; at' "id" "1234"] []) = false /\
  reply_tree (str "1234") (Elem (mkname [] (str "wrap")) [] [Elem (mkname [] s_iq) [at' "type" "result"; at' "id" "1234"] []]) = false /\
  reply_tree (str "1234") (Elem (mkname [] s_iq) [mkattr (mkname (str "urn:x") s_id) (str "1234"); at' "type" "result"] []) = false.
Proof. vm_compute. repeat split; reflexivity. Qed.

(* a handler that returns EOF does not end Serve silently *)
Example ex_handler_eof : s_ret (run [ORet REOF]) = Some EUnexpectedEOF /\ written (run [ORet REOF]) = [].
Proof. vm_compute. split; reflexivity. Qed.

(* type result: never answered *)
Example ex_result_unanswered :
  written (serve_all ex_c (prog_handlers [[]])
             [TStart (cl "iq") [at' "type" "result"; at' "id" "1"]; TEnd (cl "iq"); TEnd stream_root]) = [].
Proof. vm_compute. reflexivity. Qed.

(* the multiplexer's hypotheses: NewIQ's reading agrees with the session's *)
Example ex_new_iq :
  let a := [at' "type" "get"; at' "id" "1234"; at' "from" "a@example.net/r"] in
  exists q, new_iq (c_jp ex_c) (cl "iq") a = Some q /\ q_id q = fst (get_id_typ a) /\ q_typ q = snd (get_id_typ a)
            /\ stanza_is (cl "iq") sv_ns_client && bytes_eqb (nlocal (cl "iq")) s_iq = true.
Proof. eexists. vm_compute. repeat split; reflexivity. Qed.

Example ex_mux_fallback :
  written (serve_all ex_c (fun _ => mux_handler (mkmux sv_ns_client true []) (c_jp ex_c) 10) iq_get)
  = fallback_reply (mkiqv (cl "iq") (str "1234") sv_iq_get [] (str "a@example.net/r") []).
Proof. vm_compute. reflexivity. Qed.

(* ---- outstanding requests: our own request with id 1234 is waiting while the
   peer's get with the same id, then the response, then a set with that id arrive ---- *)
Definition ex_waiter : pentry :=
  mkpe (str "1234") (mkname [] s_iq) true (compile [ORead 1 false; OReadRet 40]).

Definition ex_collide : list token :=
  [TStart (cl "iq") [at' "type" "get"; at' "id" "1234"; at' "from" "a@example.net/r"]; TEnd (cl "iq");
   TStart (cl "iq") [at' "type" "result"; at' "id" "1234"]; TStart (cl "q") []; TEnd (cl "q"); TEnd (cl "iq");
   TStart (cl "iq") [at' "type" "set"; at' "id" "1234"]; TEnd (cl "iq");
   TEnd stream_root].

Definition run_p : sres_p := serve_all_p ex_c env_id (prog_handlers [[]]) [ex_waiter] ex_collide.

(* the request is handled and answered, the response goes to the waiter (start
   tag, payload, end tag together with EOF), the later request with the same id
   is handled again: the registration is gone *)
Example ex_collide_run :
  ends_match [stream_root] ex_collide = true /\
  sp_ret run_p = None /\
  map (fun ev => match ev with EvInv v => (true, snd (get_id_typ (v_attrs v))) | EvDiv d => (false, snd (get_id_typ (d_attrs d))) end)
      (sp_events run_p) = [(true, sv_iq_get); (false, sv_iq_result); (true, sv_iq_set)] /\
  written_p run_p = default_reply (str "1234") (str "a@example.net/r") ++ default_reply (str "1234") [] /\
  map d_seen (divs_of (sp_events run_p)) =
    [[ok_res (TStart (cl "iq") [at' "type" "result"; at' "id" "1234"]); ok_res (TStart (cl "q") []); ok_res (TEnd (cl "q"));
      (Some (TEnd (cl "iq")), Some EEOF)]].
Proof. vm_compute. repeat split; reflexivity. Qed.

(* the hypotheses of C07_only_responses_reach_waiters are satisfiable, and a
   waiter whose context is done leaves the response to nobody *)
Example ex_diverted_to :
  diverted_to [ex_waiter] (cl "iq") [at' "type" "result"; at' "id" "1234"] = Some ex_waiter /\
  diverted_to [ex_waiter] (cl "iq") [at' "type" "get"; at' "id" "1234"] = None /\
  diverted_to [ex_waiter] (cl "message") [at' "type" "error"; at' "id" "1234"] = None /\
  diverted_to [ex_waiter] (cl "iq") [at' "type" "error"; at' "id" "other"] = None.
Proof. vm_compute. repeat split; reflexivity. Qed.

Example ex_cancelled_waiter :
  let r := serve_all_p ex_c env_id (prog_handlers [[]])
             [mkpe (str "1234") (mkname [] s_iq) false (HRet None)] ex_collide in
  map d_taken (divs_of (sp_events r)) = [false] /\ length (invs_of (sp_events r)) = 2 /\ sp_ret r = None.
Proof. vm_compute. repeat split; reflexivity. Qed.
