(* C07/Proofs.v — lemmas for the reply rule. *)
From XV Require Import lib.Bytes lib.Xml gen.Serve C08.Model C08.Case C08.Proofs C07.Model.
From Coq Require Import ZArith Lia ZifyBool ZifyNat ZifyN.

(* ---- the response checker on well-formed output ---- *)

Lemma enc_all_app id x y w : enc_all id (x ++ y) w = enc_all id y (enc_all id x w).
Proof. unfold enc_all. apply fold_left_app. Qed.

Lemma enc_tree id : forall t w, (0 <= w_level w)%Z ->
  w_level (enc_all id (tokens_of_tree t) w) = w_level w /\
  w_wrote (enc_all id (tokens_of_tree t) w) = w_wrote w || ((w_level w <? 1)%Z && reply_tree id t).
Proof.
  fix IH 1. intros [n a kids|b|k b] w H0.
  - cbn [tokens_of_tree]. change (TStart n a :: flat_map tokens_of_tree kids ++ [TEnd n])
      with ([TStart n a] ++ flat_map tokens_of_tree kids ++ [TEnd n]).
    rewrite !enc_all_app.
    set (w1 := enc_all id [TStart n a] w).
    assert (H1 : w_level w1 = (w_level w + 1)%Z /\ w_wrote w1 = w_wrote w || ((w_level w <? 1)%Z && reply_start id n a)).
    { unfold w1, enc_all. cbn [fold_left rc_encode]. unfold reply_start.
      destruct (get_id_typ a) as [i ty]. cbn [w_level w_wrote fst snd]. split; [reflexivity|].
      rewrite !andb_assoc. reflexivity. }
    assert (Hk : forall ks w', (1 <= w_level w')%Z ->
              w_level (enc_all id (flat_map tokens_of_tree ks) w') = w_level w' /\
              w_wrote (enc_all id (flat_map tokens_of_tree ks) w') = w_wrote w').
    { induction ks as [|k0 ks IHk]; intros w' Hl; cbn [flat_map]; [split; reflexivity|].
      rewrite enc_all_app. destruct (IH k0 w') as [E1 E2]; [lia|].
      destruct (IHk (enc_all id (tokens_of_tree k0) w')) as [E3 E4]; [rewrite E1; exact Hl|].
      split; [rewrite E3; exact E1|]. rewrite E4, E2.
      assert ((w_level w' <? 1)%Z = false) as -> by lia. cbn. apply orb_false_r. }
    destruct H1 as [L1 W1].
    destruct (Hk kids w1) as [L2 W2]; [lia|].
    unfold enc_all at 1 3. cbn [fold_left rc_encode w_level w_wrote reply_tree].
    split; [lia|]. rewrite W2, W1. reflexivity.
  - unfold enc_all. cbn. split; [reflexivity|]. rewrite andb_false_r, orb_false_r. reflexivity.
  - unfold enc_all. cbn. split; [reflexivity|]. rewrite andb_false_r, orb_false_r. reflexivity.
Qed.

Lemma enc_forest id : forall f w, w_level w = 0%Z ->
  w_level (enc_all id (tokens_of_forest f) w) = 0%Z /\
  w_wrote (enc_all id (tokens_of_forest f) w) = w_wrote w || existsb (reply_tree id) f.
Proof.
  unfold tokens_of_forest. induction f as [|t f IH]; intros w Hl; cbn [flat_map existsb].
  - split; [exact Hl|]. rewrite orb_false_r. reflexivity.
  - rewrite enc_all_app. destruct (enc_tree id t w) as [E1 E2]; [lia|].
    destruct (IH (enc_all id (tokens_of_tree t) w)) as [E3 E4]; [lia|].
    split; [exact E3|]. rewrite E4, E2, Hl. cbn. rewrite orb_assoc. reflexivity.
Qed.

(* the checker's verdict on a handler that wrote the forest [f] *)
Lemma wrote_forest id f : w_wrote (enc_all id (tokens_of_forest f) w0) = existsb (reply_tree id) f.
Proof. destruct (enc_forest id f w0 eq_refl) as [_ H]. exact H. Qed.
