(* C07/Proofs.v — lemmas for the reply rule. *)
From XV Require Import lib.Bytes lib.Xml gen.Serve C08.Model C08.Case C08.Proofs C07.Model.
From Coq Require Import ZArith Lia ZifyBool ZifyNat ZifyN.

(* ---- the response checker on well-formed output ---- *)

Lemma enc_all_app id x y w : enc_all id (x ++ y) w = enc_all id y (enc_all id x w).
Proof. unfold enc_all. apply fold_left_app. Qed.

Lemma enc_tree id : forall t w, (0 <= w_level w)%Z ->
  w_level (enc_all id (tokens_of_tree t) w) = w_level w /\
  w_wrote (enc_all id (tokens_of_tree t) w) = w_wrote w || ((w_level w <? 1)%Z && reply_tree id t).
Proof.
  fix IH 1. intros [n a kids|b|k b] w H0.
  - cbn [tokens_of_tree]. change (TStart n a :: flat_map tokens_of_tree kids ++ [TEnd n])
      with ([TStart n a] ++ flat_map tokens_of_tree kids ++ [TEnd n]).
    rewrite !enc_all_app.
    set (w1 := enc_all id [TStart n a] w).
    assert (H1 : w_level w1 = (w_level w + 1)%Z /\ w_wrote w1 = w_wrote w || ((w_level w <? 1)%Z && reply_start id n a)).
    { unfold w1, enc_all. cbn [fold_left rc_encode]. unfold reply_start.
      destruct (get_id_typ a) as [i ty]. cbn [w_level w_wrote fst snd]. split; [reflexivity|].
      rewrite !andb_assoc. reflexivity. }
    assert (Hk : forall ks w', (1 <= w_level w')%Z ->
              w_level (enc_all id (flat_map tokens_of_tree ks) w') = w_level w' /\
              w_wrote (enc_all id (flat_map tokens_of_tree ks) w') = w_wrote w').
    { induction ks as [|k0 ks IHk]; intros w' Hl; cbn [flat_map]; [split; reflexivity|].
      rewrite enc_all_app. destruct (IH k0 w') as [E1 E2]; [lia|].
      destruct (IHk (enc_all id (tokens_of_tree k0) w')) as [E3 E4]; [rewrite E1; exact Hl|].
      split; [rewrite E3; exact E1|]. rewrite E4, E2.
      assert ((w_level w' <? 1)%Z = false) as -> by lia. cbn. apply orb_false_r. }
    destruct H1 as [L1 W1].
    destruct (Hk kids w1) as [L2 W2]; [lia|].
    unfold enc_all at 1 3. cbn [fold_left rc_encode w_level w_wrote reply_tree].
    split; [lia|]. rewrite W2, W1. reflexivity.
  - unfold enc_all. cbn. split; [reflexivity|]. rewrite andb_false_r, orb_false_r. reflexivity.
  - unfold enc_all. cbn. split; [reflexivity|]. rewrite andb_false_r, orb_false_r. reflexivity.
Qed.

Lemma enc_forest id : forall f w, w_level w = 0%Z ->
  w_level (enc_all id (tokens_of_forest f) w) = 0%Z /\
  w_wrote (enc_all id (tokens_of_forest f) w) = w_wrote w || existsb (reply_tree id) f.
Proof.
  unfold tokens_of_forest. induction f as [|t f IH]; intros w Hl; cbn [flat_map existsb].
  - split; [exact Hl|]. rewrite orb_false_r. reflexivity.
  - rewrite enc_all_app. destruct (enc_tree id t w) as [E1 E2]; [lia|].
    destruct (IH (enc_all id (tokens_of_tree t) w)) as [E3 E4]; [lia|].
    split; [exact E3|]. rewrite E4, E2, Hl. cbn. rewrite orb_assoc. reflexivity.
Qed.

(* the checker's verdict on a handler that wrote the forest [f] *)
Lemma wrote_forest id f : w_wrote (enc_all id (tokens_of_forest f) w0) = existsb (reply_tree id) f.
Proof. destruct (enc_forest id f w0 eq_refl) as [_ H]. exact H. Qed.

(* ---- every way of writing funnels into the same detector ---- *)

Lemma run_h_writes ws id ts k : forall s w seen,
  run_h ws id (fold_right HWr k ts) s w seen = run_h ws id k s (enc_all id ts w) seen.
Proof.
  induction ts as [|t ts IH]; intros s w seen; [reflexivity|].
  cbn [fold_right run_h]. rewrite IH. reflexivity.
Qed.

Lemma run_h_write ws id m ts k s w seen :
  run_h ws id (h_write m ts k) s w seen = run_h ws id k s (enc_all id (method_tokens m ts) w) seen.
Proof. apply run_h_writes. Qed.

Lemma outer_tree n a : forall t d rest,
  outer_from n a (S d) (tokens_of_tree t ++ rest) = tokens_of_tree t ++ outer_from n a (S d) rest.
Proof.
  fix IH 1. intros [m b kids|b|k b] d rest; cbn [tokens_of_tree app outer_from]; try reflexivity.
  f_equal. rewrite <- !app_assoc.
  assert (H : forall ks d' rest', outer_from n a (S d') (flat_map tokens_of_tree ks ++ rest')
                                  = flat_map tokens_of_tree ks ++ outer_from n a (S d') rest').
  { induction ks as [|k0 ks IHk]; intros d' rest'; cbn [flat_map app]; [reflexivity|].
    rewrite <- app_assoc, IH, IHk. rewrite app_assoc. reflexivity. }
  rewrite H. reflexivity.
Qed.

Lemma outer_el_tree n a n0 a0 kids :
  outer_el n a (tokens_of_tree (Elem n0 a0 kids)) = tokens_of_tree (Elem n (a ++ filter not_xmlns a0) kids).
Proof.
  unfold outer_el. cbn [tokens_of_tree outer_from]. f_equal.
  assert (H : forall ks rest', outer_from n a 1 (flat_map tokens_of_tree ks ++ rest')
                               = flat_map tokens_of_tree ks ++ outer_from n a 1 rest').
  { induction ks as [|k0 ks IHk]; intros rest'; cbn [flat_map app]; [reflexivity|].
    rewrite <- app_assoc, (outer_tree n a k0 0), IHk. rewrite app_assoc. reflexivity. }
  rewrite H. reflexivity.
Qed.

(* the element that reaches the detector when [t] is written by method [m] *)
Definition method_tree (m : wmethod) (t : tree) : tree :=
  match m, t with
  | MEncodeElement n a, Elem _ a0 kids => Elem n (a ++ filter not_xmlns a0) kids
  | _, _ => t
  end.

Lemma method_tokens_tree m n0 a0 kids :
  method_tokens m (tokens_of_tree (Elem n0 a0 kids)) = tokens_of_tree (method_tree m (Elem n0 a0 kids)).
Proof. destruct m; try reflexivity. apply outer_el_tree. Qed.

Lemma wrote_tree id t : w_wrote (enc_all id (tokens_of_tree t) w0) = reply_tree id t.
Proof.
  pose proof (wrote_forest id [t]) as H. unfold tokens_of_forest in H. cbn [flat_map existsb] in H.
  rewrite app_nil_r, orb_false_r in H. exact H.
Qed.

Lemma tbl_rc_funnel :
  sv_rc_write_methods = [str "Encode"; str "EncodeElement"] /\ sv_rc_funnelled = 2 /\
  sv_rc_direct_uses = 0 /\ sv_rc_delegations = 1.
Proof. vm_compute. repeat split. Qed.

(* the constants the rule depends on, as the source has them today *)
Lemma tbl_error_is_no_request : needs_resp sv_iq_error = false /\ needs_resp sv_iq_result = false.
Proof. vm_compute. split; reflexivity. Qed.
Lemma tbl_get_set_are_requests : needs_resp sv_iq_get = true /\ needs_resp sv_iq_set = true.
Proof. vm_compute. split; reflexivity. Qed.
Lemma tbl_iq_names : is_iq (mkname sv_ns_client s_iq) = true /\ is_iq (mkname sv_ns_server s_iq) = true /\
  is_iq_empty (mkname [] s_iq) = true /\ is_iq (mkname [] s_iq) = false.
Proof. vm_compute. repeat split; reflexivity. Qed.

(* the default reply is one element and the checker itself would count it as the reply *)
Definition default_tree (id to : bytes) : tree :=
  Elem (mkname [] s_iq)
       ([mk_attr s_type sv_iq_error] ++ (if is_nil to then [] else [mk_attr s_to to])
        ++ (if is_nil id then [] else [mk_attr s_id id]))
       [Elem (mkname [] s_error) [mk_attr s_type sv_err_cancel]
          [Elem (mkname sv_ns_stanza_error sv_cond_service_unavailable) [] []]].

Lemma default_reply_tree id to : default_reply id to = tokens_of_tree (default_tree id to).
Proof. reflexivity. Qed.

Lemma default_reply_is_reply id to : reply_tree id (default_tree id to) = true.
Proof.
  unfold reply_tree, default_tree, reply_start.
  assert (H : get_id_typ ([mk_attr s_type sv_iq_error] ++ (if is_nil to then [] else [mk_attr s_to to])
        ++ (if is_nil id then [] else [mk_attr s_id id])) = (id, sv_iq_error)).
  { destruct to as [|t0 to]; destruct id as [|i0 id]; reflexivity. }
  rewrite H. cbn [fst snd].
  assert (E : bytes_eqb id id = true) by (apply bytes_eqb_eq; reflexivity). rewrite E.
  reflexivity.
Qed.

Section Rule.
Variable c : cfg.

(* the reply rule for one invocation *)
Lemma reply_rule n a pd pre e v p' f :
  inv_spec c n a pd pre e v p' ->
  let a' := shown_attrs c n a in
  let id := fst (get_id_typ a') in
  let from := attr_get s_from a' in
  is_iq n = true -> needs_resp (snd (get_id_typ a')) = true ->
  v_ret v = None -> v_hw v = tokens_of_forest f ->
  (existsb (reply_tree id) f = true -> v_auto v = []) /\
  (existsb (reply_tree id) f = false ->
     exists j, v_auto v = tokens_of_tree (default_tree id j) /\
               (from = [] -> j = []) /\ (from <> [] -> c_jp c from = Some j)).
Proof.
  intros Hv a' id from Hiq Hneed Hret Hhw.
  destruct Hv as [_ [_ [_ [H4 _]]]]. destruct (H4 Hret) as [_ [_ [j [J1 [J2 J3]]]]].
  fold a' in J1, J2, J3. fold id in J3. fold from in J1, J2.
  assert (Hw : wanted n a' (v_hw v) = negb (existsb (reply_tree id) f)).
  { unfold wanted. rewrite Hiq, Hneed. cbn [andb]. fold id. rewrite Hhw, wrote_forest. reflexivity. }
  split.
  - intro Hex. rewrite Hw, Hex in J3. exact J3.
  - intro Hex. rewrite Hw, Hex in J3, J1, J2. cbn [negb] in J3, J1, J2. exists j.
    split; [rewrite J3; apply default_reply_tree|]. split.
    + intro Hf. apply J2. right. exact Hf.
    + intro Hf. apply J1; [reflexivity|exact Hf].
Qed.

Lemma no_auto_reply n a pd pre e v p' :
  inv_spec c n a pd pre e v p' ->
  is_iq n = false \/ needs_resp (snd (get_id_typ (shown_attrs c n a))) = false ->
  v_auto v = [].
Proof.
  intros Hv Hor. destruct Hv as [_ [_ [_ [_ [_ [_ H7]]]]]]. apply H7. unfold wanted.
  destruct Hor as [-> | ->]; [reflexivity|]. rewrite andb_false_r. reflexivity.
Qed.

(* every invocation of a run satisfies the per-invocation specification, and
   only the last one can have failed *)
Lemma follows_invs l invs r : follows c l invs r ->
  Forall (fun v => exists n a pre e p', clean (c_ws c) (TStart n a) = true /\ inv_spec c n a 0%N pre e v p') invs /\
  (r = None -> Forall (fun v => v_ret v = None) invs) /\
  (forall v, In v (removelast invs) -> v_ret v = None).
Proof.
  induction 1 as [l e Ht|b l invs r Hb Hf IH|n a l pre e v p' er Hc Hs Hv Hr|n a l pre rest v invs r Hc Hs Hv Hr Hf IH].
  - split; [constructor|]. split; [intros; constructor|]. intros v [].
  - exact IH.
  - split; [constructor; [|constructor]; do 5 eexists; split; eassumption|].
    split; [intro H; discriminate|]. intros v0 [].
  - destruct IH as [I1 [I2 I3]].
    split; [constructor; [do 5 eexists; split; eassumption|exact I1]|].
    split; [intro H; constructor; [exact Hr|apply I2; exact H]|].
    intros v0 Hin. destruct invs as [|v1 invs']; [destruct Hin|].
    cbn [removelast] in Hin. destruct Hin as [<-|Hin]; [exact Hr|]. apply I3. exact Hin.
Qed.
End Rule.

(* ---- the multiplexer's IQ path ---- *)

Lemma run_then_ret ws id ts e : forall s w seen,
  run_h ws id (then_ret ts e) s w seen = (e, s, enc_all id ts w, rev seen).
Proof.
  unfold then_ret. induction ts as [|t ts IH]; intros s w seen; cbn [fold_right run_h]; [reflexivity|].
  rewrite IH. reflexivity.
Qed.

(* reading through TrimLeftSpace(Inner(.)) writes nothing: either it runs out of fuel or the
   continuation runs with the same writer state *)
Lemma run_ti ws id : forall fuel st kf s w seen,
  (exists s' seen', run_h ws id (ti_read fuel st kf) s w seen = (Some EFuel, s', w, seen')) \/
  (exists r st' s' seen', run_h ws id (ti_read fuel st kf) s w seen = run_h ws id (kf r st') s' w seen').
Proof.
  induction fuel as [|f IH]; intros st kf s w seen.
  - cbn [ti_read]. destruct (in_count st) as [c0|]; [|right; do 4 eexists; reflexivity].
    cbn [run_h]. destruct (ec_token ws s) as [[ot oe] s1]. cbv beta iota zeta. cbn [fst snd].
    destruct (tr_found st);
    destruct ot as [[n a|n|b|k b]|]; try destruct c0 as [|c1]; cbv beta iota zeta; cbn [fst snd];
      try (right; do 4 eexists; reflexivity);
      destruct (is_ws b); try (right; do 4 eexists; reflexivity);
      destruct oe; try (right; do 4 eexists; reflexivity);
      left; cbn [run_h]; do 2 eexists; reflexivity.
  - cbn [ti_read]. destruct (in_count st) as [c0|]; [|right; do 4 eexists; reflexivity].
    cbn [run_h]. destruct (ec_token ws s) as [[ot oe] s1]. cbv beta iota zeta. cbn [fst snd].
    destruct (tr_found st);
    destruct ot as [[n a|n|b|k b]|]; try destruct c0 as [|c1]; cbv beta iota zeta; cbn [fst snd];
      try (right; do 4 eexists; reflexivity);
      destruct (is_ws b); try (right; do 4 eexists; reflexivity);
      destruct oe; try (right; do 4 eexists; reflexivity);
      apply IH.
Qed.

Lemma fallback_id_typ q :
  bytes_eqb (q_typ q) sv_iq_error || bytes_eqb (q_typ q) sv_iq_result = false ->
  exists a r, fallback_reply q = TStart (mkname (nspace (q_name q)) s_iq) a :: r /\
              get_id_typ a = (q_id q, sv_iq_error).
Proof.
  intro H. unfold fallback_reply. rewrite H. eexists. eexists. split; [reflexivity|].
  destruct (q_from q), (q_to q), (q_id q), (q_lang q); reflexivity.
Qed.

Lemma is_iq_then_empty n : is_iq n = true -> is_iq_empty (mkname (nspace n) s_iq) = true.
Proof.
  unfold is_iq, is_iq_empty, in_list. cbn [nspace nlocal existsb sv_is_iq_locals sv_is_iq_spaces sv_is_iq_empty_locals sv_is_iq_empty_spaces].
  intro H. apply andb_true_iff in H. destruct H as [_ H2].
  replace (bytes_eqb s_iq (hex "6971")) with true by reflexivity. cbn [orb andb].
  rewrite !orb_false_r in H2. rewrite !orb_false_r.
  apply orb_true_iff in H2. destruct H2 as [-> | ->]; [rewrite orb_true_r; reflexivity|rewrite !orb_true_r; reflexivity].
Qed.

(* the fallback's reply is one element *)
Definition fallback_tree (q : iqv) : tree :=
  Elem (mkname (nspace (q_name q)) s_iq)
       ([mk_attr s_type sv_iq_error]
        ++ (if is_nil (q_from q) then [] else [mk_attr s_to (q_from q)])
        ++ (if is_nil (q_to q) then [] else [mk_attr s_from (q_to q)])
        ++ (if is_nil (q_id q) then [] else [mk_attr s_id (q_id q)])
        ++ (if is_nil (q_lang q) then [] else [mkattr (mkname xml_ns s_lang) (q_lang q)]))
       [Elem (mkname [] s_error) [mk_attr s_type sv_err_cancel]
          [Elem (mkname sv_ns_stanza_error sv_cond_service_unavailable) [] []]].

Lemma fallback_reply_tree q :
  bytes_eqb (q_typ q) sv_iq_error || bytes_eqb (q_typ q) sv_iq_result = false ->
  fallback_reply q = tokens_of_tree (fallback_tree q).
Proof. intro H. unfold fallback_reply. rewrite H. reflexivity. Qed.

Lemma fallback_is_reply q :
  is_iq (q_name q) = true -> reply_tree (q_id q) (fallback_tree q) = true.
Proof.
  intro Hiq. unfold reply_tree, fallback_tree, reply_start.
  rewrite (is_iq_then_empty _ Hiq).
  assert (H : get_id_typ ([mk_attr s_type sv_iq_error]
        ++ (if is_nil (q_from q) then [] else [mk_attr s_to (q_from q)])
        ++ (if is_nil (q_to q) then [] else [mk_attr s_from (q_to q)])
        ++ (if is_nil (q_id q) then [] else [mk_attr s_id (q_id q)])
        ++ (if is_nil (q_lang q) then [] else [mkattr (mkname xml_ns s_lang) (q_lang q)])) = (q_id q, sv_iq_error)).
  { destruct (q_from q), (q_to q), (q_id q), (q_lang q); reflexivity. }
  rewrite H. cbn [fst snd].
  assert (E : bytes_eqb (q_id q) (q_id q) = true) by (apply bytes_eqb_eq; reflexivity). rewrite E. reflexivity.
Qed.

Lemma new_iq_from_name jp sp : forall a v q, new_iq_from jp sp a v = Some q -> q_name q = q_name v.
Proof.
  induction a as [|x a IH]; intros v q H; cbn [new_iq_from] in H.
  - inversion H; reflexivity.
  - repeat match type of H with
           | (if ?b then _ else _) = _ => destruct b
           | match ?o with Some _ => _ | None => _ end = _ => destruct o; [|discriminate]
           end; apply IH in H; exact H.
Qed.

Lemma new_iq_name jp n a q : new_iq jp n a = Some q -> q_name q = n.
Proof. unfold new_iq. intro H. apply new_iq_from_name in H. exact H. Qed.

Section Mux.
Variable c : cfg.
Notation ws := (c_ws c).

(* With the repaired multiplexer and no handler registered, whatever the request's payload
   (none, whitespace, text, elements), the handler either writes exactly the fallback's
   service-unavailable reply, or the element could not be read (the stream is broken) and it
   writes nothing and fails. *)
Lemma mux_fallback_writes id fuel m n a q s w seen :
  m_regs m = [] -> m_fixed m = true ->
  stanza_is n (m_ns m) && bytes_eqb (nlocal n) s_iq = true ->
  new_iq (c_jp c) n a = Some q ->
  let '(ret, _, w', _) := run_h ws id (mux_handler m (c_jp c) fuel n a) s w seen in
  w' = enc_all id (fallback_reply q) w \/ (w' = w /\ ret <> None).
Proof.
  intros Hregs Hfix Hst Hq. unfold mux_handler. rewrite Hst. unfold iq_router. rewrite Hq.
  assert (Hd : forall p st s1 w1 seen1,
            let '(ret, _, w', _) := run_h ws id (dispatch m fuel q p st) s1 w1 seen1 in
            w' = enc_all id (fallback_reply q) w1 \/ (w' = w1 /\ ret <> None)).
  { intros p st s1 w1 seen1. unfold dispatch, iq_handler. rewrite Hregs. cbn [find_reg].
    rewrite run_then_ret. left. reflexivity. }
  match goal with |- context [ti_read fuel ?st ?kf] => destruct (run_ti ws id fuel st kf s w seen) as [[s' [seen' E]]|[r [st' [s' [seen' E]]]]] end.
  - rewrite E. right. split; [reflexivity|discriminate].
  - rewrite E. destruct r as [ot [e|]]; cbn [fst snd].
    + destruct (err_eqb e EEOF).
      * destruct (bytes_eqb (q_typ q) sv_iq_result); [apply Hd|]. rewrite Hfix.
        rewrite run_then_ret. left. reflexivity.
      * cbn [run_h]. right. split; [reflexivity|discriminate].
    + destruct ot as [[pn pa|pn|b|k b]|]; try apply Hd;
        rewrite Hfix; rewrite run_then_ret; left; reflexivity.
Qed.
End Mux.

Lemma his_unfold c fuel hf pd n a l : clean (c_ws c) (TStart n a) = true ->
  his c fuel hf (mkp (TStart n a :: l) pd false) =
  let a' := shown_attrs c n a in
  finish_inv c fuel n a' (fst (get_id_typ a')) (snd (get_id_typ a'))
    (run_h (c_ws c) (fst (get_id_typ a')) (hf n a') (act pd 0 l) w0 []).
Proof. intro Hc. unfold his. rewrite (i_token_start (c_ws c) pd n a l Hc). reflexivity. Qed.

Lemma request_not_reply_type t : needs_resp t = true ->
  bytes_eqb t sv_iq_error || bytes_eqb t sv_iq_result = false.
Proof.
  unfold needs_resp. intro H. apply orb_true_iff in H.
  destruct H as [H|H]; apply bytes_eqb_eq in H; subst; reflexivity.
Qed.

Lemma c07_mux_fallback c fuel mf m pd n a l v p' q :
  m_regs m = [] -> m_fixed m = true ->
  clean (c_ws c) (TStart n a) = true ->
  let a' := shown_attrs c n a in
  let id := fst (get_id_typ a') in
  his c fuel (mux_handler m (c_jp c) mf) (mkp (TStart n a :: l) pd false) = (HRInv v, p') ->
  is_iq n = true -> stanza_is n (m_ns m) && bytes_eqb (nlocal n) s_iq = true ->
  needs_resp (snd (get_id_typ a')) = true ->
  new_iq (c_jp c) n a' = Some q -> q_id q = id -> q_typ q = snd (get_id_typ a') ->
  (v_hw v = tokens_of_tree (fallback_tree q) /\ reply_tree id (fallback_tree q) = true /\ v_auto v = []) \/
  (v_hw v = [] /\ v_auto v = [] /\ v_ret v <> None).
Proof.
  intros Hregs Hfix Hc a' id Hhis Hiq Hst Hneed Hq Hid Htyp.
  rewrite (his_unfold c fuel _ pd n a l Hc) in Hhis. cbv zeta in Hhis. fold a' in Hhis. fold id in Hhis.
  pose proof (mux_fallback_writes c id mf m n a' q (act pd 0 l) w0 [] Hregs Hfix Hst Hq) as Hw.
  destruct (run_h (c_ws c) id (mux_handler m (c_jp c) mf n a') (act pd 0 l) w0 []) as [[[ret s2] w'] seen] eqn:E.
  assert (Hnr : bytes_eqb (q_typ q) sv_iq_error || bytes_eqb (q_typ q) sv_iq_result = false)
    by (rewrite Htyp; apply request_not_reply_type; exact Hneed).
  assert (Hqn : is_iq (q_name q) = true) by (rewrite (new_iq_name _ _ _ _ Hq); exact Hiq).
  pose proof (fallback_is_reply q Hqn) as Hrep. rewrite Hid in Hrep.
  destruct Hw as [Hw|[Hw Hret]].
  - left.
    assert (Hout : w_out w' = tokens_of_tree (fallback_tree q)).
    { rewrite Hw, enc_all_out. cbn [w0 w_out app]. apply fallback_reply_tree. exact Hnr. }
    assert (Hwr : w_wrote w' = true).
    { rewrite Hw, (fallback_reply_tree q Hnr).
      change (tokens_of_tree (fallback_tree q)) with (tokens_of_forest [fallback_tree q] ++ []) at 1.
      rewrite app_nil_r, wrote_forest. cbn [existsb]. rewrite Hrep. reflexivity. }
    unfold finish_inv in Hhis. destruct ret as [er|].
    + inversion Hhis; subst. cbn [v_hw v_auto]. auto.
    + rewrite Hwr in Hhis. rewrite !andb_false_r in Hhis. cbn [andb orb] in Hhis.
      destruct (c_oclosed c && negb (is_nil (w_out w'))).
      * inversion Hhis; subst. cbn [v_hw v_auto]. auto.
      * destruct (drain (c_ws c) fuel s2) as [e3 s3]. inversion Hhis; subst. cbn [v_hw v_auto]. auto.
  - right. subst w'. unfold finish_inv in Hhis. destruct ret as [er|]; [|congruence].
    inversion Hhis; subst. cbn [v_hw v_auto v_ret w0 w_out]. repeat split; discriminate.
Qed.

(* ---- the clauses of C07 as they are stated in Properties.v ---- *)

Lemma his_inv_spec c fuel hf pd n a l v p' :
  clean (c_ws c) (TStart n a) = true -> length l < fuel ->
  his c fuel hf (mkp (TStart n a :: l) pd false) = (HRInv v, p') ->
  exists pre e, inv_spec c n a pd pre e v p'.
Proof.
  intros Hc Hl Hh. destruct (scan (c_ws c) 0 l) as [pre e] eqn:Hs.
  destruct (his_elem c fuel hf pd n a l pre e Hc Hs Hl) as [v0 [p0 [E Hv]]].
  rewrite Hh in E. inversion E; subst. exists pre, e. exact Hv.
Qed.

Lemma c07_exactly_one_reply c fuel hf pd n a l v p' f :
  clean (c_ws c) (TStart n a) = true -> length l < fuel ->
  his c fuel hf (mkp (TStart n a :: l) pd false) = (HRInv v, p') ->
  let a' := shown_attrs c n a in
  let id := fst (get_id_typ a') in
  let from := attr_get s_from a' in
  is_iq n = true -> needs_resp (snd (get_id_typ a')) = true ->
  v_ret v = None -> v_hw v = tokens_of_forest f ->
  (existsb (reply_tree id) f = true -> v_auto v = []) /\
  (existsb (reply_tree id) f = false ->
     exists j, v_auto v = tokens_of_tree (default_tree id j) /\
               reply_tree id (default_tree id j) = true /\
               (from = [] -> j = []) /\ (from <> [] -> c_jp c from = Some j)).
Proof.
  intros Hc Hl Hh a' id from Hiq Hneed Hret Hhw.
  destruct (his_inv_spec c fuel hf pd n a l v p' Hc Hl Hh) as [pre [e Hv]].
  destruct (reply_rule c n a pd pre e v p' f Hv Hiq Hneed Hret Hhw) as [R1 R2].
  split; [exact R1|]. intro Hex. destruct (R2 Hex) as [j [J1 [J2 J3]]].
  exists j. split; [exact J1|]. split; [apply default_reply_is_reply|]. split; assumption.
Qed.

Lemma c07_other_ids_dont_count c fuel hf pd n a l v p' f :
  clean (c_ws c) (TStart n a) = true -> length l < fuel ->
  his c fuel hf (mkp (TStart n a :: l) pd false) = (HRInv v, p') ->
  let a' := shown_attrs c n a in
  let id := fst (get_id_typ a') in
  is_iq n = true -> needs_resp (snd (get_id_typ a')) = true ->
  v_ret v = None -> v_hw v = tokens_of_forest f ->
  (forall t, In t f -> match t with
                       | Elem m b _ => is_iq_empty m = false \/ fst (get_id_typ b) <> id \/ needs_resp (snd (get_id_typ b)) = true
                       | _ => True
                       end) ->
  exists j, v_auto v = tokens_of_tree (default_tree id j).
Proof.
  intros Hc Hl Hh a' id Hiq Hneed Hret Hhw Hall.
  destruct (c07_exactly_one_reply c fuel hf pd n a l v p' f Hc Hl Hh Hiq Hneed Hret Hhw) as [_ R2].
  fold a' in R2. fold id in R2.
  assert (Hex : existsb (reply_tree id) f = false).
  { apply not_true_is_false. intro Hex. apply existsb_exists in Hex. destruct Hex as [t [Hin Ht]].
    specialize (Hall t Hin). destruct t as [m b kids|b|k b]; cbn [reply_tree] in Ht; try discriminate.
    unfold reply_start in Ht. apply andb_true_iff in Ht. destruct Ht as [Ht H3].
    apply andb_true_iff in Ht. destruct Ht as [H1 H2]. apply bytes_eqb_eq in H2. apply negb_true_iff in H3.
    destruct Hall as [H|[H|H]]; congruence. }
  destruct (R2 Hex) as [j [J1 _]]. exists j. exact J1.
Qed.

Lemma c07_no_auto_reply_otherwise c fuel hf pd n a l v p' :
  clean (c_ws c) (TStart n a) = true -> length l < fuel ->
  his c fuel hf (mkp (TStart n a :: l) pd false) = (HRInv v, p') ->
  is_iq n = false \/ needs_resp (snd (get_id_typ (shown_attrs c n a))) = false ->
  v_auto v = [].
Proof.
  intros Hc Hl Hh Hor. destruct (his_inv_spec c fuel hf pd n a l v p' Hc Hl Hh) as [pre [e Hv]].
  apply (no_auto_reply c n a pd pre e v p' Hv Hor).
Qed.

(* the whole run: if Serve returns nil every invocation completed (so every request in it was
   answered by the rule above); otherwise only the last invocation can have failed, and Serve
   returns an error: the stream is terminated *)
Lemma c07_serve c hf toks base : ends_match base toks = true ->
  let r := serve_all c hf toks in
  Forall (fun v => exists n a pre e p', clean (c_ws c) (TStart n a) = true /\ inv_spec c n a 0%N pre e v p') (s_invs r) /\
  (s_ret r = None -> Forall (fun v => v_ret v = None) (s_invs r)) /\
  (forall v, In v (removelast (s_invs r)) -> v_ret v = None).
Proof. intros Hm r. apply (follows_invs c toks). apply (c08_serve_follows c hf toks base Hm). Qed.

(* the pinned multiplexer: an IQ without payload is not answered at all *)
Definition ex_cfg : cfg := mkcfg false sv_ns_client (str "me@example.net") (fun s => Some s) false.
Definition ex_empty_iq : list token :=
  [TStart (mkname sv_ns_client s_iq) [mk_attr s_type sv_iq_get; mk_attr s_id (str "x")];
   TEnd (mkname sv_ns_client s_iq); TEnd stream_root].

Lemma c07_mux_pinned_refuted :
  exists toks, ends_match [stream_root] toks = true /\
    let r := serve_all ex_cfg (fun _ => mux_handler (mkmux sv_ns_client false []) (c_jp ex_cfg) 10) toks in
    written r = [] /\ s_ret r = Some EUnexpectedEOF /\
    exists v, s_invs r = [v] /\ is_iq (v_name v) = true /\ get_id_typ (v_attrs v) = (str "x", sv_iq_get).
Proof.
  exists ex_empty_iq. split; [vm_compute; reflexivity|]. vm_compute.
  split; [reflexivity|]. split; [reflexivity|]. eexists. split; [reflexivity|]. split; reflexivity.
Qed.

(* ... and with the repaired one it is, by the fallback *)
Lemma c07_mux_fixed_example :
  let r := serve_all ex_cfg (fun _ => mux_handler (mkmux sv_ns_client true []) (c_jp ex_cfg) 10) ex_empty_iq in
  written r = tokens_of_tree (fallback_tree (mkiqv (mkname sv_ns_client s_iq) (str "x") sv_iq_get [] [] [])).
Proof. vm_compute. reflexivity. Qed.
