(* C18/Examples.v — non-vacuity: concrete, non-trivial instances of the
   hypotheses of every theorem of Properties.v, and the test-suite scenarios
   (muc_test.go) replayed through the model. *)
From Coq Require Import List Bool Arith.
Import ListNotations.
From XV Require Import lib.Lts C18.Model C18.Proofs.

Definition accepted (tr : list label) : bool := match exec tr with Some _ => true | None => false end.

(* Channel 0 is made for address 0 by the first Client.Join *)
Definition join0 : list label := [LNew 0 0; LCall 0 KJoin 0; LPush 0; LPushed 0].

(* TestJoinPartMuc: join, self-presence, leave, unavailable presence; Joined() true in between *)
Definition ex_join_part : list label :=
  join0 ++ [LDeliver (PresAvail 0); LRet 0 OSuccess; LQuery 0 true;
   LCall 1 KLeave 0; LDeliver (PresUnavail 0); LRet 1 OSuccess; LQuery 0 false].
Example ex_join_part_ok : accepted ex_join_part = true.
Proof. vm_compute. reflexivity. Qed.

(* TestJoinError *)
Definition ex_join_error : list label :=
  join0 ++ [LDeliver (ErrReply 0); LRet 0 OStanzaErr; LQuery 0 false].
Example ex_join_error_ok : accepted ex_join_error = true.
Proof. vm_compute. reflexivity. Qed.

(* TestPartError: Joined() is false after the refused Leave (the deviation) *)
Example ex_part_error_ok : accepted (refute_trace ++ [LQuery 0 false]) = true.
Proof. vm_compute. reflexivity. Qed.

(* TestJoinCancel: a context cancelled before the call publishes *)
Example ex_join_cancel_ok : accepted [LNew 0 0; LCall 0 KJoin 0; LCancel 0; LRet 0 OCtxErr] = true.
Proof. vm_compute. reflexivity. Qed.
Example ex_join_cancel_ok2 : accepted (join0 ++ [LCancel 0; LRet 0 OCtxErr]) = true.
Proof. vm_compute. reflexivity. Qed.

(* the model refuses what the property forbids *)
Example ex_no_success_without_presence : accepted (join0 ++ [LRet 0 OSuccess]) = false.
Proof. vm_compute. reflexivity. Qed.
Example ex_no_success_for_other_room : accepted (join0 ++ [LDeliver (PresAvail 1); LRet 0 OSuccess]) = false.
Proof. vm_compute. reflexivity. Qed.
Example ex_no_joined_before_success : accepted (join0 ++ [LQuery 0 true]) = false.
Proof. vm_compute. reflexivity. Qed.
Example ex_no_ctx_error_without_cancel : accepted (join0 ++ [LRet 0 OCtxErr]) = false.
Proof. vm_compute. reflexivity. Qed.
Example ex_no_second_return : accepted (ex_join_error ++ [LRet 0 OStanzaErr]) = false.
Proof. vm_compute. reflexivity. Qed.
Example ex_no_call_on_unmade_channel : accepted [LCall 0 KJoin 0] = false /\ accepted [LNew 1 0] = false.
Proof. vm_compute. split; reflexivity. Qed.

(* the departure handled before Leave reaches its select is kept (the fixed defect) *)
Example ex_departure_kept : accepted
  (join0 ++ [LDeliver (PresAvail 0); LRet 0 OSuccess;
   LCall 1 KLeave 0; LDeliver (PresUnavail 0); LDeliver Other; LCancel 0; LRet 1 OSuccess]) = true.
Proof. vm_compute. reflexivity. Qed.

(* rejoin after leaving completes (the fixed defect), and a kick's stale notification is dropped *)
Example ex_rejoin : accepted
  (ex_join_part ++ [LCall 2 KJoin 0; LPush 2; LPushed 2; LDeliver (PresAvail 0); LRet 2 OSuccess; LQuery 0 true;
                    LDeliver (PresUnavail 0); LQuery 0 false; LCall 3 KJoin 0; LPush 3; LPushed 3;
                    LDeliver (PresAvail 0); LRet 3 OSuccess; LCall 4 KLeave 0; LQuery 0 true]) = true.
Proof. vm_compute. reflexivity. Qed.
Example ex_stale_notification_dropped : accepted
  (ex_join_part ++ [LCall 2 KJoin 0; LPush 2; LPushed 2; LDeliver (PresAvail 0); LRet 2 OSuccess;
                    LDeliver (PresUnavail 0); LCall 3 KJoin 0; LPush 3; LPushed 3;
                    LDeliver (PresAvail 0); LRet 3 OSuccess; LCall 4 KLeave 0; LRet 4 OSuccess]) = false.
Proof. vm_compute. reflexivity. Qed.

(* ---- several Channels for one occupant address ---- *)

(* Channel 0 is joined; a second Client.Join for the same address (Channel 1) is given up; Channel 0
   re-synchronizes: its join call registers it again, the self-presence reaches it and the rejoin
   succeeds (the history of seeded change m11) *)
Definition ex_second_join_given_up : list label :=
  join0 ++ [LDeliver (PresAvail 0); LRet 0 OSuccess;
            LNew 1 0; LCall 1 KJoin 1; LPush 1; LPushed 1; LCancel 1; LRet 1 OCtxErr; LQuery 0 true; LQuery 1 false].
Example ex_resync_after_second_join : accepted
  (ex_second_join_given_up ++ [LCall 2 KJoin 0; LPush 2; LPushed 2; LDeliver (PresAvail 0); LRet 2 OSuccess;
                               LQuery 0 true; LCall 3 KLeave 0; LDeliver (PresUnavail 0); LRet 3 OSuccess; LQuery 0 false]) = true.
Proof. vm_compute. reflexivity. Qed.
(* without the re-registration the presence would be taken by the abandoned Channel 1 (its stale
   context, then the callback): the model has no such run *)
Example ex_presence_not_to_abandoned_channel : accepted
  (ex_second_join_given_up ++ [LCall 2 KJoin 0; LPush 2; LPushed 2; LDeliver (PresAvail 0); LSeeDone]) = false.
Proof. vm_compute. reflexivity. Qed.
(* before Channel 0 re-registers, the room's presence does go to Channel 1: stale context, then callback *)
Example ex_presence_to_registered_channel :
  option_map cb_pres (exec (ex_second_join_given_up ++ [LDeliver (PresAvail 0); LSeeDone])) = Some [0].
Proof. vm_compute. reflexivity. Qed.
(* the second Client.Join succeeds: both Channels are members; the unavailable presence reaches the
   registered one only (known finding: the first stays joined) *)
Example ex_second_join_succeeds : accepted
  (join0 ++ [LDeliver (PresAvail 0); LRet 0 OSuccess;
             LNew 1 0; LCall 1 KJoin 1; LPush 1; LPushed 1; LDeliver (PresAvail 0); LRet 1 OSuccess;
             LQuery 0 true; LQuery 1 true; LCall 2 KLeave 0; LDeliver (PresUnavail 0); LQuery 1 false; LQuery 0 true;
             LCancel 2; LRet 2 OCtxErr]) = true.
Proof. vm_compute. reflexivity. Qed.
(* ... and fails with the room's error: Channel 0 is still a member and still not registered *)
Example ex_second_join_refused :
  option_map (fun s => (ch_joined (chans s 0), table s 0)) (exec
  (join0 ++ [LDeliver (PresAvail 0); LRet 0 OSuccess;
             LNew 1 0; LCall 1 KJoin 1; LPush 1; LPushed 1; LDeliver (ErrReply 1); LRet 1 OStanzaErr])) = Some (true, Some 1).
Proof. vm_compute. reflexivity. Qed.
(* two Channels of one address with joins in flight at once: the presence completes the one registered last *)
Example ex_two_pending_joins : accepted
  (join0 ++ [LNew 1 0; LCall 1 KJoin 1; LPush 1; LPushed 1; LDeliver (PresAvail 0); LRet 1 OSuccess;
             LDeliver (PresAvail 0); LCancel 0; LRet 0 OCtxErr]) = true /\
  accepted (join0 ++ [LNew 1 0; LCall 1 KJoin 1; LPush 1; LPushed 1; LDeliver (PresAvail 0); LRet 0 OSuccess]) = false.
Proof. vm_compute. split; reflexivity. Qed.

(* hypotheses of C18_join_success_only_after_self_presence / C18_join_call_registers / C18_leave_... /
   C18_stanza_error_... / C18_context_error_otherwise *)
Example hyp_join_success : exists s, exec ((join0 ++ [LDeliver (PresAvail 0)]) ++ [LRet 0 OSuccess]) = Some s.
Proof. eexists. vm_compute. reflexivity. Qed.
Example hyp_join_call : exists s, exec (ex_second_join_given_up ++ [LCall 2 KJoin 0]) = Some s.
Proof. eexists. vm_compute. reflexivity. Qed.
Example hyp_leave_success : exists s, exec ([LNew 0 0; LCall 0 KJoin 0; LNew 1 1; LCall 1 KJoin 1; LCancel 0; LRet 0 OCtxErr; LCall 2 KLeave 0; LDeliver (PresUnavail 0)] ++ [LRet 2 OSuccess]) = Some s.
Proof. eexists. vm_compute. reflexivity. Qed.
Example hyp_stanza_error : exists s, exec ((join0 ++ [LDeliver (ErrReply 0)]) ++ [LRet 0 OStanzaErr]) = Some s.
Proof. eexists. vm_compute. reflexivity. Qed.
Example hyp_ctx_error : exists s, exec ((join0 ++ [LDeliver (PresAvail 0); LCancel 0]) ++ [LRet 0 OCtxErr]) = Some s.
Proof. eexists. vm_compute. reflexivity. Qed.

(* hypotheses of C18_error_reply_is_returned, C18_self_presence_completes_join and
   C18_presence_goes_to_registered_channel: a waiting join on Channel 0 of address 3 *)
Example hyp_waiting_join : exists s c,
  exec [LNew 0 3; LCall 0 KJoin 0; LPush 0; LPushed 0] = Some s /\ srv s = SIdle /\ calls s 0 = Some c /\
  c_phase c = PWait /\ c_done c = false /\ c_replied c = false /\ c_kind c = KJoin /\ c_chan c = 0 /\
  table s 3 = Some 0 /\ ch_jq (chans s 0) = [0].
Proof. eexists. eexists. vm_compute. repeat split; reflexivity. Qed.

(* hypotheses of C18_stale_join_context_skipped: a failed join's context ahead of a blocked publisher *)
Example hyp_stale_context : exists s c0 c,
  exec [LNew 0 2; LCall 0 KJoin 0; LPush 0; LPushed 0; LDeliver (ErrReply 0); LRet 0 OStanzaErr; LCall 1 KJoin 0; LPush 1] = Some s /\
  srv s = SIdle /\ table s 2 = Some 0 /\ ch_jq (chans s 0) = [0; 1] /\
  calls s 0 = Some c0 /\ c_done c0 = true /\ c_chan c0 = 0 /\
  calls s 1 = Some c /\ c_kind c = KJoin /\ c_chan c = 0 /\ c_phase c = PQueued.
Proof. do 3 eexists. vm_compute. repeat split; reflexivity. Qed.

(* hypotheses of C18_unavailable_completes_leave / C18_departure_notification_kept *)
Example hyp_waiting_leave : exists s c,
  exec [LNew 0 1; LCall 0 KJoin 0; LPush 0; LPushed 0; LDeliver (PresAvail 1); LRet 0 OSuccess; LCall 1 KLeave 0] = Some s /\
  srv s = SIdle /\ table s 1 = Some 0 /\ calls s 1 = Some c /\ c_kind c = KLeave /\ c_chan c = 0 /\ c_phase c = PWait.
Proof. do 2 eexists. vm_compute. repeat split; reflexivity. Qed.
Example hyp_kept : exists s c,
  exec [LNew 0 1; LCall 0 KJoin 0; LPush 0; LPushed 0; LDeliver (PresAvail 1); LRet 0 OSuccess; LCall 1 KLeave 0; LDeliver (PresUnavail 1)] = Some s /\
  calls s 1 = Some c /\ c_kind c = KLeave /\ c_phase c = PWait /\ ch_dep (chans s (c_chan c)) = true.
Proof. do 2 eexists. vm_compute. repeat split; reflexivity. Qed.

(* hypotheses of C18_membership_window_partial with a non-trivial window; the spec itself *)
Example hyp_window : member_window ex_join_part 0 = false /\ member_window (firstn 7 ex_join_part) 0 = true /\
  member_window (firstn 5 ex_join_part) 0 = false /\ member_window ex_join_part 1 = false.
Proof. vm_compute. repeat split; reflexivity. Qed.
Example hyp_window_free : forall k, In (LRet k OStanzaErr) ex_join_part -> ~ In (LCall k KLeave 0) ex_join_part.
Proof. intros k H. cbn in H. repeat (destruct H as [H|H]; [discriminate H|]). destruct H. Qed.
Example hyp_never_orphaned : never_orphaned ex_join_part 0 /\
  never_orphaned (ex_second_join_given_up ++ [LCall 2 KJoin 0; LPush 2; LPushed 2; LDeliver (PresAvail 0); LRet 2 OSuccess;
                                              LCall 3 KLeave 0; LDeliver (PresUnavail 0)]) 0.
Proof. split; apply never_orphaned_b_sound; vm_compute; reflexivity. Qed.
(* ... and it fails where the known finding is: the orphan history *)
Example ex_orphaned : never_orphaned_b init orphan_trace 0 = false.
Proof. vm_compute. reflexivity. Qed.

(* C18_unjoined_rooms_ignored: no Channel was ever made for address 7, the handler is idle, other rooms are busy *)
Example hyp_unjoined : exists s, exec ex_join_error = Some s /\ srv s = SIdle /\ (forall h, ~ In (LNew h 7) ex_join_error).
Proof.
  eexists. split; [vm_compute; reflexivity|]. split; [reflexivity|].
  intros k H. cbn in H. repeat (destruct H as [H|H]; [discriminate H|]). destruct H.
Qed.

(* ... the same presence with a payload that does not decode: ignored for address 7, fatal for the
   managed address 0 (hypotheses of C18_managed_bad_payload_ends_serve) *)
Example ex_bad_payload_unjoined :
  option_map srv (exec (ex_join_error ++ [LDeliver (PresBad 7); LDeliver (PresAvail 7); LNew 1 7; LCall 1 KJoin 1])) = Some SIdle.
Proof. vm_compute. reflexivity. Qed.
Example hyp_bad_payload_managed : exists s, exec ex_join_error = Some s /\ srv s = SIdle /\ table s 0 = Some 0.
Proof. eexists. split; [vm_compute; reflexivity|]. split; reflexivity. Qed.
Example ex_bad_payload_managed :
  option_map srv (exec (ex_join_error ++ [LDeliver (PresBad 0)])) = Some SDead /\
  exec (ex_join_error ++ [LDeliver (PresBad 0); LDeliver Other]) = None.
Proof. vm_compute. split; reflexivity. Qed.

(* C18_invitation_once_partial: invitations with the customary extra children (legacy
   jabber:x:conference x, delay, body), a declined invitation, a status notification; every
   message has at most one muc#user payload *)
Definition ex_msgs : list label :=
  [LDeliver (Msg [CInvite 4]); LDeliver Other; LDeliver (Msg [COther; CInvite 9; CForeignX]);
   LDeliver (Msg [CForeignX; CForeignX; CInvite 4; COther]); LDeliver (Msg [CUserX; CForeignX]);
   LDeliver (Msg [CForeignX]); LDeliver (Msg [])].
Example ex_invites : option_map cb_inv (exec ex_msgs) = Some [4; 9; 4] /\ invites_of ex_msgs = [4; 9; 4].
Proof. vm_compute. split; reflexivity. Qed.
Example hyp_single_payload : forall cs, In (LDeliver (Msg cs)) ex_msgs -> single_payload cs.
Proof.
  intros cs H. cbn in H. unfold single_payload.
  repeat (destruct H as [H|H]; [try discriminate H; injection H as <-; cbn; auto|]). destruct H.
Qed.
(* what the refuted full statement is about: two muc#user payloads in one message *)
Example ex_two_payloads :
  option_map cb_inv (exec [LDeliver (Msg [CInvite 1; CInvite 2])]) = Some [2; 2] /\
  option_map cb_inv (exec [LDeliver (Msg [CInvite 1; CUserX])]) = Some [] /\
  option_map cb_inv (exec [LDeliver (Msg [CUserX; CInvite 1])]) = Some [1; 1].
Proof. vm_compute. repeat split; reflexivity. Qed.
