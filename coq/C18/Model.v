(* C18/Model.v — executable model of the MUC client (muc/muc.go, muc/room.go)
   as a labelled transition system.

   What is modelled (after the fix: commits on branch verif-C18):

   * Channel objects           chans h       h : chid, numbered in order of creation; a
                                             Channel has a fixed occupant address ch_addr
                                             (the Nick option is outside the model). SEVERAL
                                             Channels may have the same address: every
                                             Client.Join makes a new one (LNew).
   * Client.managed            table a       the Channel registered for occupant address a:
                                             last registration wins. Client.JoinPresence
                                             registers the new Channel (LNew); EVERY
                                             Channel.JoinPresence registers its Channel again,
                                             unconditionally (LCall _ KJoin h); the unavailable
                                             presence of a removes the entry.
   * Channel.joined            ch_joined h   (what Channel.Joined reports)
   * Channel.join  (cap. 1)    ch_jq h       head = the buffered join context, the
                                             rest = publishers blocked on the full buffer
                                             (Go hands the buffer slot to the first blocked
                                             sender in the same step that empties it)
   * Channel.depart (cap. 1)   ch_dep h      a kept departure notification
   * at most one call in flight per Channel ([step] is None for a second one);
     calls on different Channels, also of one address, overlap freely
   * a call k (Join or Leave):  PStart  registered, before the publish select
                                PQueued sent on / blocked on the join buffer
                                PWait   request sender spawned, at the final select
                                PRet o  returned
     c_done = its context is done (cancelled, or the call returned: defer cancel())
   * the session's Serve goroutine: SIdle | SOffer k (inside HandlePresence, holding
     managedM, offering the occupant address to join context k) | SAwait k (session
     level: an error reply was handed to the request sender of k and Serve waits
     for it to be closed)
   * callbacks: cb_pres (HandleUserPresence, by address), cb_inv (HandleInvite).
   * SDead: HandlePresence returned a decoding error and Serve ended; nothing is
     delivered any more. (The model still lets calls start and end by
     cancellation there; the harness ends a case at that point.)

   Labels are the atomic steps a schedule is made of; the harness forces them on
   the real code with the `verif` yield points and records them. *)
From Coq Require Import List Bool Arith.
Import ListNotations.
From XV Require Import lib.Lts.

Definition addr := nat.
Definition cid := nat.
Definition chid := nat.

Inductive kind := KJoin | KLeave.
Inductive outcome := OSuccess | OStanzaErr | OCtxErr | OOther.
Inductive phase := PStart | PQueued | PWait | PRet (o : outcome).

Record call := mkcall {
  c_kind : kind; c_chan : chid; c_phase : phase; c_done : bool; c_replied : bool }.

Record chan := mkchan {
  ch_made : bool; ch_addr : addr; ch_joined : bool; ch_jq : list cid; ch_dep : bool }.

(* SDead: a handler returned an error to the Serve loop, which ended *)
Inductive serve := SIdle | SOffer (k : cid) | SAwait (k : cid) | SDead.

(* the child elements of a normal message, as far as the client's handler and
   the pattern it is registered for can tell them apart *)
Inductive child :=
| CInvite (i : nat)   (* <x xmlns='http://jabber.org/protocol/muc#user'> with an <invite/> child: mediated invitation number i *)
| CUserX              (* a muc#user <x/> without an invite child (a declined invitation, a status notification, ...) *)
| CForeignX           (* an <x/> element of another namespace (jabber:x:conference, jabber:x:delay, ...) *)
| COther.             (* any other child element *)

Record state := mkstate {
  calls : cid -> option call;
  ncalls : nat;
  chans : chid -> chan;
  nchans : nat;
  table : addr -> option chid;
  srv : serve;
  cb_pres : list addr;
  cb_inv : list nat }.

Inductive stanza :=
| PresAvail (a : addr)      (* available presence with a muc#user payload from occupant address a *)
| PresUnavail (a : addr)    (* unavailable presence with a muc#user payload from a *)
| ErrReply (k : cid)        (* error presence carrying the id of the request of call k *)
| PresBad (a : addr)        (* available or unavailable presence from a whose muc#user payload does not decode
                               (unknown role or affiliation value, malformed jid) *)
| Msg (cs : list child)     (* normal message with these child elements *)
| Other.                    (* anything else *)

Inductive label :=
| LNew (h : chid) (a : addr)               (* Client.Join / Client.JoinPresence makes Channel h for occupant address a and registers it *)
| LCall (k : cid) (kd : kind) (h : chid)   (* a call on Channel h starts: Channel.JoinPresence registers h for its address /
                                              Channel.LeavePresence drops a stale departure and sends its request *)
| LPush (k : cid)                          (* join: send on the join buffer (may block) *)
| LPushed (k : cid)                        (* join: the send completed; request sender spawned *)
| LRet (k : cid) (o : outcome)             (* the call returns o *)
| LCancel (k : cid)                        (* the caller cancels the context of k *)
| LDeliver (st : stanza)                   (* Serve reads the next stanza and handles it *)
| LSeeDone                                 (* the presence handler sees that the context it offers to is done *)
| LSenderQuit (k : cid)                    (* the request sender of k drops the error reply: context done *)
| LQuery (h : chid) (b : bool).            (* Joined() on Channel h returned b *)

Definition chan0 : chan := mkchan false 0 false [] false.

Definition init : state := mkstate (fun _ => None) 0 (fun _ => chan0) 0 (fun _ => None) SIdle [] [].

(* ---- record updates ---- *)

Definition set_call (s : state) (k : cid) (c : call) : state :=
  mkstate (fun x => if Nat.eqb x k then Some c else calls s x) (ncalls s) (chans s) (nchans s) (table s) (srv s) (cb_pres s) (cb_inv s).

Definition add_call (s : state) (c : call) : state :=
  mkstate (fun x => if Nat.eqb x (ncalls s) then Some c else calls s x) (S (ncalls s)) (chans s) (nchans s) (table s) (srv s) (cb_pres s) (cb_inv s).

Definition set_chan (s : state) (h : chid) (c : chan) : state :=
  mkstate (calls s) (ncalls s) (fun x => if Nat.eqb x h then c else chans s x) (nchans s) (table s) (srv s) (cb_pres s) (cb_inv s).

Definition add_chan (s : state) (c : chan) : state :=
  mkstate (calls s) (ncalls s) (fun x => if Nat.eqb x (nchans s) then c else chans s x) (S (nchans s)) (table s) (srv s) (cb_pres s) (cb_inv s).

Definition set_table (s : state) (a : addr) (v : option chid) : state :=
  mkstate (calls s) (ncalls s) (chans s) (nchans s) (fun x => if Nat.eqb x a then v else table s x) (srv s) (cb_pres s) (cb_inv s).

Definition set_srv (s : state) (v : serve) : state :=
  mkstate (calls s) (ncalls s) (chans s) (nchans s) (table s) v (cb_pres s) (cb_inv s).

Definition log_pres (s : state) (a : addr) : state :=
  mkstate (calls s) (ncalls s) (chans s) (nchans s) (table s) (srv s) (cb_pres s ++ [a]) (cb_inv s).

Definition log_invs (s : state) (l : list nat) : state :=
  mkstate (calls s) (ncalls s) (chans s) (nchans s) (table s) (srv s) (cb_pres s) (cb_inv s ++ l).

Definition with_phase (c : call) (p : phase) : call := mkcall (c_kind c) (c_chan c) p (c_done c) (c_replied c).
Definition with_done (c : call) : call := mkcall (c_kind c) (c_chan c) (c_phase c) true (c_replied c).
Definition with_replied (c : call) : call := mkcall (c_kind c) (c_chan c) (c_phase c) (c_done c) true.
Definition returned (c : call) (o : outcome) : call := mkcall (c_kind c) (c_chan c) (PRet o) true (c_replied c).

Definition with_joined (c : chan) (b : bool) : chan := mkchan (ch_made c) (ch_addr c) b (ch_jq c) (ch_dep c).
Definition with_jq (c : chan) (q : list cid) : chan := mkchan (ch_made c) (ch_addr c) (ch_joined c) q (ch_dep c).
Definition with_dep (c : chan) (b : bool) : chan := mkchan (ch_made c) (ch_addr c) (ch_joined c) (ch_jq c) b.
(* the occupant's unavailable presence: membership ends, the departure is notified (kept if nobody waits) *)
Definition departed (c : chan) : chan := mkchan (ch_made c) (ch_addr c) false (ch_jq c) true.

(* ---- predicates ---- *)

Definition is_ret (p : phase) : bool := match p with PRet _ => true | _ => false end.
Definition is_offer (v : serve) : bool := match v with SOffer _ => true | _ => false end.
Definition serve_eqb (x y : serve) : bool :=
  match x, y with
  | SIdle, SIdle => true
  | SOffer a, SOffer b => Nat.eqb a b
  | SAwait a, SAwait b => Nat.eqb a b
  | SDead, SDead => true
  | _, _ => false
  end.
Definition kind_eqb (x y : kind) : bool :=
  match x, y with KJoin, KJoin | KLeave, KLeave => true | _, _ => false end.
Definition mem (k : cid) (l : list cid) : bool := existsb (Nat.eqb k) l.
Fixpoint remove_id (k : cid) (l : list cid) : list cid :=
  match l with
  | [] => []
  | x :: r => if Nat.eqb x k then r else x :: remove_id k r
  end.

(* no call on Channel h is in flight *)
Definition idle (s : state) (h : chid) : bool :=
  forallb (fun k => match calls s k with
                    | Some c => negb (Nat.eqb (c_chan c) h) || is_ret (c_phase c)
                    | None => true
                    end) (seq 0 (ncalls s)).

(* ---- the presence handler, having found Channel h in the table, takes the
        head of its join buffer (or falls through to the user presence callback) ---- *)
Definition take (s : state) (h : chid) : state :=
  let ch := chans s h in
  match ch_jq ch with
  | [] => log_pres (set_srv s SIdle) (ch_addr ch)
  | k :: rest => set_srv (set_chan s h (with_jq ch rest)) (SOffer k)
  end.

(* ---- a normal message: the multiplexer invokes the client's handler once for
        every child element that matches the pattern HandleClient registered
        (the muc#user x); every invocation decodes the WHOLE message into one
        Invitation field, so the last muc#user x wins and one without an invite
        child leaves it empty; HandleInvite is called if it is not empty ---- *)
Definition is_userx (c : child) : bool :=
  match c with CInvite _ | CUserX => true | _ => false end.

Fixpoint decoded (cs : list child) (acc : option nat) : option nat :=
  match cs with
  | [] => acc
  | CInvite i :: r => decoded r (Some i)
  | CUserX :: r => decoded r None
  | _ :: r => decoded r acc
  end.

Definition msg_calls (cs : list child) : list nat :=
  match decoded cs None with
  | Some i => repeat i (length (filter is_userx cs))
  | None => []
  end.

Definition deliver (s : state) (st : stanza) : state :=
  match st with
  | PresAvail a =>
      match table s a with
      | Some h => take s h
      | None => s
      end
  | PresUnavail a =>
      match table s a with
      | Some h => set_chan (set_table s a None) h (departed (chans s h))
      | None => s
      end
  | ErrReply k =>
      match calls s k with
      | Some c =>
          match c_phase c with
          | PWait => if negb (c_done c) && negb (c_replied c)
                     then set_srv (set_call s k (with_replied c)) (SAwait k) else s
          | _ => s
          end
      | None => s
      end
  | PresBad a =>
      (* the table is consulted first: no entry, no decoding; with an entry the
         decoding error is returned to the Serve loop *)
      match table s a with
      | Some _ => set_srv s SDead
      | None => s
      end
  | Msg cs => log_invs s (msg_calls cs)
  | Other => s
  end.

Definition ret (s : state) (k : cid) (c : call) (o : outcome) : option state :=
  let h := c_chan c in
  let ch := chans s h in
  match o with
  | OCtxErr =>
      if c_done c then
        match c_phase c with
        | PStart | PWait => Some (set_call s k (returned c OCtxErr))
        | PQueued => if mem k (tl (ch_jq ch))
                     then Some (set_call (set_chan s h (with_jq ch (match ch_jq ch with
                                                                   | [] => []
                                                                   | x :: r => x :: remove_id k r
                                                                   end))) k (returned c OCtxErr))
                     else None
        | PRet _ => None
        end
      else None
  | OStanzaErr =>
      match c_phase c with
      | PWait => if serve_eqb (srv s) (SAwait k)
                 then let s1 := set_srv (set_call s k (returned c OStanzaErr)) SIdle in
                      Some (match c_kind c with
                            | KLeave => set_chan s1 h (with_joined ch false)
                            | KJoin => s1
                            end)
                 else None
      | _ => None
      end
  | OSuccess =>
      match c_phase c with
      | PWait =>
          match c_kind c with
          | KJoin => if serve_eqb (srv s) (SOffer k)
                     then Some (set_srv (set_chan (set_call s k (returned c OSuccess)) h (with_joined ch true)) SIdle)
                     else None
          | KLeave => if ch_dep ch
                      then Some (set_chan (set_call s k (returned c OSuccess)) h (with_dep ch false))
                      else None
          end
      | _ => None
      end
  | OOther => None
  end.

Definition step (s : state) (l : label) : option state :=
  match l with
  | LNew h a =>
      (* under managedM: not while the presence handler holds it in an offer *)
      if Nat.eqb h (nchans s) && negb (is_offer (srv s))
      then Some (set_table (add_chan s (mkchan true a false [] false)) a (Some h))
      else None
  | LCall k kd h =>
      if Nat.eqb k (ncalls s) && idle s h then
        let ch := chans s h in
        if ch_made ch then
          match kd with
          | KJoin => if is_offer (srv s) then None
                     else Some (set_table (add_call s (mkcall KJoin h PStart false false)) (ch_addr ch) (Some h))
          | KLeave => Some (set_chan (add_call s (mkcall KLeave h PWait false false)) h (with_dep ch false))
          end
        else None
      else None
  | LPush k =>
      match calls s k with
      | Some c =>
          match c_kind c, c_phase c with
          | KJoin, PStart =>
              let ch := chans s (c_chan c) in
              Some (set_call (set_chan s (c_chan c) (with_jq ch (ch_jq ch ++ [k]))) k (with_phase c PQueued))
          | _, _ => None
          end
      | None => None
      end
  | LPushed k =>
      match calls s k with
      | Some c =>
          match c_kind c, c_phase c with
          | KJoin, PQueued => if mem k (tl (ch_jq (chans s (c_chan c)))) then None
                              else Some (set_call s k (with_phase c PWait))
          | _, _ => None
          end
      | None => None
      end
  | LRet k o =>
      match calls s k with
      | Some c => ret s k c o
      | None => None
      end
  | LCancel k =>
      match calls s k with
      | Some c => Some (set_call s k (with_done c))
      | None => None
      end
  | LDeliver st =>
      match srv s with
      | SIdle => Some (deliver s st)
      | _ => None
      end
  | LSeeDone =>
      match srv s with
      | SOffer k =>
          match calls s k with
          | Some c => if c_done c then Some (take s (c_chan c)) else None
          | None => None
          end
      | _ => None
      end
  | LSenderQuit k =>
      match calls s k with
      | Some c => if serve_eqb (srv s) (SAwait k) && c_done c then Some (set_srv s SIdle) else None
      | None => None
      end
  | LQuery h b =>
      if is_offer (srv s) then None
      else if Bool.eqb b (ch_joined (chans s h)) then Some s else None
  end.

Definition exec (tr : list label) : option state := run step init tr.

(* ---- correspondence records (harness-written case files) ---- *)

Record tcase := mkcase { t_trace : list label; t_cbp : list nat; t_cbi : list nat }.

Fixpoint nats_eqb (x y : list nat) : bool :=
  match x, y with
  | [], [] => true
  | a :: x', b :: y' => Nat.eqb a b && nats_eqb x' y'
  | _, _ => false
  end.

(* the recorded schedule is a run of the model (every observed return value and
   Joined() result is one the model allows at that point) and the callback logs
   agree *)
Definition case_ok (c : tcase) : bool :=
  match exec (t_trace c) with
  | Some s => nats_eqb (cb_pres s) (t_cbp c) && nats_eqb (cb_inv s) (t_cbi c)
  | None => false
  end.

Fixpoint failing {A} (ok : A -> bool) (i : nat) (l : list A) : list nat :=
  match l with
  | [] => []
  | x :: r => if ok x then failing ok (S i) r else i :: failing ok (S i) r
  end.
