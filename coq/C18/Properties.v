(* C18/Properties.v — the property theorems of C18 and nothing else.
   "MUC membership follows the room's presence exactly."

   All statements are about [exec tr = Some s]: tr is ANY label sequence the
   model accepts from the initial state — any number of join / rejoin / leave /
   cancel calls on any addresses, interleaved in any order with any stanzas of
   the service — and s is the state it leads to. The model (C18/Model.v) is the
   code after the fix: commits of branch verif-C18 (on /repo main). *)
From Coq Require Import List Bool Arith.
Import ListNotations.
From XV Require Import lib.Lts C18.Model C18.Proofs.

(* Channels are objects (h : chid); several may have the same occupant address
   (every Client.Join makes one: LNew h a). [table s a] is the Channel registered
   for address a: last registration wins. *)

(* ---- Join ---- *)

(* Join on Channel h returns success only after the room's self-presence for the
   requested occupant address has arrived: after the call started an available
   presence from h's address a was handled; WHEN IT WAS LOOKED UP (state s1) h WAS
   THE REGISTERED CHANNEL for a; and the return belongs to the handling of that
   very presence (nothing else was delivered, no Channel was registered since). *)
Theorem C18_join_success_only_after_self_presence : forall tr s k h,
  exec (tr ++ [LRet k OSuccess]) = Some s -> In (LCall k KJoin h) tr ->
  exists t1 t2 t3 a s1,
    tr = t1 ++ LCall k KJoin h :: t2 ++ LDeliver (PresAvail a) :: t3 /\
    exec (t1 ++ LCall k KJoin h :: t2) = Some s1 /\
    table s1 a = Some h /\ ch_addr (chans s1 h) = a /\
    (forall st, ~ In (LDeliver st) t3) /\ (forall k' h', ~ In (LCall k' KJoin h') t3) /\
    (forall h' a', ~ In (LNew h' a') t3).
Proof. exact join_success_after_self_presence. Qed.
Print Assumptions C18_join_success_only_after_self_presence.

(* Every Join call registers its Channel for its address, whatever the state of
   the Channel (joined or not): after an accepted LCall k KJoin h the table
   entry of h's address is h ... *)
Theorem C18_join_call_registers : forall tr s k h,
  exec (tr ++ [LCall k KJoin h]) = Some s -> table s (ch_addr (chans s h)) = Some h.
Proof. exact join_call_registers_r. Qed.
Print Assumptions C18_join_call_registers.

(* ... and an available presence is offered, for the whole of its handling, to
   join contexts of the registered Channel only. *)
Theorem C18_presence_goes_to_registered_channel : forall tr s a h s' k c,
  exec tr = Some s -> table s a = Some h ->
  step s (LDeliver (PresAvail a)) = Some s' -> srv s' = SOffer k -> calls s' k = Some c -> c_chan c = h.
Proof. exact presence_goes_to_registered_channel. Qed.
Print Assumptions C18_presence_goes_to_registered_channel.

(* A call (Join or Leave) returns the room's stanza error only if the room
   answered that very request with an error, after the call started. *)
Theorem C18_stanza_error_only_after_error_reply : forall tr s k,
  exec (tr ++ [LRet k OStanzaErr]) = Some s ->
  exists t1 t2 kd a, tr = t1 ++ LDeliver (ErrReply k) :: t2 /\ In (LCall k kd a) t1.
Proof. exact stanza_error_after_error_reply. Qed.
Print Assumptions C18_stanza_error_only_after_error_reply.

(* ... and the context's error only if its context was cancelled; there is no
   fourth outcome, and a call returns at most once. *)
Theorem C18_context_error_otherwise : forall tr s k o,
  exec (tr ++ [LRet k o]) = Some s ->
  (o = OSuccess \/ o = OStanzaErr \/ o = OCtxErr) /\
  (o = OCtxErr -> In (LCancel k) tr) /\
  (forall o', ~ In (LRet k o') tr).
Proof. exact context_error_otherwise. Qed.
Print Assumptions C18_context_error_otherwise.

(* Conversely the room's answer decides the return value. When the error reply
   to the request of a waiting, uncancelled call is handled, the call can return
   the stanza error and (for a join) nothing else. *)
Theorem C18_error_reply_is_returned : forall tr s k c,
  exec tr = Some s ->
  srv s = SIdle -> calls s k = Some c -> c_phase c = PWait -> c_done c = false -> c_replied c = false ->
  exists s1 s2,
    step s (LDeliver (ErrReply k)) = Some s1 /\
    step s1 (LRet k OStanzaErr) = Some s2 /\
    step s1 (LRet k OCtxErr) = None /\
    (c_kind c = KJoin -> step s1 (LRet k OSuccess) = None).
Proof. exact error_reply_returned_r. Qed.
Print Assumptions C18_error_reply_is_returned.

(* When the self-presence for address a is handled while Channel h is registered
   for a and the context of a waiting, uncancelled join on h is the pending one,
   that join can return success — Joined() on h is true from then on — and
   nothing else. *)
Theorem C18_self_presence_completes_join : forall tr s k c a h rest,
  exec tr = Some s ->
  srv s = SIdle -> table s a = Some h -> ch_jq (chans s h) = k :: rest ->
  calls s k = Some c -> c_kind c = KJoin -> c_chan c = h -> c_phase c = PWait -> c_done c = false ->
  exists s1 s2,
    step s (LDeliver (PresAvail a)) = Some s1 /\
    step s1 (LRet k OSuccess) = Some s2 /\
    ch_joined (chans s2 h) = true /\
    step s1 (LRet k OCtxErr) = None /\
    step s1 (LRet k OStanzaErr) = None.
Proof. exact self_presence_completes_join_r. Qed.
Print Assumptions C18_self_presence_completes_join.

(* A stale context of an earlier failed or cancelled join sits in the buffer and
   the new join is blocked publishing behind it: the handler takes the stale
   context, the blocked publisher gets the buffer slot, the handler sees the
   stale context done, takes the new one and completes the join; the presence
   callback is not invoked. *)
Theorem C18_stale_join_context_skipped : forall tr s k0 c0 k c a h rest,
  exec tr = Some s ->
  srv s = SIdle -> table s a = Some h -> ch_jq (chans s h) = k0 :: k :: rest ->
  calls s k0 = Some c0 -> c_done c0 = true -> c_chan c0 = h ->
  calls s k = Some c -> c_kind c = KJoin -> c_chan c = h -> c_phase c = PQueued ->
  k <> k0 -> mem k rest = false ->
  exists s1 s2 s3 s4,
    step s (LDeliver (PresAvail a)) = Some s1 /\ step s1 (LPushed k) = Some s2 /\
    step s2 LSeeDone = Some s3 /\ step s3 (LRet k OSuccess) = Some s4 /\
    ch_joined (chans s4 h) = true /\ cb_pres s4 = cb_pres s.
Proof. exact stale_context_skipped_r. Qed.
Print Assumptions C18_stale_join_context_skipped.

(* ---- membership ---- *)

(* The property: Joined() on a Channel is true exactly from a successful join on
   it until the unavailable presence of its occupant address has been handled
   ([member_window] reads that window off the history alone). *)
Definition C18_membership_window_statement : Prop :=
  forall tr s h, exec tr = Some s -> ch_joined (chans s h) = member_window tr h.

(* It holds on every history in which no Leave on that Channel returned the
   room's error and the Channel is never orphaned (whenever the unavailable
   presence of its address is handled while it is a member, it is the registered
   Channel: no other Channel for the same address has replaced it) ... *)
Theorem C18_membership_window_partial : forall tr s h,
  exec tr = Some s ->
  (forall k, In (LRet k OStanzaErr) tr -> ~ In (LCall k KLeave h) tr) ->
  never_orphaned tr h ->
  ch_joined (chans s h) = member_window tr h.
Proof. exact membership_window_partial. Qed.
Print Assumptions C18_membership_window_partial.

(* ... and in general membership is exactly [member_impl]: that window cut short
   by a Leave that returned the room's error, and not ended by an unavailable
   presence that arrives while another Channel is registered; every value
   Joined() returns is that one. *)
Theorem C18_membership_exact : forall tr s h,
  exec tr = Some s -> ch_joined (chans s h) = member_impl tr h.
Proof. exact membership_impl. Qed.
Print Assumptions C18_membership_exact.

Theorem C18_joined_reports_membership : forall tr h b s,
  exec (tr ++ [LQuery h b]) = Some s -> b = member_impl tr h.
Proof. exact query_reports_membership. Qed.
Print Assumptions C18_joined_reports_membership.

(* The full statement is false of the code as it must stay (muc_test.go
   TestPartError requires Joined() to be false after a refused Leave): join,
   self-presence, Leave, error reply ... *)
Theorem C18_membership_window_refuted :
  exists tr s h, exec tr = Some s /\ ch_joined (chans s h) <> member_window tr h.
Proof. exact membership_window_refuted. Qed.
Print Assumptions C18_membership_window_refuted.

(* ... and, without any refused Leave, of a Channel that a second Client.Join for
   its address has replaced in the table: it does not see the occupant's
   unavailable presence and stays a member (known finding). *)
Theorem C18_membership_orphan_refuted :
  exists s, exec orphan_trace = Some s /\ ch_joined (chans s 0) = true /\ member_window orphan_trace 0 = false /\
            (forall k, ~ In (LRet k OStanzaErr) orphan_trace).
Proof. exact membership_orphan_refuted. Qed.
Print Assumptions C18_membership_orphan_refuted.

(* ---- Leave ---- *)

(* Leave on Channel h returns success only after the unavailable presence of h's
   address was handled, after the call started, while h was the registered
   Channel. *)
Theorem C18_leave_returns_on_unavailable_or_error : forall tr s k h,
  exec (tr ++ [LRet k OSuccess]) = Some s -> In (LCall k KLeave h) tr ->
  exists t1 t2 t3 a s1,
    tr = t1 ++ LCall k KLeave h :: t2 ++ LDeliver (PresUnavail a) :: t3 /\
    exec (t1 ++ LCall k KLeave h :: t2) = Some s1 /\ table s1 a = Some h /\ ch_addr (chans s1 h) = a.
Proof. exact leave_success_after_unavailable. Qed.
Print Assumptions C18_leave_returns_on_unavailable_or_error.

(* Conversely, once that presence is handled membership ends and the waiting
   Leave can return; and the notification is kept for it: no step of anybody
   else takes it away, wherever the Leave call is on its way to its select. *)
Theorem C18_unavailable_completes_leave : forall tr s k c a h,
  exec tr = Some s ->
  srv s = SIdle -> table s a = Some h ->
  calls s k = Some c -> c_kind c = KLeave -> c_chan c = h -> c_phase c = PWait ->
  exists s1 s2,
    step s (LDeliver (PresUnavail a)) = Some s1 /\
    ch_joined (chans s1 h) = false /\ table s1 a = None /\
    step s1 (LRet k OSuccess) = Some s2.
Proof. exact unavailable_completes_leave_r. Qed.
Print Assumptions C18_unavailable_completes_leave.

Theorem C18_departure_notification_kept : forall tr s l s' k c,
  exec tr = Some s -> step s l = Some s' ->
  calls s k = Some c -> c_kind c = KLeave -> c_phase c = PWait -> ch_dep (chans s (c_chan c)) = true ->
  (forall o, l <> LRet k o) ->
  ch_dep (chans s' (c_chan c)) = true /\
  exists c', calls s' k = Some c' /\ c_kind c' = KLeave /\ c_phase c' = PWait /\ c_chan c' = c_chan c.
Proof. exact departure_kept_r. Qed.
Print Assumptions C18_departure_notification_kept.

(* ---- rooms never joined ---- *)

(* Presences from an address for which no Channel was ever made (no join was
   ever requested for it) change nothing, whatever their payload is —
   well-formed (available or unavailable) or one that does not decode (PresBad:
   unknown role or affiliation, malformed jid): the resulting state is the state
   before, so there is no callback, no effect on any call, the Serve loop is
   still idle (no error was returned to it) and everything that could happen
   before can happen after, e.g. a later join. *)
Theorem C18_unjoined_rooms_ignored : forall tr s a,
  exec tr = Some s -> (forall h, ~ In (LNew h a) tr) -> srv s = SIdle ->
  step s (LDeliver (PresAvail a)) = Some s /\ step s (LDeliver (PresUnavail a)) = Some s /\
  step s (LDeliver (PresBad a)) = Some s.
Proof. exact unjoined_rooms_ignored. Qed.
Print Assumptions C18_unjoined_rooms_ignored.

(* (The contrast, to show that the payload matters where the address is managed:
   there the undecodable payload is an error that ends the Serve loop.) *)
Theorem C18_managed_bad_payload_ends_serve : forall s a h,
  srv s = SIdle -> table s a = Some h ->
  exists s', step s (LDeliver (PresBad a)) = Some s' /\ srv s' = SDead /\
             forall st, step s' (LDeliver st) = None.
Proof. exact managed_bad_payload_ends_serve. Qed.
Print Assumptions C18_managed_bad_payload_ends_serve.

(* ---- invitations ----
   A normal message is a list of child elements: muc#user payloads with an
   invite (CInvite i), muc#user payloads without (declined invitation, status),
   x elements of other namespaces (jabber:x:conference, delay, ...), anything
   else. [invites_of tr] is the property's side: every invite element of every
   delivered message, once, in order. *)
Definition C18_invitation_once_statement : Prop :=
  forall tr s, exec tr = Some s -> cb_inv s = invites_of tr.

(* It holds on every history whose messages carry at most one muc#user payload
   each, whatever other children they have and however many ... *)
Theorem C18_invitation_once_partial : forall tr s,
  exec tr = Some s ->
  (forall cs, In (LDeliver (Msg cs)) tr -> single_payload cs) ->
  cb_inv s = invites_of tr.
Proof. exact invites_once_partial. Qed.
Print Assumptions C18_invitation_once_partial.

(* ... in general the callback log is exactly [delivered_of tr]: per message,
   one call per muc#user payload, each with the last payload's invitation ... *)
Theorem C18_invitation_exact : forall tr s,
  exec tr = Some s -> cb_inv s = delivered_of tr.
Proof. exact invites_exact. Qed.
Print Assumptions C18_invitation_exact.

(* ... so the full statement is false: a message with two muc#user payloads
   (the multiplexer runs the handler once per matching child and the handler
   cannot tell which child it was run for). *)
Theorem C18_invitation_once_refuted :
  exists tr s, exec tr = Some s /\ cb_inv s <> invites_of tr.
Proof. exact invites_once_refuted. Qed.
Print Assumptions C18_invitation_once_refuted.
