(* C18/Proofs.v — lemmas about the MUC client model. *)
From Coq Require Import List Bool Arith Lia.
Import ListNotations.
From XV Require Import lib.Bytes lib.Lts gen.Muc C18.Model.

(* ---------------------------------------------------------------- tactics *)

(* Break a hypothesis [step s l = Some s'] into its leaves: one per branch of
   the step function that accepts the label. *)
Ltac break_match_hyp H :=
  match type of H with
  | context [match ?x with _ => _ end] =>
      let E := fresh "E" in destruct x eqn:E; try discriminate H
  | context [if ?x then _ else _] =>
      let E := fresh "E" in destruct x eqn:E; try discriminate H
  end.

Ltac step_leaves H :=
  unfold step, ret, deliver in H;
  repeat (break_match_hyp H);
  try (injection H as H); try subst.

Ltac simp_state :=
  cbn [calls ncalls chans srv cb_pres cb_inv set_call add_call set_chan set_srv log_pres log_invs take
       c_kind c_addr c_phase c_done c_replied with_phase with_done with_replied returned
       ch_made ch_entry ch_joined ch_jq ch_dep with_entry with_joined with_jq with_dep] in *.

(* ---------------------------------------------------------------- basics *)

Lemma eqb_refl' : forall n, Nat.eqb n n = true.
Proof. intro n. apply Nat.eqb_refl. Qed.

Lemma serve_eqb_eq : forall x y, serve_eqb x y = true -> x = y.
Proof.
  intros [|a|a|] [|b|b|] H; cbn in H; try discriminate; try reflexivity;
    apply Nat.eqb_eq in H; subst; reflexivity.
Qed.

Lemma mem_In : forall k l, mem k l = true <-> In k l.
Proof.
  intros k l. unfold mem. rewrite existsb_exists. split.
  - intros [x [Hin Hx]]. apply Nat.eqb_eq in Hx. subst. exact Hin.
  - intros Hin. exists k. split; [exact Hin|apply Nat.eqb_refl].
Qed.

Lemma In_remove_id : forall k x l, In x (remove_id k l) -> In x l.
Proof.
  intros k x l. induction l as [|y r IH]; cbn [remove_id]; intro H; [exact H|].
  destruct (Nat.eqb y k); [right; exact H|].
  destruct H as [H|H]; [left; exact H|right; apply IH; exact H].
Qed.

(* the model's own view of [take] *)
Lemma take_unfold : forall s a,
  take s a = match ch_jq (chans s a) with
             | [] => log_pres (set_srv s SIdle) a
             | k :: rest => set_srv (set_chan s a (with_jq (chans s a) rest)) (SOffer k)
             end.
Proof. reflexivity. Qed.

(* ---------------------------------------------------------------- invitations *)

(* what HandleInvite is called with, read off the history: per delivered message
   the calls of [msg_calls] *)
Definition delivered_of (tr : list label) : list nat :=
  flat_map (fun l => match l with LDeliver (Msg cs) => msg_calls cs | _ => [] end) tr.

(* the property's side: every invite element of every delivered message, once, in order *)
Definition invites_in (cs : list child) : list nat :=
  flat_map (fun c => match c with CInvite i => [i] | _ => [] end) cs.
Definition invites_of (tr : list label) : list nat :=
  flat_map (fun l => match l with LDeliver (Msg cs) => invites_in cs | _ => [] end) tr.

Lemma take_cb_inv : forall s a, cb_inv (take s a) = cb_inv s.
Proof. intros s a. unfold take. destruct (ch_jq (chans s a)); reflexivity. Qed.

Lemma step_cb_inv : forall s l s', step s l = Some s' ->
  cb_inv s' = cb_inv s ++ match l with LDeliver (Msg cs) => msg_calls cs | _ => [] end.
Proof.
  intros s l s' H. destruct l as [k kd a|k|k|k o|k|st|  |k|a b];
    step_leaves H; simp_state; rewrite ?take_cb_inv; rewrite ?app_nil_r; reflexivity.
Qed.

Lemma delivered_of_app : forall a b, delivered_of (a ++ b) = delivered_of a ++ delivered_of b.
Proof. intros a b. unfold delivered_of. apply flat_map_app. Qed.

Lemma invites_exact : forall tr s, exec tr = Some s -> cb_inv s = delivered_of tr.
Proof.
  intros tr s H. unfold exec in H.
  apply (invariant_hist _ _ step (fun h s => cb_inv s = delivered_of h) init) with (tr := tr); [reflexivity| |exact H].
  intros h s0 l s1 _ IH Hs. rewrite (step_cb_inv _ _ _ Hs), IH, delivered_of_app.
  f_equal. cbn. rewrite app_nil_r. reflexivity.
Qed.

(* a message with at most one muc#user payload, whatever else it carries *)
Definition single_payload (cs : list child) : Prop := length (filter is_userx cs) <= 1.

Lemma decoded_no_userx : forall cs acc, filter is_userx cs = [] -> decoded cs acc = acc.
Proof.
  induction cs as [|c r IH]; intros acc H; [reflexivity|].
  destruct c; cbn [filter is_userx] in H; try discriminate H; cbn [decoded]; apply IH; exact H.
Qed.

Lemma invites_in_no_userx : forall cs, filter is_userx cs = [] -> invites_in cs = [].
Proof.
  induction cs as [|c r IH]; intros H; [reflexivity|].
  destruct c; cbn [filter is_userx] in H; try discriminate H; cbn; apply IH; exact H.
Qed.

Lemma invites_in_cons : forall c r,
  invites_in (c :: r) = (match c with CInvite i => [i] | _ => [] end) ++ invites_in r.
Proof. reflexivity. Qed.

Lemma msg_calls_single : forall cs, single_payload cs -> msg_calls cs = invites_in cs.
Proof.
  unfold single_payload, msg_calls. intros cs.
  assert (G : forall acc, length (filter is_userx cs) <= 1 ->
              (filter is_userx cs = [] -> decoded cs acc = acc /\ invites_in cs = []) /\
              (forall c, filter is_userx cs = [c] ->
                 decoded cs acc = (match c with CInvite i => Some i | _ => None end) /\
                 invites_in cs = match c with CInvite i => [i] | _ => [] end)).
  { induction cs as [|c r IH]; intros acc Hl.
    - split; [intros _; split; reflexivity|intros c Hc; discriminate Hc].
    - destruct c; cbn [filter is_userx] in *.
      + (* CInvite *) cbn [length] in Hl. assert (Hr : filter is_userx r = []) by (destruct (filter is_userx r); [reflexivity|cbn in Hl; lia]).
        split; [intros Hc; discriminate Hc|]. intros c Hc. injection Hc as <- _.
        cbn [decoded]. rewrite (decoded_no_userx r _ Hr), invites_in_cons, (invites_in_no_userx r Hr). split; reflexivity.
      + cbn [length] in Hl. assert (Hr : filter is_userx r = []) by (destruct (filter is_userx r); [reflexivity|cbn in Hl; lia]).
        split; [intros Hc; discriminate Hc|]. intros c Hc. injection Hc as <- _.
        cbn [decoded]. rewrite (decoded_no_userx r _ Hr), invites_in_cons, (invites_in_no_userx r Hr). split; reflexivity.
      + cbn [decoded]. rewrite invites_in_cons. cbn [app]. destruct (IH acc Hl) as [I1 I2]. split; [intros Hc; exact (I1 Hc)|intros c Hc; exact (I2 c Hc)].
      + cbn [decoded]. rewrite invites_in_cons. cbn [app]. destruct (IH acc Hl) as [I1 I2]. split; [intros Hc; exact (I1 Hc)|intros c Hc; exact (I2 c Hc)]. }
  intros Hl. destruct (G None Hl) as [G0 G1].
  destruct (filter is_userx cs) as [|c [|c2 r2]] eqn:Ef.
  - destruct (G0 eq_refl) as [-> ->]. reflexivity.
  - destruct (G1 c eq_refl) as [-> ->]. destruct c; reflexivity.
  - cbn in Hl. lia.
Qed.

Lemma invites_once_partial : forall tr s,
  exec tr = Some s ->
  (forall cs, In (LDeliver (Msg cs)) tr -> single_payload cs) ->
  cb_inv s = invites_of tr.
Proof.
  intros tr s H Hs. rewrite (invites_exact tr s H). unfold delivered_of, invites_of.
  clear H. induction tr as [|l tr IH]; [reflexivity|].
  cbn [flat_map]. rewrite IH by (intros cs Hin; apply Hs; right; exact Hin). f_equal.
  destruct l as [| | | | |st| | |]; try reflexivity. destruct st; try reflexivity.
  apply msg_calls_single. apply Hs. left. reflexivity.
Qed.

(* two muc#user payloads in one message: the handler runs twice and both times
   sees the last one *)
Lemma invites_once_refuted :
  exists tr s, exec tr = Some s /\ cb_inv s <> invites_of tr.
Proof.
  exists [LDeliver (Msg [CInvite 1; CInvite 2])].
  eexists. split; [vm_compute; reflexivity|]. vm_compute. discriminate.
Qed.

(* ---------------------------------------------------------------- well-formedness *)

Ltac eqb_cases :=
  repeat match goal with
  | H : Nat.eqb _ _ = true |- _ => apply Nat.eqb_eq in H
  | H : Nat.eqb _ _ = false |- _ => apply Nat.eqb_neq in H
  | H : context [Nat.eqb ?a ?b] |- _ => let E := fresh "Eq" in destruct (Nat.eqb a b) eqn:E
  | |- context [Nat.eqb ?a ?b] => let E := fresh "Eq" in destruct (Nat.eqb a b) eqn:E
  end.

Record wf (s : state) : Prop := mkwf {
  wf_bound : forall k c, calls s k = Some c -> k < ncalls s;
  wf_jq : forall a k, In k (ch_jq (chans s a)) ->
          exists c, calls s k = Some c /\ c_addr c = a /\ c_kind c = KJoin;
  wf_offer : forall k, srv s = SOffer k ->
          exists c, calls s k = Some c /\ c_kind c = KJoin /\ ch_entry (chans s (c_addr c)) = true;
  wf_joined : forall a, ch_joined (chans s a) = true -> ch_entry (chans s a) = true }.

Lemma wf_init : wf init.
Proof.
  constructor; cbn; intros; try discriminate; try contradiction.
Qed.

Lemma andb_true_l : forall a b, a && b = true -> a = true.
Proof. intros a b H. apply andb_true_iff in H. tauto. Qed.
Lemma andb_true_r' : forall a b, a && b = true -> b = true.
Proof. intros a b H. apply andb_true_iff in H. tauto. Qed.

(* [take] preserves well-formedness when the address has an entry *)
Lemma wf_take : forall s a, wf s -> ch_entry (chans s a) = true -> wf (take s a).
Proof.
  intros s a [W1 W2 W3 W4] He. rewrite take_unfold.
  destruct (ch_jq (chans s a)) as [|k rest] eqn:Eq.
  - constructor; simp_state; intros; try discriminate; eauto.
  - constructor; simp_state.
    + exact W1.
    + intros a0 k0 Hin. destruct (Nat.eqb a0 a) eqn:Ea.
      * apply Nat.eqb_eq in Ea. subst a0. simp_state. apply W2. rewrite Eq. right. exact Hin.
      * apply W2. exact Hin.
    + intros k0 Hk. injection Hk as <-.
      destruct (W2 a k) as [c [Hc [Ha Hk]]]; [rewrite Eq; left; reflexivity|].
      exists c. split; [exact Hc|]. split; [exact Hk|]. rewrite Ha, Nat.eqb_refl. simp_state. exact He.
    + intros a0. destruct (Nat.eqb a0 a) eqn:Ea; [apply Nat.eqb_eq in Ea; subst a0; simp_state|]; apply W4.
Qed.
Ltac same_call :=
  repeat match goal with
  | A : calls ?s ?k = Some ?x, B : calls ?s ?k = Some ?y |- _ => rewrite A in B; injection B as B; try subst y; try subst x
  | A : Some _ = Some _ |- _ => injection A as A; subst
  end.

Ltac use_W W2 W3 :=
  repeat match goal with
  | Hin : In ?k (ch_jq (chans ?s ?a)) |- _ =>
      let c := fresh "cj" in let H1 := fresh "Hj" in let H2 := fresh "Hj" in let H3 := fresh "Hj" in
      destruct (W2 a k Hin) as [c [H1 [H2 H3]]]; clear Hin
  | Hs : srv ?s = SOffer ?k |- _ =>
      let c := fresh "co" in let H1 := fresh "Ho" in let H2 := fresh "Ho" in let H3 := fresh "Ho" in
      destruct (W3 k Hs) as [c [H1 [H2 H3]]]; clear Hs
  end.

Ltac absurd_bound W1 :=
  match goal with H : calls ?s (ncalls ?s) = Some _ |- _ => apply W1 in H; lia end.

Ltac fin W1 :=
  simp_state; eqb_cases; subst; simp_state; same_call; simp_state;
  try absurd_bound W1;
  try lia; try discriminate; try congruence; eauto;
  try (eexists; split; [first [reflexivity|eassumption]|]; simp_state; eqb_cases; subst; simp_state;
       try tauto; try congruence; eauto; try (split; congruence); try (split; [congruence|]; simp_state; congruence)).

Ltac wf_fin W1 W2 W3 W4 :=
  constructor; simp_state;
  [ intros kx cx Hc0; eqb_cases; subst; try (injection Hc0 as <-); try lia;
    try (apply W1 in Hc0; lia); try (match goal with E : calls _ _ = Some _ |- _ => apply W1 in E; lia end)
  | intros ax kx Hin0; eqb_cases; subst; simp_state;
    try (apply in_app_or in Hin0; destruct Hin0 as [Hin0|[<-|[]]]);
    try (match type of Hin0 with In _ (_ :: remove_id _ _) =>
           match goal with Hs : forall x, In x (_ :: remove_id _ _) -> _ |- _ => apply Hs in Hin0 end end);
    use_W W2 W3; fin W1
  | intros kx Hs0; try discriminate Hs0; try congruence; try (injection Hs0 as <-); use_W W2 W3; fin W1
  | intros ax Hj0; eqb_cases; subst; simp_state; try discriminate; eauto;
    try (match goal with Hs : srv ?s = SOffer ?k |- _ =>
           let co := fresh "co" in destruct (W3 k Hs) as [co [? [? ?]]]; same_call; assumption end) ].

Lemma wf_step : forall s l s', wf s -> step s l = Some s' -> wf s'.
Proof.
  intros s l s' W H.
  destruct l as [k kd a|k|k|k o|k|st|  |k|a b]; step_leaves H; try exact W;
  repeat match goal with Hq : serve_eqb _ _ = true |- _ => apply serve_eqb_eq in Hq end;
  pose proof W as [W1 W2 W3 W4];
  try (apply wf_take; assumption);
  try (match goal with Hs : srv s = SOffer ?k |- wf (take _ _) =>
         destruct (W3 k Hs) as [co [Ho1 [Ho2 Ho3]]]; same_call; apply wf_take; assumption end);
  try (match goal with E4 : ch_jq (chans s ?a) = ?c0 :: ?l |- _ =>
         assert (Hsub : forall x, In x (c0 :: remove_id k l) -> In x (ch_jq (chans s a)))
           by (intros x [Hx|Hx]; rewrite E4; [left; exact Hx|right; apply In_remove_id in Hx; exact Hx]) end).
  all: try (solve [wf_fin W1 W2 W3 W4]).
  all: wf_fin W1 W2 W3 W4.
Qed.

Lemma wf_exec : forall tr s, exec tr = Some s -> wf s.
Proof.
  intros tr s H. apply (invariant_run _ _ step wf init wf_init wf_step tr s H).
Qed.
(* ---------------------------------------------------------------- membership *)

(* The property's membership window, read off a history alone: an occupant
   address is a member from the return of a successful join for it until its
   unavailable presence is handled. [strict = false] adds the one deviation the
   code has (kept because the test suite demands it): a Leave that returns the
   room's error also ends membership. *)
Record mspec := mkms { ms_call : cid -> option (kind * addr); ms_mem : addr -> bool }.

Definition ms0 : mspec := mkms (fun _ => None) (fun _ => false).

Definition ms_set (m : addr -> bool) (a : addr) (b : bool) : addr -> bool :=
  fun x => if Nat.eqb x a then b else m x.

Definition mstep (strict : bool) (m : mspec) (l : label) : mspec :=
  match l with
  | LCall k kd a => mkms (fun x => if Nat.eqb x k then Some (kd, a) else ms_call m x) (ms_mem m)
  | LRet k OSuccess =>
      match ms_call m k with
      | Some (KJoin, a) => mkms (ms_call m) (ms_set (ms_mem m) a true)
      | _ => m
      end
  | LRet k OStanzaErr =>
      if strict then m else
      match ms_call m k with
      | Some (KLeave, a) => mkms (ms_call m) (ms_set (ms_mem m) a false)
      | _ => m
      end
  | LDeliver (PresUnavail a) => mkms (ms_call m) (ms_set (ms_mem m) a false)
  | _ => m
  end.

Definition member_window (tr : list label) (a : addr) : bool := ms_mem (fold_left (mstep true) tr ms0) a.
Definition member_impl (tr : list label) (a : addr) : bool := ms_mem (fold_left (mstep false) tr ms0) a.

Definition info (c : call) : kind * addr := (c_kind c, c_addr c).

Definition agree (m : mspec) (s : state) : Prop :=
  (forall k, ms_call m k = option_map info (calls s k)) /\
  (forall a, ch_joined (chans s a) = ms_mem m a).

Lemma take_calls : forall s a, calls (take s a) = calls s.
Proof. intros s a. rewrite take_unfold. destruct (ch_jq (chans s a)); reflexivity. Qed.

Lemma take_joined : forall s a x, ch_joined (chans (take s a) x) = ch_joined (chans s x).
Proof.
  intros s a x. rewrite take_unfold. destruct (ch_jq (chans s a)); simp_state; [reflexivity|].
  destruct (Nat.eqb x a) eqn:E; [apply Nat.eqb_eq in E; subst|]; reflexivity.
Qed.

Ltac rew_calls :=
  repeat match goal with
  | E : calls ?s ?k = Some _ |- context [calls ?s ?k] => rewrite E
  | E : c_kind ?c = _ |- context [c_kind ?c] => rewrite E
  end.

Ltac agree_fin Hc Hj :=
  rew_calls;
  split; [intros kx|intros ax]; simp_state; rewrite ?take_calls, ?take_joined;
  unfold ms_set; cbn [ms_call ms_mem];
  try (rewrite Hc); try (rewrite <- Hj);
  eqb_cases; subst; simp_state; rew_calls; cbn [option_map]; unfold info; simp_state;
  try reflexivity; try congruence; auto.

Lemma mstep_sound : forall m s l s', wf s -> agree m s -> step s l = Some s' -> agree (mstep false m l) s'.
Proof.
  intros m s l s' W [Hc Hj] H.
  destruct l as [k kd a|k|k|k o|k|st|  |k|a b]; step_leaves H; cbn [mstep];
  repeat match goal with Hq : serve_eqb _ _ = true |- _ => apply serve_eqb_eq in Hq end;
  try (match goal with E : calls s ?k = Some ?c |- context [ms_call m ?k] =>
         let Hk := fresh "Hk" in pose proof (Hc k) as Hk; rewrite E in Hk; cbn [option_map] in Hk; unfold info in Hk; rewrite Hk end).
  all: try (solve [agree_fin Hc Hj]).
  - pose proof (andb_true_l _ _ E) as Ek. apply Nat.eqb_eq in Ek. subst k. agree_fin Hc Hj.
  - pose proof (andb_true_l _ _ E) as Ek. apply Nat.eqb_eq in Ek. subst k. agree_fin Hc Hj.
  - (* unavailable presence for an address without a table entry *)
    split; [exact Hc|]. intros ax. cbn [ms_mem]. unfold ms_set.
    destruct (Nat.eqb ax a) eqn:Ea; [|apply Hj]. apply Nat.eqb_eq in Ea. subst ax.
    destruct (ch_joined (chans s' a)) eqn:Ej; [|reflexivity].
    apply (wf_joined _ W) in Ej. congruence.
Qed.

Lemma fold_left_snoc : forall (A B : Type) (f : A -> B -> A) l x a, fold_left f (l ++ [x]) a = f (fold_left f l a) x.
Proof. intros. rewrite fold_left_app. reflexivity. Qed.

Lemma agree_exec : forall tr s, exec tr = Some s -> agree (fold_left (mstep false) tr ms0) s.
Proof.
  intros tr s H. unfold exec in H.
  apply (invariant_hist _ _ step (fun h s => wf s /\ agree (fold_left (mstep false) h ms0) s) init) with (tr := tr) (s := s); [| |exact H].
  - split; [exact wf_init|]. split; reflexivity.
  - intros h s0 l s1 _ [W A] Hs. split; [exact (wf_step _ _ _ W Hs)|].
    rewrite fold_left_snoc. exact (mstep_sound _ _ _ _ W A Hs).
Qed.

Lemma membership_impl : forall tr s a, exec tr = Some s -> ch_joined (chans s a) = member_impl tr a.
Proof. intros tr s a H. destruct (agree_exec tr s H) as [_ Hj]. apply Hj. Qed.

Lemma ms_call_In : forall b h k kd a,
  ms_call (fold_left (mstep b) h ms0) k = Some (kd, a) -> In (LCall k kd a) h.
Proof.
  intros b h. induction h as [|l h IH] using rev_ind; intros k kd a H.
  - discriminate H.
  - rewrite fold_left_snoc in H. apply in_or_app.
    destruct l as [k0 kd0 a0|k0|k0|k0 o|k0|st|  |k0|a0 b0]; cbn [mstep] in H;
      try (left; apply IH; exact H).
    + cbn [ms_call] in H. destruct (Nat.eqb k k0) eqn:E.
      * apply Nat.eqb_eq in E. subst. injection H as -> ->. right. left. reflexivity.
      * left. apply IH. exact H.
    + left. apply IH.
      destruct o; try exact H.
      * destruct (ms_call (fold_left (mstep b) h ms0) k0) as [[[|] a1]|]; exact H.
      * destruct b; [exact H|].
        destruct (ms_call (fold_left (mstep false) h ms0) k0) as [[[|] a1]|]; exact H.
    + left. apply IH. destruct st; exact H.
Qed.

Lemma folds_agree : forall tr a,
  (forall k, In (LRet k OStanzaErr) tr -> ~ In (LCall k KLeave a) tr) ->
  (forall k, ms_call (fold_left (mstep true) tr ms0) k = ms_call (fold_left (mstep false) tr ms0) k) /\
  ms_mem (fold_left (mstep true) tr ms0) a = ms_mem (fold_left (mstep false) tr ms0) a.
Proof.
  intros tr a. induction tr as [|l h IH] using rev_ind; intros Hfree.
  - split; reflexivity.
  - destruct IH as [IHc IHm].
    { intros k Hin Hc. apply (Hfree k); apply in_or_app; left; assumption. }
    rewrite !fold_left_snoc.
    set (mt := fold_left (mstep true) h ms0) in *. set (mf := fold_left (mstep false) h ms0) in *.
    destruct l as [k0 kd0 a0|k0|k0|k0 o|k0|st|  |k0|a0 b0]; cbn [mstep]; try (split; assumption).
    + split; [|exact IHm]. intros k. cbn [ms_call]. rewrite IHc. reflexivity.
    + destruct o; try (split; assumption).
      * rewrite IHc. destruct (ms_call mf k0) as [[[|] a1]|]; try (split; assumption).
        split; [exact IHc|]. cbn [ms_mem]. unfold ms_set. rewrite IHm. reflexivity.
      * destruct (ms_call mf k0) as [[[|] a1]|] eqn:Ec; try (split; assumption).
        split; [exact IHc|]. cbn [ms_mem]. unfold ms_set.
        destruct (Nat.eqb a a1) eqn:Ea; [|exact IHm].
        apply Nat.eqb_eq in Ea. subst a1. exfalso.
        apply (Hfree k0); apply in_or_app; [right; left; reflexivity|left].
        apply (ms_call_In false). exact Ec.
    + destruct st; try (split; assumption).
      split; [exact IHc|]. cbn [ms_mem]. unfold ms_set. rewrite IHm. reflexivity.
Qed.

Lemma membership_window_partial : forall tr s a,
  exec tr = Some s ->
  (forall k, In (LRet k OStanzaErr) tr -> ~ In (LCall k KLeave a) tr) ->
  ch_joined (chans s a) = member_window tr a.
Proof.
  intros tr s a H Hfree. rewrite (membership_impl tr s a H).
  unfold member_impl, member_window. destruct (folds_agree tr a Hfree) as [_ Hm]. symmetry. exact Hm.
Qed.

Lemma query_reports_membership : forall tr a b s,
  exec (tr ++ [LQuery a b]) = Some s -> b = member_impl tr a.
Proof.
  intros tr a b s H. unfold exec in H. apply run_snoc_some in H. destruct H as [s1 [H1 H2]].
  rewrite <- (membership_impl tr s1 a H1).
  cbn [step] in H2. destruct (is_offer (srv s1)); [discriminate|].
  destruct (Bool.eqb b (ch_joined (chans s1 a))) eqn:E; [|discriminate].
  apply Bool.eqb_prop in E. exact E.
Qed.

Definition refute_trace : list label :=
  [LCall 0 KJoin 0; LPush 0; LPushed 0; LDeliver (PresAvail 0); LRet 0 OSuccess;
   LCall 1 KLeave 0; LDeliver (ErrReply 1); LRet 1 OStanzaErr].

Lemma membership_window_refuted :
  exists tr s a, exec tr = Some s /\ ch_joined (chans s a) <> member_window tr a.
Proof.
  exists refute_trace.
  destruct (exec refute_trace) as [s|] eqn:E; [|vm_compute in E; discriminate].
  exists s, 0. split; [reflexivity|].
  assert (Hj : option_map (fun s => ch_joined (chans s 0)) (exec refute_trace) = Some false) by (vm_compute; reflexivity).
  rewrite E in Hj. cbn in Hj. injection Hj as ->.
  vm_compute. discriminate.
Qed.
(* ---------------------------------------------------------------- histories *)

(* how the call table evolves *)
Lemma step_calls : forall s l s' k c', wf s ->
  step s l = Some s' -> calls s' k = Some c' ->
  (exists c, calls s k = Some c /\ c_kind c' = c_kind c /\ c_addr c' = c_addr c) \/
  (l = LCall k (c_kind c') (c_addr c') /\ calls s k = None /\ k = ncalls s).
Proof.
  intros s l s' k c' W H Hc.
  destruct l as [k0 kd a|k0|k0|k0 o|k0|st|  |k0|a b]; step_leaves H; simp_state; rewrite ?take_calls in Hc;
    try solve [left; exists c'; auto];
    try solve [eqb_cases; subst; same_call; simp_state; left; eexists; (split; [eassumption|split; reflexivity])].
  all: pose proof (andb_true_l _ _ E) as Ek; apply Nat.eqb_eq in Ek; subst k0;
    destruct (Nat.eqb k (ncalls s)) eqn:Ekk;
    [apply Nat.eqb_eq in Ekk; subst k; injection Hc as <-; right; simp_state;
     split; [reflexivity|split; [|reflexivity]];
     destruct (calls s (ncalls s)) eqn:En; [apply (wf_bound _ W) in En; lia|reflexivity]
    |left; exists c'; auto].
Qed.

(* a decomposition of the history survives further steps *)
Lemma split_snoc : forall (h h1 h2 : list label) x l, h = h1 ++ x :: h2 -> h ++ [l] = h1 ++ x :: (h2 ++ [l]).
Proof. intros h h1 h2 x l ->. rewrite <- app_assoc. reflexivity. Qed.

Definition calls_logged (h : list label) (s : state) : Prop :=
  forall k c, calls s k = Some c -> In (LCall k (c_kind c) (c_addr c)) h.

Lemma calls_logged_step : forall h s l s', wf s -> calls_logged h s -> step s l = Some s' -> calls_logged (h ++ [l]) s'.
Proof.
  intros h s l s' W HL H k c' Hc. apply in_or_app.
  destruct (step_calls _ _ _ _ _ W H Hc) as [[c [Hk [Hkd Ha]]]|[-> _]].
  - left. rewrite Hkd, Ha. apply HL. exact Hk.
  - right. left. reflexivity.
Qed.

Lemma step_calls_fwd : forall s l s' k c, wf s ->
  step s l = Some s' -> calls s k = Some c ->
  exists c', calls s' k = Some c' /\ c_kind c' = c_kind c /\ c_addr c' = c_addr c.
Proof.
  intros s l s' k c W H Hc.
  destruct l as [k0 kd a|k0|k0|k0 o|k0|st|  |k0|a b]; step_leaves H; simp_state; rewrite ?take_calls;
    try solve [exists c; auto];
    try solve [eqb_cases; subst; same_call; simp_state; eexists; (split; [first [reflexivity|eassumption]|split; reflexivity])].
  all: destruct (Nat.eqb k (ncalls s)) eqn:Ekk;
    [apply Nat.eqb_eq in Ekk; subst k; apply (wf_bound _ W) in Hc; lia|exists c; auto].
Qed.

(* where an offering presence handler comes from *)
Lemma step_offer : forall s l s' k, step s l = Some s' -> srv s' = SOffer k ->
  (srv s = SOffer k /\ (forall k' a', l <> LCall k' KJoin a')) \/
  (exists a rest, l = LDeliver (PresAvail a) /\ ch_jq (chans s a) = k :: rest) \/
  (exists k0 c0 rest, l = LSeeDone /\ srv s = SOffer k0 /\ calls s k0 = Some c0 /\ ch_jq (chans s (c_addr c0)) = k :: rest).
Proof.
  intros s l s' k H Hs.
  destruct l as [k0 kd a|k0|k0|k0 o|k0|st|  |k0|a b]; step_leaves H; simp_state;
    try discriminate Hs;
    try solve [left; split; [congruence|intros; discriminate]].
  - rewrite Hs in E1. discriminate.
  - rewrite take_unfold in Hs. destruct (ch_jq (chans s a)) as [|kk rest] eqn:Eq; simp_state; [discriminate|].
    injection Hs as ->. right. left. exists a, rest. split; [reflexivity|exact Eq].
  - rewrite take_unfold in Hs. destruct (ch_jq (chans s (c_addr c))) as [|kk rest] eqn:Eq; simp_state; [discriminate|].
    injection Hs as ->. right. right. exists k0, c, rest. repeat split; assumption.
Qed.

Definition offer_hist (h : list label) (s : state) : Prop :=
  forall k, srv s = SOffer k ->
  exists c h1 h2, calls s k = Some c /\ c_kind c = KJoin /\
    h = h1 ++ LDeliver (PresAvail (c_addr c)) :: h2 /\
    In (LCall k KJoin (c_addr c)) h1 /\
    (forall k' a', ~ In (LCall k' KJoin a') h2).

Lemma offer_hist_step : forall h s l s',
  wf s -> calls_logged h s -> offer_hist h s -> step s l = Some s' -> offer_hist (h ++ [l]) s'.
Proof.
  intros h s l s' W HL HO H k Hs.
  destruct (step_offer _ _ _ _ H Hs) as [[Hs0 Hl]|[[a [rest [-> Eq]]]|[k0 [c0 [rest [-> [Hs0 [Hc0 Eq]]]]]]]].
  - destruct (HO k Hs0) as [c [h1 [h2 [Hc [Hk [Hh [Hin Hno]]]]]]].
    destruct (step_calls_fwd _ _ _ _ _ W H Hc) as [c' [Hc' [Hk' Ha']]].
    exists c', h1, (h2 ++ [l]). rewrite Hk', Ha'. repeat split; try assumption.
    + apply split_snoc. exact Hh.
    + intros k' a' Hin'. apply in_app_or in Hin'. destruct Hin' as [Hin'|[Hin'|[]]].
      * exact (Hno k' a' Hin').
      * exact (Hl k' a' Hin').
  - destruct (wf_jq _ W a k) as [c [Hc [Ha Hk]]]; [rewrite Eq; left; reflexivity|].
    destruct (step_calls_fwd _ _ _ _ _ W H Hc) as [c' [Hc' [Hk' Ha']]].
    exists c', h, []. rewrite Hk', Ha', Ha. repeat split; try assumption.
    + specialize (HL k c Hc). rewrite Hk, Ha in HL. exact HL.
    + intros k' a' [].
  - destruct (HO k0 Hs0) as [c [h1 [h2 [Hc [Hk [Hh [Hin Hno]]]]]]].
    rewrite Hc0 in Hc. injection Hc as <-.
    destruct (wf_jq _ W (c_addr c0) k) as [c [Hc [Ha Hkk]]]; [rewrite Eq; left; reflexivity|].
    destruct (step_calls_fwd _ _ _ _ _ W H Hc) as [c' [Hc' [Hk' Ha']]].
    exists c', h1, (h2 ++ [LSeeDone]). rewrite Hk', Ha', Ha. repeat split; try assumption.
    + apply split_snoc. exact Hh.
    + specialize (HL k c Hc). rewrite Hkk, Ha, Hh in HL.
      apply in_app_or in HL. destruct HL as [HL|[HL|HL]]; [exact HL|discriminate HL|].
      exfalso. exact (Hno _ _ HL).
    + intros k' a' Hin'. apply in_app_or in Hin'. destruct Hin' as [Hin'|[Hin'|[]]]; [exact (Hno k' a' Hin')|discriminate Hin'].
Qed.

Definition logged_calls (h : list label) (s : state) : Prop :=
  forall k kd a, In (LCall k kd a) h -> exists c, calls s k = Some c /\ c_kind c = kd /\ c_addr c = a.

Lemma step_call_new : forall s k kd a s', step s (LCall k kd a) = Some s' ->
  exists c, calls s' k = Some c /\ c_kind c = kd /\ c_addr c = a.
Proof.
  intros s k kd a s' H. step_leaves H; simp_state;
    pose proof (andb_true_l _ _ E) as Ek; apply Nat.eqb_eq in Ek; subst k; rewrite Nat.eqb_refl;
    eexists; (split; [reflexivity|split; reflexivity]).
Qed.

Lemma logged_calls_step : forall h s l s', wf s -> logged_calls h s -> step s l = Some s' -> logged_calls (h ++ [l]) s'.
Proof.
  intros h s l s' W HL H k kd a Hin. apply in_app_or in Hin. destruct Hin as [Hin|[Hin|[]]].
  - destruct (HL k kd a Hin) as [c [Hc [Hk Ha]]].
    destruct (step_calls_fwd _ _ _ _ _ W H Hc) as [c' [Hc' [Hk' Ha']]].
    exists c'. rewrite Hk', Ha'. auto.
  - subst l. exact (step_call_new _ _ _ _ _ H).
Qed.


Lemma step_await : forall s l s' k, step s l = Some s' -> srv s' = SAwait k ->
  srv s = SAwait k \/ (l = LDeliver (ErrReply k) /\ exists c, calls s k = Some c).
Proof.
  intros s l s' k H Hs.
  destruct l as [k0 kd a|k0|k0|k0 o|k0|st|  |k0|a b]; step_leaves H; simp_state;
    try discriminate Hs; try solve [left; congruence];
    try solve [rewrite take_unfold in Hs; destruct (ch_jq _); simp_state; discriminate Hs].
  injection Hs as ->. right. split; [reflexivity|]. exists c. exact E1.
Qed.

Definition await_hist (h : list label) (s : state) : Prop :=
  forall k, srv s = SAwait k ->
  exists h1 h2 kd a, h = h1 ++ LDeliver (ErrReply k) :: h2 /\ In (LCall k kd a) h1.

Lemma await_hist_step : forall h s l s',
  calls_logged h s -> await_hist h s -> step s l = Some s' -> await_hist (h ++ [l]) s'.
Proof.
  intros h s l s' HL HA H k Hs.
  destruct (step_await _ _ _ _ H Hs) as [Hs0|[-> [c Hc]]].
  - destruct (HA k Hs0) as [h1 [h2 [kd [a [Hh Hin]]]]].
    exists h1, (h2 ++ [l]), kd, a. split; [apply split_snoc; exact Hh|exact Hin].
  - exists h, [], (c_kind c), (c_addr c). split; [reflexivity|apply HL; exact Hc].
Qed.

(* a context is done only by cancellation or by the return of its call *)
Definition done_hist (h : list label) (s : state) : Prop :=
  forall k c, calls s k = Some c -> c_done c = true -> is_ret (c_phase c) = false -> In (LCancel k) h.

Lemma step_done : forall s l s' k c', wf s ->
  step s l = Some s' -> calls s' k = Some c' -> c_done c' = true -> is_ret (c_phase c') = false ->
  (exists c, calls s k = Some c /\ c_done c = true /\ is_ret (c_phase c) = false) \/ l = LCancel k.
Proof.
  intros s l s' k c' W H Hc Hd Hp.
  destruct l as [k0 kd a|k0|k0|k0 o|k0|st|  |k0|a b]; step_leaves H; simp_state; rewrite ?take_calls in Hc;
    try solve [left; exists c'; auto];
    try solve [eqb_cases; subst; same_call; simp_state; try discriminate;
               first [left; eexists; (split; [eassumption|split; assumption]) | right; reflexivity]].
  all: eqb_cases; subst; same_call; simp_state;
    first [ left; eexists; split; [eassumption|split; [assumption|]];
            repeat match goal with E : c_phase ?c = _ |- context [c_phase ?c] => rewrite E end; reflexivity
          | left; exists c'; auto ].
Qed.

Lemma done_hist_step : forall h s l s', wf s -> done_hist h s -> step s l = Some s' -> done_hist (h ++ [l]) s'.
Proof.
  intros h s l s' W HD H k c' Hc Hd Hp. apply in_or_app.
  destruct (step_done _ _ _ _ _ W H Hc Hd Hp) as [[c [Hc0 [Hd0 Hp0]]]| ->].
  - left. exact (HD k c Hc0 Hd0 Hp0).
  - right. left. reflexivity.
Qed.

(* the departure notification *)
Lemma take_dep : forall s a x, ch_dep (chans (take s a) x) = ch_dep (chans s x).
Proof.
  intros s a x. rewrite take_unfold. destruct (ch_jq (chans s a)); simp_state; [reflexivity|].
  destruct (Nat.eqb x a) eqn:E; [apply Nat.eqb_eq in E; subst|]; reflexivity.
Qed.

Lemma step_dep : forall s l s' a, step s l = Some s' -> ch_dep (chans s' a) = true ->
  (ch_dep (chans s a) = true /\ (forall k, l <> LCall k KLeave a)) \/ l = LDeliver (PresUnavail a).
Proof.
  intros s l s' a H Hd.
  destruct l as [k0 kd a0|k0|k0|k0 o|k0|st|  |k0|a0 b]; step_leaves H; simp_state; rewrite ?take_dep in Hd;
    try solve [left; split; [exact Hd|intros; discriminate]];
    try solve [eqb_cases; subst; simp_state; try discriminate Hd;
               first [left; split; [exact Hd|intros; congruence] | right; reflexivity]].
Qed.

(* a waiting Leave call in the new state was a waiting Leave call before, or has just started *)
Lemma step_leave_wait : forall s l s' k c', wf s ->
  step s l = Some s' -> calls s' k = Some c' -> c_kind c' = KLeave -> c_phase c' = PWait ->
  (exists c, calls s k = Some c /\ c_kind c = KLeave /\ c_phase c = PWait /\ c_addr c = c_addr c') \/
  l = LCall k KLeave (c_addr c').
Proof.
  intros s l s' k c' W H Hc Hk Hp.
  destruct l as [k0 kd a|k0|k0|k0 o|k0|st|  |k0|a b]; step_leaves H; simp_state; rewrite ?take_calls in Hc;
    try solve [left; exists c'; auto];
    try solve [eqb_cases; subst; same_call; simp_state; try discriminate; try congruence;
               first [left; eexists; split; [eassumption|auto] | right; reflexivity]].
Qed.

Definition leave_hist (h : list label) (s : state) : Prop :=
  forall k c, calls s k = Some c -> c_kind c = KLeave -> c_phase c = PWait ->
  ch_dep (chans s (c_addr c)) = true ->
  exists h1 h2 h3, h = h1 ++ LCall k KLeave (c_addr c) :: h2 ++ LDeliver (PresUnavail (c_addr c)) :: h3.

Lemma leave_hist_step : forall h s l s',
  wf s -> calls_logged h s -> leave_hist h s -> step s l = Some s' -> leave_hist (h ++ [l]) s'.
Proof.
  intros h s l s' W HL HV H k c' Hc Hk Hp Hd.
  destruct (step_leave_wait _ _ _ _ _ W H Hc Hk Hp) as [[c [Hc0 [Hk0 [Hp0 Ha0]]]]|Hl].
  - rewrite <- Ha0 in *.
    destruct (step_dep _ _ _ _ H Hd) as [[Hd0 _]| ->].
    + destruct (HV k c Hc0 Hk0 Hp0 Hd0) as [h1 [h2 [h3 Hh]]].
      exists h1, h2, (h3 ++ [l]). rewrite Hh. rewrite <- !app_assoc. cbn [app]. rewrite <- app_assoc. reflexivity.
    + pose proof (HL k c Hc0) as Hin. rewrite Hk0 in Hin.
      apply in_split in Hin. destruct Hin as [t1 [t2 ->]].
      exists t1, t2, []. rewrite <- app_assoc. reflexivity.
  - exfalso. subst l. step_leaves H. simp_state. rewrite Nat.eqb_refl in Hd. simp_state. discriminate Hd.
Qed.

(* the history invariants, together *)
Record hinv (h : list label) (s : state) : Prop := mkhinv {
  hi_wf : wf s;
  hi_logged : calls_logged h s;
  hi_back : logged_calls h s;
  hi_offer : offer_hist h s;
  hi_await : await_hist h s;
  hi_done : done_hist h s;
  hi_leave : leave_hist h s }.

Lemma hinv_init : hinv [] init.
Proof.
  constructor.
  - exact wf_init.
  - intros k c H. discriminate H.
  - intros k kd a [].
  - intros k H. discriminate H.
  - intros k H. discriminate H.
  - intros k c H. discriminate H.
  - intros k c H. discriminate H.
Qed.

Lemma hinv_step : forall h s l s', hinv h s -> step s l = Some s' -> hinv (h ++ [l]) s'.
Proof.
  intros h s l s' [W HL HB HO HA HD HV] H. constructor.
  - exact (wf_step _ _ _ W H).
  - exact (calls_logged_step _ _ _ _ W HL H).
  - exact (logged_calls_step _ _ _ _ W HB H).
  - exact (offer_hist_step _ _ _ _ W HL HO H).
  - exact (await_hist_step _ _ _ _ HL HA H).
  - exact (done_hist_step _ _ _ _ W HD H).
  - exact (leave_hist_step _ _ _ _ W HL HV H).
Qed.

Lemma hinv_exec : forall tr s, exec tr = Some s -> hinv tr s.
Proof.
  intros tr s H. unfold exec in H.
  apply (invariant_hist _ _ step hinv init hinv_init) with (tr := tr) (s := s); [|exact H].
  intros h s0 l s1 _ HI Hs. exact (hinv_step _ _ _ _ HI Hs).
Qed.

Lemma exec_snoc : forall tr l s, exec (tr ++ [l]) = Some s -> exists s1, exec tr = Some s1 /\ step s1 l = Some s.
Proof. intros tr l s H. unfold exec in *. apply run_snoc_some in H. exact H. Qed.

(* ---- the return values of Join and Leave ---- *)

Lemma join_success_after_self_presence : forall tr s k a,
  exec (tr ++ [LRet k OSuccess]) = Some s -> In (LCall k KJoin a) tr ->
  exists t1 t2 t3, tr = t1 ++ LCall k KJoin a :: t2 ++ LDeliver (PresAvail a) :: t3.
Proof.
  intros tr s k a H Hin. apply exec_snoc in H. destruct H as [s1 [H1 H2]].
  destruct (hinv_exec tr s1 H1) as [W HL HB HO _ _ _].
  destruct (HB k KJoin a Hin) as [c [Hc [Hk Ha]]].
  cbn [step] in H2. rewrite Hc in H2. unfold ret in H2. rewrite Hk in H2.
  destruct (c_phase c); try discriminate H2.
  destruct (serve_eqb (srv s1) (SOffer k)) eqn:Es; [|discriminate H2].
  apply serve_eqb_eq in Es.
  destruct (HO k Es) as [c1 [h1 [h2 [Hc1 [_ [Hh [Hin1 _]]]]]]].
  rewrite Hc in Hc1. injection Hc1 as <-. rewrite Ha in Hh, Hin1.
  apply in_split in Hin1. destruct Hin1 as [t1 [t2 ->]].
  exists t1, t2, h2. rewrite Hh. rewrite <- app_assoc. reflexivity.
Qed.

Lemma leave_success_after_unavailable : forall tr s k a,
  exec (tr ++ [LRet k OSuccess]) = Some s -> In (LCall k KLeave a) tr ->
  exists t1 t2 t3, tr = t1 ++ LCall k KLeave a :: t2 ++ LDeliver (PresUnavail a) :: t3.
Proof.
  intros tr s k a H Hin. apply exec_snoc in H. destruct H as [s1 [H1 H2]].
  destruct (hinv_exec tr s1 H1) as [W HL HB _ _ _ HV].
  destruct (HB k KLeave a Hin) as [c [Hc [Hk Ha]]].
  cbn [step] in H2. rewrite Hc in H2. unfold ret in H2. rewrite Hk in H2.
  destruct (c_phase c) eqn:Ep; try discriminate H2.
  destruct (ch_dep (chans s1 (c_addr c))) eqn:Ed; [|discriminate H2].
  destruct (HV k c Hc Hk Ep Ed) as [h1 [h2 [h3 Hh]]]. rewrite Ha in Hh.
  exists h1, h2, h3. exact Hh.
Qed.

Lemma stanza_error_after_error_reply : forall tr s k,
  exec (tr ++ [LRet k OStanzaErr]) = Some s ->
  exists t1 t2 kd a, tr = t1 ++ LDeliver (ErrReply k) :: t2 /\ In (LCall k kd a) t1.
Proof.
  intros tr s k H. apply exec_snoc in H. destruct H as [s1 [H1 H2]].
  destruct (hinv_exec tr s1 H1) as [_ _ _ _ HA _ _].
  cbn [step] in H2. destruct (calls s1 k) as [c|]; [|discriminate H2]. unfold ret in H2.
  destruct (c_phase c); try discriminate H2.
  destruct (serve_eqb (srv s1) (SAwait k)) eqn:Es; [|discriminate H2].
  apply serve_eqb_eq in Es. exact (HA k Es).
Qed.

Lemma ctx_error_only_if_cancelled : forall tr s k,
  exec (tr ++ [LRet k OCtxErr]) = Some s -> In (LCancel k) tr.
Proof.
  intros tr s k H. apply exec_snoc in H. destruct H as [s1 [H1 H2]].
  destruct (hinv_exec tr s1 H1) as [_ _ _ _ _ HD _].
  cbn [step] in H2. destruct (calls s1 k) as [c|] eqn:Hc; [|discriminate H2]. unfold ret in H2.
  destruct (c_done c) eqn:Ed; [|discriminate H2].
  apply (HD k c Hc Ed). destruct (c_phase c); try reflexivity. discriminate H2.
Qed.

(* the only outcomes are the three the property names *)
Lemma outcomes_are_the_three : forall tr s k o,
  exec (tr ++ [LRet k o]) = Some s -> o = OSuccess \/ o = OStanzaErr \/ o = OCtxErr.
Proof.
  intros tr s k o H. apply exec_snoc in H. destruct H as [s1 [_ H2]].
  destruct o; auto. cbn [step] in H2. destruct (calls s1 k); [|discriminate H2]. discriminate H2.
Qed.
(* ---------------------------------------------------------------- rooms never joined *)

Lemma take_entry : forall s a x, ch_entry (chans (take s a) x) = ch_entry (chans s x).
Proof.
  intros s a x. rewrite take_unfold. destruct (ch_jq (chans s a)); simp_state; [reflexivity|].
  destruct (Nat.eqb x a) eqn:E; [apply Nat.eqb_eq in E; subst|]; reflexivity.
Qed.

Lemma step_entry : forall s l s' a, step s l = Some s' -> ch_entry (chans s' a) = true ->
  ch_entry (chans s a) = true \/ exists k, l = LCall k KJoin a.
Proof.
  intros s l s' a H He.
  destruct l as [k0 kd a0|k0|k0|k0 o|k0|st|  |k0|a0 b]; step_leaves H; simp_state; rewrite ?take_entry in He;
    try solve [left; exact He];
    try solve [eqb_cases; subst; simp_state; try discriminate He;
               first [left; exact He | right; eexists; reflexivity]].
Qed.

Lemma entry_needs_join_call : forall tr s a, exec tr = Some s -> ch_entry (chans s a) = true ->
  exists k, In (LCall k KJoin a) tr.
Proof.
  intros tr s a H. unfold exec in H. revert s H.
  apply (invariant_hist _ _ step (fun h s => ch_entry (chans s a) = true -> exists k, In (LCall k KJoin a) h) init).
  - cbn. discriminate.
  - intros h s l s' _ IH Hs He. destruct (step_entry _ _ _ _ Hs He) as [He0|[k ->]].
    + destruct (IH He0) as [k Hin]. exists k. apply in_or_app. left. exact Hin.
    + exists k. apply in_or_app. right. left. reflexivity.
Qed.

Lemma unjoined_rooms_ignored : forall tr s a,
  exec tr = Some s -> (forall k, ~ In (LCall k KJoin a) tr) -> srv s = SIdle ->
  step s (LDeliver (PresAvail a)) = Some s /\ step s (LDeliver (PresUnavail a)) = Some s /\
  step s (LDeliver (PresBad a)) = Some s.
Proof.
  intros tr s a H Hno Hs.
  assert (He : ch_entry (chans s a) = false).
  { destruct (ch_entry (chans s a)) eqn:E; [|reflexivity].
    destruct (entry_needs_join_call tr s a H E) as [k Hin]. exfalso. exact (Hno k Hin). }
  cbn [step]. rewrite Hs. cbn [deliver]. rewrite He. repeat split; reflexivity.
Qed.

(* ... whereas the same undecodable payload from a managed address is an error
   that ends the Serve loop *)
Lemma managed_bad_payload_ends_serve : forall s a,
  srv s = SIdle -> ch_entry (chans s a) = true ->
  exists s', step s (LDeliver (PresBad a)) = Some s' /\ srv s' = SDead /\
             forall st, step s' (LDeliver st) = None.
Proof.
  intros s a Hs He. eexists. cbn [step]. rewrite Hs. cbn [deliver]. rewrite He.
  split; [reflexivity|]. split; [reflexivity|]. intros st. reflexivity.
Qed.

(* ---------------------------------------------------------------- replies are honoured *)

Lemma error_reply_returned : forall s k c,
  srv s = SIdle -> calls s k = Some c -> c_phase c = PWait -> c_done c = false -> c_replied c = false ->
  exists s1 s2,
    step s (LDeliver (ErrReply k)) = Some s1 /\
    step s1 (LRet k OStanzaErr) = Some s2 /\
    step s1 (LRet k OCtxErr) = None /\
    (c_kind c = KJoin -> step s1 (LRet k OSuccess) = None).
Proof.
  intros s k c Hs Hc Hp Hd Hr.
  eexists. eexists. split; [|split; [|split]].
  - cbn [step]. rewrite Hs. cbn [deliver]. rewrite Hc, Hp, Hd, Hr. cbn [negb andb]. reflexivity.
  - cbn [step]. simp_state. rewrite Nat.eqb_refl. unfold ret. simp_state. rewrite Hp. cbn [serve_eqb]. rewrite Nat.eqb_refl.
    reflexivity.
  - cbn [step]. simp_state. rewrite Nat.eqb_refl. unfold ret. simp_state. rewrite Hd. reflexivity.
  - intros Hk. cbn [step]. simp_state. rewrite Nat.eqb_refl. unfold ret. simp_state. rewrite Hp, Hk. reflexivity.
Qed.

Lemma self_presence_completes_join : forall s k c a rest,
  srv s = SIdle -> ch_entry (chans s a) = true -> ch_jq (chans s a) = k :: rest ->
  calls s k = Some c -> c_kind c = KJoin -> c_addr c = a -> c_phase c = PWait -> c_done c = false ->
  exists s1 s2,
    step s (LDeliver (PresAvail a)) = Some s1 /\
    step s1 (LRet k OSuccess) = Some s2 /\
    ch_joined (chans s2 a) = true /\
    step s1 (LRet k OCtxErr) = None /\
    step s1 (LRet k OStanzaErr) = None.
Proof.
  intros s k c a rest Hs He Hq Hc Hk Ha Hp Hd.
  eexists. eexists. split; [|split; [|split; [|split]]].
  - cbn [step]. rewrite Hs. cbn [deliver]. rewrite He. rewrite take_unfold, Hq. reflexivity.
  - cbn [step]. simp_state. rewrite Hc. unfold ret. simp_state. rewrite Hp, Hk. cbn [serve_eqb]. rewrite Nat.eqb_refl.
    reflexivity.
  - simp_state. rewrite Ha, Nat.eqb_refl. reflexivity.
  - cbn [step]. simp_state. rewrite Hc. unfold ret. rewrite Hd. reflexivity.
  - cbn [step]. simp_state. rewrite Hc. unfold ret. rewrite Hp. reflexivity.
Qed.

Lemma unavailable_completes_leave : forall s k c a,
  srv s = SIdle -> ch_entry (chans s a) = true ->
  calls s k = Some c -> c_kind c = KLeave -> c_addr c = a -> c_phase c = PWait ->
  exists s1 s2,
    step s (LDeliver (PresUnavail a)) = Some s1 /\
    ch_joined (chans s1 a) = false /\ ch_entry (chans s1 a) = false /\
    step s1 (LRet k OSuccess) = Some s2.
Proof.
  intros s k c a Hs He Hc Hk Ha Hp.
  eexists. eexists. split; [|split; [|split]].
  - cbn [step]. rewrite Hs. cbn [deliver]. rewrite He. reflexivity.
  - simp_state. rewrite Nat.eqb_refl. reflexivity.
  - simp_state. rewrite Nat.eqb_refl. reflexivity.
  - cbn [step]. simp_state. rewrite Hc. unfold ret. simp_state. rewrite Hp, Hk, Ha, Nat.eqb_refl. simp_state. reflexivity.
Qed.
(* ---------------------------------------------------------------- one call in flight per channel *)

Lemma idle_spec : forall s a k c, idle s a = true -> k < ncalls s -> calls s k = Some c -> c_addr c = a ->
  is_ret (c_phase c) = true.
Proof.
  intros s a k c Hi Hk Hc Ha. unfold idle in Hi. rewrite forallb_forall in Hi.
  specialize (Hi k). rewrite Hc in Hi. rewrite Ha, Nat.eqb_refl in Hi. cbn in Hi.
  apply Hi. apply in_seq. lia.
Qed.

Definition uniq (s : state) : Prop :=
  forall k1 k2 c1 c2, calls s k1 = Some c1 -> calls s k2 = Some c2 -> c_addr c1 = c_addr c2 ->
  is_ret (c_phase c1) = false -> is_ret (c_phase c2) = false -> k1 = k2.

Lemma step_inflight_back : forall s l s' k c', wf s ->
  step s l = Some s' -> calls s' k = Some c' -> is_ret (c_phase c') = false ->
  (exists c, calls s k = Some c /\ c_addr c = c_addr c' /\ is_ret (c_phase c) = false) \/
  (k = ncalls s /\ idle s (c_addr c') = true).
Proof.
  intros s l s' k c' W H Hc Hp.
  destruct l as [k0 kd a|k0|k0|k0 o|k0|st|  |k0|a b]; step_leaves H; simp_state; rewrite ?take_calls in Hc;
    try solve [left; exists c'; auto];
    try solve [eqb_cases; subst; same_call; simp_state; try discriminate;
               first [ left; eexists; split; [eassumption|split; [reflexivity|]];
                       repeat match goal with E : c_phase ?c = _ |- context [c_phase ?c] => rewrite E end; first [reflexivity|assumption]
                     | left; exists c'; auto ]].
  all: destruct (Nat.eqb k (ncalls s)) eqn:Ekk;
    [apply Nat.eqb_eq in Ekk; subst k; injection Hc as <-; right; simp_state;
     split; [reflexivity|exact (andb_true_r' _ _ E)]
    |left; exists c'; auto].
Qed.

Lemma uniq_step : forall s l s', wf s -> uniq s -> step s l = Some s' -> uniq s'.
Proof.
  intros s l s' W U H k1 k2 c1 c2 H1 H2 Ha P1 P2.
  destruct (step_inflight_back _ _ _ _ _ W H H1 P1) as [[d1 [D1 [A1 Q1]]]|[N1 I1]];
  destruct (step_inflight_back _ _ _ _ _ W H H2 P2) as [[d2 [D2 [A2 Q2]]]|[N2 I2]].
  - apply (U k1 k2 d1 d2 D1 D2); [congruence|assumption|assumption].
  - exfalso. rewrite <- Ha in I2. rewrite <- A1 in I2.
    pose proof (idle_spec _ _ _ _ I2 (wf_bound _ W _ _ D1) D1 eq_refl) as R. congruence.
  - exfalso. rewrite Ha in I1. rewrite <- A2 in I1.
    pose proof (idle_spec _ _ _ _ I1 (wf_bound _ W _ _ D2) D2 eq_refl) as R. congruence.
  - congruence.
Qed.

Lemma uniq_exec : forall tr s, exec tr = Some s -> uniq s.
Proof.
  intros tr s H. unfold exec in H.
  assert (G : wf s /\ uniq s).
  { apply (invariant_run _ _ step (fun s => wf s /\ uniq s) init) with (tr := tr); [| |exact H].
    - split; [exact wf_init|]. intros k1 k2 c1 c2 H1. discriminate H1.
    - intros s0 l s1 [W U] Hs. split; [exact (wf_step _ _ _ W Hs)|exact (uniq_step _ _ _ W U Hs)]. }
  exact (proj2 G).
Qed.

(* the departure notification is kept for the waiting Leave: no step other than
   the return of that call consumes it *)
Lemma departure_kept : forall s l s' k c,
  wf s -> uniq s -> step s l = Some s' ->
  calls s k = Some c -> c_kind c = KLeave -> c_phase c = PWait -> ch_dep (chans s (c_addr c)) = true ->
  (forall o, l <> LRet k o) ->
  ch_dep (chans s' (c_addr c)) = true /\
  exists c', calls s' k = Some c' /\ c_kind c' = KLeave /\ c_phase c' = PWait /\ c_addr c' = c_addr c.
Proof.
  intros s l s' k c W U H Hc Hk Hp Hd Hl.
  destruct l as [k0 kd a|k0|k0|k0 o|k0|st|  |k0|a b]; step_leaves H; simp_state;
    rewrite ?take_dep, ?take_calls.
  all: try solve [exfalso; eapply Hl; reflexivity].
  all: try solve [split;
    [ eqb_cases; subst; simp_state; try assumption; congruence
    | eqb_cases; subst; same_call; simp_state; try congruence;
      eexists; (split; [first [reflexivity|eassumption]|auto]) ]].
  - (* a join starts *)
    assert (Hne : Nat.eqb k (ncalls s) = false) by (apply Nat.eqb_neq; apply (wf_bound _ W) in Hc; lia).
    rewrite Hne. split; [|exists c; auto].
    destruct (Nat.eqb (c_addr c) a) eqn:Ea; [|exact Hd]. apply Nat.eqb_eq in Ea. subst a. simp_state. exact Hd.
  - (* a leave starts on the same channel: impossible, k is in flight *)
    assert (Hne : Nat.eqb k (ncalls s) = false) by (apply Nat.eqb_neq; apply (wf_bound _ W) in Hc; lia).
    rewrite Hne. split; [|exists c; auto].
    destruct (Nat.eqb (c_addr c) a) eqn:Ea; [|exact Hd]. apply Nat.eqb_eq in Ea. subst a. exfalso.
    pose proof (idle_spec _ _ _ _ (andb_true_r' _ _ E) (wf_bound _ W _ _ Hc) Hc eq_refl) as R.
    rewrite Hp in R. discriminate R.
  - (* another Leave takes a notification: it would be in flight on the same channel *)
    destruct (Nat.eqb k k0) eqn:Ek; [apply Nat.eqb_eq in Ek; subst k0; exfalso; eapply Hl; reflexivity|].
    apply Nat.eqb_neq in Ek. split; [|exists c; auto].
    destruct (Nat.eqb (c_addr c) (c_addr c0)) eqn:Ea; [|exact Hd]. apply Nat.eqb_eq in Ea. exfalso. apply Ek.
    apply (U k k0 c c0 Hc E Ea); [rewrite Hp|rewrite E1]; reflexivity.
  - destruct (Nat.eqb k k0) eqn:Ek; [apply Nat.eqb_eq in Ek; subst k0; exfalso; eapply Hl; reflexivity|].
    split; [|exists c; auto].
    destruct (Nat.eqb (c_addr c) (c_addr c0)) eqn:Ea; [|exact Hd]. apply Nat.eqb_eq in Ea. simp_state. rewrite <- Ea. exact Hd.
  - destruct (Nat.eqb k k0) eqn:Ek; [apply Nat.eqb_eq in Ek; subst k0; exfalso; eapply Hl; reflexivity|].
    split; [exact Hd|exists c; auto].
Qed.
(* ---------------------------------------------------------------- a call returns once *)

Lemma ret_permanent_step : forall s l s' k c, wf s ->
  step s l = Some s' -> calls s k = Some c -> is_ret (c_phase c) = true ->
  exists c', calls s' k = Some c' /\ is_ret (c_phase c') = true.
Proof.
  intros s l s' k c W H Hc Hp.
  destruct l as [k0 kd a|k0|k0|k0 o|k0|st|  |k0|a b]; step_leaves H; simp_state; rewrite ?take_calls;
    try solve [exists c; auto];
    try solve [eqb_cases; subst; same_call; simp_state;
               repeat match goal with E : c_phase ?c = _, P : is_ret (c_phase ?c) = true |- _ => rewrite E in P; try discriminate P end;
               eexists; (split; [first [reflexivity|eassumption]|]); simp_state; first [reflexivity|assumption]].
  all: destruct (Nat.eqb k (ncalls s)) eqn:Ekk;
    [apply Nat.eqb_eq in Ekk; subst k; apply (wf_bound _ W) in Hc; lia|exists c; auto].
Qed.

Lemma ret_permanent_run : forall tr s s' k c, wf s ->
  run step s tr = Some s' -> calls s k = Some c -> is_ret (c_phase c) = true ->
  exists c', calls s' k = Some c' /\ is_ret (c_phase c') = true.
Proof.
  induction tr as [|l tr IH]; intros s s' k c W H Hc Hp; cbn [run] in H.
  - injection H as <-. exists c. auto.
  - destruct (step s l) as [s1|] eqn:Hs; [|discriminate H].
    destruct (ret_permanent_step _ _ _ _ _ W Hs Hc Hp) as [c1 [Hc1 Hp1]].
    exact (IH s1 s' k c1 (wf_step _ _ _ W Hs) H Hc1 Hp1).
Qed.

Lemma ret_sets_phase : forall s k o s', step s (LRet k o) = Some s' ->
  exists c', calls s' k = Some c' /\ is_ret (c_phase c') = true.
Proof.
  intros s k o s' H. step_leaves H; simp_state; rewrite Nat.eqb_refl; eexists; (split; [reflexivity|reflexivity]).
Qed.

Lemma ret_needs_unreturned : forall s k o s' c, step s (LRet k o) = Some s' -> calls s k = Some c ->
  is_ret (c_phase c) = false.
Proof.
  intros s k o s' c H Hc. cbn [step] in H. rewrite Hc in H. unfold ret in H.
  destruct (c_phase c); try reflexivity. destruct o; try discriminate H. destruct (c_done c); discriminate H.
Qed.

Lemma returns_once : forall t1 t2 k o1 o2 s,
  exec (t1 ++ LRet k o1 :: t2 ++ [LRet k o2]) = Some s -> False.
Proof.
  intros t1 t2 k o1 o2 s H. unfold exec in H.
  apply run_app_some in H. destruct H as [s1 [H1 H2]].
  cbn [run] in H2. destruct (step s1 (LRet k o1)) as [s2|] eqn:Hs; [|discriminate H2].
  apply run_snoc_some in H2. destruct H2 as [s3 [H3 H4]].
  pose proof (wf_exec t1 s1 H1) as W1. pose proof (wf_step _ _ _ W1 Hs) as W2.
  destruct (ret_sets_phase _ _ _ _ Hs) as [c2 [Hc2 Hp2]].
  destruct (ret_permanent_run _ _ _ _ _ W2 H3 Hc2 Hp2) as [c3 [Hc3 Hp3]].
  pose proof (ret_needs_unreturned _ _ _ _ _ H4 Hc3) as Hn. congruence.
Qed.

(* ---------------------------------------------------------------- statements as used in Properties.v *)

Lemma context_error_otherwise : forall tr s k o,
  exec (tr ++ [LRet k o]) = Some s ->
  (o = OSuccess \/ o = OStanzaErr \/ o = OCtxErr) /\
  (o = OCtxErr -> In (LCancel k) tr) /\
  (forall o', ~ In (LRet k o') tr).
Proof.
  intros tr s k o H. split; [exact (outcomes_are_the_three tr s k o H)|]. split.
  - intros ->. exact (ctx_error_only_if_cancelled tr s k H).
  - intros o' Hin. apply in_split in Hin. destruct Hin as [t1 [t2 ->]].
    rewrite <- app_assoc in H. cbn [app] in H. exact (returns_once t1 t2 k o' o s H).
Qed.

Lemma error_reply_returned_r : forall tr s k c,
  exec tr = Some s ->
  srv s = SIdle -> calls s k = Some c -> c_phase c = PWait -> c_done c = false -> c_replied c = false ->
  exists s1 s2,
    step s (LDeliver (ErrReply k)) = Some s1 /\
    step s1 (LRet k OStanzaErr) = Some s2 /\
    step s1 (LRet k OCtxErr) = None /\
    (c_kind c = KJoin -> step s1 (LRet k OSuccess) = None).
Proof. intros tr s k c _. exact (error_reply_returned s k c). Qed.

Lemma self_presence_completes_join_r : forall tr s k c a rest,
  exec tr = Some s ->
  srv s = SIdle -> ch_entry (chans s a) = true -> ch_jq (chans s a) = k :: rest ->
  calls s k = Some c -> c_kind c = KJoin -> c_addr c = a -> c_phase c = PWait -> c_done c = false ->
  exists s1 s2,
    step s (LDeliver (PresAvail a)) = Some s1 /\
    step s1 (LRet k OSuccess) = Some s2 /\
    ch_joined (chans s2 a) = true /\
    step s1 (LRet k OCtxErr) = None /\
    step s1 (LRet k OStanzaErr) = None.
Proof. intros tr s k c a rest _. exact (self_presence_completes_join s k c a rest). Qed.

Lemma stale_context_skipped_r : forall tr s k0 c0 k c a rest,
  exec tr = Some s ->
  srv s = SIdle -> ch_entry (chans s a) = true -> ch_jq (chans s a) = k0 :: k :: rest ->
  calls s k0 = Some c0 -> c_done c0 = true -> c_addr c0 = a ->
  calls s k = Some c -> c_kind c = KJoin -> c_addr c = a -> c_phase c = PQueued ->
  k <> k0 -> mem k rest = false ->
  exists s1 s2 s3 s4,
    step s (LDeliver (PresAvail a)) = Some s1 /\ step s1 (LPushed k) = Some s2 /\
    step s2 LSeeDone = Some s3 /\ step s3 (LRet k OSuccess) = Some s4 /\
    ch_joined (chans s4 a) = true /\ cb_pres s4 = cb_pres s.
Proof.
  intros tr s k0 c0 k c a rest _ Hs He Hq Hc0 Hd0 Ha0 Hc Hk Ha Hp Hne Hm.
  assert (E1 : Nat.eqb k0 k = false) by (apply Nat.eqb_neq; auto).
  do 4 eexists. split; [|split; [|split; [|split; [|split]]]].
  - cbn [step]. rewrite Hs. cbn [deliver]. rewrite He. rewrite take_unfold, Hq. reflexivity.
  - cbn [step]. simp_state. rewrite Hc, Hk, Hp, Ha, Nat.eqb_refl. simp_state. cbn [tl]. rewrite Hm. reflexivity.
  - cbn [step]. simp_state. rewrite E1, Hc0, Hd0, Ha0. rewrite take_unfold. simp_state. rewrite Nat.eqb_refl. simp_state. reflexivity.
  - cbn [step]. simp_state. rewrite Nat.eqb_refl. unfold ret. simp_state. cbn [serve_eqb]. rewrite Hk, Nat.eqb_refl. reflexivity.
  - simp_state. rewrite Ha, Nat.eqb_refl. reflexivity.
  - reflexivity.
Qed.

Lemma unavailable_completes_leave_r : forall tr s k c a,
  exec tr = Some s ->
  srv s = SIdle -> ch_entry (chans s a) = true ->
  calls s k = Some c -> c_kind c = KLeave -> c_addr c = a -> c_phase c = PWait ->
  exists s1 s2,
    step s (LDeliver (PresUnavail a)) = Some s1 /\
    ch_joined (chans s1 a) = false /\ ch_entry (chans s1 a) = false /\
    step s1 (LRet k OSuccess) = Some s2.
Proof. intros tr s k c a _. exact (unavailable_completes_leave s k c a). Qed.

Lemma departure_kept_r : forall tr s l s' k c,
  exec tr = Some s -> step s l = Some s' ->
  calls s k = Some c -> c_kind c = KLeave -> c_phase c = PWait -> ch_dep (chans s (c_addr c)) = true ->
  (forall o, l <> LRet k o) ->
  ch_dep (chans s' (c_addr c)) = true /\
  exists c', calls s' k = Some c' /\ c_kind c' = KLeave /\ c_phase c' = PWait /\ c_addr c' = c_addr c.
Proof.
  intros tr s l s' k c H. exact (departure_kept s l s' k c (wf_exec tr s H) (uniq_exec tr s H)).
Qed.

(* ---------------------------------------------------------------- tables read from the source *)

(* The model's ch_jq (a buffer of one join context, further publishers blocked)
   and ch_dep (one kept departure notification) are the channels the code makes;
   HandleClient registers the handler for exactly the stanzas [deliver] routes to
   it; Joined returns the membership flag. Regenerated from muc/muc.go and
   muc/room.go on every run (gen/Muc.v): a source edit breaks these. *)
Lemma tbl_join_capacity : muc_join_capacity = 1.
Proof. vm_compute. reflexivity. Qed.
Lemma tbl_depart_capacity : muc_depart_capacity = 1.
Proof. vm_compute. reflexivity. Qed.
Lemma tbl_registrations :
  muc_handles_available_presence && muc_handles_unavailable_presence && muc_handles_normal_message = true /\
  muc_registrations = 3.
Proof. vm_compute. split; reflexivity. Qed.
(* every registration is for the muc#user x payload and nothing wider: the
   multiplexer calls the client's handler once per muc#user x child ([is_userx])
   and never for an x of another namespace *)
Lemma tbl_patterns :
  muc_ns_user = str "http://jabber.org/protocol/muc#user" /\
  muc_patterns =
    [(str "Presence", str "AvailablePresence", muc_ns_user, str "x");
     (str "Presence", str "UnavailablePresence", muc_ns_user, str "x");
     (str "Message", str "NormalMessage", muc_ns_user, str "x")].
Proof. vm_compute. split; reflexivity. Qed.
(* HandlePresence consults the table and drops the presence of an address that
   is not managed BEFORE it decodes the payload ([deliver] on [PresBad]) *)
Lemma tbl_lookup_before_decode : muc_presence_lookup_before_decode = true.
Proof. vm_compute. reflexivity. Qed.
Lemma tbl_joined_returns_flag : muc_joined_returns_flag = true.
Proof. vm_compute. reflexivity. Qed.
