(* C18/Proofs.v — lemmas about the MUC client model. *)
From Coq Require Import List Bool Arith Lia.
Import ListNotations.
From XV Require Import lib.Bytes lib.Lts gen.Muc C18.Model.

(* ---------------------------------------------------------------- tactics *)

(* Break a hypothesis [step s l = Some s'] into its leaves: one per branch of
   the step function that accepts the label. *)
Ltac break_match_hyp H :=
  match type of H with
  | context [match ?x with _ => _ end] =>
      let E := fresh "E" in destruct x eqn:E; try discriminate H
  | context [if ?x then _ else _] =>
      let E := fresh "E" in destruct x eqn:E; try discriminate H
  end.

Ltac step_leaves H :=
  unfold step, ret, deliver in H;
  repeat (break_match_hyp H);
  try (injection H as H); try subst.

Ltac simp_state :=
  cbn [calls ncalls chans nchans table srv cb_pres cb_inv set_call add_call set_chan add_chan set_table set_srv log_pres log_invs take
       c_kind c_chan c_phase c_done c_replied with_phase with_done with_replied returned
       ch_made ch_addr ch_joined ch_jq ch_dep with_joined with_jq with_dep departed] in *.

(* ---------------------------------------------------------------- basics *)

Lemma eqb_refl' : forall n, Nat.eqb n n = true.
Proof. intro n. apply Nat.eqb_refl. Qed.

Lemma serve_eqb_eq : forall x y, serve_eqb x y = true -> x = y.
Proof.
  intros [|a|a|] [|b|b|] H; cbn in H; try discriminate; try reflexivity;
    apply Nat.eqb_eq in H; subst; reflexivity.
Qed.

Lemma mem_In : forall k l, mem k l = true <-> In k l.
Proof.
  intros k l. unfold mem. rewrite existsb_exists. split.
  - intros [x [Hin Hx]]. apply Nat.eqb_eq in Hx. subst. exact Hin.
  - intros Hin. exists k. split; [exact Hin|apply Nat.eqb_refl].
Qed.

Lemma In_remove_id : forall k x l, In x (remove_id k l) -> In x l.
Proof.
  intros k x l. induction l as [|y r IH]; cbn [remove_id]; intro H; [exact H|].
  destruct (Nat.eqb y k); [right; exact H|].
  destruct H as [H|H]; [left; exact H|right; apply IH; exact H].
Qed.

(* the model's own view of [take] *)
Lemma take_unfold : forall s a,
  take s a = match ch_jq (chans s a) with
             | [] => log_pres (set_srv s SIdle) (ch_addr (chans s a))
             | k :: rest => set_srv (set_chan s a (with_jq (chans s a) rest)) (SOffer k)
             end.
Proof. reflexivity. Qed.

(* ---------------------------------------------------------------- invitations *)

(* what HandleInvite is called with, read off the history: per delivered message
   the calls of [msg_calls] *)
Definition delivered_of (tr : list label) : list nat :=
  flat_map (fun l => match l with LDeliver (Msg cs) => msg_calls cs | _ => [] end) tr.

(* the property's side: every invite element of every delivered message, once, in order *)
Definition invites_in (cs : list child) : list nat :=
  flat_map (fun c => match c with CInvite i => [i] | _ => [] end) cs.
Definition invites_of (tr : list label) : list nat :=
  flat_map (fun l => match l with LDeliver (Msg cs) => invites_in cs | _ => [] end) tr.

Lemma take_cb_inv : forall s a, cb_inv (take s a) = cb_inv s.
Proof. intros s a. unfold take. destruct (ch_jq (chans s a)); reflexivity. Qed.

Lemma step_cb_inv : forall s l s', step s l = Some s' ->
  cb_inv s' = cb_inv s ++ match l with LDeliver (Msg cs) => msg_calls cs | _ => [] end.
Proof.
  intros s l s' H. destruct l as [hn an|k kd a|k|k|k o|k|st|  |k|a b];
    step_leaves H; simp_state; rewrite ?take_cb_inv; rewrite ?app_nil_r; reflexivity.
Qed.

Lemma delivered_of_app : forall a b, delivered_of (a ++ b) = delivered_of a ++ delivered_of b.
Proof. intros a b. unfold delivered_of. apply flat_map_app. Qed.

Lemma invites_exact : forall tr s, exec tr = Some s -> cb_inv s = delivered_of tr.
Proof.
  intros tr s H. unfold exec in H.
  apply (invariant_hist _ _ step (fun h s => cb_inv s = delivered_of h) init) with (tr := tr); [reflexivity| |exact H].
  intros h s0 l s1 _ IH Hs. rewrite (step_cb_inv _ _ _ Hs), IH, delivered_of_app.
  f_equal. cbn. rewrite app_nil_r. reflexivity.
Qed.

(* a message with at most one muc#user payload, whatever else it carries *)
Definition single_payload (cs : list child) : Prop := length (filter is_userx cs) <= 1.

Lemma decoded_no_userx : forall cs acc, filter is_userx cs = [] -> decoded cs acc = acc.
Proof.
  induction cs as [|c r IH]; intros acc H; [reflexivity|].
  destruct c; cbn [filter is_userx] in H; try discriminate H; cbn [decoded]; apply IH; exact H.
Qed.

Lemma invites_in_no_userx : forall cs, filter is_userx cs = [] -> invites_in cs = [].
Proof.
  induction cs as [|c r IH]; intros H; [reflexivity|].
  destruct c; cbn [filter is_userx] in H; try discriminate H; cbn; apply IH; exact H.
Qed.

Lemma invites_in_cons : forall c r,
  invites_in (c :: r) = (match c with CInvite i => [i] | _ => [] end) ++ invites_in r.
Proof. reflexivity. Qed.

Lemma msg_calls_single : forall cs, single_payload cs -> msg_calls cs = invites_in cs.
Proof.
  unfold single_payload, msg_calls. intros cs.
  assert (G : forall acc, length (filter is_userx cs) <= 1 ->
              (filter is_userx cs = [] -> decoded cs acc = acc /\ invites_in cs = []) /\
              (forall c, filter is_userx cs = [c] ->
                 decoded cs acc = (match c with CInvite i => Some i | _ => None end) /\
                 invites_in cs = match c with CInvite i => [i] | _ => [] end)).
  { induction cs as [|c r IH]; intros acc Hl.
    - split; [intros _; split; reflexivity|intros c Hc; discriminate Hc].
    - destruct c; cbn [filter is_userx] in *.
      + (* CInvite *) cbn [length] in Hl. assert (Hr : filter is_userx r = []) by (destruct (filter is_userx r); [reflexivity|cbn in Hl; lia]).
        split; [intros Hc; discriminate Hc|]. intros c Hc. injection Hc as <- _.
        cbn [decoded]. rewrite (decoded_no_userx r _ Hr), invites_in_cons, (invites_in_no_userx r Hr). split; reflexivity.
      + cbn [length] in Hl. assert (Hr : filter is_userx r = []) by (destruct (filter is_userx r); [reflexivity|cbn in Hl; lia]).
        split; [intros Hc; discriminate Hc|]. intros c Hc. injection Hc as <- _.
        cbn [decoded]. rewrite (decoded_no_userx r _ Hr), invites_in_cons, (invites_in_no_userx r Hr). split; reflexivity.
      + cbn [decoded]. rewrite invites_in_cons. cbn [app]. destruct (IH acc Hl) as [I1 I2]. split; [intros Hc; exact (I1 Hc)|intros c Hc; exact (I2 c Hc)].
      + cbn [decoded]. rewrite invites_in_cons. cbn [app]. destruct (IH acc Hl) as [I1 I2]. split; [intros Hc; exact (I1 Hc)|intros c Hc; exact (I2 c Hc)]. }
  intros Hl. destruct (G None Hl) as [G0 G1].
  destruct (filter is_userx cs) as [|c [|c2 r2]] eqn:Ef.
  - destruct (G0 eq_refl) as [-> ->]. reflexivity.
  - destruct (G1 c eq_refl) as [-> ->]. destruct c; reflexivity.
  - cbn in Hl. lia.
Qed.

Lemma invites_once_partial : forall tr s,
  exec tr = Some s ->
  (forall cs, In (LDeliver (Msg cs)) tr -> single_payload cs) ->
  cb_inv s = invites_of tr.
Proof.
  intros tr s H Hs. rewrite (invites_exact tr s H). unfold delivered_of, invites_of.
  clear H. induction tr as [|l tr IH]; [reflexivity|].
  cbn [flat_map]. rewrite IH by (intros cs Hin; apply Hs; right; exact Hin). f_equal.
  destruct l as [| | | | | |st| | |]; try reflexivity. destruct st; try reflexivity.
  apply msg_calls_single. apply Hs. left. reflexivity.
Qed.

(* two muc#user payloads in one message: the handler runs twice and both times
   sees the last one *)
Lemma invites_once_refuted :
  exists tr s, exec tr = Some s /\ cb_inv s <> invites_of tr.
Proof.
  exists [LDeliver (Msg [CInvite 1; CInvite 2])].
  eexists. split; [vm_compute; reflexivity|]. vm_compute. discriminate.
Qed.

(* ---------------------------------------------------------------- well-formedness *)

Ltac eqb_cases :=
  repeat match goal with
  | H : Nat.eqb _ _ = true |- _ => apply Nat.eqb_eq in H
  | H : Nat.eqb _ _ = false |- _ => apply Nat.eqb_neq in H
  | H : context [Nat.eqb ?a ?b] |- _ => let E := fresh "Eq" in destruct (Nat.eqb a b) eqn:E
  | |- context [Nat.eqb ?a ?b] => let E := fresh "Eq" in destruct (Nat.eqb a b) eqn:E
  end.

Record wf (s : state) : Prop := mkwf {
  wf_bound : forall k c, calls s k = Some c -> k < ncalls s;
  wf_jq : forall a k, In k (ch_jq (chans s a)) ->
          exists c, calls s k = Some c /\ c_chan c = a /\ c_kind c = KJoin;
  wf_offer : forall k, srv s = SOffer k ->
          exists c, calls s k = Some c /\ c_kind c = KJoin /\ True }.

Lemma wf_init : wf init.
Proof.
  constructor; cbn; intros; try discriminate; try contradiction.
Qed.

Lemma andb_true_l : forall a b, a && b = true -> a = true.
Proof. intros a b H. apply andb_true_iff in H. tauto. Qed.
Lemma andb_true_r' : forall a b, a && b = true -> b = true.
Proof. intros a b H. apply andb_true_iff in H. tauto. Qed.

(* [take] preserves well-formedness *)
Lemma wf_take : forall s a, wf s -> wf (take s a).
Proof.
  intros s a [W1 W2 W3]. rewrite take_unfold.
  destruct (ch_jq (chans s a)) as [|k rest] eqn:Eq.
  - constructor; simp_state; intros; try discriminate; eauto.
  - constructor; simp_state.
    + exact W1.
    + intros a0 k0 Hin. destruct (Nat.eqb a0 a) eqn:Ea.
      * apply Nat.eqb_eq in Ea. subst a0. simp_state. apply W2. rewrite Eq. right. exact Hin.
      * apply W2. exact Hin.
    + intros k0 Hk. injection Hk as <-.
      destruct (W2 a k) as [c [Hc [Ha Hk]]]; [rewrite Eq; left; reflexivity|].
      exists c. split; [exact Hc|]. split; [exact Hk|exact I].
Qed.
Ltac same_call :=
  repeat match goal with
  | A : calls ?s ?k = Some ?x, B : calls ?s ?k = Some ?y |- _ => rewrite A in B; injection B as B; try subst y; try subst x
  | A : Some _ = Some _ |- _ => injection A as A; subst
  end.

Ltac use_W W2 W3 :=
  repeat match goal with
  | Hin : In ?k (ch_jq (chans ?s ?a)) |- _ =>
      let c := fresh "cj" in let H1 := fresh "Hj" in let H2 := fresh "Hj" in let H3 := fresh "Hj" in
      destruct (W2 a k Hin) as [c [H1 [H2 H3]]]; clear Hin
  | Hs : srv ?s = SOffer ?k |- _ =>
      let c := fresh "co" in let H1 := fresh "Ho" in let H2 := fresh "Ho" in let H3 := fresh "Ho" in
      destruct (W3 k Hs) as [c [H1 [H2 H3]]]; clear Hs
  end.

Ltac absurd_bound W1 :=
  match goal with H : calls ?s (ncalls ?s) = Some _ |- _ => apply W1 in H; lia end.

Ltac fin W1 :=
  simp_state; eqb_cases; subst; simp_state; same_call; simp_state;
  try absurd_bound W1;
  try lia; try discriminate; try congruence; eauto;
  try (eexists; split; [first [reflexivity|eassumption]|]; simp_state; eqb_cases; subst; simp_state;
       try tauto; try congruence; eauto; try (split; congruence); try (split; [congruence|]; simp_state; congruence)).

Ltac wf_fin W1 W2 W3 W4 :=
  constructor; simp_state;
  [ intros kx cx Hc0; eqb_cases; subst; try (injection Hc0 as <-); try lia;
    try (apply W1 in Hc0; lia); try (match goal with E : calls _ _ = Some _ |- _ => apply W1 in E; lia end)
  | intros ax kx Hin0; eqb_cases; subst; simp_state;
    try (match type of Hin0 with In _ [] => destruct Hin0 end);
    try (apply in_app_or in Hin0; destruct Hin0 as [Hin0|[<-|[]]]);
    try (match type of Hin0 with In _ (_ :: remove_id _ _) =>
           match goal with Hs : forall x, In x (_ :: remove_id _ _) -> _ |- _ => apply Hs in Hin0 end end);
    use_W W2 W3; fin W1
  | intros kx Hs0; try discriminate Hs0; try congruence; try (injection Hs0 as <-); use_W W2 W3; fin W1 ].

Lemma wf_step : forall s l s', wf s -> step s l = Some s' -> wf s'.
Proof.
  intros s l s' W H.
  destruct l as [hn an|k kd a|k|k|k o|k|st|  |k|a b]; step_leaves H; try exact W;
  repeat match goal with Hq : serve_eqb _ _ = true |- _ => apply serve_eqb_eq in Hq end;
  pose proof W as [W1 W2 W3]; pose proof I as W4;
  try (apply wf_take; assumption);
  try (match goal with Hs : srv s = SOffer ?k |- wf (take _ _) =>
         destruct (W3 k Hs) as [co [Ho1 [Ho2 Ho3]]]; same_call; apply wf_take; assumption end);
  try (match goal with E4 : ch_jq (chans s ?a) = ?c0 :: ?l |- _ =>
         assert (Hsub : forall x, In x (c0 :: remove_id k l) -> In x (ch_jq (chans s a)))
           by (intros x [Hx|Hx]; rewrite E4; [left; exact Hx|right; apply In_remove_id in Hx; exact Hx]) end).
  all: try (solve [wf_fin W1 W2 W3 W4]).
  all: wf_fin W1 W2 W3 W4.
Qed.

Lemma wf_exec : forall tr s, exec tr = Some s -> wf s.
Proof.
  intros tr s H. apply (invariant_run _ _ step wf init wf_init wf_step tr s H).
Qed.
(* ---------------------------------------------------------------- channels and the routing table *)

(* Channels are made in order; one that is not made yet is untouched; calls and
   table entries refer to made channels; an entry for address a is a channel of
   address a; a made channel keeps its address. *)
Record wfc (s : state) : Prop := mkwfc {
  wc_made : forall h, ch_made (chans s h) = true -> h < nchans s;
  wc_fresh : forall h, ch_made (chans s h) = false -> chans s h = chan0;
  wc_call : forall k c, calls s k = Some c -> ch_made (chans s (c_chan c)) = true;
  wc_table : forall a h, table s a = Some h -> ch_made (chans s h) = true /\ ch_addr (chans s h) = a }.

Lemma wfc_init : wfc init.
Proof. constructor; cbn; intros; try discriminate; try reflexivity. Qed.

Lemma take_chan : forall s h x,
  chans (take s h) x = chans s x \/
  (x = h /\ exists k rest, ch_jq (chans s h) = k :: rest /\ chans (take s h) x = with_jq (chans s h) rest).
Proof.
  intros s h x. rewrite take_unfold. destruct (ch_jq (chans s h)) as [|k rest] eqn:Eq; simp_state; [left; reflexivity|].
  destruct (Nat.eqb x h) eqn:E; [|left; reflexivity]. apply Nat.eqb_eq in E. right. split; [exact E|].
  exists k, rest. split; reflexivity.
Qed.

Lemma take_nchans : forall s h, nchans (take s h) = nchans s.
Proof. intros s h. rewrite take_unfold. destruct (ch_jq (chans s h)); reflexivity. Qed.
Lemma take_table : forall s h, table (take s h) = table s.
Proof. intros s h. rewrite take_unfold. destruct (ch_jq (chans s h)); reflexivity. Qed.
Lemma take_calls : forall s a, calls (take s a) = calls s.
Proof. intros s a. rewrite take_unfold. destruct (ch_jq (chans s a)); reflexivity. Qed.

Lemma wfc_take : forall s h, wfc s -> wfc (take s h).
Proof.
  intros s h [C1 C2 C3 C4].
  assert (G : forall x, ch_made (chans (take s h) x) = ch_made (chans s x) /\ ch_addr (chans (take s h) x) = ch_addr (chans s x) /\
                        (ch_made (chans s x) = false -> chans (take s h) x = chans s x)).
  { intros x. destruct (take_chan s h x) as [->|[-> [k [rest [Eq ->]]]]]; [auto|].
    split; [reflexivity|]. split; [reflexivity|]. intros Hm. rewrite (C2 h Hm) in Eq. discriminate Eq. }
  constructor; rewrite ?take_nchans, ?take_table, ?take_calls.
  - intros x Hx. destruct (G x) as [G1 _]. rewrite G1 in Hx. exact (C1 x Hx).
  - intros x Hx. destruct (G x) as [G1 [_ G3]]. rewrite G1 in Hx. rewrite (G3 Hx). exact (C2 x Hx).
  - intros k c Hc. destruct (G (c_chan c)) as [G1 _]. rewrite G1. exact (C3 k c Hc).
  - intros a x Ht. destruct (G x) as [G1 [G2 _]]. rewrite G1, G2. exact (C4 a x Ht).
Qed.

Lemma wfc_set_srv : forall s v, wfc s -> wfc (set_srv s v).
Proof. intros s v [C1 C2 C3 C4]. constructor; assumption. Qed.
Lemma wfc_log_pres : forall s a, wfc s -> wfc (log_pres s a).
Proof. intros s a [C1 C2 C3 C4]. constructor; assumption. Qed.
Lemma wfc_log_invs : forall s l, wfc s -> wfc (log_invs s l).
Proof. intros s l [C1 C2 C3 C4]. constructor; assumption. Qed.

Lemma wfc_set_chan : forall s h c, wfc s ->
  ch_made (chans s h) = true -> ch_made c = true -> ch_addr c = ch_addr (chans s h) -> wfc (set_chan s h c).
Proof.
  intros s h c [C1 C2 C3 C4] Hm Hc Ha. constructor; simp_state.
  - intros x Hx. destruct (Nat.eqb x h) eqn:E; [apply Nat.eqb_eq in E; subst x; exact (C1 h Hm)|exact (C1 x Hx)].
  - intros x Hx. destruct (Nat.eqb x h) eqn:E; [congruence|exact (C2 x Hx)].
  - intros k c0 Hc0. destruct (Nat.eqb (c_chan c0) h) eqn:E; [exact Hc|exact (C3 k c0 Hc0)].
  - intros a x Ht. destruct (Nat.eqb x h) eqn:E.
    + apply Nat.eqb_eq in E. subst x. split; [exact Hc|]. rewrite Ha. exact (proj2 (C4 a h Ht)).
    + exact (C4 a x Ht).
Qed.

Lemma wfc_set_call : forall s k c, wfc s -> ch_made (chans s (c_chan c)) = true -> wfc (set_call s k c).
Proof.
  intros s k c [C1 C2 C3 C4] Hm. constructor; simp_state; try assumption.
  intros k0 c0 Hc0. destruct (Nat.eqb k0 k); [injection Hc0 as <-; exact Hm|exact (C3 k0 c0 Hc0)].
Qed.

Lemma wfc_add_call : forall s c, wfc s -> ch_made (chans s (c_chan c)) = true -> wfc (add_call s c).
Proof.
  intros s c [C1 C2 C3 C4] Hm. constructor; simp_state; try assumption.
  intros k0 c0 Hc0. destruct (Nat.eqb k0 (ncalls s)); [injection Hc0 as <-; exact Hm|exact (C3 k0 c0 Hc0)].
Qed.

Lemma wfc_set_table : forall s a v, wfc s ->
  (forall h, v = Some h -> ch_made (chans s h) = true /\ ch_addr (chans s h) = a) -> wfc (set_table s a v).
Proof.
  intros s a v [C1 C2 C3 C4] Hv. constructor; simp_state; try assumption.
  intros a0 x Ht. destruct (Nat.eqb a0 a) eqn:E; [apply Nat.eqb_eq in E; subst a0; exact (Hv x Ht)|exact (C4 a0 x Ht)].
Qed.

Lemma wfc_new : forall s a, wfc s -> wfc (set_table (add_chan s (mkchan true a false [] false)) a (Some (nchans s))).
Proof.
  intros s a [C1 C2 C3 C4].
  assert (Hf : ch_made (chans s (nchans s)) = false).
  { destruct (ch_made (chans s (nchans s))) eqn:E; [|reflexivity]. apply C1 in E. lia. }
  constructor; simp_state.
  - intros x Hx. destruct (Nat.eqb x (nchans s)) eqn:E; [apply Nat.eqb_eq in E; lia|]. apply C1 in Hx. lia.
  - intros x Hx. destruct (Nat.eqb x (nchans s)) eqn:E; [discriminate Hx|exact (C2 x Hx)].
  - intros k c Hc. destruct (Nat.eqb (c_chan c) (nchans s)) eqn:E; [reflexivity|exact (C3 k c Hc)].
  - intros a0 x Ht. destruct (Nat.eqb a0 a) eqn:E.
    + apply Nat.eqb_eq in E. subst a0. injection Ht as <-. rewrite Nat.eqb_refl. split; reflexivity.
    + destruct (Nat.eqb x (nchans s)) eqn:Ex; [|exact (C4 a0 x Ht)].
      apply Nat.eqb_eq in Ex. subst x. apply C4 in Ht. rewrite Hf in Ht. destruct Ht as [Ht _]. discriminate Ht.
Qed.

Lemma wfc_step : forall s l s', wf s -> wfc s -> step s l = Some s' -> wfc s'.
Proof.
  intros s l s' W C H.
  destruct l as [hn an|k kd a|k|k|k o|k|st|  |k|a b]; step_leaves H; try exact C;
  try (apply wfc_take; assumption).
  all: repeat match goal with
       | C0 : wfc ?s0, E : calls ?s0 ?k = Some ?c |- _ =>
           lazymatch goal with
           | _ : ch_made (chans s0 (c_chan c)) = true |- _ => fail
           | _ => pose proof (wc_call _ C0 _ _ E)
           end
       | C0 : wfc ?s0, E : table ?s0 ?a = Some ?h |- _ =>
           lazymatch goal with
           | _ : ch_made (chans s0 h) = true /\ _ |- _ => fail
           | _ => pose proof (wc_table _ C0 _ _ E)
           end
       end.
  all: try match goal with
       | E : (_ =? _) && negb _ = true |- wfc (set_table (add_chan _ _) _ _) =>
           let Eh := fresh in pose proof (andb_true_l _ _ E) as Eh; apply Nat.eqb_eq in Eh; subst; apply wfc_new; exact C
       | Em : ch_made _ = true |- wfc (set_table (add_call _ _) _ _) =>
           apply wfc_set_table;
           [ apply wfc_add_call; [exact C|exact Em]
           | let h := fresh in let Hh := fresh in intros h Hh; injection Hh as <-; split; [exact Em|reflexivity] ]
       | Ht : ch_made _ = true /\ _ |- wfc (set_chan (set_table _ _ None) _ _) =>
           destruct Ht as [? ?]; apply wfc_set_chan; simp_state; auto;
           apply wfc_set_table; [exact C|]; let h := fresh in let Hh := fresh in intros h Hh; discriminate Hh
       end.
  all: repeat first
       [ exact C
       | apply wfc_set_srv | apply wfc_log_invs | apply wfc_log_pres
       | apply wfc_set_call | apply wfc_add_call | apply wfc_set_chan ];
       simp_state; rewrite ?Nat.eqb_refl; simp_state; auto.
Qed.

Lemma wfc_exec : forall tr s, exec tr = Some s -> wfc s.
Proof.
  intros tr s H. unfold exec in H.
  assert (G : wf s /\ wfc s).
  { apply (invariant_run _ _ step (fun s => wf s /\ wfc s) init) with (tr := tr); [| |exact H].
    - split; [exact wf_init|exact wfc_init].
    - intros s0 l s1 [W C] Hs. split; [exact (wf_step _ _ _ W Hs)|exact (wfc_step _ _ _ W C Hs)]. }
  exact (proj2 G).
Qed.

(* ---------------------------------------------------------------- membership *)

(* The property's membership window, read off a history alone. The history also
   tells which Channel has which address (LNew) and which Channel is registered
   for an address (LNew, LCall _ KJoin _: last wins; the unavailable presence
   removes the entry).
   [strict = true], the property: a Channel is a member from the return of a
   successful join on it until the unavailable presence of ITS ADDRESS is handled.
   [strict = false], the code: ... until the unavailable presence of its address
   is handled WHILE IT IS THE REGISTERED Channel (a Channel that another one has
   replaced in the table does not see it), or a Leave on it returns the room's
   error (kept because the test suite demands it). *)
Record mspec := mkms {
  ms_call : cid -> option (kind * chid); ms_addr : chid -> addr;
  ms_table : addr -> option chid; ms_mem : chid -> bool }.

Definition ms0 : mspec := mkms (fun _ => None) (fun _ => 0) (fun _ => None) (fun _ => false).

Definition fset {A : Type} (f : nat -> A) (x : nat) (v : A) : nat -> A :=
  fun y => if Nat.eqb y x then v else f y.

Definition mstep (strict : bool) (m : mspec) (l : label) : mspec :=
  match l with
  | LNew h a => mkms (ms_call m) (fset (ms_addr m) h a) (fset (ms_table m) a (Some h)) (ms_mem m)
  | LCall k kd h =>
      mkms (fset (ms_call m) k (Some (kd, h))) (ms_addr m)
           (match kd with
            | KJoin => fset (ms_table m) (ms_addr m h) (Some h)
            | KLeave => ms_table m
            end) (ms_mem m)
  | LRet k OSuccess =>
      match ms_call m k with
      | Some (KJoin, h) => mkms (ms_call m) (ms_addr m) (ms_table m) (fset (ms_mem m) h true)
      | _ => m
      end
  | LRet k OStanzaErr =>
      if strict then m else
      match ms_call m k with
      | Some (KLeave, h) => mkms (ms_call m) (ms_addr m) (ms_table m) (fset (ms_mem m) h false)
      | _ => m
      end
  | LDeliver (PresUnavail a) =>
      if strict
      then mkms (ms_call m) (ms_addr m) (fset (ms_table m) a None)
                (fun h => if Nat.eqb (ms_addr m h) a then false else ms_mem m h)
      else match ms_table m a with
           | Some h => mkms (ms_call m) (ms_addr m) (fset (ms_table m) a None) (fset (ms_mem m) h false)
           | None => m
           end
  | _ => m
  end.

Definition member_window (tr : list label) (h : chid) : bool := ms_mem (fold_left (mstep true) tr ms0) h.
Definition member_impl (tr : list label) (h : chid) : bool := ms_mem (fold_left (mstep false) tr ms0) h.

Definition info (c : call) : kind * chid := (c_kind c, c_chan c).

Definition agree (m : mspec) (s : state) : Prop :=
  (forall k, ms_call m k = option_map info (calls s k)) /\
  (forall h, ms_addr m h = ch_addr (chans s h)) /\
  (forall a, ms_table m a = table s a) /\
  (forall h, ch_joined (chans s h) = ms_mem m h).

Lemma take_joined : forall s a x, ch_joined (chans (take s a) x) = ch_joined (chans s x).
Proof.
  intros s a x. destruct (take_chan s a x) as [->|[-> [k [rest [_ ->]]]]]; reflexivity.
Qed.
Lemma take_addr : forall s a x, ch_addr (chans (take s a) x) = ch_addr (chans s x).
Proof.
  intros s a x. destruct (take_chan s a x) as [->|[-> [k [rest [_ ->]]]]]; reflexivity.
Qed.

Ltac rew_calls :=
  repeat match goal with
  | E : calls ?s ?k = Some _ |- context [calls ?s ?k] => rewrite E
  | E : c_kind ?c = _ |- context [c_kind ?c] => rewrite E
  | E : table ?s ?a = _ |- context [table ?s ?a] => rewrite E
  end.

Ltac agree_fin Hc Ha Ht Hj :=
  rew_calls;
  split; [intros kx|split; [intros hx|split; [intros ax|intros hx]]];
  simp_state; rewrite ?take_calls, ?take_joined, ?take_addr, ?take_table;
  unfold fset; cbn [ms_call ms_addr ms_table ms_mem];
  try (rewrite Hc); try (rewrite Ha); try (rewrite Ht); try (rewrite <- Hj);
  rew_calls; cbn [ms_call ms_addr ms_table ms_mem];
  eqb_cases; subst; simp_state; rew_calls; cbn [option_map]; unfold info; simp_state;
  try reflexivity; try congruence; auto.

Lemma mstep_sound : forall m s l s', wf s -> wfc s -> agree m s -> step s l = Some s' -> agree (mstep false m l) s'.
Proof.
  intros m s l s' W C [Hc [Ha [Ht Hj]]] H.
  destruct l as [hn an|k kd a|k|k|k o|k|st|  |k|a b]; step_leaves H; cbn [mstep];
  repeat match goal with Hq : serve_eqb _ _ = true |- _ => apply serve_eqb_eq in Hq end;
  try (match goal with E : calls s ?k = Some ?c |- context [ms_call m ?k] =>
         let Hk := fresh "Hk" in pose proof (Hc k) as Hk; rewrite E in Hk; cbn [option_map] in Hk; unfold info in Hk; rewrite Hk end);
  try (match goal with E : table s ?a = _ |- context [ms_table m ?a] =>
         let Hk := fresh "Hk" in pose proof (Ht a) as Hk; rewrite E in Hk; rewrite Hk end).
  all: try (solve [agree_fin Hc Ha Ht Hj]).
  - (* a new channel: it was not joined *)
    pose proof (andb_true_l _ _ E) as Eh. apply Nat.eqb_eq in Eh. subst hn.
    assert (Hf : chans s (nchans s) = chan0).
    { apply (wc_fresh _ C). destruct (ch_made (chans s (nchans s))) eqn:Em; [|reflexivity]. apply (wc_made _ C) in Em. lia. }
    split; [intros kx|split; [intros hx|split; [intros ax|intros hx]]]; simp_state; unfold fset; cbn [ms_call ms_addr ms_table ms_mem];
      try apply Hc; try (destruct (Nat.eqb hx (nchans s)) eqn:Ex; simp_state; [try reflexivity|auto]);
      try (destruct (Nat.eqb ax an); [reflexivity|apply Ht]).
    apply Nat.eqb_eq in Ex. subst hx. rewrite <- Hj, Hf. reflexivity.
  - pose proof (andb_true_l _ _ E) as Ek. apply Nat.eqb_eq in Ek. subst k. agree_fin Hc Ha Ht Hj.
  - pose proof (andb_true_l _ _ E) as Ek. apply Nat.eqb_eq in Ek. subst k. agree_fin Hc Ha Ht Hj.
Qed.

Lemma fold_left_snoc : forall (A B : Type) (f : A -> B -> A) l x a, fold_left f (l ++ [x]) a = f (fold_left f l a) x.
Proof. intros. rewrite fold_left_app. reflexivity. Qed.

Lemma agree_exec : forall tr s, exec tr = Some s -> agree (fold_left (mstep false) tr ms0) s.
Proof.
  intros tr s H. unfold exec in H.
  apply (invariant_hist _ _ step (fun h s => (wf s /\ wfc s) /\ agree (fold_left (mstep false) h ms0) s) init) with (tr := tr) (s := s); [| |exact H].
  - split; [split; [exact wf_init|exact wfc_init]|]. repeat split; reflexivity.
  - intros h s0 l s1 _ [[W C] A] Hs. split; [split; [exact (wf_step _ _ _ W Hs)|exact (wfc_step _ _ _ W C Hs)]|].
    rewrite fold_left_snoc. exact (mstep_sound _ _ _ _ W C A Hs).
Qed.

Lemma membership_impl : forall tr s h, exec tr = Some s -> ch_joined (chans s h) = member_impl tr h.
Proof. intros tr s h H. destruct (agree_exec tr s H) as [_ [_ [_ Hj]]]. apply Hj. Qed.

(* the two folds differ in the membership component only *)
Lemma folds_same : forall tr,
  ms_call (fold_left (mstep true) tr ms0) = ms_call (fold_left (mstep false) tr ms0) /\
  ms_addr (fold_left (mstep true) tr ms0) = ms_addr (fold_left (mstep false) tr ms0) /\
  (forall a, ms_table (fold_left (mstep true) tr ms0) a = ms_table (fold_left (mstep false) tr ms0) a).
Proof.
  induction tr as [|l tr IH] using rev_ind; [repeat split; reflexivity|].
  rewrite !fold_left_snoc. destruct IH as [I1 [I2 I3]].
  set (mt := fold_left (mstep true) tr ms0) in *. set (mf := fold_left (mstep false) tr ms0) in *.
  destruct l as [hn an|k kd a|k|k|k o|k|st|  |k|a b]; cbn [mstep]; try (repeat split; assumption).
  - cbn [ms_call ms_addr ms_table]. rewrite I1, I2. repeat split; try reflexivity. intros a. unfold fset. rewrite I3. reflexivity.
  - cbn [ms_call ms_addr ms_table]. rewrite I1, I2. repeat split; try reflexivity. intros a0. destruct kd; [unfold fset; rewrite I3; reflexivity|apply I3].
  - destruct o; try (repeat split; assumption).
    + rewrite I1. destruct (ms_call mf k) as [[[|] h1]|]; repeat split; assumption.
    + destruct (ms_call mf k) as [[[|] h1]|]; repeat split; assumption.
  - destruct st; try (repeat split; assumption).
    destruct (ms_table mf a) as [h1|] eqn:Et; cbn [ms_call ms_addr ms_table]; repeat split; try assumption.
    + intros a0. unfold fset. rewrite I3. reflexivity.
    + intros a0. unfold fset. destruct (Nat.eqb a0 a) eqn:Ea; [|apply I3]. apply Nat.eqb_eq in Ea. subst a0. symmetry. exact Et.
Qed.

Lemma ms_call_In : forall b h k kd a,
  ms_call (fold_left (mstep b) h ms0) k = Some (kd, a) -> In (LCall k kd a) h.
Proof.
  intros b h. induction h as [|l h IH] using rev_ind; intros k kd a H.
  - discriminate H.
  - rewrite fold_left_snoc in H. apply in_or_app.
    destruct l as [hn an|k0 kd0 a0|k0|k0|k0 o|k0|st|  |k0|a0 b0]; cbn [mstep] in H;
      try (left; apply IH; exact H).
    + cbn [ms_call] in H. unfold fset in H. destruct (Nat.eqb k k0) eqn:E.
      * apply Nat.eqb_eq in E. subst. injection H as -> ->. right. left. reflexivity.
      * left. apply IH. exact H.
    + left. apply IH.
      destruct o; try exact H.
      * destruct (ms_call (fold_left (mstep b) h ms0) k0) as [[[|] a1]|]; exact H.
      * destruct b; [exact H|].
        destruct (ms_call (fold_left (mstep false) h ms0) k0) as [[[|] a1]|]; exact H.
    + left. apply IH. destruct st; try exact H. destruct b; [exact H|].
      destruct (ms_table (fold_left (mstep false) h ms0) a0); exact H.
Qed.

(* A Channel is never "orphaned" in a history if, whenever the unavailable presence of its
   address is handled while it is a member, it is the registered Channel. *)
Definition never_orphaned (tr : list label) (h : chid) : Prop :=
  forall t1 t2 a s1, tr = t1 ++ LDeliver (PresUnavail a) :: t2 -> exec t1 = Some s1 ->
  ch_addr (chans s1 h) = a -> ch_joined (chans s1 h) = true -> table s1 a = Some h.

(* a computable check of [never_orphaned] for concrete histories *)
Fixpoint never_orphaned_b (s : state) (tr : list label) (h : chid) : bool :=
  match tr with
  | [] => true
  | l :: r =>
      (match l with
       | LDeliver (PresUnavail a) =>
           if Nat.eqb (ch_addr (chans s h)) a && ch_joined (chans s h)
           then match table s a with Some h' => Nat.eqb h' h | None => false end
           else true
       | _ => true
       end) &&
      match step s l with Some s' => never_orphaned_b s' r h | None => true end
  end.

Lemma never_orphaned_b_sound : forall tr h, never_orphaned_b init tr h = true -> never_orphaned tr h.
Proof.
  intros tr h Hb t1 t2 a s1 Htr Hex Ha Hj. unfold exec in Hex. subst tr.
  revert Hb Hex. generalize init. induction t1 as [|l t1 IH]; intros s0 Hb Hex.
  - cbn [run] in Hex. injection Hex as <-. cbn [app never_orphaned_b] in Hb.
    apply andb_true_iff in Hb. destruct Hb as [Hb _].
    rewrite Ha, Nat.eqb_refl, Hj in Hb. cbn [andb] in Hb.
    destruct (table s0 a) as [h'|]; [|discriminate Hb]. apply Nat.eqb_eq in Hb. subst h'. reflexivity.
  - cbn [run] in Hex. destruct (step s0 l) as [s'|] eqn:Hs; [|discriminate Hex].
    cbn [app never_orphaned_b] in Hb. apply andb_true_iff in Hb. destruct Hb as [_ Hb]. rewrite Hs in Hb.
    exact (IH s' Hb Hex).
Qed.

Lemma exec_snoc : forall tr l s, exec (tr ++ [l]) = Some s -> exists s1, exec tr = Some s1 /\ step s1 l = Some s.
Proof. intros tr l s H. unfold exec in *. apply run_snoc_some in H. exact H. Qed.

Lemma windows_agree : forall tr s h,
  exec tr = Some s ->
  (forall k, In (LRet k OStanzaErr) tr -> ~ In (LCall k KLeave h) tr) ->
  never_orphaned tr h ->
  ms_mem (fold_left (mstep true) tr ms0) h = ms_mem (fold_left (mstep false) tr ms0) h.
Proof.
  induction tr as [|l tr IH] using rev_ind; intros s h H Hfree Horph; [reflexivity|].
  apply exec_snoc in H. destruct H as [s1 [Hex Hstep]].
  assert (IH' : ms_mem (fold_left (mstep true) tr ms0) h = ms_mem (fold_left (mstep false) tr ms0) h).
  { apply (IH s1 h Hex).
    - intros k Hin Hc. apply (Hfree k); apply in_or_app; left; assumption.
    - intros t1 t2 a s2 -> . apply (Horph t1 (t2 ++ [l]) a s2). rewrite <- app_assoc. reflexivity. }
  clear IH. rewrite !fold_left_snoc.
  destruct (folds_same tr) as [I1 [I2 I3]].
  destruct (agree_exec tr s1 Hex) as [_ [Ga [Gt Gj]]].
  pose proof (wfc_exec tr s1 Hex) as C1.
  set (mt := fold_left (mstep true) tr ms0) in *. set (mf := fold_left (mstep false) tr ms0) in *.
  destruct l as [hn an|k kd a|k|k|k o|k|st|  |k|a b]; cbn [mstep]; try exact IH'.
  - destruct o; try exact IH'.
    + rewrite I1. destruct (ms_call mf k) as [[[|] h1]|]; try exact IH'. cbn [ms_mem]. unfold fset. rewrite IH'. reflexivity.
    + destruct (ms_call mf k) as [[[|] h1]|] eqn:Ec; try exact IH'. cbn [ms_mem]. unfold fset.
      destruct (Nat.eqb h h1) eqn:Eh; [|exact IH']. apply Nat.eqb_eq in Eh. subst h1. exfalso.
      apply (Hfree k); apply in_or_app; [right; left; reflexivity|left]. apply (ms_call_In false). exact Ec.
  - destruct st; try exact IH'.
    (* the unavailable presence of a *)
    cbn [ms_mem]. rewrite I2.
    destruct (Nat.eqb (ms_addr mf h) a) eqn:Ea.
    + apply Nat.eqb_eq in Ea. rewrite Ga in Ea.
      destruct (ms_mem mf h) eqn:Em.
      * rewrite <- Gj in Em. pose proof (Horph tr [] a s1 eq_refl Hex Ea Em) as Ht.
        rewrite Gt, Ht. cbn [ms_mem]. unfold fset. rewrite Nat.eqb_refl. reflexivity.
      * destruct (ms_table mf a) as [h1|]; cbn [ms_mem]; [|symmetry; exact Em].
        unfold fset. destruct (Nat.eqb h h1); [reflexivity|symmetry; exact Em].
    + destruct (ms_table mf a) as [h1|] eqn:Et; cbn [ms_mem]; [|exact IH'].
      unfold fset. destruct (Nat.eqb h h1) eqn:Eh; [|exact IH']. apply Nat.eqb_eq in Eh. subst h1. exfalso.
      rewrite Gt in Et. destruct (wc_table _ C1 _ _ Et) as [_ Hadd]. rewrite <- Ga in Hadd.
      apply Nat.eqb_neq in Ea. exact (Ea Hadd).
Qed.

Lemma membership_window_partial : forall tr s h,
  exec tr = Some s ->
  (forall k, In (LRet k OStanzaErr) tr -> ~ In (LCall k KLeave h) tr) ->
  never_orphaned tr h ->
  ch_joined (chans s h) = member_window tr h.
Proof.
  intros tr s h H Hfree Horph. rewrite (membership_impl tr s h H). unfold member_impl, member_window.
  symmetry. exact (windows_agree tr s h H Hfree Horph).
Qed.

Lemma query_reports_membership : forall tr h b s,
  exec (tr ++ [LQuery h b]) = Some s -> b = member_impl tr h.
Proof.
  intros tr a b s H. apply exec_snoc in H. destruct H as [s1 [H1 H2]].
  rewrite <- (membership_impl tr s1 a H1).
  cbn [step] in H2. destruct (is_offer (srv s1)); [discriminate|].
  destruct (Bool.eqb b (ch_joined (chans s1 a))) eqn:E; [|discriminate].
  apply Bool.eqb_prop in E. exact E.
Qed.

(* the deviations: a refused Leave ends membership ... *)
Definition refute_trace : list label :=
  [LNew 0 0; LCall 0 KJoin 0; LPush 0; LPushed 0; LDeliver (PresAvail 0); LRet 0 OSuccess;
   LCall 1 KLeave 0; LDeliver (ErrReply 1); LRet 1 OStanzaErr].

Lemma membership_window_refuted :
  exists tr s h, exec tr = Some s /\ ch_joined (chans s h) <> member_window tr h.
Proof.
  exists refute_trace.
  destruct (exec refute_trace) as [s|] eqn:E; [|vm_compute in E; discriminate].
  exists s, 0. split; [reflexivity|].
  assert (Hj : option_map (fun s => ch_joined (chans s 0)) (exec refute_trace) = Some false) by (vm_compute; reflexivity).
  rewrite E in Hj. cbn in Hj. injection Hj as ->.
  vm_compute. discriminate.
Qed.

(* ... and a Channel replaced in the table by a second Client.Join for its address
   does not see the occupant's unavailable presence: it stays a member *)
Definition orphan_trace : list label :=
  [LNew 0 0; LCall 0 KJoin 0; LPush 0; LPushed 0; LDeliver (PresAvail 0); LRet 0 OSuccess;
   LNew 1 0; LDeliver (PresUnavail 0)].

Lemma membership_orphan_refuted :
  exists s, exec orphan_trace = Some s /\ ch_joined (chans s 0) = true /\ member_window orphan_trace 0 = false /\
            (forall k, ~ In (LRet k OStanzaErr) orphan_trace).
Proof.
  destruct (exec orphan_trace) as [s|] eqn:E; [|vm_compute in E; discriminate].
  exists s. split; [reflexivity|].
  assert (Hj : option_map (fun s => ch_joined (chans s 0)) (exec orphan_trace) = Some true) by (vm_compute; reflexivity).
  rewrite E in Hj. cbn in Hj. injection Hj as ->.
  split; [reflexivity|]. split; [vm_compute; reflexivity|].
  intros k Hin. cbn in Hin. repeat (destruct Hin as [Hin|Hin]; [discriminate Hin|]). destruct Hin.
Qed.
(* ---------------------------------------------------------------- histories *)

(* how the call table evolves *)
Lemma step_calls : forall s l s' k c', wf s ->
  step s l = Some s' -> calls s' k = Some c' ->
  (exists c, calls s k = Some c /\ c_kind c' = c_kind c /\ c_chan c' = c_chan c) \/
  (l = LCall k (c_kind c') (c_chan c') /\ calls s k = None /\ k = ncalls s).
Proof.
  intros s l s' k c' W H Hc.
  destruct l as [hn an|k0 kd a|k0|k0|k0 o|k0|st|  |k0|a b]; step_leaves H; simp_state; rewrite ?take_calls in Hc;
    try solve [left; exists c'; auto];
    try solve [eqb_cases; subst; same_call; simp_state; left; eexists; (split; [eassumption|split; reflexivity])].
  all: pose proof (andb_true_l _ _ E) as Ek; apply Nat.eqb_eq in Ek; subst k0;
    destruct (Nat.eqb k (ncalls s)) eqn:Ekk;
    [apply Nat.eqb_eq in Ekk; subst k; injection Hc as <-; right; simp_state;
     split; [reflexivity|split; [|reflexivity]];
     destruct (calls s (ncalls s)) eqn:En; [apply (wf_bound _ W) in En; lia|reflexivity]
    |left; exists c'; auto].
Qed.

(* a decomposition of the history survives further steps *)
Lemma split_snoc : forall (h h1 h2 : list label) x l, h = h1 ++ x :: h2 -> h ++ [l] = h1 ++ x :: (h2 ++ [l]).
Proof. intros h h1 h2 x l ->. rewrite <- app_assoc. reflexivity. Qed.

Definition calls_logged (h : list label) (s : state) : Prop :=
  forall k c, calls s k = Some c -> In (LCall k (c_kind c) (c_chan c)) h.

Lemma calls_logged_step : forall h s l s', wf s -> calls_logged h s -> step s l = Some s' -> calls_logged (h ++ [l]) s'.
Proof.
  intros h s l s' W HL H k c' Hc. apply in_or_app.
  destruct (step_calls _ _ _ _ _ W H Hc) as [[c [Hk [Hkd Ha]]]|[-> _]].
  - left. rewrite Hkd, Ha. apply HL. exact Hk.
  - right. left. reflexivity.
Qed.

Lemma step_calls_fwd : forall s l s' k c, wf s ->
  step s l = Some s' -> calls s k = Some c ->
  exists c', calls s' k = Some c' /\ c_kind c' = c_kind c /\ c_chan c' = c_chan c.
Proof.
  intros s l s' k c W H Hc.
  destruct l as [hn an|k0 kd a|k0|k0|k0 o|k0|st|  |k0|a b]; step_leaves H; simp_state; rewrite ?take_calls;
    try solve [exists c; auto];
    try solve [eqb_cases; subst; same_call; simp_state; eexists; (split; [first [reflexivity|eassumption]|split; reflexivity])].
  all: destruct (Nat.eqb k (ncalls s)) eqn:Ekk;
    [apply Nat.eqb_eq in Ekk; subst k; apply (wf_bound _ W) in Hc; lia|exists c; auto].
Qed.

(* where an offering presence handler comes from *)
Lemma step_offer : forall s l s' k, step s l = Some s' -> srv s' = SOffer k ->
  (srv s = SOffer k /\ (forall k' a', l <> LCall k' KJoin a') /\ (forall st, l <> LDeliver st) /\ (forall hh aa, l <> LNew hh aa)) \/
  (exists a hh rest, l = LDeliver (PresAvail a) /\ table s a = Some hh /\ ch_jq (chans s hh) = k :: rest) \/
  (exists k0 c0 rest, l = LSeeDone /\ srv s = SOffer k0 /\ calls s k0 = Some c0 /\ ch_jq (chans s (c_chan c0)) = k :: rest).
Proof.
  intros s l s' k H Hs.
  destruct l as [hn an|k0 kd a|k0|k0|k0 o|k0|st|  |k0|a b]; step_leaves H; simp_state;
    try discriminate Hs;
    try solve [left; split; [congruence|repeat split; intros; discriminate]];
    try solve [exfalso; congruence];
    try solve [exfalso; repeat match goal with Hx : srv ?s0 = SOffer _ |- _ => rewrite Hx in * end;
               cbn [is_offer negb] in *; try rewrite andb_false_r in *; discriminate].
  - rewrite take_unfold in Hs. destruct (ch_jq (chans s c)) as [|kk rest] eqn:Eq; simp_state; [discriminate|].
    injection Hs as ->. right. left. exists a, c, rest. repeat split; assumption.
  - rewrite take_unfold in Hs. destruct (ch_jq (chans s (c_chan c))) as [|kk rest] eqn:Eq; simp_state; [discriminate|].
    injection Hs as ->. right. right. exists k0, c, rest. repeat split; assumption.
Qed.

(* the handler offers to k only while it handles an available presence that was
   looked up when k's Channel was the registered one; k was called before *)
Definition offer_hist (h : list label) (s : state) : Prop :=
  forall k, srv s = SOffer k ->
  exists c a h1 h2 s1, calls s k = Some c /\ c_kind c = KJoin /\
    h = h1 ++ LDeliver (PresAvail a) :: h2 /\
    exec h1 = Some s1 /\ table s1 a = Some (c_chan c) /\
    In (LCall k KJoin (c_chan c)) h1 /\
    (forall k' a', ~ In (LCall k' KJoin a') h2) /\
    (forall st, ~ In (LDeliver st) h2) /\ (forall hh aa, ~ In (LNew hh aa) h2).

Lemma offer_hist_step : forall h s l s',
  exec h = Some s -> wf s -> calls_logged h s -> offer_hist h s -> step s l = Some s' -> offer_hist (h ++ [l]) s'.
Proof.
  intros h s l s' Hex W HL HO H k Hs.
  destruct (step_offer _ _ _ _ H Hs) as [[Hs0 [Hl [Hl2 Hl3]]]|[[a [hh [rest [-> [Et Eq]]]]]|[k0 [c0 [rest [-> [Hs0 [Hc0 Eq]]]]]]]].
  - destruct (HO k Hs0) as [c [a [h1 [h2 [s1 [Hc [Hk [Hh [He [Ht [Hin [Hno [Hnd Hnn]]]]]]]]]]]]].
    destruct (step_calls_fwd _ _ _ _ _ W H Hc) as [c' [Hc' [Hk' Ha']]].
    exists c', a, h1, (h2 ++ [l]), s1. rewrite Hk', Ha'. repeat split; try assumption.
    + apply split_snoc. exact Hh.
    + intros k' a' Hin'. apply in_app_or in Hin'. destruct Hin' as [Hin'|[Hin'|[]]];
        [exact (Hno k' a' Hin')|exact (Hl k' a' Hin')].
    + intros st Hin'. apply in_app_or in Hin'. destruct Hin' as [Hin'|[Hin'|[]]];
        [exact (Hnd st Hin')|exact (Hl2 st Hin')].
    + intros hh aa Hin'. apply in_app_or in Hin'. destruct Hin' as [Hin'|[Hin'|[]]];
        [exact (Hnn hh aa Hin')|exact (Hl3 hh aa Hin')].
  - destruct (wf_jq _ W hh k) as [c [Hc [Ha Hk]]]; [rewrite Eq; left; reflexivity|].
    destruct (step_calls_fwd _ _ _ _ _ W H Hc) as [c' [Hc' [Hk' Ha']]].
    exists c', a, h, [], s. rewrite Hk', Ha', Ha. repeat split; try assumption.
    + specialize (HL k c Hc). rewrite Hk, Ha in HL. exact HL.
    + intros k' a' [].
    + intros st [].
    + intros h0 a0 [].
  - destruct (HO k0 Hs0) as [c [a [h1 [h2 [s1 [Hc [Hk [Hh [He [Ht [Hin [Hno [Hnd Hnn]]]]]]]]]]]]].
    rewrite Hc0 in Hc. injection Hc as <-.
    destruct (wf_jq _ W (c_chan c0) k) as [c [Hc [Ha Hkk]]]; [rewrite Eq; left; reflexivity|].
    destruct (step_calls_fwd _ _ _ _ _ W H Hc) as [c' [Hc' [Hk' Ha']]].
    exists c', a, h1, (h2 ++ [LSeeDone]), s1. rewrite Hk', Ha', Ha. repeat split; try assumption.
    + apply split_snoc. exact Hh.
    + specialize (HL k c Hc). rewrite Hkk, Ha, Hh in HL.
      apply in_app_or in HL. destruct HL as [HL|[HL|HL]]; [exact HL|discriminate HL|].
      exfalso. exact (Hno _ _ HL).
    + intros k' a' Hin'. apply in_app_or in Hin'. destruct Hin' as [Hin'|[Hin'|[]]]; [exact (Hno k' a' Hin')|discriminate Hin'].
    + intros st Hin'. apply in_app_or in Hin'. destruct Hin' as [Hin'|[Hin'|[]]]; [exact (Hnd st Hin')|discriminate Hin'].
    + intros hh aa Hin'. apply in_app_or in Hin'. destruct Hin' as [Hin'|[Hin'|[]]]; [exact (Hnn hh aa Hin')|discriminate Hin'].
Qed.

Definition logged_calls (h : list label) (s : state) : Prop :=
  forall k kd a, In (LCall k kd a) h -> exists c, calls s k = Some c /\ c_kind c = kd /\ c_chan c = a.

Lemma step_call_new : forall s k kd a s', step s (LCall k kd a) = Some s' ->
  exists c, calls s' k = Some c /\ c_kind c = kd /\ c_chan c = a.
Proof.
  intros s k kd a s' H. step_leaves H; simp_state;
    pose proof (andb_true_l _ _ E) as Ek; apply Nat.eqb_eq in Ek; subst k; rewrite Nat.eqb_refl;
    eexists; (split; [reflexivity|split; reflexivity]).
Qed.

Lemma logged_calls_step : forall h s l s', wf s -> logged_calls h s -> step s l = Some s' -> logged_calls (h ++ [l]) s'.
Proof.
  intros h s l s' W HL H k kd a Hin. apply in_app_or in Hin. destruct Hin as [Hin|[Hin|[]]].
  - destruct (HL k kd a Hin) as [c [Hc [Hk Ha]]].
    destruct (step_calls_fwd _ _ _ _ _ W H Hc) as [c' [Hc' [Hk' Ha']]].
    exists c'. rewrite Hk', Ha'. auto.
  - subst l. exact (step_call_new _ _ _ _ _ H).
Qed.


Lemma step_await : forall s l s' k, step s l = Some s' -> srv s' = SAwait k ->
  srv s = SAwait k \/ (l = LDeliver (ErrReply k) /\ exists c, calls s k = Some c).
Proof.
  intros s l s' k H Hs.
  destruct l as [hn an|k0 kd a|k0|k0|k0 o|k0|st|  |k0|a b]; step_leaves H; simp_state;
    try discriminate Hs; try solve [left; congruence];
    try solve [rewrite take_unfold in Hs; destruct (ch_jq _); simp_state; discriminate Hs].
  injection Hs as ->. right. split; [reflexivity|]. exists c. exact E1.
Qed.

Definition await_hist (h : list label) (s : state) : Prop :=
  forall k, srv s = SAwait k ->
  exists h1 h2 kd a, h = h1 ++ LDeliver (ErrReply k) :: h2 /\ In (LCall k kd a) h1.

Lemma await_hist_step : forall h s l s',
  calls_logged h s -> await_hist h s -> step s l = Some s' -> await_hist (h ++ [l]) s'.
Proof.
  intros h s l s' HL HA H k Hs.
  destruct (step_await _ _ _ _ H Hs) as [Hs0|[-> [c Hc]]].
  - destruct (HA k Hs0) as [h1 [h2 [kd [a [Hh Hin]]]]].
    exists h1, (h2 ++ [l]), kd, a. split; [apply split_snoc; exact Hh|exact Hin].
  - exists h, [], (c_kind c), (c_chan c). split; [reflexivity|apply HL; exact Hc].
Qed.

(* a context is done only by cancellation or by the return of its call *)
Definition done_hist (h : list label) (s : state) : Prop :=
  forall k c, calls s k = Some c -> c_done c = true -> is_ret (c_phase c) = false -> In (LCancel k) h.

Lemma step_done : forall s l s' k c', wf s ->
  step s l = Some s' -> calls s' k = Some c' -> c_done c' = true -> is_ret (c_phase c') = false ->
  (exists c, calls s k = Some c /\ c_done c = true /\ is_ret (c_phase c) = false) \/ l = LCancel k.
Proof.
  intros s l s' k c' W H Hc Hd Hp.
  destruct l as [hn an|k0 kd a|k0|k0|k0 o|k0|st|  |k0|a b]; step_leaves H; simp_state; rewrite ?take_calls in Hc;
    try solve [left; exists c'; auto];
    try solve [eqb_cases; subst; same_call; simp_state; try discriminate;
               first [left; eexists; (split; [eassumption|split; assumption]) | right; reflexivity]].
  all: eqb_cases; subst; same_call; simp_state;
    first [ left; eexists; split; [eassumption|split; [assumption|]];
            repeat match goal with E : c_phase ?c = _ |- context [c_phase ?c] => rewrite E end; reflexivity
          | left; exists c'; auto ].
Qed.

Lemma done_hist_step : forall h s l s', wf s -> done_hist h s -> step s l = Some s' -> done_hist (h ++ [l]) s'.
Proof.
  intros h s l s' W HD H k c' Hc Hd Hp. apply in_or_app.
  destruct (step_done _ _ _ _ _ W H Hc Hd Hp) as [[c [Hc0 [Hd0 Hp0]]]| ->].
  - left. exact (HD k c Hc0 Hd0 Hp0).
  - right. left. reflexivity.
Qed.

(* the departure notification *)
Lemma take_dep : forall s a x, ch_dep (chans (take s a) x) = ch_dep (chans s x).
Proof.
  intros s a x. destruct (take_chan s a x) as [->|[-> [k [rest [_ ->]]]]]; reflexivity.
Qed.

Lemma step_dep : forall s l s' h, step s l = Some s' -> ch_dep (chans s' h) = true ->
  (ch_dep (chans s h) = true /\ (forall k, l <> LCall k KLeave h)) \/
  (exists a, l = LDeliver (PresUnavail a) /\ table s a = Some h).
Proof.
  intros s l s' h H Hd.
  destruct l as [hn an|k0 kd a0|k0|k0|k0 o|k0|st|  |k0|a0 b]; step_leaves H; simp_state; rewrite ?take_dep in Hd;
    try solve [left; split; [exact Hd|intros; discriminate]];
    try solve [eqb_cases; subst; simp_state; try discriminate Hd;
               first [left; split; [exact Hd|intros; congruence] | right; eexists; split; [reflexivity|assumption]]].
Qed.

(* a waiting Leave call in the new state was a waiting Leave call before, or has just started *)
Lemma step_leave_wait : forall s l s' k c', wf s ->
  step s l = Some s' -> calls s' k = Some c' -> c_kind c' = KLeave -> c_phase c' = PWait ->
  (exists c, calls s k = Some c /\ c_kind c = KLeave /\ c_phase c = PWait /\ c_chan c = c_chan c') \/
  l = LCall k KLeave (c_chan c').
Proof.
  intros s l s' k c' W H Hc Hk Hp.
  destruct l as [hn an|k0 kd a|k0|k0|k0 o|k0|st|  |k0|a b]; step_leaves H; simp_state; rewrite ?take_calls in Hc;
    try solve [left; exists c'; auto];
    try solve [eqb_cases; subst; same_call; simp_state; try discriminate; try congruence;
               first [left; eexists; split; [eassumption|auto] | right; reflexivity]].
Qed.

(* a kept notification for a waiting Leave comes from the unavailable presence
   of an address for which its Channel was the registered one, handled after the
   call started *)
Definition leave_hist (h : list label) (s : state) : Prop :=
  forall k c, calls s k = Some c -> c_kind c = KLeave -> c_phase c = PWait ->
  ch_dep (chans s (c_chan c)) = true ->
  exists h1 h2 h3 a s1,
    h = h1 ++ LCall k KLeave (c_chan c) :: h2 ++ LDeliver (PresUnavail a) :: h3 /\
    exec (h1 ++ LCall k KLeave (c_chan c) :: h2) = Some s1 /\ table s1 a = Some (c_chan c).

Lemma leave_hist_step : forall h s l s',
  exec h = Some s -> wf s -> calls_logged h s -> leave_hist h s -> step s l = Some s' -> leave_hist (h ++ [l]) s'.
Proof.
  intros h s l s' Hex W HL HV H k c' Hc Hk Hp Hd.
  destruct (step_leave_wait _ _ _ _ _ W H Hc Hk Hp) as [[c [Hc0 [Hk0 [Hp0 Ha0]]]]|Hl].
  - rewrite <- Ha0 in *.
    destruct (step_dep _ _ _ _ H Hd) as [[Hd0 _]|[a [-> Ht]]].
    + destruct (HV k c Hc0 Hk0 Hp0 Hd0) as [h1 [h2 [h3 [a [s1 [Hh [He Ht]]]]]]].
      exists h1, h2, (h3 ++ [l]), a, s1. split; [|split; assumption].
      rewrite Hh. rewrite <- !app_assoc. cbn [app]. rewrite <- app_assoc. reflexivity.
    + pose proof (HL k c Hc0) as Hin. rewrite Hk0 in Hin.
      apply in_split in Hin. destruct Hin as [t1 [t2 Hsplit]].
      exists t1, t2, [], a, s. split; [|split].
      * rewrite Hsplit. rewrite <- app_assoc. reflexivity.
      * rewrite <- Hsplit. exact Hex.
      * exact Ht.
  - exfalso. subst l. step_leaves H. simp_state. rewrite Nat.eqb_refl in Hd. simp_state. discriminate Hd.
Qed.

(* which Channels exist and where table entries come from *)
Definition new_logged (h : list label) (s : state) : Prop :=
  forall x, ch_made (chans s x) = true -> In (LNew x (ch_addr (chans s x))) h.

Lemma take_made : forall s a x, ch_made (chans (take s a) x) = ch_made (chans s x).
Proof.
  intros s a x. destruct (take_chan s a x) as [->|[-> [k [rest [_ ->]]]]]; reflexivity.
Qed.

Lemma step_made : forall s l s' x, step s l = Some s' -> ch_made (chans s' x) = true ->
  (ch_made (chans s x) = true /\ ch_addr (chans s' x) = ch_addr (chans s x)) \/ l = LNew x (ch_addr (chans s' x)).
Proof.
  intros s l s' x H Hm.
  destruct l as [hn an|k0 kd a0|k0|k0|k0 o|k0|st|  |k0|a0 b]; step_leaves H; simp_state;
    rewrite ?take_made in Hm; rewrite ?take_addr;
    try solve [left; split; [exact Hm|reflexivity]];
    try solve [eqb_cases; subst; simp_state; first [left; split; [assumption|reflexivity] | right; reflexivity]].
  pose proof (andb_true_l _ _ E) as Eh. apply Nat.eqb_eq in Eh. subst hn.
  destruct (Nat.eqb x (nchans s)) eqn:Ex; simp_state.
  - apply Nat.eqb_eq in Ex. subst x. right. reflexivity.
  - left. split; [exact Hm|reflexivity].
Qed.

Lemma new_logged_step : forall h s l s', new_logged h s -> step s l = Some s' -> new_logged (h ++ [l]) s'.
Proof.
  intros h s l s' HN H x Hm. apply in_or_app.
  destruct (step_made _ _ _ _ H Hm) as [[Hm0 ->]| ->]; [left; exact (HN x Hm0)|right; left; reflexivity].
Qed.

(* the history invariants, together *)
Record hinv (h : list label) (s : state) : Prop := mkhinv {
  hi_wf : wf s;
  hi_wfc : wfc s;
  hi_logged : calls_logged h s;
  hi_back : logged_calls h s;
  hi_offer : offer_hist h s;
  hi_await : await_hist h s;
  hi_done : done_hist h s;
  hi_leave : leave_hist h s;
  hi_new : new_logged h s }.

Lemma hinv_init : hinv [] init.
Proof.
  constructor.
  - exact wf_init.
  - exact wfc_init.
  - intros k c H. discriminate H.
  - intros k kd a [].
  - intros k H. discriminate H.
  - intros k H. discriminate H.
  - intros k c H. discriminate H.
  - intros k c H. discriminate H.
  - intros x H. discriminate H.
Qed.

Lemma hinv_step : forall h s l s', exec h = Some s -> hinv h s -> step s l = Some s' -> hinv (h ++ [l]) s'.
Proof.
  intros h s l s' Hex [W C HL HB HO HA HD HV HN] H. constructor.
  - exact (wf_step _ _ _ W H).
  - exact (wfc_step _ _ _ W C H).
  - exact (calls_logged_step _ _ _ _ W HL H).
  - exact (logged_calls_step _ _ _ _ W HB H).
  - exact (offer_hist_step _ _ _ _ Hex W HL HO H).
  - exact (await_hist_step _ _ _ _ HL HA H).
  - exact (done_hist_step _ _ _ _ W HD H).
  - exact (leave_hist_step _ _ _ _ Hex W HL HV H).
  - exact (new_logged_step _ _ _ _ HN H).
Qed.

Lemma hinv_exec : forall tr s, exec tr = Some s -> hinv tr s.
Proof.
  intros tr s H. unfold exec in H.
  apply (invariant_hist _ _ step hinv init hinv_init) with (tr := tr) (s := s); [|exact H].
  intros h s0 l s1 Hr HI Hs. exact (hinv_step _ _ _ _ Hr HI Hs).
Qed.

(* ---- the return values of Join and Leave ---- *)

(* Join on Channel h returned success: after the call started, an available
   presence from h's address was handled, it was looked up while h was the
   registered Channel for that address (state s1), and nothing else was delivered
   and no Channel registered between that and the return. *)
Lemma join_success_after_self_presence : forall tr s k h,
  exec (tr ++ [LRet k OSuccess]) = Some s -> In (LCall k KJoin h) tr ->
  exists t1 t2 t3 a s1,
    tr = t1 ++ LCall k KJoin h :: t2 ++ LDeliver (PresAvail a) :: t3 /\
    exec (t1 ++ LCall k KJoin h :: t2) = Some s1 /\
    table s1 a = Some h /\ ch_addr (chans s1 h) = a /\
    (forall st, ~ In (LDeliver st) t3) /\ (forall k' h', ~ In (LCall k' KJoin h') t3) /\ (forall h' a', ~ In (LNew h' a') t3).
Proof.
  intros tr s k h H Hin. apply exec_snoc in H. destruct H as [s1 [H1 H2]].
  destruct (hinv_exec tr s1 H1) as [W C HL HB HO _ _ _ _].
  destruct (HB k KJoin h Hin) as [c [Hc [Hk Ha]]].
  cbn [step] in H2. rewrite Hc in H2. unfold ret in H2. rewrite Hk in H2.
  destruct (c_phase c); try discriminate H2.
  destruct (serve_eqb (srv s1) (SOffer k)) eqn:Es; [|discriminate H2].
  apply serve_eqb_eq in Es.
  destruct (HO k Es) as [c1 [a [h1 [h2 [s0 [Hc1 [_ [Hh [He [Ht [Hin1 [Hno [Hnd Hnn]]]]]]]]]]]]].
  rewrite Hc in Hc1. injection Hc1 as <-. rewrite Ha in Ht, Hin1.
  apply in_split in Hin1. destruct Hin1 as [t1 [t2 Hs1]].
  exists t1, t2, h2, a, s0. split; [|split; [|split; [|split; [|split; [|split]]]]]; try assumption.
  - rewrite Hh, Hs1. rewrite <- app_assoc. reflexivity.
  - rewrite <- Hs1. exact He.
  - exact (proj2 (wc_table _ (wfc_exec h1 s0 He) _ _ Ht)).
Qed.

Lemma leave_success_after_unavailable : forall tr s k h,
  exec (tr ++ [LRet k OSuccess]) = Some s -> In (LCall k KLeave h) tr ->
  exists t1 t2 t3 a s1,
    tr = t1 ++ LCall k KLeave h :: t2 ++ LDeliver (PresUnavail a) :: t3 /\
    exec (t1 ++ LCall k KLeave h :: t2) = Some s1 /\ table s1 a = Some h /\ ch_addr (chans s1 h) = a.
Proof.
  intros tr s k h H Hin. apply exec_snoc in H. destruct H as [s1 [H1 H2]].
  destruct (hinv_exec tr s1 H1) as [W C HL HB _ _ _ HV _].
  destruct (HB k KLeave h Hin) as [c [Hc [Hk Ha]]].
  cbn [step] in H2. rewrite Hc in H2. unfold ret in H2. rewrite Hk in H2.
  destruct (c_phase c) eqn:Ep; try discriminate H2.
  destruct (ch_dep (chans s1 (c_chan c))) eqn:Ed; [|discriminate H2].
  destruct (HV k c Hc Hk Ep Ed) as [h1 [h2 [h3 [a [s0 [Hh [He Ht]]]]]]]. rewrite Ha in Hh, He, Ht.
  exists h1, h2, h3, a, s0. repeat split; try assumption.
  exact (proj2 (wc_table _ (wfc_exec _ s0 He) _ _ Ht)).
Qed.

Lemma stanza_error_after_error_reply : forall tr s k,
  exec (tr ++ [LRet k OStanzaErr]) = Some s ->
  exists t1 t2 kd a, tr = t1 ++ LDeliver (ErrReply k) :: t2 /\ In (LCall k kd a) t1.
Proof.
  intros tr s k H. apply exec_snoc in H. destruct H as [s1 [H1 H2]].
  destruct (hinv_exec tr s1 H1) as [_ _ _ _ _ HA _ _ _].
  cbn [step] in H2. destruct (calls s1 k) as [c|]; [|discriminate H2]. unfold ret in H2.
  destruct (c_phase c); try discriminate H2.
  destruct (serve_eqb (srv s1) (SAwait k)) eqn:Es; [|discriminate H2].
  apply serve_eqb_eq in Es. exact (HA k Es).
Qed.

Lemma ctx_error_only_if_cancelled : forall tr s k,
  exec (tr ++ [LRet k OCtxErr]) = Some s -> In (LCancel k) tr.
Proof.
  intros tr s k H. apply exec_snoc in H. destruct H as [s1 [H1 H2]].
  destruct (hinv_exec tr s1 H1) as [_ _ _ _ _ _ HD _ _].
  cbn [step] in H2. destruct (calls s1 k) as [c|] eqn:Hc; [|discriminate H2]. unfold ret in H2.
  destruct (c_done c) eqn:Ed; [|discriminate H2].
  apply (HD k c Hc Ed). destruct (c_phase c); try reflexivity. discriminate H2.
Qed.

(* the only outcomes are the three the property names *)
Lemma outcomes_are_the_three : forall tr s k o,
  exec (tr ++ [LRet k o]) = Some s -> o = OSuccess \/ o = OStanzaErr \/ o = OCtxErr.
Proof.
  intros tr s k o H. apply exec_snoc in H. destruct H as [s1 [_ H2]].
  destruct o; auto. cbn [step] in H2. destruct (calls s1 k); [|discriminate H2]. discriminate H2.
Qed.
(* ---------------------------------------------------------------- rooms never joined *)

(* a table entry for address a is a Channel that was made for a *)
Lemma entry_needs_channel : forall tr s a h, exec tr = Some s -> table s a = Some h -> In (LNew h a) tr.
Proof.
  intros tr s a h H Ht. destruct (hinv_exec tr s H) as [_ C _ _ _ _ _ _ HN].
  destruct (wc_table _ C _ _ Ht) as [Hm Ha]. rewrite <- Ha. exact (HN h Hm).
Qed.

Lemma unjoined_rooms_ignored : forall tr s a,
  exec tr = Some s -> (forall h, ~ In (LNew h a) tr) -> srv s = SIdle ->
  step s (LDeliver (PresAvail a)) = Some s /\ step s (LDeliver (PresUnavail a)) = Some s /\
  step s (LDeliver (PresBad a)) = Some s.
Proof.
  intros tr s a H Hno Hs.
  assert (He : table s a = None).
  { destruct (table s a) as [h|] eqn:E; [|reflexivity].
    exfalso. exact (Hno h (entry_needs_channel tr s a h H E)). }
  cbn [step]. rewrite Hs. cbn [deliver]. rewrite He. repeat split; reflexivity.
Qed.

(* ... whereas the same undecodable payload from a managed address is an error
   that ends the Serve loop *)
Lemma managed_bad_payload_ends_serve : forall s a h,
  srv s = SIdle -> table s a = Some h ->
  exists s', step s (LDeliver (PresBad a)) = Some s' /\ srv s' = SDead /\
             forall st, step s' (LDeliver st) = None.
Proof.
  intros s a h Hs He. eexists. cbn [step]. rewrite Hs. cbn [deliver]. rewrite He.
  split; [reflexivity|]. split; [reflexivity|]. intros st. reflexivity.
Qed.

(* ---------------------------------------------------------------- registration *)

(* every join call registers its Channel for its address before anything else
   happens: last registration wins *)
Lemma join_call_registers : forall s k h s',
  step s (LCall k KJoin h) = Some s' -> table s' (ch_addr (chans s h)) = Some h /\ ch_addr (chans s' h) = ch_addr (chans s h).
Proof.
  intros s k h s' H. step_leaves H. simp_state. rewrite Nat.eqb_refl. split; reflexivity.
Qed.

Lemma new_channel_registers : forall s h a s',
  step s (LNew h a) = Some s' -> table s' a = Some h /\ ch_addr (chans s' h) = a /\ ch_joined (chans s' h) = false.
Proof.
  intros s h a s' H. step_leaves H. pose proof (andb_true_l _ _ E) as Eh. apply Nat.eqb_eq in Eh. subst h.
  simp_state. rewrite !Nat.eqb_refl. repeat split; reflexivity.
Qed.

(* a self-presence that arrives while ANOTHER Channel is registered for the
   address cannot complete a join on this one: the handler offers, for the whole
   handling of that presence, only to join contexts of the registered Channel *)
Lemma presence_goes_to_registered_channel : forall tr s a h s' k c,
  exec tr = Some s -> table s a = Some h ->
  step s (LDeliver (PresAvail a)) = Some s' -> srv s' = SOffer k -> calls s' k = Some c -> c_chan c = h.
Proof.
  intros tr s a h s' k c H Ht Hs Ho Hc.
  pose proof (wf_exec tr s H) as W.
  cbn [step] in Hs. destruct (srv s); try discriminate Hs. injection Hs as <-. cbn [deliver] in *. rewrite Ht in *.
  rewrite take_unfold in *. destruct (ch_jq (chans s h)) as [|kk rest] eqn:Eq; simp_state; [discriminate Ho|].
  injection Ho as ->. destruct (wf_jq _ W h k) as [c0 [Hc0 [Ha0 _]]]; [rewrite Eq; left; reflexivity|].
  rewrite Hc0 in Hc. injection Hc as <-. exact Ha0.
Qed.

(* ---------------------------------------------------------------- replies are honoured *)

Lemma error_reply_returned : forall s k c,
  srv s = SIdle -> calls s k = Some c -> c_phase c = PWait -> c_done c = false -> c_replied c = false ->
  exists s1 s2,
    step s (LDeliver (ErrReply k)) = Some s1 /\
    step s1 (LRet k OStanzaErr) = Some s2 /\
    step s1 (LRet k OCtxErr) = None /\
    (c_kind c = KJoin -> step s1 (LRet k OSuccess) = None).
Proof.
  intros s k c Hs Hc Hp Hd Hr.
  eexists. eexists. split; [|split; [|split]].
  - cbn [step]. rewrite Hs. cbn [deliver]. rewrite Hc, Hp, Hd, Hr. cbn [negb andb]. reflexivity.
  - cbn [step]. simp_state. rewrite Nat.eqb_refl. unfold ret. simp_state. rewrite Hp. cbn [serve_eqb]. rewrite Nat.eqb_refl.
    reflexivity.
  - cbn [step]. simp_state. rewrite Nat.eqb_refl. unfold ret. simp_state. rewrite Hd. reflexivity.
  - intros Hk. cbn [step]. simp_state. rewrite Nat.eqb_refl. unfold ret. simp_state. rewrite Hp, Hk. reflexivity.
Qed.

Lemma self_presence_completes_join : forall s k c a h rest,
  srv s = SIdle -> table s a = Some h -> ch_jq (chans s h) = k :: rest ->
  calls s k = Some c -> c_kind c = KJoin -> c_chan c = h -> c_phase c = PWait -> c_done c = false ->
  exists s1 s2,
    step s (LDeliver (PresAvail a)) = Some s1 /\
    step s1 (LRet k OSuccess) = Some s2 /\
    ch_joined (chans s2 h) = true /\
    step s1 (LRet k OCtxErr) = None /\
    step s1 (LRet k OStanzaErr) = None.
Proof.
  intros s k c a h rest Hs He Hq Hc Hk Ha Hp Hd.
  eexists. eexists. split; [|split; [|split; [|split]]].
  - cbn [step]. rewrite Hs. cbn [deliver]. rewrite He. rewrite take_unfold, Hq. reflexivity.
  - cbn [step]. simp_state. rewrite Hc. unfold ret. simp_state. rewrite Hp, Hk. cbn [serve_eqb]. rewrite Nat.eqb_refl.
    reflexivity.
  - simp_state. rewrite Ha, Nat.eqb_refl. reflexivity.
  - cbn [step]. simp_state. rewrite Hc. unfold ret. rewrite Hd. reflexivity.
  - cbn [step]. simp_state. rewrite Hc. unfold ret. rewrite Hp. reflexivity.
Qed.

Lemma unavailable_completes_leave : forall s k c a h,
  srv s = SIdle -> table s a = Some h ->
  calls s k = Some c -> c_kind c = KLeave -> c_chan c = h -> c_phase c = PWait ->
  exists s1 s2,
    step s (LDeliver (PresUnavail a)) = Some s1 /\
    ch_joined (chans s1 h) = false /\ table s1 a = None /\
    step s1 (LRet k OSuccess) = Some s2.
Proof.
  intros s k c a h Hs He Hc Hk Ha Hp.
  eexists. eexists. split; [|split; [|split]].
  - cbn [step]. rewrite Hs. cbn [deliver]. rewrite He. reflexivity.
  - simp_state. rewrite Nat.eqb_refl. reflexivity.
  - simp_state. rewrite Nat.eqb_refl. reflexivity.
  - cbn [step]. simp_state. rewrite Hc. unfold ret. simp_state. rewrite Hp, Hk, Ha, Nat.eqb_refl. simp_state. reflexivity.
Qed.
(* ---------------------------------------------------------------- one call in flight per channel *)

Lemma idle_spec : forall s a k c, idle s a = true -> k < ncalls s -> calls s k = Some c -> c_chan c = a ->
  is_ret (c_phase c) = true.
Proof.
  intros s a k c Hi Hk Hc Ha. unfold idle in Hi. rewrite forallb_forall in Hi.
  specialize (Hi k). rewrite Hc in Hi. rewrite Ha, Nat.eqb_refl in Hi. cbn in Hi.
  apply Hi. apply in_seq. lia.
Qed.

Definition uniq (s : state) : Prop :=
  forall k1 k2 c1 c2, calls s k1 = Some c1 -> calls s k2 = Some c2 -> c_chan c1 = c_chan c2 ->
  is_ret (c_phase c1) = false -> is_ret (c_phase c2) = false -> k1 = k2.

Lemma step_inflight_back : forall s l s' k c', wf s ->
  step s l = Some s' -> calls s' k = Some c' -> is_ret (c_phase c') = false ->
  (exists c, calls s k = Some c /\ c_chan c = c_chan c' /\ is_ret (c_phase c) = false) \/
  (k = ncalls s /\ idle s (c_chan c') = true).
Proof.
  intros s l s' k c' W H Hc Hp.
  destruct l as [hn an|k0 kd a|k0|k0|k0 o|k0|st|  |k0|a b]; step_leaves H; simp_state; rewrite ?take_calls in Hc;
    try solve [left; exists c'; auto];
    try solve [eqb_cases; subst; same_call; simp_state; try discriminate;
               first [ left; eexists; split; [eassumption|split; [reflexivity|]];
                       repeat match goal with E : c_phase ?c = _ |- context [c_phase ?c] => rewrite E end; first [reflexivity|assumption]
                     | left; exists c'; auto ]].
  all: destruct (Nat.eqb k (ncalls s)) eqn:Ekk;
    [apply Nat.eqb_eq in Ekk; subst k; injection Hc as <-; right; simp_state;
     split; [reflexivity|exact (andb_true_r' _ _ E)]
    |left; exists c'; auto].
Qed.

Lemma uniq_step : forall s l s', wf s -> uniq s -> step s l = Some s' -> uniq s'.
Proof.
  intros s l s' W U H k1 k2 c1 c2 H1 H2 Ha P1 P2.
  destruct (step_inflight_back _ _ _ _ _ W H H1 P1) as [[d1 [D1 [A1 Q1]]]|[N1 I1]];
  destruct (step_inflight_back _ _ _ _ _ W H H2 P2) as [[d2 [D2 [A2 Q2]]]|[N2 I2]].
  - apply (U k1 k2 d1 d2 D1 D2); [congruence|assumption|assumption].
  - exfalso. rewrite <- Ha in I2. rewrite <- A1 in I2.
    pose proof (idle_spec _ _ _ _ I2 (wf_bound _ W _ _ D1) D1 eq_refl) as R. congruence.
  - exfalso. rewrite Ha in I1. rewrite <- A2 in I1.
    pose proof (idle_spec _ _ _ _ I1 (wf_bound _ W _ _ D2) D2 eq_refl) as R. congruence.
  - congruence.
Qed.

Lemma uniq_exec : forall tr s, exec tr = Some s -> uniq s.
Proof.
  intros tr s H. unfold exec in H.
  assert (G : wf s /\ uniq s).
  { apply (invariant_run _ _ step (fun s => wf s /\ uniq s) init) with (tr := tr); [| |exact H].
    - split; [exact wf_init|]. intros k1 k2 c1 c2 H1. discriminate H1.
    - intros s0 l s1 [W U] Hs. split; [exact (wf_step _ _ _ W Hs)|exact (uniq_step _ _ _ W U Hs)]. }
  exact (proj2 G).
Qed.

(* the departure notification is kept for the waiting Leave: no step other than
   the return of that call consumes it *)
Lemma departure_kept : forall s l s' k c,
  wf s -> wfc s -> uniq s -> step s l = Some s' ->
  calls s k = Some c -> c_kind c = KLeave -> c_phase c = PWait -> ch_dep (chans s (c_chan c)) = true ->
  (forall o, l <> LRet k o) ->
  ch_dep (chans s' (c_chan c)) = true /\
  exists c', calls s' k = Some c' /\ c_kind c' = KLeave /\ c_phase c' = PWait /\ c_chan c' = c_chan c.
Proof.
  intros s l s' k c W C U H Hc Hk Hp Hd Hl.
  destruct l as [hn an|k0 kd a|k0|k0|k0 o|k0|st|  |k0|a b]; step_leaves H; simp_state;
    rewrite ?take_dep, ?take_calls.
  all: try solve [exfalso; eapply Hl; reflexivity].
  all: try solve [split;
    [ eqb_cases; subst; simp_state; try assumption; congruence
    | eqb_cases; subst; same_call; simp_state; try congruence;
      eexists; (split; [first [reflexivity|eassumption]|auto]) ]].
  - (* a new channel: not the one of k *)
    split; [|exists c; auto].
    destruct (Nat.eqb (c_chan c) (nchans s)) eqn:Ea; [|exact Hd]. apply Nat.eqb_eq in Ea. exfalso.
    pose proof (wc_made _ C _ (wc_call _ C _ _ Hc)) as Hlt. lia.
  - (* a join starts *)
    assert (Hne : Nat.eqb k (ncalls s) = false) by (apply Nat.eqb_neq; apply (wf_bound _ W) in Hc; lia).
    rewrite Hne. split; [exact Hd|exists c; auto].
  - (* a leave starts on the same channel: impossible, k is in flight *)
    assert (Hne : Nat.eqb k (ncalls s) = false) by (apply Nat.eqb_neq; apply (wf_bound _ W) in Hc; lia).
    rewrite Hne. split; [|exists c; auto].
    destruct (Nat.eqb (c_chan c) a) eqn:Ea; [|exact Hd]. apply Nat.eqb_eq in Ea. subst a. exfalso.
    pose proof (idle_spec _ _ _ _ (andb_true_r' _ _ E) (wf_bound _ W _ _ Hc) Hc eq_refl) as R.
    rewrite Hp in R. discriminate R.
  - (* another Leave takes a notification: it would be in flight on the same channel *)
    destruct (Nat.eqb k k0) eqn:Ek; [apply Nat.eqb_eq in Ek; subst k0; exfalso; eapply Hl; reflexivity|].
    apply Nat.eqb_neq in Ek. split; [|exists c; auto].
    destruct (Nat.eqb (c_chan c) (c_chan c0)) eqn:Ea; [|exact Hd]. apply Nat.eqb_eq in Ea. exfalso. apply Ek.
    apply (U k k0 c c0 Hc E Ea); [rewrite Hp|rewrite E1]; reflexivity.
  - destruct (Nat.eqb k k0) eqn:Ek; [apply Nat.eqb_eq in Ek; subst k0; exfalso; eapply Hl; reflexivity|].
    split; [|exists c; auto].
    destruct (Nat.eqb (c_chan c) (c_chan c0)) eqn:Ea; [|exact Hd]. apply Nat.eqb_eq in Ea. simp_state. rewrite <- Ea. exact Hd.
  - destruct (Nat.eqb k k0) eqn:Ek; [apply Nat.eqb_eq in Ek; subst k0; exfalso; eapply Hl; reflexivity|].
    split; [exact Hd|exists c; auto].
Qed.
(* ---------------------------------------------------------------- a call returns once *)

Lemma ret_permanent_step : forall s l s' k c, wf s ->
  step s l = Some s' -> calls s k = Some c -> is_ret (c_phase c) = true ->
  exists c', calls s' k = Some c' /\ is_ret (c_phase c') = true.
Proof.
  intros s l s' k c W H Hc Hp.
  destruct l as [hn an|k0 kd a|k0|k0|k0 o|k0|st|  |k0|a b]; step_leaves H; simp_state; rewrite ?take_calls;
    try solve [exists c; auto];
    try solve [eqb_cases; subst; same_call; simp_state;
               repeat match goal with E : c_phase ?c = _, P : is_ret (c_phase ?c) = true |- _ => rewrite E in P; try discriminate P end;
               eexists; (split; [first [reflexivity|eassumption]|]); simp_state; first [reflexivity|assumption]].
  all: destruct (Nat.eqb k (ncalls s)) eqn:Ekk;
    [apply Nat.eqb_eq in Ekk; subst k; apply (wf_bound _ W) in Hc; lia|exists c; auto].
Qed.

Lemma ret_permanent_run : forall tr s s' k c, wf s ->
  run step s tr = Some s' -> calls s k = Some c -> is_ret (c_phase c) = true ->
  exists c', calls s' k = Some c' /\ is_ret (c_phase c') = true.
Proof.
  induction tr as [|l tr IH]; intros s s' k c W H Hc Hp; cbn [run] in H.
  - injection H as <-. exists c. auto.
  - destruct (step s l) as [s1|] eqn:Hs; [|discriminate H].
    destruct (ret_permanent_step _ _ _ _ _ W Hs Hc Hp) as [c1 [Hc1 Hp1]].
    exact (IH s1 s' k c1 (wf_step _ _ _ W Hs) H Hc1 Hp1).
Qed.

Lemma ret_sets_phase : forall s k o s', step s (LRet k o) = Some s' ->
  exists c', calls s' k = Some c' /\ is_ret (c_phase c') = true.
Proof.
  intros s k o s' H. step_leaves H; simp_state; rewrite Nat.eqb_refl; eexists; (split; [reflexivity|reflexivity]).
Qed.

Lemma ret_needs_unreturned : forall s k o s' c, step s (LRet k o) = Some s' -> calls s k = Some c ->
  is_ret (c_phase c) = false.
Proof.
  intros s k o s' c H Hc. cbn [step] in H. rewrite Hc in H. unfold ret in H.
  destruct (c_phase c); try reflexivity. destruct o; try discriminate H. destruct (c_done c); discriminate H.
Qed.

Lemma returns_once : forall t1 t2 k o1 o2 s,
  exec (t1 ++ LRet k o1 :: t2 ++ [LRet k o2]) = Some s -> False.
Proof.
  intros t1 t2 k o1 o2 s H. unfold exec in H.
  apply run_app_some in H. destruct H as [s1 [H1 H2]].
  cbn [run] in H2. destruct (step s1 (LRet k o1)) as [s2|] eqn:Hs; [|discriminate H2].
  apply run_snoc_some in H2. destruct H2 as [s3 [H3 H4]].
  pose proof (wf_exec t1 s1 H1) as W1. pose proof (wf_step _ _ _ W1 Hs) as W2.
  destruct (ret_sets_phase _ _ _ _ Hs) as [c2 [Hc2 Hp2]].
  destruct (ret_permanent_run _ _ _ _ _ W2 H3 Hc2 Hp2) as [c3 [Hc3 Hp3]].
  pose proof (ret_needs_unreturned _ _ _ _ _ H4 Hc3) as Hn. congruence.
Qed.

(* ---------------------------------------------------------------- statements as used in Properties.v *)

Lemma context_error_otherwise : forall tr s k o,
  exec (tr ++ [LRet k o]) = Some s ->
  (o = OSuccess \/ o = OStanzaErr \/ o = OCtxErr) /\
  (o = OCtxErr -> In (LCancel k) tr) /\
  (forall o', ~ In (LRet k o') tr).
Proof.
  intros tr s k o H. split; [exact (outcomes_are_the_three tr s k o H)|]. split.
  - intros ->. exact (ctx_error_only_if_cancelled tr s k H).
  - intros o' Hin. apply in_split in Hin. destruct Hin as [t1 [t2 ->]].
    rewrite <- app_assoc in H. cbn [app] in H. exact (returns_once t1 t2 k o' o s H).
Qed.

Lemma error_reply_returned_r : forall tr s k c,
  exec tr = Some s ->
  srv s = SIdle -> calls s k = Some c -> c_phase c = PWait -> c_done c = false -> c_replied c = false ->
  exists s1 s2,
    step s (LDeliver (ErrReply k)) = Some s1 /\
    step s1 (LRet k OStanzaErr) = Some s2 /\
    step s1 (LRet k OCtxErr) = None /\
    (c_kind c = KJoin -> step s1 (LRet k OSuccess) = None).
Proof. intros tr s k c _. exact (error_reply_returned s k c). Qed.

Lemma self_presence_completes_join_r : forall tr s k c a h rest,
  exec tr = Some s ->
  srv s = SIdle -> table s a = Some h -> ch_jq (chans s h) = k :: rest ->
  calls s k = Some c -> c_kind c = KJoin -> c_chan c = h -> c_phase c = PWait -> c_done c = false ->
  exists s1 s2,
    step s (LDeliver (PresAvail a)) = Some s1 /\
    step s1 (LRet k OSuccess) = Some s2 /\
    ch_joined (chans s2 h) = true /\
    step s1 (LRet k OCtxErr) = None /\
    step s1 (LRet k OStanzaErr) = None.
Proof. intros tr s k c a h rest _. exact (self_presence_completes_join s k c a h rest). Qed.

Lemma stale_context_skipped_r : forall tr s k0 c0 k c a h rest,
  exec tr = Some s ->
  srv s = SIdle -> table s a = Some h -> ch_jq (chans s h) = k0 :: k :: rest ->
  calls s k0 = Some c0 -> c_done c0 = true -> c_chan c0 = h ->
  calls s k = Some c -> c_kind c = KJoin -> c_chan c = h -> c_phase c = PQueued ->
  k <> k0 -> mem k rest = false ->
  exists s1 s2 s3 s4,
    step s (LDeliver (PresAvail a)) = Some s1 /\ step s1 (LPushed k) = Some s2 /\
    step s2 LSeeDone = Some s3 /\ step s3 (LRet k OSuccess) = Some s4 /\
    ch_joined (chans s4 h) = true /\ cb_pres s4 = cb_pres s.
Proof.
  intros tr s k0 c0 k c a h rest _ Hs He Hq Hc0 Hd0 Ha0 Hc Hk Ha Hp Hne Hm.
  assert (E1 : Nat.eqb k0 k = false) by (apply Nat.eqb_neq; auto).
  do 4 eexists. split; [|split; [|split; [|split; [|split]]]].
  - cbn [step]. rewrite Hs. cbn [deliver]. rewrite He. rewrite take_unfold, Hq. reflexivity.
  - cbn [step]. simp_state. rewrite Hc, Hk, Hp, Ha, Nat.eqb_refl. simp_state. cbn [tl]. rewrite Hm. reflexivity.
  - cbn [step]. simp_state. rewrite E1, Hc0, Hd0, Ha0. rewrite take_unfold. simp_state. rewrite Nat.eqb_refl. simp_state. reflexivity.
  - cbn [step]. simp_state. rewrite Nat.eqb_refl. unfold ret. simp_state. cbn [serve_eqb]. rewrite Hk, Nat.eqb_refl. reflexivity.
  - simp_state. rewrite Ha, Nat.eqb_refl. reflexivity.
  - reflexivity.
Qed.

Lemma unavailable_completes_leave_r : forall tr s k c a h,
  exec tr = Some s ->
  srv s = SIdle -> table s a = Some h ->
  calls s k = Some c -> c_kind c = KLeave -> c_chan c = h -> c_phase c = PWait ->
  exists s1 s2,
    step s (LDeliver (PresUnavail a)) = Some s1 /\
    ch_joined (chans s1 h) = false /\ table s1 a = None /\
    step s1 (LRet k OSuccess) = Some s2.
Proof. intros tr s k c a h _. exact (unavailable_completes_leave s k c a h). Qed.

Lemma departure_kept_r : forall tr s l s' k c,
  exec tr = Some s -> step s l = Some s' ->
  calls s k = Some c -> c_kind c = KLeave -> c_phase c = PWait -> ch_dep (chans s (c_chan c)) = true ->
  (forall o, l <> LRet k o) ->
  ch_dep (chans s' (c_chan c)) = true /\
  exists c', calls s' k = Some c' /\ c_kind c' = KLeave /\ c_phase c' = PWait /\ c_chan c' = c_chan c.
Proof.
  intros tr s l s' k c H. exact (departure_kept s l s' k c (wf_exec tr s H) (wfc_exec tr s H) (uniq_exec tr s H)).
Qed.

(* every accepted join call leaves its Channel registered for its address *)
Lemma join_call_registers_r : forall tr s k h,
  exec (tr ++ [LCall k KJoin h]) = Some s -> table s (ch_addr (chans s h)) = Some h.
Proof.
  intros tr s k h H. apply exec_snoc in H. destruct H as [s1 [_ H2]].
  destruct (join_call_registers _ _ _ _ H2) as [Ht Ha]. rewrite Ha. exact Ht.
Qed.

(* ---------------------------------------------------------------- tables read from the source *)

(* The model's ch_jq (a buffer of one join context, further publishers blocked)
   and ch_dep (one kept departure notification) are the channels the code makes;
   HandleClient registers the handler for exactly the stanzas [deliver] routes to
   it; Joined returns the membership flag. Regenerated from muc/muc.go and
   muc/room.go on every run (gen/Muc.v): a source edit breaks these. *)
Lemma tbl_join_capacity : muc_join_capacity = 1.
Proof. vm_compute. reflexivity. Qed.
Lemma tbl_depart_capacity : muc_depart_capacity = 1.
Proof. vm_compute. reflexivity. Qed.
Lemma tbl_registrations :
  muc_handles_available_presence && muc_handles_unavailable_presence && muc_handles_normal_message = true /\
  muc_registrations = 3.
Proof. vm_compute. split; reflexivity. Qed.
(* every registration is for the muc#user x payload and nothing wider: the
   multiplexer calls the client's handler once per muc#user x child ([is_userx])
   and never for an x of another namespace *)
Lemma tbl_patterns :
  muc_ns_user = str "http://jabber.org/protocol/muc#user" /\
  muc_patterns =
    [(str "Presence", str "AvailablePresence", muc_ns_user, str "x");
     (str "Presence", str "UnavailablePresence", muc_ns_user, str "x");
     (str "Message", str "NormalMessage", muc_ns_user, str "x")].
Proof. vm_compute. split; reflexivity. Qed.
(* HandlePresence consults the table and drops the presence of an address that
   is not managed BEFORE it decodes the payload ([deliver] on [PresBad]) *)
Lemma tbl_lookup_before_decode : muc_presence_lookup_before_decode = true.
Proof. vm_compute. reflexivity. Qed.
(* Channel.JoinPresence registers the Channel under the address of the request
   under no condition but those of the enclosing function body (the model's
   LCall _ KJoin h sets the table entry whatever the state of h) *)
Lemma tbl_join_registers_unconditionally : muc_join_registers_unconditionally = true.
Proof. vm_compute. reflexivity. Qed.
Lemma tbl_joined_returns_flag : muc_joined_returns_flag = true.
Proof. vm_compute. reflexivity. Qed.
