(* C12/Model.v — executable model of stream-header printing and acceptance,
   the address checks of the negotiator across restarts, and resource binding.

   Modelled functions (mellium.im/xmpp):
     internal/stream/stream.go  Send (byte for byte), Expect (token level)
     internal/stream/reader.go  reader.Token with negotiating=true (as used by Expect)
     internal/decl/decl.go      Skip
     stream/stream.go           Info.FromStartElement
     stream/version.go          ParseVersion, Version.String
     stream/error.go            Error.UnmarshalXML (which condition is reported)
     negotiator.go              the header exchange and address checks of negotiator (both roles)
     session.go                 the Info reset of negotiateSession, UpdateAddr, LocalAddr, RemoteAddr
     bind.go                    bindIQ/bindPayload TokenReader, bind Negotiate (both roles)
   External, passed in as functions/inputs: jid.Parse (argument [parse]),
   attr.RandomID (inputs), the application's bind callback (input verdict),
   encoding/xml (tokens are the decoder's tokens; [read_start] below is the small
   start-tag reader standing for "a peer parsing the header").
   No proofs in this file. *)
From XV Require Import lib.Bytes gen.StreamHdr.
From Coq Require Import NArith.
Local Open Scope N_scope.

(* ------------------------------------------------------------------ *)
(* 1. Small helpers                                                    *)

Definition is_nil (b : bytes) : bool := match b with [] => true | _ => false end.

Definition is_space (b : byte) : bool :=
  match b with " "%byte | x09 | x0a | x0d => true | _ => false end.

Definition all_space (b : bytes) : bool := forallb is_space b.

Definition in_rng (b : byte) (lo hi : N) : bool := (lo <=? bN b) && (bN b <=? hi).

(* ------------------------------------------------------------------ *)
(* 2. JIDs: the three parts; String and Equal as in jid/jid.go         *)

Record jid := mkjid { j_local : bytes; j_domain : bytes; j_res : bytes }.

Definition jid_zero : jid := mkjid [] [] [].

Definition jid_eqb (a b : jid) : bool :=
  bytes_eqb (j_local a) (j_local b) && bytes_eqb (j_domain a) (j_domain b) && bytes_eqb (j_res a) (j_res b).

Definition jid_string (j : jid) : bytes :=
  (if is_nil (j_local j) then [] else j_local j ++ str "@") ++ j_domain j ++
  (if is_nil (j_res j) then [] else str "/" ++ j_res j).

(* ------------------------------------------------------------------ *)
(* 3. xml.EscapeText                                                   *)

Definition fffd : bytes := [xef; xbf; xbd].

(* What utf8.DecodeRune sees at the head of s. *)
Inductive rclass :=
| CAscii            (* one byte < 0x80 *)
| CMulti (w : nat)  (* a valid encoding of w = 2,3,4 bytes, inside the XML character range *)
| CNonchar          (* EF BF BE / EF BF BF: valid encoding of U+FFFE / U+FFFF, outside the range *)
| CBad.             (* invalid: DecodeRune returns (RuneError, 1) *)

Definition is_cont (b : byte) : bool := in_rng b 128 191.

Definition classify (s : bytes) : rclass :=
  match s with
  | [] => CBad
  | b0 :: r =>
      let n := bN b0 in
      if n <? 128 then CAscii
      else if (194 <=? n) && (n <=? 223) then
        match r with b1 :: _ => if is_cont b1 then CMulti 2 else CBad | _ => CBad end
      else if (224 <=? n) && (n <=? 239) then
        match r with
        | b1 :: b2 :: _ =>
            let lo := if n =? 224 then 160 else 128 in
            let hi := if n =? 237 then 159 else 191 in
            if in_rng b1 lo hi && is_cont b2 then
              if (n =? 239) && (bN b1 =? 191) && (190 <=? bN b2) then CNonchar else CMulti 3
            else CBad
        | _ => CBad
        end
      else if (240 <=? n) && (n <=? 244) then
        match r with
        | b1 :: b2 :: b3 :: _ =>
            let lo := if n =? 240 then 144 else 128 in
            let hi := if n =? 244 then 143 else 191 in
            if in_rng b1 lo hi && is_cont b2 && is_cont b3 then CMulti 4 else CBad
        | _ => CBad
        end
      else CBad
  end.

(* One ASCII byte through EscapeText. *)
Definition esc1 (b : byte) : bytes :=
  match b with
  | """"%byte => str "&#34;"
  | "'"%byte => str "&#39;"
  | "&"%byte => str "&amp;"
  | "<"%byte => str "&lt;"
  | ">"%byte => str "&gt;"
  | x09 => str "&#x9;"
  | x0a => str "&#xA;"
  | x0d => str "&#xD;"
  | _ => if bN b <? 32 then fffd else [b]
  end.

(* k = bytes of an already validated rune still to be copied. *)
Fixpoint esc (k : nat) (s : bytes) : bytes :=
  match s with
  | [] => []
  | b :: r =>
      match k with
      | S k' => b :: esc k' r
      | O =>
          match classify s with
          | CAscii => esc1 b ++ esc 0 r
          | CMulti w => b :: esc (w - 1) r
          | CNonchar => fffd ++ match r with _ :: _ :: r2 => esc 0 r2 | _ => [] end
          | CBad => fffd ++ esc 0 r
          end
      end
  end.

Definition escape_text (s : bytes) : bytes := esc 0 s.

(* Valid UTF-8 made of XML characters only: what EscapeText passes through
   unchanged up to the eight escapes, and what a conforming parser accepts. *)
Fixpoint tok_ok (k : nat) (s : bytes) : bool :=
  match s with
  | [] => match k with O => true | _ => false end
  | b :: r =>
      match k with
      | S k' => tok_ok k' r
      | O =>
          match classify s with
          | CAscii => ((32 <=? bN b) || is_space b) && tok_ok 0 r
          | CMulti w => tok_ok (w - 1) r
          | _ => false
          end
      end
  end.

Definition text_ok (s : bytes) : bool := tok_ok 0 s.

(* ------------------------------------------------------------------ *)
(* 4. stream.Version                                                   *)

Definition digit (n : N) : byte := byte_of_N (48 + n).

Definition dec3 (n : N) : bytes :=   (* %d of a uint8 *)
  if n <? 10 then [digit n]
  else if n <? 100 then [digit (n / 10); digit (n mod 10)]
  else [digit (n / 100); digit ((n / 10) mod 10); digit (n mod 10)].

Definition version_string (v : N * N) : bytes := dec3 (fst v) ++ str "." ++ dec3 (snd v).

Definition is_digit (b : byte) : bool := in_rng b 48 57.

(* strconv.ParseUint(s, 10, 8): digits only, non-empty, value <= 255. The
   accumulator saturates at 256 so that arbitrarily long inputs stay small. *)
Fixpoint parse_u8_go (acc : N) (s : bytes) : option N :=
  match s with
  | [] => Some acc
  | b :: r => if is_digit b then
                let a := acc * 10 + (bN b - 48) in
                parse_u8_go (if 255 <? a then 256 else a) r
              else None
  end.

Definition parse_u8 (s : bytes) : option N :=
  match s with
  | [] => None
  | _ => match parse_u8_go 0 s with
         | Some n => if 255 <? n then None else Some n
         | None => None
         end
  end.

Definition dot : byte := "."%byte.

(* strings.Split(s, "."): the list of fields *)
Fixpoint split_dot (cur : bytes) (s : bytes) : list bytes :=
  match s with
  | [] => [rev cur]
  | b :: r => if byte_eqb b dot then rev cur :: split_dot [] r else split_dot (b :: cur) r
  end.

Definition parse_version (s : bytes) : option (N * N) :=
  match split_dot [] s with
  | [a; b] => match parse_u8 a, parse_u8 b with
              | Some x, Some y => Some (x, y)
              | _, _ => None
              end
  | _ => None
  end.

Definition ver_eqb (a b : N * N) : bool := (fst a =? fst b) && (snd a =? snd b).

(* ------------------------------------------------------------------ *)
(* 5. internal/stream Send, byte for byte                              *)

(* writeAttr: space, name, =', escaped value, ' *)
Definition write_attr (name value : bytes) : bytes :=
  str " " ++ name ++ str "='" ++ escape_text value ++ str "'".

Definition opt_attr (name value : bytes) : bytes :=
  if is_nil value then [] else write_attr name value.

Definition send_header (ws : bool) (xmlns : bytes) (ver : N * N) (lang to from id : bytes) : bytes :=
  (if ws then
     str "<open xmlns=""urn:ietf:params:xml:ns:xmpp-framing"" version='" ++ version_string ver ++ str "'"
   else
     xml_header ++ str "<stream:stream xmlns='" ++ xmlns ++
     str "' xmlns:stream='http://etherx.jabber.org/streams' version='" ++ version_string ver ++ str "'")
  ++ opt_attr (str "id") id ++ opt_attr (str "to") to ++ opt_attr (str "from") from
  ++ opt_attr (str "xml:lang") lang
  ++ (if ws then str "/>" else str ">").

(* Send also records, in the output stream info, the element that opened the
   stream (Close picks the matching closing element from it) and the id. *)
Definition send_name (ws : bool) : bytes * bytes :=
  if ws then (ns_ws, str "open") else (ns_stream, str "stream").

(* ------------------------------------------------------------------ *)
(* 6. Tokens (as produced by encoding/xml's Decoder.Token)             *)

Record attr := mkattr { a_space : bytes; a_local : bytes; a_val : bytes }.

Inductive tok :=
| TStart (ns local : bytes) (attrs : list attr)
| TEnd (ns local : bytes)
| TChar (b : bytes)
| TComment
| TProcInst (target : bytes)
| TDirective.

Definition attr_eqb (a b : attr) : bool :=
  bytes_eqb (a_space a) (a_space b) && bytes_eqb (a_local a) (a_local b) && bytes_eqb (a_val a) (a_val b).

Fixpoint list_eqb {A} (eq : A -> A -> bool) (a b : list A) : bool :=
  match a, b with
  | [], [] => true
  | x :: a', y :: b' => eq x y && list_eqb eq a' b'
  | _, _ => false
  end.

Definition tok_eqb (a b : tok) : bool :=
  match a, b with
  | TStart n l at1, TStart n' l' at2 => bytes_eqb n n' && bytes_eqb l l' && list_eqb attr_eqb at1 at2
  | TEnd n l, TEnd n' l' => bytes_eqb n n' && bytes_eqb l l'
  | TChar x, TChar y => bytes_eqb x y
  | TComment, TComment => true
  | TProcInst x, TProcInst y => bytes_eqb x y
  | TDirective, TDirective => true
  | _, _ => false
  end.

(* ------------------------------------------------------------------ *)
(* 7. A small start-tag reader: "a peer parsing the header"            *)

Record rattr := mkra { ra_name : bytes; ra_val : bytes }.

Inductive pstate :=
| PStart (decl : bool)                                   (* before '<'; decl: a declaration was seen *)
| PLt (decl : bool)                                      (* just after '<' *)
| PDecl (q : bool)                                       (* inside <?...; q: previous byte was '?' *)
| PName (acc : bytes)                                    (* element name, reversed *)
| PGap (name : bytes) (attrs : list rattr)               (* between attributes; attrs reversed *)
| PSlash (name : bytes) (attrs : list rattr)             (* after '/', expecting '>' *)
| PAName (name : bytes) (attrs : list rattr) (acc : bytes)
| PAfterName (name : bytes) (attrs : list rattr) (an : bytes)   (* spaces before '=' *)
| PEq (name : bytes) (attrs : list rattr) (an : bytes)          (* after '=', expecting a quote *)
| PVal (name : bytes) (attrs : list rattr) (an : bytes) (q : byte) (acc : bytes) (ent : option bytes).

Inductive pstep :=
| Next (s : pstate)
| Done (name : bytes) (attrs : list rattr) (selfclose : bool)
| Fail.

Definition name_byte (b : byte) : bool :=
  negb (is_space b) &&
  negb (in_bytes b (str "/>=<""'&?!")).

Definition ent_byte (b : byte) : bool :=
  in_rng b 48 57 || in_rng b 65 90 || in_rng b 97 122 || byte_eqb b "#"%byte.

(* UTF-8 encoding of an XML character (None outside the character range). *)
Definition utf8_encode (n : N) : option bytes :=
  if n <? 128 then
    (if (32 <=? n) || (n =? 9) || (n =? 10) || (n =? 13) then Some [byte_of_N n] else None)
  else if n <? 2048 then Some [byte_of_N (192 + n / 64); byte_of_N (128 + n mod 64)]
  else if n <? 65536 then
    (if (55296 <=? n) && (n <=? 57343) then Some fffd   (* string(rune(surrogate)) is U+FFFD *)
     else if 65534 <=? n then None
     else Some [byte_of_N (224 + n / 4096); byte_of_N (128 + (n / 64) mod 64); byte_of_N (128 + n mod 64)])
  else if n <? 1114112 then
    Some [byte_of_N (240 + n / 262144); byte_of_N (128 + (n / 4096) mod 64);
          byte_of_N (128 + (n / 64) mod 64); byte_of_N (128 + n mod 64)]
  else None.

Fixpoint parse_num (base : N) (acc : N) (s : bytes) : option N :=
  match s with
  | [] => Some acc
  | b :: r =>
      match hexval b with
      | Some d => if d <? base then
                    let a := acc * base + d in
                    parse_num base (if 1114112 <? a then 1114112 else a) r
                  else None
      | None => None
      end
  end.

(* the entity between '&' and ';' *)
Definition decode_entity (e : bytes) : option bytes :=
  if bytes_eqb e (str "lt") then Some (str "<")
  else if bytes_eqb e (str "gt") then Some (str ">")
  else if bytes_eqb e (str "amp") then Some (str "&")
  else if bytes_eqb e (str "apos") then Some (str "'")
  else if bytes_eqb e (str "quot") then Some (str """")
  else match e with
       | "#"%byte :: "x"%byte :: (_ :: _) as ds =>
           match parse_num 16 0 ds with Some n => utf8_encode n | None => None end
       | "#"%byte :: (_ :: _) as ds =>
           match parse_num 10 0 ds with Some n => utf8_encode n | None => None end
       | _ => None
       end.

Definition step (st : pstate) (b : byte) : pstep :=
  match st with
  | PStart decl =>
      if is_space b then Next (PStart decl)
      else if byte_eqb b "<"%byte then Next (PLt decl) else Fail
  | PLt decl =>
      if byte_eqb b "?"%byte then (if decl then Fail else Next (PDecl false))
      else if name_byte b then Next (PName [b]) else Fail
  | PDecl q =>
      if q && byte_eqb b ">"%byte then Next (PStart true)
      else Next (PDecl (byte_eqb b "?"%byte))
  | PName acc =>
      if name_byte b then Next (PName (b :: acc))
      else if is_space b then Next (PGap (rev acc) [])
      else if byte_eqb b ">"%byte then Done (rev acc) [] false
      else if byte_eqb b "/"%byte then Next (PSlash (rev acc) [])
      else Fail
  | PGap name attrs =>
      if is_space b then Next (PGap name attrs)
      else if byte_eqb b ">"%byte then Done name (rev attrs) false
      else if byte_eqb b "/"%byte then Next (PSlash name attrs)
      else if name_byte b then Next (PAName name attrs [b])
      else Fail
  | PSlash name attrs =>
      if byte_eqb b ">"%byte then Done name (rev attrs) true else Fail
  | PAName name attrs acc =>
      if name_byte b then Next (PAName name attrs (b :: acc))
      else if byte_eqb b "="%byte then Next (PEq name attrs (rev acc))
      else if is_space b then Next (PAfterName name attrs (rev acc))
      else Fail
  | PAfterName name attrs an =>
      if is_space b then Next (PAfterName name attrs an)
      else if byte_eqb b "="%byte then Next (PEq name attrs an)
      else Fail
  | PEq name attrs an =>
      if is_space b then Next (PEq name attrs an)
      else if byte_eqb b "'"%byte || byte_eqb b """"%byte then Next (PVal name attrs an b [] None)
      else Fail
  | PVal name attrs an q acc None =>
      if byte_eqb b q then
        (if text_ok (rev acc) then Next (PGap name (mkra an (rev acc) :: attrs)) else Fail)
      else if byte_eqb b "<"%byte then Fail
      else if byte_eqb b "&"%byte then Next (PVal name attrs an q acc (Some []))
      else Next (PVal name attrs an q (b :: acc) None)
  | PVal name attrs an q acc (Some e) =>
      if byte_eqb b ";"%byte then
        match decode_entity (rev e) with
        | Some d => Next (PVal name attrs an q (rev d ++ acc) None)
        | None => Fail
        end
      else if ent_byte b then Next (PVal name attrs an q acc (Some (b :: e)))
      else Fail
  end.

(* runs the machine; on Done returns the unread rest *)
Fixpoint run (st : pstate) (s : bytes) : option (bytes * list rattr * bool * bytes) :=
  match s with
  | [] => None
  | b :: r =>
      match step st b with
      | Next st' => run st' r
      | Done n at_ sc => Some (n, at_, sc, r)
      | Fail => None
      end
  end.

(* feeds a piece of input that must not finish the tag *)
Fixpoint feed (st : pstate) (s : bytes) : option pstate :=
  match s with
  | [] => Some st
  | b :: r => match step st b with Next st' => feed st' r | _ => None end
  end.

(* --- name space translation, as encoding/xml's Decoder.Token does it --- *)

Definition colon : byte := ":"%byte.

Fixpoint cut_colon (pre : bytes) (s : bytes) : option (bytes * bytes) :=
  match s with
  | [] => None
  | b :: r => if byte_eqb b colon then Some (rev pre, r) else cut_colon (b :: pre) r
  end.

(* nsname: (prefix, local) *)
Definition ns_name (s : bytes) : bytes * bytes :=
  match cut_colon [] s with
  | None => ([], s)
  | Some (p, l) =>
      if is_nil p || is_nil l || in_bytes colon l then ([], s) else (p, l)
  end.

Definition xmlns_b : bytes := str "xmlns".
Definition xml_b : bytes := str "xml".

(* last binding of a prefix wins (map assignment) *)
Fixpoint ns_lookup (p : bytes) (binds : list (bytes * bytes)) (found : option bytes) : option bytes :=
  match binds with
  | [] => found
  | (k, v) :: r => ns_lookup p r (if bytes_eqb k p then Some v else found)
  end.

Definition ns_binds (attrs : list rattr) : list (bytes * bytes) :=
  flat_map (fun a => let '(p, l) := ns_name (ra_name a) in
                     if bytes_eqb p xmlns_b then [(l, ra_val a)]
                     else if is_nil p && bytes_eqb l xmlns_b then [([], ra_val a)]
                     else []) attrs.

Definition translate (binds : list (bytes * bytes)) (is_elem : bool) (n : bytes * bytes) : bytes * bytes :=
  let '(p, l) := n in
  if bytes_eqb p xmlns_b then n
  else if is_nil p && negb is_elem then n
  else if bytes_eqb p xml_b then (ns_xml, l)
  else if is_nil p && bytes_eqb l xmlns_b then n
  else match ns_lookup p binds None with
       | Some v => (v, l)
       | None => n
       end.

Definition to_token (name : bytes) (attrs : list rattr) : tok :=
  let binds := ns_binds attrs in
  let '(s, l) := translate binds true (ns_name name) in
  TStart s l (map (fun a => let '(s', l') := translate binds false (ns_name (ra_name a)) in
                            mkattr s' l' (ra_val a)) attrs).

(* the start tag at the head of s (after an optional declaration): token,
   whether it is self-closing, and the unread rest *)
(* encoding/xml refuses names with more than one colon *)
Definition colons_ok (n : bytes) : bool := Nat.leb (count_occ byte_eq_dec n colon) 1.

Definition read_start (s : bytes) : option (tok * bool * bytes) :=
  match run (PStart false) s with
  | Some (n, at_, sc, rest) =>
      if colons_ok n && forallb (fun a => colons_ok (ra_name a)) at_
      then Some (to_token n at_, sc, rest) else None
  | None => None
  end.

(* ------------------------------------------------------------------ *)
(* 8. stream.Info and Info.FromStartElement                            *)

Record info := mkinfo {
  i_ns : bytes; i_local : bytes;     (* Name *)
  i_xmlns : bytes;
  i_to : jid; i_from : jid;
  i_id : bytes;
  i_ver : N * N;
  i_lang : bytes }.

Definition info_zero : info := mkinfo [] [] [] jid_zero jid_zero [] (0, 0) [].

Definition info_eqb (a b : info) : bool :=
  bytes_eqb (i_ns a) (i_ns b) && bytes_eqb (i_local a) (i_local b) && bytes_eqb (i_xmlns a) (i_xmlns b) &&
  jid_eqb (i_to a) (i_to b) && jid_eqb (i_from a) (i_from b) && bytes_eqb (i_id a) (i_id b) &&
  ver_eqb (i_ver a) (i_ver b) && bytes_eqb (i_lang a) (i_lang b).

Definition set_name (i : info) ns l := mkinfo ns l (i_xmlns i) (i_to i) (i_from i) (i_id i) (i_ver i) (i_lang i).
Definition set_xmlns (i : info) v := mkinfo (i_ns i) (i_local i) v (i_to i) (i_from i) (i_id i) (i_ver i) (i_lang i).
Definition set_to (i : info) v := mkinfo (i_ns i) (i_local i) (i_xmlns i) v (i_from i) (i_id i) (i_ver i) (i_lang i).
Definition set_from (i : info) v := mkinfo (i_ns i) (i_local i) (i_xmlns i) (i_to i) v (i_id i) (i_ver i) (i_lang i).
Definition set_id (i : info) v := mkinfo (i_ns i) (i_local i) (i_xmlns i) (i_to i) (i_from i) v (i_ver i) (i_lang i).
Definition set_ver (i : info) v := mkinfo (i_ns i) (i_local i) (i_xmlns i) (i_to i) (i_from i) (i_id i) v (i_lang i).
Definition set_lang (i : info) v := mkinfo (i_ns i) (i_local i) (i_xmlns i) (i_to i) (i_from i) (i_id i) (i_ver i) v.

(* results of Expect and of the stream reader. Stream errors generated by the
   library (stream.InvalidNamespace, ...) and stream errors received from the
   peer are the same Go values, hence one constructor. *)
Inductive eres :=
| EOk
| EIo                     (* the token reader failed: end of input, syntax error *)
| EStream (cond : bytes)  (* a stream.Error with this condition *)
| EOther.                 (* any other error value *)

Definition eres_eqb (a b : eres) : bool :=
  match a, b with
  | EOk, EOk | EIo, EIo | EOther, EOther => true
  | EStream x, EStream y => bytes_eqb x y
  | _, _ => false
  end.

Definition c_invalid_namespace := str "invalid-namespace".
Definition c_unsupported_version := str "unsupported-version".
Definition c_bad_format := str "bad-format".
Definition c_improper_addressing := str "improper-addressing".
Definition c_undefined_condition := str "undefined-condition".
Definition c_policy_violation := str "policy-violation".

Section WithParse.
(* jid.Parse on an attribute value / character data: Some = the parsed JID *)
Variable parse : bytes -> option jid.

(* returns the error (if any) and the Info as left behind *)
Fixpoint from_attrs (attrs : list attr) (i : info) : option eres * info :=
  match attrs with
  | [] => (None, i)
  | a :: r =>
      if is_nil (a_space a) then
        if bytes_eqb (a_local a) (str "xmlns") then from_attrs r (set_xmlns i (a_val a))
        else if bytes_eqb (a_local a) (str "to") then
          (if is_nil (a_val a) then from_attrs r (set_to i jid_zero)   (* the empty attribute is the zero JID *)
           else match parse (a_val a) with
                | Some j => from_attrs r (set_to i j)
                | None => (Some (EStream c_improper_addressing), set_to i jid_zero)
                end)
        else if bytes_eqb (a_local a) (str "from") then
          (if is_nil (a_val a) then from_attrs r (set_from i jid_zero)
           else match parse (a_val a) with
                | Some j => from_attrs r (set_from i j)
                | None => (Some (EStream c_improper_addressing), set_from i jid_zero)
                end)
        else if bytes_eqb (a_local a) (str "id") then from_attrs r (set_id i (a_val a))
        else if bytes_eqb (a_local a) (str "version") then
          match parse_version (a_val a) with
          | Some v => from_attrs r (set_ver i v)
          | None => (Some (EStream c_bad_format), i)
          end
        else from_attrs r i
      else if (bytes_eqb (a_space a) ns_xml || bytes_eqb (a_space a) (str "xml")) && bytes_eqb (a_local a) (str "lang") then
        from_attrs r (set_lang i (a_val a))
      else from_attrs r i
  end.

Definition from_start_element (ns l : bytes) (attrs : list attr) (i : info) : option eres * info :=
  from_attrs attrs (set_name i ns l).

(* ------------------------------------------------------------------ *)
(* 9. stream.Error.UnmarshalXML and the readers                        *)

(* The children of <stream:error>, start token consumed. Every child element
   is skipped whole ([skipping] = Some depth while inside it); a child in the
   stream error name space other than <text/> sets the condition, a child in
   any other name space (an application-specific condition) is ignored. *)
Fixpoint stream_error (skipping : option nat) (cond : bytes) (ts : list tok) : eres :=
  match ts with
  | [] => EIo
  | t :: r =>
      match skipping with
      | Some d =>
          match t with
          | TStart _ _ _ => stream_error (Some (S d)) cond r
          | TEnd _ _ => stream_error (match d with O => None | S d' => Some d' end) cond r
          | _ => stream_error (Some d) cond r
          end
      | None =>
          match t with
          | TEnd _ _ => EStream cond
          | TStart ns l _ =>
              stream_error (Some O)
                (if bytes_eqb ns ns_stream_error && negb (bytes_eqb l (str "text")) then l else cond) r
          | _ => stream_error None cond r
          end
      end
  end.

(* xmlstream.Skip through the negotiating reader, inside <open> (ws) *)
Fixpoint ws_skip (depth : nat) (ts : list tok) : eres * list tok :=
  match ts with
  | [] => (EIo, [])
  | TStart ns l _ :: r =>
      if bytes_eqb ns ns_stream then
        if bytes_eqb l (str "error") then (stream_error None [] r, [])
        else if bytes_eqb l (str "stream") then ws_skip (S depth) r
        else (EOther, [])
      else ws_skip (S depth) r
  | TEnd ns l :: r =>
      if bytes_eqb ns ns_stream then
        (if bytes_eqb l (str "stream") then (EIo, []) else (EStream c_bad_format, []))
      else match depth with O => (EOk, r) | S d => ws_skip d r end
  | TChar _ :: r => ws_skip depth r
  | _ :: _ => (EOther, [])
  end.

(* the checks of Expect after the start element was read *)
Definition expect_start (recv ws : bool) (ns l : bytes) (attrs : list attr) (i : info) (r : list tok)
  : eres * info * list tok :=
  let is_hdr := if ws then bytes_eqb l (str "open") && bytes_eqb ns ns_ws
                else bytes_eqb l (str "stream") && bytes_eqb ns ns_stream in
  if negb is_hdr then (EStream c_invalid_namespace, i, [])
  else
    let '(e, r') := if ws then ws_skip 0 r else (EOk, r) in
    match e with
    | EOk =>
        match from_start_element ns l attrs i with
        | (Some err, i') => (err, i', [])
        | (None, i') =>
            if negb (ver_eqb (i_ver i') default_version) then (EStream c_unsupported_version, i', [])
            else if negb ws && negb (bytes_eqb (i_xmlns i') ns_client) && negb (bytes_eqb (i_xmlns i') ns_server)
            then (EStream c_invalid_namespace, i', [])
            else if negb recv && is_nil (i_id i') then (EStream c_bad_format, i', [])
            else (EOk, i', r')
        end
    | _ => (e, i, [])
    end.

(* Expect: decl.Skip (started), the negotiating reader, the loop of Expect.
   [deep]: the reader's depth counter is not 0 (it wraps around below 0 when an
   end element arrives first, which encoding/xml never produces). *)
Fixpoint expect_go (recv ws : bool) (started deep : bool) (i : info) (ts : list tok) : eres * info * list tok :=
  match ts with
  | [] => (EIo, i, [])
  | t :: r =>
      match t with
      | TProcInst target =>
          if negb started && bytes_eqb target (str "xml")
          then expect_go recv ws true deep i r   (* the declaration is dropped *)
          else (EOther, i, [])
      | TComment | TDirective => (EOther, i, [])
      | TChar b => if deep || all_space b then expect_go recv ws true deep i r else (EOther, i, [])
      | TEnd ns l =>
          if bytes_eqb ns ns_stream then
            (if bytes_eqb l (str "stream") then (EIo, i, []) else (EStream c_bad_format, i, []))
          else expect_go recv ws true true i r
      | TStart ns l attrs =>
          if bytes_eqb ns ns_stream && bytes_eqb l (str "error") then
            (stream_error None [] r, i, [])
          else if bytes_eqb ns ns_stream && negb (bytes_eqb l (str "stream")) then (EOther, i, [])
          else expect_start recv ws ns l attrs i r
      end
  end.

Definition expect (recv ws : bool) (i : info) (ts : list tok) : eres * info * list tok :=
  expect_go recv ws false false i ts.

(* ------------------------------------------------------------------ *)
(* 10. negotiator: header exchange and address checks                  *)

Inductive nres :=
| NOk
| NExpect (e : eres)     (* Expect failed *)
| NMismatch.             (* "stream origin/location ... does not match previously set ..." *)

Definition nres_eqb (a b : nres) : bool :=
  match a, b with
  | NOk, NOk | NMismatch, NMismatch => true
  | NExpect x, NExpect y => eres_eqb x y
  | _, _ => false
  end.

(* negotiateSession: "Clear the info if the stream was restarted (but preserve to/from)" *)
Definition reset_info (i : info) : info := mkinfo [] [] [] (i_to i) (i_from i) [] (0, 0) [].

Definition content_ns (s2s : bool) : bytes := if s2s then ns_server else ns_client.

(* One header exchange. LocalAddr = in.To, RemoteAddr = in.From; [in] is the
   session's own Info, written by Expect. rid = attr.RandomID() of this call.
   Returns the result, the Info left behind and the bytes written. *)
Definition neg_round (recv s2s ws : bool) (lang rid : bytes) (i : info) (ts : list tok) : nres * info * bytes :=
  if recv then
    let location := i_to i in
    let origin := i_from i in
    let '(e, i', _) := expect true ws i ts in
    match e with
    | EOk =>
        if negb ((negb s2s && jid_eqb origin jid_zero) || jid_eqb origin (i_from i')) then (NMismatch, i', [])
        else if negb (jid_eqb location jid_zero || jid_eqb location (i_to i')) then (NMismatch, i', [])
        else (NOk, i', send_header ws (content_ns s2s) default_version lang
                                   (jid_string (i_from i')) (jid_string (i_to i')) rid)
    | _ => (NExpect e, i', [])
    end
  else
    let origin := i_to i in
    let location := i_from i in
    let wire := send_header ws (content_ns s2s) default_version lang
                            (jid_string location) (jid_string origin) [] in
    let '(e, i', _) := expect false ws i ts in
    match e with
    | EOk =>
        if negb (jid_eqb location (i_from i')) then (NMismatch, i', wire)
        else if negb (jid_eqb (i_to i') jid_zero) && negb (jid_eqb origin (i_to i')) then (NMismatch, i', wire)
        else if jid_eqb (i_to i') jid_zero then (NOk, set_to i' origin, wire)   (* a missing or empty "to" keeps our address *)
        else (NOk, i', wire)
    | _ => (NExpect e, i', wire)
    end.

(* A sequence of stream (re)starts: one (random id, token script) per start.
   Returns the result of the last round run, the final Info, and the bytes
   written per round. *)
Fixpoint neg_rounds (recv s2s ws : bool) (lang : bytes) (i : info) (rounds : list (bytes * list tok))
  : nres * info * list bytes :=
  match rounds with
  | [] => (NOk, i, [])
  | (rid, ts) :: rest =>
      let '(res, i', w) := neg_round recv s2s ws lang rid (reset_info i) ts in
      match res with
      | NOk => let '(res2, i2, ws') := neg_rounds recv s2s ws lang i' rest in (res2, i2, w :: ws')
      | _ => (res, i', [w])
      end
  end.

(* ------------------------------------------------------------------ *)
(* 11. Resource binding                                                *)

Inductive node :=
| NElem (ns local : bytes) (attrs : list attr) (kids : list node)
| NText (b : bytes).

Fixpoint flatten (n : node) : list tok :=
  match n with
  | NText b => [TChar b]
  | NElem ns l at_ kids => TStart ns l at_ :: flat_map flatten kids ++ [TEnd ns l]
  end.

Definition text_of (kids : list node) : bytes :=
  flat_map (fun k => match k with NText b => b | _ => [] end) kids.

(* last attribute with this local name (any name space), as encoding/xml
   assigns struct fields tagged `name,attr` *)
Fixpoint attr_last (l : bytes) (attrs : list attr) (cur : option bytes) : option bytes :=
  match attrs with
  | [] => cur
  | a :: r => attr_last l r (if bytes_eqb (a_local a) l then Some (a_val a) else cur)
  end.

(* attr.Get: first attribute with this local name *)
Fixpoint attr_first (l : bytes) (attrs : list attr) : bytes :=
  match attrs with
  | [] => []
  | a :: r => if bytes_eqb (a_local a) l then a_val a else attr_first l r
  end.

(* to/from attributes through JID.UnmarshalXMLAttr: every attribute named so is
   unmarshalled in order; an invalid one fails the decode *)
Fixpoint jid_attr (l : bytes) (attrs : list attr) (cur : jid) : option jid :=
  match attrs with
  | [] => Some cur
  | a :: r =>
      if bytes_eqb (a_local a) l then
        (if is_nil (a_val a) then jid_attr l r jid_zero
         else match parse (a_val a) with Some j => jid_attr l r j | None => None end)
      else jid_attr l r cur
  end.

Record bind_iq := mkbiq {
  b_id : bytes; b_type : bytes; b_to : jid; b_from : jid;
  b_resource : bytes; b_jid : jid; b_err : bool }.

(* bindPayload: children <resource> and <jid> in any name space *)
Fixpoint payload_kids (kids : list node) (res : bytes) (j : jid) : option (bytes * jid) :=
  match kids with
  | [] => Some (res, j)
  | NElem _ l _ ks :: r =>
      if bytes_eqb l (str "resource") then payload_kids r (text_of ks) j
      else if bytes_eqb l (str "jid") then
        match parse (text_of ks) with
        | Some j' => payload_kids r res j'
        | None => None
        end
      else payload_kids r res j
  | NText _ :: r => payload_kids r res j
  end.

(* children of the iq: <bind xmlns=bind> into Bind, <error> (any name space) into Err *)
Fixpoint iq_kids (kids : list node) (res : bytes) (j : jid) (err : bool) : option (bytes * jid * bool) :=
  match kids with
  | [] => Some (res, j, err)
  | NElem ns l _ ks :: r =>
      if bytes_eqb l (str "bind") && bytes_eqb ns ns_bind then
        match payload_kids ks res j with
        | Some (res', j') => iq_kids r res' j' err
        | None => None
        end
      else if bytes_eqb l (str "error") then iq_kids r res j true
      else iq_kids r res j err
  | NText _ :: r => iq_kids r res j err
  end.

(* xml.Decoder.DecodeElement(&bindIQ{}, &start) on an element named iq *)
Definition decode_bind_iq (attrs : list attr) (kids : list node) : option bind_iq :=
  match jid_attr (str "to") attrs jid_zero, jid_attr (str "from") attrs jid_zero with
  | Some to, Some from =>
      match iq_kids kids [] jid_zero false with
      | Some (res, j, err) =>
          Some (mkbiq (match attr_last (str "id") attrs None with Some v => v | None => [] end)
                      (match attr_last (str "type") attrs None with Some v => v | None => [] end)
                      to from res j err)
      | None => None
      end
  | _, _ => None
  end.

(* stanza.IQ.StartElement *)
Definition iq_attrs (type : bytes) (to from : jid) (id : bytes) : list attr :=
  mkattr [] (str "type") type ::
  (if jid_eqb to jid_zero then [] else [mkattr [] (str "to") (jid_string to)]) ++
  (if jid_eqb from jid_zero then [] else [mkattr [] (str "from") (jid_string from)]) ++
  (if is_nil id then [] else [mkattr [] (str "id") id]).

(* bindPayload.TokenReader (what a parser sees: the children carry no name
   space declaration of their own and inherit the bind name space) *)
Definition payload_nodes (res : bytes) (j : jid) : list node :=
  if negb (is_nil res) then [NElem ns_bind (str "resource") [] [NText res]]
  else if negb (is_nil (jid_string j)) then [NElem ns_bind (str "jid") [] [NText (jid_string j)]]
  else [].

(* the request of the initiating side *)
Definition bind_request (reqid res : bytes) : node :=
  NElem ns_client (str "iq") (iq_attrs iq_set jid_zero jid_zero reqid)
        [NElem ns_bind (str "bind") [] (payload_nodes res jid_zero)].

Inductive bres :=
| BReady             (* mask = Ready, no error *)
| BIo                (* reading failed *)
| BStream (cond : bytes)
| BStanzaErr         (* a stanza error (the reply's, or bad-request) *)
| BOther.            (* anything else: DecodeElement failed, not an iq, callback error *)

Definition bres_eqb (a b : bres) : bool :=
  match a, b with
  | BReady, BReady | BIo, BIo | BStanzaErr, BStanzaErr | BOther, BOther => true
  | BStream x, BStream y => bytes_eqb x y
  | _, _ => false
  end.

(* what the session reads first when it waits for an element *)
Inductive item :=
| IElem (n : node)
| INonStart            (* a token that is not a start element (white space) *)
| IFail (r : bres).    (* the stream reader (internal/stream Reader, not modelled here) or the
                          tokenizer failed with an error of this class *)

(* a failure is never "Ready" *)
Definition fail_class (r : bres) : bres := match r with BReady => BOther | _ => r end.

(* the initiating side after it sent the request with id reqid: result and
   the new local address *)
Definition bind_client (reqid : bytes) (reply : item) (local : jid) : bres * jid :=
  match reply with
  | IFail r => (fail_class r, local)
  | INonStart => (BStream c_bad_format, local)
  | IElem (NText _) => (BStream c_bad_format, local)
  | IElem (NElem ns l attrs kids) =>
      if negb (bytes_eqb ns ns_client && bytes_eqb l (str "iq")) then (BStream c_bad_format, local)
      else match decode_bind_iq attrs kids with
           | None => (BOther, local)
           | Some q =>
               if negb (bytes_eqb (b_id q) reqid) then (BStream c_undefined_condition, local)
               else if bytes_eqb (b_type q) iq_result then
                 (if jid_eqb (b_jid q) jid_zero then (BStream c_bad_format, local) else (BReady, b_jid q))
               else (BStanzaErr, local)   (* the reply's error, or bad-request for any other type *)
           end
  end.

(* what the application's callback (or the default) decides *)
Inductive verdict :=
| VJid (j : jid)                    (* callback returned this address *)
| VStanzaErr (err : list node)      (* callback returned a stanza.Error, rendered as these nodes *)
| VFail.                            (* callback returned another error *)

(* default: RemoteAddr().WithResource(attr.RandomID()); WithResource refuses a
   JID that has no domainpart (the remote address is not known) *)
Definition default_verdict (remote : jid) (rid : bytes) : verdict :=
  if is_nil (j_domain remote) then VFail else VJid (mkjid (j_local remote) (j_domain remote) rid).

(* the receiving side: result, the resource handed to the callback (if it was
   called) and the reply written *)
Definition bind_server (s2s : bool) (request : item) (v : verdict) : bres * option bytes * list tok :=
  match request with
  | IFail r => (fail_class r, None, [])
  | INonStart => (BOther, None, [])
  | IElem (NText _) => (BOther, None, [])
  | IElem (NElem ns l attrs kids) =>
      let iqns := content_ns s2s in
      if negb (bytes_eqb ns iqns && bytes_eqb l (str "iq")) then (BOther, None, [])
      else match decode_bind_iq attrs kids with
           | None => (BOther, None, [])
           | Some q =>
               let iqid := attr_first (str "id") attrs in
               match v with
               | VFail => (BOther, Some (b_resource q), [])
               | VJid j =>
                   (BReady, Some (b_resource q),
                    flatten (NElem iqns (str "iq") (iq_attrs iq_result (b_from q) (b_to q) iqid)
                                   [NElem ns_bind (str "bind") [] (payload_nodes [] j)]))
               | VStanzaErr en =>
                   (* the error is reported to the peer, then returned: no resource
                      was bound, the session is not ready *)
                   (BStanzaErr, Some (b_resource q),
                    flatten (NElem iqns (str "iq") (iq_attrs iq_error (b_from q) (b_to q) iqid) en))
               end
           end
  end.

(* Several bind negotiations on the receiving side performed with one and the
   same StreamFeature value and no callback (sessions of a server that share a
   feature list): (peer's address, request, this negotiation's attr.RandomID()).
   Every negotiation draws its own random resource. *)
Fixpoint bind_default_many (s2s : bool) (negs : list (jid * item * bytes)) : list (bres * list tok) :=
  match negs with
  | [] => []
  | (remote, request, rid) :: r =>
      let '(res, _, reply) := bind_server s2s request (default_verdict remote rid) in
      (res, reply) :: bind_default_many s2s r
  end.

End WithParse.

(* ------------------------------------------------------------------ *)
(* 12. Correspondence records (terms written by the harness)           *)

(* jid.Parse as observed by the harness on every value that occurs in a case *)
Fixpoint lookup_parse (tbl : list (bytes * option jid)) (v : bytes) : option jid :=
  match tbl with
  | [] => None
  | (k, r) :: rest => if bytes_eqb k v then r else lookup_parse rest v
  end.

Definition opt_eqb {A} (eq : A -> A -> bool) (a b : option A) : bool :=
  match a, b with
  | Some x, Some y => eq x y
  | None, None => true
  | _, _ => false
  end.

(* Send: the bytes written, and what encoding/xml reads back from them *)
Record scase := mkscase {
  s_ws : bool; s_xmlns : bytes; s_ver : N * N; s_lang : bytes; s_to : bytes; s_from : bytes; s_id : bytes;
  so_wire : bytes;
  so_name : bytes * bytes;             (* Info.Name after Send *)
  so_parsed : option (tok * bool) }.   (* the start element encoding/xml reads, and whether an end follows at once *)

Definition scase_ok (c : scase) : bool :=
  bytes_eqb (send_header (s_ws c) (s_xmlns c) (s_ver c) (s_lang c) (s_to c) (s_from c) (s_id c)) (so_wire c) &&
  bytes_eqb (fst (send_name (s_ws c))) (fst (so_name c)) && bytes_eqb (snd (send_name (s_ws c))) (snd (so_name c)) &&
  opt_eqb (fun a b => tok_eqb (fst a) (fst b) && Bool.eqb (snd a) (snd b))
          (match read_start (so_wire c) with Some (t, sc, _) => Some (t, sc) | None => None end)
          (so_parsed c).

(* the start-tag reader against encoding/xml on other inputs *)
Record rcase := mkrcase { r_in : bytes; ro_parsed : option (tok * bool) }.

Definition rcase_ok (c : rcase) : bool :=
  opt_eqb (fun a b => tok_eqb (fst a) (fst b) && Bool.eqb (snd a) (snd b))
          (match read_start (r_in c) with Some (t, sc, _) => Some (t, sc) | None => None end)
          (ro_parsed c).

(* Expect *)
Record ecase := mkecase {
  e_tbl : list (bytes * option jid);
  e_recv : bool; e_ws : bool; e_info : info; e_toks : list tok;
  eo_res : eres; eo_info : info; eo_rest : nat }.   (* rest = tokens left unread (on success) *)

Definition ecase_ok (c : ecase) : bool :=
  let '(e, i, rest) := expect (lookup_parse (e_tbl c)) (e_recv c) (e_ws c) (e_info c) (e_toks c) in
  eres_eqb e (eo_res c) && info_eqb i (eo_info c) &&
  match e with EOk => Nat.eqb (length rest) (eo_rest c) | _ => true end.

(* sessions through the real negotiator across restarts *)
Record ncase := mkncase {
  n_tbl : list (bytes * option jid);
  n_recv : bool; n_s2s : bool; n_ws : bool; n_lang : bytes;
  n_local : jid; n_remote : jid;
  n_rounds : list (bytes * list tok);
  no_res : nres; no_local : jid; no_remote : jid; no_wires : list bytes }.

Definition ncase_ok (c : ncase) : bool :=
  let i0 := mkinfo [] [] [] (n_local c) (n_remote c) [] (0, 0) [] in
  let '(res, i, wires) := neg_rounds (lookup_parse (n_tbl c)) (n_recv c) (n_s2s c) (n_ws c) (n_lang c) i0 (n_rounds c) in
  nres_eqb res (no_res c) && jid_eqb (i_to i) (no_local c) && jid_eqb (i_from i) (no_remote c) &&
  list_eqb bytes_eqb wires (no_wires c).

(* bind, initiating side *)
Record bccase := mkbccase {
  bc_tbl : list (bytes * option jid);
  bc_local : jid; bc_reqid : bytes; bc_reply : item;
  bco_request : list tok; bco_res : bres; bco_local : jid }.

Definition bccase_ok (c : bccase) : bool :=
  let '(res, l) := bind_client (lookup_parse (bc_tbl c)) (bc_reqid c) (bc_reply c) (bc_local c) in
  list_eqb tok_eqb (flatten (bind_request (bc_reqid c) (j_res (bc_local c)))) (bco_request c) &&
  bres_eqb res (bco_res c) && jid_eqb l (bco_local c).

(* bind, receiving side *)
Record bscase := mkbscase {
  bs_tbl : list (bytes * option jid);
  bs_s2s : bool; bs_custom : bool; bs_request : item; bs_verdict : verdict;
  bso_res : bres; bso_cb : option bytes; bso_reply : list tok }.

Definition bscase_ok (c : bscase) : bool :=
  let '(res, cb, reply) := bind_server (lookup_parse (bs_tbl c)) (bs_s2s c) (bs_request c) (bs_verdict c) in
  bres_eqb res (bso_res c) && (if bs_custom c then opt_eqb bytes_eqb cb (bso_cb c) else true) &&
  list_eqb tok_eqb reply (bso_reply c).

(* several default binds sharing one feature value; the resources drawn (the
   observed ones) must be pairwise distinct *)
Fixpoint nodupb (l : list bytes) : bool :=
  match l with
  | [] => true
  | x :: r => negb (existsb (bytes_eqb x) r) && nodupb r
  end.

Record bmcase := mkbmcase {
  bm_tbl : list (bytes * option jid);
  bm_s2s : bool; bm_negs : list (jid * item * bytes);
  bmo : list (bres * list tok) }.

Definition bmcase_ok (c : bmcase) : bool :=
  list_eqb (fun a b => bres_eqb (fst a) (fst b) && list_eqb tok_eqb (snd a) (snd b))
           (bind_default_many (lookup_parse (bm_tbl c)) (bm_s2s c) (bm_negs c)) (bmo c) &&
  nodupb (filter (fun r => negb (is_nil r)) (map snd (bm_negs c))).

Fixpoint failing {A} (ok : A -> bool) (i : nat) (l : list A) : list nat :=
  match l with
  | [] => []
  | x :: r => if ok x then failing ok (S i) r else i :: failing ok (S i) r
  end.
