(* C12/Examples.v — non-vacuity and worked examples. *)
From XV Require Import lib.Bytes gen.StreamHdr C12.Model C12.Proofs.
