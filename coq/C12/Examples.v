(* C12/Examples.v — non-vacuity: concrete, non-trivial instances of every
   hypothesis used in Properties.v, and worked examples. *)
From XV Require Import lib.Bytes gen.StreamHdr C12.Model C12.Proofs.
From Coq Require Import NArith.
Local Open Scope N_scope.

(* an address with a quote, a space, angle brackets and an ampersand in its resourcepart *)
Definition me : jid := mkjid (str "me") (str "example.net") (str "it's <&>").
Definition srv : jid := mkjid [] (str "example.net") [].

(* jid.Parse on the two strings that occur below *)
Definition parse_ex (v : bytes) : option jid :=
  if bytes_eqb v (jid_string me) then Some me
  else if bytes_eqb v (jid_string srv) then Some srv else None.

Example ex_me_string : jid_string me = str "me@example.net/it's <&>".
Proof. reflexivity. Qed.

Example ex_valid_me : valid_jid parse_ex me.
Proof. split; [vm_compute; reflexivity | right; vm_compute; reflexivity]. Qed.
Example ex_valid_srv : valid_jid parse_ex srv.
Proof. split; [vm_compute; reflexivity | right; vm_compute; reflexivity]. Qed.
Example ex_valid_zero : valid_jid parse_ex jid_zero.
Proof. split; [reflexivity | left; reflexivity]. Qed.
Example ex_parse_nonzero : forall v j, parse_ex v = Some j -> j <> jid_zero.
Proof.
  intros v j H. unfold parse_ex in H.
  destruct (bytes_eqb v (jid_string me)); [inversion H; discriminate|].
  destruct (bytes_eqb v (jid_string srv)); [inversion H; discriminate | discriminate].
Qed.

(* clean text: ASCII specials, two-, three- and four-byte characters *)
Example ex_text_ok : text_ok (str "it's <&> ""q"" " ++ hex "c3a9e697a5f09f9880") = true.
Proof. vm_compute. reflexivity. Qed.
(* not clean: a lone continuation byte, a control character, U+FFFE *)
Example ex_text_bad : text_ok (hex "80") = false /\ text_ok (hex "01") = false /\ text_ok (hex "efbfbe") = false.
Proof. vm_compute. repeat split; reflexivity. Qed.
Example ex_escape_replaces : escape_text (hex "41ff01efbfbe42") = hex "41efbfbdefbfbdefbfbd42".
Proof. vm_compute. reflexivity. Qed.
Example ex_plain : forallb plainb ns_client = true /\ forallb plainb ns_server = true.
Proof. vm_compute. split; reflexivity. Qed.

(* the header of a c2s initiator, byte for byte *)
Example ex_send :
  send_header false ns_client default_version (str "en") (jid_string srv) (jid_string me) [] =
  str "<?xml version=""1.0"" encoding=""UTF-8""?><stream:stream xmlns='jabber:client' xmlns:stream='http://etherx.jabber.org/streams' version='1.0' to='example.net' from='me@example.net/it&#39;s &lt;&amp;&gt;' xml:lang='en'>".
Proof. vm_compute. reflexivity. Qed.

Example ex_send_ws :
  send_header true ns_client default_version [] (jid_string me) [] (str "a""b") =
  str "<open xmlns=""urn:ietf:params:xml:ns:xmpp-framing"" version='1.0' id='a&#34;b' to='me@example.net/it&#39;s &lt;&amp;&gt;'/>".
Proof. vm_compute. reflexivity. Qed.

(* read back: the resourcepart arrives intact *)
Example ex_read :
  read_start (send_header false ns_client default_version (str "en") (jid_string srv) (jid_string me) [] ++ str "<x/>") =
  Some (tcp_token ns_client default_version (str "en") (jid_string srv) (jid_string me) [], false, str "<x/>").
Proof. vm_compute. reflexivity. Qed.

(* the reader refuses what the unrepaired Send used to print *)
Example ex_read_unescaped :
  read_start (str "<stream:stream xmlns='jabber:client' xmlns:stream='http://etherx.jabber.org/streams' version='1.0' from='me@example.net/it's <&>'>") = None.
Proof. vm_compute. reflexivity. Qed.

(* other quoting, entities and character references *)
Example ex_read_entities :
  read_start (str "<a b=""x&apos;&#x3c;&#62;&quot;"" c = '&amp;'/>") =
  Some (TStart [] (str "a") [mkattr [] (str "b") (str "x'<>"""); mkattr [] (str "c") (str "&")], true, []).
Proof. vm_compute. reflexivity. Qed.

(* Expect: declaration, white space, header; the receiving side needs no id *)
Definition hdr_tok : tok := tcp_token ns_client default_version (str "en") (jid_string srv) (jid_string me) [].
Example ex_expect_ok :
  expect parse_ex true false info_zero [TProcInst (str "xml"); TChar (str " "); hdr_tok; TStart ns_stream (str "features") []] =
  (EOk, mkinfo ns_stream (str "stream") ns_client srv me [] (1, 0) (str "en"), [TStart ns_stream (str "features") []]).
Proof. vm_compute. reflexivity. Qed.
Example ex_no_end : no_end_before_start [TProcInst (str "xml"); TChar (str " "); hdr_tok] = true.
Proof. reflexivity. Qed.
(* the initiating side refuses it: no stream id *)
Example ex_expect_no_id : fst (fst (expect parse_ex false false info_zero [hdr_tok])) = EStream c_bad_format.
Proof. vm_compute. reflexivity. Qed.
(* version 2.0, a comment first, the wrong element *)
Example ex_expect_rejects :
  fst (fst (expect parse_ex true false info_zero
             [TStart ns_stream (str "stream") [mkattr [] (str "xmlns") ns_client; mkattr [] (str "version") (str "2.0")]]))
    = EStream c_unsupported_version /\
  fst (fst (expect parse_ex true false info_zero [TComment; hdr_tok])) = EOther /\
  fst (fst (expect parse_ex true true info_zero [hdr_tok])) = EStream c_invalid_namespace.
Proof. vm_compute. repeat split; reflexivity. Qed.

(* a stream error with a text and a condition *)
Definition err_kids : list node :=
  [NText (str " "); NElem ns_stream_error (str "host-unknown") [] [];
   NElem ns_stream_error (str "text") [mkattr ns_xml (str "lang") (str "en")] [NText (str "no such host")]].
Example ex_stream_error :
  expect parse_ex false false info_zero
    (TStart ns_stream (str "error") [] :: flat_map flatten err_kids ++ [TEnd ns_stream (str "error")])
  = (EStream (str "host-unknown"), info_zero, []).
Proof. vm_compute. reflexivity. Qed.

(* ... and with an application-specific condition after the defined one *)
Example ex_stream_error_app :
  expect parse_ex true true info_zero
    (TStart ns_stream (str "error") [] ::
     flat_map flatten (err_kids ++ [NElem (str "urn:example:app") (str "too-many") [] [NElem (str "urn:example:app") (str "n") [] []]])
     ++ [TEnd ns_stream (str "error")])
  = (EStream (str "host-unknown"), info_zero, []).
Proof. vm_compute. reflexivity. Qed.

(* a receiving c2s session: first header sets both addresses, the restart
   repeats them; then one that changes the origin's resourcepart is refused *)
Definition peer_hdr (from : jid) : list tok :=
  [tcp_token ns_client default_version [] (jid_string srv) (jid_string from) []].
Example ex_rounds_ok :
  let '(res, i, wires) := neg_rounds parse_ex true false false (str "en") info_zero
                                     [(str "id1", peer_hdr me); (str "id2", peer_hdr me)] in
  res = NOk /\ i_to i = srv /\ i_from i = me /\ length wires = 2%nat.
Proof. vm_compute. repeat split; reflexivity. Qed.

Definition me2 : jid := mkjid (str "me") (str "example.net") (str "other").
Definition parse_ex2 (v : bytes) : option jid :=
  if bytes_eqb v (jid_string me2) then Some me2 else parse_ex v.
Example ex_rounds_changed :
  fst (fst (neg_rounds parse_ex2 true false false (str "en") info_zero
                       [(str "id1", peer_hdr me); (str "id2", peer_hdr me2)])) = NMismatch.
Proof. vm_compute. reflexivity. Qed.

(* the initiating side: the peer's header after a restart names another domain *)
Definition srv_hdr (from : jid) : list tok :=
  [tcp_token ns_client default_version [] [] (jid_string from) (str "s1")].
Example ex_init_changed :
  fst (fst (neg_rounds parse_ex2 false false false [] (mkinfo [] [] [] me srv [] (0, 0) [])
                       [([], srv_hdr srv); ([], srv_hdr me2)])) = NMismatch /\
  fst (fst (neg_rounds parse_ex2 false false false [] (mkinfo [] [] [] me srv [] (0, 0) [])
                       [([], srv_hdr srv); ([], srv_hdr srv)])) = NOk.
Proof. vm_compute. split; reflexivity. Qed.

(* resource binding *)
Example ex_bind_request :
  flatten (bind_request (str "r1") (str "it's <&>")) =
  [TStart ns_client (str "iq") [mkattr [] (str "type") (str "set"); mkattr [] (str "id") (str "r1")];
   TStart ns_bind (str "bind") []; TStart ns_bind (str "resource") []; TChar (str "it's <&>");
   TEnd ns_bind (str "resource"); TEnd ns_bind (str "bind"); TEnd ns_client (str "iq")].
Proof. vm_compute. reflexivity. Qed.
Example ex_bind_request_none :
  flatten (bind_request (str "r1") []) =
  [TStart ns_client (str "iq") [mkattr [] (str "type") (str "set"); mkattr [] (str "id") (str "r1")];
   TStart ns_bind (str "bind") []; TEnd ns_bind (str "bind"); TEnd ns_client (str "iq")].
Proof. vm_compute. reflexivity. Qed.
Example ex_bind_hyp : is_nil (jid_string me) = false /\ parse_ex (jid_string me) = Some me /\ me <> jid_zero.
Proof. repeat split; try (vm_compute; reflexivity). discriminate. Qed.
(* a result without an address, a wrong id, an error reply: refused, address kept *)
Example ex_bind_refused :
  bind_client parse_ex (str "r1") (IElem (NElem ns_client (str "iq") [mkattr [] (str "type") (str "result"); mkattr [] (str "id") (str "r1")] [])) me
    = (BStream c_bad_format, me) /\
  bind_client parse_ex (str "r1") (IElem (NElem ns_client (str "iq") [mkattr [] (str "type") (str "result"); mkattr [] (str "id") (str "r2")]
                                       [NElem ns_bind (str "bind") [] [NElem ns_bind (str "jid") [] [NText (jid_string me)]]])) srv
    = (BStream c_undefined_condition, srv) /\
  bind_client parse_ex (str "r1") (IElem (NElem ns_client (str "iq") [mkattr [] (str "type") (str "error"); mkattr [] (str "id") (str "r1")] [])) me
    = (BStanzaErr, me).
Proof. vm_compute. repeat split; reflexivity. Qed.
(* the default of the receiving side: a fresh resource on the remote bare address *)
Example ex_default : default_verdict me (str "f00d") = VJid (mkjid (str "me") (str "example.net") (str "f00d")).
Proof. reflexivity. Qed.

(* initiating side: two accepted (re)starts; then a header naming another
   address for us is refused; one with to='' (the witness of the defect repaired
   in negotiator.go) is tolerated and our address is kept *)
Definition srv_hdr_to (to : bytes) : list tok :=
  [TStart ns_stream (str "stream")
     ([mkattr [] (str "xmlns") ns_client; mkattr [] (str "version") (str "1.0"); mkattr [] (str "id") (str "s1");
       mkattr [] (str "from") (jid_string srv)] ++ [mkattr [] (str "to") to])].
Example ex_init_rounds :
  let '(res, i, wires) := neg_rounds parse_ex2 false false false [] (mkinfo [] [] [] me srv [] (0, 0) [])
                                     [([], srv_hdr_to (jid_string me)); ([], srv_hdr_to (jid_string me))] in
  res = NOk /\ i_to i = me /\ i_from i = srv /\ length wires = 2%nat.
Proof. vm_compute. repeat split; reflexivity. Qed.
Example ex_init_to_changed :
  fst (fst (neg_rounds parse_ex2 false false false [] (mkinfo [] [] [] me srv [] (0, 0) [])
                       [([], srv_hdr_to (jid_string me)); ([], srv_hdr_to (jid_string me2))])) = NMismatch.
Proof. vm_compute. reflexivity. Qed.
Example ex_init_empty_to :
  let '(res, i, _) := neg_rounds parse_ex2 false false false [] (mkinfo [] [] [] me srv [] (0, 0) [])
                                 [([], srv_hdr_to [])] in
  res = NOk /\ i_to i = me /\ i_from i = srv.
Proof. vm_compute. repeat split; reflexivity. Qed.

(* the language of a received header is recorded *)
Example ex_lang_recorded :
  i_lang (snd (fst (expect parse_ex true false info_zero [hdr_tok]))) = str "en".
Proof. vm_compute. reflexivity. Qed.

(* the default verdict when nothing is known about the peer *)
Example ex_default_none : default_verdict jid_zero (str "f00d") = VFail.
Proof. reflexivity. Qed.

(* a callback stanza error: the error reply is written and the step fails with it *)
Example ex_bind_server_error :
  let en := [NElem ns_client (str "error") [mkattr [] (str "type") (str "cancel")]
               [NElem (str "urn:ietf:params:xml:ns:xmpp-stanzas") (str "conflict") [] []]] in
  let '(res, cb, reply) := bind_server parse_ex false (IElem (bind_request (str "r1") (str "x"))) (VStanzaErr en) in
  res = BStanzaErr /\ cb = Some (str "x") /\
  reply = flatten (NElem ns_client (str "iq") [mkattr [] (str "type") (str "error"); mkattr [] (str "id") (str "r1")] en).
Proof. vm_compute. repeat split; reflexivity. Qed.

(* three default binds with one feature value (premises of
   C12_bind_receiver_fresh_per_negotiation): two clients of the same account and
   the server, distinct draws, distinct resources *)
Definition negs_ex : list (jid * item * bytes) :=
  [(me, IElem (bind_request (str "r1") (str "x")), str "aaaa");
   (me, IElem (bind_request (str "r2") []), str "bbbb");
   (srv, IElem (bind_request (str "r3") (str "y")), str "cccc")].
Example ex_negs_ok : Forall (neg_ok parse_ex false) negs_ex.
Proof.
  repeat constructor; try (cbn; discriminate);
    eexists _, _, _; (split; [reflexivity | vm_compute; reflexivity]).
Qed.
Example ex_negs_nodup : NoDup (map snd negs_ex).
Proof. repeat constructor; cbn; intuition discriminate. Qed.
Example ex_negs_run :
  map fst (bind_default_many parse_ex false negs_ex) = [BReady; BReady; BReady] /\
  map j_res (map assigned negs_ex) = [str "aaaa"; str "bbbb"; str "cccc"].
Proof. vm_compute. split; reflexivity. Qed.
Example ex_nodupb : nodupb [str "a"; str "b"; str "a"] = false /\ nodupb [str "a"; str "b"] = true.
Proof. vm_compute. split; reflexivity. Qed.
Example ex_send_name : send_name true = (ns_ws, str "open") /\ send_name false = (ns_stream, str "stream").
Proof. split; reflexivity. Qed.
