(* C12/Properties.v — the property theorems of C12 and nothing else.
   "Negotiation carries addresses and identifiers faithfully and checks them." *)
From XV Require Import lib.Bytes gen.StreamHdr C12.Model C12.Proofs.
From Coq Require Import NArith.
Local Open Scope N_scope.

(* The source still says what the model of Send assumes: the literals the header
   is printed from, the attributes written through writeAttr (escaped), the name
   spaces, the XML declaration, the default version, the IQ type names. *)
Theorem C12_tables :
  (send_literals =
   [ str "open"; str "stream";
     str "<open xmlns=""urn:ietf:params:xml:ns:xmpp-framing"" version='%s'";
     str "<stream:stream xmlns='%s' xmlns:stream='http://etherx.jabber.org/streams' version='%s'";
     str "id"; str "to"; str "from"; str "xml:lang"; str "/>"; str ">" ] /\
   write_attr_literals = [ str " %s='" ] /\
   send_attr_calls = [ (str "id", str "id"); (str "to", str "to"); (str "from", str "from"); (str "xml:lang", str "lang") ] /\
   send_escaped_params = [ str "value" ] /\
   send_recorded_names = [ (str "wsNamespace", str "open"); (str "stream.NS", str "stream") ]) /\
  (ns_stream = str "http://etherx.jabber.org/streams" /\
   ns_stream_error = str "urn:ietf:params:xml:ns:xmpp-streams" /\
   ns_client = str "jabber:client" /\ ns_server = str "jabber:server" /\
   ns_ws = str "urn:ietf:params:xml:ns:xmpp-framing" /\
   ns_bind = str "urn:ietf:params:xml:ns:xmpp-bind" /\
   ns_xml = str "http://www.w3.org/XML/1998/namespace" /\
   xml_header = str "<?xml version=""1.0"" encoding=""UTF-8""?>" /\
   default_version = (1, 0) /\
   iq_set = str "set" /\ iq_result = str "result" /\ iq_error = str "error").
Proof. exact (conj tbl_send_literals tbl_namespaces). Qed.
Print Assumptions C12_tables.

(* ---- the header Send prints ---- *)

(* Well-formed for every clean id, language and pair of addresses (any bytes a
   valid JID may hold: quotes, ampersands, angle brackets, non-ASCII), any version,
   and a peer's parser reads back exactly the element and attribute values sent.
   TCP framing: the name space given must be printable as it is (Send prints it raw). *)
Theorem C12_header_wellformed_and_recovered_tcp :
  forall xmlns ver lang to from id rest,
    forallb plainb xmlns = true -> text_ok xmlns = true ->
    fst ver < 256 -> snd ver < 256 ->
    text_ok lang = true -> text_ok to = true -> text_ok from = true -> text_ok id = true ->
    read_start (send_header false xmlns ver lang to from id ++ rest) =
    Some (tcp_token xmlns ver lang to from id, false, rest).
Proof. exact read_start_tcp. Qed.
Print Assumptions C12_header_wellformed_and_recovered_tcp.

(* WebSocket framing: a self-closing <open/> in the framing name space. *)
Theorem C12_header_wellformed_and_recovered_ws :
  forall xmlns ver lang to from id rest,
    fst ver < 256 -> snd ver < 256 ->
    text_ok lang = true -> text_ok to = true -> text_ok from = true -> text_ok id = true ->
    read_start (send_header true xmlns ver lang to from id ++ rest) =
    Some (ws_token ver lang to from id, true, rest).
Proof. exact read_start_ws. Qed.
Print Assumptions C12_header_wellformed_and_recovered_ws.

(* The opening element Send records in the output stream info (from which Close
   picks the closing element) is the element the peer reads: the two tokens of
   the theorems above carry the name [send_name]. *)
Theorem C12_send_records_opening_element :
  (forall xmlns ver lang to from id, tok_name (tcp_token xmlns ver lang to from id) = send_name false) /\
  (forall ver lang to from id, tok_name (ws_token ver lang to from id) = send_name true).
Proof. exact send_name_is_printed. Qed.
Print Assumptions C12_send_records_opening_element.

(* Version.String then ParseVersion is the identity on every version. *)
Theorem C12_version_roundtrip :
  forall v, fst v < 256 -> snd v < 256 -> parse_version (version_string v) = Some v.
Proof. exact parse_version_string. Qed.
Print Assumptions C12_version_roundtrip.

(* The peer being this library: Send, a parser, Expect. For all valid addresses,
   language and id, both roles: the header is accepted (an initiator needs an
   id) and Info holds the same addresses, id, version, language and content
   name space ([recovered]: every non-empty value sent replaces the Info's). *)
Theorem C12_header_recovered_by_expect_tcp :
  forall parse recv i0 xmlns lang jto jfrom id rest,
    xmlns = ns_client \/ xmlns = ns_server ->
    valid_jid parse jto -> valid_jid parse jfrom -> valid_value lang -> valid_value id ->
    exists t,
      read_start (send_header false xmlns default_version lang (jid_string jto) (jid_string jfrom) id ++ rest)
        = Some (t, false, rest) /\
      t = tcp_token xmlns default_version lang (jid_string jto) (jid_string jfrom) id /\
      let i' := recovered i0 ns_stream (str "stream") xmlns jto jfrom id lang in
      expect parse recv false i0 [t] =
        if negb recv && is_nil (i_id i') then (EStream c_bad_format, i', []) else (EOk, i', []).
Proof. exact header_end_to_end_tcp. Qed.
Print Assumptions C12_header_recovered_by_expect_tcp.

Theorem C12_header_recovered_by_expect_ws :
  forall parse recv i0 xmlns lang jto jfrom id rest,
    valid_jid parse jto -> valid_jid parse jfrom -> valid_value lang -> valid_value id ->
    exists t,
      read_start (send_header true xmlns default_version lang (jid_string jto) (jid_string jfrom) id ++ rest)
        = Some (t, true, rest) /\
      t = ws_token default_version lang (jid_string jto) (jid_string jfrom) id /\
      let i' := recovered i0 ns_ws (str "open") ns_ws jto jfrom id lang in
      expect parse recv true i0 [t; TEnd ns_ws (str "open")] =
        if negb recv && is_nil (i_id i') then (EStream c_bad_format, i', []) else (EOk, i', []).
Proof. exact header_end_to_end_ws. Qed.
Print Assumptions C12_header_recovered_by_expect_ws.

(* what [recovered] holds, spelled out: the values sent *)
Theorem C12_recovered_values :
  forall i0 ns l xmlns jto jfrom id lang,
    let i' := recovered i0 ns l xmlns jto jfrom id lang in
    i_ns i' = ns /\ i_local i' = l /\ i_xmlns i' = xmlns /\ i_ver i' = default_version /\
    (jid_string jto <> [] -> i_to i' = jto) /\ (jid_string jfrom <> [] -> i_from i' = jfrom) /\
    (id <> [] -> i_id i' = id) /\ (lang <> [] -> i_lang i' = lang).
Proof. exact recovered_values. Qed.
Print Assumptions C12_recovered_values.

(* ---- what Expect accepts ---- *)

(* Expect succeeds only on: white space after at most one leading XML
   declaration, then the stream-open element of the framing in use; the Info it
   leaves holds version 1.0, (TCP) a supported content name space and (initiator)
   a stream id; for WebSocket framing the rest of <open/> was skipped. For every
   token script a decoder can produce and every Info. *)
Theorem C12_expect_accepts_only :
  forall parse ts recv ws i i' rest,
    no_end_before_start ts = true ->
    expect parse recv ws i ts = (EOk, i', rest) ->
    exists pre ns l attrs post,
      ts = pre ++ TStart ns l attrs :: post /\
      clean_prefix false pre = true /\
      is_header ws ns l /\
      from_start_element parse ns l attrs i = (None, i') /\
      i_ver i' = default_version /\
      (ws = false -> i_xmlns i' = ns_client \/ i_xmlns i' = ns_server) /\
      (recv = false -> i_id i' <> []) /\
      (if ws then ws_skip 0 post = (EOk, rest) else rest = post).
Proof. intros parse ts recv ws i i' rest. exact (expect_go_ok parse ts recv ws false i i' rest). Qed.
Print Assumptions C12_expect_accepts_only.

(* With the Info negotiateSession hands over (reset before every header), the
   accepted element itself declares version 1.0, the content name space and the id. *)
Theorem C12_expect_accepted_header_declares :
  forall parse recv ws ts i i' rest,
    no_end_before_start ts = true ->
    i_ver i <> default_version -> i_xmlns i = [] -> i_id i = [] ->
    expect parse recv ws i ts = (EOk, i', rest) ->
    exists pre ns l attrs post,
      ts = pre ++ TStart ns l attrs :: post /\ clean_prefix false pre = true /\ is_header ws ns l /\
      has_attr attrs (str "version") (fun v => parse_version v = Some default_version) /\
      (ws = false -> has_attr attrs (str "xmlns") (fun v => v = ns_client \/ v = ns_server)) /\
      (recv = false -> has_attr attrs (str "id") (fun v => v <> [])) /\
      (if ws then ws_skip 0 post = (EOk, rest) else rest = post).
Proof. exact accepted_declares. Qed.
Print Assumptions C12_expect_accepted_header_declares.

(* A stream error in place of a header comes back as that error (the condition
   is the last child of the stream error name space that is not <text/>), for
   every list of children — defined conditions, <text/>, application-specific
   conditions in other name spaces, character data — in both roles and framings. *)
Theorem C12_stream_error_returned :
  forall parse recv ws i attrs kids ens el rest,
    expect parse recv ws i (TStart ns_stream (str "error") attrs :: flat_map flatten kids ++ TEnd ens el :: rest)
    = (EStream (cond_of kids []), i, []).
Proof. exact stream_error_returned. Qed.
Print Assumptions C12_stream_error_returned.

(* ---- addresses across restarts ---- *)

(* Receiving side, any sequence of stream (re)starts that is accepted to the
   end: an address once established never changes (c2s: the origin may be set
   once while it is unset; s2s: it can never change). *)
Theorem C12_restart_addresses_stable_receiving :
  forall parse s2s ws lang rounds i i' wires,
    neg_rounds parse true s2s ws lang i rounds = (NOk, i', wires) ->
    (i_to i <> jid_zero -> i_to i' = i_to i) /\
    (i_from i <> jid_zero -> i_from i' = i_from i) /\
    (s2s = true -> i_from i' = i_from i).
Proof. intros parse s2s ws lang. exact (rounds_recv parse s2s ws lang). Qed.
Print Assumptions C12_restart_addresses_stable_receiving.

(* Initiating side: both addresses are those the session started with (a header
   without "to", or with an empty one, is tolerated and changes nothing). *)
Theorem C12_restart_addresses_stable_initiating :
  forall parse s2s ws lang rounds i i' wires,
    neg_rounds parse false s2s ws lang i rounds = (NOk, i', wires) ->
    i_to i' = i_to i /\ i_from i' = i_from i.
Proof. intros parse s2s ws lang. exact (rounds_init parse s2s ws lang). Qed.
Print Assumptions C12_restart_addresses_stable_initiating.

(* One (re)start: a header after which an established address would differ is refused. *)
Theorem C12_changed_address_rejected_receiving :
  forall parse s2s ws lang rid i ts res i' w,
    neg_round parse true s2s ws lang rid i ts = (res, i', w) ->
    (i_to i <> jid_zero /\ i_to i' <> i_to i) \/
    (i_from i <> jid_zero /\ i_from i' <> i_from i) \/
    (s2s = true /\ i_from i' <> i_from i) ->
    res <> NOk.
Proof. exact changed_address_rejected_recv. Qed.
Print Assumptions C12_changed_address_rejected_receiving.

Theorem C12_changed_address_rejected_initiating :
  forall parse s2s ws lang rid i ts res i' w,
    neg_round parse false s2s ws lang rid i ts = (res, i', w) ->
    i_to i' <> i_to i \/ i_from i' <> i_from i ->
    res <> NOk.
Proof. exact changed_address_rejected_init. Qed.
Print Assumptions C12_changed_address_rejected_initiating.

(* An accepted (re)start on the receiving side answers with the header printed
   from the peer's addresses (swapped), the configured language and the fresh id. *)
Theorem C12_receiving_side_answers_with_swapped_addresses :
  forall parse s2s ws lang rid i ts i' w,
    neg_round parse true s2s ws lang rid i ts = (NOk, i', w) ->
    w = send_header ws (content_ns s2s) default_version lang (jid_string (i_from i')) (jid_string (i_to i')) rid.
Proof. intros parse s2s ws lang rid i ts i' w H. exact (proj2 (proj2 (round_recv parse s2s ws lang rid i ts i' w H))). Qed.
Print Assumptions C12_receiving_side_answers_with_swapped_addresses.

(* ---- resource binding ---- *)

(* The initiator's request, decoded by the receiving side, asks for exactly the
   resourcepart given (the empty one when the local address has none): the
   application's callback receives it. *)
Theorem C12_bind_initiator_requests_own_resource :
  forall parse reqid res v,
    snd (fst (bind_server parse false (IElem (bind_request reqid res)) v)) = Some res.
Proof. exact server_gets_resource. Qed.
Print Assumptions C12_bind_initiator_requests_own_resource.

(* The initiator reports the assigned address exactly when the reply is an iq
   result with the request's id carrying an address; in every other case (error,
   wrong id, wrong type, no or invalid address, not an iq, failure) it fails and
   its address is unchanged. *)
Theorem C12_bind_initiator_adopts_assigned :
  forall parse reqid reply local res l',
    bind_client parse reqid reply local = (res, l') ->
    (res = BReady ->
       exists attrs kids q,
         reply = IElem (NElem ns_client (str "iq") attrs kids) /\
         decode_bind_iq parse attrs kids = Some q /\
         b_id q = reqid /\ b_type q = iq_result /\ b_jid q <> jid_zero /\ l' = b_jid q) /\
    (res <> BReady -> l' = local).
Proof. exact bind_client_spec. Qed.
Print Assumptions C12_bind_initiator_adopts_assigned.

(* The receiver answers the request's id, addresses swapped, with the address
   the callback chose (VJid; the default verdict is a fresh resource on the
   remote bare address) and is ready, or with the callback's stanza error in a
   reply typed "error", after which the negotiation step fails with that stanza
   error (nothing was bound: not ready); any other callback error: no reply. *)
Theorem C12_bind_receiver_answers_request :
  forall parse s2s attrs kids v q,
    decode_bind_iq parse attrs kids = Some q ->
    bind_server parse s2s (IElem (NElem (content_ns s2s) (str "iq") attrs kids)) v =
    match v with
    | VFail => (BOther, Some (b_resource q), [])
    | VJid j =>
        (BReady, Some (b_resource q),
         flatten (NElem (content_ns s2s) (str "iq") (iq_attrs iq_result (b_from q) (b_to q) (attr_first (str "id") attrs))
                        [NElem ns_bind (str "bind") [] (payload_nodes [] j)]))
    | VStanzaErr en =>
        (BStanzaErr, Some (b_resource q),
         flatten (NElem (content_ns s2s) (str "iq") (iq_attrs iq_error (b_from q) (b_to q) (attr_first (str "id") attrs)) en))
    end.
Proof. exact bind_server_reply. Qed.
Print Assumptions C12_bind_receiver_answers_request.

(* Both sides together: request -> receiver -> reply -> initiator adopts the
   address the callback chose; a callback stanza error fails the receiver's
   step, reaches the initiator as an error and leaves its address alone. *)
Theorem C12_bind_roundtrip :
  forall parse reqid res j local,
    is_nil (jid_string j) = false -> parse (jid_string j) = Some j -> j <> jid_zero ->
    exists n,
      bind_server parse false (IElem (bind_request reqid res)) (VJid j) = (BReady, Some res, flatten n) /\
      bind_client parse reqid (IElem n) local = (BReady, j).
Proof. exact bind_roundtrip_jid. Qed.
Print Assumptions C12_bind_roundtrip.

Theorem C12_bind_roundtrip_error :
  forall parse reqid res ens a ks local,
    exists n,
      bind_server parse false (IElem (bind_request reqid res)) (VStanzaErr [NElem ens (str "error") a ks])
        = (BStanzaErr, Some res, flatten n) /\
      bind_client parse reqid (IElem n) local = (BStanzaErr, local).
Proof. exact bind_roundtrip_error. Qed.
Print Assumptions C12_bind_roundtrip_error.

(* Without a callback the receiver chooses the given fresh resource on the
   peer's bare address (and then answers as above with VJid); when no address
   is known for the peer nothing can be bound and bind fails without a reply. *)
Theorem C12_bind_receiver_default_address :
  forall remote rid,
    (j_domain remote <> [] ->
     default_verdict remote rid = VJid (mkjid (j_local remote) (j_domain remote) rid)) /\
    (j_domain remote = [] -> default_verdict remote rid = VFail).
Proof. exact default_verdict_spec. Qed.
Print Assumptions C12_bind_receiver_default_address.

(* Fresh per negotiation: any number of bind negotiations performed with one and
   the same feature value and no callback (peer address known, request decodes).
   The k-th negotiation is ready and answers with the k-th attr.RandomID() draw
   as resource on its own peer's bare address; when the draws are pairwise
   distinct so are the assigned resourceparts. *)
Theorem C12_bind_receiver_fresh_per_negotiation :
  forall parse s2s negs,
    Forall (neg_ok parse s2s) negs ->
    bind_default_many parse s2s negs = map (default_reply parse s2s) negs /\
    Forall (fun r => fst r = BReady) (bind_default_many parse s2s negs) /\
    map j_res (map assigned negs) = map snd negs /\
    (NoDup (map snd negs) -> NoDup (map j_res (map assigned negs))).
Proof. exact bind_fresh_per_negotiation. Qed.
Print Assumptions C12_bind_receiver_fresh_per_negotiation.
