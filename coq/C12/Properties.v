(* C12/Properties.v — the property theorems of C12 and nothing else. *)
From XV Require Import lib.Bytes gen.StreamHdr C12.Model C12.Proofs.
